import PP.Model.FuncAt
/-
Vocabulary for the statements about `getFuncAST` (C19d): the nodes of a
subtree, "every node of the subtree starts before `off`", "the subtree holds
no function declaration" (true of the subtrees of a `FuncDecl` and of a
`GenDecl`: function literals are `*ast.FuncLit`), "declarations in source
order".
-/
namespace PP.FA

mutual
/-- the nodes of the subtree, in `ast.Inspect` order (the node first) -/
def nodes : Node → List Node
  | ⟨p, f, d, cs⟩ => ⟨p, f, d, cs⟩ :: nodesL cs
/-- the nodes of the subtrees of a list of siblings -/
def nodesL : List Node → List Node
  | [] => []
  | c :: cs => nodes c ++ nodesL cs
end

/-- every node of the subtree has a position `< off` -/
def AllBefore (off : Nat) (n : Node) : Prop := ∀ m ∈ nodes n, m.pos < off

/-- every node of the subtrees of the siblings has a position `< off` -/
def AllBeforeL (off : Nat) (ns : List Node) : Prop := ∀ m ∈ nodesL ns, m.pos < off

/-- some node of the subtrees has a position `≥ off` -/
def ReachesL (off : Nat) (ns : List Node) : Prop := ∃ m ∈ nodesL ns, off ≤ m.pos

/-- no node of the subtrees is a function declaration -/
def NoDeclL (ns : List Node) : Prop := ∀ m ∈ nodesL ns, m.isFuncDecl = false

/-- the declaration remembered after visiting `ns` in order, starting from
`init`: the last `FuncDecl` -/
def lastDecl (init : Option Nat) (ns : List Node) : Option Nat :=
  ns.foldl (fun acc m => if m.isFuncDecl then some m.decl else acc) init

/-- top-level items in source order: every node of an earlier item lies before
the start of every later item (each item's nodes are inside its extent and the
extents follow one another) -/
def Ordered (items : List Node) : Prop :=
  items.Pairwise (fun a b => AllBefore b.pos a)

instance (off : Nat) (n : Node) : Decidable (AllBefore off n) := by unfold AllBefore; infer_instance
instance (off : Nat) (ns : List Node) : Decidable (AllBeforeL off ns) := by unfold AllBeforeL; infer_instance
instance (off : Nat) (ns : List Node) : Decidable (ReachesL off ns) := by unfold ReachesL; infer_instance
instance (ns : List Node) : Decidable (NoDeclL ns) := by unfold NoDeclL; infer_instance
instance (items : List Node) : Decidable (Ordered items) := by unfold Ordered; infer_instance

end PP.FA
