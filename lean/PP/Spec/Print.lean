import PP.Model.Scan
/-
Specification side of C01 / C08: a Lean model of the Go runtime's traceback
printer (runtime/traceback.go: goroutineheader, traceback2, printFuncName,
printArgs, printcreatedby, tracebackothers) and of tsan's Go report printer,
together with the snapshot a printed dump *describes* (computed from the
description, never by parsing).

This file mirrors `harness/gen_dump.go` / `gen_race.go` (GSpec, FrameSpec,
ArgSpec, PrintCfg.Goroutine, PrintCfg.Dump, printArgList, escapePkg,
ExpectedGoroutines, expCall, expFunc, RaceSpec.Print, RaceSpec.Expected); the
harness property `SPEC` compares the bytes and the expectation computed here
with the Go generator on every run, and the Go generator is compared with the
real parser by C01 / C08.
-/
namespace PP.Spec
open PP Bytes

/-! ### descriptions -/

/-- one printed argument: a word (`0x…`, possibly followed by `?`), the
"offset too large" marker `_`, or an aggregate `{…}` -/
inductive ArgSpec where
  | val (v : Nat) (inacc : Bool)
  | otl
  | agg (fields : List ArgSpec) (elided : Bool)
  deriving Repr, Inhabited

structure FrameSpec where
  /-- unescaped package path, `[]` for C-like symbols -/
  pkg : Bytes := []
  /-- rest of the symbol after the package dot -/
  name : Bytes := []
  args : List ArgSpec := []
  /-- trailing `, ...` -/
  argsElide : Bool := false
  /-- printed as `(...)` -/
  inlined : Bool := false
  file : Bytes := []
  line : Nat := 0
  /-- ` +0x<hex>` -/
  off : Option Nat := none
  /-- ` fp=0x… sp=0x…[ pc=0x…]` -/
  fp : Option (Nat × Nat × Option Nat) := none
  deriving Repr, Inhabited

structure GSpec where
  id : Nat := 0
  state : Bytes := []
  /-- the wait reason is followed by ` (scan)` -/
  scan : Bool := false
  /-- `, N minutes` when positive -/
  waitMin : Nat := 0
  locked : Bool := false
  /-- ` gp=X m=Y[ mp=Z]` -/
  gpm : Option (Bytes × Bytes × Option Bytes) := none
  unavail : Bool := false
  frames : List FrameSpec := []
  /-- the elision marker: (`some n`: `...n frames elided...`, `none`: the old
  `...additional frames elided...`), printed before the frame with this index -/
  elided : Option (Option Nat × Nat) := none
  /-- the creator frame and the parent goroutine id (` in goroutine N`) -/
  created : Option (FrameSpec × Option Nat) := none
  deriving Repr, Inhabited

structure PrintCfg where
  crlf : Bool := false
  indent : Bytes := []
  fileIndent : Bytes := [9]
  deriving Repr, Inhabited

/-! ### the printer -/

def hexDigitLower (n : Nat) : UInt8 := if n < 10 then (48 + n).toUInt8 else (87 + n).toUInt8

/-- `%xx` (lower case) -/
def escByte (c : UInt8) : Bytes := [37, hexDigitLower (c.toNat / 16), hexDigitLower (c.toNat % 16)]

/-- bytes that cmd/internal/objabi.PathToPrefix always escapes -/
def needsEsc (c : UInt8) : Bool := c ≤ 32 || c == 37 || c == 34 || c ≥ 127

/-- escape byte-wise; `dots`: also escape '.' -/
def escWith (dots : Bool) : Bytes → Bytes
  | [] => []
  | c :: t => (if needsEsc c || (dots && c == 46) then escByte c else [c]) ++ escWith dots t

/-- objabi.PathToPrefix: escape bytes ≤ ' ', '%', '"', ≥ 0x7f everywhere and
'.' after the last '/' -/
def escapePkg (p : Bytes) : Bytes :=
  match lastIndexByte p 47 with
  | some i => escWith false (p.take (i + 1)) ++ escWith true (p.drop (i + 1))
  | none => escWith true p

def FrameSpec.symbol (f : FrameSpec) : Bytes :=
  if f.pkg = [] then f.name else escapePkg f.pkg ++ b!"." ++ f.name

mutual
def printArg : ArgSpec → Bytes
  | .val v inacc => b!"0x" ++ natToHex v ++ (if inacc then b!"?" else [])
  | .otl => b!"_"
  | .agg fs e => b!"{" ++ join b!", " (printArgItems fs ++ (if e then [b!"..."] else [])) ++ b!"}"
def printArgItems : List ArgSpec → List Bytes
  | [] => []
  | a :: as => printArg a :: printArgItems as
end

/-- printArgList: the items separated by `, `, then `...` if elided -/
def printArgList (as : List ArgSpec) (elided : Bool) : Bytes :=
  join b!", " (printArgItems as ++ (if elided then [b!"..."] else []))

def PrintCfg.eol (c : PrintCfg) : Bytes := if c.crlf then [13, 10] else [10]

def offText : Option Nat → Bytes
  | none => []
  | some o => b!" +0x" ++ natToHex o

def fpText : Option (Nat × Nat × Option Nat) → Bytes
  | none => []
  | some (fp, sp, pc) =>
    b!" fp=0x" ++ natToHex fp ++ b!" sp=0x" ++ natToHex sp ++
      (match pc with | none => [] | some pc => b!" pc=0x" ++ natToHex pc)

/-- `sym(args)` -/
def funcLine (f : FrameSpec) : Bytes :=
  f.symbol ++ b!"(" ++ (if f.inlined then b!"..." else printArgList f.args f.argsElide) ++ b!")"

/-- `file:line[ +0x…][ fp=…]` -/
def fileText (f : FrameSpec) : Bytes :=
  f.file ++ b!":" ++ natToDec f.line ++ offText f.off ++ fpText f.fp

/-- the two lines of a frame, without the dump indentation and the end of line -/
def frameLines (c : PrintCfg) (f : FrameSpec) : List Bytes :=
  [funcLine f, c.fileIndent ++ fileText f]

def statusText (g : GSpec) : Bytes :=
  g.state ++ (if g.scan then b!" (scan)" else []) ++
    (if g.waitMin > 0 then b!", " ++ natToDec g.waitMin ++ b!" minutes" else []) ++
    (if g.locked then b!", locked to thread" else [])

def gpmText : Option (Bytes × Bytes × Option Bytes) → Bytes
  | none => []
  | some (gp, m, mp) =>
    b!" gp=" ++ gp ++ b!" m=" ++ m ++ (match mp with | none => [] | some mp => b!" mp=" ++ mp)

def headerLine (g : GSpec) : Bytes :=
  b!"goroutine " ++ natToDec g.id ++ gpmText g.gpm ++ b!" [" ++ statusText g ++ b!"]:"

def elidedMarker : Option Nat → Bytes
  | none => b!"...additional frames elided..."
  | some n => b!"..." ++ natToDec n ++ b!" frames elided..."

def unavailLine (c : PrintCfg) : Bytes := c.fileIndent ++ unavailText

/-- the frames, with the elision marker before the frame with index `at`
(no marker when there is no such frame) -/
def stackLines (c : PrintCfg) (fs : List FrameSpec) (el : Option (Option Nat × Nat)) : List Bytes :=
  match el with
  | none => fs.flatMap (frameLines c)
  | some (cnt, pos) =>
    if pos < fs.length then
      (fs.take pos).flatMap (frameLines c) ++ [elidedMarker cnt] ++ (fs.drop pos).flatMap (frameLines c)
    else fs.flatMap (frameLines c)

def parentText : Option Nat → Bytes
  | none => []
  | some p => b!" in goroutine " ++ natToDec p

def createdLines (c : PrintCfg) : Option (FrameSpec × Option Nat) → List Bytes
  | none => []
  | some (f, parent) =>
    [b!"created by " ++ f.symbol ++ parentText parent,
     c.fileIndent ++ (f.file ++ b!":" ++ natToDec f.line ++ offText f.off)]

/-- the lines of one goroutine, without the dump indentation and the end of line -/
def goroutineLines (c : PrintCfg) (g : GSpec) : List Bytes :=
  [headerLine g] ++ (if g.unavail then [unavailLine c] else stackLines c g.frames g.elided) ++
    createdLines c g.created

def printGoroutine (c : PrintCfg) (g : GSpec) : Bytes :=
  (goroutineLines c g).flatMap (fun l => c.indent ++ l ++ c.eol)

/-- tracebackothers: goroutines separated by one blank line -/
def printDump (c : PrintCfg) (gs : List GSpec) : Bytes :=
  join c.eol (gs.map (printGoroutine c))

/-! ### the expectation -/

mutual
def expArg : ArgSpec → Arg
  | .val v inacc => .scalar [] v (isPtrValue v) false inacc
  | .otl => .scalar [] 0 false true false
  | .agg fs e => .agg (expArgs fs) e
def expArgs : List ArgSpec → List Arg
  | [] => []
  | a :: as => expArg a :: expArgs as
end

/-- the last element of a slash-separated path -/
def lastElem (p : Bytes) : Bytes :=
  match lastIndexByte p 47 with
  | some i => p.drop (i + 1)
  | none => p

/-- the isExported rule of Func.Init: in package main only `main` is exported;
elsewhere the first rune of the part after the last '.' must be its own upper case -/
def expExported (pkg name : Bytes) : Bool :=
  if pkg == b!"main" then name == b!"main"
  else toUpperIsSelf (firstRune ((splitOn name [46]).getLast?.getD []))

/-- the demangled function the property promises for a symbol built from
(pkg, name); `parent`: the ` in goroutine N` text that follows a creator -/
def expFunc (pkg name : Bytes) (parent : Option Nat) : Func :=
  { complete := (if pkg = [] then name else pkg ++ b!"." ++ name) ++ parentText parent,
    importPath := pkg, dirName := lastElem pkg, name := name,
    isExported := expExported pkg name, isPkgMain := pkg == b!"main" }

def expSrcName (file : Bytes) : Bytes :=
  match lastIndexByte file 47 with
  | some i => file.drop (i + 1)
  | none => []

/-- the last two path elements -/
def expDirSrc (file : Bytes) : Bytes :=
  match lastIndexByte file 47 with
  | some i =>
    (match lastIndexByte (file.take i) 47 with
     | some j => file.drop (j + 1)
     | none => [])
  | none => []

def expCall (f : FrameSpec) (parent : Option Nat) (withArgs : Bool) : Call :=
  { fn := expFunc f.pkg f.name parent,
    args := if withArgs then
        (if f.inlined then { elided := true } else { values := expArgs f.args, elided := f.argsElide })
      else {},
    remoteSrcPath := f.file, line := f.line,
    srcName := expSrcName f.file, dirSrc := expDirSrc f.file,
    importPath := f.pkg,
    location := if expDirSrc f.file == testMainSrc then .stdlib else .unknown }

def expState (g : GSpec) : Bytes := g.state ++ (if g.scan then b!" (scan)" else [])

def expectedG (g : GSpec) (first : Bool) : Goroutine :=
  { id := g.id, first := first,
    sig := {
      state := expState g, sleepMin := g.waitMin, sleepMax := g.waitMin, locked := g.locked,
      stack :=
        if g.unavail then { calls := [{ remoteSrcPath := b!"<unavailable>" }] }
        else { calls := g.frames.map (fun f => expCall f none true), elided := g.elided.isSome },
      createdBy :=
        match g.created with
        | none => {}
        | some (f, parent) => { calls := [expCall f parent false] } } }

/-- the snapshot the dump describes: only the first goroutine is `first` -/
def expected : List GSpec → List Goroutine
  | [] => []
  | g :: gs => expectedG g true :: gs.map (fun g => expectedG g false)

/-! ### race reports (tsan, the SANITIZER_GO branch) -/

structure RaceOp where
  write : Bool := false
  addr : Nat := 0
  id : Nat := 0
  frames : List FrameSpec := []
  deriving Repr, Inhabited

structure RaceGor where
  id : Nat := 0
  finished : Bool := false
  frames : List FrameSpec := []
  deriving Repr, Inhabited

structure RaceSpec where
  ops : List RaceOp := []
  /-- creation sections, in printed order -/
  gors : List RaceGor := []
  deriving Repr, Inhabited

/-- `%012x` -/
def hex12 (n : Nat) : Bytes :=
  let h := natToHex n
  List.replicate (12 - h.length) 48 ++ h

def raceFrameLines (f : FrameSpec) : List Bytes :=
  [b!"  " ++ f.symbol ++ b!"(" ++ printArgList f.args f.argsElide ++ b!")",
   b!"      " ++ f.file ++ b!":" ++ natToDec f.line ++ offText f.off]

def raceOpHeader (first : Bool) (op : RaceOp) : Bytes :=
  (if first then (if op.write then b!"Write" else b!"Read")
   else (if op.write then b!"Previous write" else b!"Previous read")) ++
    b!" at 0x" ++ hex12 op.addr ++ b!" by goroutine " ++ natToDec op.id ++ b!":"

def raceOpLines (first : Bool) (op : RaceOp) : List Bytes :=
  (if first then [] else [[]]) ++ [raceOpHeader first op] ++ op.frames.flatMap raceFrameLines

def raceGorHeader (g : RaceGor) : Bytes :=
  b!"Goroutine " ++ natToDec g.id ++ (if g.finished then b!" (finished)" else b!" (running)") ++ b!" created at:"

def raceGorLines (g : RaceGor) : List Bytes :=
  [[], raceGorHeader g] ++ g.frames.flatMap raceFrameLines

def raceOpsLines : Bool → List RaceOp → List Bytes
  | _, [] => []
  | first, op :: ops => raceOpLines first op ++ raceOpsLines false ops

/-- the lines of a report, without the end of line -/
def raceLines (r : RaceSpec) : List Bytes :=
  [Extracted.raceHeaderFooter, Extracted.raceHeader] ++ raceOpsLines true r.ops ++
    r.gors.flatMap raceGorLines ++ [Extracted.raceHeaderFooter]

def printRace (crlf : Bool) (r : RaceSpec) : Bytes :=
  (raceLines r).flatMap (fun l => l ++ (if crlf then [13, 10] else [10]))

/-- the creation sections that name goroutine `id`, applied in order: the state
is overwritten, the frames accumulate -/
def raceApplyGors (id : Nat) : List RaceGor → Bytes × List Call → Bytes × List Call
  | [], acc => acc
  | g :: gs, (st, cs) =>
    if g.id = id then
      raceApplyGors id gs ((if g.finished then b!"finished" else b!"running"),
        cs ++ g.frames.map (fun f => expCall f none true))
    else raceApplyGors id gs (st, cs)

def expectedRaceG (r : RaceSpec) (op : RaceOp) (first : Bool) : Goroutine :=
  let (st, cs) := raceApplyGors op.id r.gors ([], [])
  { id := op.id, first := first, raceWrite := op.write, raceAddr := op.addr,
    sig := { state := st, stack := { calls := op.frames.map (fun f => expCall f none true) },
             createdBy := { calls := cs } } }

def expectedRace (r : RaceSpec) : List Goroutine :=
  match r.ops with
  | [] => []
  | op :: ops => expectedRaceG r op true :: ops.map (fun op => expectedRaceG r op false)

end PP.Spec
