import PP.Spec.Print
import PP.Lemmas.PrintLemmas
/-
Decidable well-formedness of a dump description: the side conditions under
which the C01 / C08 round-trip theorems hold.  Everything here is a `Bool`
computed from the description and the print configuration.
-/
namespace PP.Spec
open PP Bytes

/-- the byte does not occur -/
def lacks (s : Bytes) (c : UInt8) : Bool := s.all (· != c)

/-- a name that Func.Init would cut: `… in goroutine <word>` -/
def inGorForm (name : Bytes) : Bool :=
  match lastIndexByte name 32 with
  | some idx => hasSuffix (name.take idx) inGoroutineSuffix
  | none => false

mutual
/-- nesting depth of aggregates -/
def argDepth : ArgSpec → Nat
  | .val _ _ => 0
  | .otl => 0
  | .agg fs _ => argsDepth fs + 1
def argsDepth : List ArgSpec → Nat
  | [] => 0
  | a :: as => max (argDepth a) (argsDepth as)
end

mutual
/-- every printed word fits 64 bits -/
def argWF : ArgSpec → Bool
  | .val v _ => decide (v < 2 ^ 64)
  | .otl => true
  | .agg fs _ => argsWF fs
def argsWF : List ArgSpec → Bool
  | [] => true
  | a :: as => argWF a && argsWF as
end

/-- the function symbol of a frame.  `hasParent`: it is printed as a creator
followed by ` in goroutine N`. -/
def symWF (f : FrameSpec) (hasParent : Bool) : Bool :=
  -- the name: one line, no '/', no '%'; not ending in a carriage return
  lacks f.name 10 && lacks f.name 47 && lacks f.name 37 && f.name.getLast? != some 13 &&
  -- a C-like symbol (no package) has a non-empty name without '.'
  (f.pkg != [] || (f.name != [] && lacks f.name 46)) &&
  -- the name does not itself look like `… in goroutine N`
  (hasParent || !inGorForm f.name) &&
  -- the printed symbol starts neither with a blank nor with `created by `
  (match f.symbol.head? with | some c => !isBlank c | none => false) &&
  !hasPrefix f.symbol b!"created by "

/-- `.go`, `.s` or `.c` after a non-empty stem -/
def extOK (file : Bytes) : Bool :=
  (hasSuffix file b!".go" && file.length > 3) || (hasSuffix file b!".s" && file.length > 2) ||
    (hasSuffix file b!".c" && file.length > 2)

def fileWF (spaceIndent : Bool) (file : Bytes) : Bool :=
  lacks file 10 && (file == b!"??" || file == autogen || extOK file) &&
    (!spaceIndent || file.head? != some 32)

def PrintCfg.spaceIndent (c : PrintCfg) : Bool := c.fileIndent != [9]

/-- a frame of a stack (`created = false`) or a creator frame -/
def frameWF (c : PrintCfg) (f : FrameSpec) (created hasParent : Bool) : Bool :=
  symWF f hasParent && fileWF c.spaceIndent f.file && decide (f.line < 10 ^ 18) &&
    (created || f.inlined || (argsWF f.args && decide (argsDepth f.args ≤ 5)))

def wordWF (w : Bytes) : Bool := w != [] && lacks w 32 && lacks w 10

def gpmWF : Option (Bytes × Bytes × Option Bytes) → Bool
  | none => true
  | some (gp, m, mp) => wordWF gp && wordWF m && (match mp with | none => true | some mp => wordWF mp)

def statusWF (g : GSpec) : Bool :=
  let st := expState g
  st != [] && lacks st 10 && lacks st 93 && !hasCS st

def gWF (c : PrintCfg) (g : GSpec) : Bool :=
  decide (g.id < 10 ^ 18) && decide (g.waitMin < 10 ^ 18) && statusWF g && gpmWF g.gpm &&
  (g.unavail ||
    (!g.frames.isEmpty && g.frames.all (fun f => frameWF c f false false) &&
      (match g.elided with
       | none => true
       | some (_, pos) => decide (1 ≤ pos) && decide (pos < g.frames.length)))) &&
  (match g.created with
   | none => true
   | some (f, parent) => frameWF c f true parent.isSome)

def cfgWF (c : PrintCfg) : Bool :=
  c.indent.all isBlank && (c.fileIndent == [9] || (c.fileIndent != [] && c.fileIndent.all (· == 32)))

/-- the domain of the round-trip theorem -/
def WF (c : PrintCfg) (d : List GSpec) : Bool := cfgWF c && d.all (gWF c)

end PP.Spec
