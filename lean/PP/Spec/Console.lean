import PP.Model.Console
/-
Specification vocabulary of C16: what "admitted by the filters", "block",
"the blocks of an output" and "the text without its escape sequences" mean.
-/
namespace PP.Console
open PP PP.Bytes

/-- a header is admitted when the filter expression (if any) does not match it
and the match expression (if any) matches it -/
def admitted (filter mtch : Option (Bytes → Bool)) (header : Bytes) : Bool :=
  (match filter with | none => true | some f => !f header) &&
  (match mtch with | none => true | some m => m header)

/-- the blocks (header, stack lines) of the admitted elements, in order -/
def blocksOf {α : Type} (hdr body : α → Bytes) (filter mtch : Option (Bytes → Bool)) (xs : List α) :
    List (Bytes × Bytes) :=
  (xs.filter fun e => admitted filter mtch (hdr e)).map fun e => (hdr e, body e)

/-- the text of a list of blocks -/
def render (blocks : List (Bytes × Bytes)) : Bytes := blocks.flatMap fun b => b.1 ++ b.2

/-- blocks of writeBucketsToConsole: widths and `multi` come from the whole
aggregation, before any filtering -/
def bucketBlocks (p : Palette) (bs : List Bucket) (pf : PathFormat)
    (filter mtch : Option (Bytes → Bool)) : List (Bytes × Bytes) :=
  blocksOf (fun e => bucketHeader p e pf (decide (bs.length > 1)))
    (fun e => stackLines p e.sig (calcBucketsLengths bs pf).1 (calcBucketsLengths bs pf).2 pf) filter mtch bs

/-- blocks of writeGoroutinesToConsole -/
def goroutineBlocks (p : Palette) (gs : List Goroutine) (pf : PathFormat)
    (filter mtch : Option (Bytes → Bool)) : List (Bytes × Bytes) :=
  blocksOf (fun e => goroutineHeader p e pf (decide (gs.length > 1)))
    (fun e => stackLines p e.sig (calcGoroutinesLengths gs pf).1 (calcGoroutinesLengths gs pf).2 pf) filter mtch gs

/-! ### removing escape sequences -/

def ESC : UInt8 := 27

/-- scanner state: outside a sequence, just after ESC, inside `ESC [ … ` -/
inductive StripSt | out | esc | seq
  deriving DecidableEq, Repr

/-- removes every `ESC [ … m` (ESC, `[`, then everything up to and including
the first `m`); an ESC not followed by `[` stays. -/
def stripGo : StripSt → Bytes → Bytes
  | .out, [] => []
  | .esc, [] => [ESC]
  | .seq, [] => []
  | .out, c :: t => if c = ESC then stripGo .esc t else c :: stripGo .out t
  | .esc, c :: t =>
    if c = 91 then stripGo .seq t
    else if c = ESC then ESC :: stripGo .esc t
    else ESC :: c :: stripGo .out t
  | .seq, c :: t => if c = 109 then stripGo .out t else stripGo .seq t

def stripAnsi (s : Bytes) : Bytes := stripGo .out s

/-- one escape sequence: ESC `[` body `m` with no `m` in the body -/
def IsAnsiSeq (e : Bytes) : Prop := ∃ body : Bytes, 109 ∉ body ∧ e = ESC :: 91 :: (body ++ [109])

/-- a palette field: a concatenation of escape sequences (possibly none) -/
inductive AnsiCodes : Bytes → Prop
  | nil : AnsiCodes []
  | cons {e rest : Bytes} : IsAnsiSeq e → AnsiCodes rest → AnsiCodes (e ++ rest)

/-- text without ESC -/
def NoEsc (s : Bytes) : Prop := ESC ∉ s

end PP.Console

namespace PP.Console
open PP PP.Bytes

/-- the shape of the default palette: every field is a concatenation of escape sequences -/
structure PaletteIsAnsi (p : Palette) : Prop where
  eolReset : AnsiCodes p.eolReset
  routineFirst : AnsiCodes p.routineFirst
  routine : AnsiCodes p.routine
  createdBy : AnsiCodes p.createdBy
  race : AnsiCodes p.race
  pkg : AnsiCodes p.pkg
  srcFile : AnsiCodes p.srcFile
  funcMain : AnsiCodes p.funcMain
  funcLocationUnknown : AnsiCodes p.funcLocationUnknown
  funcLocationUnknownExported : AnsiCodes p.funcLocationUnknownExported
  funcGoMod : AnsiCodes p.funcGoMod
  funcGoModExported : AnsiCodes p.funcGoModExported
  funcGOPATH : AnsiCodes p.funcGOPATH
  funcGOPATHExported : AnsiCodes p.funcGOPATHExported
  funcGoPkg : AnsiCodes p.funcGoPkg
  funcGoPkgExported : AnsiCodes p.funcGoPkgExported
  funcStdLib : AnsiCodes p.funcStdLib
  funcStdLibExported : AnsiCodes p.funcStdLibExported
  arguments : AnsiCodes p.arguments

mutual
/-- no argument name contains ESC -/
def ArgNoEsc : Arg → Prop
  | .scalar name _ _ _ _ => NoEsc name
  | .agg fs _ => ArgsNoEsc fs
def ArgsNoEsc : List Arg → Prop
  | [] => True
  | a :: as => ArgNoEsc a ∧ ArgsNoEsc as
end

/-- every dump-derived string of a call that can reach the console is ESC-free -/
structure CallNoEsc (c : Call) : Prop where
  dirName : NoEsc c.fn.dirName
  name : NoEsc c.fn.name
  remote : NoEsc c.remoteSrcPath
  loc : NoEsc c.localSrcPath
  rel : NoEsc c.relSrcPath
  srcName : NoEsc c.srcName
  processed : ∀ s ∈ c.args.processed, NoEsc s
  values : ArgsNoEsc c.args.values

structure SigNoEsc (s : Signature) : Prop where
  state : NoEsc s.state
  calls : ∀ c ∈ s.stack.calls, CallNoEsc c
  created : ∀ c ∈ s.createdBy.calls, CallNoEsc c

end PP.Console
