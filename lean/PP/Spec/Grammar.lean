import PP.Model.Scan
/-
C07, part 1 — the documented line grammar of a goroutine dump and of a race report, and a
reference automaton for it.

Nothing in this file mentions `scan`.  `PP.Lemmas.GrammarDfa` proves that the automaton
recognises exactly the grammar, `PP.Lemmas.GrammarLemmas` that `scan` simulates the automaton on
canonical lines.
-/
namespace PP
namespace Spec

/-! ### Line kinds

The scanner decides by its state which classifier it consults, and a line may satisfy several
classifiers (`created by x()` matches both the `created` and the `func` regexp).  A *canonical*
line of kind `k` is what the Go runtime prints for that kind:

* it is complete (`hasEOL`) and correctly indented (`indentOK`);
* exactly the classifier of its kind fires, and it fires successfully (a function line whose
  arguments parse, a file line whose line number parses, a `created by` line whose function
  name parses, a race operation header whose address and id parse, a race goroutine header
  whose id parses);
* every other classifier fails.

The last clause makes the kinds mutually exclusive, which is what allows a statement about
*every* (state, kind) pair: for a line on which two classifiers fire the outcome depends on
the order in which the state consults them, and the grammar does not say.  Lines that are not
canonical for any kind (e.g. `created by x()`, a function line with unparsable arguments) are
outside the scope of part 1; part 2 of C07 holds for arbitrary bytes.

Race reports print their function and file lines indented; the regexps of `parseFunc` and
`parseFile` accept leading white space, so on such a line `func`, `funcL` and `file` fire
exactly as on a dump line.  There is therefore no separate kind for race function / file
lines: the predicates would coincide (see the examples in `PP.Props.C07`).
-/

inductive Kind
  | header   -- `goroutine 1 [running]:`
  | func     -- `main.f(0x1, 0x2)` (also indented, in race reports)
  | file     -- `\t/a/b.go:12 +0x1`
  | created  -- `created by main.g` / `created by main.g in goroutine 5`
  | blank    -- the empty line
  | elided   -- `...additional frames elided...`
  | unavail  -- `\tgoroutine running on other thread; stack unavailable`
  | sep      -- `==================`
  | warn     -- `WARNING: DATA RACE`
  | raceOp   -- `Read at 0x00c0000e4030 by goroutine 7:`
  | racePrev -- `Previous write at 0x00c0000e4030 by goroutine 6:`
  | raceGor  -- `Goroutine 7 (running) created at:`
  | other    -- anything on which no classifier fires
  deriving DecidableEq, Repr

/-- is the classifier result a success? -/
def okE {ε α : Type} : Except ε α → Bool
  | .ok _ => true
  | .error _ => false

/-- `l` is a canonical line of kind `k`.  All fields are decidable, so that concrete lines can be
checked by `decide`.  Field by field: the Boolean classifiers are true exactly for their kind;
the partial ones are `some` exactly for their kind, and then successful:
`func`/`funcL = some (_, none)` (no parse error), `file = some (some _)`,
`created = some (.ok _)`, `raceOp`/`racePrev = some (.ok _)`, `raceGor = some (some _, _)`. -/
structure _root_.PP.Line.isKind (k : Kind) (l : Line) : Prop where
  hasEOL : l.hasEOL = true
  indentOK : l.indentOK = true
  empty : l.empty = (k == .blank)
  header : l.header.isSome = (k == .header)
  sep : l.sep = (k == .sep)
  warn : l.warn = (k == .warn)
  unavail : l.unavail = (k == .unavail)
  func : l.func.map Prod.snd = if k = .func then some none else none
  funcL : l.funcL.map Prod.snd = if k = .func then some none else none
  file : l.file.map Option.isSome = if k = .file then some true else none
  created : l.created.map okE = if k = .created then some true else none
  elidedMark : l.elidedMark = (k == .elided)
  raceOp : l.raceOp.map okE = if k = .raceOp then some true else none
  racePrev : l.racePrev.map okE = if k = .racePrev then some true else none
  raceGor : l.raceGor.map (fun p => p.1.isSome) = if k = .raceGor then some true else none

instance (k : Kind) (l : Line) : Decidable (l.isKind k) :=
  decidable_of_iff
    (l.hasEOL = true ∧ l.indentOK = true ∧ l.empty = (k == .blank) ∧ l.header.isSome = (k == .header) ∧
     l.sep = (k == .sep) ∧ l.warn = (k == .warn) ∧ l.unavail = (k == .unavail) ∧
     (l.func.map Prod.snd = if k = .func then some none else none) ∧
     (l.funcL.map Prod.snd = if k = .func then some none else none) ∧
     (l.file.map Option.isSome = if k = .file then some true else none) ∧
     (l.created.map okE = if k = .created then some true else none) ∧
     l.elidedMark = (k == .elided) ∧
     (l.raceOp.map okE = if k = .raceOp then some true else none) ∧
     (l.racePrev.map okE = if k = .racePrev then some true else none) ∧
     (l.raceGor.map (fun p => p.1.isSome) = if k = .raceGor then some true else none))
    ⟨fun ⟨a, b, c, d, e, f, g, h, i, j, k, l, m, n, o⟩ => ⟨a, b, c, d, e, f, g, h, i, j, k, l, m, n, o⟩,
     fun ⟨a, b, c, d, e, f, g, h, i, j, k, l, m, n, o⟩ => ⟨a, b, c, d, e, f, g, h, i, j, k, l, m, n, o⟩⟩

/-- what a canonical line carries besides its kind -/
structure Payload where
  hdr : Hdr := ⟨[], 0, [], 0, false⟩
  c : Call := {}
  cL : Call := {}
  pl : Bytes × Nat := ([], 0)
  f : Func := {}
  op : Bool × Nat × Nat := (false, 0, 0)
  prev : Bool × Nat × Nat := (false, 0, 0)
  gid : Nat := 0
  gst : Bytes := []

/-- the canonical line of kind `k` with payload `p` (`Line.isKind k l ↔ ∃ p, l = canon k p`,
`PP.Spec.isKind_iff_canon`) -/
def canon (k : Kind) (p : Payload) : Line :=
  { hasEOL := true, indentOK := true, empty := k == .blank,
    header := if k = .header then some p.hdr else none,
    sep := k == .sep, warn := k == .warn, unavail := k == .unavail,
    func := if k = .func then some (p.c, none) else none,
    funcL := if k = .func then some (p.cL, none) else none,
    file := if k = .file then some (some p.pl) else none,
    created := if k = .created then some (.ok p.f) else none,
    elidedMark := k == .elided,
    raceOp := if k = .raceOp then some (.ok p.op) else none,
    racePrev := if k = .racePrev then some (.ok p.prev) else none,
    raceGor := if k = .raceGor then some (some p.gid, p.gst) else none }

/-! ### The documented grammar, over lists of kinds

```
Frames := (func file) (elided | func file)*
G      := header (unavail (created file)? | Frames (created file)?)
Dump   := G (blank G)* blank?

RaceStack := (func file)+
Race      := sep warn raceOp RaceStack (blank racePrev RaceStack)* (blank raceGor RaceStack)+ sep
```
Repetitions are written left-recursively (`X*` grows at its right end). -/

/-- `Frames := (func file) (elided | func file)*` -/
inductive Frames : List Kind → Prop
  | first : Frames [.func, .file]
  | elided {fs} : Frames fs → Frames (fs ++ [.elided])
  | frame {fs} : Frames fs → Frames (fs ++ [.func, .file])

/-- `(created file)?` -/
inductive Creator : List Kind → Prop
  | none : Creator []
  | some : Creator [.created, .file]

/-- `G := header (unavail (created file)? | Frames (created file)?)` -/
inductive G : List Kind → Prop
  | unavail {c} : Creator c → G (.header :: .unavail :: c)
  | stack {fs c} : Frames fs → Creator c → G (.header :: (fs ++ c))

/-- `G (blank G)*` -/
inductive Gs : List Kind → Prop
  | one {g} : G g → Gs g
  | more {gs g} : Gs gs → G g → Gs (gs ++ .blank :: g)

/-- `Dump := G (blank G)* blank?` -/
inductive Dump : List Kind → Prop
  | plain {gs} : Gs gs → Dump gs
  | trailing {gs} : Gs gs → Dump (gs ++ [.blank])

/-- `RaceStack := (func file)+` -/
inductive RaceStack : List Kind → Prop
  | one : RaceStack [.func, .file]
  | more {s} : RaceStack s → RaceStack (s ++ [.func, .file])

/-- `sep warn raceOp RaceStack (blank racePrev RaceStack)*` -/
inductive Ops : List Kind → Prop
  | first {s} : RaceStack s → Ops (.sep :: .warn :: .raceOp :: s)
  | prev {o s} : Ops o → RaceStack s → Ops (o ++ .blank :: .racePrev :: s)

/-- `… (blank raceGor RaceStack)+` -/
inductive Gors : List Kind → Prop
  | first {o s} : Ops o → RaceStack s → Gors (o ++ .blank :: .raceGor :: s)
  | more {g s} : Gors g → RaceStack s → Gors (g ++ .blank :: .raceGor :: s)

/-- `Race := sep warn raceOp RaceStack (blank racePrev RaceStack)* (blank raceGor RaceStack)+ sep` -/
inductive Race : List Kind → Prop
  | mk {g} : Gors g → Race (g ++ [.sep])

/-! ### The reference automaton -/

inductive GState
  | start    -- nothing seen yet
  | hdr      -- a goroutine header: `unavail` or the first function line is due
  | unav     -- the "stack unavailable" line
  | fn       -- a function line: its file line is due
  | frames   -- a complete frame or the elided marker
  | cr       -- a `created by` line: its file line is due
  | crf      -- the complete `created by` frame
  | gap      -- the blank line after a goroutine
  | r1       -- race report: the opening separator
  | r2       -- `WARNING: DATA RACE`
  | opH      -- an operation header: the first function line is due
  | opF      -- a function line of an operation stack
  | opS      -- a complete frame of an operation stack
  | gapO     -- the blank line after an operation stack
  | goH      -- a goroutine header of the report
  | goF      -- a function line of a goroutine stack
  | goS      -- a complete frame of a goroutine stack
  | gapG     -- the blank line after a goroutine stack
  | fin      -- the closing separator
  deriving DecidableEq, Repr

open GState Kind in
/-- one line; `none` = the line cannot continue what was read so far -/
def step : GState → Kind → Option GState
  | start, header => some hdr
  | start, sep => some r1
  | hdr, unavail => some unav
  | hdr, func => some fn
  | unav, created => some cr
  | unav, blank => some gap
  | fn, file => some frames
  | frames, elided => some frames
  | frames, func => some fn
  | frames, created => some cr
  | frames, blank => some gap
  | cr, file => some crf
  | crf, blank => some gap
  | gap, header => some hdr
  | r1, warn => some r2
  | r2, raceOp => some opH
  | opH, func => some opF
  | opF, file => some opS
  | opS, func => some opF
  | opS, blank => some gapO
  | gapO, racePrev => some opH
  | gapO, raceGor => some goH
  | goH, func => some goF
  | goF, file => some goS
  | goS, func => some goF
  | goS, blank => some gapG
  | goS, sep => some fin
  | gapG, raceGor => some goH
  | _, _ => none

/-- a dump may end here -/
def acceptingDump : GState → Bool
  | .unav | .frames | .crf | .gap => true
  | _ => false

/-- a dump or a race report may end here -/
def accepting (q : GState) : Bool := acceptingDump q || q == .fin

def run : GState → List Kind → Option GState
  | q, [] => some q
  | q, k :: ks => (step q k).bind (fun q' => run q' ks)

/-- the longest prefix of `ks` the automaton can read from `q`: its length and the state reached -/
def munch : GState → List Kind → Nat × GState
  | q, [] => (0, q)
  | q, k :: ks =>
    match step q k with
    | some q' => let (n, r) := munch q' ks; (n + 1, r)
    | none => (0, q)

end Spec
end PP
