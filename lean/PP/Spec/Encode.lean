import PP.Model.Augment
import PP.Model.Args
/-
Specification side of C19: typed values, the words the Go runtime prints for
them (`encode`) and the rendering the property asks for (`showTV`).

`encode` describes `runtime.printArgs` for a function compiled with
`-gcflags '-N -l'` on amd64, *within the print limits* (at most 10 printed
words per call, `abi.TraceArgsLimit`; nesting depth < 5): every scalar
parameter is one word, read with the size of its type (so an `int8` -3 prints
as `0xfd`, an `int32` -5 as `0xfffffffb`, a `float32` as its 32-bit pattern),
strings are the aggregate `{ptr, len}`, slices `{ptr, len, cap}`, and pointers,
maps, channels and funcs are one word.  That this is what the runtime does is
checked end to end by the harness (stream b), not proved.
-/
namespace PP.Spec
open PP PP.Bytes PP.Aug

inductive Sz | s8 | s16 | s32 | s64
  deriving DecidableEq, Repr

def Sz.bits : Sz → Nat
  | .s8 => 8 | .s16 => 16 | .s32 => 32 | .s64 => 64

/-- a typed argument value -/
inductive TV
  | bool (b : Bool)
  | int (sz : Sz) (v : Int)          -- int8 … int64
  | uint (sz : Sz) (v : Nat)         -- uint8 … uint64
  | intUnsized (v : Int)             -- int  (64 bit)
  | uintUnsized (v : Nat)            -- uint (64 bit)
  | uintptr (v : Nat)
  | byte (v : Nat)
  | rune (v : Int)
  | f32 (bits : Nat)
  | f64 (bits : Nat)
  | str (ptr len : Nat)
  | slice (elem : Bytes) (ptr len cap : Nat)   -- []elem
  | ptr (tname : Bytes) (addr : Nat)           -- *tname
  | map (k v : Bytes) (addr : Nat)             -- map[k]v
  | chan (elem : Bytes) (addr : Nat)           -- chan elem
  | func (addr : Nat)
  deriving Repr

/-- the name `extractArgumentsType` yields for a parameter of this type -/
def typeName : TV → Bytes
  | .bool _ => b!"bool"
  | .int .s8 _ => b!"int8" | .int .s16 _ => b!"int16" | .int .s32 _ => b!"int32" | .int .s64 _ => b!"int64"
  | .uint .s8 _ => b!"uint8" | .uint .s16 _ => b!"uint16" | .uint .s32 _ => b!"uint32" | .uint .s64 _ => b!"uint64"
  | .intUnsized _ => b!"int"
  | .uintUnsized _ => b!"uint"
  | .uintptr _ => b!"uintptr"
  | .byte _ => b!"byte"
  | .rune _ => b!"rune"
  | .f32 _ => b!"float32"
  | .f64 _ => b!"float64"
  | .str _ _ => b!"string"
  | .slice e _ _ _ => b!"[]" ++ e
  | .ptr t _ => b!"*" ++ t
  | .map k v _ => b!"map[" ++ k ++ b!"]" ++ v
  | .chan e _ => b!"chan " ++ e
  | .func _ => b!"func"

/-- a printed word: no name, accurate, offset not too large; `IsPtr` as the
parser classifies the value -/
def word (v : Nat) : Arg := .scalar [] v (isPtrValue v) false false

/-- two's complement of `v` on `bits` bits, as a natural -/
def twos (bits : Nat) (v : Int) : Nat := (v % (2 ^ bits : Nat)).toNat

/-- the top-level argument the runtime prints for one typed value -/
def encode1 : TV → Arg
  | .bool b => word (if b then 1 else 0)
  | .int sz v => word (twos sz.bits v)
  | .uint sz v => word (v % 2 ^ sz.bits)
  | .intUnsized v => word (twos 64 v)
  | .uintUnsized v => word (v % 2 ^ 64)
  | .uintptr v => word (v % 2 ^ 64)
  | .byte v => word (v % 2 ^ 8)
  | .rune v => word (twos 32 v)
  | .f32 b => word (b % 2 ^ 32)
  | .f64 b => word (b % 2 ^ 64)
  | .str p l => .agg [word p, word l] false
  | .slice _ p l c => .agg [word p, word l, word c] false
  | .ptr _ a => word a
  | .map _ _ a => word a
  | .chan _ a => word a
  | .func a => word a

def encode (vs : List TV) : List Arg := vs.map encode1

/-- number of words printed for a typed value -/
def TV.words : TV → Nat
  | .str _ _ => 2
  | .slice _ _ _ _ => 3
  | _ => 1

def hexAddr (a : Nat) : Bytes := b!"0x" ++ natToHex a

/-- the truthful rendering of a typed value: written on the VALUE -/
def showTV (ff : FloatFmt) : TV → Bytes
  | .bool b => if b then b!"true" else b!"false"
  | .int _ v => formatInt v
  | .uint _ v => formatUint v
  | .intUnsized v => formatInt v
  | .uintUnsized v => formatUint v
  | .uintptr v => formatUint v
  | .byte v => formatUint v
  | .rune v => formatInt v
  | .f32 b => ff.f32 b
  | .f64 b => ff.f64 b
  | .str p l => b!"string(" ++ hexAddr p ++ b!", len=" ++ formatUint l ++ b!")"
  | .slice e p l c => b!"[]" ++ e ++ b!"(" ++ hexAddr p ++ b!" len=" ++ formatUint l ++ b!" cap=" ++ formatUint c ++ b!")"
  | .ptr t a => b!"*" ++ t ++ b!"(" ++ hexAddr a ++ b!")"
  | .map k v a => b!"map[" ++ k ++ b!"]" ++ v ++ b!"(" ++ hexAddr a ++ b!")"
  | .chan e a => b!"chan " ++ e ++ b!"(" ++ hexAddr a ++ b!")"
  | .func a => b!"func(" ++ hexAddr a ++ b!")"

/-- the value is one of its type -/
def TV.InRange : TV → Prop
  | .bool _ => True
  | .int sz v => -(2 ^ (sz.bits - 1) : Int) ≤ v ∧ v < (2 ^ (sz.bits - 1) : Int)
  | .uint sz v => v < 2 ^ sz.bits
  | .intUnsized v => -(2 ^ 63 : Int) ≤ v ∧ v < (2 ^ 63 : Int)
  | .uintUnsized v => v < 2 ^ 64
  | .uintptr v => v < 2 ^ 64
  | .byte v => v < 2 ^ 8
  | .rune v => -(2 ^ 31 : Int) ≤ v ∧ v < (2 ^ 31 : Int)
  | .f32 b => b < 2 ^ 32
  | .f64 b => b < 2 ^ 64
  | .str p l => p < 2 ^ 64 ∧ l < 2 ^ 64
  | .slice _ p l c => p < 2 ^ 64 ∧ l < 2 ^ 64 ∧ c < 2 ^ 64
  | .ptr _ a => a < 2 ^ 64
  | .map _ _ a => a < 2 ^ 64
  | .chan _ a => a < 2 ^ 64
  | .func a => a < 2 ^ 64

/-! ### sample data of the non-vacuity examples in PP/Props/C19.lean -/

/-- the mixed signature
`f(m map[int]int, a int, c chan int, b int8, fn func(), u uintptr, by byte, r rune, s string, sl []int, p *int, fl float64, bo bool)`:
the runtime prints the first 10 words (`m … r`, `{s.ptr, s.len}`) then `...`. -/
def mixedTypes : List Bytes :=
  [b!"map[int]int", b!"int", b!"chan int", b!"int8", b!"func", b!"uintptr", b!"byte", b!"rune", b!"string",
   b!"[]int", b!"*int", b!"float64", b!"bool"]

def mixedPrinted : List TV :=
  [.map b!"int" b!"int" 0xc0000606e0, .intUnsized (-7), .chan b!"int" 0xc000118070, .int .s8 (-3),
   .func 0x47fe00, .uintptr 99, .byte 255, .rune 120, .str 0x479586 5]

/-- one value of every kind -/
def allKinds : List TV :=
  [.bool true, .bool false, .int .s8 (-128), .int .s16 (-300), .int .s32 (-5), .int .s64 (-9223372036854775808),
   .uint .s8 200, .uint .s16 65535, .uint .s32 7, .uint .s64 18446744073709551615, .intUnsized (-1), .uintUnsized 5,
   .uintptr 99, .byte 255, .rune 120, .f32 0x3fc00000, .f64 0x4002000000000000, .str 0x479586 5,
   .slice b!"int" 0xc0000606b8 3 3, .ptr b!"int" 0xc00011a000, .map b!"string" b!"bool" 0, .chan b!"int" 0, .func 0x47fe00]

end PP.Spec
