import PP.Spec.WF
/-
Decidable well-formedness of a race report description: the side conditions
under which the C08 round-trip theorem holds.
-/
namespace PP.Spec
open PP Bytes

/-- how tsan prints frames: no dump indentation, the file line indented by six spaces -/
def raceCfg : PrintCfg := { indent := [], fileIndent := List.replicate 6 32 }

/-- a frame of a race report: a well-formed stack frame (with the file line indented by spaces,
so the file must not start with a space) that is not `inlined` (the race printer ignores that
field and always prints the arguments, `expCall` does not) -/
def raceFrameWF (f : FrameSpec) : Bool := frameWF raceCfg f false false && !f.inlined

/-- an operation: the id parses (`< 10^18`), the address fits 64 bits, at least one frame -/
def raceOpWF (op : RaceOp) : Bool :=
  decide (op.id < 10 ^ 18) && decide (op.addr < 2 ^ 64) && !op.frames.isEmpty &&
    op.frames.all raceFrameWF

/-- a creation section: names a goroutine that took part in an operation, at least one frame -/
def raceGorWF (r : RaceSpec) (g : RaceGor) : Bool :=
  (r.ops.map (·.id)).contains g.id && !g.frames.isEmpty && g.frames.all raceFrameWF

/-- the domain of the C08 round-trip theorem -/
def raceWF (r : RaceSpec) : Bool :=
  !r.ops.isEmpty && !r.gors.isEmpty && r.ops.all raceOpWF && r.gors.all (raceGorWF r) &&
    decide ((r.ops.map (·.id)).Nodup)

end PP.Spec
