import PP.Model.TypeNames
import PP.Spec.Encode
/-
Specification side of C19c: the syntax tree go/parser builds for a parameter
whose type is the one of a typed value (`PP.Spec.TV`), and the declaration
`func f(p0 T0, p1 T1, …)` of a list of typed values.

The element / key / pointee names carried by `TV.slice`, `TV.ptr`, `TV.map`,
`TV.chan` are read as IDENTIFIERS (`[]int`, `*T`, `map[string]bool`,
`chan int`): that is the tree of a parameter whose type is spelled with a
plain type name there.  For other spellings (`[]*T`, `*pkg.T`, `map[K][]V`)
see `fieldToType_slice` … `fieldToType_chan` in PP/Props/C19c.lean, which hold
for every element expression.  That go/parser builds these trees is checked by
the harness (stream e of C19), not proved.
-/
namespace PP.Spec
open PP PP.Bytes PP.TN

/-- the `ast.Expr` of the type of a parameter holding this value -/
def astOf : TV → GoExpr
  | .slice e _ _ _ => .arrayType none (.ident e)
  | .ptr t _ => .star (.ident t)
  | .map k v _ => .mapType (.ident k) (.ident v)
  | .chan e _ => .chanType (.ident e)
  | .func _ => .funcType
  | tv => .ident (typeName tv)   -- bool, intN, uintN, int, uint, uintptr, byte, rune, floatN, string

/-- `func f(p0 T0, p1 T1, …)`: no receiver, one single-name field per value -/
def declOf (vs : List TV) : GoFuncDecl :=
  { recv := none, params := vs.map fun tv => ⟨1, astOf tv⟩ }

/-- the field is variadic: its type, parentheses stripped, is `...T` -/
def isEllipsis (t : GoExpr) : Bool :=
  match unparen t with
  | .ellipsis _ => true
  | _ => false

/-- the fields whose type names are produced: the receiver iff there is
exactly one receiver field and its type, parentheses stripped, is a pointer
type `*X`; then the parameters -/
def usedFields (d : GoFuncDecl) : List GoField :=
  match d.recv with
  | some [f] =>
    match unparen f.typ with
    | .star _ => f :: d.params
    | _ => d.params
  | _ => d.params

/-- the type expressions of the parameters in the order the runtime prints
their words: every field once per name (once when unnamed) -/
def paramExprs (fs : List GoField) : List GoExpr :=
  fs.flatMap fun f => List.replicate (mult f) f.typ

/-! ### sample declarations of the non-vacuity examples in PP/Props/C19c.lean -/

/-- `func (t *T) F(a, b int, s string, _ []*pkg.E, m map[string][]int, c <-chan int, arr [4]int, xs ...interface{})` -/
def mixedDecl : GoFuncDecl :=
  { recv := some [⟨1, .star (.ident b!"T")⟩],
    params := [⟨2, .ident b!"int"⟩, ⟨1, .ident b!"string"⟩,
               ⟨1, .arrayType none (.star (.selector (.ident b!"pkg") b!"E"))⟩,
               ⟨1, .mapType (.ident b!"string") (.arrayType none (.ident b!"int"))⟩,
               ⟨1, .chanType (.ident b!"int")⟩,
               ⟨1, .arrayType (some (.basicLit b!"4")) (.ident b!"int")⟩,
               ⟨1, .ellipsis (some .interfaceType)⟩] }

/-- `func (t T) F(int, ...int)`: value receiver, unnamed parameters -/
def valueRecvDecl : GoFuncDecl :=
  { recv := some [⟨1, .ident b!"T"⟩], params := [⟨0, .ident b!"int"⟩, ⟨0, .ellipsis (some (.ident b!"int"))⟩] }

/-- `func (t *G[K]) F(g G[int], p (int), s struct{}, a [...]int, f func(int) error, e any)` -/
def oddDecl : GoFuncDecl :=
  { recv := some [⟨1, .star .other⟩],
    params := [⟨1, .other⟩, ⟨1, .paren (.ident b!"int")⟩, ⟨1, .other⟩, ⟨1, .arrayType (some (.ellipsis none)) (.ident b!"int")⟩,
               ⟨1, .funcType⟩, ⟨1, .ident b!"any"⟩] }

/-- `func (t (*T)) F(a (int8), b ((*[]int)), c []((pkg.E)), s (string))` -/
def parenDecl : GoFuncDecl :=
  { recv := some [⟨1, .paren (.star (.ident b!"T"))⟩],
    params := [⟨1, .paren (.ident b!"int8")⟩,
               ⟨1, .paren (.paren (.star (.arrayType none (.ident b!"int"))))⟩,
               ⟨1, .arrayType none (.paren (.paren (.selector (.ident b!"pkg") b!"E")))⟩,
               ⟨1, .paren (.ident b!"string")⟩] }

end PP.Spec
