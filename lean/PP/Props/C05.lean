import PP.Lemmas.Greedy
/-
C05: the buckets of `Snapshot.Aggregate` are exactly the similarity classes.
For every valid iteration-order oracle, every level, and every snapshot with
distinct goroutine ids and well-formed signatures (`Signature.WF`: a too-large
`_` argument carries no value / pointer flag / name, as produced by the parser),
two goroutines share a bucket iff their signatures are `similar`, i.e. iff they
have the same reference key.  Hence the partition depends neither on the map
iteration order nor on the order of the goroutines, coarser levels give coarser
partitions, and the signature displayed for a bucket is similar to every member.
-/
namespace PP

theorem same_bucket_iff {π : Oracle} (hπ : ValidOracle π) (l : Lvl) (gs : List Goroutine)
    (hnd : (gs.map (·.id)).Nodup) (hwf : ∀ g ∈ gs, g.sig.WF = true) :
    ∀ g ∈ gs, ∀ h ∈ gs,
      ((∃ b ∈ aggregateWith π l gs, g.id ∈ b.ids ∧ h.id ∈ b.ids) ↔
        Signature.similar l g.sig h.sig = true) := by
  intro g hg h hh
  obtain ⟨_, h1, h2, h3⟩ := bucketLoop_classInv hπ l gs hwf
  constructor
  · rintro ⟨b, hb, hgi, hhi⟩
    obtain ⟨k, hk, rfl⟩ := (mem_aggregateWith hπ l gs b).1 hb
    simp only [Bkt.toBucket, mem_sortNat] at hgi hhi
    obtain ⟨s, hs, es, hss⟩ := h1 k hk _ hgi
    obtain ⟨t, ht, et, htt⟩ := h1 k hk _ hhi
    have e1 : s = g := id_unique gs hnd s g hs hg es
    have e2 : t = h := id_unique gs hnd t h ht hh et
    subst e1; subst e2
    exact Signature.similar_trans l _ _ _ (Signature.similar_symm l _ _ hss) htt
  · intro hs
    obtain ⟨b, hb, hbi, hbs⟩ := h3 g hg
    obtain ⟨c, hc, hci, hcs⟩ := h3 h hh
    have hbc : Signature.similar l b.key c.key = true :=
      Signature.similar_trans l _ _ _ (Signature.similar_trans l _ _ _ hbs hs)
        (Signature.similar_symm l _ _ hcs)
    have e := classInv_unique h2 hb hc hbc
    subst e
    exact ⟨b.toBucket, (mem_aggregateWith hπ l gs _).2 ⟨b, hb, rfl⟩,
      by simpa [Bkt.toBucket, mem_sortNat] using hbi,
      by simpa [Bkt.toBucket, mem_sortNat] using hci⟩

theorem same_bucket_iff_key {π : Oracle} (hπ : ValidOracle π) (l : Lvl) (gs : List Goroutine)
    (hnd : (gs.map (·.id)).Nodup) (hwf : ∀ g ∈ gs, g.sig.WF = true) :
    ∀ g ∈ gs, ∀ h ∈ gs,
      ((∃ b ∈ aggregateWith π l gs, g.id ∈ b.ids ∧ h.id ∈ b.ids) ↔
        sigKey l g.sig = sigKey l h.sig) := by
  intro g hg h hh
  rw [same_bucket_iff hπ l gs hnd hwf g hg h hh, Signature.similar_iff_key]

/-- the partition depends neither on the iteration order nor on the goroutine order -/
theorem partition_order_independent {π π' : Oracle} (hπ : ValidOracle π) (hπ' : ValidOracle π')
    (l : Lvl) (gs gs' : List Goroutine)
    (hnd : (gs.map (·.id)).Nodup) (hwf : ∀ g ∈ gs, g.sig.WF = true) :
    gs'.Perm gs → ∀ g ∈ gs, ∀ h ∈ gs,
      ((∃ b ∈ aggregateWith π l gs, g.id ∈ b.ids ∧ h.id ∈ b.ids) ↔
        (∃ b ∈ aggregateWith π' l gs', g.id ∈ b.ids ∧ h.id ∈ b.ids)) := by
  intro hp g hg h hh
  have hnd' : (gs'.map (·.id)).Nodup := (hp.map (·.id)).nodup_iff.2 hnd
  have hwf' : ∀ g ∈ gs', g.sig.WF = true := fun g hg => hwf g (hp.mem_iff.1 hg)
  rw [same_bucket_iff hπ l gs hnd hwf g hg h hh,
    same_bucket_iff hπ' l gs' hnd' hwf' g (hp.mem_iff.2 hg) h (hp.mem_iff.2 hh)]

/-- coarser levels give coarser partitions -/
theorem partition_refines {π π' : Oracle} (hπ : ValidOracle π) (hπ' : ValidOracle π')
    (gs : List Goroutine) (hnd : (gs.map (·.id)).Nodup) (hwf : ∀ g ∈ gs, g.sig.WF = true) :
    ∀ g ∈ gs, ∀ h ∈ gs,
      ((∃ b ∈ aggregateWith π .exactFlags gs, g.id ∈ b.ids ∧ h.id ∈ b.ids) →
        (∃ b ∈ aggregateWith π' .exactLines gs, g.id ∈ b.ids ∧ h.id ∈ b.ids)) ∧
      ((∃ b ∈ aggregateWith π .exactLines gs, g.id ∈ b.ids ∧ h.id ∈ b.ids) →
        (∃ b ∈ aggregateWith π' .anyPointer gs, g.id ∈ b.ids ∧ h.id ∈ b.ids)) ∧
      ((∃ b ∈ aggregateWith π .anyPointer gs, g.id ∈ b.ids ∧ h.id ∈ b.ids) →
        (∃ b ∈ aggregateWith π' .anyValue gs, g.id ∈ b.ids ∧ h.id ∈ b.ids)) := by
  intro g hg h hh
  simp only [same_bucket_iff hπ _ gs hnd hwf g hg h hh, same_bucket_iff hπ' _ gs hnd hwf g hg h hh]
  exact ⟨similar_exactFlags_exactLines _ _, similar_exactLines_anyPointer _ _,
    similar_anyPointer_anyValue _ _⟩

/-- the signature displayed for a bucket is similar to the signature of every member -/
theorem bucket_key_similar_members {π : Oracle} (hπ : ValidOracle π) (l : Lvl)
    (gs : List Goroutine) (hnd : (gs.map (·.id)).Nodup) (hwf : ∀ g ∈ gs, g.sig.WF = true) :
    ∀ b ∈ aggregateWith π l gs, ∀ g ∈ gs, g.id ∈ b.ids →
      Signature.similar l b.sig g.sig = true := by
  intro b hb g hg hgi
  obtain ⟨_, h1, _, _⟩ := bucketLoop_classInv hπ l gs hwf
  obtain ⟨k, hk, rfl⟩ := (mem_aggregateWith hπ l gs b).1 hb
  simp only [Bkt.toBucket, mem_sortNat] at hgi
  obtain ⟨s, hs, es, hss⟩ := h1 k hk _ hgi
  have e : s = g := id_unique gs hnd s g hs hg es
  subst e
  exact hss

/-! ### non-vacuity -/

section Example

/-- a one-frame signature `main.f(arg)` -/
private def sigOf (v : Nat) (ptr : Bool) (line : Nat) : Signature :=
  { state := b!"chan receive",
    stack := { calls := [{ fn := { complete := b!"main.f" },
                           args := { values := [.scalar [] v ptr false false,
                                                .agg [.scalar [] 0 false true false] false] },
                           remoteSrcPath := b!"/src/main.go", line := line }] } }

/-- goroutines 1 and 3 differ only in a pointer value; goroutine 2 sits on another line;
goroutine 7 repeats goroutine 1 -/
private def exGs : List Goroutine :=
  [ { sig := sigOf 0xc000012340 true 10, id := 1, first := true },
    { sig := sigOf 0xc000012340 true 12, id := 2 },
    { sig := sigOf 0xc000099990 true 10, id := 3 },
    { sig := sigOf 0xc000012340 true 10, id := 7 } ]

private theorem exGs_nodup : (exGs.map (·.id)).Nodup := by decide
private theorem exGs_wf : ∀ g ∈ exGs, g.sig.WF = true := by decide

/-- the pointer pair merges at `.anyPointer` … -/
example : (bucketLoop idOracle .anyPointer 0 [] exGs).map (·.ids) = [[1, 3, 7], [2]] := by decide
/-- … but not at `.exactLines` -/
example : (bucketLoop idOracle .exactLines 0 [] exGs).map (·.ids) = [[1, 7], [2], [3]] := by decide
/-- the merged key has its pointer argument starred (names of the scalar arguments) -/
example : (bucketLoop idOracle .anyPointer 0 [] exGs).map
      (fun b => b.key.stack.calls.map (fun c => c.args.values.map
        (fun a => match a with | .scalar n .. => n | .agg .. => []))) =
    [[[star, []]], [[[], []]]] := by decide

example : Signature.similar .anyPointer (sigOf 0xc000012340 true 10) (sigOf 0xc000099990 true 10) = true
    ∧ Signature.similar .exactLines (sigOf 0xc000012340 true 10) (sigOf 0xc000099990 true 10) = false :=
  by decide

/-- the theorems apply: goroutines 1 and 3 share a bucket of `aggregate .anyPointer`,
under the reversed iteration order as well, and do not share one at `.exactLines` -/
example : ∃ b ∈ aggregate .anyPointer exGs, 1 ∈ b.ids ∧ 3 ∈ b.ids :=
  (same_bucket_iff validOracle_id .anyPointer exGs exGs_nodup exGs_wf
    exGs[0] (by simp [exGs]) exGs[2] (by simp [exGs])).2 (by decide)

example : ∃ b ∈ aggregateWith revOracle .anyPointer exGs, 1 ∈ b.ids ∧ 3 ∈ b.ids :=
  (same_bucket_iff validOracle_rev .anyPointer exGs exGs_nodup exGs_wf
    exGs[0] (by simp [exGs]) exGs[2] (by simp [exGs])).2 (by decide)

example : ¬ ∃ b ∈ aggregate .exactLines exGs, 1 ∈ b.ids ∧ 3 ∈ b.ids := fun h =>
  absurd ((same_bucket_iff validOracle_id .exactLines exGs exGs_nodup exGs_wf
    exGs[0] (by simp [exGs]) exGs[2] (by simp [exGs])).1 h) (by decide)

/-- a signature that is not well-formed: a too-large argument carrying a pointer value -/
private def sigBad (v : Nat) : Signature :=
  { stack := { calls := [{ args := { values := [.scalar [] v true true false] } }] } }

/-- `WF` is needed: on a non-well-formed similar pair, `merge` leaves the class of its key
(the code resets IsOffsetTooLarge on a starred argument) -/
example : (sigBad 0xc000012340).WF = false
    ∧ Signature.similar .anyPointer (sigBad 0xc000012340) (sigBad 0xc000099990) = true
    ∧ Signature.similar .anyPointer
        (Signature.merge (sigBad 0xc000012340) (sigBad 0xc000099990)) (sigBad 0xc000012340) = false :=
  by decide

end Example

end PP

#print axioms PP.same_bucket_iff
#print axioms PP.same_bucket_iff_key
#print axioms PP.partition_order_independent
#print axioms PP.partition_refines
#print axioms PP.bucket_key_similar_members
