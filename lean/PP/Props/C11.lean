import PP.Lemmas.Progress
import PP.Lemmas.Cut
/-
C11 — streaming progress: `ScanSnapshot` used as a live filter.

A `Read` call on the source is the only place where the library can block.  The reader and
the loop are instrumented with a ghost log (`PP/Lemmas/Progress.lean`, namespace `PP.Live`;
the name `PP.Ev` is already taken by the line-level trace of C02):

  inductive Live.Ev
    | read (acc buf got : Bytes) (err : Option RErr)   -- one `Src.read` call, logged with what the
                                                       -- reader holds when it calls: `buf` = unread
                                                       -- buffer, `acc` = glued start of an over-long line
    | scanned (d : Bytes) (processed : Bool)           -- `scan` was called on `d`
    | write (d : Bytes)                                -- `d` was written to the pass-through writer

`fillLoopT`, `fillT`, `readSliceT`, `readLineT`, `scanBT` return the model's result together
with the events in program order.  Projections of a log: `delivered` (bytes returned by the
`Read`s), `scannedBytes` (bytes of the lines handed to `scan`), `writesOf` (written lines),
`unprocOf` (lines for which `scan` returned false).
-/
namespace PP
namespace Live

/-! ### 1. Erasure: the instrumented model is the model -/

theorem fillLoopT_erases (N : Nat) (acc : Bytes) (k : Nat) (r : Rd) :
    (fillLoopT N acc k r).1 = fillLoop N k r := fillLoopT_erase N acc k r

theorem fillT_erases (N retry : Nat) (acc : Bytes) (r : Rd) :
    (fillT N retry acc r).1 = fill N retry r := fillT_erase N retry acc r

theorem readSliceT_erases (N retry : Nat) (acc : Bytes) (fuel : Nat) (r : Rd) :
    (readSliceT N retry acc fuel r).1 = readSlice N retry fuel r := readSliceT_erase N retry acc fuel r

theorem readLineT_erases (N retry fuel : Nat) (acc : Bytes) (r : Rd) :
    (readLineT N retry fuel acc r).1 = readLine N retry fuel acc r := readLineT_erase N retry fuel acc r

theorem scanBT_erases (N retry fuel : Nat) (s : S) (fwd : Bytes) (cons : List Bytes) (rd : Rd) :
    (scanBT N retry fuel s fwd cons rd).1 = scanB N retry fuel s fwd cons rd :=
  scanBT_erase N retry fuel s fwd cons rd

/-- the log of a whole `ScanSnapshot` call -/
def snapshotLog (N retry : Nat) (src : Src) : Log :=
  (scanBT N retry (src.rest.length + 2) {} [] [] { src := src }).2

/-- `scanSnapshot` is computed from the first component of the instrumented loop -/
theorem scanSnapshot_instrumented (N retry : Nat) (names : Bool) (src : Src) :
    scanSnapshot N retry names src =
      match (scanBT N retry (src.rest.length + 2) {} [] [] { src := src }).1 with
      | none => none
      | some o =>
        let (suffix, rd) := finishSuffix o
        let snap := if o.s.gs.isEmpty then none else some (if names then nameArguments o.s.gs else o.s.gs)
        some { snap := snap, fwd := o.fwd, suffix := suffix, unread := rd.buf ++ rd.src.rest, err := o.err,
               consumed := o.consumed, state := o.s.st, panicked := o.panicked } := by
  rw [scanBT_erase]; rfl

/-- the `write` events are exactly the forwarded output, in order -/
theorem writes_are_forwarded (N retry fuel : Nat) (s : S) (fwd : Bytes) (cons : List Bytes) (rd : Rd)
    (o : OutB) (h : scanB N retry fuel s fwd cons rd = some o) :
    o.fwd = fwd ++ (writesOf (scanBT N retry fuel s fwd cons rd).2).flatten := by
  rw [← scanBT_erase] at h
  exact scanBT_writes N retry fuel s fwd cons rd o h

/-! ### 2. A `Read` is issued only when no complete line is in hand -/

/-- In every `Read` event of the loop, the bytes the reader holds (`buf`, and the glued
beginning `acc` of a line longer than the buffer) contain no newline: the reader asks the
source for more only when it cannot return a line.  From any scanner and reader state. -/
theorem read_only_without_newline (N retry fuel : Nat) (s : S) (fwd : Bytes) (cons : List Bytes)
    (rd : Rd) (acc buf got : Bytes) (err : Option RErr)
    (h : Ev.read acc buf got err ∈ (scanBT N retry fuel s fwd cons rd).2) :
    (10 : UInt8) ∉ buf ∧ (10 : UInt8) ∉ acc := by
  obtain ⟨pre, post, heq⟩ := List.append_of_mem h
  obtain ⟨_, h2, h3, _⟩ := scanBT_spec N retry fuel s fwd cons rd pre _ post heq acc buf got err rfl
  exact ⟨h2, h3⟩

/-- Whenever the source may block (at every `Read` event, `pre` being the events before it):
everything the source has delivered so far has been handed to `scan`, except the bytes `held`
the reader still holds, and these contain no newline — so every complete line delivered so far
has been scanned, and no byte of a following line was needed to release it (zero look-ahead).
Moreover every line `scan` did not process has already been written to the output.
(Loop started with an empty buffer, as `ScanSnapshot` does.) -/
theorem released_before_blocking (N retry fuel : Nat) (s : S) (fwd : Bytes) (cons : List Bytes)
    (rd : Rd) (hbuf : rd.buf = []) (pre post : Log) (acc buf got : Bytes) (err : Option RErr)
    (h : (scanBT N retry fuel s fwd cons rd).2 = pre ++ Ev.read acc buf got err :: post) :
    delivered pre = scannedBytes pre ++ (acc ++ buf) ∧ (10 : UInt8) ∉ acc ++ buf ∧
    writesOf pre = unprocOf pre := by
  obtain ⟨h1, h2, h3, h4⟩ := scanBT_spec N retry fuel s fwd cons rd pre _ post h acc buf got err rfl
  rw [hbuf, List.nil_append] at h1
  refine ⟨by rw [← h1, List.append_assoc], ?_, h4⟩
  simp [h2, h3]

/-- the same for a whole `ScanSnapshot` call -/
theorem released_before_blocking_snapshot (N retry : Nat) (src : Src) (pre post : Log)
    (acc buf got : Bytes) (err : Option RErr)
    (h : snapshotLog N retry src = pre ++ Ev.read acc buf got err :: post) :
    delivered pre = scannedBytes pre ++ (acc ++ buf) ∧ (10 : UInt8) ∉ acc ++ buf ∧
    writesOf pre = unprocOf pre :=
  released_before_blocking N retry _ {} [] [] { src := src } rfl pre post acc buf got err h

/-- the complete lines delivered so far are exactly the complete lines handed to `scan`, as
soon as what was handed to `scan` ends with a newline (or is empty) -/
theorem complete_lines_released (N retry fuel : Nat) (s : S) (fwd : Bytes) (cons : List Bytes)
    (rd : Rd) (hbuf : rd.buf = []) (pre post : Log) (acc buf got : Bytes) (err : Option RErr)
    (h : (scanBT N retry fuel s fwd cons rd).2 = pre ++ Ev.read acc buf got err :: post)
    (hnl : (splitLines (scannedBytes pre)).2 = []) :
    (splitLines (delivered pre)).1 = (splitLines (scannedBytes pre)).1 := by
  obtain ⟨h1, h2, _⟩ := released_before_blocking N retry fuel s fwd cons rd hbuf pre post acc buf got err h
  rw [h1, splitLines_append, hnl, List.nil_append,
    splitLines_of_cutNL_none ((cutNL_none_iff _).mpr h2)]
  simp

/-! ### 3. The snapshot is returned as soon as the terminating line has been delivered -/

/-- When the loop ends because a line cannot belong to the dump (`break`: `suffix` is set) or
because the scanner reached `done`, the last event of the log is the `scan` of a line: no
`Read` — no blocking — happens after the terminating line has been handed to `scan`.  (The
reader hands a line over once its '\n', or the end of the stream, has been delivered:
`readLine_spec` in `PP.Props.C09`.)  The log is empty only if the loop started in `done`. -/
theorem returns_at_terminator (N retry fuel : Nat) (s : S) (fwd : Bytes) (cons : List Bytes)
    (rd : Rd) (o : OutB) (h : scanB N retry fuel s fwd cons rd = some o)
    (hterm : o.suffix.isSome = true ∨ o.s.st = .done) :
    (s.st = .done ∧ (scanBT N retry fuel s fwd cons rd).2 = []) ∨
    ∃ pre d b, (scanBT N retry fuel s fwd cons rd).2 = pre ++ [.scanned d b] := by
  rw [← scanBT_erase] at h
  exact scanBT_ends N retry fuel s fwd cons rd o h hterm

/-! ### 4. `fill` does not try to fill the buffer -/

/-- The events of one `fill`: `n` empty reads (zero bytes, no error) followed by nothing
(`n` = the retry bound: `io.ErrNoProgress`) or by exactly one read that returned data or an
error, after which `fill` returns. -/
theorem fill_single_read (N : Nat) (acc : Bytes) (k : Nat) (r : Rd) :
    ∃ n last, (fillLoopT N acc k r).2 = List.replicate n (.read acc r.buf [] none) ++ last ∧
      ((last = [] ∧ n = k ∧ (fillLoop N k r).err = some .noProgress) ∨
       (n < k ∧ ∃ c e, last = [.read acc r.buf c e] ∧ (c ≠ [] ∨ e ≠ none))) := by
  have := fillLoopT_shape N acc k r
  rw [fillLoopT_erase] at this
  exact this

/-- at most one `Read` per `fill` returns data or an error -/
theorem fill_productive_reads_le_one (N : Nat) (acc : Bytes) (k : Nat) (r : Rd) :
    ((fillLoopT N acc k r).2.filter Ev.isProductiveRead).length ≤ 1 := by
  obtain ⟨n, last, h1, h2⟩ := fillLoopT_shape N acc k r
  rw [h1, List.filter_append, filter_productive_replicate, List.nil_append]
  rcases h2 with ⟨h2, _⟩ | ⟨_, c, e, h2, _⟩
  · rw [h2]; simp
  · rw [h2]; exact Nat.le_trans (List.length_filter_le _ _) (by simp)

/-! ### Non-vacuity -/

section NonVacuity

private def live : Bytes := b!"hello\ngoroutine 1 [running]:\nmain.f()\n\t/a.go:1\n\nbye\n"

/-- a source that trickles: 3 bytes, an empty read, then 10 bytes at a time; 8-byte buffer
(so the 23-byte header line is glued from three slices) -/
private def srcT : Src := { rest := live, sched := [3, 0, 10, 10, 10, 10, 10, 10, 10, 10], final := .eof }

/-- the first events: "hel" arrives, nothing, then "lo\ngorou": the line `hello\n` is scanned and
written before the next `Read`; the `Read` after it holds `gorou`, no newline -/
example : (snapshotLog 8 5 srcT).take 6 =
    [.read [] [] b!"hel" none, .read [] b!"hel" [] none, .read [] b!"hel" b!"lo\ngo" none,
     .scanned b!"hello\n" false, .write b!"hello\n", .read [] b!"go" b!"routin" none] := by decide

/-- the log contains `Read`s with a non-empty `acc` (over-long line) -/
example : Ev.read b!"goroutin" [] b!"e 1 [run" none ∈ snapshotLog 8 5 srcT := by decide

/-- the loop breaks on `bye\n`: last event is its scan, and the result carries a suffix -/
example : (snapshotLog 8 5 srcT).getLast? = some (.scanned b!"bye\n" false) ∧
    ((scanB 8 5 (srcT.rest.length + 2) {} [] [] { src := srcT }).map
      (fun o => (o.suffix.isSome, o.s.st))) = some (true, .done) := by decide

/-- one `fill` with two empty reads and then data -/
example : (fillLoopT 8 [] 5 { buf := b!"ab", src := { rest := b!"cdef", sched := [0, 0, 2] } }).2 =
    [.read [] b!"ab" [] none, .read [] b!"ab" [] none, .read [] b!"ab" b!"cd" none] := by decide

/-- retries exhausted -/
example :
    (fillLoopT 8 [] 2 { buf := b!"ab", src := { rest := b!"cdef", sched := [0, 0, 2] } }).1.err =
      some .noProgress ∧
    (fillLoopT 8 [] 2 { buf := b!"ab", src := { rest := b!"cdef", sched := [0, 0, 2] } }).2 =
      [.read [] b!"ab" [] none, .read [] b!"ab" [] none] := by decide

end NonVacuity

end Live
end PP

#print axioms PP.Live.fillLoopT_erases
#print axioms PP.Live.fillT_erases
#print axioms PP.Live.readSliceT_erases
#print axioms PP.Live.readLineT_erases
#print axioms PP.Live.scanBT_erases
#print axioms PP.Live.scanSnapshot_instrumented
#print axioms PP.Live.writes_are_forwarded
#print axioms PP.Live.read_only_without_newline
#print axioms PP.Live.released_before_blocking
#print axioms PP.Live.released_before_blocking_snapshot
#print axioms PP.Live.complete_lines_released
#print axioms PP.Live.returns_at_terminator
#print axioms PP.Live.fill_single_read
#print axioms PP.Live.fill_productive_reads_le_one
