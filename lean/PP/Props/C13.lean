import PP.Lemmas.Less
/-
C13: `Stack.less` / `Signature.less` (stack.go:564-626, 736-756)
  (a) never index out of range,
  (b) are strict weak orders on all inputs,
  (c) put stdlib-only stacks after any stack with main / module / GOPATH / module-cache frames.
-/
namespace PP

/-! ### (a) no index-out-of-range -/

theorem stackLess_total_safe (s r : Stack) : (Stack.less? s r).isSome = true := by
  rw [stackLess?_eq]; rfl

theorem sigLess_safe (s r : Signature) : Signature.lessSafe s r = true := by
  simp [Signature.lessSafe, stackLess_total_safe]

/-! ### (b) strict weak order: Stack.less -/

theorem stackLess_irrefl (a : Stack) : Stack.less a a = false := by
  rw [stackLess_eq]; exact stackCmp_laws.lt_irrefl a

theorem stackLess_asymm (a b : Stack) : Stack.less a b = true → Stack.less b a = false := by
  rw [stackLess_eq, stackLess_eq]; exact stackCmp_laws.lt_asymm a b

theorem stackLess_trans (a b c : Stack) :
    Stack.less a b = true → Stack.less b c = true → Stack.less a c = true := by
  rw [stackLess_eq, stackLess_eq, stackLess_eq]; exact stackCmp_laws.lt_trans a b c

theorem stackLess_incomp_trans (a b c : Stack) :
    Stack.less a b = false → Stack.less b a = false →
    Stack.less b c = false → Stack.less c b = false →
    (Stack.less a c = false ∧ Stack.less c a = false) := by
  simp only [stackLess_eq]; exact stackCmp_laws.lt_incomp_trans a b c

/-! ### (b) strict weak order: Signature.less -/

theorem sigLess_irrefl (a : Signature) : Signature.less a a = false := by
  rw [sigLess_eq]; exact sigCmp_laws.lt_irrefl a

theorem sigLess_asymm (a b : Signature) :
    Signature.less a b = true → Signature.less b a = false := by
  rw [sigLess_eq, sigLess_eq]; exact sigCmp_laws.lt_asymm a b

theorem sigLess_trans (a b c : Signature) :
    Signature.less a b = true → Signature.less b c = true → Signature.less a c = true := by
  rw [sigLess_eq, sigLess_eq, sigLess_eq]; exact sigCmp_laws.lt_trans a b c

theorem sigLess_incomp_trans (a b c : Signature) :
    Signature.less a b = false → Signature.less b a = false →
    Signature.less b c = false → Signature.less c b = false →
    (Signature.less a c = false ∧ Signature.less c a = false) := by
  simp only [sigLess_eq]; exact sigCmp_laws.lt_incomp_trans a b c

/-! ### (c) stdlib-only stacks sort last -/

theorem stdlib_last (a b : Stack) :
    (∀ c ∈ a.calls, c.location = .stdlib ∧ c.fn.isPkgMain = false) →
    a.calls ≠ [] →
    (∃ c ∈ b.calls, c.fn.isPkgMain = true ∨ c.location = .goMod ∨ c.location = .gopath ∨
      c.location = .goPkg) →
    Stack.less b a = true ∧ Stack.less a b = false := by
  intro ha _ hb
  have a0 : countMain a.calls = 0 := countMain_eq_zero _ (fun c hc => (ha c hc).2)
  have a1 : countLoc a.calls .goMod = 0 :=
    countLoc_eq_zero _ _ (fun c hc => by rw [(ha c hc).1]; decide)
  have a2 : countLoc a.calls .gopath = 0 :=
    countLoc_eq_zero _ _ (fun c hc => by rw [(ha c hc).1]; decide)
  have a3 : countLoc a.calls .goPkg = 0 :=
    countLoc_eq_zero _ _ (fun c hc => by rw [(ha c hc).1]; decide)
  have hpos : 0 < countMain b.calls ∨ 0 < countLoc b.calls .goMod ∨
      0 < countLoc b.calls .gopath ∨ 0 < countLoc b.calls .goPkg := by
    obtain ⟨c, hc, h⟩ := hb
    rcases h with h | h | h | h
    · exact Or.inl (countMain_pos _ c hc h)
    · exact Or.inr (Or.inl (countLoc_pos _ _ c hc h))
    · exact Or.inr (Or.inr (Or.inl (countLoc_pos _ _ c hc h)))
    · exact Or.inr (Or.inr (Or.inr (countLoc_pos _ _ c hc h)))
  constructor
  · simp only [Stack.less, Stack.less?, histo, a0, a1, a2, a3]
    rw [histoCmp_pos_zero _ _ _ _ _ _ _ _ hpos]; rfl
  · simp only [Stack.less, Stack.less?, histo, a0, a1, a2, a3]
    rw [histoCmp_zero_pos _ _ _ _ _ _ _ _ hpos]; rfl

/-! ### (d) non-vacuity -/

section Examples

private def exMain : Call := { fn := { complete := b!"main.main", isPkgMain := true }, dirSrc := b!"cmd/main.go", line := 10, location := .goMod }
private def exStd : Call := { fn := { complete := b!"runtime.gopark" }, dirSrc := b!"runtime/proc.go", line := 398, location := .stdlib }
private def exStd2 : Call := { fn := { complete := b!"runtime.gopark" }, dirSrc := b!"runtime/proc.go", line := 399, location := .stdlib }

private def sigMain : Signature := { state := b!"running", stack := { calls := [exMain, exStd] } }
private def sigStd : Signature := { state := b!"chan receive", stack := { calls := [exStd, exStd] } }
private def sigStd2 : Signature := { state := b!"chan receive", stack := { calls := [exStd, exStd2] } }
private def sigStdLocked : Signature := { sigStd with locked := true }
private def sigStdSel : Signature := { sigStd with state := b!"select" }

-- decided by the histogram
example : Signature.less sigMain sigStd = true := by decide
example : Signature.less sigStd sigMain = false := by decide
-- decided by the per-frame loop (line number of the second frame)
example : Signature.less sigStd sigStd2 = true := by decide
-- decided by `locked`
example : Signature.less sigStdLocked sigStd = true := by decide
-- decided by `state`
example : Signature.less sigStd sigStdSel = true := by decide
example : Stack.less sigMain.stack sigStd.stack = true := by decide
example : Stack.less? sigStd.stack sigStd2.stack = some true := by decide
-- the hypotheses of `stdlib_last` are satisfiable
example : Stack.less sigMain.stack sigStd.stack = true ∧ Stack.less sigStd.stack sigMain.stack = false :=
  stdlib_last sigStd.stack sigMain.stack (by decide) (by decide) (by decide)
-- incomparable but different signatures exist (the order is weak, not total)
example : Signature.less sigStd { sigStd with sleepMin := 5 } = false ∧
    Signature.less { sigStd with sleepMin := 5 } sigStd = false := by decide

end Examples

end PP

#print axioms PP.stackLess_total_safe
#print axioms PP.sigLess_safe
#print axioms PP.stackLess_irrefl
#print axioms PP.stackLess_asymm
#print axioms PP.stackLess_trans
#print axioms PP.stackLess_incomp_trans
#print axioms PP.sigLess_irrefl
#print axioms PP.sigLess_asymm
#print axioms PP.sigLess_trans
#print axioms PP.sigLess_incomp_trans
#print axioms PP.stdlib_last
