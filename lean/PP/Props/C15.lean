import PP.Lemmas.NamesLemmas
/-
C15: nameArguments (stack.go:804-860) — properties of the value → number table
and of the renaming pass.
-/
namespace PP

/-! ### 1. one number per value -/

theorem nameTable_keys_nodup (gs : List Goroutine) :
    ((nameTable gs).map Prod.fst).Nodup := by
  rw [nameTable_eq, numbering_fst]; exact keys_nodup gs

/-- the table is a partial function of the value … -/
theorem same_value_same_name (gs : List Goroutine) :
    ∀ v k₁ k₂, (v, k₁) ∈ nameTable gs → (v, k₂) ∈ nameTable gs → k₁ = k₂ := by
  intro v k₁ k₂ h₁ h₂
  have h₁ := (lookup_eq_some_iff_mem (nameTable_keys_nodup gs)).mpr h₁
  have h₂ := (lookup_eq_some_iff_mem (nameTable_keys_nodup gs)).mpr h₂
  rw [h₁] at h₂; exact Option.some.inj h₂

/-- … and `lookup` (which `Arg.rename` uses) reads exactly that function. -/
theorem lookup_nameTable_iff (gs : List Goroutine) :
    ∀ v k, (nameTable gs).lookup v = some k ↔ (v, k) ∈ nameTable gs :=
  fun _ _ => lookup_eq_some_iff_mem (nameTable_keys_nodup gs)

/-- two pointer arguments with the same value that is in the table get the
same name, whatever their previous names and flags. -/
theorem same_value_same_name_arg (gs : List Goroutine) :
    ∀ v k n₁ o₁ i₁ n₂ o₂ i₂, (v, k) ∈ nameTable gs →
      Arg.rename (nameTable gs) (.scalar n₁ v true o₁ i₁) = .scalar (pseudoName k) v true o₁ i₁ ∧
      Arg.rename (nameTable gs) (.scalar n₂ v true o₂ i₂) = .scalar (pseudoName k) v true o₂ i₂ := by
  intro v k n₁ o₁ i₁ n₂ o₂ i₂ h
  have h := (lookup_nameTable_iff gs v k).mpr h
  simp [Arg.rename, h]

/-! ### 2. different values never share a number -/

theorem nameTable_injective (gs : List Goroutine) :
    ∀ v w k, (v, k) ∈ nameTable gs → (w, k) ∈ nameTable gs → v = w := by
  intro v w k hv hw
  rw [nameTable_eq] at hv hw
  exact numbering_inj hv hw

/-! ### 3. the numbers are 1..k, in table order -/

theorem nameTable_dense (gs : List Goroutine) :
    (nameTable gs).map Prod.snd = List.range' 1 (nameTable gs).length := by
  rw [nameTable_eq, numbering_snd, numbering_length]

/-! ### 4. every recurring pointer value is named -/

theorem recurring_named (gs : List Goroutine) :
    ∀ v, countOcc v (gs.flatMap Goroutine.ptrs) ≥ 2 →
      ∃ k, (nameTable gs).lookup v = some k := by
  intro v h
  apply lookup_isSome_of_mem_keys
  rw [nameTable_eq, numbering_fst, List.mem_append]
  have hall : v ∈ allOf gs := mem_of_countOcc_pos (Nat.le_trans (by decide) h)
  by_cases hp : v ∈ primOf gs
  · exact Or.inl (mem_keys1.mpr ⟨hall, hp, h⟩)
  · exact Or.inr (mem_keys2.mpr ⟨hall, hp⟩)

/-! ### 5./6. numbering order -/

theorem primary_first (gs : List Goroutine) :
    ∀ v w kv kw, (v, kv) ∈ nameTable gs → (w, kw) ∈ nameTable gs →
      v ∈ (match gs with | [] => [] | g :: _ => g.ptrs) →
      w ∉ (match gs with | [] => [] | g :: _ => g.ptrs) → kv < kw := by
  intro v w kv kw hv hw hpv hpw
  rw [nameTable_eq] at hv hw
  exact numbering_mono (keys_pairwise gs) (NameOrder.irrefl _) (NameOrder.asymm _) hv hw
    (Or.inl ⟨hpv, hpw⟩)

theorem ascending_within_class (gs : List Goroutine) :
    ∀ v w kv kw, (v, kv) ∈ nameTable gs → (w, kw) ∈ nameTable gs →
      (v ∈ (match gs with | [] => [] | g :: _ => g.ptrs) ↔
       w ∈ (match gs with | [] => [] | g :: _ => g.ptrs)) →
      v < w → kv < kw := by
  intro v w kv kw hv hw hiff hlt
  rw [nameTable_eq] at hv hw
  exact numbering_mono (keys_pairwise gs) (NameOrder.irrefl _) (NameOrder.asymm _) hv hw
    (Or.inr ⟨hiff, hlt⟩)

/-- converse of `recurring_named`: what is named either recurs, or does not
occur in goroutine 0 (the Go code names those even when they occur once). -/
theorem named_only_if (gs : List Goroutine) :
    ∀ v k, (v, k) ∈ nameTable gs →
      v ∈ gs.flatMap Goroutine.ptrs ∧
      (countOcc v (gs.flatMap Goroutine.ptrs) ≥ 2 ∨
       v ∉ (match gs with | [] => [] | g :: _ => g.ptrs)) := by
  intro v k h
  have hm : v ∈ (nameTable gs).map Prod.fst := List.mem_map_of_mem (f := Prod.fst) h
  rw [nameTable_eq, numbering_fst, List.mem_append] at hm
  rcases hm with hm | hm
  · have := mem_keys1.mp hm; exact ⟨this.1, Or.inl this.2.2⟩
  · have := mem_keys2.mp hm; exact ⟨this.1, Or.inr this.2⟩

/-! ### 7. only names change -/

theorem nonptr_unnamed (t : List (Nat × Nat)) (n : Bytes) (v : Nat) (o i : Bool) :
    Arg.rename t (.scalar n v false o i) = .scalar n v false o i := by
  simp [Arg.rename]

theorem only_names_change_arg (t : List (Nat × Nat)) (a : Arg) :
    Arg.eraseName (Arg.rename t a) = Arg.eraseName a :=
  Arg.eraseName_rename t a

theorem only_names_change_args (t : List (Nat × Nat)) (l : List Arg) :
    Arg.eraseNameL (Arg.renameL t l) = Arg.eraseNameL l :=
  Arg.eraseNameL_renameL t l

theorem rename_args_length (t : List (Nat × Nat)) (l : List Arg) :
    (Arg.renameL t l).length = l.length :=
  Arg.renameL_length t l

/-- the fields of a goroutine outside `sig.stack.calls` are untouched -/
theorem rename_fields (t : List (Nat × Nat)) (g : Goroutine) :
    (Goroutine.rename t g).id = g.id ∧
    (Goroutine.rename t g).first = g.first ∧
    (Goroutine.rename t g).raceWrite = g.raceWrite ∧
    (Goroutine.rename t g).raceAddr = g.raceAddr ∧
    (Goroutine.rename t g).sig.state = g.sig.state ∧
    (Goroutine.rename t g).sig.createdBy = g.sig.createdBy ∧
    (Goroutine.rename t g).sig.sleepMin = g.sig.sleepMin ∧
    (Goroutine.rename t g).sig.sleepMax = g.sig.sleepMax ∧
    (Goroutine.rename t g).sig.locked = g.sig.locked ∧
    (Goroutine.rename t g).sig.stack.elided = g.sig.stack.elided :=
  ⟨rfl, rfl, rfl, rfl, rfl, rfl, rfl, rfl, rfl, rfl⟩

theorem rename_calls_length (t : List (Nat × Nat)) (g : Goroutine) :
    (Goroutine.rename t g).sig.stack.calls.length = g.sig.stack.calls.length := by
  simp [Goroutine.rename]

/-- call by call, everything but `args.values` is untouched, `args.values`
keeps its length and changes at most in the names. -/
theorem rename_call (t : List (Nat × Nat)) (g : Goroutine) (j : Nat)
    (h : j < g.sig.stack.calls.length) :
    let c := g.sig.stack.calls[j]
    let c' := (Goroutine.rename t g).sig.stack.calls[j]'(by rw [rename_calls_length]; exact h)
    c'.fn = c.fn ∧ c'.remoteSrcPath = c.remoteSrcPath ∧ c'.line = c.line ∧
    c'.srcName = c.srcName ∧ c'.dirSrc = c.dirSrc ∧ c'.localSrcPath = c.localSrcPath ∧
    c'.relSrcPath = c.relSrcPath ∧ c'.importPath = c.importPath ∧ c'.location = c.location ∧
    c'.args.processed = c.args.processed ∧ c'.args.elided = c.args.elided ∧
    c'.args.values = Arg.renameL t c.args.values ∧
    c'.args.values.length = c.args.values.length ∧
    Arg.eraseNameL c'.args.values = Arg.eraseNameL c.args.values := by
  simp [Goroutine.rename, Arg.eraseNameL_renameL, Arg.renameL_length]

/-- the same in one equation: modulo argument names, renaming is the identity -/
theorem only_names_change (t : List (Nat × Nat)) (g : Goroutine) :
    Goroutine.eraseNames (Goroutine.rename t g) = Goroutine.eraseNames g := by
  simp [Goroutine.eraseNames, Goroutine.rename, Call.eraseNames, Function.comp_def,
    Arg.eraseNameL_renameL]

theorem nameArguments_length (gs : List Goroutine) :
    (nameArguments gs).length = gs.length := by
  simp [nameArguments]

theorem nameArguments_only_names_change (gs : List Goroutine) :
    (nameArguments gs).map Goroutine.eraseNames = gs.map Goroutine.eraseNames := by
  simp [nameArguments, Function.comp_def, only_names_change]

/-! ### non-vacuity -/

section Example

private def ptrArg (v : Nat) : Arg := .scalar [] v true false false
private def intArg (v : Nat) : Arg := .scalar [] v false false false
private def callOf (as : List Arg) : Call := { args := { values := as } }
private def gorOf (id : Nat) (cs : List Call) : Goroutine :=
  { id := id, sig := { stack := { calls := cs } } }

/-- goroutine 1 (primary): 0xc000 (also in goroutine 2), 0xa000 twice, 0xb000
once, the integer 0xd000 twice; goroutine 2: 0xc000 inside an aggregate,
0xd000 once as pointer, 0x9000 twice. -/
private def ex : List Goroutine :=
  [ gorOf 1 [callOf [ptrArg 0xc000, intArg 0xd000, ptrArg 0xa000],
             callOf [ptrArg 0xa000, ptrArg 0xb000, intArg 0xd000]],
    gorOf 2 [callOf [.agg [ptrArg 0xc000, intArg 7] false, ptrArg 0xd000],
             callOf [ptrArg 0x9000, ptrArg 0x9000]] ]

example : ex.flatMap Goroutine.ptrs =
    [0xc000, 0xa000, 0xa000, 0xb000, 0xc000, 0xd000, 0x9000, 0x9000] := by decide

/-- primary and recurring first (0xa000, 0xc000 ascending), then the
non-primary ones (0x9000, 0xd000 ascending); 0xb000 (primary, once) unnamed. -/
example : nameTable ex = [(0xa000, 1), (0xc000, 2), (0x9000, 3), (0xd000, 4)] := by decide

example : (nameTable ex).lookup 0xb000 = none := by decide

-- hypotheses of `recurring_named`, `primary_first`, `ascending_within_class` are satisfiable
example : countOcc 0xc000 (ex.flatMap Goroutine.ptrs) ≥ 2 := by decide
example : (0xc000, 2) ∈ nameTable ex ∧ (0x9000, 3) ∈ nameTable ex ∧
    0xc000 ∈ primOf ex ∧ 0x9000 ∉ primOf ex := by decide
example : (0xa000, 1) ∈ nameTable ex ∧ (0xc000, 2) ∈ nameTable ex ∧
    (0xa000 ∈ primOf ex ↔ 0xc000 ∈ primOf ex) := by decide

/-- the renamed snapshot: pointer arguments named, integers and the once-only
primary pointer untouched. -/
example : (nameArguments ex).map (fun g => g.sig.stack.calls.map (·.args.values)) =
    let p (k v : Nat) : Arg := .scalar (pseudoName k) v true false false
    [ [[p 2 0xc000, intArg 0xd000, p 1 0xa000],
       [p 1 0xa000, ptrArg 0xb000, intArg 0xd000]],
      [[.agg [p 2 0xc000, intArg 7] false, p 4 0xd000],
       [p 3 0x9000, p 3 0x9000]] ] := by
  have h : nameTable ex = [(0xa000, 1), (0xc000, 2), (0x9000, 3), (0xd000, 4)] := by decide
  rw [nameArguments, h]
  simp [ex, gorOf, callOf, ptrArg, intArg, Goroutine.rename, Arg.renameL, Arg.rename,
    List.lookup]

example : pseudoName 2 = b!"#2" := by decide

end Example

/-! ### axioms -/

#print axioms nameTable_keys_nodup
#print axioms same_value_same_name
#print axioms lookup_nameTable_iff
#print axioms same_value_same_name_arg
#print axioms nameTable_injective
#print axioms nameTable_dense
#print axioms recurring_named
#print axioms primary_first
#print axioms ascending_within_class
#print axioms named_only_if
#print axioms nonptr_unnamed
#print axioms only_names_change_arg
#print axioms only_names_change_args
#print axioms rename_args_length
#print axioms rename_fields
#print axioms rename_calls_length
#print axioms rename_call
#print axioms only_names_change
#print axioms nameArguments_length
#print axioms nameArguments_only_names_change

end PP
