import PP.Lemmas.Cut
import PP.Lemmas.CutInv
import PP.Lemmas.CutRace
import PP.Props.C09b
import PP.Props.C03
/-
C10 — truncation and read-failure tolerance, at line level (`scanL` on `specLines`;
`scanSnapshot_eq_L` in `PP.Props.C09b` transports every statement to any delivery).

The stream `bs` (ending in `fin`) is compared with the stream cut after `k` bytes, ending in
`fin'` (EOF = truncation, `.other t` = a failing reader).

Vocabulary (lemma file `PP/Lemmas/Cut.lean`):
* `cutCommon bs k` — the complete lines of `bs.take k`; `cutFrag bs k` — the unterminated
  fragment after them (possibly empty);
* `noErr xs = xs.map (·, none)`;
* `prefixL s fwd cons xs` — the loop of `scanL` over complete lines: `some (s₁, fwd₁, cons₁)`
  is the loop state after `xs` when the loop is still running, `none` when it ended inside;
* `afterCommon bs k = prefixL {} [] [] (cutCommon bs k)`;
* `St.isRace st` — `st` is one of the race-report states (`gotRaceHeader1` … `betweenRaceGoroutines`);
  `NR st := st.isRace = false ∧ st ≠ .looking`.
* race reports (lemma file `PP/Lemmas/CutRace.lean`): `St.isRaceBody` — after the two header
  lines (`gotRaceOperationHeader` … `betweenRaceGoroutines`); `St.isRaceOp` — inside an operation
  section (`gotRaceOperationHeader/Func/File`: the LAST goroutine is being written);
  `St.isRaceCreW` — inside a creation section (`gotRaceGoroutineHeader/Func/File`: goroutine
  `s.gi` is being written); `St.isRaceCre` — the creation part (`isRaceCreW` or
  `betweenRaceGoroutines`: every operation section has been read);
  `raceFrozen s` — the number of leading goroutines whose operation section is complete
  (`s.gs.length - 1` inside an operation section, `s.gs.length` otherwise);
  `raceWriting s` — the index being written, if any;
  `RaceExt g g'` — equal but for `sig.state` and `sig.createdBy` (what a creation section sets;
  an equivalence relation); `RacePartial g g'` — equal ids, `first`, address, read/write kind,
  `locked`, sleep (what is fixed once the operation header has been read);
  `StackGrows st st'` — same `elided`, `st.calls.length ≤ st'.calls.length` and
  `st.calls.dropLast <+: st'.calls`;
  `raceOpView g = (id, first, raceWrite, raceAddr, sig.stack)`.

`PP/Lemmas/CutInv.lean` and `cut_no_panic` use C03 (`PP.Props.C03` and its lemma files).
-/
namespace PP

/-! ### 1. The canonical split of a cut stream -/

/-- Cut and uncut stream share the complete lines `common` before the cut; the cut stream
ends with the unterminated fragment `frag`, which carries the error; in the uncut stream the
next item extends `frag` (a complete line `frag ++ p ++ "\n"`, or the unterminated tail). -/
theorem specLines_take (bs : Bytes) (k : Nat) (fin fin' : RErr) :
    ∃ (common : List Bytes) (frag : Bytes) (more : List (Bytes × Option RErr)),
      common = cutCommon bs k ∧ frag = cutFrag bs k ∧
      (∀ l ∈ common, ∃ p, (10 : UInt8) ∉ p ∧ l = p ++ [10]) ∧ (10 : UInt8) ∉ frag ∧
      bs.take k = common.flatten ++ frag ∧
      specLines (bs.take k) fin' = noErr common ++ [(frag, some fin')] ∧
      specLines bs fin = noErr common ++ more ∧
      more = specLines (frag ++ bs.drop k) fin ∧
      ((∃ p r, (10 : UInt8) ∉ p ∧ bs.drop k = p ++ [10] ++ r ∧
          more = (frag ++ p ++ [10], none) :: specLines r fin) ∨
       ((10 : UInt8) ∉ bs.drop k ∧ more = [(frag ++ bs.drop k, some fin)])) := by
  refine ⟨cutCommon bs k, cutFrag bs k, specLines (cutFrag bs k ++ bs.drop k) fin, rfl, rfl,
    splitLines_lines _, splitLines_tail_noNL _, (splitLines_join _).symm, specLines_cut bs k fin',
    specLines_uncut bs k fin, rfl, ?_⟩
  exact specLines_frag_append _ _ fin (splitLines_tail_noNL _)

/-! ### 2. Both runs go through the common prefix in the same way -/

/-- if the loop is still running after `xs`, it continues on what follows from the state
reached after `xs` -/
theorem scanL_common_prefix (s : S) (fwd : Bytes) (cons : List Bytes) (xs : List Bytes)
    (ys : List (Bytes × Option RErr)) (s₁ : S) (fwd₁ : Bytes) (cons₁ : List Bytes)
    (h : prefixL s fwd cons xs = some (s₁, fwd₁, cons₁)) :
    scanL s fwd cons (noErr xs ++ ys) = scanL s₁ fwd₁ cons₁ ys :=
  scanL_prefix_some s fwd cons xs ys s₁ fwd₁ cons₁ h

/-- if the loop ends inside `xs`, what follows `xs` is only seen in `rest`; the loop ended
without error (break, state `done`, or panic) or with a parse error -/
theorem scanL_common_prefix_ended (s : S) (fwd : Bytes) (cons : List Bytes) (xs : List Bytes)
    (h : prefixL s fwd cons xs = none) (ys ys' : List (Bytes × Option RErr)) :
    let o := scanL s fwd cons (noErr xs ++ ys)
    let o' := scanL s fwd cons (noErr xs ++ ys')
    o.s = o'.s ∧ o.fwd = o'.fwd ∧ o.consumed = o'.consumed ∧ o.err = o'.err ∧
    o.broke = o'.broke ∧ o.panicked = o'.panicked ∧
    (∃ r, o.rest = r ++ ys ∧ o'.rest = r ++ ys') ∧
    ((o.err = none ∧ (o.broke = true ∨ o.s.st = .done ∨ o.panicked.isSome)) ∨
      ∃ e, o.err = some (.parse e)) := by
  obtain ⟨o, r, hk, ho⟩ := scanL_prefix_none s fwd cons xs h
  intro o1 o2
  have h1 : o1 = { o with rest := r ++ ys } := ho ys
  have h2 : o2 = { o with rest := r ++ ys' } := ho ys'
  rw [h1, h2]
  exact ⟨rfl, rfl, rfl, rfl, rfl, rfl, ⟨r, rfl, rfl⟩, hk⟩

/-- the cut and the uncut run: either the loop has ended before the cut, and the two results
agree on everything but the unread remainder, or both continue from the same state, the cut run
on the fragment and the uncut run on the rest of the stream -/
theorem cut_uncut (bs : Bytes) (k : Nat) (fin fin' : RErr) :
    let cut := scanL {} [] [] (specLines (bs.take k) fin')
    let uncut := scanL {} [] [] (specLines bs fin)
    (afterCommon bs k = none ∧
      cut.s = uncut.s ∧ cut.fwd = uncut.fwd ∧ cut.consumed = uncut.consumed ∧ cut.err = uncut.err ∧
      cut.broke = uncut.broke ∧ cut.panicked = uncut.panicked ∧
      (∃ r, cut.rest = r ++ [(cutFrag bs k, some fin')] ∧
        uncut.rest = r ++ specLines (cutFrag bs k ++ bs.drop k) fin) ∧
      ((cut.err = none ∧ (cut.broke = true ∨ cut.s.st = .done ∨ cut.panicked.isSome)) ∨
        ∃ e, cut.err = some (.parse e))) ∨
    (∃ s_c fwd_c cons_c, afterCommon bs k = some (s_c, fwd_c, cons_c) ∧
      cut = scanL s_c fwd_c cons_c [(cutFrag bs k, some fin')] ∧
      uncut = scanL s_c fwd_c cons_c (specLines (cutFrag bs k ++ bs.drop k) fin)) := by
  intro cut uncut
  have hc : cut = scanL {} [] [] (noErr (cutCommon bs k) ++ [(cutFrag bs k, some fin')]) := by
    show scanL _ _ _ _ = _; rw [specLines_cut]
  have hu : uncut = scanL {} [] [] (noErr (cutCommon bs k) ++
      specLines (cutFrag bs k ++ bs.drop k) fin) := by
    show scanL _ _ _ _ = _; rw [← specLines_uncut]
  cases h : afterCommon bs k with
  | none =>
    left
    have := scanL_common_prefix_ended {} [] [] (cutCommon bs k) h
      [(cutFrag bs k, some fin')] (specLines (cutFrag bs k ++ bs.drop k) fin)
    rw [hc, hu]
    exact ⟨rfl, this⟩
  | some v =>
    obtain ⟨s_c, fwd_c, cons_c⟩ := v
    right
    refine ⟨s_c, fwd_c, cons_c, rfl, ?_, ?_⟩
    · rw [hc]; exact scanL_prefix_some _ _ _ _ _ _ _ _ h
    · rw [hu]; exact scanL_prefix_some _ _ _ _ _ _ _ _ h

/-! ### 3. The error of the cut run -/

/-- The cut run returns without error (it had finished before the cut: break, state `done`;
or a panic, excluded by C03), or with the reader's error, or with a parse error.  A parse
error means: the stream ended with EOF (`combineErr` lets a parse error about the goroutine
being read replace EOF, and nothing else), or the loop stopped at a complete line before the
cut, where the reader failure had not been returned by the reader yet. -/
theorem cut_error_kind (bs : Bytes) (k : Nat) (fin' : RErr) :
    let o := scanL {} [] [] (specLines (bs.take k) fin')
    (o.err = none ∧ (o.broke = true ∨ o.s.st = .done ∨ o.panicked.isSome)) ∨
    o.err = some (.reader fin') ∨
    (∃ e, o.err = some (.parse e) ∧ (fin' = .eof ∨ afterCommon bs k = none)) := by
  intro o
  rcases cut_uncut bs k fin' fin' with ⟨h0, _, _, _, _, _, _, _, hk⟩ | ⟨s_c, f_c, c_c, h0, h1, _⟩
  · rcases hk with hk | ⟨e, he⟩
    · exact Or.inl hk
    · exact Or.inr (Or.inr ⟨e, he, Or.inr h0⟩)
  · have h1' : o = scanL s_c f_c c_c [(cutFrag bs k, some fin')] := h1
    rw [h1']
    rcases scanL_last s_c f_c c_c (cutFrag bs k) fin' with
      ⟨a1, a2, _, _, _, _, a7⟩ | ⟨_, _, b3, _⟩
    · left
      refine ⟨a1, Or.inr ?_⟩
      rcases a7 with ⟨a7, _⟩ | a7
      · left; rw [a2]; exact a7
      · right; exact a7
    · rcases b3 with b3 | ⟨b3, e, b4⟩
      · exact Or.inr (Or.inl b3)
      · exact Or.inr (Or.inr ⟨e, b4, Or.inl b3⟩)

/-- Once the loop reaches the cut, a reader failure other than EOF is reported as exactly
that error: no parse error masks it. -/
theorem reader_failure_not_masked (bs : Bytes) (k : Nat) (fin' : RErr) (hne : fin' ≠ .eof)
    (hreach : afterCommon bs k ≠ none) :
    let o := scanL {} [] [] (specLines (bs.take k) fin')
    (o.err = none ∧ (o.s.st = .done ∨ o.panicked.isSome)) ∨ o.err = some (.reader fin') := by
  intro o
  rcases cut_uncut bs k fin' fin' with ⟨h0, _⟩ | ⟨s_c, f_c, c_c, h0, h1, _⟩
  · exact absurd h0 hreach
  · have h1' : o = scanL s_c f_c c_c [(cutFrag bs k, some fin')] := h1
    rw [h1']
    rcases scanL_last s_c f_c c_c (cutFrag bs k) fin' with
      ⟨a1, a2, _, _, _, _, a7⟩ | ⟨_, _, b3, _⟩
    · left
      refine ⟨a1, ?_⟩
      rcases a7 with ⟨a7, _⟩ | a7
      · left; rw [a2]; exact a7
      · right; exact a7
    · rcases b3 with b3 | ⟨b3, _⟩
      · exact Or.inr b3
      · exact absurd b3 hne

/-- When the cut run reports a parse error although the reader failed with something else
than EOF, the loop stopped before the cut: the failing item is still unread (in `rest`), and
the uncut run reports the same parse error. -/
theorem parse_error_before_failure (bs : Bytes) (k : Nat) (fin fin' : RErr) (hne : fin' ≠ .eof)
    (e : Err) :
    let cut := scanL {} [] [] (specLines (bs.take k) fin')
    let uncut := scanL {} [] [] (specLines bs fin)
    cut.err = some (.parse e) →
      uncut.err = some (.parse e) ∧ ∃ r, cut.rest = r ++ [(cutFrag bs k, some fin')] := by
  intro cut uncut herr
  rcases cut_uncut bs k fin fin' with ⟨_, _, _, _, h4, _, _, ⟨r, h7, _⟩, _⟩ | ⟨s_c, f_c, c_c, h0, h1, _⟩
  · have h4' : cut.err = uncut.err := h4
    exact ⟨by rw [← h4']; exact herr, r, h7⟩
  · exfalso
    have h1' : cut = scanL s_c f_c c_c [(cutFrag bs k, some fin')] := h1
    rw [h1'] at herr
    rcases scanL_last s_c f_c c_c (cutFrag bs k) fin' with
      ⟨a1, _⟩ | ⟨_, _, b3, _⟩
    · rw [a1] at herr; simp at herr
    · rcases b3 with b3 | ⟨b3, _⟩
      · rw [b3] at herr; simp at herr
      · exact hne b3

/-! ### 5. What the cut run forwards -/

/-- The cut run forwards a prefix `fwd_c` of what the uncut run forwards, followed by nothing
or by the unterminated fragment `frag`; the latter only when, after the complete lines before
the cut, no dump is in progress (state `looking`, or `gotRaceHeader1`: a lone race separator
has just been withheld, K1).  Known finding K2: an unterminated line is forwarded when no dump
is in progress, because a stream without a dump must be reproduced identically. -/
theorem cut_forwarded (bs : Bytes) (k : Nat) (fin fin' : RErr) :
    let cut := scanL {} [] [] (specLines (bs.take k) fin')
    let uncut := scanL {} [] [] (specLines bs fin)
    ∃ fwd_c t, cut.fwd = fwd_c ++ t ∧ fwd_c <+: uncut.fwd ∧
      (t = [] ∨
       (t = cutFrag bs k ∧ t ≠ [] ∧ cut.s.st = .looking ∧
        ∃ s_c cons_c, afterCommon bs k = some (s_c, fwd_c, cons_c) ∧
          (s_c.st = .looking ∨ s_c.st = .gotRaceHeader1))) := by
  intro cut uncut
  rcases cut_uncut bs k fin fin' with ⟨_, _, h2, _⟩ | ⟨s_c, f_c, c_c, h0, h1, h2⟩
  · have h2' : cut.fwd = uncut.fwd := h2
    exact ⟨cut.fwd, [], by simp, by rw [h2']; exact List.prefix_refl _, Or.inl rfl⟩
  · have h1' : cut = scanL s_c f_c c_c [(cutFrag bs k, some fin')] := h1
    have h2' : uncut = scanL s_c f_c c_c (specLines (cutFrag bs k ++ bs.drop k) fin) := h2
    have hpre : f_c <+: uncut.fwd := by rw [h2']; exact scanL_fwd_prefix _ _ _ _
    rw [h1']
    rcases scanL_last s_c f_c c_c (cutFrag bs k) fin' with
      ⟨_, _, a3, _⟩ | ⟨_, _, _, b4⟩
    · exact ⟨f_c, [], by simp [a3], hpre, Or.inl rfl⟩
    · rcases b4 with ⟨_, _, b, _⟩ | ⟨hne, b, e1, hsc, _, hcase⟩
      · exact ⟨f_c, [], by simp [b], hpre, Or.inl rfl⟩
      · rcases hcase with ⟨_, c, _⟩ | ⟨_, _, c, _⟩ | ⟨hb, hlk, c, _⟩
        · exact ⟨f_c, [], by simp [c], hpre, Or.inl rfl⟩
        · exact ⟨f_c, [], by simp [c], hpre, Or.inl rfl⟩
        · refine ⟨f_c, cutFrag bs k, c, hpre, Or.inr ⟨rfl, hne, hlk, s_c, c_c, h0, ?_⟩⟩
          subst hb
          have hstep := scan_step hsc
          rw [hlk] at hstep
          rcases (Step_fwd_looking hstep).2 with h | ⟨h, _⟩
          · exact Or.inl h
          · exact Or.inr h

/-- the positive statement: unless an unterminated fragment is cut while no dump is in
progress, the cut run forwards a prefix of what the uncut run forwards -/
theorem cut_forwarded_prefix (bs : Bytes) (k : Nat) (fin fin' : RErr)
    (h : cutFrag bs k = [] ∨
      ∀ s_c fwd_c cons_c, afterCommon bs k = some (s_c, fwd_c, cons_c) →
        s_c.st ≠ .looking ∧ s_c.st ≠ .gotRaceHeader1) :
    (scanL {} [] [] (specLines (bs.take k) fin')).fwd <+:
      (scanL {} [] [] (specLines bs fin)).fwd := by
  obtain ⟨fwd_c, t, h1, h2, h3⟩ := cut_forwarded bs k fin fin'
  rcases h3 with h3 | ⟨h3, h4, _, s_c, c_c, h5, h6⟩
  · rw [h1, h3, List.append_nil]; exact h2
  · exfalso
    rcases h with h | h
    · exact h4 (h3.trans h)
    · obtain ⟨g1, g2⟩ := h s_c fwd_c c_c h5
      rcases h6 with h6 | h6
      · exact g1 h6
      · exact g2 h6

/-! ### 4. Goroutines read before the cut are frozen -/

/-- One `scan` step in a goroutine-dump state (`St.isRace = false`: `looking` … `gotUnavail`):
no goroutine is removed, every goroutine but the last is untouched, and either the length is
unchanged (at most the last goroutine was modified) or one goroutine was appended — in which
case the previously-last one is untouched too. -/
theorem scan_preserves_earlier {s s' : S} {l : Line} {b : Bool} {e : Option Err}
    (h : scan s l = .ok (s', b, e)) (hr : s.st.isRace = false) :
    s.gs.length ≤ s'.gs.length ∧ (∀ i, i + 1 < s.gs.length → s'.gs[i]? = s.gs[i]?) ∧
    (s'.gs.length = s.gs.length ∨ ∃ g, s'.gs = s.gs ++ [g]) := by
  obtain ⟨⟨h1, h2⟩, h3⟩ := (scan_gsChange h).lastOnly hr
  exact ⟨h1, h2, h3⟩

/-- One `scan` step in any state, race-report states included: no goroutine is removed, at
most one is appended, and the only existing goroutines that may be modified are the last one
and the one the race cursor points to before (`s.gi`) or after (`s'.gi`) the step. -/
theorem scan_preserves_others {s s' : S} {l : Line} {b : Bool} {e : Option Err}
    (h : scan s l = .ok (s', b, e)) :
    s.gs.length ≤ s'.gs.length ∧ s'.gs.length ≤ s.gs.length + 1 ∧
    ∀ i, i + 1 < s.gs.length → i ≠ s.gi → i ≠ s'.gi → s'.gs[i]? = s.gs[i]? := by
  have hc := scan_gsChange h
  refine ⟨hc.length_le.1, hc.length_le.2, ?_⟩
  intro i hi h1 h2
  rcases hc with hc | ⟨g, hc⟩ | ⟨f, hc⟩ | ⟨_, j, f, hj, hc⟩
  · rw [hc]
  · rw [hc]; exact (LastOnly.append _ _).2 i hi
  · exact (LastOnly.of_modifyLast hc).2 i hi
  · refine (modifyAt_spec hc).2 i ?_
    rcases hj with rfl | rfl
    · exact h1
    · exact h2

/-- The loop, started while a goroutine dump is being parsed (or finished): whatever follows,
the goroutines before the last one stay as they are, at the same index. -/
theorem scanL_preserves_earlier (s : S) (fwd : Bytes) (cons : List Bytes)
    (items : List (Bytes × Option RErr)) (h : NR s.st) :
    s.gs.length ≤ (scanL s fwd cons items).s.gs.length ∧
    ∀ i, i + 1 < s.gs.length → (scanL s fwd cons items).s.gs[i]? = s.gs[i]? :=
  (scanL_lastOnly s fwd cons items h).2

/-- Cut inside or after a goroutine dump (`NR s_c.st`: the state after the complete lines
before the cut is a goroutine-dump state other than `looking`): every goroutine of `s_c.gs`
except the last — every goroutine whose text lay entirely before the cut — is present, at the
same index and identical, in the result of the cut run and of the uncut run; only the last
one (the goroutine being read at the cut) may differ; and the cut run has at most one
goroutine more than `s_c.gs` (an unterminated fragment is scanned as is outside
`looking`/`done`: in `betweenRoutine` a cut header line still opens a goroutine). -/
theorem cut_prefix_goroutines (bs : Bytes) (k : Nat) (fin fin' : RErr)
    (s_c : S) (fwd_c : Bytes) (cons_c : List Bytes)
    (hc : afterCommon bs k = some (s_c, fwd_c, cons_c)) (hn : NR s_c.st) :
    let cut := scanL {} [] [] (specLines (bs.take k) fin')
    let uncut := scanL {} [] [] (specLines bs fin)
    (∀ i, i + 1 < s_c.gs.length → cut.s.gs[i]? = s_c.gs[i]? ∧ uncut.s.gs[i]? = s_c.gs[i]?) ∧
    s_c.gs.length ≤ cut.s.gs.length ∧ cut.s.gs.length ≤ s_c.gs.length + 1 ∧
    s_c.gs.length ≤ uncut.s.gs.length := by
  intro cut uncut
  rcases cut_uncut bs k fin fin' with ⟨h0, _⟩ | ⟨s', f', c', h0, h1, h2⟩
  · rw [hc] at h0; simp at h0
  · rw [hc] at h0
    simp only [Option.some.injEq, Prod.mk.injEq] at h0
    obtain ⟨rfl, rfl, rfl⟩ := h0
    have h1' : cut = scanL s_c fwd_c cons_c [(cutFrag bs k, some fin')] := h1
    have h2' : uncut = scanL s_c fwd_c cons_c (specLines (cutFrag bs k ++ bs.drop k) fin) := h2
    have a := (scanL_lastOnly s_c fwd_c cons_c [(cutFrag bs k, some fin')] hn).2
    have b := (scanL_lastOnly s_c fwd_c cons_c (specLines (cutFrag bs k ++ bs.drop k) fin) hn).2
    rw [← h1'] at a
    rw [← h2'] at b
    refine ⟨fun i hi => ⟨a.2 i hi, b.2 i hi⟩, a.1, ?_, b.1⟩
    rw [h1']
    rcases scanL_last s_c fwd_c cons_c (cutFrag bs k) fin' with
      ⟨_, a2, _⟩ | ⟨_, _, _, b4⟩
    · rw [a2]; omega
    · rcases b4 with ⟨_, b, _⟩ | ⟨_, b, e1, hsc, _⟩
      · rw [b]; omega
      · exact (scan_gsChange hsc).length_le.2

/-- the two runs agree on the goroutines before the cut -/
theorem cut_goroutines_agree (bs : Bytes) (k : Nat) (fin fin' : RErr)
    (h : afterCommon bs k = none ∨
      ∃ s_c fwd_c cons_c, afterCommon bs k = some (s_c, fwd_c, cons_c) ∧ NR s_c.st) :
    let cut := scanL {} [] [] (specLines (bs.take k) fin')
    let uncut := scanL {} [] [] (specLines bs fin)
    (afterCommon bs k = none → cut.s = uncut.s) ∧
    (∀ s_c fwd_c cons_c, afterCommon bs k = some (s_c, fwd_c, cons_c) →
      ∀ i, i + 1 < s_c.gs.length → cut.s.gs[i]? = uncut.s.gs[i]?) := by
  intro cut uncut
  refine ⟨fun h0 => ?_, fun s_c f_c c_c hc i hi => ?_⟩
  · rcases cut_uncut bs k fin fin' with ⟨_, h1, _⟩ | ⟨s', f', c', h1, _⟩
    · exact h1
    · rw [h0] at h1; simp at h1
  · rcases h with h | ⟨s', f', c', h1, hn⟩
    · rw [h] at hc; simp at hc
    · rw [hc] at h1
      simp only [Option.some.injEq, Prod.mk.injEq] at h1
      obtain ⟨rfl, rfl, rfl⟩ := h1
      obtain ⟨g, _⟩ := cut_prefix_goroutines bs k fin fin' s_c f_c c_c hc hn
      have := g i hi
      exact this.1.trans this.2.symm

/-- The same for every goroutine-dump state, `looking` included (there `s_c.gs = []` by the
scanner invariant of C03, so nothing precedes the cut): the hypothesis only excludes a cut
inside a race report. -/
theorem cut_prefix_goroutines_nonrace (bs : Bytes) (k : Nat) (fin fin' : RErr)
    (s_c : S) (fwd_c : Bytes) (cons_c : List Bytes)
    (hc : afterCommon bs k = some (s_c, fwd_c, cons_c)) (hr : s_c.st.isRace = false) :
    let cut := scanL {} [] [] (specLines (bs.take k) fin')
    let uncut := scanL {} [] [] (specLines bs fin)
    (∀ i, i + 1 < s_c.gs.length → cut.s.gs[i]? = s_c.gs[i]? ∧ uncut.s.gs[i]? = s_c.gs[i]?) ∧
    s_c.gs.length ≤ cut.s.gs.length ∧ cut.s.gs.length ≤ s_c.gs.length + 1 ∧
    s_c.gs.length ≤ uncut.s.gs.length := by
  by_cases hl : s_c.st = .looking
  · have h0 := afterCommon_looking_gs bs k s_c fwd_c cons_c hc (Or.inl hl)
    intro cut uncut
    refine ⟨fun i hi => by rw [h0] at hi; simp at hi, by rw [h0]; simp, ?_, by rw [h0]; simp⟩
    rcases cut_uncut bs k fin fin' with ⟨h1, _⟩ | ⟨s', f', c', h1, h2, _⟩
    · rw [hc] at h1; simp at h1
    · rw [hc] at h1
      simp only [Option.some.injEq, Prod.mk.injEq] at h1
      obtain ⟨rfl, rfl, rfl⟩ := h1
      have h2' : cut = scanL s_c fwd_c cons_c [(cutFrag bs k, some fin')] := h2
      rw [h2']
      rcases scanL_last s_c fwd_c cons_c (cutFrag bs k) fin' with
        ⟨_, a2, _⟩ | ⟨_, _, _, b4⟩
      · rw [a2]; omega
      · rcases b4 with ⟨_, b, _⟩ | ⟨_, b, e1, hsc, _⟩
        · rw [b]; omega
        · exact (scan_gsChange hsc).length_le.2
  · exact cut_prefix_goroutines bs k fin fin' s_c fwd_c cons_c hc ⟨hr, hl⟩

/-! ### 4'. Goroutines of a race report read before the cut -/

/-- when the loop is still running at the cut, both runs continue from the state reached there -/
theorem cut_uncut_some (bs : Bytes) (k : Nat) (fin fin' : RErr)
    (s_c : S) (fwd_c : Bytes) (cons_c : List Bytes)
    (hc : afterCommon bs k = some (s_c, fwd_c, cons_c)) :
    scanL {} [] [] (specLines (bs.take k) fin') = scanL s_c fwd_c cons_c [(cutFrag bs k, some fin')] ∧
    scanL {} [] [] (specLines bs fin) =
      scanL s_c fwd_c cons_c (specLines (cutFrag bs k ++ bs.drop k) fin) := by
  rcases cut_uncut bs k fin fin' with ⟨h0, _⟩ | ⟨s', f', c', h0, h1, h2⟩
  · rw [hc] at h0; simp at h0
  · rw [hc] at h0
    simp only [Option.some.injEq, Prod.mk.injEq] at h0
    obtain ⟨rfl, rfl, rfl⟩ := h0
    exact ⟨h1, h2⟩

/-- The loop, started inside a race report (`h0`: no goroutine exists before the first operation
header — part of the scanner invariant `Inv` of C03), whatever follows:
* no goroutine is removed, and every goroutine keeps its index, id, `first`, address and
  read/write kind (`RacePartial`), and the frames of its operation stack except possibly the
  last one, whose file line may not have been read yet (`StackGrows`);
* every goroutine whose operation section is complete (`i < raceFrozen s`: all of them, except
  the last one while its operation section is being read) also keeps its operation stack: it is
  only extended by creation sections (`RaceExt`: `sig.state` and `sig.createdBy` may differ) —
  this includes the goroutine `s.gi` whose creation section is being read;
* once all operation sections are read (`isRaceCre`), no goroutine is added and what the
  operation sections said of every goroutine is final. -/
theorem scanL_preserves_race (s : S) (fwd : Bytes) (cons : List Bytes)
    (ys : List (Bytes × Option RErr)) (hr : s.st.isRace = true)
    (h0 : s.st = .gotRaceHeader1 ∨ s.st = .gotRaceHeader2 → s.gs = []) :
    let s' := (scanL s fwd cons ys).s
    s.gs.length ≤ s'.gs.length ∧
    (∀ (i : Nat) (g : Goroutine), s.gs[i]? = some g →
      ∃ g', s'.gs[i]? = some g' ∧ RacePartial g g' ∧ StackGrows g.sig.stack g'.sig.stack ∧
        (i < raceFrozen s → RaceExt g g')) ∧
    (s.st.isRaceCre = true →
      s'.gs.length = s.gs.length ∧ s'.gs.map raceOpView = s.gs.map raceOpView) := by
  intro s'
  by_cases hb : s.st.isRaceBody = true
  · have hR : RaceRel s s' := (scanL_raceRel s fwd cons ys (Or.inl hb)).2
    refine ⟨hR.len, ?_, fun hc => ⟨(hR.cre (Or.inl hc)).1, hR.map_opView hc⟩⟩
    intro i g hg
    obtain ⟨g', hg', hp, hw⟩ := hR.part i g hg
    refine ⟨g', hg', hp, hw, fun hf => ?_⟩
    obtain ⟨g'', hg'', hx⟩ := hR.ext i g hg hf
    rw [hg'] at hg''
    rw [Option.some.inj hg'']
    exact hx
  · have hnil := h0 (isRace_not_body hr hb)
    refine ⟨by rw [hnil]; exact Nat.zero_le _, ?_, fun hc => absurd (isRaceCre_body hc) hb⟩
    intro i g hg
    rw [hnil] at hg
    simp at hg

/-- The stronger fact, for a goroutine no later creation section names: started inside a race
report, a goroutine whose operation section is complete, which is not the one a creation
section is being read for, and whose id no item of the continuation names in a
`Goroutine N (…) created at:` header, is in the result exactly as it is now.
(The hypothesis on the continuation cannot be replaced by a condition on the state: see the
witness `race_completed_section_reopened` below.) -/
theorem scanL_preserves_race_unnamed (s : S) (fwd : Bytes) (cons : List Bytes)
    (ys : List (Bytes × Option RErr)) (hr : s.st.isRace = true)
    (h0 : s.st = .gotRaceHeader1 ∨ s.st = .gotRaceHeader2 → s.gs = [])
    (i : Nat) (g : Goroutine) (hg : s.gs[i]? = some g) (hf : i < raceFrozen s)
    (hgi : s.st.isRaceCreW = true → s.gi ≠ i)
    (hno : ∀ x ∈ ys, ∀ stt, (classify s.pfx x.1).raceGor ≠ some (some g.id, stt)) :
    (scanL s fwd cons ys).s.gs[i]? = some g := by
  by_cases hb : s.st.isRaceBody = true
  · exact scanL_race_untouched s fwd cons ys i g hb hg hf hgi hno
  · rw [h0 (isRace_not_body hr hb)] at hg
    simp at hg

/-- Cut inside a race report (`s_c.st.isRace`: the state after the complete lines before the
cut is a race-report state).  For every goroutine `g` of `s_c.gs`, at index `i`:
* both runs have a goroutine at index `i`, with the id, `first`, address and read/write kind of
  `g` (`RacePartial`) and with the frames of `g`'s operation stack, except possibly the last
  one (`StackGrows`: for the goroutine being read at the cut, the frames read before the cut);
* unless `g` is the goroutine whose operation section is being read at the cut
  (`i < raceFrozen s_c`), the three agree up to `RaceExt`: same operation stack too; only
  `sig.state` and `sig.createdBy` — the creation section, which the uncut run may read later — may
  differ;
* the cut run differs from `s_c` in at most one goroutine: the one being written at the cut,
  or the one a cut creation header selects.
The cut run has at most one goroutine more than `s_c.gs`. -/
theorem cut_prefix_goroutines_race (bs : Bytes) (k : Nat) (fin fin' : RErr)
    (s_c : S) (fwd_c : Bytes) (cons_c : List Bytes)
    (hc : afterCommon bs k = some (s_c, fwd_c, cons_c)) (hr : s_c.st.isRace = true) :
    let cut := scanL {} [] [] (specLines (bs.take k) fin')
    let uncut := scanL {} [] [] (specLines bs fin)
    (∀ (i : Nat) (g : Goroutine), s_c.gs[i]? = some g →
      ∃ gc gu, cut.s.gs[i]? = some gc ∧ uncut.s.gs[i]? = some gu ∧
        RacePartial g gc ∧ RacePartial g gu ∧ RacePartial gc gu ∧
        StackGrows g.sig.stack gc.sig.stack ∧ StackGrows g.sig.stack gu.sig.stack ∧
        (i < raceFrozen s_c → RaceExt g gc ∧ RaceExt g gu ∧ RaceExt gc gu)) ∧
    (∀ i, i < s_c.gs.length → raceWriting s_c ≠ some i →
      (cut.s.st = .gotRaceGoroutineHeader → cut.s.gi ≠ i) → cut.s.gs[i]? = s_c.gs[i]?) ∧
    s_c.gs.length ≤ cut.s.gs.length ∧ cut.s.gs.length ≤ s_c.gs.length + 1 ∧
    s_c.gs.length ≤ uncut.s.gs.length := by
  intro cut uncut
  obtain ⟨h1, h2⟩ := cut_uncut_some bs k fin fin' s_c fwd_c cons_c hc
  have h1' : cut = scanL s_c fwd_c cons_c [(cutFrag bs k, some fin')] := h1
  have h2' : uncut = scanL s_c fwd_c cons_c (specLines (cutFrag bs k ++ bs.drop k) fin) := h2
  have h0 : s_c.st = .gotRaceHeader1 ∨ s_c.st = .gotRaceHeader2 → s_c.gs = [] :=
    fun h => afterCommon_looking_gs bs k s_c fwd_c cons_c hc (Or.inr h)
  obtain ⟨a1, a2, _⟩ := scanL_preserves_race s_c fwd_c cons_c [(cutFrag bs k, some fin')] hr h0
  obtain ⟨b1, b2, _⟩ := scanL_preserves_race s_c fwd_c cons_c
    (specLines (cutFrag bs k ++ bs.drop k) fin) hr h0
  rw [← h1'] at a1 a2
  rw [← h2'] at b1 b2
  refine ⟨?_, ?_, a1, by rw [h1']; exact scanL_last_len _ _ _ _ _, b1⟩
  · intro i g hg
    obtain ⟨gc, hgc, pc, wc, xc⟩ := a2 i g hg
    obtain ⟨gu, hgu, pu, wu, xu⟩ := b2 i g hg
    exact ⟨gc, gu, hgc, hgu, pc, pu, pc.symm.trans pu, wc, wu,
      fun hf => ⟨xc hf, xu hf, (xc hf).symm.trans (xu hf)⟩⟩
  · intro i hi hw hh
    by_cases hb : s_c.st.isRaceBody = true
    · rw [h1'] at hh ⊢
      exact scanL_last_untouched s_c fwd_c cons_c _ _ hb i hi hw hh
    · rw [h0 (isRace_not_body hr hb)] at hi
      simp at hi

/-- Cut in the creation part of a race report (every operation section lies before the cut):
both runs have exactly the goroutines of `s_c`, and the ids, `first` flags, addresses,
read/write kinds and operation stacks of ALL goroutines are identical in the cut run, in the
uncut run and in `s_c`. -/
theorem cut_race_operations_agree (bs : Bytes) (k : Nat) (fin fin' : RErr)
    (s_c : S) (fwd_c : Bytes) (cons_c : List Bytes)
    (hc : afterCommon bs k = some (s_c, fwd_c, cons_c)) (hcre : s_c.st.isRaceCre = true) :
    let cut := scanL {} [] [] (specLines (bs.take k) fin')
    let uncut := scanL {} [] [] (specLines bs fin)
    cut.s.gs.map raceOpView = uncut.s.gs.map raceOpView ∧
    cut.s.gs.map raceOpView = s_c.gs.map raceOpView ∧
    cut.s.gs.length = s_c.gs.length ∧ uncut.s.gs.length = s_c.gs.length := by
  intro cut uncut
  obtain ⟨h1, h2⟩ := cut_uncut_some bs k fin fin' s_c fwd_c cons_c hc
  have h1' : cut = scanL s_c fwd_c cons_c [(cutFrag bs k, some fin')] := h1
  have h2' : uncut = scanL s_c fwd_c cons_c (specLines (cutFrag bs k ++ bs.drop k) fin) := h2
  have hb := isRaceCre_body hcre
  have a := (scanL_raceRel s_c fwd_c cons_c [(cutFrag bs k, some fin')] (Or.inl hb)).2
  have b := (scanL_raceRel s_c fwd_c cons_c (specLines (cutFrag bs k ++ bs.drop k) fin) (Or.inl hb)).2
  rw [← h1'] at a
  rw [← h2'] at b
  exact ⟨(a.map_opView hcre).trans (b.map_opView hcre).symm, a.map_opView hcre,
    (a.cre (Or.inl hcre)).1, (b.cre (Or.inl hcre)).1⟩

/-- Cut inside a race report: a goroutine of `s_c.gs` whose operation section is complete, which
is not the one a creation section is being read for at the cut, and whose id neither the cut
fragment nor any later line names in a creation header, is identical — `sig.state` and
`sig.createdBy` included — in `s_c`, in the cut run and in the uncut run. -/
theorem cut_race_unnamed_identical (bs : Bytes) (k : Nat) (fin fin' : RErr)
    (s_c : S) (fwd_c : Bytes) (cons_c : List Bytes)
    (hc : afterCommon bs k = some (s_c, fwd_c, cons_c)) (hr : s_c.st.isRace = true)
    (i : Nat) (g : Goroutine) (hg : s_c.gs[i]? = some g) (hf : i < raceFrozen s_c)
    (hgi : s_c.st.isRaceCreW = true → s_c.gi ≠ i)
    (hfrag : ∀ stt, (classify s_c.pfx (cutFrag bs k)).raceGor ≠ some (some g.id, stt))
    (hlater : ∀ x ∈ specLines (cutFrag bs k ++ bs.drop k) fin,
      ∀ stt, (classify s_c.pfx x.1).raceGor ≠ some (some g.id, stt)) :
    (scanL {} [] [] (specLines (bs.take k) fin')).s.gs[i]? = some g ∧
    (scanL {} [] [] (specLines bs fin)).s.gs[i]? = some g := by
  obtain ⟨h1, h2⟩ := cut_uncut_some bs k fin fin' s_c fwd_c cons_c hc
  have h0 : s_c.st = .gotRaceHeader1 ∨ s_c.st = .gotRaceHeader2 → s_c.gs = [] :=
    fun h => afterCommon_looking_gs bs k s_c fwd_c cons_c hc (Or.inr h)
  rw [h1, h2]
  refine ⟨scanL_preserves_race_unnamed s_c fwd_c cons_c _ hr h0 i g hg hf hgi ?_,
    scanL_preserves_race_unnamed s_c fwd_c cons_c _ hr h0 i g hg hf hgi hlater⟩
  intro x hx
  simp only [List.mem_singleton] at hx
  subst hx
  exact hfrag

/-! ### 5'. No crash -/

/-- scanning a cut or failing stream does not panic (instance of C03) -/
theorem cut_no_panic (bs : Bytes) (k : Nat) (fin' : RErr) :
    (scanL {} [] [] (specLines (bs.take k) fin')).panicked = none :=
  scanL_no_panic _

/-- `cut_error_kind` without the panic alternative -/
theorem cut_error_kind_no_panic (bs : Bytes) (k : Nat) (fin' : RErr) :
    let o := scanL {} [] [] (specLines (bs.take k) fin')
    o.panicked = none ∧
    ((o.err = none ∧ (o.broke = true ∨ o.s.st = .done)) ∨
     o.err = some (.reader fin') ∨
     (∃ e, o.err = some (.parse e) ∧ (fin' = .eof ∨ afterCommon bs k = none))) := by
  intro o
  have hp : o.panicked = none := cut_no_panic bs k fin'
  refine ⟨hp, ?_⟩
  rcases cut_error_kind bs k fin' with ⟨h1, h2⟩ | h | h
  · left
    refine ⟨h1, ?_⟩
    rcases h2 with h2 | h2 | h2
    · exact Or.inl h2
    · exact Or.inr h2
    · have h2' : o.panicked.isSome = true := h2
      rw [hp] at h2'; simp at h2'
  · exact Or.inr (Or.inl h)
  · exact Or.inr (Or.inr h)

/-! ### 6. Transport to every delivery -/

/-- Any source that delivers the first `k` bytes of `bs` (in whatever pieces, with whatever
buffer size) and then ends or fails with `src'.final`: `ScanSnapshot` returns, and its result
is the one of the line-level cut run — so every statement above about
`scanL {} [] [] (specLines (bs.take k) fin')` is a statement about `ScanSnapshot` on such a
source.  (`names`: pointer pseudo-names are assigned afterwards, on the whole snapshot.) -/
theorem cut_delivery (N retry : Nat) (hN : 0 < N) (names : Bool) (src' : Src) (bs : Bytes) (k : Nat)
    (hrest : src'.rest = bs.take k) (hR : maxZeroRun src'.sched < retry) :
    ∃ r', scanSnapshot N retry names src' = some r' ∧
      let o := scanL {} [] [] (specLines (bs.take k) src'.final)
      r'.err = o.err ∧ r'.fwd = o.fwd ∧ r'.consumed = o.consumed ∧ r'.state = o.s.st ∧
      r'.panicked = o.panicked.isSome ∧
      r'.snap = (if o.s.gs.isEmpty then none
                 else some (if names then nameArguments o.s.gs else o.s.gs)) := by
  have ht := scanSnapshot_total N retry hN names src' hR
  cases h : scanSnapshot N retry names src' with
  | none => rw [h] at ht; simp at ht
  | some r' =>
    obtain ⟨a1, a2, a3, a4, a5, a6, _, _⟩ := scanSnapshot_eq_L N retry hN names src' hR r' h
    rw [hrest] at a1 a2 a3 a4 a5 a6
    exact ⟨r', rfl, a3, a2, a4, a5, a6, a1⟩

/-- the error `ScanSnapshot` returns on a cut or failing stream, for every delivery -/
theorem cut_error_kind_delivery (N retry : Nat) (hN : 0 < N) (names : Bool) (src' : Src)
    (bs : Bytes) (k : Nat) (hrest : src'.rest = bs.take k) (hR : maxZeroRun src'.sched < retry) :
    ∃ r', scanSnapshot N retry names src' = some r' ∧
      (r'.err = none ∨ r'.err = some (.reader src'.final) ∨
       ∃ e, r'.err = some (.parse e) ∧ (src'.final = .eof ∨ afterCommon bs k = none)) := by
  obtain ⟨r', h1, h2, _⟩ := cut_delivery N retry hN names src' bs k hrest hR
  refine ⟨r', h1, ?_⟩
  rw [h2]
  rcases cut_error_kind bs k src'.final with ⟨h, _⟩ | h | h
  · exact Or.inl h
  · exact Or.inr (Or.inl h)
  · exact Or.inr (Or.inr h)

/-! ### Witnesses -/

section Witnesses

private def w : Bytes := b!"pre\ngoroutine 1 [running]:\nmain.f()\n\t/a.go:1\n"

/-- Known finding K2 refutes the literal sentence "the bytes forwarded are a prefix of what
the uncut stream forwards": cut inside the header line, the fragment `gorou` is forwarded
(no dump is in progress), while the uncut stream withholds the whole header line. -/
theorem K2_fragment_forwarded :
    (scanL {} [] [] (specLines (w.take 9) .eof)).fwd = b!"pre\ngorou" ∧
    (scanL {} [] [] (specLines w .eof)).fwd = b!"pre\n" ∧
    ¬ ((scanL {} [] [] (specLines (w.take 9) .eof)).fwd <+: (scanL {} [] [] (specLines w .eof)).fwd) := by
  decide

/-- in that witness the loop is still running at the cut, in state `looking`, having forwarded
`pre\n`: `cut_forwarded` applies with `t = frag = gorou` -/
example : (afterCommon w 9).map (fun x => (x.1.st, x.2.1)) = some (.looking, b!"pre\n") ∧
    cutFrag w 9 = b!"gorou" := by decide

/-- the `gotRaceHeader1` alternative of `cut_forwarded` is real: a cut inside the line after a
race separator forwards the fragment `WARN`, while the uncut stream withholds that line -/
example :
    (afterCommon b!"==================\nWARNING: DATA RACE\n" 23).map (fun x => (x.1.st, x.2.1)) =
      some (.gotRaceHeader1, []) ∧
    (scanL {} [] [] (specLines ((b!"==================\nWARNING: DATA RACE\n").take 23) .eof)).fwd = b!"WARN" ∧
    (scanL {} [] [] (specLines b!"==================\nWARNING: DATA RACE\n" .eof)).fwd = [] := by decide

private def two : Bytes :=
  b!"goroutine 1 [running]:\nmain.f()\n\t/a.go:1\n\ngoroutine 2 [chan receive]:\nmain.g()\n\t/b.go:2\n"

private def view (o : OutL) :=
  (o.err, o.s.st, o.s.gs.map (fun g => (g.id, g.sig.stack.calls.map (·.line))), o.broke)

/-- cut inside goroutine 2 (`main.` of its first frame): the hypotheses of
`cut_prefix_goroutines` hold (state `gotRoutineHeader` after the complete lines) -/
example : (afterCommon two 75).map (fun x => (x.1.st, x.1.gs.length)) = some (.gotRoutineHeader, 2) ∧
    cutFrag two 75 = b!"main." := by decide
example : ∃ s_c f c, afterCommon two 75 = some (s_c, f, c) ∧ NR s_c.st := by
  have h : (afterCommon two 75).map (fun x => x.1.st) = some .gotRoutineHeader := by decide
  cases h' : afterCommon two 75 with
  | none => rw [h'] at h; simp at h
  | some v =>
    obtain ⟨a, b, c⟩ := v
    rw [h'] at h
    simp only [Option.map_some, Option.some.injEq] at h
    exact ⟨a, b, c, rfl, by rw [h]; exact ⟨rfl, by decide⟩⟩

/-- truncation there: a parse error about goroutine 2 replaces EOF; goroutine 1 is complete,
goroutine 2 is partial (no frame) -/
example : view (scanL {} [] [] (specLines (two.take 75) .eof)) =
    (some (.parse .funcAfterHeader), .gotRoutineHeader, [(1, [1]), (2, [])], true) := by decide
/-- a reader failure there is reported as exactly that error -/
example : view (scanL {} [] [] (specLines (two.take 75) (.other 3))) =
    (some (.reader (.other 3)), .gotRoutineHeader, [(1, [1]), (2, [])], true) := by decide
/-- cut inside the file line of goroutine 2: its frame has no line number yet -/
example : view (scanL {} [] [] (specLines (two.take 83) .eof)) =
    (some (.parse .fileAfterFunc), .gotFunc, [(1, [1]), (2, [0])], true) := by decide
/-- the uncut stream -/
example : view (scanL {} [] [] (specLines two .eof)) =
    (some (.reader .eof), .gotFileFunc, [(1, [1]), (2, [2])], false) := by decide

/-! #### race reports -/

private def race2 : Bytes :=
  b!"==================\nWARNING: DATA RACE\nRead at 0x00c000012345 by goroutine 7:\n  main.f()\n      /a.go:1 +0x1\n\nPrevious write at 0x00c000012345 by goroutine 6:\n  main.g()\n      /a.go:2 +0x2\n\nGoroutine 7 (running) created at:\n  main.h()\n      /a.go:3 +0x3\n\nGoroutine 6 (finished) created at:\n  main.h()\n      /a.go:4 +0x4\n==================\n"

/-- id, read/write kind, state, lines of the operation stack, lines of the creation stack -/
private structure RG where
  id : Nat
  write : Bool
  state : Bytes
  op : List Nat
  created : List Nat
  deriving DecidableEq

private def rview (o : OutL) :=
  (o.err, o.s.st, o.s.gs.map (fun g => RG.mk g.id g.raceWrite g.sig.state
    (g.sig.stack.calls.map (·.line)) (g.sig.createdBy.calls.map (·.line))), o.broke)

private theorem isRace_of_map {bs : Bytes} {k : Nat} {st : St}
    (h : (afterCommon bs k).map (fun x => x.1.st) = some st) (hst : st.isRace = true) :
    ∃ s_c f c, afterCommon bs k = some (s_c, f, c) ∧ s_c.st.isRace = true ∧ s_c.st = st := by
  cases h' : afterCommon bs k with
  | none => rw [h'] at h; simp at h
  | some v =>
    obtain ⟨a, b, c⟩ := v
    rw [h'] at h
    simp only [Option.map_some, Option.some.injEq] at h
    exact ⟨a, b, c, rfl, by rw [h]; exact hst, h⟩

set_option maxRecDepth 20000 in
/-- (a) cut inside the frames of the second operation (in the file line of `main.g`): the
hypotheses of `cut_prefix_goroutines_race` hold, in state `gotRaceOperationFunc`, with
`raceFrozen = 1`: goroutine 7 is complete, goroutine 6 is being written -/
example : (afterCommon race2 175).map (fun x => (x.1.st, x.1.gs.length, raceFrozen x.1, raceWriting x.1)) =
      some (.gotRaceOperationFunc, 2, 1, some 1) ∧
    cutFrag race2 175 = b!"      /" := by decide
set_option maxRecDepth 20000 in
example : ∃ s_c f c, afterCommon race2 175 = some (s_c, f, c) ∧ s_c.st.isRace = true ∧
    s_c.st = .gotRaceOperationFunc :=
  isRace_of_map (by decide) (by decide)
set_option maxRecDepth 20000 in
/-- the cut run: a parse error about goroutine 6 replaces EOF; goroutine 7 has its operation
stack, goroutine 6 is partial (its frame has no line number); no creation section was read -/
example : rview (scanL {} [] [] (specLines (race2.take 175) .eof)) =
    (some (.parse .raceFile), .gotRaceOperationFunc,
     [⟨7, false, b!"", [1], []⟩, ⟨6, true, b!"", [0], []⟩], true) := by decide
set_option maxRecDepth 20000 in
/-- the uncut run: goroutine 7 differs from the cut run only by its creation section
(`RaceExt`); goroutine 6 — being written at the cut — also by its operation stack -/
example : rview (scanL {} [] [] (specLines race2 .eof)) =
    (none, .done,
     [⟨7, false, b!"running", [1], [3]⟩, ⟨6, true, b!"finished", [2], [4]⟩], false) := by decide

set_option maxRecDepth 20000 in
/-- (b) cut inside the first creation section (in the file line of its frame): the hypotheses of
`cut_race_operations_agree` hold, in state `gotRaceGoroutineFunc`, goroutine 0 being written -/
example : (afterCommon race2 241).map (fun x => (x.1.st, x.1.gs.length, raceFrozen x.1, raceWriting x.1,
      x.1.st.isRaceCre)) = some (.gotRaceGoroutineFunc, 2, 2, some 0, true) ∧
    cutFrag race2 241 = b!"      /a" := by decide
set_option maxRecDepth 20000 in
example : ∃ s_c f c, afterCommon race2 241 = some (s_c, f, c) ∧ s_c.st.isRace = true ∧
    s_c.st = .gotRaceGoroutineFunc :=
  isRace_of_map (by decide) (by decide)
set_option maxRecDepth 20000 in
/-- the cut run: both operation stacks are complete and equal to those of the uncut run;
goroutine 7 has a partial creation section, goroutine 6 none -/
example : rview (scanL {} [] [] (specLines (race2.take 241) .eof)) =
    (some (.parse .raceFile), .gotRaceGoroutineFunc,
     [⟨7, false, b!"running", [1], [0]⟩, ⟨6, true, b!"", [2], []⟩], true) := by decide
set_option maxRecDepth 20000 in
/-- a reader failure there is reported as such -/
example : rview (scanL {} [] [] (specLines (race2.take 241) (.other 5))) =
    (some (.reader (.other 5)), .gotRaceGoroutineFunc,
     [⟨7, false, b!"running", [1], [0]⟩, ⟨6, true, b!"", [2], []⟩], true) := by decide

/-- `cut_race_operations_agree` applies to (b) -/
example : (scanL {} [] [] (specLines (race2.take 241) .eof)).s.gs.map raceOpView =
    (scanL {} [] [] (specLines race2 .eof)).s.gs.map raceOpView := by
  obtain ⟨s_c, f, c, h, _, hst⟩ := isRace_of_map (bs := race2) (k := 241)
    (st := .gotRaceGoroutineFunc) (by set_option maxRecDepth 20000 in decide) (by decide)
  exact (cut_race_operations_agree race2 241 .eof .eof s_c f c h (by rw [hst]; rfl)).1

set_option maxRecDepth 20000 in
/-- (c) cut between the two creation sections: `cut_race_unnamed_identical` applies to
goroutine 7 (index 0) — its creation section lies before the cut and no later line names it —
so it is identical, creation stack included, in both runs -/
example : (scanL {} [] [] (specLines (race2.take 253) .eof)).s.gs[0]? =
    (scanL {} [] [] (specLines race2 .eof)).s.gs[0]? := by
  have hm : (afterCommon race2 253).map (fun x => (x.1.st, x.1.pfx, x.1.gs.map (·.id))) =
      some (.betweenRaceGoroutines, [], [7, 6]) := by decide
  cases h' : afterCommon race2 253 with
  | none => rw [h'] at hm; simp at hm
  | some v =>
    obtain ⟨s_c, f, c⟩ := v
    rw [h'] at hm
    simp only [Option.map_some, Option.some.injEq, Prod.mk.injEq] at hm
    obtain ⟨hst, hpfx, hids⟩ := hm
    cases hgs : s_c.gs with
    | nil => rw [hgs] at hids; simp at hids
    | cons g t =>
      rw [hgs] at hids
      simp only [List.map_cons, List.cons.injEq] at hids
      have hid : g.id = 7 := hids.1
      have hfrag : ∀ stt, (classify s_c.pfx (cutFrag race2 253)).raceGor ≠ some (some g.id, stt) := by
        rw [hpfx, hid]
        exact raceGor_ne_of_map (by decide)
      have hlater : ∀ x ∈ specLines (cutFrag race2 253 ++ race2.drop 253) .eof,
          ∀ stt, (classify s_c.pfx x.1).raceGor ≠ some (some g.id, stt) := by
        rw [hpfx, hid]
        have : ∀ x ∈ specLines (cutFrag race2 253 ++ race2.drop 253) .eof,
            ((classify [] x.1).raceGor.map (·.1)) ≠ some (some 7) := by decide
        exact fun x hx => raceGor_ne_of_map (this x hx)
      have := cut_race_unnamed_identical race2 253 .eof .eof s_c f c h' (by rw [hst]; rfl) 0 g
        (by rw [hgs]; rfl) (by simp [raceFrozen, hst, St.isRaceOp, hgs])
        (by rw [hst]; intro h; cases h) hfrag hlater
      exact this.1.trans this.2.symm

private def reopened : Bytes :=
  b!"==================\nWARNING: DATA RACE\nRead at 0x00c000012345 by goroutine 7:\n  main.f()\n      /a.go:1 +0x1\n\nPrevious write at 0x00c000012345 by goroutine 6:\n  main.g()\n      /a.go:2 +0x2\n\nGoroutine 7 (running) created at:\n  main.h()\n      /a.go:3 +0x3\n\nGoroutine 7 (finished) created at:\n  main.k()\n      /a.go:9 +0x9\n==================\n"

set_option maxRecDepth 20000 in
/-- Why `scanL_preserves_race_unnamed` needs its hypothesis on the continuation: "the creation
section of this goroutine has been read completely" is not a property of the state that freezes
the goroutine.  A second `Goroutine 7 (…) created at:` section is accepted and applied to the
same goroutine: cut after the first one (state `betweenRaceGoroutines`, goroutine 7 complete
with `createdBy` = one frame), the uncut run overwrites its state and appends a frame to its
`createdBy`.  Only `RaceExt` holds between the two. -/
theorem race_completed_section_reopened :
    (afterCommon reopened 253).map (fun x => (x.1.st, raceWriting x.1)) =
      some (.betweenRaceGoroutines, none) ∧
    rview (scanL {} [] [] (specLines (reopened.take 253) .eof)) =
      (some (.reader .eof), .betweenRaceGoroutines,
       [⟨7, false, b!"running", [1], [3]⟩, ⟨6, true, b!"", [2], []⟩], false) ∧
    rview (scanL {} [] [] (specLines reopened .eof)) =
      (none, .done,
       [⟨7, false, b!"finished", [1], [3, 9]⟩, ⟨6, true, b!"", [2], []⟩], false) := by
  decide

private def bad : Bytes := b!"goroutine 1 [running]:\nbad\nxyz"

/-- Why `reader_failure_not_masked` needs `afterCommon ≠ none`: the loop stops with a parse
error on the complete line `bad\n`; the failure of the reader (after `xyz`) has not been
returned by the reader at that point — its item is still in `rest`. -/
example : (fun o : OutL => (o.err, o.broke, o.rest)) (scanL {} [] [] (specLines (bad.take 30) (.other 7))) =
      (some (.parse .funcAfterHeader), true, [(b!"bad\n", none), (b!"xyz", some (.other 7))]) ∧
    (afterCommon bad 30).isNone = true := by decide

/-- the transport theorem applies: 4-byte buffer, trickling source, error with the last data -/
example : ∃ r', scanSnapshot 4 10 false
      { rest := two.take 75, sched := [1, 0, 2, 7], final := .other 3, withData := true } = some r' ∧
    (r'.err = none ∨ r'.err = some (.reader (.other 3)) ∨
      ∃ e, r'.err = some (.parse e) ∧ (RErr.other 3 = .eof ∨ afterCommon two 75 = none)) :=
  cut_error_kind_delivery 4 10 (by decide) false
    { rest := two.take 75, sched := [1, 0, 2, 7], final := .other 3, withData := true } two 75 rfl
    (by decide)

end Witnesses

end PP

#print axioms PP.specLines_take
#print axioms PP.scanL_common_prefix
#print axioms PP.scanL_common_prefix_ended
#print axioms PP.cut_uncut
#print axioms PP.cut_error_kind
#print axioms PP.reader_failure_not_masked
#print axioms PP.parse_error_before_failure
#print axioms PP.cut_forwarded
#print axioms PP.cut_forwarded_prefix
#print axioms PP.K2_fragment_forwarded
#print axioms PP.scan_preserves_earlier
#print axioms PP.scan_preserves_others
#print axioms PP.scanL_preserves_earlier
#print axioms PP.cut_prefix_goroutines
#print axioms PP.cut_goroutines_agree
#print axioms PP.cut_prefix_goroutines_nonrace
#print axioms PP.cut_uncut_some
#print axioms PP.scanL_preserves_race
#print axioms PP.scanL_preserves_race_unnamed
#print axioms PP.cut_prefix_goroutines_race
#print axioms PP.cut_race_operations_agree
#print axioms PP.cut_race_unnamed_identical
#print axioms PP.race_completed_section_reopened
#print axioms PP.cut_no_panic
#print axioms PP.cut_error_kind_no_panic
#print axioms PP.cut_delivery
#print axioms PP.cut_error_kind_delivery
