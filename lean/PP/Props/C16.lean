import PP.Lemmas.ConsoleLemmas
import PP.Lemmas.ConsoleWidth
import PP.Lemmas.ColourStrip
import PP.Lemmas.ConsoleSamples
/-
C16: console rendering is complete, aligned and colour-independent.
-/
namespace PP.Console
open PP PP.Bytes

/-! ## 1. every admitted bucket / goroutine exactly once and in order -/

/-- The console output of an aggregation is the banner (when requested)
followed by the blocks (header then stack lines) of exactly the admitted
buckets, each once, in bucket order. -/
theorem blocks_buckets (p : Palette) (bs : List Bucket) (pf : PathFormat) (needsEnv : Bool)
    (filter mtch : Option (Bytes → Bool)) :
    writeBuckets p bs pf needsEnv filter mtch
      = (if needsEnv then banner else []) ++ render (bucketBlocks p bs pf filter mtch)
    ∧ bucketBlocks p bs pf filter mtch
      = ((bs.filter fun b => admitted filter mtch (bucketHeader p b pf (decide (bs.length > 1)))).map fun b =>
          (bucketHeader p b pf (decide (bs.length > 1)),
           stackLines p b.sig (calcBucketsLengths bs pf).1 (calcBucketsLengths bs pf).2 pf)) := by
  constructor
  · simp only [writeBuckets, bucketBlocks, writeLoop_eq_render]
  · rfl

/-- Same for a race report: one block per admitted goroutine. -/
theorem blocks_goroutines (p : Palette) (gs : List Goroutine) (pf : PathFormat) (needsEnv : Bool)
    (filter mtch : Option (Bytes → Bool)) :
    writeGoroutines p gs pf needsEnv filter mtch
      = (if needsEnv then banner else []) ++ render (goroutineBlocks p gs pf filter mtch)
    ∧ goroutineBlocks p gs pf filter mtch
      = ((gs.filter fun g => admitted filter mtch (goroutineHeader p g pf (decide (gs.length > 1)))).map fun g =>
          (goroutineHeader p g pf (decide (gs.length > 1)),
           stackLines p g.sig (calcGoroutinesLengths gs pf).1 (calcGoroutinesLengths gs pf).2 pf)) := by
  constructor
  · simp only [writeGoroutines, goroutineBlocks, writeLoop_eq_render]
  · rfl

/-- With no filter every bucket has its block. -/
theorem blocks_buckets_unfiltered (p : Palette) (bs : List Bucket) (pf : PathFormat) :
    (bucketBlocks p bs pf none none).length = bs.length := by
  simp [bucketBlocks, blocksOf_none]

theorem blocks_goroutines_unfiltered (p : Palette) (gs : List Goroutine) (pf : PathFormat) :
    (goroutineBlocks p gs pf none none).length = gs.length := by
  simp [goroutineBlocks, blocksOf_none]

/-! ## 2. 'filter out' and 'match only' split the unfiltered blocks in two -/

/-- For any predicate `q` on header text (the regular expression): the blocks
written with `-f q` are the unfiltered blocks whose header `q` rejects, those
written with `-m q` the ones it accepts, with identical text; the two are
disjoint sublists of the unfiltered list and together a permutation of it. -/
theorem filter_match_split_buckets (p : Palette) (bs : List Bucket) (pf : PathFormat) (q : Bytes → Bool) :
    let all := bucketBlocks p bs pf none none
    let a := bucketBlocks p bs pf (some q) none
    let b := bucketBlocks p bs pf none (some q)
    a = all.filter (fun blk => !q blk.1) ∧ b = all.filter (fun blk => q blk.1) ∧
    all.Perm (a ++ b) ∧ a.length + b.length = all.length ∧
    a.Sublist all ∧ b.Sublist all ∧ (∀ x, x ∈ a → x ∉ b) := by
  intro all a b
  have ha : a = all.filter (fun blk => !q blk.1) := blocksOf_filter _ _ q bs
  have hb : b = all.filter (fun blk => q blk.1) := blocksOf_match _ _ q bs
  refine ⟨ha, hb, ?_, ?_, ?_, ?_, ?_⟩
  · rw [ha, hb]; exact filter_split_perm (fun blk => q blk.1) all
  · rw [ha, hb]; exact filter_split_length (fun blk => q blk.1) all
  · rw [ha]; exact List.filter_sublist
  · rw [hb]; exact List.filter_sublist
  · intro x hxa hxb
    rw [ha] at hxa; rw [hb] at hxb
    simp only [List.mem_filter] at hxa hxb
    simp [hxb.2] at hxa

theorem filter_match_split_goroutines (p : Palette) (gs : List Goroutine) (pf : PathFormat) (q : Bytes → Bool) :
    let all := goroutineBlocks p gs pf none none
    let a := goroutineBlocks p gs pf (some q) none
    let b := goroutineBlocks p gs pf none (some q)
    a = all.filter (fun blk => !q blk.1) ∧ b = all.filter (fun blk => q blk.1) ∧
    all.Perm (a ++ b) ∧ a.length + b.length = all.length ∧
    a.Sublist all ∧ b.Sublist all ∧ (∀ x, x ∈ a → x ∉ b) := by
  intro all a b
  have ha : a = all.filter (fun blk => !q blk.1) := blocksOf_filter _ _ q gs
  have hb : b = all.filter (fun blk => q blk.1) := blocksOf_match _ _ q gs
  refine ⟨ha, hb, ?_, ?_, ?_, ?_, ?_⟩
  · rw [ha, hb]; exact filter_split_perm (fun blk => q blk.1) all
  · rw [ha, hb]; exact filter_split_length (fun blk => q blk.1) all
  · rw [ha]; exact List.filter_sublist
  · rw [hb]; exact List.filter_sublist
  · intro x hxa hxb
    rw [ha] at hxa; rw [hb] at hxb
    simp only [List.mem_filter] at hxa hxb
    simp [hxb.2] at hxa

/-! ## 3. the file and function columns are aligned over the whole output -/

/-- For every frame of every signature the widths were computed from (fmt
accepts the widths, i.e. they are at most 10^6): without colours the call line
is 4 spaces, the package directory padded to `pkgLen` runes, a space, the
location padded to `srcLen` runes, a space, then function and arguments.  The
texts fit their columns (rune count ≤ byte length ≤ maximum), so the file
column starts at rune offset `4 + pkgLen + 1` and the function column at
`4 + pkgLen + 1 + srcLen + 1` on every call line of the output. -/
theorem aligned (pf : PathFormat) (sigs : List Signature) (s : Signature) (c : Call)
    (hs : s ∈ sigs) (hc : c ∈ s.stack.calls)
    (hsrc : (calcLengths pf sigs).1 ≤ fmtMaxWidth) (hpkg : (calcLengths pf sigs).2 ≤ fmtMaxWidth) :
    let srcLen := (calcLengths pf sigs).1
    let pkgLen := (calcLengths pf sigs).2
    let col1 := b!"    " ++ padRight pkgLen c.fn.dirName ++ b!" "
    let col2 := col1 ++ padRight srcLen (formatCall pf c) ++ b!" "
    callLine emptyPalette c srcLen pkgLen pf = col2 ++ c.fn.name ++ b!"(" ++ argsString c.args ++ b!")" ∧
    runeCount c.fn.dirName ≤ pkgLen ∧ runeCount (formatCall pf c) ≤ srcLen ∧
    padRight pkgLen c.fn.dirName = c.fn.dirName ++ List.replicate (pkgLen - runeCount c.fn.dirName) 32 ∧
    padRight srcLen (formatCall pf c) = formatCall pf c ++ List.replicate (srcLen - runeCount (formatCall pf c)) 32 ∧
    runeCount col1 = 4 + pkgLen + 1 ∧ runeCount col2 = 4 + pkgLen + 1 + srcLen + 1 := by
  intro srcLen pkgLen col1 col2
  have hm := calcLengths_mem pf sigs s c hs hc
  have h1 : runeCount c.fn.dirName ≤ pkgLen := Nat.le_trans (runeCount_le _) hm.2
  have h2 : runeCount (formatCall pf c) ≤ srcLen := Nat.le_trans (runeCount_le _) hm.1
  have hcol1 : runeCount col1 = 4 + pkgLen + 1 := by
    show runeCount (b!"    " ++ padRight pkgLen c.fn.dirName ++ [32]) = _
    rw [List.append_assoc, runeCount_indent, runeCount_padRight_space _ _ h1]; omega
  refine ⟨?_, h1, h2, rfl, rfl, hcol1, ?_⟩
  · simp only [callLine, emptyPalette, functionColor, funcColor, fmtPadRight_eq _ _ hsrc, fmtPadRight_eq _ _ hpkg,
      col2, col1, srcLen, pkgLen]
    cases c.fn.isPkgMain <;> cases c.location <;> cases c.fn.isExported <;> simp
  · have e : col2 = (b!"    " ++ padRight pkgLen c.fn.dirName) ++ 32 :: (padRight srcLen (formatCall pf c) ++ [32]) := by
      simp [col2, col1]
    rw [e, runeCount_snoc_ascii_append _ _ _ (by decide), runeCount_padRight_space _ _ h2]
    have : runeCount (b!"    " ++ padRight pkgLen c.fn.dirName ++ [32]) = 4 + pkgLen + 1 := hcol1
    rw [this]; omega

/-- `aligned` for an aggregation: the widths of writeBucketsToConsole. -/
theorem aligned_buckets (pf : PathFormat) (bs : List Bucket) (b : Bucket) (c : Call)
    (hb : b ∈ bs) (hc : c ∈ b.sig.stack.calls)
    (hsrc : (calcBucketsLengths bs pf).1 ≤ fmtMaxWidth) (hpkg : (calcBucketsLengths bs pf).2 ≤ fmtMaxWidth) :
    let srcLen := (calcBucketsLengths bs pf).1
    let pkgLen := (calcBucketsLengths bs pf).2
    let col1 := b!"    " ++ padRight pkgLen c.fn.dirName ++ b!" "
    let col2 := col1 ++ padRight srcLen (formatCall pf c) ++ b!" "
    callLine emptyPalette c srcLen pkgLen pf = col2 ++ c.fn.name ++ b!"(" ++ argsString c.args ++ b!")" ∧
    runeCount col1 = 4 + pkgLen + 1 ∧ runeCount col2 = 4 + pkgLen + 1 + srcLen + 1 := by
  have h := aligned pf (bs.map (fun b : Bucket => b.sig)) b.sig c (List.mem_map_of_mem hb) hc hsrc hpkg
  exact ⟨h.1, h.2.2.2.2.2.1, h.2.2.2.2.2.2⟩

/-- `aligned` for a race report: the widths of writeGoroutinesToConsole. -/
theorem aligned_goroutines (pf : PathFormat) (gs : List Goroutine) (g : Goroutine) (c : Call)
    (hg : g ∈ gs) (hc : c ∈ g.sig.stack.calls)
    (hsrc : (calcGoroutinesLengths gs pf).1 ≤ fmtMaxWidth) (hpkg : (calcGoroutinesLengths gs pf).2 ≤ fmtMaxWidth) :
    let srcLen := (calcGoroutinesLengths gs pf).1
    let pkgLen := (calcGoroutinesLengths gs pf).2
    let col1 := b!"    " ++ padRight pkgLen c.fn.dirName ++ b!" "
    let col2 := col1 ++ padRight srcLen (formatCall pf c) ++ b!" "
    callLine emptyPalette c srcLen pkgLen pf = col2 ++ c.fn.name ++ b!"(" ++ argsString c.args ++ b!")" ∧
    runeCount col1 = 4 + pkgLen + 1 ∧ runeCount col2 = 4 + pkgLen + 1 + srcLen + 1 := by
  have h := aligned pf (gs.map (fun g : Goroutine => g.sig)) g.sig c (List.mem_map_of_mem hg) hc hsrc hpkg
  exact ⟨h.1, h.2.2.2.2.2.1, h.2.2.2.2.2.2⟩

/-! ## 4. one line per frame and a marker where frames were elided -/

/-- StackLines is its lines joined by "\n" plus a final "\n"; there is one line
per call (the call lines, in order) plus one when frames were elided, and the
last line is the marker `    (...)` exactly when frames were elided. -/
theorem elided_marker (p : Palette) (sig : Signature) (srcLen pkgLen : Nat) (pf : PathFormat) :
    let lines := stackLineList p sig srcLen pkgLen pf
    stackLines p sig srcLen pkgLen pf = join b!"\n" lines ++ b!"\n" ∧
    lines.length = sig.stack.calls.length + (if sig.stack.elided then 1 else 0) ∧
    lines.take sig.stack.calls.length = sig.stack.calls.map (fun c => callLine p c srcLen pkgLen pf) ∧
    (lines.getLast? = some elidedLine ↔ sig.stack.elided = true) := by
  intro lines
  refine ⟨rfl, ?_, ?_, ?_⟩
  · show (stackLineList p sig srcLen pkgLen pf).length = _
    unfold stackLineList
    cases sig.stack.elided <;> simp
  · show (stackLineList p sig srcLen pkgLen pf).take _ = _
    unfold stackLineList
    have hlen : (sig.stack.calls.map (fun c => callLine p c srcLen pkgLen pf)).length = sig.stack.calls.length := by simp
    cases sig.stack.elided
    · simp only [Bool.false_eq_true, if_false]
      rw [← hlen, List.take_length]
    · simp only [if_true]
      rw [← hlen, List.take_left]
  · show (stackLineList p sig srcLen pkgLen pf).getLast? = _ ↔ _
    unfold stackLineList
    cases h : sig.stack.elided
    · simp only [Bool.false_eq_true, if_false, iff_false]
      intro hl
      rw [List.getLast?_eq_some_iff] at hl
      obtain ⟨ys, hys⟩ := hl
      have hm : elidedLine ∈ sig.stack.calls.map (fun c => callLine p c srcLen pkgLen pf) := by
        rw [hys]; simp
      rw [List.mem_map] at hm
      obtain ⟨c, _, hc⟩ := hm
      exact callLine_ne_elidedLine p c srcLen pkgLen pf hc
    · simp

/-! ## 6. the fields of a header -/

/-- Without colours a bucket header is: member count, state, then sleep range,
lock and creator when present, then a newline. -/
theorem header_fields_bucket (b : Bucket) (pf : PathFormat) (multi : Bool) :
    bucketHeader emptyPalette b pf multi
      = fmtDec b.ids.length ++ b!": " ++ b.sig.state
        ++ (if sleepString b.sig ≠ [] then b!" [" ++ sleepString b.sig ++ b!"]" else [])
        ++ (if b.sig.locked then b!" [locked]" else [])
        ++ (if createdByString pf b.sig ≠ [] then b!" [Created by " ++ createdByString pf b.sig ++ b!"]" else [])
        ++ b!"\n" := by
  simp only [bucketHeader, headerExtra, emptyPalette, routineColor]
  cases b.sig.locked <;> by_cases h1 : sleepString b.sig = [] <;> by_cases h2 : createdByString pf b.sig = [] <;>
    simp [h1, h2]

/-- Without colours a goroutine header is: goroutine id, state, sleep range,
lock, creator and the racing access when present, then a newline. -/
theorem header_fields_goroutine (g : Goroutine) (pf : PathFormat) (multi : Bool) :
    goroutineHeader emptyPalette g pf multi
      = fmtDec g.id ++ b!": " ++ g.sig.state
        ++ (if sleepString g.sig ≠ [] then b!" [" ++ sleepString g.sig ++ b!"]" else [])
        ++ (if g.sig.locked then b!" [locked]" else [])
        ++ (if createdByString pf g.sig ≠ [] then b!" [Created by " ++ createdByString pf g.sig ++ b!"]" else [])
        ++ (if g.raceAddr ≠ 0 then b!" Race " ++ (if g.raceWrite then b!"write" else b!"read") ++ b!" @ 0x" ++ fmtHex08 g.raceAddr else [])
        ++ b!"\n" := by
  simp only [goroutineHeader, headerExtra, emptyPalette, routineColor]
  cases g.sig.locked <;> by_cases h1 : sleepString g.sig = [] <;> by_cases h2 : createdByString pf g.sig = [] <;>
    by_cases h3 : g.raceAddr = 0 <;> simp [h1, h2, h3]

/-- the creator text: package directory, function, location -/
theorem createdBy_fields (pf : PathFormat) (s : Signature) (c : Call) (rest : List Call)
    (h : s.createdBy.calls = c :: rest) :
    createdByString pf s = c.fn.dirName ++ b!"." ++ c.fn.name ++ b!" @ " ++ formatCall pf c := by
  simp [createdByString, h]

/-! ## 5. colouring never changes the text -/

/-- With no filter active, for a palette whose fields are concatenations of
escape sequences `ESC [ … m` and dump-derived strings free of ESC: removing
the escape sequences from the coloured output of an aggregation gives the
uncoloured output. -/
theorem colour_strip_buckets (p : Palette) (hp : PaletteIsAnsi p) (bs : List Bucket)
    (hbs : ∀ b ∈ bs, SigNoEsc b.sig) (pf : PathFormat) (needsEnv : Bool) :
    stripAnsi (writeBuckets p bs pf needsEnv none none) = writeBuckets emptyPalette bs pf needsEnv none none := by
  apply StripsTo.strip
  unfold writeBuckets
  exact (banner_strips needsEnv).append
    (writeLoop_strips _ _ _ _ bs (fun b hb => bucketHeader_strips hp (hbs b hb) pf _)
      (fun b hb => stackLines_strips hp (hbs b hb) _ _ pf))

/-- Same for a race report. -/
theorem colour_strip_goroutines (p : Palette) (hp : PaletteIsAnsi p) (gs : List Goroutine)
    (hgs : ∀ g ∈ gs, SigNoEsc g.sig) (pf : PathFormat) (needsEnv : Bool) :
    stripAnsi (writeGoroutines p gs pf needsEnv none none) = writeGoroutines emptyPalette gs pf needsEnv none none := by
  apply StripsTo.strip
  unfold writeGoroutines
  exact (banner_strips needsEnv).append
    (writeLoop_strips _ _ _ _ gs (fun g hg => goroutineHeader_strips hp (hgs g hg) pf _)
      (fun g hg => stackLines_strips hp (hgs g hg) _ _ pf))

/-- The pieces too: a coloured header / stack without its escape sequences is
the uncoloured one (this is what a filter expression would see differently). -/
theorem colour_strip_pieces (p : Palette) (hp : PaletteIsAnsi p) (b : Bucket) (hb : SigNoEsc b.sig)
    (pf : PathFormat) (multi : Bool) (srcLen pkgLen : Nat) :
    stripAnsi (bucketHeader p b pf multi) = bucketHeader emptyPalette b pf multi ∧
    stripAnsi (stackLines p b.sig srcLen pkgLen pf) = stackLines emptyPalette b.sig srcLen pkgLen pf :=
  ⟨(bucketHeader_strips hp hb pf multi).strip, (stackLines_strips hp hb srcLen pkgLen pf).strip⟩

/-! ## non-vacuity -/

/-- the hypothesis of `colour_strip_*` holds of that palette -/
example : PaletteIsAnsi samplePalette where
  eolReset := ansiCodes_two b!"39" [] (by decide) (by decide)
  routineFirst := ansiCodes_one b!"0;1;35" (by decide)
  routine := AnsiCodes.nil
  createdBy := ansiCodes_one b!"0;90" (by decide)
  race := ansiCodes_one b!"0;91" (by decide)
  pkg := ansiCodes_one b!"0;1;39" (by decide)
  srcFile := ansiCodes_two b!"39" [] (by decide) (by decide)
  funcMain := ansiCodes_one b!"0;1;33" (by decide)
  funcLocationUnknown := ansiCodes_one b!"0;37" (by decide)
  funcLocationUnknownExported := ansiCodes_one b!"0;1;37" (by decide)
  funcGoMod := ansiCodes_one b!"0;31" (by decide)
  funcGoModExported := ansiCodes_one b!"0;1;31" (by decide)
  funcGOPATH := ansiCodes_one b!"0;36" (by decide)
  funcGOPATHExported := ansiCodes_one b!"0;1;36" (by decide)
  funcGoPkg := ansiCodes_one b!"0;34" (by decide)
  funcGoPkgExported := ansiCodes_one b!"0;1;34" (by decide)
  funcStdLib := ansiCodes_one b!"0;32" (by decide)
  funcStdLibExported := ansiCodes_one b!"0;1;32" (by decide)
  arguments := ansiCodes_two b!"39" [] (by decide) (by decide)

/-- the uncoloured rendering of the sample, written out (the widths are 6 and
12 bytes; `h\u00e9llo` has 6 bytes but 5 runes and is padded to 6 runes) -/
example : writeBuckets emptyPalette sampleBuckets .basePath false none none =
    b!"3: chan receive [2~5 minutes] [locked] [Created by h\u00e9llo.Foo @ w\u00f6rld.go:12]\n    h\u00e9llo  w\u00f6rld.go:12  Foo(1, {#1, ...}, ...)\n    main   w\u00f6rld.go:12  main()\n    (...)\n1: running\n    h\u00e9llo  w\u00f6rld.go:3   Foo(1, {#1, ...}, ...)\n" := by
  decide +kernel

/-- colours present, and removing them gives back the uncoloured text -/
example : writeBuckets samplePalette sampleBuckets .basePath false none none
      ≠ writeBuckets emptyPalette sampleBuckets .basePath false none none ∧
    stripAnsi (writeBuckets samplePalette sampleBuckets .basePath false none none)
      = writeBuckets emptyPalette sampleBuckets .basePath false none none := by
  decide +kernel

/-- a proper split: the expression "locked" keeps one block on each side -/
example : (bucketBlocks emptyPalette sampleBuckets .basePath (some (containsSub b!"locked")) none).length = 1 ∧
    (bucketBlocks emptyPalette sampleBuckets .basePath none (some (containsSub b!"locked"))).length = 1 := by
  decide +kernel

/-- the hypotheses of `aligned_buckets` are satisfiable: the sample's widths (bytes) -/
example : calcBucketsLengths sampleBuckets .basePath = (12, 6) ∧ (12 : Nat) ≤ fmtMaxWidth ∧
    runeCount (b!"h\u00e9llo") = 5 ∧ (b!"h\u00e9llo").length = 6 := by
  decide +kernel

/-- the width hypothesis of `aligned` is needed: fmt rejects a `*` width above 10^6 -/
example : fmtPadRight 1000001 b!"x" = b!"%!(BADWIDTH)x" := by decide +kernel

/-- the ESC-freeness hypothesis holds of the sample call (names, paths, argument names) -/
example : CallNoEsc sampleCall where
  dirName := by unfold NoEsc ESC; decide
  name := by unfold NoEsc ESC; decide
  remote := by unfold NoEsc ESC; decide
  loc := by unfold NoEsc ESC; decide
  rel := by unfold NoEsc ESC; decide
  srcName := by unfold NoEsc ESC; decide
  processed := by intro s h; cases h
  values := by
    refine ⟨?_, ?_, trivial⟩
    · show NoEsc []; exact noEsc_nil
    · refine ⟨?_, trivial⟩
      show NoEsc b!"#1"
      unfold NoEsc ESC; decide

#print axioms blocks_buckets
#print axioms blocks_goroutines
#print axioms blocks_buckets_unfiltered
#print axioms blocks_goroutines_unfiltered
#print axioms filter_match_split_buckets
#print axioms filter_match_split_goroutines
#print axioms aligned
#print axioms aligned_buckets
#print axioms aligned_goroutines
#print axioms elided_marker
#print axioms header_fields_bucket
#print axioms header_fields_goroutine
#print axioms createdBy_fields
#print axioms colour_strip_buckets
#print axioms colour_strip_goroutines
#print axioms colour_strip_pieces

end PP.Console
