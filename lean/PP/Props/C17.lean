import PP.Lemmas.HtmlDocHref
/-
C17  HTML rendering is injection-safe and complete.

Model: PP/Model/Html.lean (escapers of html/template, URL builders of
stack/html.go, the content division as literals + holes) and
PP/Model/HtmlDoc.lean (the rest of the document: head with the favicon link,
Metadata section, legend, footer).  The escaper pipeline of every hole of the
real template is pinned in PP/Tie/Html.lean.
-/
namespace PP.C17
open PP PP.Bytes PP.Html

/-- (1) Text escaping: the output has no `<`, `>`, `"`, `'` or NUL byte, and
every `&` in it starts one of `&amp; &lt; &gt; &#34; &#39; &#43;`. -/
theorem htmlEscaper_safe (s : Bytes) : textSafe (htmlEscaper s) = true := textSafe_htmlReplacer s

/-- (2) Attribute escaping of a plain string: same guarantee; in particular a
double- or single-quoted attribute value cannot be closed. -/
theorem attrEscaper_safe (s : Bytes) : textSafe (attrEscaper s) = true := textSafe_htmlReplacer s

/-- (2') Attribute escaping of a `template.HTML` value (the `class` hole),
inside the modelled fragment of `stripTags`: no `<`, `>`, `"`, `'`, NUL. -/
theorem attrEscaperHTML_safe (s r : Bytes) (h : attrEscaperHTML s = .ok r) :
    r.all (fun c => !isMarkupByte c) = true := by
  unfold attrEscaperHTML stripTags at h
  split at h
  · cases h
  · simp only [Except.map] at h; injection h with h; subst h; exact noMarkup_htmlReplacerNorm s

/-- (3) URL normalisation: every output byte is an ASCII letter or digit or one of
`- . _ ~ ! # $ & * + , / : ; = ? @ [ ] %`. -/
theorem urlNormalizer_safe (s : Bytes) : (urlNormalizer s).all urlSafeByte = true := urlNormalizer_all_safe s

/-- (3') … hence no space, control, non-ASCII byte, quote, `<`, `>`, backtick, backslash or parenthesis. -/
theorem urlSafeByte_excludes (c : UInt8) (h : urlSafeByte c = true) :
    32 < c ∧ c < 127 ∧ c ≠ 34 ∧ c ≠ 39 ∧ c ≠ 60 ∧ c ≠ 62 ∧ c ≠ 96 ∧ c ≠ 92 ∧ c ≠ 40 ∧ c ≠ 41 ∧ isMarkupByte c = false :=
  urlSafeByte_spec c h

/-- (4) Fixed scheme and host, for every `Call` (all string fields arbitrary
bytes) and every runtime version: `srcURL` is empty or starts with
`https://github.com/` or `file:///`. -/
theorem scheme_fixed_srcURL (ver : Bytes) (c : Call) (u : Bytes) (h : srcURL ver c = .ok u) :
    u = [] ∨ hasPrefix u b!"https://github.com/" = true ∨ hasPrefix u b!"file:///" = true := by
  have := srcURL_scheme ver c u h
  simp only [startsWithOneOf, srcSchemes, Bool.or_eq_true, List.any_cons, List.any_nil, Bool.or_false,
    List.isEmpty_iff] at this
  exact this

/-- (4) `pkgURL` is empty or starts with `https://golang.org/pkg/`, `https://godoc.org/` or `https://pkg.go.dev/`. -/
theorem scheme_fixed_pkgURL (ver : Bytes) (c : Call) (u : Bytes) (h : pkgURL ver c = .ok u) :
    u = [] ∨ hasPrefix u b!"https://golang.org/pkg/" = true ∨ hasPrefix u b!"https://godoc.org/" = true ∨
      hasPrefix u b!"https://pkg.go.dev/" = true := by
  have := pkgURL_scheme ver c u h
  simp only [startsWithOneOf, pkgSchemes, Bool.or_eq_true, List.any_cons, List.any_nil, Bool.or_false,
    List.isEmpty_iff] at this
  exact this

/-- (4') The builders only fail on a `devel +` runtime version shorter than 17
bytes (the slice expression of html.go:142), never because of dump content. -/
theorem builders_ok (ver : Bytes) (c : Call) (hv : hasPrefix ver develPrefix = false ∨ 17 ≤ ver.length) :
    (∃ u, srcURL ver c = .ok u) ∧ (∃ u, pkgURL ver c = .ok u) := by
  have hd : ∃ v, develVersion ver = .ok v := by
    unfold develVersion
    rcases hv with hv | hv
    · rw [hv]; exact ⟨_, rfl⟩
    · split
      · rw [if_neg (by simp [develPrefix]; omega)]; exact ⟨_, rfl⟩
      · exact ⟨_, rfl⟩
  obtain ⟨v, hv'⟩ := hd
  have hg : ∃ ut, getSrcBranchURL ver c = .ok ut := by
    unfold getSrcBranchURL
    split
    · rw [hv']; exact ⟨_, rfl⟩
    · exact ⟨_, rfl⟩
  obtain ⟨ut, hut⟩ := hg
  constructor
  · exact ⟨ut.1, by simp [srcURL, hut, Except.map]⟩
  · have hs : ∃ s, pkgSite ver c = .ok s := by
      unfold pkgSite
      split
      · exact ⟨_, rfl⟩
      · rw [hut]; simp only []; split <;> exact ⟨_, rfl⟩
    obtain ⟨s, hs⟩ := hs
    unfold pkgURL
    simp only [hs]
    split
    · exact ⟨_, rfl⟩
    · split <;> exact ⟨_, rfl⟩

/-- (5, partial) Components are escaped by the builders: every byte of `pkgURL`
is URL-safe unconditionally.  For `srcURL` this holds when the location is the
standard library, or when `RelSrcPath` itself has only URL-safe bytes: the
repository name (`p` of `splitTag(parts[1])`) is copied from `RelSrcPath` into
the github.com link WITHOUT escaping (html.go:161,174); all other components
(owner, tag, file path, local and remote paths, version) are escaped whatever
their bytes.  See `srcURL_raw_component` below for the counterexample to the
unconditional statement. -/
theorem url_components_escaped_partial (ver : Bytes) (c : Call) :
    (∀ u, pkgURL ver c = .ok u → u.all urlSafeByte = true) ∧
    (∀ u, srcURL ver c = .ok u → (c.location = .stdlib ∨ c.relSrcPath.all urlSafeByte = true) →
      u.all urlSafeByte = true) :=
  ⟨fun u h => pkgURL_safe ver c u h, fun u h hr => srcURL_safe_of_rel ver c u h hr⟩

/-- the counterexample: quote, angle brackets and a space reach `srcURL` raw -/
theorem srcURL_raw_component :
    srcURL b!"go1.23.5" { relSrcPath := b!"github.com/u/r\"><img src=x onerror=alert(1)>/f.go", line := 7 } =
      .ok b!"https://github.com/u/r\"><img src=x onerror=alert(1)>/blob/master/f.go#L7" := by decide

/-- (6) The bytes that land between the quotes of `href="…"` for a
`template.URL` value `v`, whatever `v` is: only URL-safe bytes (no quote, `<`,
`>`, space, control or non-ASCII byte) and every `&` starts a character
reference. -/
theorem href_hole_bytes_safe (v : Bytes) :
    ∃ r, renderHole .href v = .ok r ∧ r.all urlSafeByte = true ∧ ampOK r = true :=
  ⟨_, rfl, hrefHole_all_safe v, hrefHole_ampOK v⟩

/-- (6) … and for the source link the rendered value is empty or still starts
with the fixed scheme and host. -/
theorem href_hole_safe_srcURL (ver : Bytes) (c : Call) (u : Bytes) (h : srcURL ver c = .ok u) :
    ∃ r, renderHole .href u = .ok r ∧ r.all urlSafeByte = true ∧ ampOK r = true ∧
      (r = [] ∨ hasPrefix r b!"https://github.com/" = true ∨ hasPrefix r b!"file:///" = true) := by
  refine ⟨_, rfl, hrefHole_all_safe u, hrefHole_ampOK u, ?_⟩
  have := hrefHole_prefix srcSchemes srcSchemes_plain u (srcURL_scheme ver c u h)
  simp only [startsWithOneOf, srcSchemes, Bool.or_eq_true, List.any_cons, List.any_nil, Bool.or_false,
    List.isEmpty_iff] at this
  exact this

/-- (6) the same for the documentation link -/
theorem href_hole_safe_pkgURL (ver : Bytes) (c : Call) (u : Bytes) (h : pkgURL ver c = .ok u) :
    ∃ r, renderHole .href u = .ok r ∧ r.all urlSafeByte = true ∧ ampOK r = true ∧
      (r = [] ∨ hasPrefix r b!"https://golang.org/pkg/" = true ∨ hasPrefix r b!"https://godoc.org/" = true ∨
        hasPrefix r b!"https://pkg.go.dev/" = true) := by
  refine ⟨_, rfl, hrefHole_all_safe u, hrefHole_ampOK u, ?_⟩
  have := hrefHole_prefix pkgSchemes pkgSchemes_plain u (pkgURL_scheme ver c u h)
  simp only [startsWithOneOf, pkgSchemes, Bool.or_eq_true, List.any_cons, List.any_nil, Bool.or_false,
    List.isEmpty_iff] at this
  exact this

/-- (7) A text hole renders any byte string as escaped character data: no dump
text can introduce an element, an attribute or a character reference of its own. -/
theorem text_hole_safe (v : Bytes) : ∃ r, renderHole .text v = .ok r ∧ textSafe r = true :=
  ⟨_, rfl, textSafe_htmlReplacer v⟩

/-- (7') The class hole always receives a `funcClass` value, which has no `<`, so
it renders (inside the modelled fragment) without any markup byte. -/
theorem class_hole_safe (c : Call) :
    ∃ r, renderHole .cls (funcClass c) = .ok r ∧ r.all (fun b => !isMarkupByte b) = true := by
  obtain ⟨r, hr, _⟩ := renderHole_spec .cls (funcClass c) (wf_cls_funcClass c)
  exact ⟨r, hr, attrEscaperHTML_safe _ _ hr⟩

/-- (8) Completeness of `Snapshot.ToHTML`: the content division has one
`<h1>Routine` opener and one stack table per goroutine, one `<tr>` row opener per
frame, one elided row per elided stack. -/
theorem complete_snapshot (ver : Bytes) (gs : List Goroutine) (ps : List Piece)
    (h : contentSnapshot ver gs = .ok ps) :
    (litsOf ps).count Lit.h1Goroutine = gs.length ∧
    (litsOf ps).count Lit.c0 = gs.length ∧
    (litsOf ps).count Lit.c1 = (gs.map fun g => g.sig.stack.calls.length).sum ∧
    (litsOf ps).count Lit.c18 = (gs.filter fun g => g.sig.stack.elided).length := by
  have := goroutineBlocks_spec ver gs ps h
  refine ⟨by simpa using this.headings, by simpa using this.tables, ?_, ?_⟩
  · have := this.rows; simpa [List.map_map, Function.comp_def] using this
  · have := this.elided; simpa [List.filter_map, Function.comp_def] using this

/-- (8) Completeness of `Aggregated.ToHTML`, per bucket. -/
theorem complete_aggregated (ver : Bytes) (bs : List Bucket) (ps : List Piece)
    (h : contentAggregated ver bs = .ok ps) :
    (litsOf ps).count Lit.h1Bucket = bs.length ∧
    (litsOf ps).count Lit.c0 = bs.length ∧
    (litsOf ps).count Lit.c1 = (bs.map fun b => b.sig.stack.calls.length).sum ∧
    (litsOf ps).count Lit.c18 = (bs.filter fun b => b.sig.stack.elided).length := by
  have := bucketBlocks_spec ver bs 0 ps h
  refine ⟨by simpa using this.headings, by simpa using this.tables, ?_, ?_⟩
  · have := this.rows; simpa [List.map_map, Function.comp_def] using this
  · have := this.elided; simpa [List.filter_map, Function.comp_def] using this

/-- (8) One table: exactly `calls.length` row openers (+ the elided row). -/
theorem complete_table (ver : Bytes) (s : Stack) (ps : List Piece) (h : renderCalls ver s = .ok ps) :
    (litsOf ps).count Lit.c1 = s.calls.length ∧ (litsOf ps).count Lit.c18 = (if s.elided then 1 else 0) :=
  let t := renderCalls_spec ver s ps h
  ⟨t.2.1, t.2.2.1⟩

/-- (8') The content division always renders, and the subsequence of markup
bytes (`<`, `>`, `"`, `'`, NUL) of the rendered bytes is exactly that of the
template literals: holes contribute none, so the tag structure of the document
is the template's, repeated per bucket/goroutine/frame as counted above. -/
theorem content_markup_is_template_markup (ver : Bytes) (gs : List Goroutine) (ps : List Piece)
    (h : contentSnapshot ver gs = .ok ps) :
    ∃ r, renderPieces ps = .ok r ∧ markup r = markup (litsOf ps).flatten :=
  renderPieces_spec ps (goroutineBlocks_spec ver gs ps h).wf

theorem content_markup_is_template_markup_aggregated (ver : Bytes) (bs : List Bucket) (ps : List Piece)
    (h : contentAggregated ver bs = .ok ps) :
    ∃ r, renderPieces ps = .ok r ∧ markup r = markup (litsOf ps).flatten :=
  renderPieces_spec ps (bucketBlocks_spec ver bs 0 ps h).wf

/-! ### The whole document: head, Metadata section, legend, footer -/

/-- (9) The whole document renders for every data map — goroutines or buckets,
and every metadata value (arbitrary bytes in the root paths, the map keys and
values, the time and version strings, the favicon and the footer) — unless the
runtime version is a `devel +` one shorter than 17 bytes (html.go:142). -/
theorem doc_renders (d : DocData) (hv : hasPrefix d.ver develPrefix = false ∨ 17 ≤ d.ver.length) :
    ∃ ps r, docPieces d = .ok ps ∧ renderDoc d = .ok r := by
  obtain ⟨ps, hps⟩ := docPieces_ok d hv
  obtain ⟨r, _, hr, _⟩ := renderWithFooter_spec ps d.footer (docPieces_spec d ps hps).2
  exact ⟨ps, _, hps, by rw [renderDoc_eq d ps hps, hr]⟩

/-- (10) The markup bytes (`<`, `>`, `"`, `'`, NUL, in order) of the whole
rendered document are those of the template's literal text nodes written on the
way, then those of the caller's footer (a `template.HTML`, written as is), then
those of the closing text node: neither dump text nor any metadata value
contributes one.  Every literal written is one of the text nodes of the
template (`docLits`; pinned against the extracted template in PP/Tie/Html.lean:
the short nodes byte for byte, the four long ones — `<meta>` block, style sheet,
legend — by length). -/
theorem doc_markup_is_template_markup (d : DocData) (ps : List Piece) (h : docPieces d = .ok ps) :
    ∃ r, renderDoc d = .ok r ∧
      markup r = markup (litsOf ps).flatten ++ markup d.footer ++ markup Lit.t54 ∧
      inS docLits (litsOf ps) = true := by
  obtain ⟨hl, hwf⟩ := docPieces_spec d ps h
  obtain ⟨r, _, hr, hm⟩ := renderWithFooter_spec ps d.footer hwf
  exact ⟨_, by rw [renderDoc_eq d ps h, hr], hm, hl⟩

/-- (10') The document is head, content division, Metadata section and legend,
footer, closing node, and the content division is the one of the theorems (8). -/
theorem doc_shape (d : DocData) (ps : List Piece) (h : docPieces d = .ok ps) :
    ∃ c, contentOf d.ver d.body = .ok c ∧ ps = headPieces d.toDocMeta ++ c ++ metaPieces d.ver d.toDocMeta ∧
      renderDoc d = renderWithFooter ps d.footer :=
  let ⟨c, hc, he⟩ := docPieces_eq d ps h
  ⟨c, hc, he, renderDoc_eq d ps h⟩

/-- (11) The holes of the Metadata section: exactly the values `metaVals` (time,
version, GOROOT(s), every GOPATH, every key and value of the go.mod map,
GOMAXPROCS), each in a text hole (escaper `_html_template_htmlescaper`, pinned
by `pin_metadata_holes`); each renders, for arbitrary bytes, without `<`, `>`,
`"`, `'`, NUL and with every `&` starting a character reference; and the rendered
section has the markup bytes of its literals only, every `&` in it a reference. -/
theorem metadata_holes_safe (ver : Bytes) (m : DocMeta) :
    holesOf (metaPieces ver m) = (metaVals ver m).map (fun v => (HoleKind.text, v)) ∧
    (∀ kv ∈ holesOf (metaPieces ver m), kv.1 = .text ∧ ∃ r, renderHole kv.1 kv.2 = .ok r ∧ textSafe r = true) ∧
    ∃ r, renderMeta ver m = .ok r ∧ markup r = markup (litsOf (metaPieces ver m)).flatten ∧ ampOK r = true := by
  refine ⟨metaPieces_holes ver m, ?_, ?_⟩
  · intro kv hkv
    rw [metaPieces_holes, List.mem_map] at hkv
    obtain ⟨v, _, rfl⟩ := hkv
    exact ⟨rfl, _, rfl, textSafe_htmlReplacer v⟩
  · obtain ⟨r, hr, hm⟩ := renderPieces_spec (metaPieces ver m) (metaPieces_wf ver m)
    refine ⟨r, hr, hm, renderPieces_ampOK _ ?_ ?_ r hr⟩
    · exact all_of_inS _ _ _ metaLits_ampOK (metaPieces_lits ver m)
    · simp [noClsHole, metaPieces_holes]

/-- (11') every metadata string is among the printed values -/
theorem metadata_complete (ver : Bytes) (m : DocMeta) :
    m.now ∈ metaVals ver m ∧ ver ∈ metaVals ver m ∧ m.remoteGOROOT ∈ metaVals ver m ∧
    (∀ p ∈ m.localGOPATHs, p ∈ metaVals ver m) ∧
    (∀ kv ∈ m.localGomods, kv.1 ∈ metaVals ver m ∧ kv.2 ∈ metaVals ver m) ∧
    natToDec m.gomaxprocs ∈ metaVals ver m := by
  refine ⟨by simp [metaVals], by simp [metaVals], ?_, ?_, ?_, by simp [metaVals]⟩
  · simp only [metaVals, gorootVals]; split <;> simp
  · intro p hp; simp [metaVals, hp]
  · intro kv hkv
    constructor
    · simp only [metaVals, List.mem_append, List.mem_flatMap]
      exact Or.inl (Or.inr ⟨kv, hkv, by simp⟩)
    · simp only [metaVals, List.mem_append, List.mem_flatMap]
      exact Or.inl (Or.inr ⟨kv, hkv, by simp⟩)

/-- (12) The only `data:` URL of the document is the favicon link.  Every
attribute of the template is double-quoted and no hole emits a quote, so an
attribute value starting with `data:` appears in the bytes as `"data:`.  In
everything written before the footer that string occurs exactly once, at the end
of text node 1 (`<link rel="shortcut icon" type="image/gif" href="data:image/gif;base64,`),
and what follows it up to the closing quote is the favicon constant through
`urlnormalizer, attrescaper`; `"javascript:` does not occur at all.  In the whole
document any further occurrence lies in the caller's footer. -/
theorem only_data_url_is_favicon (d : DocData) (ps : List Piece) (h : docPieces d = .ok ps) :
    ∃ r rest, renderPieces ps = .ok r ∧ renderDoc d = .ok (r ++ d.footer ++ Lit.t54) ∧
      r = Lit.t0 ++ Lit.t1 ++ attrEscaper (urlNormalizer d.favicon) ++ Lit.t2 ++ rest ∧
      hasSuffix Lit.t1 b!"<link rel=\"shortcut icon\" type=\"image/gif\" href=\"data:image/gif;base64," = true ∧
      occ b!"\"data:" r = 1 ∧
      occ b!"\"javascript:" r = 0 ∧
      occ b!"\"data:" (r ++ d.footer ++ Lit.t54) = 1 + occ b!"\"data:" (d.footer ++ Lit.t54) ∧
      occ b!"\"javascript:" (r ++ d.footer ++ Lit.t54) = occ b!"\"javascript:" (d.footer ++ Lit.t54) := by
  obtain ⟨hl, hwf⟩ := docPieces_spec d ps h
  obtain ⟨r, hr, hdoc, _⟩ := renderWithFooter_spec ps d.footer hwf
  obtain ⟨rest, hrest⟩ := docPieces_head d ps h r hr
  refine ⟨r, rest, hr, by rw [renderDoc_eq d ps h, hdoc], hrest, t1_ends_with_favicon_link, ?_, ?_, ?_, ?_⟩
  · have := occ_data_doc d ps h r hr []; rw [List.append_nil] at this; exact this
  · have := occ_javascript_doc d ps h r hr []; rw [List.append_nil] at this; exact this
  · rw [List.append_assoc]; exact occ_data_doc d ps h r hr _
  · rw [List.append_assoc]; exact occ_javascript_doc d ps h r hr _

/-- (12') The URL holes of the document: the favicon, and the links of the
content division, each of which renders to the empty string or to a value that
starts with a fixed `https://…/` or `file:///` prefix. -/
theorem url_holes_fixed_scheme (d : DocData) (ps : List Piece) (h : docPieces d = .ok ps) :
    ∃ rest, (holesOf ps).filter (fun kv => kv.1 == .href) = (.href, d.favicon) :: rest ∧
      ∀ kv ∈ rest, ∃ r, renderHole .href kv.2 = .ok r ∧ startsWithOneOf allSchemes r = true :=
  docPieces_hrefs d ps h

/-! Non-vacuity -/

example : htmlEscaper b!"<a href=\"x\">&'+" = b!"&lt;a href=&#34;x&#34;&gt;&amp;&#39;&#43;" := by decide
example : urlNormalizer b!"a b\"<%zz%41'()" = b!"a%20b%22%3c%25zz%41%27%28%29" := by decide
example : renderHole .href b!"https://github.com/u/r\"><x/blob/master/f.go#L7" =
    .ok b!"https://github.com/u/r%22%3e%3cx/blob/master/f.go#L7" := by decide
example : srcURL b!"go1.23.5" { relSrcPath := b!"golang.org/x/net@v0.0.0-20200223170610-d5e6a3e2c0ae/http2/a b.go", line := 3 } =
    .ok b!"https://github.com/golang/net/blob/d5e6a3e2c0ae/http2/a%20b.go#L3" := by decide
example : pkgURL b!"go1.23.5" { importPath := b!"corp/vendor/github.com/u/r", relSrcPath := b!"github.com/u/r@v1.2.3/f.go", fn := { name := b!"(*T).M<", isExported := true } } = .ok b!"https://pkg.go.dev/github.com/u/r#T.M%3C" := by decide
example : srcURL b!"devel +abc" { location := .stdlib } = .error .sliceBounds := by decide
example : ∃ ps, contentSnapshot b!"go1.23.5"
    [{ id := 1, sig := { state := b!"<script>", stack := { calls := [{ fn := { name := b!"<b>" } }, ({} : Call)], elided := true } } },
     { id := 2 }] = .ok ps ∧
    (litsOf ps).count Lit.h1Goroutine = 2 ∧ (litsOf ps).count Lit.c1 = 2 ∧ (litsOf ps).count Lit.c18 = 1 := by
  refine ⟨_, rfl, ?_⟩
  decide

set_option maxRecDepth 100000 in
/-- hostile metadata (`hostileMeta`: `</script><script>…` as GOROOT, `" onmouseover="` in
the local GOROOT, `javascript:` and `data:` in the go.mod map, quotes and a
comment opener as GOPATHs), evaluated: the Metadata list up to the GOMAXPROCS
value; every value is character data -/
example : renderPieces (metaListPieces b!"go1.23.5<" hostileMeta) = .ok (
    Lit.t37 ++ b!"2026-09-29 12:00:00 &#43;0000 UTC" ++ Lit.t38 ++ b!"go1.23.5&lt;" ++ Lit.t39 ++
    Lit.t40 ++ b!"&lt;/script&gt;&lt;script&gt;alert(1)&lt;/script&gt;" ++
    Lit.t41 ++ b!"/usr/local/go&#34; onmouseover=&#34;alert(1)" ++ Lit.t42 ++
    Lit.t45 ++ b!"/home/u/go, &#39; onload=&#39;x, &lt;!--" ++ Lit.t46 ++
    Lit.t47 ++ Lit.t48 ++ b!"javascript:alert(1)" ++ Lit.t49 ++ b!"&lt;img src=x onerror=alert(1)&gt;" ++ Lit.t50 ++
    Lit.t48 ++ b!"/p&amp;q" ++ Lit.t49 ++ b!"data:text/html,&lt;b&gt;" ++ Lit.t50 ++ Lit.t51 ++
    Lit.t52 ++ b!"8") := by decide
set_option maxRecDepth 100000 in
/-- the same, as readable text -/
example : renderPieces (gorootPieces hostileMeta ++ gomodPieces hostileMeta) = .ok
    b!"<li>GOROOT (remote): &lt;/script&gt;&lt;script&gt;alert(1)&lt;/script&gt;</li>\n<li>GOROOT (local): /usr/local/go&#34; onmouseover=&#34;alert(1)</li><li>go modules (local):\n<ul><li>javascript:alert(1): &lt;img src=x onerror=alert(1)&gt;</li><li>/p&amp;q: data:text/html,&lt;b&gt;</li></ul>\n</li>" := by
  decide
set_option maxRecDepth 100000 in
/-- the hostile list has exactly the markup bytes of its benign twin (`benignMeta`, same shape) -/
example : (renderPieces (metaListPieces b!"go1.23.5<" hostileMeta)).map markup =
    (renderPieces (metaListPieces b!"go1.23.5" benignMeta)).map markup := by decide
set_option maxRecDepth 100000 in
/-- no `"javascript:` / `"data:` although both words occur as text -/
example : (renderPieces (metaListPieces b!"go1.23.5<" hostileMeta)).map
    (fun r => (occ b!"\"data:" r, occ b!"\"javascript:" r, occ b!"data:" r, occ b!"javascript:" r)) = .ok (0, 0, 1, 1) := by
  decide
set_option maxRecDepth 100000 in
/-- GOROOT: one line when the local root is empty or equal, no GOPATH / go.mod items when there are none -/
example : renderPieces (metaListPieces b!"v" { now := b!"t", remoteGOROOT := b!"/r", localGOROOT := b!"/r" }) = .ok
    b!"</div>\n<h2>Metadata</h2>\n<ul>\n<li>Created on t</li>\n<li>v</li><li>GOROOT: /r</li><li>GOPATH: </li><li>GOMAXPROCS: 1" := by
  decide
/-- a hostile favicon value cannot leave the attribute; the real one only has `+` rewritten -/
example : (faviconHole b!"\"><script>alert(1)</script>").render = .ok b!"%22%3e%3cscript%3ealert%281%29%3c/script%3e" := by
  decide
example : (faviconHole b!"R0lGOD+/=").render = .ok b!"R0lGOD&#43;/=" := by decide
/-- whole documents: the hypotheses of (9)–(12) are satisfiable for hostile data -/
example : ∃ ps r, docPieces { hostileMeta with ver := b!"go1.23.5<", body := .snapshot hostileGs } = .ok ps ∧
    renderDoc { hostileMeta with ver := b!"go1.23.5<", body := .snapshot hostileGs } = .ok r :=
  doc_renders _ (Or.inl (by decide))
example : ∃ r, renderDoc { hostileMeta with ver := b!"go1.23.5<", body := .aggregated [{ sig := {}, ids := [1, 2], first := true }] } = .ok r ∧
    occ b!"\"data:" r = 1 + occ b!"\"data:" (hostileMeta.footer ++ Lit.t54) := by
  obtain ⟨ps, _, hps, _⟩ := doc_renders { hostileMeta with ver := b!"go1.23.5<", body := .aggregated [{ sig := {}, ids := [1, 2], first := true }] }
    (Or.inl (by decide))
  obtain ⟨r, _, _, hd, _, _, _, _, h1, _⟩ := only_data_url_is_favicon _ ps hps
  exact ⟨_, hd, h1⟩
/-- the only failure: a short `devel +` version with a standard-library frame -/
example : renderDoc { ver := b!"devel +abc", body := .snapshot [{ sig := { stack := { calls := [{ location := .stdlib }] } } }] } =
    .error .sliceBounds := by decide

#print axioms htmlEscaper_safe
#print axioms attrEscaper_safe
#print axioms attrEscaperHTML_safe
#print axioms urlNormalizer_safe
#print axioms urlSafeByte_excludes
#print axioms scheme_fixed_srcURL
#print axioms scheme_fixed_pkgURL
#print axioms builders_ok
#print axioms url_components_escaped_partial
#print axioms srcURL_raw_component
#print axioms href_hole_bytes_safe
#print axioms href_hole_safe_srcURL
#print axioms href_hole_safe_pkgURL
#print axioms text_hole_safe
#print axioms class_hole_safe
#print axioms complete_snapshot
#print axioms complete_aggregated
#print axioms complete_table
#print axioms content_markup_is_template_markup
#print axioms content_markup_is_template_markup_aggregated
#print axioms doc_renders
#print axioms doc_markup_is_template_markup
#print axioms doc_shape
#print axioms metadata_holes_safe
#print axioms metadata_complete
#print axioms only_data_url_is_favicon
#print axioms url_holes_fixed_scheme

end PP.C17
