import PP.Lemmas.HtmlDocLemmas
/-
C17  HTML rendering is injection-safe and complete.

Model: PP/Model/Html.lean (escapers of html/template, URL builders of
stack/html.go, the content division as literals + holes).  The escaper pipeline
of every hole of the real template is pinned in PP/Tie/Html.lean.
-/
namespace PP.C17
open PP PP.Bytes PP.Html

/-- (1) Text escaping: the output has no `<`, `>`, `"`, `'` or NUL byte, and
every `&` in it starts one of `&amp; &lt; &gt; &#34; &#39; &#43;`. -/
theorem htmlEscaper_safe (s : Bytes) : textSafe (htmlEscaper s) = true := textSafe_htmlReplacer s

/-- (2) Attribute escaping of a plain string: same guarantee; in particular a
double- or single-quoted attribute value cannot be closed. -/
theorem attrEscaper_safe (s : Bytes) : textSafe (attrEscaper s) = true := textSafe_htmlReplacer s

/-- (2') Attribute escaping of a `template.HTML` value (the `class` hole),
inside the modelled fragment of `stripTags`: no `<`, `>`, `"`, `'`, NUL. -/
theorem attrEscaperHTML_safe (s r : Bytes) (h : attrEscaperHTML s = .ok r) :
    r.all (fun c => !isMarkupByte c) = true := by
  unfold attrEscaperHTML stripTags at h
  split at h
  · cases h
  · simp only [Except.map] at h; injection h with h; subst h; exact noMarkup_htmlReplacerNorm s

/-- (3) URL normalisation: every output byte is an ASCII letter or digit or one of
`- . _ ~ ! # $ & * + , / : ; = ? @ [ ] %`. -/
theorem urlNormalizer_safe (s : Bytes) : (urlNormalizer s).all urlSafeByte = true := urlNormalizer_all_safe s

/-- (3') … hence no space, control, non-ASCII byte, quote, `<`, `>`, backtick, backslash or parenthesis. -/
theorem urlSafeByte_excludes (c : UInt8) (h : urlSafeByte c = true) :
    32 < c ∧ c < 127 ∧ c ≠ 34 ∧ c ≠ 39 ∧ c ≠ 60 ∧ c ≠ 62 ∧ c ≠ 96 ∧ c ≠ 92 ∧ c ≠ 40 ∧ c ≠ 41 ∧ isMarkupByte c = false :=
  urlSafeByte_spec c h

/-- (4) Fixed scheme and host, for every `Call` (all string fields arbitrary
bytes) and every runtime version: `srcURL` is empty or starts with
`https://github.com/` or `file:///`. -/
theorem scheme_fixed_srcURL (ver : Bytes) (c : Call) (u : Bytes) (h : srcURL ver c = .ok u) :
    u = [] ∨ hasPrefix u b!"https://github.com/" = true ∨ hasPrefix u b!"file:///" = true := by
  have := srcURL_scheme ver c u h
  simp only [startsWithOneOf, srcSchemes, Bool.or_eq_true, List.any_cons, List.any_nil, Bool.or_false,
    List.isEmpty_iff] at this
  exact this

/-- (4) `pkgURL` is empty or starts with `https://golang.org/pkg/`, `https://godoc.org/` or `https://pkg.go.dev/`. -/
theorem scheme_fixed_pkgURL (ver : Bytes) (c : Call) (u : Bytes) (h : pkgURL ver c = .ok u) :
    u = [] ∨ hasPrefix u b!"https://golang.org/pkg/" = true ∨ hasPrefix u b!"https://godoc.org/" = true ∨
      hasPrefix u b!"https://pkg.go.dev/" = true := by
  have := pkgURL_scheme ver c u h
  simp only [startsWithOneOf, pkgSchemes, Bool.or_eq_true, List.any_cons, List.any_nil, Bool.or_false,
    List.isEmpty_iff] at this
  exact this

/-- (4') The builders only fail on a `devel +` runtime version shorter than 17
bytes (the slice expression of html.go:142), never because of dump content. -/
theorem builders_ok (ver : Bytes) (c : Call) (hv : hasPrefix ver develPrefix = false ∨ 17 ≤ ver.length) :
    (∃ u, srcURL ver c = .ok u) ∧ (∃ u, pkgURL ver c = .ok u) := by
  have hd : ∃ v, develVersion ver = .ok v := by
    unfold develVersion
    rcases hv with hv | hv
    · rw [hv]; exact ⟨_, rfl⟩
    · split
      · rw [if_neg (by simp [develPrefix]; omega)]; exact ⟨_, rfl⟩
      · exact ⟨_, rfl⟩
  obtain ⟨v, hv'⟩ := hd
  have hg : ∃ ut, getSrcBranchURL ver c = .ok ut := by
    unfold getSrcBranchURL
    split
    · rw [hv']; exact ⟨_, rfl⟩
    · exact ⟨_, rfl⟩
  obtain ⟨ut, hut⟩ := hg
  constructor
  · exact ⟨ut.1, by simp [srcURL, hut, Except.map]⟩
  · have hs : ∃ s, pkgSite ver c = .ok s := by
      unfold pkgSite
      split
      · exact ⟨_, rfl⟩
      · rw [hut]; simp only []; split <;> exact ⟨_, rfl⟩
    obtain ⟨s, hs⟩ := hs
    unfold pkgURL
    simp only [hs]
    split
    · exact ⟨_, rfl⟩
    · split <;> exact ⟨_, rfl⟩

/-- (5, partial) Components are escaped by the builders: every byte of `pkgURL`
is URL-safe unconditionally.  For `srcURL` this holds when the location is the
standard library, or when `RelSrcPath` itself has only URL-safe bytes: the
repository name (`p` of `splitTag(parts[1])`) is copied from `RelSrcPath` into
the github.com link WITHOUT escaping (html.go:161,174); all other components
(owner, tag, file path, local and remote paths, version) are escaped whatever
their bytes.  See `srcURL_raw_component` below for the counterexample to the
unconditional statement. -/
theorem url_components_escaped_partial (ver : Bytes) (c : Call) :
    (∀ u, pkgURL ver c = .ok u → u.all urlSafeByte = true) ∧
    (∀ u, srcURL ver c = .ok u → (c.location = .stdlib ∨ c.relSrcPath.all urlSafeByte = true) →
      u.all urlSafeByte = true) :=
  ⟨fun u h => pkgURL_safe ver c u h, fun u h hr => srcURL_safe_of_rel ver c u h hr⟩

/-- the counterexample: quote, angle brackets and a space reach `srcURL` raw -/
theorem srcURL_raw_component :
    srcURL b!"go1.23.5" { relSrcPath := b!"github.com/u/r\"><img src=x onerror=alert(1)>/f.go", line := 7 } =
      .ok b!"https://github.com/u/r\"><img src=x onerror=alert(1)>/blob/master/f.go#L7" := by decide

/-- (6) The bytes that land between the quotes of `href="…"` for a
`template.URL` value `v`, whatever `v` is: only URL-safe bytes (no quote, `<`,
`>`, space, control or non-ASCII byte) and every `&` starts a character
reference. -/
theorem href_hole_bytes_safe (v : Bytes) :
    ∃ r, renderHole .href v = .ok r ∧ r.all urlSafeByte = true ∧ ampOK r = true :=
  ⟨_, rfl, hrefHole_all_safe v, hrefHole_ampOK v⟩

/-- (6) … and for the source link the rendered value is empty or still starts
with the fixed scheme and host. -/
theorem href_hole_safe_srcURL (ver : Bytes) (c : Call) (u : Bytes) (h : srcURL ver c = .ok u) :
    ∃ r, renderHole .href u = .ok r ∧ r.all urlSafeByte = true ∧ ampOK r = true ∧
      (r = [] ∨ hasPrefix r b!"https://github.com/" = true ∨ hasPrefix r b!"file:///" = true) := by
  refine ⟨_, rfl, hrefHole_all_safe u, hrefHole_ampOK u, ?_⟩
  have := hrefHole_prefix srcSchemes srcSchemes_plain u (srcURL_scheme ver c u h)
  simp only [startsWithOneOf, srcSchemes, Bool.or_eq_true, List.any_cons, List.any_nil, Bool.or_false,
    List.isEmpty_iff] at this
  exact this

/-- (6) the same for the documentation link -/
theorem href_hole_safe_pkgURL (ver : Bytes) (c : Call) (u : Bytes) (h : pkgURL ver c = .ok u) :
    ∃ r, renderHole .href u = .ok r ∧ r.all urlSafeByte = true ∧ ampOK r = true ∧
      (r = [] ∨ hasPrefix r b!"https://golang.org/pkg/" = true ∨ hasPrefix r b!"https://godoc.org/" = true ∨
        hasPrefix r b!"https://pkg.go.dev/" = true) := by
  refine ⟨_, rfl, hrefHole_all_safe u, hrefHole_ampOK u, ?_⟩
  have := hrefHole_prefix pkgSchemes pkgSchemes_plain u (pkgURL_scheme ver c u h)
  simp only [startsWithOneOf, pkgSchemes, Bool.or_eq_true, List.any_cons, List.any_nil, Bool.or_false,
    List.isEmpty_iff] at this
  exact this

/-- (7) A text hole renders any byte string as escaped character data: no dump
text can introduce an element, an attribute or a character reference of its own. -/
theorem text_hole_safe (v : Bytes) : ∃ r, renderHole .text v = .ok r ∧ textSafe r = true :=
  ⟨_, rfl, textSafe_htmlReplacer v⟩

/-- (7') The class hole always receives a `funcClass` value, which has no `<`, so
it renders (inside the modelled fragment) without any markup byte. -/
theorem class_hole_safe (c : Call) :
    ∃ r, renderHole .cls (funcClass c) = .ok r ∧ r.all (fun b => !isMarkupByte b) = true := by
  obtain ⟨r, hr, _⟩ := renderHole_spec .cls (funcClass c) (wf_cls_funcClass c)
  exact ⟨r, hr, attrEscaperHTML_safe _ _ hr⟩

/-- (8) Completeness of `Snapshot.ToHTML`: the content division has one
`<h1>Routine` opener and one stack table per goroutine, one `<tr>` row opener per
frame, one elided row per elided stack. -/
theorem complete_snapshot (ver : Bytes) (gs : List Goroutine) (ps : List Piece)
    (h : contentSnapshot ver gs = .ok ps) :
    (litsOf ps).count Lit.h1Goroutine = gs.length ∧
    (litsOf ps).count Lit.c0 = gs.length ∧
    (litsOf ps).count Lit.c1 = (gs.map fun g => g.sig.stack.calls.length).sum ∧
    (litsOf ps).count Lit.c18 = (gs.filter fun g => g.sig.stack.elided).length := by
  have := goroutineBlocks_spec ver gs ps h
  refine ⟨by simpa using this.headings, by simpa using this.tables, ?_, ?_⟩
  · have := this.rows; simpa [List.map_map, Function.comp_def] using this
  · have := this.elided; simpa [List.filter_map, Function.comp_def] using this

/-- (8) Completeness of `Aggregated.ToHTML`, per bucket. -/
theorem complete_aggregated (ver : Bytes) (bs : List Bucket) (ps : List Piece)
    (h : contentAggregated ver bs = .ok ps) :
    (litsOf ps).count Lit.h1Bucket = bs.length ∧
    (litsOf ps).count Lit.c0 = bs.length ∧
    (litsOf ps).count Lit.c1 = (bs.map fun b => b.sig.stack.calls.length).sum ∧
    (litsOf ps).count Lit.c18 = (bs.filter fun b => b.sig.stack.elided).length := by
  have := bucketBlocks_spec ver bs 0 ps h
  refine ⟨by simpa using this.headings, by simpa using this.tables, ?_, ?_⟩
  · have := this.rows; simpa [List.map_map, Function.comp_def] using this
  · have := this.elided; simpa [List.filter_map, Function.comp_def] using this

/-- (8) One table: exactly `calls.length` row openers (+ the elided row). -/
theorem complete_table (ver : Bytes) (s : Stack) (ps : List Piece) (h : renderCalls ver s = .ok ps) :
    (litsOf ps).count Lit.c1 = s.calls.length ∧ (litsOf ps).count Lit.c18 = (if s.elided then 1 else 0) :=
  let t := renderCalls_spec ver s ps h
  ⟨t.2.1, t.2.2.1⟩

/-- (8') The content division always renders, and the subsequence of markup
bytes (`<`, `>`, `"`, `'`, NUL) of the rendered bytes is exactly that of the
template literals: holes contribute none, so the tag structure of the document
is the template's, repeated per bucket/goroutine/frame as counted above. -/
theorem content_markup_is_template_markup (ver : Bytes) (gs : List Goroutine) (ps : List Piece)
    (h : contentSnapshot ver gs = .ok ps) :
    ∃ r, renderPieces ps = .ok r ∧ markup r = markup (litsOf ps).flatten :=
  renderPieces_spec ps (goroutineBlocks_spec ver gs ps h).wf

theorem content_markup_is_template_markup_aggregated (ver : Bytes) (bs : List Bucket) (ps : List Piece)
    (h : contentAggregated ver bs = .ok ps) :
    ∃ r, renderPieces ps = .ok r ∧ markup r = markup (litsOf ps).flatten :=
  renderPieces_spec ps (bucketBlocks_spec ver bs 0 ps h).wf

/-! Non-vacuity -/

example : htmlEscaper b!"<a href=\"x\">&'+" = b!"&lt;a href=&#34;x&#34;&gt;&amp;&#39;&#43;" := by decide
example : urlNormalizer b!"a b\"<%zz%41'()" = b!"a%20b%22%3c%25zz%41%27%28%29" := by decide
example : renderHole .href b!"https://github.com/u/r\"><x/blob/master/f.go#L7" =
    .ok b!"https://github.com/u/r%22%3e%3cx/blob/master/f.go#L7" := by decide
example : srcURL b!"go1.23.5" { relSrcPath := b!"golang.org/x/net@v0.0.0-20200223170610-d5e6a3e2c0ae/http2/a b.go", line := 3 } =
    .ok b!"https://github.com/golang/net/blob/d5e6a3e2c0ae/http2/a%20b.go#L3" := by decide
example : pkgURL b!"go1.23.5" { importPath := b!"corp/vendor/github.com/u/r", relSrcPath := b!"github.com/u/r@v1.2.3/f.go", fn := { name := b!"(*T).M<", isExported := true } } = .ok b!"https://pkg.go.dev/github.com/u/r#T.M%3C" := by decide
example : srcURL b!"devel +abc" { location := .stdlib } = .error .sliceBounds := by decide
example : ∃ ps, contentSnapshot b!"go1.23.5"
    [{ id := 1, sig := { state := b!"<script>", stack := { calls := [{ fn := { name := b!"<b>" } }, ({} : Call)], elided := true } } },
     { id := 2 }] = .ok ps ∧
    (litsOf ps).count Lit.h1Goroutine = 2 ∧ (litsOf ps).count Lit.c1 = 2 ∧ (litsOf ps).count Lit.c18 = 1 := by
  refine ⟨_, rfl, ?_⟩
  decide

#print axioms htmlEscaper_safe
#print axioms attrEscaper_safe
#print axioms attrEscaperHTML_safe
#print axioms urlNormalizer_safe
#print axioms urlSafeByte_excludes
#print axioms scheme_fixed_srcURL
#print axioms scheme_fixed_pkgURL
#print axioms builders_ok
#print axioms url_components_escaped_partial
#print axioms srcURL_raw_component
#print axioms href_hole_bytes_safe
#print axioms href_hole_safe_srcURL
#print axioms href_hole_safe_pkgURL
#print axioms text_hole_safe
#print axioms class_hole_safe
#print axioms complete_snapshot
#print axioms complete_aggregated
#print axioms complete_table
#print axioms content_markup_is_template_markup
#print axioms content_markup_is_template_markup_aggregated

end PP.C17
