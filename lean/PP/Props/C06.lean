import PP.Lemmas.OracleIndep
/-
C06 (aggregation part): the result of `Snapshot.Aggregate` does not depend on
the iteration order of the Go map.  For every pair of valid order oracles,
every level and every snapshot with well-formed signatures in which all
goroutines flagged first are similar to each other (the scanner flags exactly
one), `aggregateWith π₁ l gs = aggregateWith π₂ l gs`.  No hypothesis on the
goroutine ids is needed: ties of the comparator are broken by `order`.

C13 (aggregation part): the output is sorted for the comparison closure
`bucketLess`, and the bucket flagged first, if any, is the head of the output.
-/
namespace PP

/-! ### the map contents are oracle-independent up to permutation -/

theorem bucket_contents_oracle_indep {π₁ π₂ : Oracle} (h₁ : ValidOracle π₁) (h₂ : ValidOracle π₂)
    (l : Lvl) (gs : List Goroutine) (hwf : ∀ g ∈ gs, g.sig.WF = true) :
    (bucketLoop π₁ l 0 [] gs).Perm (bucketLoop π₂ l 0 [] gs) :=
  bucketLoop_perm h₁ h₂ l gs 0 [] [] [] (List.Perm.refl _)
    ⟨by simp, by simp, by simp, by simp⟩ hwf

/-- the tie-break field: no two map entries have the same `order` -/
theorem bucket_orders_nodup {π : Oracle} (hπ : ValidOracle π) (l : Lvl) (gs : List Goroutine) :
    ((bucketLoop π l 0 [] gs).map (·.order)).Nodup :=
  bucketLoop_order_nodup hπ l gs

/-- at most one map entry is flagged first -/
theorem bucket_first_unique {π : Oracle} (hπ : ValidOracle π) (l : Lvl) (gs : List Goroutine)
    (hwf : ∀ g ∈ gs, g.sig.WF = true)
    (hfirst : ∀ g ∈ gs, ∀ h ∈ gs, g.first = true → h.first = true →
      Signature.similar l g.sig h.sig = true)
    (b c : Bkt) (hb : b ∈ bucketLoop π l 0 [] gs) (hc : c ∈ bucketLoop π l 0 [] gs)
    (hbf : b.first = true) (hcf : c.first = true) : b = c :=
  bucketLoop_first_unique hπ l gs hwf hfirst hb hc hbf hcf

/-! ### determinism -/

theorem aggregate_oracle_indep {π₁ π₂ : Oracle} (h₁ : ValidOracle π₁) (h₂ : ValidOracle π₂)
    (l : Lvl) (gs : List Goroutine)
    (hwf : ∀ g ∈ gs, g.sig.WF = true)
    (hfirst : ∀ g ∈ gs, ∀ h ∈ gs, g.first = true → h.first = true →
      Signature.similar l g.sig h.sig = true) :
    aggregateWith π₁ l gs = aggregateWith π₂ l gs := by
  unfold aggregateWith
  have hp := bucket_contents_oracle_indep h₁ h₂ l gs hwf
  have hs := (bucketLoop_sortInv h₂ l gs hwf hfirst).perm (h₂ gs.length _)
  have hp' : (π₁ gs.length (bucketLoop π₁ l 0 [] gs)).Perm
      (π₂ gs.length (bucketLoop π₂ l 0 [] gs)) :=
    ((h₁ _ _).trans hp).trans (h₂ _ _).symm
  simp only [sortBuckets_perm_eq hs hp']

/-- "at most one goroutine is flagged first" (what the scanner guarantees) suffices -/
theorem aggregate_oracle_indep_one_first {π₁ π₂ : Oracle} (h₁ : ValidOracle π₁)
    (h₂ : ValidOracle π₂) (l : Lvl) (gs : List Goroutine)
    (hwf : ∀ g ∈ gs, g.sig.WF = true)
    (hone : (gs.filter (·.first)).length ≤ 1) :
    aggregateWith π₁ l gs = aggregateWith π₂ l gs := by
  refine aggregate_oracle_indep h₁ h₂ l gs hwf ?_
  intro g hg h hh hgf hhf
  have hg' : g ∈ gs.filter (·.first) := List.mem_filter.2 ⟨hg, hgf⟩
  have hh' : h ∈ gs.filter (·.first) := List.mem_filter.2 ⟨hh, hhf⟩
  have e : g = h := by
    cases hL : gs.filter (·.first) with
    | nil => rw [hL] at hg'; cases hg'
    | cons x rest =>
      cases rest with
      | nil =>
        rw [hL] at hg' hh'
        simp only [List.mem_singleton] at hg' hh'
        rw [hg', hh']
      | cons y rest => rw [hL] at hone; simp at hone
  rw [e]
  exact Signature.similar_refl l _

/-! ### the output is sorted -/

theorem aggregate_sorted {π : Oracle} (hπ : ValidOracle π) (l : Lvl) (gs : List Goroutine)
    (hwf : ∀ g ∈ gs, g.sig.WF = true)
    (hfirst : ∀ g ∈ gs, ∀ h ∈ gs, g.first = true → h.first = true →
      Signature.similar l g.sig h.sig = true) :
    (sortBuckets (π gs.length (bucketLoop π l 0 [] gs))).Pairwise
      (fun a b => bucketLess b a = false) :=
  sortBuckets_sorted ((bucketLoop_sortInv hπ l gs hwf hfirst).perm (hπ gs.length _))

/-- the sorted order is unique: whatever (correct) sorting algorithm is used on the collected
buckets, the outcome is the one of the model's `sortBuckets` -/
theorem aggregate_sorted_unique {π : Oracle} (hπ : ValidOracle π) (l : Lvl) (gs : List Goroutine)
    (hwf : ∀ g ∈ gs, g.sig.WF = true)
    (hfirst : ∀ g ∈ gs, ∀ h ∈ gs, g.first = true → h.first = true →
      Signature.similar l g.sig h.sig = true)
    (out : List Bkt) (hp : out.Perm (bucketLoop π l 0 [] gs))
    (hs : out.Pairwise (fun a b => bucketLess b a = false)) :
    out = sortBuckets (π gs.length (bucketLoop π l 0 [] gs)) :=
  sortBuckets_unique ((bucketLoop_sortInv hπ l gs hwf hfirst).perm (hπ gs.length _))
    (hp.trans (hπ gs.length _).symm) hs

theorem first_bucket_first {π : Oracle} (hπ : ValidOracle π) (l : Lvl) (gs : List Goroutine)
    (hwf : ∀ g ∈ gs, g.sig.WF = true)
    (hfirst : ∀ g ∈ gs, ∀ h ∈ gs, g.first = true → h.first = true →
      Signature.similar l g.sig h.sig = true)
    (b : Bucket) (hb : b ∈ aggregateWith π l gs) (hf : b.first = true) :
    (aggregateWith π l gs).head? = some b := by
  unfold aggregateWith at hb ⊢
  simp only [List.mem_map] at hb
  obtain ⟨k, hk, rfl⟩ := hb
  have hs := (bucketLoop_sortInv hπ l gs hwf hfirst).perm (hπ gs.length _)
  have := sortBuckets_first_head hs k hk hf
  simp only [List.head?_map, this, Option.map_some]

/-! ### non-vacuity -/

section Example

/-- a one-frame signature `main.f(arg)` -/
private def sigOf (v : Nat) (line : Nat) : Signature :=
  { state := b!"chan receive",
    stack := { calls := [{ fn := { complete := b!"main.f" },
                           args := { values := [.scalar [] v false false false] },
                           remoteSrcPath := b!"/src/main.go", line := line }] } }

/-- goroutines 1 and 4 share a signature; goroutines 2 and 3 differ from it and from each
other in an argument value only, which `Signature.less` does not look at -/
private def exGs : List Goroutine :=
  [ { sig := sigOf 1 10, id := 1, first := true },
    { sig := sigOf 2 10, id := 2 },
    { sig := sigOf 3 10, id := 3 },
    { sig := sigOf 1 10, id := 4 } ]

private theorem exGs_wf : ∀ g ∈ exGs, g.sig.WF = true := by decide
private theorem exGs_first : ∀ g ∈ exGs, ∀ h ∈ exGs, g.first = true → h.first = true →
    Signature.similar .exactLines g.sig h.sig = true := by decide

/-- the two singleton buckets tie on everything but `order` -/
example : Signature.similar .exactLines (sigOf 2 10) (sigOf 3 10) = false
    ∧ Signature.less (sigOf 2 10) (sigOf 3 10) = false
    ∧ Signature.less (sigOf 3 10) (sigOf 2 10) = false := by decide

/-- the map contents come out in different orders under the two oracles … -/
example : (bucketLoop idOracle .exactLines 0 [] exGs).map (fun b => (b.order, b.ids)) =
    [(0, [1, 4]), (1, [2]), (2, [3])] := by decide
example : (bucketLoop revOracle .exactLines 0 [] exGs).map (fun b => (b.order, b.ids)) =
    [(2, [3]), (0, [1, 4]), (1, [2])] := by decide
/-- … and are permutations of each other -/
example : (bucketLoop idOracle .exactLines 0 [] exGs).Perm
    (bucketLoop revOracle .exactLines 0 [] exGs) :=
  bucket_contents_oracle_indep validOracle_id validOracle_rev _ _ exGs_wf

/-- the theorem applies -/
example : aggregateWith idOracle .exactLines exGs = aggregateWith revOracle .exactLines exGs :=
  aggregate_oracle_indep validOracle_id validOracle_rev _ _ exGs_wf exGs_first

example : aggregateWith idOracle .exactLines exGs = aggregateWith revOracle .exactLines exGs :=
  aggregate_oracle_indep_one_first validOracle_id validOracle_rev _ _ exGs_wf (by decide)

/-- the sortedness theorem applies -/
example : (sortBuckets (revOracle exGs.length (bucketLoop revOracle .exactLines 0 [] exGs))).Pairwise
    (fun a b => bucketLess b a = false) :=
  aggregate_sorted validOracle_rev _ _ exGs_wf exGs_first

/-- two goroutines flagged first with non-similar signatures -/
private def twoFirst : List Goroutine :=
  [ { sig := sigOf 1 10, id := 1, first := true },
    { sig := sigOf 2 10, id := 2, first := true } ]

/-- `hfirst` is needed: the closure answers `true` both ways on a (first, first) pair, and the
output then depends on the iteration order -/
example : (∀ g ∈ twoFirst, g.sig.WF = true)
    ∧ (aggregateWith idOracle .exactLines twoFirst).map (·.ids) = [[2], [1]]
    ∧ (aggregateWith revOracle .exactLines twoFirst).map (·.ids) = [[1], [2]] := by
  have h1 : idOracle twoFirst.length (bucketLoop idOracle .exactLines 0 [] twoFirst) =
      [Bkt.new 0 twoFirst[0], Bkt.new 1 twoFirst[1]] := rfl
  have h2 : revOracle twoFirst.length (bucketLoop revOracle .exactLines 0 [] twoFirst) =
      [Bkt.new 1 twoFirst[1], Bkt.new 0 twoFirst[0]] := rfl
  have l1 : bucketLess (Bkt.new 1 twoFirst[1]) (Bkt.new 0 twoFirst[0]) = true := by decide
  have l2 : bucketLess (Bkt.new 0 twoFirst[0]) (Bkt.new 1 twoFirst[1]) = true := by decide
  refine ⟨by decide, ?_⟩
  unfold aggregateWith
  simp only [h1, h2, sortBuckets, mergeSort_pair, l1, l2]
  decide

end Example

end PP

#print axioms PP.bucket_contents_oracle_indep
#print axioms PP.bucket_orders_nodup
#print axioms PP.bucket_first_unique
#print axioms PP.aggregate_oracle_indep
#print axioms PP.aggregate_oracle_indep_one_first
#print axioms PP.aggregate_sorted
#print axioms PP.aggregate_sorted_unique
#print axioms PP.first_bucket_first
