import PP.Lemmas.RaceRoundTrip
/-
C08 — race report parse fidelity.

For every race report that the model of tsan's Go report printer
(`PP.Spec.printRace`, tied byte for byte to the Go generator `RaceSpec.Print` by
the harness property `SPEC`) can emit from a well-formed description, the
scanner returns exactly the goroutines the report describes
(`PP.Spec.expectedRace`, tied to `RaceSpec.Expected`).

Well-formedness (`PP.Spec.raceWF`, a decidable `Bool`, see PP/Spec/RaceWF.lean):
* at least one operation and at least one creation section (a report without a
  creation section ends in an error: the closing separator is read in state
  `gotRaceOperationFile`, which only accepts a blank line or a function line);
* every operation: id `< 10^18` (atou accepts 18 digits), address `< 2^64`, at
  least one frame;
* every creation section: its id is the id of some operation (otherwise the
  scanner reports `raceUnknownGoroutine`, see `unknown_creator_is_error`), at
  least one frame;
* the operation ids are pairwise distinct (a creation section updates only the
  FIRST goroutine with that id, see `creator_lookup_sound`, while the
  expectation applies it to every operation with that id);
* every frame: `frameWF` of C01 with the file line indented by six spaces (so
  the file does not start with a space) and `inlined = false` (the race printer
  always prints the arguments).  `fp` annotations and offsets are arbitrary: the
  race printer ignores `fp`, and so does the expectation.
-/
namespace PP.Spec
open PP Bytes

/-- **C08 round trip**, LF and CRLF, any number of operations and of creation sections (in any
order, several sections may name the same goroutine): the read-scan-forward loop over the lines
of the printed report consumes every line, forwards nothing, stops in state `done` right after
the closing separator without touching the next item, reports no error and no panic, and has
built exactly the described goroutines. -/
theorem race_roundtrip (crlf : Bool) (r : RaceSpec) (hwf : raceWF r = true) :
    let o := scanL {} [] [] (specLines (printRace crlf r) .eof)
    o.err = none ∧ o.fwd = [] ∧ o.rest = [([], some .eof)] ∧ o.s.st = .done ∧ o.s.gs = expectedRace r ∧
      o.panicked = none ∧ o.consumed = (raceLines r).map (· ++ eolOf crlf) := by
  obtain ⟨gi, h⟩ := race_roundtrip_aux crlf r hwf
  rw [h]
  exact ⟨rfl, rfl, rfl, rfl, rfl, rfl, rfl⟩

/-- the same through `ScanSnapshot`'s line-level model: the snapshot is the description, nothing
is forwarded, the suffix handed back is empty (non-nil: the state is `done`), nothing is left
unread, no error -/
theorem race_roundtrip_snapshot (crlf : Bool) (r : RaceSpec) (hwf : raceWF r = true) :
    let x := scanSnapshotL false (printRace crlf r) .eof
    x.snap = some (expectedRace r) ∧ x.fwd = [] ∧ x.suffix = some [] ∧ x.unread = [] ∧
      x.err = none ∧ x.panicked = false ∧ x.state = .done := by
  obtain ⟨gi, h⟩ := race_roundtrip_aux crlf r hwf
  have hexp : (expectedRace r).isEmpty = false := by
    have hne := (raceWF_ok r hwf).opsNe
    unfold expectedRace
    cases hr : r.ops with
    | nil => exact absurd hr hne
    | cons op ops => rfl
  simp only [scanSnapshotL, h, hexp]
  simp [itemsBytes]

/-- only the first goroutine of the described snapshot is marked `first` -/
theorem race_first_only_first (r : RaceSpec) :
    (expectedRace r).map (·.first) = (List.replicate r.ops.length false).set 0 true := by
  unfold expectedRace
  cases r.ops with
  | nil => rfl
  | cons g t =>
    simp only [List.map_cons, List.map_map, List.length_cons, List.replicate_succ, List.set_cons_zero]
    congr 1
    induction t with
    | nil => rfl
    | cons a t ih => simp only [List.map_cons, List.length_cons, List.replicate_succ, ih]; rfl

/-- (for EVERY line and state, not only printed reports) a `Goroutine N (…) created at:` line
read in `betweenRaceOperations` / `betweenRaceGoroutines` modifies only the FIRST goroutine whose
id is `N`: its state becomes the one on the line, `gi` points at it, nothing else changes -/
theorem creator_lookup_sound (s : S) (l : Line) (id : Nat) (stt : Bytes)
    (pre : List Goroutine) (g : Goroutine) (post : List Goroutine)
    (hst : s.st = .betweenRaceOperations ∨ s.st = .betweenRaceGoroutines)
    (heol : l.hasEOL = true) (hind : l.indentOK = true)
    (hprev : s.st = .betweenRaceOperations → l.racePrev = none)
    (hg : l.raceGor = some (some id, stt))
    (hgs : s.gs = pre ++ g :: post) (hpre : ∀ x ∈ pre, x.id ≠ id) (hid : g.id = id) :
    scan s l = .ok ({ s with st := .gotRaceGoroutineHeader,
                             gs := pre ++ { g with sig := { g.sig with state := stt } } :: post,
                             gi := pre.length }, true, none) :=
  _root_.PP.creator_lookup_sound s l id stt pre g post hst heol hind hprev hg hgs hpre hid

/-- (for EVERY line and state) a 'created at' section naming a goroutine that took part in no
operation is an error, never a misattribution: the state is unchanged and the line is not
consumed -/
theorem unknown_creator_is_error (s : S) (l : Line) (id : Nat) (stt : Bytes)
    (hst : s.st = .betweenRaceOperations ∨ s.st = .betweenRaceGoroutines)
    (heol : l.hasEOL = true) (hind : l.indentOK = true)
    (hprev : s.st = .betweenRaceOperations → l.racePrev = none)
    (hg : l.raceGor = some (some id, stt))
    (hno : ∀ g ∈ s.gs, g.id ≠ id) :
    scan s l = .ok (s, false, some .raceUnknownGoroutine) :=
  _root_.PP.unknown_creator_is_error s l id stt hst heol hind hprev hg hno

/-- (for EVERY line and state) in the three states of a creation section every successful step
leaves all goroutines other than index `s.gi` untouched and keeps `gi` -/
theorem race_goroutine_steps_only_gi (s s' : S) (l : Line) (b : Bool) (e : Option Err)
    (hst : s.st = .gotRaceGoroutineHeader ∨ s.st = .gotRaceGoroutineFunc ∨ s.st = .gotRaceGoroutineFile)
    (h : scan s l = .ok (s', b, e)) :
    s'.gi = s.gi ∧ s'.gs.length = s.gs.length ∧ ∀ j, j ≠ s.gi → s'.gs[j]? = s.gs[j]? :=
  _root_.PP.race_goroutine_steps_only_gi s s' l b e hst h

/-! ### non-vacuity -/

/-- `main.foo(0x1)` at `/a/b.go:12 +0x1f` -/
def exFrame1 : FrameSpec :=
  { pkg := b!"main", name := b!"foo", args := [.val 1 false], file := b!"/a/b.go", line := 12, off := some 31 }
/-- `main.main()` at `/a/main.go:5 +0x2` -/
def exFrame2 : FrameSpec := { pkg := b!"main", name := b!"main", file := b!"/a/main.go", line := 5, off := some 2 }

/-- two operations; the creation sections come in the opposite order, one goroutine has finished -/
def exRace : RaceSpec :=
  { ops := [{ write := true, addr := 0xc000012345, id := 7, frames := [exFrame1, exFrame2] },
            { write := false, addr := 0xc000012345, id := 8, frames := [exFrame1] }]
    gors := [{ id := 8, finished := true, frames := [exFrame2] },
             { id := 7, finished := false, frames := [exFrame2, exFrame1] }] }

example : raceWF exRace = true := by decide

/-- the lines of the example (plain `rfl`) -/
example : raceLines exRace =
   [b!"==================", b!"WARNING: DATA RACE", b!"Write at 0x00c000012345 by goroutine 7:",
    b!"  main.foo(0x1)", b!"      /a/b.go:12 +0x1f", b!"  main.main()", b!"      /a/main.go:5 +0x2",
    b!"", b!"Previous read at 0x00c000012345 by goroutine 8:", b!"  main.foo(0x1)", b!"      /a/b.go:12 +0x1f",
    b!"", b!"Goroutine 8 (finished) created at:", b!"  main.main()", b!"      /a/main.go:5 +0x2",
    b!"", b!"Goroutine 7 (running) created at:", b!"  main.main()", b!"      /a/main.go:5 +0x2",
    b!"  main.foo(0x1)", b!"      /a/b.go:12 +0x1f", b!"=================="] := by
  rfl

-- the literal text of the example (the recursion limit of the elaborator's definitional
-- unfolding is raised: the two sides are lists of 452 bytes)
set_option maxRecDepth 4096 in
example : printRace false exRace =
    b!"==================\nWARNING: DATA RACE\nWrite at 0x00c000012345 by goroutine 7:\n  main.foo(0x1)\n      /a/b.go:12 +0x1f\n  main.main()\n      /a/main.go:5 +0x2\n\nPrevious read at 0x00c000012345 by goroutine 8:\n  main.foo(0x1)\n      /a/b.go:12 +0x1f\n\nGoroutine 8 (finished) created at:\n  main.main()\n      /a/main.go:5 +0x2\n\nGoroutine 7 (running) created at:\n  main.main()\n      /a/main.go:5 +0x2\n  main.foo(0x1)\n      /a/b.go:12 +0x1f\n==================\n" := by
  rfl

/-- the theorem applies to the example, in both line-ending conventions -/
example (crlf : Bool) :
    (scanL {} [] [] (specLines (printRace crlf exRace) .eof)).s.gs = expectedRace exRace :=
  (race_roundtrip crlf exRace (by decide)).2.2.2.2.1

/-- the described snapshot of the example: two goroutines, the states the sections give -/
example : (expectedRace exRace).map (fun g => (g.id, g.first, g.raceWrite, g.sig.state, g.sig.createdBy.calls.length)) =
    [(7, true, true, b!"running", 2), (8, false, false, b!"finished", 1)] := by
  rfl

end PP.Spec

#print axioms PP.Spec.race_roundtrip
#print axioms PP.Spec.race_roundtrip_snapshot
#print axioms PP.Spec.race_first_only_first
#print axioms PP.Spec.creator_lookup_sound
#print axioms PP.Spec.unknown_creator_is_error
#print axioms PP.Spec.race_goroutine_steps_only_gi
