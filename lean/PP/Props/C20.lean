import PP.Lemmas.WebLemmas
import PP.Lemmas.AtoiLemmas
/-
C20 (web handler part): the decision logic of `webstack.SnapshotHandler`, the
integers `strconv.Atoi` accepts for its parameters, and the buffer growth of
`snapshot`.

What the model cannot say (runtime, net/http, scheduling) is exercised by the
harness (`prop_c20.go`) only.
-/
namespace PP
open Bytes

/-! ## 1. decision table -/

theorem handler_status_mem (m mm au si : Bytes) (ok : Bool) :
    handlerStatus m mm au si ok ∈ [200, 400, 405, 500] := by
  rw [handlerStatus_cascade]
  repeat' split
  all_goals simp

theorem handler_status_405 (m mm au si : Bytes) (ok : Bool) :
    handlerStatus m mm au si ok = 405 ↔ m ≠ b!"GET" := by
  rw [handlerStatus_cascade]
  show _ ↔ m ≠ methodGET
  repeat' split
  all_goals simp_all

/-- 400: a GET whose first invalid parameter, in the code's order (maxmem,
augment, then — only after a successful snapshot — similarity), is reached. -/
theorem handler_status_400 (m mm au si : Bytes) (ok : Bool) :
    handlerStatus m mm au si ok = 400 ↔
      m = b!"GET" ∧
        (maxmemOK mm = false ∨
         (maxmemOK mm = true ∧ augmentOK au = false) ∨
         (maxmemOK mm = true ∧ augmentOK au = true ∧ ok = true ∧ similarityOK si = false)) := by
  rw [handlerStatus_cascade]
  show _ ↔ m = methodGET ∧ _
  repeat' split
  all_goals simp_all

/-- 500: a GET with valid maxmem and augment whose snapshot failed — whatever
`similarity` says (it is validated after the snapshot). -/
theorem handler_status_500 (m mm au si : Bytes) (ok : Bool) :
    handlerStatus m mm au si ok = 500 ↔
      m = b!"GET" ∧ maxmemOK mm = true ∧ augmentOK au = true ∧ ok = false := by
  rw [handlerStatus_cascade]
  show _ ↔ m = methodGET ∧ _
  repeat' split
  all_goals simp_all

theorem handler_status_200 (m mm au si : Bytes) (ok : Bool) :
    handlerStatus m mm au si ok = 200 ↔
      m = b!"GET" ∧ maxmemOK mm = true ∧ augmentOK au = true ∧ similarityOK si = true ∧ ok = true := by
  rw [handlerStatus_cascade]
  show _ ↔ m = methodGET ∧ _
  repeat' split
  all_goals simp_all

/-- valid parameters and a dump that parses ⇒ 200 -/
theorem valid_get_ok (mm au si : Bytes)
    (h1 : maxmemOK mm = true) (h2 : augmentOK au = true) (h3 : similarityOK si = true) :
    handlerStatus b!"GET" mm au si true = 200 :=
  (handler_status_200 _ _ _ _ _).2 ⟨rfl, h1, h2, h3, rfl⟩

/-- an invalid method or any invalid parameter, with a snapshot that succeeded
(a dump that fits parses), is answered 4xx. -/
theorem invalid_is_4xx (m mm au si : Bytes)
    (h : m ≠ b!"GET" ∨ maxmemOK mm = false ∨ augmentOK au = false ∨ similarityOK si = false) :
    handlerStatus m mm au si true = 405 ∨ handlerStatus m mm au si true = 400 := by
  by_cases hm : m = b!"GET"
  · right
    rw [handler_status_400]
    refine ⟨hm, ?_⟩
    cases h1 : maxmemOK mm <;> cases h2 : augmentOK au <;> cases h3 : similarityOK si <;> simp_all
  · left; exact (handler_status_405 _ _ _ _ _).2 hm

/-- invalid method, maxmem or augment are answered 4xx whatever the snapshot does
(they are checked before it). -/
theorem invalid_before_snapshot_is_4xx (m mm au si : Bytes) (ok : Bool)
    (h : m ≠ b!"GET" ∨ maxmemOK mm = false ∨ augmentOK au = false) :
    handlerStatus m mm au si ok = 405 ∨ handlerStatus m mm au si ok = 400 := by
  by_cases hm : m = b!"GET"
  · right
    rw [handler_status_400]
    refine ⟨hm, ?_⟩
    cases h1 : maxmemOK mm <;> cases h2 : augmentOK au <;> simp_all
  · left; exact (handler_status_405 _ _ _ _ _).2 hm

/-- the order quirk: an invalid `similarity` together with a failed snapshot is
answered 500, not 400 — `similarity` is validated after `snapshot` returns. -/
theorem invalid_similarity_failed_snapshot_is_500 (mm au si : Bytes)
    (h1 : maxmemOK mm = true) (h2 : augmentOK au = true) (_h3 : similarityOK si = false) :
    handlerStatus b!"GET" mm au si false = 500 :=
  (handler_status_500 _ _ _ _ _).2 ⟨rfl, h1, h2, rfl⟩

/-- what reaches `snapshot` / `Aggregate` on a 200: `augment` 0 switches source
analysis off, anything else accepted leaves it on; the level follows the
spelling; an empty `maxmem` is 64 MiB. -/
theorem handler_opts_some (mm au si : Bytes) :
    (handlerOpts mm au si).isSome = (maxmemOK mm && augmentOK au && similarityOK si) := by
  rw [← parseMaxmem_isSome, ← parseAugment_isSome, ← parseSimilarity_isSome]
  unfold handlerOpts handlerPlan
  cases parseMaxmem mm <;> cases parseAugment au <;> cases parseSimilarity si <;> simp [methodGET]

theorem handler_opts_analyze (mm au si : Bytes) (p : WebPlan) (l : Lvl)
    (h : handlerOpts mm au si = some (p, l)) :
    p.analyzeSources = !(atoi au == some 0) ∧
    p.maxmem = (if mm = [] then 64 * 2 ^ 20 else (atoi mm).getD 0) := by
  unfold handlerOpts handlerPlan at h
  cases h1 : parseMaxmem mm with
  | none => simp [h1, methodGET] at h
  | some v =>
    cases h2 : parseAugment au with
    | none => simp [h1, h2, methodGET] at h
    | some a =>
      cases h3 : parseSimilarity si with
      | none => simp [h1, h2, h3, methodGET] at h
      | some l' =>
        simp [h1, h2, h3, methodGET] at h
        obtain ⟨hp, _⟩ := h
        subst hp
        constructor
        · have := parseAugment_isSome au
          rw [h2] at this
          unfold parseAugment at h2
          by_cases he : au = []
          · subst he; simp at h2; subst h2; show true = !(atoi [] == some 0); decide
          · simp only [beq_iff_eq, he, if_false] at h2
            cases ha : atoi au with
            | none => simp [ha] at h2
            | some z =>
              simp only [ha] at h2
              split at h2
              · cases h2
              · simp at h2; subst h2
                by_cases hz : z = 0 <;> simp [hz, bne]
        · unfold parseMaxmem at h1
          by_cases he : mm = []
          · simp [he] at h1 ⊢; simp [← h1, defaultMaxmem]
          · simp only [beq_iff_eq, he, if_false] at h1; simp [he, h1]

theorem handler_opts_level (mm au si : Bytes) (p : WebPlan) (l : Lvl)
    (h : handlerOpts mm au si = some (p, l)) :
    (si = b!"exactflags" → l = .exactFlags) ∧ (si = b!"exactlines" → l = .exactLines) ∧
    (si = b!"anypointer" ∨ si = [] → l = .anyPointer) ∧ (si = b!"anyvalue" → l = .anyValue) := by
  unfold handlerOpts at h
  have hs : parseSimilarity si = some l := by
    cases h1 : handlerPlan methodGET mm au with
    | error e => simp [h1] at h
    | ok q =>
      cases h3 : parseSimilarity si with
      | none => simp [h1, h3] at h
      | some l' => simp [h1, h3] at h; rw [h.2]
  refine ⟨?_, ?_, ?_, ?_⟩
  · intro e; subst e; simpa [parseSimilarity] using hs.symm
  · intro e; subst e; simpa [parseSimilarity] using hs.symm
  · rintro (e | e) <;> subst e <;> simpa [parseSimilarity] using hs.symm
  · intro e; subst e; simpa [parseSimilarity] using hs.symm

/-! ## 2. the integers `strconv.Atoi` accepts -/

theorem atoi_zero : atoi b!"0" = some 0 := by decide
theorem atoi_one : atoi b!"1" = some 1 := by decide

/-- `strconv.Atoi` (fast path and `ParseInt` path together) accepts exactly: an
optional sign, one or more ASCII digits, value within int64; nothing else — no
spaces, no underscores (base 10 is explicit), no base prefixes, no exponent. -/
theorem atoi_accepts (s : Bytes) (z : Int) :
    atoi s = some z ↔
      ∃ sg d, s = sg ++ d ∧ d ≠ [] ∧ d.all isDigit = true ∧
        ((sg = [] ∧ z = digitsVal d ∧ digitsVal d < 2 ^ 63) ∨
         (sg = b!"+" ∧ z = digitsVal d ∧ digitsVal d < 2 ^ 63) ∨
         (sg = b!"-" ∧ z = -(digitsVal d : Int) ∧ digitsVal d ≤ 2 ^ 63)) := by
  rw [atoi_eq_spec]; exact atoiSpec_eq_some_iff s z

/-- the value is within Go's `int` -/
theorem atoi_range (s : Bytes) (z : Int) (h : atoi s = some z) : -(2 ^ 63) ≤ z ∧ z < 2 ^ 63 := by
  obtain ⟨sg, d, _, _, _, hc⟩ := (atoi_accepts s z).1 h
  rcases hc with ⟨_, hz, hr⟩ | ⟨_, hz, hr⟩ | ⟨_, hz, hr⟩ <;> omega

/-- the spellings of 0: any of `""`, `+`, `-` followed by one or more `0` -/
theorem atoi_zero_iff (s : Bytes) :
    atoi s = some 0 ↔
      ∃ sg k, (sg = [] ∨ sg = b!"+" ∨ sg = b!"-") ∧ s = sg ++ List.replicate (k + 1) 48 := by
  rw [atoi_accepts]
  constructor
  · rintro ⟨sg, d, hs, hne, hall, hc⟩
    have hv : digitsVal d = 0 := by
      rcases hc with ⟨_, hz, _⟩ | ⟨_, hz, _⟩ | ⟨_, hz, _⟩ <;> omega
    obtain ⟨k, hk⟩ := (digits_zero_iff d).1 ⟨hne, hall, hv⟩
    refine ⟨sg, k, ?_, by rw [hs, hk]⟩
    rcases hc with ⟨h, _⟩ | ⟨h, _⟩ | ⟨h, _⟩
    · exact Or.inl h
    · exact Or.inr (Or.inl h)
    · exact Or.inr (Or.inr h)
  · rintro ⟨sg, k, hsg, hs⟩
    obtain ⟨hne, hall, hv⟩ := (digits_zero_iff (List.replicate (k + 1) 48)).2 ⟨k, rfl⟩
    refine ⟨sg, _, hs, hne, hall, ?_⟩
    rw [hv]
    rcases hsg with h | h | h
    · exact Or.inl ⟨h, by simp, by decide⟩
    · exact Or.inr (Or.inl ⟨h, by simp, by decide⟩)
    · exact Or.inr (Or.inr ⟨h, by simp, by decide⟩)

/-- the spellings of 1: `""` or `+`, any number of `0`, then `1` -/
theorem atoi_one_iff (s : Bytes) :
    atoi s = some 1 ↔
      ∃ sg k, (sg = [] ∨ sg = b!"+") ∧ s = sg ++ (List.replicate k 48 ++ b!"1") := by
  rw [atoi_accepts]
  constructor
  · rintro ⟨sg, d, hs, hne, hall, hc⟩
    have hv : digitsVal d = 1 ∧ (sg = [] ∨ sg = b!"+") := by
      rcases hc with ⟨h, hz, _⟩ | ⟨h, hz, _⟩ | ⟨_, hz, _⟩
      · exact ⟨by omega, Or.inl h⟩
      · exact ⟨by omega, Or.inr h⟩
      · omega
    obtain ⟨k, hk⟩ := (digits_one_iff d).1 ⟨hne, hall, hv.1⟩
    exact ⟨sg, k, hv.2, by rw [hs, hk]⟩
  · rintro ⟨sg, k, hsg, hs⟩
    obtain ⟨hne, hall, hv⟩ := (digits_one_iff (List.replicate k 48 ++ [49])).2 ⟨k, rfl⟩
    refine ⟨sg, _, hs, hne, hall, ?_⟩
    rw [hv]
    rcases hsg with h | h
    · exact Or.inl ⟨h, by simp, by decide⟩
    · exact Or.inr (Or.inl ⟨h, by simp, by decide⟩)

/-- the accepted `augment` values, by definition … -/
theorem augmentOK_iff (s : Bytes) :
    augmentOK s = true ↔ s = [] ∨ atoi s = some 0 ∨ atoi s = some 1 := by
  simp [augmentOK, or_assoc]

/-- … and spelled out: besides `""`, `0` and `1` the handler also accepts
`00`, `+0`, `-0`, `-000`, `01`, `+1`, `+0001`, … but not `-1`, `2`, `1.0`, ` 1`. -/
theorem augment_accepted (s : Bytes) :
    augmentOK s = true ↔
      s = [] ∨
      (∃ sg k, (sg = [] ∨ sg = b!"+" ∨ sg = b!"-") ∧ s = sg ++ List.replicate (k + 1) 48) ∨
      (∃ sg k, (sg = [] ∨ sg = b!"+") ∧ s = sg ++ (List.replicate k 48 ++ b!"1")) := by
  rw [augmentOK_iff, atoi_zero_iff, atoi_one_iff]

theorem augment_accepted_examples :
    ∀ s ∈ [b!"", b!"0", b!"1", b!"00", b!"+0", b!"-0", b!"-000", b!"01", b!"+1", b!"+0001",
           b!"0000000000000000000000000", b!"0000000000000000000000001"],
      augmentOK s = true := by decide

theorem augment_rejected_examples :
    ∀ s ∈ [b!"2", b!"-1", b!"x", b!"1.0", b!" 1", b!"1 ", b!"+", b!"-", b!"1_", b!"0x1", b!"0b1",
           b!"10", b!"1e0", b!"+-0", b!"--0"],
      augmentOK s = false := by decide

/-- `maxmem`: any int64, whatever the sign or size (it is clamped afterwards) -/
theorem maxmem_accepted_examples :
    ∀ s ∈ [b!"", b!"0", b!"1", b!"-5", b!"+5", b!"1048576", b!"67108864",
           b!"9223372036854775807", b!"-9223372036854775808", b!"000000000000000000000000005"],
      maxmemOK s = true := by decide

theorem maxmem_rejected_examples :
    ∀ s ∈ [b!"abc", b!"1e6", b!" 1", b!"1_000", b!"9223372036854775808", b!"-9223372036854775809",
           b!"0x10", b!"1.5", b!"64M"],
      maxmemOK s = false := by decide

/-! ## 3. `snapshot`: buffer growth

`need i` is the size of the text `runtime.Stack` has to write at its i-th call;
in a live process it changes between calls, so the general statements are about
`growStepsVar`; `growSteps` is the special case of a constant size. -/

theorem clamp_ge (maxmem : Int) : 2 ^ 20 ≤ clampMaxmem maxmem := by
  unfold clampMaxmem minBuf; omega

theorem clamp_eq (maxmem : Int) : clampMaxmem maxmem = max maxmem.toNat (2 ^ 20) := rfl

/-- the first buffer is 1 MiB -/
theorem growVar_first (maxmem : Int) (need : Nat → Nat) :
    (growStepsVar maxmem need).head? = some (2 ^ 20) :=
  growLoop_head _ _ _ _ _

/-- the sizes tried are strictly increasing -/
theorem growVar_increasing (maxmem : Int) (need : Nat → Nat) :
    (growStepsVar maxmem need).Pairwise (· < ·) :=
  growLoop_increasing _ _ _ _ _

/-- every buffer is between 1 MiB and `max maxmem 1MiB` -/
theorem growVar_bound (maxmem : Int) (need : Nat → Nat) :
    ∀ x ∈ growStepsVar maxmem need, 2 ^ 20 ≤ x ∧ x ≤ max maxmem.toNat (2 ^ 20) := by
  intro x hx
  exact ⟨growLoop_ge _ _ _ _ _ x hx, growLoop_le _ _ _ _ _ (clamp_ge maxmem) x hx⟩

/-- `grow_terminates`, quantitatively: the loop (total by well-founded recursion
on `maxmem - len(buf)`) calls `runtime.Stack` at most `log2 (max maxmem 1MiB) - 18`
times, whatever the sizes of the successive dumps. -/
theorem growVar_length (maxmem : Int) (need : Nat → Nat) :
    (growStepsVar maxmem need).length ≤ Nat.log2 (clampMaxmem maxmem) - 18 := by
  have hM := clamp_ge maxmem
  have hne : clampMaxmem maxmem ≠ 0 := by omega
  have hL : 20 ≤ Nat.log2 (clampMaxmem maxmem) := (Nat.le_log2 hne).2 hM
  have hlt := Nat.lt_log2_self (n := clampMaxmem maxmem)
  have := growLoop_length (clampMaxmem maxmem) need 0 minBuf (by decide)
    (Nat.log2 (clampMaxmem maxmem) - 19) (by
      have e : minBuf * 2 ^ (Nat.log2 (clampMaxmem maxmem) - 19)
          = 2 ^ (Nat.log2 (clampMaxmem maxmem) + 1) := by
        unfold minBuf
        rw [← Nat.pow_add]
        congr 1
        omega
      rw [e]; omega)
  unfold growStepsVar
  omega

/-- the loop ends either on a buffer that holds the text of that moment
strictly (`n < len(buf)`: the dump is complete) or on the limit (truncated). -/
theorem growVar_last (maxmem : Int) (need : Nat → Nat) :
    ∃ lst, (growStepsVar maxmem need).getLast? = some lst ∧
      (need ((growStepsVar maxmem need).length - 1) < lst ∨ lst = clampMaxmem maxmem) := by
  obtain ⟨lst, h1, h2⟩ := growLoop_last (clampMaxmem maxmem) need 0 minBuf (by decide)
  refine ⟨lst, h1, ?_⟩
  rcases h2 with h2 | h2
  · left; unfold growStepsVar; simpa using h2
  · right
    have := growLoop_le (clampMaxmem maxmem) need 0 minBuf (by decide) (clamp_ge maxmem) lst
      (List.mem_of_getLast? h1)
    omega

/-- the buffers allocated by one call add up to less than three times the limit
(the doc comment of `SnapshotHandler` says "at least the double"). -/
theorem growVar_total_memory (maxmem : Int) (need : Nat → Nat) :
    (growStepsVar maxmem need).sum + 2 ^ 20 ≤ 3 * clampMaxmem maxmem :=
  growLoop_sum _ _ _ _ _ (clamp_ge maxmem)

/-! constant dump size -/

theorem grow_first (maxmem : Int) (need : Nat) : (growSteps maxmem need).head? = some (2 ^ 20) :=
  growVar_first _ _

theorem grow_increasing (maxmem : Int) (need : Nat) : (growSteps maxmem need).Pairwise (· < ·) :=
  growVar_increasing _ _

theorem grow_bound (maxmem : Int) (need : Nat) :
    ∀ x ∈ growSteps maxmem need, 2 ^ 20 ≤ x ∧ x ≤ max maxmem.toNat (2 ^ 20) :=
  growVar_bound _ _

theorem grow_terminates (maxmem : Int) (need : Nat) :
    (growSteps maxmem need).length ≤ Nat.log2 (max maxmem.toNat (2 ^ 20)) - 18 :=
  growVar_length _ _

/-- with the default `maxmem` (64 MiB) at most 8 buffers (in fact 7: 1 … 64 MiB) -/
theorem grow_default (need : Nat) : (growSteps defaultMaxmem need).length ≤ 8 := by
  have := grow_terminates defaultMaxmem need
  have e : Nat.log2 (max defaultMaxmem.toNat (2 ^ 20)) = 26 := by decide
  omega

/-- `fits_complete`: a dump smaller than the limit is captured whole … -/
theorem fits_complete (maxmem : Int) (need : Nat) (h : need < max maxmem.toNat (2 ^ 20)) :
    ∃ lst, (growSteps maxmem need).getLast? = some lst ∧ need < lst := by
  obtain ⟨lst, h1, h2⟩ := growVar_last maxmem (fun _ => need)
  refine ⟨lst, h1, ?_⟩
  rcases h2 with h2 | h2
  · exact h2
  · rw [h2]; exact h

/-- … and a dump that reaches the limit is cut at the limit (what `ScanSnapshot`
then makes of the cut text decides between 500 and a 200 with a partial page). -/
theorem nofit_truncated (maxmem : Int) (need : Nat) (h : max maxmem.toNat (2 ^ 20) ≤ need) :
    (growSteps maxmem need).getLast? = some (max maxmem.toNat (2 ^ 20)) := by
  obtain ⟨lst, h1, h2⟩ := growVar_last maxmem (fun _ => need)
  rcases h2 with h2 | h2
  · have := (growVar_bound maxmem (fun _ => need) lst (List.mem_of_getLast? h1)).2
    omega
  · show (growStepsVar maxmem fun _ => need).getLast? = _
    rw [h1, h2]; rfl

/-! ## 4. fits → complete

When the text fits, what `ScanSnapshot` receives is the whole text the runtime
printed.  From there on the existing properties apply to that text: C01 (one
goroutine per header), C04 `agg_ids_perm` / `agg_ids_disjoint` in
`PP/Props/C04.lean` (every goroutine in exactly one bucket, at every similarity
level), C17 (every bucket on the page).  Nothing is re-proved here. -/

theorem snapshot_input_complete (maxmem : Int) (dump : Bytes)
    (h : dump.length < max maxmem.toNat (2 ^ 20)) : snapshotInput maxmem dump = dump := by
  obtain ⟨lst, h1, h2⟩ := fits_complete maxmem dump.length h
  unfold snapshotInput
  rw [h1]
  exact List.take_of_length_le (by simpa using Nat.le_of_lt h2)

theorem snapshot_input_truncated (maxmem : Int) (dump : Bytes)
    (h : max maxmem.toNat (2 ^ 20) ≤ dump.length) :
    snapshotInput maxmem dump = dump.take (max maxmem.toNat (2 ^ 20)) := by
  unfold snapshotInput
  rw [nofit_truncated maxmem dump.length h]
  rfl

/-! ## non-vacuity -/

example : handlerStatus b!"GET" b!"" b!"" b!"" true = 200 := by decide
example : handlerStatus b!"GET" b!"-5" b!"+1" b!"anyvalue" true = 200 := by decide
example : handlerStatus b!"POST" b!"" b!"" b!"" true = 405 := by decide
example : handlerStatus b!"get" b!"" b!"" b!"" true = 405 := by decide
example : handlerStatus b!"GET" b!"1_000" b!"" b!"" true = 400 := by decide
example : handlerStatus b!"GET" b!"" b!"2" b!"" true = 400 := by decide
example : handlerStatus b!"GET" b!"" b!"" b!"AnyValue" true = 400 := by decide
example : handlerStatus b!"GET" b!"" b!"" b!"AnyValue" false = 500 := by decide
example : handlerStatus b!"GET" b!"" b!"2" b!"" false = 400 := by decide
example : maxmemOK b!"1" = true ∧ augmentOK b!"0" = true ∧ similarityOK b!"exactlines" = true := by decide
example : handlerOpts b!"" b!"0" b!"anyvalue" = some (⟨64 * 2 ^ 20, false⟩, .anyValue) := by decide
example : handlerOpts b!"7" b!"01" b!"" = some (⟨7, true⟩, .anyPointer) := by decide

example : growSteps 0 5 = [2 ^ 20] := by
  simp [growSteps, growStepsVar, growLoop, clampMaxmem, minBuf]
example : growSteps (3 * 2 ^ 20) (2 ^ 30) = [2 ^ 20, 2 ^ 21, 3 * 2 ^ 20] := by
  simp [growSteps, growStepsVar, growLoop, clampMaxmem, minBuf]
example : growSteps defaultMaxmem (5 * 2 ^ 20) = [2 ^ 20, 2 ^ 21, 2 ^ 22, 2 ^ 23] := by
  simp [growSteps, growStepsVar, growLoop, clampMaxmem, minBuf, defaultMaxmem]
example : (growSteps defaultMaxmem (2 ^ 40)).length = 7 := by
  simp [growSteps, growStepsVar, growLoop, clampMaxmem, minBuf, defaultMaxmem]
/-- a dump that shrinks between two calls of `runtime.Stack` -/
example : growStepsVar (4 * 2 ^ 20) (fun i => if i = 0 then 2 ^ 21 else 5) = [2 ^ 20, 2 ^ 21] := by
  simp [growStepsVar, growLoop, clampMaxmem, minBuf]
/-- the length bound is tight, and `log2 … - 19` would be false: two buffers for
`maxmem = 1 MiB + 1` -/
example : (growSteps (2 ^ 20 + 1) (2 ^ 30)).length = 2 ∧
    Nat.log2 (max (2 ^ 20 + 1 : Int).toNat (2 ^ 20)) - 18 = 2 := by
  constructor
  · simp [growSteps, growStepsVar, growLoop, clampMaxmem, minBuf]
  · decide

#print axioms handler_status_mem
#print axioms handler_status_405
#print axioms handler_status_400
#print axioms handler_status_500
#print axioms handler_status_200
#print axioms valid_get_ok
#print axioms invalid_is_4xx
#print axioms invalid_before_snapshot_is_4xx
#print axioms invalid_similarity_failed_snapshot_is_500
#print axioms handler_opts_some
#print axioms handler_opts_analyze
#print axioms handler_opts_level
#print axioms atoi_zero
#print axioms atoi_one
#print axioms atoi_accepts
#print axioms atoi_range
#print axioms atoi_zero_iff
#print axioms atoi_one_iff
#print axioms augmentOK_iff
#print axioms augment_accepted
#print axioms augment_accepted_examples
#print axioms augment_rejected_examples
#print axioms maxmem_accepted_examples
#print axioms maxmem_rejected_examples
#print axioms growVar_first
#print axioms growVar_increasing
#print axioms growVar_bound
#print axioms growVar_length
#print axioms growVar_last
#print axioms growVar_total_memory
#print axioms grow_first
#print axioms grow_increasing
#print axioms grow_bound
#print axioms grow_terminates
#print axioms grow_default
#print axioms fits_complete
#print axioms nofit_truncated
#print axioms snapshot_input_complete
#print axioms snapshot_input_truncated

end PP
