import PP.Lemmas.Delimit
import PP.Lemmas.GrammarDfa
import PP.Lemmas.GrammarLemmas
/-
C07 — trace delimitation and resumable multi-dump scanning.

Part 2 (sections 1–4) is about the loop `scanL` over reader items and holds for arbitrary
bytes.  Part 1 (sections 5–7) relates the state machine `scan` to the documented line grammar
(`PP/Spec/Grammar.lean`) on canonical lines.

Definitions used in the statements (lemma files `PP/Lemmas/Delimit.lean`,
`PP/Lemmas/GrammarDfa.lean`, `PP/Lemmas/GrammarLemmas.lean`, spec `PP/Spec/Grammar.lean`):
* `NoStart p` = `Plain p.1 ∧ p.2 = none`, i.e. `(classify [] p.1).header = none ∧
  (classify [] p.1).sep = false` and the item carries no reader error.
* `OutL.stopped o` = `o.broke || o.err.isSome || o.panicked.isSome || !o.rest.isEmpty ||
  o.s.st == .done`: the loop did not simply run out of items in a state that goes on.
* `scanAll n items : List (items × OutL)`: at most `n` calls `scanL {} [] []`, each on the `rest`
  of the previous one, as long as the previous one returned `err = none` (and did not panic).
  `tiles calls` = the bytes of the traces of the calls, in order; `remaining calls items` = the
  `rest` of the last call.
* `scanAllB names n bs fin : List ScanResult`: the same loop around `scanSnapshotL` on bytes,
  the next input being `suffix ++ unread`.
* `Blocks items outs`: `items = pre₁ ++ d₁ ++ t₁ :: post₁`, `pre₁` does not start a dump,
  `scanL {} [] [] (d₁ ++ [t₁])` hands `[t₁]` back without error, and `t₁ :: post₁` is again such a
  block structure (or anything, when `outs` is exhausted); `outs` = the results of scanning each
  `dᵢ ++ [tᵢ]` alone, with `fwd` prefixed by the bytes of `preᵢ` and `rest := tᵢ :: postᵢ`.
* `Spec.Kind`, `Line.isKind`, `Spec.canon`, the grammar `Spec.Dump`, `Spec.Race`, the automaton
  `Spec.step`, `Spec.run`, `Spec.munch`, `Spec.accepting(Dump)`: see `PP/Spec/Grammar.lean`.
* `Spec.absSt : St → GState` (a bijection), `Spec.cleanEnd q` = `accepting q && q != .unav`,
  `Spec.Stopped q e st'`, `Spec.Outcome q k b e st'`, `Spec.GorKnown s l`, `Spec.scanLines`,
  `Spec.CanonFrom`, `Spec.CanonB`, `Spec.Kinds`, `Spec.IdsOK`, `Line.declared`: see
  `PP/Lemmas/GrammarLemmas.lean`.  In short: `Kinds ls ks` = pointwise `isKind`; `GorKnown s l` =
  if `l` is a race goroutine header its id is the id of a goroutine of `s.gs`; `CanonFrom s ls ks`
  / `CanonB s ds ks` = `ls` (resp. the bytes `ds` classified with the prefix in force) are
  canonical of kinds `ks` and `GorKnown` holds at every line reached while scanning from `s`;
  `IdsOK known ls` = every race goroutine header of `ls` names an id of `known` or one declared
  by an earlier operation header of `ls` (a property of the lines alone, which implies the
  `GorKnown` part: `canonFrom_of_kinds_ids`).
* `Inv s`: the scanner invariant of C03 (`PP/Lemmas/ScanInv.lean`).
-/
namespace PP
open Spec

/-! ### 1. A dump is recognised wherever it starts -/

/-- text that starts no dump, in front of anything, is forwarded and does not influence the scan -/
theorem scanL_prefix_nostart (fwd : Bytes) (cons : List Bytes) (pre rest : List (Bytes × Option RErr))
    (h : ∀ p ∈ pre, NoStart p) :
    scanL {} fwd cons (pre ++ rest) = scanL {} (fwd ++ itemsBytes pre) cons rest :=
  scanL_plain_prefix {} rfl rfl fwd cons pre rest h

/-! ### 2. Everything after the terminating line is returned untouched -/

/-- when the loop stops inside `xs` (for whatever reason), whatever follows `xs` is appended
to `rest` and nothing else changes -/
theorem scanL_stopped_append (s : S) (fwd : Bytes) (cons : List Bytes) (xs ys : List (Bytes × Option RErr))
    (h : (scanL s fwd cons xs).stopped = true) :
    scanL s fwd cons (xs ++ ys) =
      { scanL s fwd cons xs with rest := (scanL s fwd cons xs).rest ++ ys } := by
  rw [scanL_append, if_pos h]

/-- otherwise the loop continues over `ys` from where it got -/
theorem scanL_continue_append (s : S) (fwd : Bytes) (cons : List Bytes) (xs ys : List (Bytes × Option RErr))
    (h : (scanL s fwd cons xs).stopped = false) :
    scanL s fwd cons (xs ++ ys) =
      scanL (scanL s fwd cons xs).s (scanL s fwd cons xs).fwd (scanL s fwd cons xs).consumed ys := by
  rw [scanL_append, h]; rfl

/-- the loop left through `suffix = …; break` on a line of `xs` -/
theorem scanL_broke_append (s : S) (fwd : Bytes) (cons : List Bytes) (xs ys : List (Bytes × Option RErr))
    (h : (scanL s fwd cons xs).broke = true) :
    scanL s fwd cons (xs ++ ys) =
      { scanL s fwd cons xs with rest := (scanL s fwd cons xs).rest ++ ys } :=
  scanL_stopped_append s fwd cons xs ys (by simp [OutL.stopped, h])

/-- the state reached `done` (the closing separator of a race report was consumed) -/
theorem scanL_done_append (s : S) (fwd : Bytes) (cons : List Bytes) (xs ys : List (Bytes × Option RErr))
    (h : (scanL s fwd cons xs).s.st = .done) :
    scanL s fwd cons (xs ++ ys) =
      { scanL s fwd cons xs with rest := (scanL s fwd cons xs).rest ++ ys } :=
  scanL_stopped_append s fwd cons xs ys (by simp [OutL.stopped, h])

/-! ### 3. Locality -/

/-- A dump `d` whose scan hands exactly the terminating line `t` back is scanned in the same
way between arbitrary text: `pre` is forwarded, the final scanner state (hence the goroutines),
the withheld lines, the error and the exit are those of scanning `d ++ [t]` alone, and
`t :: post` is handed back.  (The hypothesis covers both the `break` exit and the `done` exit;
it does not require `err = none`.) -/
theorem locality (pre d post : List (Bytes × Option RErr)) (t : Bytes × Option RErr)
    (hpre : ∀ p ∈ pre, NoStart p) (hd : (scanL {} [] [] (d ++ [t])).rest = [t]) :
    scanL {} [] [] (pre ++ d ++ t :: post) =
      { scanL {} [] [] (d ++ [t]) with
        fwd := itemsBytes pre ++ (scanL {} [] [] (d ++ [t])).fwd, rest := t :: post } :=
  scanL_locality pre d post t hpre hd

/-- the same, field by field -/
theorem locality_fields (pre d post : List (Bytes × Option RErr)) (t : Bytes × Option RErr)
    (hpre : ∀ p ∈ pre, NoStart p) (hd : (scanL {} [] [] (d ++ [t])).rest = [t]) :
    let o := scanL {} [] [] (pre ++ d ++ t :: post)
    let o₀ := scanL {} [] [] (d ++ [t])
    o.s = o₀.s ∧ o.fwd = itemsBytes pre ++ o₀.fwd ∧ o.consumed = o₀.consumed ∧ o.err = o₀.err ∧
    o.broke = o₀.broke ∧ o.panicked = o₀.panicked ∧ o.rest = t :: post := by
  simp only [locality pre d post t hpre hd, and_self]

/-- on a clean end the terminating line contributes nothing: the goroutines are those found in
the lines of the dump alone -/
theorem locality_goroutines (pre d post : List (Bytes × Option RErr)) (t : Bytes × Option RErr)
    (hpre : ∀ p ∈ pre, NoStart p) (hd : (scanL {} [] [] (d ++ [t])).rest = [t])
    (he : (scanL {} [] [] (d ++ [t])).err = none) :
    (scanL {} [] [] (pre ++ d ++ t :: post)).s.gs = (scanL {} [] [] d).s.gs := by
  rw [locality pre d post t hpre hd]
  exact scanL_clean_end_gs {} [] [] d t hd he

/-! ### 4. Resumption -/

/-- a remainder that starts at a line boundary re-splits into the same items -/
theorem specLines_suffix (bs : Bytes) (fin : RErr) (xs ys : List (Bytes × Option RErr))
    (h : specLines bs fin = xs ++ ys) (hy : ys ≠ []) : specLines (itemsBytes ys) fin = ys :=
  specLines_resplit bs fin xs ys h hy

/-- what a call hands back is a suffix of what it was given -/
theorem rest_is_suffix (s : S) (fwd : Bytes) (cons : List Bytes) (items : List (Bytes × Option RErr)) :
    ∃ pre, items = pre ++ (scanL s fwd cons items).rest :=
  scanL_rest_suffix s fwd cons items

/-- the caller's loop around `ScanSnapshot`, feeding `suffix ++ unread` back, is the line-level
protocol `scanAll` on the canonical split of the stream -/
theorem resume_bytes (names : Bool) (n : Nat) (bs : Bytes) (fin : RErr) :
    scanAllB names n bs fin = (scanAll n (specLines bs fin)).map (fun c => resultOf names c.2) :=
  scanAllB_eq names n bs fin

/-- each call is a scan from the initial state of what the previous call handed back, and only
a call without error is followed by another one -/
theorem resume_chain (n : Nat) (items : List (Bytes × Option RErr)) :
    (∀ c ∈ scanAll n items, c.2 = scanL {} [] [] c.1) ∧
    (∀ c t, scanAll n items = c :: t → c.1 = items) ∧
    (∀ t1 c1 c2 t2, scanAll n items = t1 ++ c1 :: c2 :: t2 → c2.1 = c1.2.rest ∧
      c1.2.err = none ∧ c1.2.panicked = none) :=
  scanAll_chain n items

/-- (a) the calls tile the input: the lines processed (forwarded or withheld) by the successive
calls, in order, followed by what the last call handed back, are the input.  No position is
scanned into two snapshots, none is skipped. -/
theorem resume_tiles (n : Nat) (items : List (Bytes × Option RErr)) :
    tiles (scanAll n items) ++ itemsBytes (remaining (scanAll n items) items) = itemsBytes items :=
  scanAll_tiles n items

/-- the same for a stream -/
theorem resume_tiles_stream (n : Nat) (bs : Bytes) (fin : RErr) :
    tiles (scanAll n (specLines bs fin)) ++
      itemsBytes (remaining (scanAll n (specLines bs fin)) (specLines bs fin)) = bs := by
  rw [resume_tiles, itemsBytes_specLines]

/-- (b) progress: a call from the initial state never hands its first item back (it is
withheld, forwarded, or an empty read), so every call strictly shortens the input — whatever
its outcome -/
theorem resume_progress (fwd : Bytes) (cons : List Bytes) (items : List (Bytes × Option RErr))
    (hne : items ≠ []) : (scanL {} fwd cons items).rest.length < items.length :=
  scanL_init_progress fwd cons items hne

/-- no call panics (C03) -/
theorem resume_no_panic (n : Nat) (items : List (Bytes × Option RErr)) :
    ∀ c ∈ scanAll n items, c.2.panicked = none := by
  intro c hc
  rw [(scanAll_chain n items).1 c hc]
  exact scanL_init_no_panic [] [] c.1

/-- (b) termination: on the items of a stream (the last one carries the terminal error)
repeated scanning reaches a call that reports an error within `length` calls -/
theorem resume_terminates (n : Nat) (init : List (Bytes × Option RErr)) (t : Bytes) (r : RErr)
    (hn : (init ++ [(t, some r)]).length ≤ n) :
    ∃ cs c, scanAll n (init ++ [(t, some r)]) = cs ++ [c] ∧ c.2.err.isSome = true := by
  obtain ⟨cs, c, h1, h2⟩ := scanAll_terminates n init t r hn
  refine ⟨cs, c, h1, ?_⟩
  rcases h2 with h2 | h2
  · exact h2
  · have := resume_no_panic n (init ++ [(t, some r)]) c (by rw [h1]; simp)
    rw [this] at h2; simp at h2

theorem resume_terminates_stream (bs : Bytes) (fin : RErr) :
    ∃ cs c, scanAll (specLines bs fin).length (specLines bs fin) = cs ++ [c] ∧ c.2.err.isSome = true :=
  resume_terminates _ ((splitLines bs).1.map (fun l => (l, none))) (splitLines bs).2 fin (Nat.le_refl _)

/-- (c) k dumps: on a stream made of `k` blocks, the first `k` calls return the results of
scanning each dump alone (relocated: `fwd` is prefixed by the text before the dump, `rest` is
everything from the terminating line on) -/
theorem resume_blocks (items : List (Bytes × Option RErr)) (outs : List OutL) (h : Blocks items outs) :
    (scanAll outs.length items).map (·.2) = outs :=
  scanAll_blocks_aux items outs h

/-- the induction step of (c) -/
theorem resume_step (n : Nat) (pre d post : List (Bytes × Option RErr)) (t : Bytes × Option RErr)
    (hpre : ∀ p ∈ pre, NoStart p) (hd : (scanL {} [] [] (d ++ [t])).rest = [t])
    (he : (scanL {} [] [] (d ++ [t])).err = none) :
    scanAll (n + 1) (pre ++ d ++ t :: post) =
      (pre ++ d ++ t :: post,
        { scanL {} [] [] (d ++ [t]) with
          fwd := itemsBytes pre ++ (scanL {} [] [] (d ++ [t])).fwd, rest := t :: post }) ::
      scanAll n (t :: post) := by
  rw [scanAll_succ, locality pre d post t hpre hd]
  have hp := scanL_init_no_panic [] [] (d ++ [t])
  simp only [he, hp, Option.isNone_none, Bool.and_self, if_true]

/-! ### 5. The grammar and the reference automaton -/

/-- a canonical line is its kind and a payload -/
theorem isKind_iff_canon (k : Kind) (l : Line) : l.isKind k ↔ ∃ p, l = canon k p :=
  Spec.isKind_iff_canon k l

/-- the automaton accepts exactly the dumps of the grammar -/
theorem dfa_dump_iff (ks : List Kind) :
    Dump ks ↔ ∃ q, run .start ks = some q ∧ acceptingDump q = true :=
  ⟨dump_accepted, fun ⟨_, h, ha⟩ => accepted_dump h ha⟩

/-- … and exactly the race reports -/
theorem dfa_race_iff (ks : List Kind) : Race ks ↔ run .start ks = some .fin :=
  ⟨race_accepted, accepted_race⟩

theorem dfa_iff (ks : List Kind) :
    (Dump ks ∨ Race ks) ↔ ∃ q, run .start ks = some q ∧ accepting q = true := by
  constructor
  · rintro (h | h)
    · obtain ⟨q, h1, h2⟩ := dump_accepted h
      exact ⟨q, h1, by simp [accepting, h2]⟩
    · exact ⟨.fin, race_accepted h, rfl⟩
  · rintro ⟨q, h1, h2⟩
    simp only [accepting, Bool.or_eq_true, beq_iff_eq] at h2
    rcases h2 with h2 | rfl
    · exact Or.inl (accepted_dump h1 h2)
    · exact Or.inr (accepted_race h1)

/-- `munch` is the longest readable prefix -/
theorem munch_spec (q : GState) (ks : List Kind) :
    (munch q ks).1 ≤ ks.length ∧ run q (ks.take (munch q ks).1) = some (munch q ks).2 ∧
    ((munch q ks).1 < ks.length →
      ∃ k, ks[(munch q ks).1]? = some k ∧ step (munch q ks).2 k = none) :=
  ⟨munch_le q ks, munch_run q ks, munch_stuck q ks⟩

/-! ### 6. `scan` follows the automaton on canonical lines -/

/-- One line.  From a state satisfying the scanner invariant, on a canonical line of kind `k`
(a race goroutine header naming a declared goroutine), `scan` does not panic, keeps the
invariant, and:
* if the automaton can take `k`: the line is withheld, without error, and the new state stands
  for the new automaton state;
* if not: the line is not withheld; in a `cleanEnd` state the dump ends (no error, state
  `done`); in `start` / after a lone separator the scanner is back in `looking` without error;
  in every other state the line invalidates the dump (an error). -/
theorem scan_on_canonical (s : S) (l : Line) (k : Kind) (hinv : Inv s) (hk : l.isKind k)
    (hg : GorKnown s l) :
    ∃ s' b e, scan s l = .ok (s', b, e) ∧ Inv s' ∧ Outcome (absSt s.st) k b e s'.st := by
  obtain ⟨s', b, e, h, hi⟩ := scan_stepOK s l hinv
  exact ⟨s', b, e, h, hi, sim_step hk hg h⟩

/-- the same without the invariant: whenever `scan` does not panic -/
theorem scan_on_canonical' {s s' : S} {l : Line} {k : Kind} {b e} (hk : l.isKind k)
    (hg : GorKnown s l) (h : scan s l = .ok (s', b, e)) : Outcome (absSt s.st) k b e s'.st :=
  sim_step hk hg h

/-- `Outcome` spelled out -/
theorem outcome_iff (q : GState) (k : Kind) (b : Bool) (e : Option Err) (st' : St) :
    Outcome q k b e st' ↔
      (∃ q', step q k = some q' ∧ b = true ∧ e = none ∧ absSt st' = q') ∨
      (step q k = none ∧ b = false ∧
        ((cleanEnd q = true ∧ e = none ∧ st' = .done) ∨
         (cleanEnd q = false ∧ (q = .start ∨ q = .r1) ∧ e = none ∧ st' = .looking) ∨
         (cleanEnd q = false ∧ q ≠ .start ∧ q ≠ .r1 ∧ e.isSome = true))) := by
  unfold Outcome Stopped
  cases step q k with
  | some q' => simp
  | none =>
    cases hc : cleanEnd q
    · by_cases hq : q = .start ∨ q = .r1
      · have hq' : ¬ (q ≠ .start ∧ q ≠ .r1) := by rcases hq with rfl | rfl <;> simp
        simp [hq]
        intro _ h1 h2
        exact absurd ⟨h1, h2⟩ hq'
      · have hq' : q ≠ .start ∧ q ≠ .r1 := by simpa [not_or] using hq
        simp [hq']
    · simp

/-- finding (K-C07-1): directly after the "stack unavailable" line the dump is complete for
the grammar, but the scanner does not end it cleanly on a foreign line: it reports an error -/
theorem unavail_needs_blank (s s' : S) (l : Line) (b : Bool) (e : Option Err)
    (hs : s.st = .gotUnavail) (hk : l.isKind .other) (h : scan s l = .ok (s', b, e)) :
    acceptingDump (absSt s.st) = true ∧ b = false ∧ e.isSome = true := by
  have ho := sim_step hk (gorKnown_of_ne hk (by decide)) h
  rw [hs] at ho ⊢
  simp [Outcome, Stopped, absSt, step, cleanEnd, accepting, acceptingDump] at ho
  exact ⟨rfl, ho.1, ho.2⟩

/-! ### 7. Maximal munch -/

/-- On canonical lines, from a state satisfying the invariant, the fold over `scan` withholds
exactly the longest prefix the automaton can read from the state the scanner state stands for.
If the lines run out (`r = none`) the scanner state stands for the automaton state reached;
otherwise the next line stopped the scan, cleanly (no error, `done`) exactly in a `cleanEnd`
state (`Stopped`). -/
theorem munch {s : S} {ls : List Line} {ks : List Kind} (hc : CanonFrom s ls ks) (hinv : Inv s) :
    ∃ s' r, scanLines s ls = .ok ((Spec.munch (absSt s.st) ks).1, s', r) ∧ Inv s' ∧
      (r = none → (Spec.munch (absSt s.st) ks).1 = ks.length ∧
        absSt s'.st = (Spec.munch (absSt s.st) ks).2) ∧
      (∀ e, r = some e → (Spec.munch (absSt s.st) ks).1 < ks.length ∧
        Stopped (Spec.munch (absSt s.st) ks).2 e s'.st) :=
  munch_lines hc hinv

/-- from the initial state, for lines without race goroutine headers (dumps): being canonical
is a property of the lines alone -/
theorem munch_dump {ls : List Line} {ks : List Kind} (hk : Kinds ls ks) (hne : Kind.raceGor ∉ ks) :
    ∃ s' r, scanLines {} ls = .ok ((Spec.munch .start ks).1, s', r) ∧
      (r = none → (Spec.munch .start ks).1 = ks.length ∧ absSt s'.st = (Spec.munch .start ks).2) ∧
      (∀ e, r = some e → (Spec.munch .start ks).1 < ks.length ∧
        Stopped (Spec.munch .start ks).2 e s'.st) := by
  obtain ⟨s', r, h1, _, h3, h4⟩ := munch_lines (canonFrom_of_kinds {} hk hne) inv_init_C07
  exact ⟨s', r, h1, h3, h4⟩

/-- from the initial state, for any canonical lines (dumps and race reports): the only condition
besides the kinds is that race goroutine headers name goroutines declared by earlier operation
headers (`IdsOK`) -/
theorem munch_init {ls : List Line} {ks : List Kind} (hk : Kinds ls ks) (hi : IdsOK [] ls) :
    ∃ s' r, scanLines {} ls = .ok ((Spec.munch .start ks).1, s', r) ∧
      (r = none → (Spec.munch .start ks).1 = ks.length ∧ absSt s'.st = (Spec.munch .start ks).2) ∧
      (∀ e, r = some e → (Spec.munch .start ks).1 < ks.length ∧
        Stopped (Spec.munch .start ks).2 e s'.st) := by
  obtain ⟨s', r, h1, _, h3, h4⟩ :=
    munch_lines (canonFrom_of_kinds_ids (s := {}) hk (by simp) hi) inv_init_C07
  exact ⟨s', r, h1, h3, h4⟩

/-- The same for the loop `scanL` on bytes (lines without reader error): it withholds exactly
the longest readable prefix, forwards nothing, hands the remaining lines back, and ends
without error exactly when the automaton state reached is a `cleanEnd` state (or the lines ran
out).  Hypothesis `hstop`: the automaton does not get stuck in `start` or `r1`, where the
scanner forwards the line instead of stopping. -/
theorem munch_scanL {s : S} {ds : List Bytes} {ks : List Kind} (hc : CanonB s ds ks) (hinv : Inv s)
    (hstop : (Spec.munch (absSt s.st) ks).1 < ks.length →
      (Spec.munch (absSt s.st) ks).2 ≠ .start ∧ (Spec.munch (absSt s.st) ks).2 ≠ .r1)
    (fwd : Bytes) (cons : List Bytes) :
    let o := scanL s fwd cons (ds.map (fun d => (d, none)))
    let n := (Spec.munch (absSt s.st) ks).1
    let q := (Spec.munch (absSt s.st) ks).2
    o.panicked = none ∧ o.fwd = fwd ∧ o.consumed = cons ++ ds.take n ∧
    o.rest = (ds.drop n).map (fun d => (d, none)) ∧
    ((n = ks.length ∧ o.err = none ∧ absSt o.s.st = q) ∨
     (n < ks.length ∧ ∃ e, o.err = e.map LErr.parse ∧ Stopped q e o.s.st)) :=
  Spec.munch_scanL hc hinv hstop fwd cons

/-- A complete dump (in the sense of the grammar) followed by a line that cannot continue it:
the loop withholds exactly the dump, hands the line back, reports no error and is `done` —
provided the dump does not end on the "stack unavailable" line (K-C07-1). -/
theorem dump_delimited {ds : List Bytes} {t : Bytes} {dks : List Kind} {kt : Kind} {q : GState}
    (hd : run .start dks = some q) (hq : acceptingDump q = true) (hu : q ≠ .unav)
    (hkt : step q kt = none) (hlen : ds.length = dks.length)
    (hc : CanonB {} (ds ++ [t]) (dks ++ [kt])) :
    Dump dks ∧
    let o := scanL {} [] [] ((ds ++ [t]).map (fun d => (d, none)))
    o.consumed = ds ∧ o.fwd = [] ∧ o.rest = [(t, none)] ∧ o.err = none ∧ o.s.st = .done ∧
    o.panicked = none := by
  refine ⟨accepted_dump hd hq, ?_⟩
  have hm : Spec.munch .start (dks ++ [kt]) = (dks.length, q) := munch_of_run hd kt [] hkt
  have hce : cleanEnd q = true := by
    simp only [cleanEnd, accepting, hq, Bool.true_or, Bool.true_and, bne_iff_ne, ne_eq]
    exact hu
  have hstart : q ≠ .start ∧ q ≠ .r1 := by
    constructor <;> (intro h; subst h; simp [acceptingDump] at hq)
  have hm' : Spec.munch (absSt ({} : S).st) (dks ++ [kt]) = (dks.length, q) := hm
  obtain ⟨h1, h2, h3, h4, h5⟩ := Spec.munch_scanL hc inv_init_C07
    (by intro _; rw [hm']; exact hstart) [] []
  rw [hm'] at h3 h4 h5
  simp only at h3 h4 h5
  refine ⟨?_, h2, ?_, ?_, ?_, h1⟩
  · rw [h3, ← hlen]; simp
  · rw [h4, ← hlen]; simp
  · rcases h5 with ⟨h, _⟩ | ⟨_, e, he, hs⟩
    · simp at h
    · simp only [Stopped, hce, if_true] at hs
      rw [he, hs.1]; rfl
  · rcases h5 with ⟨h, _⟩ | ⟨_, e, he, hs⟩
    · simp at h
    · simp only [Stopped, hce, if_true] at hs
      exact hs.2

/-! ### Non-vacuity -/

section NonVacuity

/-- two dumps separated by other text -/
private def two : Bytes :=
  b!"x\ngoroutine 1 [running]:\nmain.f()\n\t/a.go:1\n\nnext\ngoroutine 2 [select]:\nmain.g()\n\t/b.go:2\nend\n"

/-- three calls: one snapshot per dump, then the call that meets EOF; the text between the
dumps is forwarded by the call that follows it -/
example : (scanAll 5 (specLines two .eof)).map
      (fun c => (c.2.s.gs.map (·.id), c.2.fwd, c.2.consumed.length)) =
    [([1], b!"x\n", 4), ([2], b!"next\n", 3), ([], b!"end\n", 0)] := by decide
example : (scanAll 5 (specLines two .eof)).map (fun c => (c.2.err, c.2.broke, c.2.rest.length)) =
    [(none, true, 6), (none, true, 2), (some (.reader .eof), false, 0)] := by decide

/-- the same through `scanSnapshotL` with `suffix ++ unread` fed back (`resume_bytes`) -/
example : (scanAllB false 5 two .eof).map (fun r => (r.snap.map (·.map (·.id)), r.fwd, r.suffix)) =
    [(some [1], b!"x\n", some b!"next\ngoroutine 2 [select]:\nmain.g()\n\t/b.go:2\nend\n"),
     (some [2], b!"next\n", some b!"end\n"), (none, b!"end\n", none)] := by decide

/-- tiling on it -/
example : tiles (scanAll 5 (specLines two .eof)) ++
    itemsBytes (remaining (scanAll 5 (specLines two .eof)) (specLines two .eof)) = two :=
  resume_tiles_stream 5 two .eof

/-- the stream as two blocks, and each snapshot equals the one of the dump scanned alone -/
private def pre₁ : List (Bytes × Option RErr) := [(b!"x\n", none)]
private def d₁ : List (Bytes × Option RErr) :=
  [(b!"goroutine 1 [running]:\n", none), (b!"main.f()\n", none), (b!"\t/a.go:1\n", none), (b!"\n", none)]
private def t₁ : Bytes × Option RErr := (b!"next\n", none)
private def d₂ : List (Bytes × Option RErr) :=
  [(b!"goroutine 2 [select]:\n", none), (b!"main.g()\n", none), (b!"\t/b.go:2\n", none)]
private def t₂ : Bytes × Option RErr := (b!"end\n", none)
private def post₂ : List (Bytes × Option RErr) := [([], some .eof)]

example : specLines two .eof = pre₁ ++ d₁ ++ t₁ :: ([] ++ d₂ ++ t₂ :: post₂) := by decide

private theorem nostart_x : ∀ p ∈ pre₁, NoStart p := by
  intro p hp
  simp only [pre₁, List.mem_singleton] at hp
  subst hp
  unfold NoStart Plain
  decide

private theorem two_blocks : Blocks (pre₁ ++ d₁ ++ t₁ :: ([] ++ d₂ ++ t₂ :: post₂))
    [{ scanL {} [] [] (d₁ ++ [t₁]) with
        fwd := itemsBytes pre₁ ++ (scanL {} [] [] (d₁ ++ [t₁])).fwd, rest := t₁ :: ([] ++ d₂ ++ t₂ :: post₂) },
     { scanL {} [] [] ((t₁ :: d₂) ++ [t₂]) with
        fwd := itemsBytes [] ++ (scanL {} [] [] ((t₁ :: d₂) ++ [t₂])).fwd, rest := t₂ :: post₂ }] :=
  Blocks.cons pre₁ d₁ _ t₁ _ nostart_x (by decide) (by decide)
    (Blocks.cons [] (t₁ :: d₂) post₂ t₂ [] (by simp) (by decide) (by decide) (Blocks.nil _))

example : ((scanAll 2 (pre₁ ++ d₁ ++ t₁ :: ([] ++ d₂ ++ t₂ :: post₂))).map (·.2)).map (·.s.gs.map (·.id)) =
    [[1], [2]] := by
  rw [show (2 : Nat) = [_, _].length from rfl, resume_blocks _ _ two_blocks]
  decide

/-- locality on the first dump: hypotheses hold -/
example : (scanL {} [] [] (d₁ ++ [t₁])).rest = [t₁] ∧ (scanL {} [] [] (d₁ ++ [t₁])).err = none := by decide

/-- `dump_delimited` and `munch_scanL` apply to the first dump: its lines are canonical, of a
kind sequence that is a `Dump`, and `next` cannot continue it -/
private def ds₁ : List Bytes := [b!"goroutine 1 [running]:\n", b!"main.f()\n", b!"\t/a.go:1\n", b!"\n"]

example : CanonB {} (ds₁ ++ [b!"next\n"]) ([.header, .func, .file, .blank] ++ [.other]) :=
  canonBCheck_sound (by decide)

example : Dump [.header, .func, .file, .blank] ∧
    (scanL {} [] [] ((ds₁ ++ [b!"next\n"]).map (fun d => (d, none)))).consumed = ds₁ ∧
    (scanL {} [] [] ((ds₁ ++ [b!"next\n"]).map (fun d => (d, none)))).rest = [(b!"next\n", none)] := by
  obtain ⟨h, h1, _, h2, _⟩ := dump_delimited (q := .gap) (ds := ds₁) (t := b!"next\n")
    (dks := [.header, .func, .file, .blank]) (kt := .other) (by decide) (by decide) (by decide) (by decide)
    (by decide) (canonBCheck_sound (by decide))
  exact ⟨h, by simpa using h1, by simpa using h2⟩

/-- a complete race report between text: the report ends in `done` by its closing separator,
and what follows is handed back (`scanL_done_append`) -/
private def race : Bytes :=
  b!"==================\nWARNING: DATA RACE\nRead at 0x00c000012345 by goroutine 7:\n  main.f()\n      /a.go:1 +0x1\n\nPrevious write at 0x00c000012345 by goroutine 6:\n  main.g()\n      /a.go:2 +0x2\n\nGoroutine 7 (running) created at:\n  main.h()\n      /a.go:3 +0x3\n\nGoroutine 6 (finished) created at:\n  main.h()\n      /a.go:4 +0x4\n==================\nafter\n"

set_option maxRecDepth 20000 in
example : (fun o : OutL => (o.s.st, o.s.gs.map (·.id), o.consumed.length, o.err, o.broke, itemsBytes o.rest))
      (scanL {} [] [] (specLines race .eof)) =
    (.done, [7, 6], 18, none, false, b!"after\n") := by decide

/-- its lines are canonical (every goroutine header names a declared goroutine), of a kind
sequence that is a `Race` -/
private def raceLines : List Bytes :=
  [b!"==================\n", b!"WARNING: DATA RACE\n", b!"Read at 0x00c000012345 by goroutine 7:\n",
   b!"  main.f()\n", b!"      /a.go:1 +0x1\n", b!"\n", b!"Previous write at 0x00c000012345 by goroutine 6:\n",
   b!"  main.g()\n", b!"      /a.go:2 +0x2\n", b!"\n", b!"Goroutine 7 (running) created at:\n", b!"  main.h()\n",
   b!"      /a.go:3 +0x3\n", b!"\n", b!"Goroutine 6 (finished) created at:\n", b!"  main.h()\n",
   b!"      /a.go:4 +0x4\n", b!"==================\n"]
private def raceKinds : List Kind :=
  [.sep, .warn, .raceOp, .func, .file, .blank, .racePrev, .func, .file, .blank, .raceGor, .func, .file,
   .blank, .raceGor, .func, .file, .sep]

set_option maxRecDepth 20000 in
example : CanonB {} raceLines raceKinds := canonBCheck_sound (by decide)
set_option maxRecDepth 20000 in
example : Kinds (raceLines.map (classify [])) raceKinds ∧ IdsOK [] (raceLines.map (classify [])) :=
  ⟨kindsB_sound (by decide), idsOKB_sound (by decide)⟩
example : Race raceKinds := (dfa_race_iff _).2 (by decide)
example : Spec.munch .start (raceKinds ++ [.other]) = (18, .fin) := by decide

/-- real lines are canonical for their kind -/
example : (classify [] b!"goroutine 1 [running]:\n").isKind .header := by decide
example : (classify [] b!"main.f(0x1, 0x2)\n").isKind .func := by decide
example : (classify [] b!"  main.f()\n").isKind .func := by decide
example : (classify [] b!"\t/a/b.go:12 +0x1\n").isKind .file := by decide
example : (classify [] b!"      /a/b.go:12 +0x1\n").isKind .file := by decide
example : (classify [] b!"created by main.g in goroutine 5\n").isKind .created := by decide
example : (classify [] b!"created by main.g\n").isKind .created := by decide
example : (classify [] b!"\n").isKind .blank := by decide
example : (classify [] b!"...additional frames elided...\n").isKind .elided := by decide
example : (classify [] b!"\tgoroutine running on other thread; stack unavailable\n").isKind .unavail := by decide
example : (classify [] b!"==================\n").isKind .sep := by decide
example : (classify [] b!"WARNING: DATA RACE\n").isKind .warn := by decide
example : (classify [] b!"Read at 0x00c000012345 by goroutine 7:\n").isKind .raceOp := by decide
example : (classify [] b!"Previous write at 0x00c000012345 by goroutine 6:\n").isKind .racePrev := by decide
example : (classify [] b!"Goroutine 7 (running) created at:\n").isKind .raceGor := by decide
example : (classify [] b!"exit status 2\n").isKind .other := by decide
/-- not canonical: `created by x()` fires two classifiers; no end of line -/
example : ∀ k, ¬ (classify [] b!"created by main.g()\n").isKind k := by intro k; cases k <;> decide
example : ∀ k, ¬ (classify [] b!"main.f()").isKind k := by intro k; cases k <;> decide

/-- sentences of the grammar, and the automaton on them -/
example : Dump [.header, .func, .file, .elided, .func, .file, .created, .file, .blank, .header, .unavail, .blank] :=
  (dfa_dump_iff _).2 ⟨.gap, by decide, by decide⟩
example : Race [.sep, .warn, .raceOp, .func, .file, .blank, .racePrev, .func, .file, .blank, .raceGor,
    .func, .file, .blank, .raceGor, .func, .file, .sep] := (dfa_race_iff _).2 (by decide)
example : ¬ Dump [.header, .func] := fun h => by
  obtain ⟨q, h1, h2⟩ := (dfa_dump_iff _).1 h
  simp [run, step] at h1
  subst h1
  simp [acceptingDump] at h2
example : Spec.munch .start [.header, .func, .file, .blank, .other, .header] = (4, .gap) := by decide

/-- `scan_on_canonical`, both directions of `Outcome`, on the initial state -/
example : scan {} (classify [] b!"goroutine 1 [running]:\n") =
    .ok ({ st := .gotRoutineHeader, gs := [mkGoroutine ⟨[], 1, b!"running", 0, false⟩ true] }, true, none) := by
  rfl
example : scan { st := .betweenRoutine } (classify [] b!"exit status 2\n") =
    .ok ({ st := .done }, false, none) := by rfl
/-- K-C07-1 on concrete lines -/
example : (scanL {} [] [] (specLines
    b!"goroutine 1 [running]:\n\tgoroutine running on other thread; stack unavailable\nexit status 2\n" .eof)).err =
    some (.parse .emptyAfterUnavail) := by decide

end NonVacuity

end PP

#print axioms PP.scanL_prefix_nostart
#print axioms PP.scanL_stopped_append
#print axioms PP.scanL_continue_append
#print axioms PP.scanL_broke_append
#print axioms PP.scanL_done_append
#print axioms PP.locality
#print axioms PP.locality_fields
#print axioms PP.locality_goroutines
#print axioms PP.specLines_suffix
#print axioms PP.rest_is_suffix
#print axioms PP.resume_bytes
#print axioms PP.resume_chain
#print axioms PP.resume_tiles
#print axioms PP.resume_tiles_stream
#print axioms PP.resume_progress
#print axioms PP.resume_no_panic
#print axioms PP.resume_terminates
#print axioms PP.resume_terminates_stream
#print axioms PP.resume_blocks
#print axioms PP.resume_step
#print axioms PP.isKind_iff_canon
#print axioms PP.dfa_dump_iff
#print axioms PP.dfa_race_iff
#print axioms PP.dfa_iff
#print axioms PP.munch_spec
#print axioms PP.scan_on_canonical
#print axioms PP.scan_on_canonical'
#print axioms PP.outcome_iff
#print axioms PP.unavail_needs_blank
#print axioms PP.munch
#print axioms PP.munch_dump
#print axioms PP.munch_init
#print axioms PP.munch_scanL
#print axioms PP.dump_delimited
