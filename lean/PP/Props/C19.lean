import PP.Lemmas.AugmentLemmas
/-
C19  Source-based argument augmentation is truthful and harmless.

Model: `PP.Aug.augmentCall` (PP/Model/Augment.lean) — `augmentCall` of
stack/source.go given the result of `extractArgumentsType`.  Spec:
`PP.Spec.encode` / `showTV` (PP/Spec/Encode.lean).

Trusted, not modelled: go/parser and the AST walk (`getFuncAST`,
`extractArgumentsType`: their result is an input), `strconv.FormatFloat`
(parameter `ff`), and that `encode` is what the Go runtime prints under
`-gcflags '-N -l'` within its print limits (≤ 10 words per call, depth < 5) —
the harness checks the last two end to end.

At the level of the model `values_unchanged` is true by construction:
`augmentCall` returns only the strings appended to `Processed`; it has no way
to return different `Values`.  (The harness checks it on the implementation.)
-/
namespace PP.Spec
open PP PP.Bytes PP.Aug

/-- **Truthfulness.**  For every list of typed values within the range of
their types, augmenting the words the runtime prints for them, with the type
names of the parameters, yields exactly the rendering of the VALUES: signed
or unsigned decimal, true/false, the float denoted by the bit pattern,
`string(0x…, len=n)`, `[]T(0x… len=l cap=c)`, `*T(0x…)`, `map[K]V(0x…)`,
`chan T(0x…)`, `func(0x…)`.  Holds whatever the ellipsis flag, the `Elided`
flag and the previous `Processed` are.  (`encode` is the runtime's output only
within its print limit `(vs.map TV.words).sum ≤ 10`; the statement does not
need the limit.)

The loop index counts types while `call.Args.Values[i]` is indexed by
top-level argument; here each typed value is one type and one top-level
argument (strings and slices are one aggregate), so both stay aligned, and
the `string` / `[]T` cases pop their 2 / 3 scalars from the flattened walk of
that aggregate. -/
theorem decode_encode (ff : FloatFmt) (vs : List TV) (h : ∀ tv ∈ vs, tv.InRange)
    (ellipsis : Bool) (args : Args) (hv : args.values = encode vs) :
    augmentCall ff (vs.map typeName) ellipsis args = .ok (vs.map (showTV ff)) := by
  unfold augmentCall
  rw [hv]
  exact augmentLoop_encode ff _ ellipsis vs h _ (by simp [encode]; omega) _

/-- the key arithmetic fact: reading a two's complement word back as `intN` -/
theorem twos_round_trip (sz : Sz) (v : Int)
    (h1 : -(2 ^ (sz.bits - 1) : Int) ≤ v) (h2 : v < (2 ^ (sz.bits - 1) : Int)) :
    toSigned sz.bits (twos sz.bits v) = v := toSigned_twos sz v h1 h2

/-- **Harmless on any mismatch (totality).**  For EVERY type list, ellipsis
flag and argument list, the loop terminates (the fuel of the model never runs
out) and the only failure is Go's `types[len(types)-1]` with an empty type
list and the ellipsis flag set — a combination `extractArgumentsType` cannot
produce (the flag comes from the last field, and every field contributes at
least one type); the harness checks that on every parsed function. -/
theorem mismatch_harmless (ff : FloatFmt) (types : List Bytes) (ellipsis : Bool) (args : Args) :
    (∃ processed, augmentCall ff types ellipsis args = .ok processed) ∨
    (augmentCall ff types ellipsis args = .error .index ∧ types = [] ∧ ellipsis = true) := by
  have h := augmentLoop_good ff types.getLast? ellipsis ((flatL args.values).length + args.values.length + 1)
    types args.values (flatL args.values) (by omega)
  unfold augmentCall
  simp only
  cases hr : augmentLoop ff types.getLast? ellipsis ((flatL args.values).length + args.values.length + 1)
    types args.values (flatL args.values) with
  | ok r => exact .inl ⟨r, rfl⟩
  | error e =>
    rw [hr] at h
    cases e with
    | fuel => exact h.elim
    | index =>
      refine .inr ⟨rfl, ?_, h.2⟩
      have := h.1
      cases types with
      | nil => rfl
      | cons a t => simp [List.getLast?_cons] at this

/-- with a type list that `extractArgumentsType` can produce, augmentation
always returns -/
theorem augmentCall_total (ff : FloatFmt) (types : List Bytes) (ellipsis : Bool) (args : Args)
    (h : types ≠ [] ∨ ellipsis = false) :
    ∃ processed, augmentCall ff types ellipsis args = .ok processed := by
  rcases mismatch_harmless ff types ellipsis args with hok | ⟨_, ht, he⟩
  · exact hok
  · rcases h with h | h
    · exact (h ht).elim
    · simp [he] at h

/-- `Processed` is never longer than the flattened scalars plus the top-level
arguments: every iteration consumes a scalar or is the aggregate case of a
top-level argument (which, for an empty aggregate `{}`, consumes nothing). -/
theorem processed_length_le (ff : FloatFmt) (types : List Bytes) (ellipsis : Bool) (args : Args)
    (processed : List Bytes) (h : augmentCall ff types ellipsis args = .ok processed) :
    processed.length ≤ (flatL args.values).length + args.values.length := by
  have hg := augmentLoop_good ff types.getLast? ellipsis ((flatL args.values).length + args.values.length + 1)
    types args.values (flatL args.values) (by omega)
  unfold augmentCall at h
  simp only at h
  rw [h] at hg
  exact hg

/-- when no top-level argument is an empty aggregate `{}`, every `Processed`
entry consumes at least one scalar: `Processed` is no longer than the
flattened scalars. -/
theorem processed_length_le_scalars (ff : FloatFmt) (types : List Bytes) (ellipsis : Bool) (args : Args)
    (hne : ∀ a ∈ args.values, flat1 a ≠ [])
    (processed : List Bytes) (h : augmentCall ff types ellipsis args = .ok processed) :
    processed.length ≤ (flatL args.values).length :=
  augmentLoop_length_le_flat ff _ ellipsis _ types args.values _ hne processed h

/-- every helper moves the cursor over the flattened scalars forward by one
(`tail`), and one iteration leaves a suffix of what it was given: a scalar is
consumed at most once and never revisited. -/
theorem cursor_linear (ff : FloatFmt) (t : Bytes) (vals : List Arg) (flat : List Flat) :
    (pop flat).2 = flat.tail ∧ (popName flat).2 = flat.tail ∧ (∀ f, (popFmt f flat).2 = flat.tail) ∧
    ∃ k, (render ff t vals flat).2 = flat.drop k := by
  refine ⟨pop_tail _, popName_tail _, fun f => popFmt_tail f _, ?_⟩
  rw [render_snd]
  generalize classify t = k
  have h1 : flat.tail = flat.drop 1 := by simp
  have h2 : flat.tail.tail = flat.drop 2 := by cases flat with | nil => rfl | cons a t => cases t <;> simp
  have h3 : flat.tail.tail.tail = flat.drop 3 := by
    rw [h2]; simp
  cases k <;> first
    | exact ⟨1, h1⟩
    | exact ⟨2, h2⟩
    | exact ⟨3, h3⟩
    | (cases vals with
       | nil => exact ⟨2, h2⟩
       | cons v vs => cases v with
         | scalar => exact ⟨2, h2⟩
         | agg fs e => exact ⟨_, rfl⟩)

/-- **Quirk.**  For `uint8` (and `uint16`, `uint32`, `byte`) the code prints
`strconv.FormatUint(v, 10)` of the whole printed word, without truncating it
to the size of the type.  Harmless on real tracebacks because the runtime
prints the word masked to the size (`decode_encode`), but a constructed
`Arg{Value: 0x1ff}` typed `uint8` renders as 511. -/
theorem uint8_untruncated (ff : FloatFmt) (v : Nat) (vals : List Arg) (rest : List Flat) :
    render ff b!"uint8" vals (⟨[], v, false⟩ :: rest) = (natToDec v, rest) := by
  have hc : classify b!"uint8" = .uint := by decide
  simp only [render, hc, popFmt_word, formatUint]

/-! ### non-vacuity -/

section examples
variable (ff : FloatFmt)

/-- the words of the real traceback
`main.f(0xc0000606e0, 0xfffffffffffffff9, 0xc000118070, 0xfd, 0x47fe00, 0x63, 0xff, 0x78, {0x479586, 0x5}, ...)` -/
example : encode mixedPrinted =
    [word 0xc0000606e0, word 0xfffffffffffffff9, word 0xc000118070, word 0xfd, word 0x47fe00, word 0x63,
     word 0xff, word 0x78, .agg [word 0x479586, word 5] false] := by rfl

example : augmentCall ff mixedTypes false { values := encode mixedPrinted, elided := true } =
    .ok [b!"map[int]int(0xc0000606e0)", b!"-7", b!"chan int(0xc000118070)", b!"-3", b!"func(0x47fe00)", b!"99",
         b!"255", b!"120", b!"string(0x479586, len=5)"] := by rfl

example : ∀ tv ∈ mixedPrinted, tv.InRange := by
  simp [mixedPrinted, TV.InRange, Sz.bits]

/-- all kinds at once through the theorem, floats included -/
example : augmentCall ff (allKinds.map typeName) false { values := encode allKinds } =
    .ok (allKinds.map (showTV ff)) :=
  decode_encode ff allKinds (by simp [allKinds, TV.InRange, Sz.bits]) false _ rfl

example : (allKinds.map (showTV ff)).take 7 =
    [b!"true", b!"false", b!"-128", b!"-300", b!"-5", b!"-9223372036854775808", b!"200"] := by rfl

example : showTV ff (.slice b!"int" 0xc0000606b8 3 3) = b!"[]int(0xc0000606b8 len=3 cap=3)" := by rfl

/-- masked words read back signed -/
example : render ff b!"int8" [] [⟨[], 0xfd, false⟩] = (b!"-3", []) := by rfl
example : render ff b!"int32" [] [⟨[], 0xfffffffb, false⟩] = (b!"-5", []) := by rfl
/-- the quirk is visible on a constructed value -/
example : render ff b!"uint8" [] [⟨[], 0x1ff, false⟩] = (b!"511", []) := by rfl

/-- mismatches: more arguments than types, fewer arguments than types,
exhausted scalars, too-large offsets, named pointers -/
example : augmentCall ff [b!"int"] false { values := [word 1, word 2, word 3] } =
    .ok [b!"1", b!"0x2", b!"0x3"] := by rfl
example : augmentCall ff [b!"int"] true { values := [word 1, word 2, word 3] } =
    .ok [b!"1", b!"2", b!"3"] := by rfl
example : augmentCall ff [b!"string", b!"int"] false { values := [word 1] } =
    .ok [b!"string(0x1, len=<nil>)"] := by rfl
example : augmentCall ff [b!"int", b!"*T"] false
    { values := [.scalar [] 0 false true false, .scalar b!"#1" 0xc000010000 true false false] } =
    .ok [b!"_", b!"*T(#1)"] := by rfl
/-- interface / struct: the aggregate at the same top-level index, or one
extra word -/
example : augmentCall ff [b!"error", b!"T"] false
    { values := [.agg [word 1, word 2] false, .agg [word 3, .agg [word 4] true] true] } =
    .ok [b!"error{0x1, 0x2}", b!"T{0x3, 0x4, ...}"] := by rfl
example : augmentCall ff [b!"error", b!"int"] false { values := [word 1, word 2, word 3] } =
    .ok [b!"error(0x1)", b!"3"] := by rfl
/-- the length bound of `processed_length_le` is reached: an empty aggregate
yields an entry without consuming a scalar -/
example : augmentCall ff [b!"T"] false { values := [.agg [] false, word 1] } =
    .ok [b!"T{}", b!"0x1"] := by rfl
/-- the only failure -/
example : augmentCall ff [] true { values := [word 1] } = .error .index := by rfl

end examples

end PP.Spec

#print axioms PP.Spec.decode_encode
#print axioms PP.Spec.twos_round_trip
#print axioms PP.Spec.mismatch_harmless
#print axioms PP.Spec.augmentCall_total
#print axioms PP.Spec.processed_length_le
#print axioms PP.Spec.processed_length_le_scalars
#print axioms PP.Spec.cursor_linear
#print axioms PP.Spec.uint8_untruncated
