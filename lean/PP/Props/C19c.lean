import PP.Lemmas.TypeNamesLemmas
import PP.Spec.TypeAst
import PP.Props.C19
/-
C19c  The type names `augmentCall` switches on are the ones
`extractArgumentsType` computes from the declaration.

Model: `PP.TN.name`, `fieldToType`, `extractArgumentsType`
(PP/Model/TypeNames.lean) — stack/source.go:159-250 over a datatype of go/ast
node kinds.  Spec: `PP.Spec.astOf` / `declOf` (PP/Spec/TypeAst.lean),
`PP.Spec.typeName` (PP/Spec/Encode.lean).  With these theorems the hypothesis
of C19 "the type list is `vs.map typeName`" is discharged for every
declaration whose used fields spell the types of `vs`.

Trusted, not modelled: go/parser (which tree a source text yields) and
`getFuncAST` (which declaration is picked for a line); the harness converts
the real `*ast.FuncDecl` and compares (stream e of C19).
-/
namespace PP.Spec
open PP PP.Bytes PP.Aug PP.TN

/-! ### the loop in closed form -/

/-- **Closed form.**  The type names are, for every used field in order, the
field's type name repeated once per name (once for an unnamed field); the
flag is the one of the LAST used field (`false` without any field). -/
theorem extract_eq (d : GoFuncDecl) :
    extractArgumentsType d =
      ((usedFields d).flatMap (fun f => List.replicate (max 1 f.names) (fieldToType f).1),
       match (usedFields d).getLast? with
       | some f => isEllipsis f.typ
       | none => false) := by
  unfold extractArgumentsType
  have hm : (fun f : GoField => List.replicate (mult f) (fieldToType f).1) =
      fun f => List.replicate (max 1 f.names) (fieldToType f).1 := by
    funext f; rw [mult_eq_max]
  rw [recvFields_append, extractLoop_eq, lastFlag_getLast?, hm, List.nil_append]
  rfl

/-- the receiver is used iff it is the only receiver field and, parentheses
stripped, a pointer -/
theorem usedFields_unparen_pointer_receiver (f : GoField) (x : GoExpr) (ps : List GoField)
    (h : unparen f.typ = .star x) : usedFields ⟨some [f], ps⟩ = f :: ps := by
  simp [usedFields, h]

theorem usedFields_pointer_receiver (f : GoField) (x : GoExpr) (ps : List GoField) (h : f.typ = .star x) :
    usedFields ⟨some [f], ps⟩ = f :: ps :=
  usedFields_unparen_pointer_receiver f x ps (by rw [h]; rfl)

theorem usedFields_value_receiver (f : GoField) (ps : List GoField) (h : ∀ x, unparen f.typ ≠ .star x) :
    usedFields ⟨some [f], ps⟩ = ps := by
  obtain ⟨n, t⟩ := f
  have h' : ∀ x, unparen t ≠ .star x := h
  -- the catch-all equation of the match asks for exactly `h'`, found in the context
  simp only [usedFields]

theorem usedFields_no_receiver (ps : List GoField) : usedFields ⟨none, ps⟩ = ps := rfl

theorem usedFields_receiver_not_single (l : List GoField) (ps : List GoField) (h : l.length ≠ 1) :
    usedFields ⟨some l, ps⟩ = ps := by
  cases l with
  | nil => rfl
  | cons a t =>
    cases t with
    | nil => simp at h
    | cons b t => rfl

/-- the number of type names: every used field counts once per name, an
unnamed field once -/
theorem extract_length (d : GoFuncDecl) :
    (extractArgumentsType d).1.length = ((usedFields d).map (fun f => max 1 f.names)).sum := by
  rw [extract_eq]
  simp [List.length_flatMap]

/-! ### receivers -/

/-- a value receiver `(t T)` (also `(t (T))`) is skipped: the code assumes the
runtime does not print it -/
theorem value_receiver_skipped (f : GoField) (ps : List GoField) (h : ∀ x, unparen f.typ ≠ .star x) :
    extractArgumentsType ⟨some [f], ps⟩ = extractArgumentsType ⟨none, ps⟩ := by
  rw [extract_eq, extract_eq, usedFields_value_receiver f ps h, usedFields_no_receiver]

/-- a pointer receiver `(t *X)` comes first, as `*` followed by the name of
`X`; the flag is the one of the parameters -/
theorem pointer_receiver_first (n : Nat) (x : GoExpr) (ps : List GoField) :
    extractArgumentsType ⟨some [⟨n, .star x⟩], ps⟩ =
      (List.replicate (max 1 n) (b!"*" ++ name x) ++ (extractArgumentsType ⟨none, ps⟩).1,
       (extractArgumentsType ⟨none, ps⟩).2) := by
  rw [extract_eq, extract_eq, usedFields_pointer_receiver ⟨n, .star x⟩ x ps rfl, usedFields_no_receiver]
  cases ps with
  | nil => simp [fieldToType, isEllipsis, unparen]
  | cons p t => simp [fieldToType, List.getLast?_cons_cons, unparen]

/-- parentheses around the receiver type do not matter: `(t (T))` is `(t T)`,
`(t ((*T)))` is `(t *T)` -/
theorem paren_receiver (n : Nat) (e : GoExpr) (ps : List GoField) :
    extractArgumentsType ⟨some [⟨n, .paren e⟩], ps⟩ = extractArgumentsType ⟨some [⟨n, e⟩], ps⟩ := by
  rw [extract_eq, extract_eq]
  simp only [usedFields, unparen_paren]
  generalize hu : unparen e = u
  cases u <;> first
    | rfl
    | (cases ps with
       | nil => simp [fieldToType, isEllipsis, unparen_paren]
       | cons p t => simp [fieldToType, List.getLast?_cons_cons, unparen_paren])

/-- **The fixed defect.**  `func (t (*T)) F(…)`: the parenthesised pointer
receiver is used exactly like `(t *T)` -/
theorem paren_receiver_is_pointer_receiver (n : Nat) (x : GoExpr) (ps : List GoField) :
    extractArgumentsType ⟨some [⟨n, .paren (.star x)⟩], ps⟩ =
      (List.replicate (max 1 n) (b!"*" ++ name x) ++ (extractArgumentsType ⟨none, ps⟩).1,
       (extractArgumentsType ⟨none, ps⟩).2) := by
  rw [paren_receiver, pointer_receiver_first]

/-- receiver lists that go/parser accepts but that are not valid Go (`()`,
`(a *T, b *U)`) contribute nothing -/
theorem receiver_not_single_skipped (l ps : List GoField) (h : l.length ≠ 1) :
    extractArgumentsType ⟨some l, ps⟩ = extractArgumentsType ⟨none, ps⟩ := by
  rw [extract_eq, extract_eq, usedFields_receiver_not_single l ps h, usedFields_no_receiver]

/-! ### the ellipsis flag -/

/-- **Quirk.**  `ellipsis` is overwritten by every field: the flag says
whether the LAST used field is variadic, whatever the fields before (go/parser
accepts `func(a ...int, b int)`). -/
theorem ellipsis_is_last_field (d : GoFuncDecl) :
    (extractArgumentsType d).2 =
      match (usedFields d).getLast? with
      | some f => isEllipsis f.typ
      | none => false := by
  rw [extract_eq]

/-- the flag is set only when there is a type name: the combination
`types = []`, `ellipsis = true` on which `augmentCall` would index
`types[-1]` (`mismatch_harmless` of C19) cannot come out of
`extractArgumentsType` -/
theorem flag_needs_type (d : GoFuncDecl) (h : (extractArgumentsType d).2 = true) :
    (extractArgumentsType d).1 ≠ [] := by
  intro hnil
  have hl := extract_length d
  rw [hnil] at hl
  have hge := sum_max_ge_length (usedFields d)
  have h0 : (usedFields d).length = 0 := by simp at hl; omega
  have hu : usedFields d = [] := List.eq_nil_of_length_eq_zero h0
  rw [ellipsis_is_last_field, hu] at h
  simp at h

/-- hence augmentation never panics on a type list computed from a
declaration, whatever the arguments -/
theorem augmentCall_total_decl (ff : FloatFmt) (d : GoFuncDecl) (args : Args) :
    ∃ processed, augmentCall ff (extractArgumentsType d).1 (extractArgumentsType d).2 args = .ok processed := by
  apply augmentCall_total
  cases h : (extractArgumentsType d).2 with
  | false => exact .inr rfl
  | true => exact .inl (flag_needs_type d h)

/-! ### names -/

/-- `a, b T` yields the name of `T` twice, `a, b, c T` three times … -/
theorem grouped_names_repeat (n : Nat) (t : GoExpr) (ps : List GoField) :
    (extractArgumentsType ⟨none, ⟨n + 1, t⟩ :: ps⟩).1 =
      List.replicate (n + 1) (fieldToType ⟨n + 1, t⟩).1 ++ (extractArgumentsType ⟨none, ps⟩).1 := by
  rw [extract_eq, extract_eq, usedFields_no_receiver, usedFields_no_receiver]
  simp only [List.flatMap_cons]
  have : max 1 (n + 1) = n + 1 := by omega
  rw [this]

/-- an unnamed parameter counts once -/
theorem unnamed_counts_once (t : GoExpr) (ps : List GoField) :
    (extractArgumentsType ⟨none, ⟨0, t⟩ :: ps⟩).1 =
      (fieldToType ⟨0, t⟩).1 :: (extractArgumentsType ⟨none, ps⟩).1 := by
  rw [extract_eq, extract_eq, usedFields_no_receiver, usedFields_no_receiver]
  simp [List.flatMap_cons]

theorem name_star (x : GoExpr) : name (.star x) = b!"*" ++ name x := rfl

/-- `name` sees through parentheses: `(int)` is `int`, `*(T)` is `*T` -/
theorem name_paren (x : GoExpr) : name (.paren x) = name x := rfl

/-- a parenthesised parameter type is the type: `a (int16)` is `a int16` -/
theorem fieldToType_paren (n : Nat) (e : GoExpr) : fieldToType ⟨n, .paren e⟩ = fieldToType ⟨n, e⟩ := rfl

/-- a qualified name loses its package: `pkg.T` is `T` -/
theorem name_selector (x : GoExpr) (sel : Bytes) : name (.selector x sel) = sel := rfl

/-- the type name of a slice / pointer / map / channel parameter is the C19
type name built from the `name` of the element expressions, whatever these
expressions are (`[]*T` is `[]` ++ `*T`, `[]pkg.T` is `[]T`, `map[K][]V` is
`map[K]<unknown>` …) -/
theorem fieldToType_slice (n : Nat) (e : GoExpr) (p l c : Nat) :
    fieldToType ⟨n, .arrayType none e⟩ = (typeName (.slice (name e) p l c), false) := rfl

theorem fieldToType_ptr (n : Nat) (e : GoExpr) (a : Nat) :
    fieldToType ⟨n, .star e⟩ = (typeName (.ptr (name e) a), false) := rfl

theorem fieldToType_map (n : Nat) (k v : GoExpr) (a : Nat) :
    fieldToType ⟨n, .mapType k v⟩ = (typeName (.map (name k) (name v) a), false) := rfl

theorem fieldToType_chan (n : Nat) (e : GoExpr) (a : Nat) :
    fieldToType ⟨n, .chanType e⟩ = (typeName (.chan (name e) a), false) := rfl

/-- variadic `...T`: the name of `T`, flag set -/
theorem fieldToType_variadic (n : Nat) (e : GoExpr) :
    fieldToType ⟨n, .ellipsis (some e)⟩ = (name e, true) := rfl

/-! ### the link with C19 -/

/-- **`typeName` is what the code computes.**  For a parameter whose type is
the one of the typed value, written with any number of names. -/
theorem fieldToType_astOf (tv : TV) (n : Nat) : fieldToType ⟨n, astOf tv⟩ = (typeName tv, false) := by
  cases tv <;> rfl

theorem extract_declOf (vs : List TV) : extractArgumentsType (declOf vs) = (vs.map typeName, false) := by
  rw [extract_eq]
  show ((vs.map fun tv => (⟨1, astOf tv⟩ : GoField)).flatMap _, _) = _
  congr 1
  · induction vs with
    | nil => rfl
    | cons a t ih => simp [List.flatMap_cons, fieldToType_astOf, ih]
  · show (match (vs.map fun tv => (⟨1, astOf tv⟩ : GoField)).getLast? with
        | some f => isEllipsis f.typ
        | none => false) = false
    rw [List.getLast?_map]
    cases vs.getLast? with
    | none => rfl
    | some tv =>
      have := fieldToType_astOf tv 1
      rw [Prod.ext_iff, fieldToType_snd] at this
      exact this.2

/-- the type names of any declaration whose used fields, each repeated once
per name, spell the types of `vs` -/
theorem extract_of_paramExprs (d : GoFuncDecl) (vs : List TV)
    (hd : paramExprs (usedFields d) = vs.map astOf) :
    (extractArgumentsType d).1 = vs.map typeName := by
  have h1 : ∀ fs : List GoField,
      fs.flatMap (fun f => List.replicate (max 1 f.names) (fieldToType f).1) =
        (paramExprs fs).map (fun t => (fieldToType ⟨1, t⟩).1) := by
    intro fs
    induction fs with
    | nil => rfl
    | cons a t ih =>
      simp only [paramExprs, List.flatMap_cons, List.map_append, List.map_replicate] at ih ⊢
      rw [ih, mult_eq_max]
      rfl
  rw [extract_eq]
  show (usedFields d).flatMap _ = _
  rw [h1, hd, List.map_map]
  apply List.map_congr_left
  intro tv _
  show (fieldToType ⟨1, astOf tv⟩).1 = typeName tv
  rw [fieldToType_astOf]

/-- **Truthfulness from the declaration (general form).**  `d` is any
declaration — method with a pointer receiver, grouped or unnamed parameters —
whose used fields, each repeated once per name, are the syntax trees of the
types of `vs`.  Augmenting the words the runtime prints for `vs` with what
`extractArgumentsType` computes from `d` renders the VALUES. -/
theorem decode_encode_decl (ff : FloatFmt) (d : GoFuncDecl) (vs : List TV) (h : ∀ tv ∈ vs, tv.InRange)
    (hd : paramExprs (usedFields d) = vs.map astOf) (args : Args) (hv : args.values = encode vs) :
    augmentCall ff (extractArgumentsType d).1 (extractArgumentsType d).2 args = .ok (vs.map (showTV ff)) := by
  rw [extract_of_paramExprs d vs hd]
  exact decode_encode ff vs h _ args hv

/-- **Truthfulness from the declaration.**  `decode_encode` of C19 with the
type list computed, not assumed: for the declaration `func f(p0 T0, p1 T1, …)`
of typed values within range, augmenting the words the runtime prints for
them yields the rendering of the values. -/
theorem decode_encode_ast (ff : FloatFmt) (vs : List TV) (h : ∀ tv ∈ vs, tv.InRange)
    (args : Args) (hv : args.values = encode vs) :
    augmentCall ff (extractArgumentsType (declOf vs)).1 (extractArgumentsType (declOf vs)).2 args =
      .ok (vs.map (showTV ff)) := by
  rw [extract_declOf]
  exact decode_encode ff vs h false args hv

/-! ### non-vacuity -/

section examples
variable (ff : FloatFmt)

/-- method with pointer receiver, grouped names, `_`, nested star under a
slice with a qualified name, nested slice under a map, directed channel,
array, variadic interface -/
example : extractArgumentsType mixedDecl =
    ([b!"*T", b!"int", b!"int", b!"string", b!"[]*E", b!"map[string]<unknown>", b!"chan int", b!"[4]int",
      b!"interface{}"], true) := by decide

example : usedFields mixedDecl = ⟨1, .star (.ident b!"T")⟩ :: mixedDecl.params := rfl
example : (extractArgumentsType mixedDecl).1.length = 9 := by decide

/-- value receiver skipped, unnamed parameters count once, `...int` is `int`
with the flag -/
example : extractArgumentsType valueRecvDecl = ([b!"int", b!"int"], true) := by decide

/-- generic receiver and parameter, parenthesised type, struct, `[...]int`,
func, `any` -/
example : extractArgumentsType oddDecl =
    ([b!"*<unknown>", b!"<unknown>", b!"int", b!"<unknown>", b!"[...]int", b!"func", b!"any"], false) := by
  decide

/-- `...` without element (not produced by go/parser for parameters, but the
code path exists): `name(nil)` -/
example : fieldToType ⟨1, .ellipsis none⟩ = (b!"<unknown>", true) := by decide

/-- the flag is the one of the last field only: `func(a ...int, b int)` -/
example : extractArgumentsType ⟨none, [⟨1, .ellipsis (some (.ident b!"int"))⟩, ⟨1, .ident b!"int"⟩]⟩ =
    ([b!"int", b!"int"], false) := by decide

/-- `(a, b *T)`: one receiver field with two names is used twice -/
example : extractArgumentsType ⟨some [⟨2, .star (.ident b!"T")⟩], []⟩ = ([b!"*T", b!"*T"], false) := by decide
/-- `()` and `(a *T, b *U)` -/
example : extractArgumentsType ⟨some [], [⟨1, .ident b!"int"⟩]⟩ = ([b!"int"], false) := by decide
example : extractArgumentsType ⟨some [⟨1, .star (.ident b!"T")⟩, ⟨1, .star (.ident b!"U")⟩], []⟩ = ([], false) := by
  decide

/-- **Fixed defect.**  `func (t (*T)) F(a int8)`: the compiler accepts a
parenthesised receiver type (gofmt removes the parentheses) and the runtime
prints the receiver word.  Before commit 5a78232 the node, a `*ast.ParenExpr`,
failed the `*ast.StarExpr` test: the receiver was skipped and every value was
decoded with its neighbour's type.  `unparen` now sees through it. -/
example : extractArgumentsType ⟨some [⟨1, .paren (.star (.ident b!"T"))⟩], [⟨1, .ident b!"int8"⟩]⟩ =
    ([b!"*T", b!"int8"], false) := by decide

/-- parentheses anywhere: receiver `(t (*T))`, `(int8)`, `((*[]int))`,
`[]((pkg.E))`, `(string)` -/
example : extractArgumentsType parenDecl =
    ([b!"*T", b!"int8", b!"*<unknown>", b!"[]E", b!"string"], false) := by decide
example : usedFields parenDecl = ⟨1, .paren (.star (.ident b!"T"))⟩ :: parenDecl.params := rfl
/-- `(t (T))` stays a value receiver, `...(int)` is variadic `int`, `*(T)` is `*T` -/
example : extractArgumentsType ⟨some [⟨1, .paren (.ident b!"T")⟩], [⟨1, .ellipsis (some (.paren (.ident b!"int")))⟩]⟩ =
    ([b!"int"], true) := by decide
example : fieldToType ⟨1, .star (.paren (.ident b!"T"))⟩ = (b!"*T", false) := by decide
example : unparen (.paren (.paren (.star (.paren .other)))) = .star (.paren .other) := rfl

/-- `**int`, `*[]int`, `*pkg.T` -/
example : name (.star (.star (.ident b!"int"))) = b!"**int" := by decide
example : fieldToType ⟨1, .star (.arrayType none (.ident b!"int"))⟩ = (b!"*<unknown>", false) := by decide
example : fieldToType ⟨1, .star (.selector (.ident b!"pkg") b!"T")⟩ = (b!"*T", false) := by decide

/-- every kind of C19 through the declaration -/
example : extractArgumentsType (declOf allKinds) = (allKinds.map typeName, false) := extract_declOf _
example : (extractArgumentsType (declOf allKinds)).1.take 5 = [b!"bool", b!"bool", b!"int8", b!"int16", b!"int32"] := by
  decide

/-- the method `func (t *T) F(a, b int8, s string)` called on the words
`(0xc000010000, 0xfd, 0x7f, {0x479586, 0x5})` -/
example : augmentCall ff
      (extractArgumentsType ⟨some [⟨1, .star (.ident b!"T")⟩], [⟨2, .ident b!"int8"⟩, ⟨1, .ident b!"string"⟩]⟩).1
      (extractArgumentsType ⟨some [⟨1, .star (.ident b!"T")⟩], [⟨2, .ident b!"int8"⟩, ⟨1, .ident b!"string"⟩]⟩).2
      { values := encode [.ptr b!"T" 0xc000010000, .int .s8 (-3), .int .s8 127, .str 0x479586 5] } =
    .ok [b!"*T(0xc000010000)", b!"-3", b!"127", b!"string(0x479586, len=5)"] :=
  decode_encode_decl ff _ [.ptr b!"T" 0xc000010000, .int .s8 (-3), .int .s8 127, .str 0x479586 5]
    (by simp [TV.InRange, Sz.bits]) rfl _ rfl

example : augmentCall ff (extractArgumentsType (declOf allKinds)).1 (extractArgumentsType (declOf allKinds)).2
      { values := encode allKinds } = .ok (allKinds.map (showTV ff)) :=
  decode_encode_ast ff allKinds (by simp [allKinds, TV.InRange, Sz.bits]) _ rfl

end examples

end PP.Spec

#print axioms PP.Spec.extract_eq
#print axioms PP.Spec.usedFields_unparen_pointer_receiver
#print axioms PP.Spec.usedFields_pointer_receiver
#print axioms PP.Spec.usedFields_value_receiver
#print axioms PP.Spec.usedFields_no_receiver
#print axioms PP.Spec.usedFields_receiver_not_single
#print axioms PP.Spec.extract_length
#print axioms PP.Spec.value_receiver_skipped
#print axioms PP.Spec.pointer_receiver_first
#print axioms PP.Spec.paren_receiver
#print axioms PP.Spec.paren_receiver_is_pointer_receiver
#print axioms PP.Spec.receiver_not_single_skipped
#print axioms PP.Spec.ellipsis_is_last_field
#print axioms PP.Spec.flag_needs_type
#print axioms PP.Spec.augmentCall_total_decl
#print axioms PP.Spec.grouped_names_repeat
#print axioms PP.Spec.unnamed_counts_once
#print axioms PP.Spec.name_star
#print axioms PP.Spec.name_paren
#print axioms PP.Spec.fieldToType_paren
#print axioms PP.Spec.name_selector
#print axioms PP.Spec.fieldToType_slice
#print axioms PP.Spec.fieldToType_ptr
#print axioms PP.Spec.fieldToType_map
#print axioms PP.Spec.fieldToType_chan
#print axioms PP.Spec.fieldToType_variadic
#print axioms PP.Spec.fieldToType_astOf
#print axioms PP.Spec.extract_declOf
#print axioms PP.Spec.extract_of_paramExprs
#print axioms PP.Spec.decode_encode_decl
#print axioms PP.Spec.decode_encode_ast
