import PP.Lemmas.AugmentGlueLemmas
import PP.Lemmas.LineOffsetsLemmas
/-
C19 ("harmless" half), the glue around `augmentCall`:
  Source analysis never changes the raw argument values, and sources that do
  not match the binary (missing, unparsable, shifted lines, different arity)
  only leave arguments unaugmented - never a crash or a changed frame.

Model: `PP.AugGlue` (PP/Model/AugmentGlue.lean) — `Snapshot.augment`,
`cacheAST.augmentGoroutine`, `cacheAST.loadFile`, `lineToByteOffsets`,
`parsedFile.getFuncAST`; the decoder `augmentCall` is the one of C19.

Trusted (oracles, quantified over in every theorem): `os.ReadFile`
(`Oracle.readFile`), `parser.ParseFile` and the AST walk of `getFuncAST`
composed with `extractArgumentsType` (`Oracle.parse`, `Parsed.funcAt`),
`strconv.FormatFloat` (`FloatFmt`).  The harness feeds the model with the real
answers of these and compares the outcome on every run.

The general statements are about the loop `augmentGs` from ANY cache and
pending error; the `…_snapshot` corollaries are about `augment` itself, which
starts from the empty cache.
-/
namespace PP.AugGlue
open PP PP.Bytes PP.Aug

/-! ### 1. nothing but `Processed` of the stack calls changes -/

/-- **Never a changed frame.**  For every oracle, cache and list of
goroutines, the goroutines after `augment` differ from the ones before only in
`Args.Processed` of the calls of `Stack.Calls`. -/
theorem augment_values_unchanged (ff : FloatFmt) (o : Oracle) (c : Cache) (err : Option ErrKind)
    (gs : List Goroutine) (r : Cache × List Goroutine × Option ErrKind)
    (h : augmentGs ff o c err gs = .ok r) :
    r.2.1.map eraseProcessed = gs.map eraseProcessed :=
  augmentGs_erase ff o c err gs r h

theorem augment_values_unchanged_snapshot (ff : FloatFmt) (o : Oracle) (gs gs' : List Goroutine)
    (e : Option ErrKind) (h : augment ff o gs = .ok (gs', e)) :
    gs'.map eraseProcessed = gs.map eraseProcessed := by
  unfold augment at h
  cases hr : augmentGs ff o [] none gs with
  | error x => simp [hr] at h
  | ok r =>
    simp only [hr, Except.ok.injEq, Prod.mk.injEq] at h
    rw [← h.1]; exact augmentGs_erase ff o [] none gs r hr

/-- what `eraseProcessed` keeps of a goroutine: everything but the calls of
`Stack.Calls`, which are kept up to `eraseCall` -/
theorem eraseProcessed_keeps (g g' : Goroutine) (h : eraseProcessed g' = eraseProcessed g) :
    g'.id = g.id ∧ g'.first = g.first ∧ g'.raceWrite = g.raceWrite ∧ g'.raceAddr = g.raceAddr ∧
    g'.sig.state = g.sig.state ∧ g'.sig.createdBy = g.sig.createdBy ∧ g'.sig.sleepMin = g.sig.sleepMin ∧
    g'.sig.sleepMax = g.sig.sleepMax ∧ g'.sig.locked = g.sig.locked ∧
    g'.sig.stack.elided = g.sig.stack.elided ∧
    g'.sig.stack.calls.map eraseCall = g.sig.stack.calls.map eraseCall := by
  simp only [eraseProcessed, Goroutine.setCalls] at h
  refine ⟨congrArg (·.id) h, congrArg (·.first) h, congrArg (·.raceWrite) h, congrArg (·.raceAddr) h,
    congrArg (·.sig.state) h, congrArg (·.sig.createdBy) h, congrArg (·.sig.sleepMin) h,
    congrArg (·.sig.sleepMax) h, congrArg (·.sig.locked) h, congrArg (·.sig.stack.elided) h,
    congrArg (·.sig.stack.calls) h⟩

/-- what `eraseCall` keeps of a frame: everything but `Args.Processed` -/
theorem eraseCall_keeps (x x' : Call) (h : eraseCall x' = eraseCall x) :
    x'.fn = x.fn ∧ x'.args.values = x.args.values ∧ x'.args.elided = x.args.elided ∧
    x'.remoteSrcPath = x.remoteSrcPath ∧ x'.line = x.line ∧ x'.srcName = x.srcName ∧ x'.dirSrc = x.dirSrc ∧
    x'.localSrcPath = x.localSrcPath ∧ x'.relSrcPath = x.relSrcPath ∧ x'.importPath = x.importPath ∧
    x'.location = x.location := by
  simp only [eraseCall] at h
  refine ⟨congrArg (·.fn) h, congrArg (·.args.values) h, congrArg (·.args.elided) h,
    congrArg (·.remoteSrcPath) h, congrArg (·.line) h, congrArg (·.srcName) h, congrArg (·.dirSrc) h,
    congrArg (·.localSrcPath) h, congrArg (·.relSrcPath) h, congrArg (·.importPath) h,
    congrArg (·.location) h⟩

/-! ### 2. totality -/

/-- **Never a crash.**  Hypothesis on the parser oracle, stated explicitly:
`funcAt` (= `extractArgumentsType`) never answers "no type, ellipsis"
(`OracleOk`; the harness checks it on every function it parses).  Then, for
every `readFile`, every `parse`, every snapshot and every cache that only
holds such entries, `augment` returns: the only panic of `augmentCall`
(`PP.Spec.mismatch_harmless`) is out of reach, and the glue has none. -/
theorem augment_total (ff : FloatFmt) (o : Oracle) (ho : OracleOk o) (c : Cache) (hc : CacheOk c)
    (err : Option ErrKind) (gs : List Goroutine) :
    ∃ r, augmentGs ff o c err gs = .ok r := by
  obtain ⟨r, hr, _⟩ := augmentGs_total ff o ho c err gs hc
  exact ⟨r, hr⟩

theorem augment_total_snapshot (ff : FloatFmt) (o : Oracle)
    (ho : ∀ src p, o.parse src = some p → ∀ name line, p.funcAt name line ≠ some ([], true))
    (gs : List Goroutine) : ∃ gs' e, augment ff o gs = .ok (gs', e) := by
  obtain ⟨r, hr, _⟩ := augmentGs_total ff o ho [] none gs cacheOk_nil
  exact ⟨r.2.1, r.2.2, by simp only [augment, hr]⟩

/-! ### 3. mismatching sources leave the call as it was -/

/-- the five ways sources can fail to describe a call -/
theorem mismatch_of_missing (o : Oracle) (x : Call) (h : o.readFile x.localSrcPath = none) : Mismatch o x := by
  intro src p _ hr _; rw [h] at hr; cases hr

theorem mismatch_of_nonGo (o : Oracle) (x : Call) (h : hasSuffix x.localSrcPath b!".go" = false) :
    Mismatch o x := by
  intro src p hs _ _; rw [h] at hs; cases hs

theorem mismatch_of_unparsable (o : Oracle) (x : Call) (src : Bytes)
    (hr : o.readFile x.localSrcPath = some src) (hp : o.parse src = none) : Mismatch o x := by
  intro src' p _ hr' hp'
  rw [hr] at hr'; cases hr'
  rw [hp] at hp'; cases hp'

theorem mismatch_of_line_over (o : Oracle) (x : Call) (src : Bytes)
    (hr : o.readFile x.localSrcPath = some src) (hl : (lineToByteOffsets src).length ≤ x.line) :
    Mismatch o x := by
  intro src' p _ hr' _
  rw [hr] at hr'; cases hr'
  exact .inl hl

theorem mismatch_of_no_func (o : Oracle) (x : Call) (src : Bytes) (p : Parsed)
    (hr : o.readFile x.localSrcPath = some src) (hp : o.parse src = some p)
    (hf : p.funcAt x.fn.name x.line = none) : Mismatch o x := by
  intro src' p' _ hr' hp'
  rw [hr] at hr'; cases hr'
  rw [hp] at hp'; cases hp'
  exact .inr hf

/-- **Only unaugmented.**  From any cache that agrees with the oracles
(`CacheSound`; the empty cache does), the goroutines after `augment` match
the ones before position by position, and every call whose sources do not
describe it (`Mismatch`: not a `.go` name, unreadable, unparsable, shorter
than the line, no function around the line) is returned identical — in
particular with the `Processed` it had (empty for scanner output). -/
theorem mismatch_leaves_unaugmented (ff : FloatFmt) (o : Oracle) (c : Cache) (hc : CacheSound o c)
    (err : Option ErrKind) (gs : List Goroutine) (r : Cache × List Goroutine × Option ErrKind)
    (h : augmentGs ff o c err gs = .ok r) :
    Forall2 (fun g g' => Forall2 (fun x x' => Mismatch o x → x' = x) g.sig.stack.calls g'.sig.stack.calls)
      gs r.2.1 :=
  (augmentGs_inv ff o (CacheSound o) (fun x x' => Mismatch o x → x' = x)
    (fun c call s hi hs => augmentStep_mismatch ff o c call s hi hs) c err gs r hc h).2

/-- the same by positions, for `augment` -/
theorem mismatch_leaves_unaugmented_snapshot (ff : FloatFmt) (o : Oracle) (gs gs' : List Goroutine)
    (e : Option ErrKind) (h : augment ff o gs = .ok (gs', e))
    (i j : Nat) (g g' : Goroutine) (x x' : Call)
    (hg : gs[i]? = some g) (hg' : gs'[i]? = some g')
    (hx : g.sig.stack.calls[j]? = some x) (hx' : g'.sig.stack.calls[j]? = some x')
    (hm : Mismatch o x) : x' = x := by
  unfold augment at h
  cases hr : augmentGs ff o [] none gs with
  | error y => simp [hr] at h
  | ok r =>
    simp only [hr, Except.ok.injEq, Prod.mk.injEq] at h
    have hf := mismatch_leaves_unaugmented ff o [] (cacheSound_nil o) none gs r hr
    rw [h.1] at hf
    exact (hf.get i g g' hg hg').get j x x' hx hx' hm

/-- number of goroutines and of frames -/
theorem augment_shape_snapshot (ff : FloatFmt) (o : Oracle) (gs gs' : List Goroutine)
    (e : Option ErrKind) (h : augment ff o gs = .ok (gs', e)) :
    gs'.length = gs.length ∧
    ∀ (i : Nat) (g g' : Goroutine), gs[i]? = some g → gs'[i]? = some g' → g'.sig.stack.calls.length = g.sig.stack.calls.length := by
  unfold augment at h
  cases hr : augmentGs ff o [] none gs with
  | error y => simp [hr] at h
  | ok r =>
    simp only [hr, Except.ok.injEq, Prod.mk.injEq] at h
    have hf := mismatch_leaves_unaugmented ff o [] (cacheSound_nil o) none gs r hr
    rw [h.1] at hf
    exact ⟨hf.length_eq.symm, fun i g g' hg hg' => (hf.get i g g' hg hg').length_eq.symm⟩

/-! ### 4. every file is loaded at most once -/

/-- **Load once.**  `loadFile` on a cache that already has the key — bound to
a parsed file or to the `nil` marker of an attempt — returns the cache
unchanged and no error, whatever the oracles: nothing is read or parsed. -/
theorem load_once (o : Oracle) (c : Cache) (k : Bytes) (h : c.has k = true) :
    loadFile o c k = (c, none) :=
  loadFile_cached o c k h

/-- … and after `loadFile` the key is present, also when loading failed (the
`c.parsed[fileName] = nil` written first) -/
theorem load_once_marks (o : Oracle) (c : Cache) (k : Bytes) (hk : k ≠ []) :
    (loadFile o c k).1.has k = true :=
  loadFile_has o c k hk

/-- a failed load binds the key to the `nil` marker and nothing else -/
theorem load_once_failure_marker (o : Oracle) (c : Cache) (k : Bytes) (e : ErrKind)
    (h : (loadFile o c k).2 = some e) : (loadFile o c k).1 = c.insert k none := by
  rcases loadFile_cases o c k with h1 | ⟨_, _, ⟨e', h1⟩ | ⟨src, p, _, _, _, h1⟩⟩
  · rw [h1] at h; cases h
  · rw [h1]
  · rw [h1] at h; cases h

/-- … a present key stays present to the end of the run … -/
theorem load_once_persistent (ff : FloatFmt) (o : Oracle) (c : Cache) (err : Option ErrKind)
    (gs : List Goroutine) (r : Cache × List Goroutine × Option ErrKind)
    (h : augmentGs ff o c err gs = .ok r) (k : Bytes) (hk : c.has k = true) : r.1.has k = true :=
  (augmentGs_inv ff o (fun c => c.has k = true) (fun _ _ => True)
    (fun c call s hi hs => augmentStep_has_mono ff o k c call s hi hs) c err gs r hk h).1

/-- … and the whole run does not depend on what `readFile` would answer for
the keys already present: two oracles that differ only there give the same
result (goroutines, error, cache, and panic or not). -/
theorem load_once_never_read_again (ff : FloatFmt) (o o' : Oracle) (c : Cache) (err : Option ErrKind)
    (gs : List Goroutine) (hr : ∀ k, c.has k = false → o.readFile k = o'.readFile k)
    (hp : o.parse = o'.parse) :
    augmentGs ff o c err gs = augmentGs ff o' c err gs :=
  augmentGs_congr ff o o' c err gs hr hp

/-! ### 5. calls without arguments -/

/-- **Skipped.**  A call with no argument leaves the cache as it is — no
file is looked up or loaded on its behalf — and is returned as it was, without
touching the pending error. -/
theorem calls_without_args_skipped (ff : FloatFmt) (o : Oracle) (c : Cache) (x : Call)
    (h : x.args.values = []) : augmentStep ff o c x = .ok (c, x, none) :=
  augmentStep_noargs ff o c x h

/-- a goroutine whose calls all have no argument: same cache, same goroutine,
no error, for every oracle -/
theorem calls_without_args_skipped_goroutine (ff : FloatFmt) (o : Oracle) (c : Cache) (g : Goroutine)
    (h : ∀ x ∈ g.sig.stack.calls, x.args.values = []) :
    augmentGoroutine ff o c g = .ok (c, g, none) := by
  simp only [augmentGoroutine, augmentCalls_noargs ff o c none _ h, Goroutine.setCalls]

/-! ### 6. lineToByteOffsets -/

/-- **Line table.**  `[0, 0]` followed by one entry per `'\n'`: the length is
2 + the number of newlines (also when the text does not end with a newline:
the final `break`), and entry `k ≥ 2` is the offset `e` just after the
`(k-1)`-th newline: `src[e-1] = '\n'` and `src[:e]` holds `k-1` newlines. -/
theorem lineToByteOffsets_spec (src : Bytes) :
    (lineToByteOffsets src).length = 2 + src.count 10 ∧
    (lineToByteOffsets src)[0]? = some 0 ∧ (lineToByteOffsets src)[1]? = some 0 ∧
    ∀ k e, 2 ≤ k → (lineToByteOffsets src)[k]? = some e →
      1 ≤ e ∧ e ≤ src.length ∧ src[e - 1]? = some 10 ∧ (src.take e).count 10 = k - 1 := by
  rw [lineToByteOffsets_eq]
  refine ⟨by simp [newlineEnds_length]; omega, rfl, rfl, ?_⟩
  intro k e hk he
  obtain ⟨i, rfl⟩ : ∃ i, k = i + 2 := ⟨k - 2, by omega⟩
  simp only [List.getElem?_cons_succ] at he
  obtain ⟨h1, h2, h3, h4⟩ := newlineEnds_get src 0 i e he
  simp only [Nat.sub_zero, Nat.zero_add] at h1 h2 h3 h4
  exact ⟨by omega, h2, h3, by rw [h4]; omega⟩

/-- the structural description: the offsets after each newline, in order -/
theorem lineToByteOffsets_eq_newlineEnds (src : Bytes) :
    lineToByteOffsets src = 0 :: 0 :: newlineEnds src 0 :=
  lineToByteOffsets_eq src

/-- the check of `getFuncAST`: line `l` is refused iff `l ≥ 2 + #newlines` -/
theorem getFuncAST_line_over (p : Parsed) (src : Bytes) (f : Bytes) (l : Nat) :
    (ParsedFile.getFuncAST ⟨lineToByteOffsets src, p⟩ f l = .error .lineOver) ↔ 2 + src.count 10 ≤ l := by
  unfold ParsedFile.getFuncAST
  simp only [(lineToByteOffsets_spec src).1]
  by_cases h : 2 + src.count 10 ≤ l
  · simp [h]
  · simp [h]

/-! ### non-vacuity -/

section examples
variable (ff : FloatFmt)

example : lineToByteOffsets b!"" = [0, 0] := by decide
example : lineToByteOffsets b!"a" = [0, 0] := by decide
example : lineToByteOffsets b!"a\n" = [0, 0, 2] := by decide
example : lineToByteOffsets b!"a\nbc" = [0, 0, 2] := by decide
example : lineToByteOffsets b!"a\r\nb\n\n" = [0, 0, 3, 5, 6] := by decide

/-- what `augment` does on it: the two calls inside `F` are decoded, all the
others keep their empty `Processed`; the returned error is the last one that
occurred, the refusal of the `.c` file (the second visit of `/s/gone.go` and
the empty name are silent). -/
example : (match augment ff exOracle exGs with
    | .ok (gs', e) => some (gs'.map (fun g => g.sig.stack.calls.map (·.args.processed)), e)
    | .error _ => none) =
    some ([[[b!"-7", b!"string(0xc000012345, len=5)"], [], [], [], []],
           [[], [], [b!"-7", b!"string(0xc000012345, len=5)"], [], []]], some .nonGo) := by
  rfl

/-- `/s/gone.go` is asked for once: the second time the key is present -/
example : (loadFile exOracle [] b!"/s/gone.go").2 = some .read ∧
    loadFile exOracle (loadFile exOracle [] b!"/s/gone.go").1 b!"/s/gone.go"
      = ((loadFile exOracle [] b!"/s/gone.go").1, none) := by
  refine ⟨by rfl, ?_⟩
  exact load_once _ _ _ (load_once_marks _ _ _ (by decide))

/-- the hypotheses of the theorems are satisfiable -/
example : OracleOk exOracle := by
  intro src p hp n l
  simp only [exOracle] at hp
  by_cases h : src = exSrc
  · simp only [h, if_true, Option.some.injEq] at hp
    rw [← hp]
    by_cases hl : 4 ≤ l ∧ l ≤ 5 <;> simp [hl]
  · simp [h] at hp

example : Mismatch exOracle (exCall b!"/s/gone.go" 4) := mismatch_of_missing _ _ (by rfl)
example : Mismatch exOracle (exCall b!"/s/c.c" 4) := mismatch_of_nonGo _ _ (by decide)
example : Mismatch exOracle (exCall b!"/s/bad.go" 4) := mismatch_of_unparsable _ _ b!"package" (by rfl) (by rfl)
example : Mismatch exOracle (exCall b!"/s/a.go" 7) := mismatch_of_line_over _ _ exSrc (by rfl) (by decide)
/-- … and not vacuous: the call that is augmented is not a mismatch -/
example : ¬ Mismatch exOracle (exCall b!"/s/a.go" 4) := by
  intro h
  have := h exSrc { funcAt := fun _ l => if 4 ≤ l ∧ l ≤ 5 then some ([b!"int", b!"string"], false) else none }
    (by decide) (by rfl) (by rfl)
  rcases this with h1 | h1
  · revert h1; decide
  · revert h1; decide

end examples

end PP.AugGlue

#print axioms PP.AugGlue.augment_values_unchanged
#print axioms PP.AugGlue.augment_values_unchanged_snapshot
#print axioms PP.AugGlue.eraseProcessed_keeps
#print axioms PP.AugGlue.eraseCall_keeps
#print axioms PP.AugGlue.augment_total
#print axioms PP.AugGlue.augment_total_snapshot
#print axioms PP.AugGlue.mismatch_of_missing
#print axioms PP.AugGlue.mismatch_of_nonGo
#print axioms PP.AugGlue.mismatch_of_unparsable
#print axioms PP.AugGlue.mismatch_of_line_over
#print axioms PP.AugGlue.mismatch_of_no_func
#print axioms PP.AugGlue.mismatch_leaves_unaugmented
#print axioms PP.AugGlue.mismatch_leaves_unaugmented_snapshot
#print axioms PP.AugGlue.augment_shape_snapshot
#print axioms PP.AugGlue.load_once
#print axioms PP.AugGlue.load_once_marks
#print axioms PP.AugGlue.load_once_failure_marker
#print axioms PP.AugGlue.load_once_persistent
#print axioms PP.AugGlue.load_once_never_read_again
#print axioms PP.AugGlue.calls_without_args_skipped
#print axioms PP.AugGlue.calls_without_args_skipped_goroutine
#print axioms PP.AugGlue.lineToByteOffsets_spec
#print axioms PP.AugGlue.lineToByteOffsets_eq_newlineEnds
#print axioms PP.AugGlue.getFuncAST_line_over
