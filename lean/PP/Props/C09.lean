import PP.Lemmas.ReaderLemmas
/-
C09 — the line reader (`fill` / `readSlice` / `readLine`, stack/reader.go) returns the
canonical line split of the byte stream, for every buffer capacity `N > 0`, every
retry bound, every delivery schedule whose runs of zero-length reads stay below the
retry bound, and independently of whether the terminal error arrives with or after
the last data.  Only property statements live here; helpers are in
`PP/Lemmas/ReaderLemmas.lean`.

Reader invariant used below (defined in the lemma file):
  `Good N r := r.buf.length ≤ N ∧ (r.err = none ∨ (r.err = some r.src.final ∧ r.src.rest = []))`
-/
namespace PP

/-! ### 1. No panic -/

set_option linter.unusedVariables false in
/-- `fill`'s "tried to fill full buffer" panic is unreachable from `readSlice`. -/
theorem readSlice_no_panic (N retry fuel : Nat) (r : Rd) (hN : 0 < N) (hb : r.buf.length ≤ N) :
    readSlice N retry fuel r ≠ some (.error .fillFull) :=
  (readSlice_inv N retry fuel r hb).1 .fillFull

/-- the capacity invariant is preserved by `readSlice` -/
theorem readSlice_buf_le (N retry fuel : Nat) (r : Rd) (hb : r.buf.length ≤ N)
    (l : Bytes) (e : Option SliceErr) (r' : Rd)
    (h : readSlice N retry fuel r = some (.ok (l, e, r'))) : r'.buf.length ≤ N :=
  (readSlice_inv N retry fuel r hb).2 l e r' h

theorem readLine_no_panic (N retry fuel : Nat) (acc : Bytes) (r : Rd) (hb : r.buf.length ≤ N) :
    readLine N retry fuel acc r ≠ some (.error .fillFull) :=
  (readLine_inv N retry fuel acc r hb).1 .fillFull

/-- the capacity invariant is preserved by `readLine` -/
theorem readLine_buf_le (N retry fuel : Nat) (acc : Bytes) (r : Rd) (hb : r.buf.length ≤ N)
    (l : Bytes) (e : Option RErr) (r' : Rd)
    (h : readLine N retry fuel acc r = some (.ok (l, e, r'))) : r'.buf.length ≤ N :=
  (readLine_inv N retry fuel acc r hb).2 l e r' h

theorem readAll_no_panic (N retry fuel : Nat) (r : Rd) (hb : r.buf.length ≤ N) :
    readAll N retry fuel r ≠ some (.error .fillFull) :=
  readAll_inv N retry fuel r hb .fillFull

/-! ### 2. The fuel built into the model suffices -/

set_option linter.unusedVariables false in
theorem readSlice_fuel (N retry : Nat) (r : Rd) (hN : 0 < N) (hb : r.buf.length ≤ N) :
    (readSlice N retry (N + 2) r).isSome :=
  readSlice_isSome N retry (N + 2) r hb (by omega) (by intro; omega)

theorem readLine_fuel (N retry : Nat) (r : Rd) (hN : 0 < N) (hb : r.buf.length ≤ N) :
    (readLine N retry (lineFuel r) [] r).isSome :=
  readLine_isSome N retry (lineFuel r) [] r hN hb (by simp [lineFuel])

/-- fuel and no-panic together: `readLine` always produces a result -/
theorem readLine_total (N retry : Nat) (r : Rd) (hN : 0 < N) (hb : r.buf.length ≤ N) :
    ∃ line e r', readLine N retry (lineFuel r) [] r = some (.ok (line, e, r')) := by
  have h1 := readLine_fuel N retry r hN hb
  have h2 := (readLine_inv N retry (lineFuel r) [] r hb).1
  cases h : readLine N retry (lineFuel r) [] r with
  | none => simp [h] at h1
  | some x =>
    cases x with
    | error p => exact absurd h (h2 p)
    | ok v => exact ⟨v.1, v.2.1, v.2.2, rfl⟩

/-! ### 3. Refinement -/

/-- `readLine` returns the canonical next line of the remaining stream
`acc ++ r.buf ++ r.src.rest`: up to and including the first '\n' with no error, or, when
there is no '\n', the whole remainder together with the terminal error. -/
theorem readLine_spec (N retry fuel : Nat) (acc : Bytes) (r : Rd) (line : Bytes)
    (e : Option RErr) (r' : Rd)
    (hG : Good N r) (hR : maxZeroRun r.src.sched < retry) (hacc : cutNL acc = none)
    (h : readLine N retry fuel acc r = some (.ok (line, e, r'))) :
    Good N r' ∧ r'.src.final = r.src.final ∧ maxZeroRun r'.src.sched ≤ maxZeroRun r.src.sched ∧
    match cutNL (acc ++ r.buf ++ r.src.rest) with
    | some (l, rest) => line = l ∧ e = none ∧ r'.buf ++ r'.src.rest = rest
    | none => line = acc ++ r.buf ++ r.src.rest ∧ e = some r.src.final ∧
        r'.buf = [] ∧ r'.src.rest = [] ∧ r'.err = none := by
  obtain ⟨s1, s2, s3, s4⟩ := readLine_spec_aux N retry fuel acc r line e r' hG hR hacc h
  refine ⟨s1, s2, s3, ?_⟩
  rw [List.append_assoc]
  rcases s4 with ⟨t0, t1⟩ | ⟨t0, t1, t2, t3⟩
  · rw [t1]; exact ⟨rfl, t0, rfl⟩
  · rw [t1]; exact ⟨t2, t0, t3⟩

/-- the same statement without `cutNL`: in terms of "contains a '\n'" -/
theorem readLine_spec' (N retry fuel : Nat) (r : Rd) (line : Bytes)
    (e : Option RErr) (r' : Rd)
    (hG : Good N r) (hR : maxZeroRun r.src.sched < retry)
    (h : readLine N retry fuel [] r = some (.ok (line, e, r'))) :
    ((10 : UInt8) ∈ r.buf ++ r.src.rest →
        e = none ∧ (∃ p, (10 : UInt8) ∉ p ∧ line = p ++ [10]) ∧
        line ++ (r'.buf ++ r'.src.rest) = r.buf ++ r.src.rest) ∧
    ((10 : UInt8) ∉ r.buf ++ r.src.rest →
        e = some r.src.final ∧ line = r.buf ++ r.src.rest ∧ r'.buf = [] ∧ r'.src.rest = []) := by
  obtain ⟨_, _, _, s4⟩ :=
    readLine_spec_aux N retry fuel [] r line e r' hG hR (by simp [cutNL]) h
  simp only [List.nil_append] at s4
  rcases s4 with ⟨t0, t1⟩ | ⟨t0, t1, t2, t3, t4, _⟩
  · obtain ⟨p, hp, hl, hb⟩ := cutNL_some_spec t1
    refine ⟨fun _ => ⟨t0, ⟨p, hp, hl⟩, hb.symm⟩, fun hno => ?_⟩
    rw [(cutNL_none_iff _).mpr hno] at t1
    simp at t1
  · refine ⟨fun hin => absurd hin ((cutNL_none_iff _).mp t1), fun _ => ⟨t0, t2, t3, t4⟩⟩

/-- the sequence of lines depends only on the bytes and the terminal error -/
theorem readAll_spec (N retry : Nat) (hN : 0 < N) (s : Src) (hR : maxZeroRun s.sched < retry)
    (fuel : Nat) (hf : fuel ≥ s.rest.length + 1) :
    readAll N retry fuel { src := s } = some (.ok (specLines s.rest s.final)) := by
  have := readAll_spec_aux N retry fuel { src := s } hN ⟨by simp, Or.inl rfl⟩ hR
    (by simp; omega)
  simpa using this

/-- general form: from any reader state satisfying the invariant -/
theorem readAll_spec_from (N retry fuel : Nat) (r : Rd) (hN : 0 < N) (hG : Good N r)
    (hR : maxZeroRun r.src.sched < retry) (hf : r.buf.length + r.src.rest.length + 1 ≤ fuel) :
    readAll N retry fuel r = some (.ok (specLines (r.buf ++ r.src.rest) r.src.final)) :=
  readAll_spec_aux N retry fuel r hN hG hR hf

/-- independence of schedule, capacity, retry bound, and error-with-data -/
theorem readAll_delivery_indep (N₁ N₂ retry₁ retry₂ : Nat) (hN₁ : 0 < N₁) (hN₂ : 0 < N₂)
    (s₁ s₂ : Src) (hrest : s₁.rest = s₂.rest) (hfinal : s₁.final = s₂.final)
    (hR₁ : maxZeroRun s₁.sched < retry₁) (hR₂ : maxZeroRun s₂.sched < retry₂)
    (fuel₁ fuel₂ : Nat) (hf₁ : fuel₁ ≥ s₁.rest.length + 1) (hf₂ : fuel₂ ≥ s₂.rest.length + 1) :
    readAll N₁ retry₁ fuel₁ { src := s₁ } = readAll N₂ retry₂ fuel₂ { src := s₂ } := by
  rw [readAll_spec N₁ retry₁ hN₁ s₁ hR₁ fuel₁ hf₁, readAll_spec N₂ retry₂ hN₂ s₂ hR₂ fuel₂ hf₂,
    hrest, hfinal]

/-! ### 4. No progress -/

/-- `retry` consecutive zero-length reads without error make `fill` give up with
`io.ErrNoProgress`; no byte moves. -/
theorem fill_noProgress (N retry : Nat) (r : Rd) (t : List Nat)
    (hs : r.src.sched = List.replicate retry 0 ++ t) (hne : r.src.rest ≠ []) :
    (fillLoop N retry r).err = some .noProgress ∧ (fillLoop N retry r).buf = r.buf ∧
    (fillLoop N retry r).src.rest = r.src.rest ∧ (fillLoop N retry r).src.sched = t := by
  rw [fillLoop_noProgress N retry r t hs hne]
  exact ⟨rfl, rfl, rfl, rfl⟩

/-! ### Non-vacuity -/

section NonVacuity

/-- zero-length reads, error delivered together with the last data, a 7-byte line through
a 4-byte buffer -/
private def src1 : Src :=
  { rest := b!"ab\ncdefgh\n\nxyz", sched := [1, 0, 0, 2, 100, 3], final := .eof, withData := true }

example : maxZeroRun src1.sched < 100 := by decide
example : 0 < 4 ∧ 100 ≥ src1.rest.length + 1 := by decide

example : readAll 4 100 50 { src := src1 } =
    some (.ok [(b!"ab\n", none), (b!"cdefgh\n", none), (b!"\n", none), (b!"xyz", some .eof)]) := by
  rfl

example : specLines src1.rest src1.final =
    [(b!"ab\n", none), (b!"cdefgh\n", none), (b!"\n", none), (b!"xyz", some .eof)] := by decide

/-- the theorem applies to this source -/
example : readAll 4 100 50 { src := src1 } = some (.ok (specLines src1.rest src1.final)) :=
  readAll_spec 4 100 (by decide) src1 (by decide) 50 (by decide)

/-- a different delivery (big reads, separate EOF, other capacity) of the same bytes -/
example : readAll 4 100 50 { src := src1 } =
    readAll 16 3 20 { src := { rest := src1.rest, sched := [], final := .eof } } :=
  readAll_delivery_indep 4 16 100 3 (by decide) (by decide) _ _ rfl rfl (by decide) (by decide)
    50 20 (by decide) (by decide)

/-- the hypothesis on zero runs is needed: two zero reads with retry bound 2 give
`ErrNoProgress` in the middle of the stream -/
example : readAll 4 2 50 { src := { rest := b!"ab\ncd", sched := [1, 0, 0, 2], final := .eof } } =
    some (.ok [(b!"a", some .noProgress)]) := by rfl

/-- `fill_noProgress` applies -/
example : (fillLoop 4 2 { buf := b!"a", src := { rest := b!"b\ncd", sched := [0, 0, 2] } }).err =
    some .noProgress :=
  (fill_noProgress 4 2 _ [2] rfl (by decide)).1

/-- a pending error with complete lines still buffered satisfies the invariant, and the lines
come out first -/
example : Good 4 { buf := b!"a\nb", err := some .eof, src := { rest := [], sched := [] } } :=
  ⟨by decide, Or.inr ⟨rfl, rfl⟩⟩
example : readAll 4 1 5 { buf := b!"a\nb", err := some .eof, src := { rest := [], sched := [] } } =
    some (.ok [(b!"a\n", none), (b!"b", some .eof)]) := by rfl

end NonVacuity

end PP

#print axioms PP.readSlice_no_panic
#print axioms PP.readSlice_buf_le
#print axioms PP.readLine_no_panic
#print axioms PP.readLine_buf_le
#print axioms PP.readAll_no_panic
#print axioms PP.readSlice_fuel
#print axioms PP.readLine_fuel
#print axioms PP.readLine_total
#print axioms PP.readLine_spec
#print axioms PP.readLine_spec'
#print axioms PP.readAll_spec
#print axioms PP.readAll_spec_from
#print axioms PP.readAll_delivery_indep
#print axioms PP.fill_noProgress
#print axioms PP.splitLines_join
#print axioms PP.splitLines_lines
#print axioms PP.splitLines_tail_noNL
#print axioms PP.splitLines_line_append
