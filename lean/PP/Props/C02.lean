import PP.Lemmas.LoopLemmas
/-
C02 — stream conservation of `ScanSnapshot`, at line level (`scanL`; `PP.Props.C09b` transfers
it to the byte level for every delivery).

Everything that is not withheld survives byte for byte and in order.  Forwarded and withheld
lines can interleave (known finding K1, below), so conservation is stated over a ghost trace.

Definitions (lemma file `PP/Lemmas/LoopLemmas.lean`):
* `traceL s items : List Ev` mirrors `scanL` and records every processed non-empty line in
  order, as an event `{ withheld, line, pre, post }` (`withheld = true`: `scan` returned true,
  the line goes to `consumed`; `false`: the line is written to the pass-through writer; `pre`,
  `post`: scanner state before / after).  The line on which the loop breaks, panics or finds
  the state `done` is not an event: it is handed back in `rest`.
* `trace s items : List (Bool × Bytes)` = the events as `(withheld, line)` pairs.
* `Ev.Valid ev` = `(∃ e1, scanBytes ev.pre ev.line = .ok (ev.post, ev.withheld, e1)) ∧
   ev.line ≠ [] ∧ ev.pre.st ≠ .done ∧ (ev.withheld = false → ev.post.st = .looking)`.
* `Plain d` = `(classify [] d).header = none ∧ (classify [] d).sep = false`.
* `Line.isBlank l`: `indentOK`, `empty` are true and every other classifier field is
  `none` / `false`.
-/
namespace PP

/-! ### 1. The trace agrees with the loop; conservation -/

/-- what is forwarded / withheld is what the trace says, in trace order -/
theorem trace_agrees (s : S) (fwd : Bytes) (cons : List Bytes) (items : List (Bytes × Option RErr)) :
    (scanL s fwd cons items).fwd = fwd ++ ((trace s items).filter (fun p => !p.1)).flatMap (·.2) ∧
    (scanL s fwd cons items).consumed = cons ++ ((trace s items).filter (·.1)).map (·.2) := by
  obtain ⟨h1, h2, _⟩ := scanL_traceL s fwd cons items
  rw [h1, h2, fwdOf_eq, consOf_eq]
  exact ⟨rfl, rfl⟩

/-- No byte is duplicated, altered, reordered or lost: the input is exactly the processed
lines in order followed by what is handed back.  A property of the loop: it holds from every
scanner state, whatever `scan` does, including when `scan` panics (see `conservation_panic`). -/
theorem conservation (s : S) (fwd : Bytes) (cons : List Bytes) (items : List (Bytes × Option RErr)) :
    (trace s items).flatMap (·.2) ++ itemsBytes (scanL s fwd cons items).rest = itemsBytes items := by
  obtain ⟨_, _, h3⟩ := scanL_traceL s fwd cons items
  unfold trace
  rw [← bytesOf_eq]
  exact h3

/-- on a panic, the offending line is the first item handed back (and is not in the trace) -/
theorem conservation_panic (s : S) (fwd : Bytes) (cons : List Bytes)
    (items : List (Bytes × Option RErr)) (p : Panic)
    (h : (scanL s fwd cons items).panicked = some p) :
    ∃ d e rest', (scanL s fwd cons items).rest = (d, e) :: rest' ∧
      scanBytes (scanL s fwd cons items).s d = .error p :=
  scanL_panicked s fwd cons items p h

/-- whole stream: content = processed lines ++ handed-back bytes; the forwarded output is
the subsequence of forwarded lines, the withheld lines are the rest of the trace -/
theorem conservation_stream (bs : Bytes) (fin : RErr) :
    let o := scanL {} [] [] (specLines bs fin)
    let t := trace {} (specLines bs fin)
    t.flatMap (·.2) ++ itemsBytes o.rest = bs ∧
    o.fwd = (t.filter (fun p => !p.1)).flatMap (·.2) ∧
    o.consumed = (t.filter (·.1)).map (·.2) ∧
    (t.filter (fun p => !p.1)).Sublist t := by
  have h := conservation {} [] [] (specLines bs fin)
  rw [itemsBytes_specLines] at h
  obtain ⟨h1, h2⟩ := trace_agrees {} [] [] (specLines bs fin)
  exact ⟨h, by simpa using h1, by simpa using h2, List.filter_sublist⟩

/-! ### 2. Forwarding happens only while no dump is in progress -/

/-- every event of the trace is a `scan` step of the model, and consecutive events chain -/
theorem trace_events_valid (s : S) (items : List (Bytes × Option RErr)) :
    (∀ ev ∈ traceL s items, ev.Valid) ∧
    (∀ t1 ev1 ev2 t2, traceL s items = t1 ++ ev1 :: ev2 :: t2 → ev2.pre = ev1.post) ∧
    (∀ ev t, traceL s items = ev :: t → ev.pre = s) :=
  ⟨(traceL_chain s items).valid,
   fun _ _ _ _ h => Chain.adjacent (h ▸ traceL_chain s items),
   fun _ _ h => (Chain.head_pre (h ▸ traceL_chain s items)).1⟩

/-- A forwarded line was scanned in state `looking` and left the whole scanner state
untouched, or it is the line after a lone race separator (`gotRaceHeader1 → looking`, K1),
which only resets the state to `looking`.  In particular forwarding never happens while a
dump is being parsed, and never changes the goroutines. -/
theorem forwarded_only_while_looking (s : S) (items : List (Bytes × Option RErr)) :
    ∀ ev ∈ traceL s items, ev.withheld = false →
      ev.post.st = .looking ∧
      ((ev.pre.st = .looking ∧ ev.post = ev.pre) ∨
       (ev.pre.st = .gotRaceHeader1 ∧ (classify ev.pre.pfx ev.line).warn = false ∧
          ev.post = { ev.pre with st := .looking, pfx := [] })) := by
  intro ev hev hw
  have hv := (traceL_chain s items).valid ev hev
  have hl := hv.2.2.2 hw
  have hstep := hv.step
  rw [hw, hl] at hstep
  obtain ⟨⟨e1, hsc⟩, _⟩ := hv
  rw [hw] at hsc
  refine ⟨hl, ?_⟩
  rcases (Step_fwd_looking hstep).2 with hp | ⟨hp, hwarn⟩
  · exact Or.inl ⟨hp, (scan_looking_fwd hsc hp hl).1⟩
  · exact Or.inr ⟨hp, hwarn, (scan_rh1_fwd hsc hp hl).1⟩

/-- Once the scanner state is neither `looking` nor `gotRaceHeader1`, nothing is forwarded
until the loop ends. -/
theorem no_forward_after_dump_started (s : S) (items : List (Bytes × Option RErr))
    (h1 : s.st ≠ .looking) (h2 : s.st ≠ .gotRaceHeader1) :
    ∀ ev ∈ traceL s items, ev.withheld = true :=
  (traceL_chain s items).NL_withheld ⟨h1, h2⟩

/-- Shape of the trace.  A withheld line that is followed, anywhere later in the trace, by a
forwarded line is a race separator (`==================`) consumed in state `looking`
(→ `gotRaceHeader1`), and the line right after it is a forwarded line that is not
`WARNING: DATA RACE` (→ `looking`).  This is known finding K1: the separator is withheld
although no report follows.  (The `WARNING` line itself is never followed by a forward: from
`gotRaceHeader2` on the loop only withholds or breaks.) -/
theorem trace_shape (s : S) (items : List (Bytes × Option RErr)) :
    ∀ t1 ev t2, traceL s items = t1 ++ ev :: t2 → ev.withheld = true →
      (∃ f ∈ t2, f.withheld = false) →
      ev.pre.st = .looking ∧ ev.post.st = .gotRaceHeader1 ∧
      (classify ev.pre.pfx ev.line).sep = true ∧ (classify ev.pre.pfx ev.line).header = none ∧
      ∃ f t3, t2 = f :: t3 ∧ f.withheld = false ∧ f.pre = ev.post ∧
        (classify f.pre.pfx f.line).warn = false ∧ f.post.st = .looking :=
  (traceL_chain s items).shape

/-- Without a lone separator the trace is `F ++ W`: forwarded lines, then withheld lines. -/
theorem trace_split (s : S) (items : List (Bytes × Option RErr))
    (h : ∀ ev ∈ traceL s items, ev.withheld = true → ev.post.st ≠ .gotRaceHeader1) :
    ∃ F W, traceL s items = F ++ W ∧ (∀ f ∈ F, f.withheld = false) ∧
      (∀ w ∈ W, w.withheld = true) := by
  apply split_of_no_fwd_after_withheld
  intro t1 ev t2 heq hw f hf
  cases hfw : f.withheld with
  | true => rfl
  | false =>
    have := (trace_shape s items t1 ev t2 heq hw ⟨f, hf, hfw⟩).2.1
    exact absurd this (h ev (by rw [heq]; simp) hw)

/-! ### 3. A stream without a dump passes through unchanged -/

/-- If no line of the stream is a goroutine header or a race separator, everything is
forwarded, nothing is withheld, no goroutine is found and nothing is handed back. -/
theorem no_dump_identity (bs : Bytes) (fin : RErr)
    (h : ∀ p ∈ specLines bs fin, (classify [] p.1).header = none ∧ (classify [] p.1).sep = false) :
    let o := scanL {} [] [] (specLines bs fin)
    o.fwd = bs ∧ o.consumed = [] ∧ o.s = {} ∧ o.rest = [] ∧ o.broke = false ∧
    o.err = some (.reader fin) ∧ o.panicked = none := by
  have hj := splitLines_join bs
  have hl : ∀ l ∈ (splitLines bs).1, Plain l := fun l hl =>
    h (l, none) (by simp [specLines, hl])
  have ht : Plain (splitLines bs).2 := h ((splitLines bs).2, some fin) (by simp [specLines])
  have := scanL_plain {} rfl rfl [] [] (splitLines bs).1 (splitLines bs).2 fin hl ht
  simp only [specLines]
  rw [this]
  simp [hj]

/-- the same for the whole of `ScanSnapshot`: nil snapshot, nil suffix, the output is the input -/
theorem no_dump_identity_snapshot (names : Bool) (bs : Bytes) (fin : RErr)
    (h : ∀ p ∈ specLines bs fin, (classify [] p.1).header = none ∧ (classify [] p.1).sep = false) :
    let r := scanSnapshotL names bs fin
    r.snap = none ∧ r.fwd = bs ∧ r.suffix = none ∧ r.unread = [] ∧ r.consumed = [] ∧
    r.err = some (.reader fin) ∧ r.state = .looking ∧ r.panicked = false := by
  obtain ⟨h1, h2, h3, h4, h5, h6, h7⟩ := no_dump_identity bs fin h
  simp only [scanSnapshotL]
  simp only [h1, h2, h3, h4, h5, h6, h7]
  simp

/-! ### 4. Blank lines are withheld only directly after a stack, and only one -/

/-- a line that is empty after stripping the end of line and the prefix is blank -/
theorem empty_line_isBlank (pfx raw : Bytes) (h : (classify pfx raw).empty = true) :
    (classify pfx raw).isBlank :=
  classify_empty_isBlank pfx raw h

/-- (a) only the five "directly after a stack" states consume a blank line, and they move to
the corresponding "between" state -/
theorem blank_consumed_states (s s' : S) (l : Line) (e : Option Err) (hb : l.isBlank)
    (h : scan s l = .ok (s', true, e)) :
    ((s.st = .gotFileFunc ∨ s.st = .gotFileCreated ∨ s.st = .gotUnavail) ∧ s'.st = .betweenRoutine) ∨
    (s.st = .gotRaceOperationFile ∧ s'.st = .betweenRaceOperations) ∨
    (s.st = .gotRaceGoroutineFile ∧ s'.st = .betweenRaceGoroutines) :=
  Step_blank hb (scan_step h)

/-- (b) no state consumes two consecutive blank lines: the second one is not processed -/
theorem no_two_blank (s s₁ : S) (l₁ l₂ : Line) (e₁ : Option Err) (hb₁ : l₁.isBlank)
    (hb₂ : l₂.isBlank) (h : scan s l₁ = .ok (s₁, true, e₁)) :
    ∃ s₂ e₂, scan s₁ l₂ = .ok (s₂, false, e₂) := by
  apply scan_between_blank s₁ l₂ hb₂
  rcases blank_consumed_states s s₁ l₁ e₁ hb₁ h with ⟨_, h'⟩ | ⟨_, h'⟩ | ⟨_, h'⟩
  · exact Or.inl h'
  · exact Or.inr (Or.inl h')
  · exact Or.inr (Or.inr h')

/-- In a trace: a withheld empty line was consumed directly after a stack; the line processed
after it (if the loop goes on) is not empty — the second blank line ends the dump
(`betweenRoutine → done`) or is an error, and is handed back, not withheld. -/
theorem withheld_blank_only_after_goroutine (s : S) (items : List (Bytes × Option RErr)) :
    (∀ ev ∈ traceL s items, ev.withheld = true → (classify ev.pre.pfx ev.line).empty = true →
      ((ev.pre.st = .gotFileFunc ∨ ev.pre.st = .gotFileCreated ∨ ev.pre.st = .gotUnavail) ∧
        ev.post.st = .betweenRoutine) ∨
      (ev.pre.st = .gotRaceOperationFile ∧ ev.post.st = .betweenRaceOperations) ∨
      (ev.pre.st = .gotRaceGoroutineFile ∧ ev.post.st = .betweenRaceGoroutines)) ∧
    (∀ t1 ev1 ev2 t2, traceL s items = t1 ++ ev1 :: ev2 :: t2 → ev1.withheld = true →
      (classify ev1.pre.pfx ev1.line).empty = true →
      (classify ev2.pre.pfx ev2.line).empty = false) := by
  have hc := traceL_chain s items
  constructor
  · intro ev hev hw he
    have hv := hc.valid ev hev
    have hstep := hv.step
    rw [hw] at hstep
    exact Step_blank (classify_empty_isBlank _ _ he) hstep
  · intro t1 ev1 ev2 t2 heq hw he
    have hv1 := hc.valid ev1 (by rw [heq]; simp)
    have hv2 := hc.valid ev2 (by rw [heq]; simp)
    have hadj : ev2.pre = ev1.post := Chain.adjacent (heq ▸ hc)
    obtain ⟨⟨e1, hs1⟩, _⟩ := hv1
    rw [hw] at hs1
    unfold scanBytes at hs1
    cases he2 : (classify ev2.pre.pfx ev2.line).empty with
    | false => rfl
    | true =>
      exfalso
      rw [hadj] at he2
      obtain ⟨s₂, e₂, hs2⟩ := no_two_blank _ _ _ _ _ (classify_empty_isBlank _ _ he)
        (classify_empty_isBlank _ _ he2) hs1
      obtain ⟨⟨e1', hs2'⟩, _, _, hlk⟩ := hv2
      unfold scanBytes at hs2'
      rw [hadj] at hs2'
      -- the second blank line is not consumed, so it would have to be forwarded from `looking`
      have hs2b := hs2
      rw [hs2'] at hs2b
      simp only [Except.ok.injEq, Prod.mk.injEq] at hs2b
      obtain ⟨hpost, hwf, _⟩ := hs2b
      have hl := hlk hwf
      rw [hpost] at hl
      have st2 := scan_step hs2
      rw [hl] at st2
      have st1 := Step_blank (classify_empty_isBlank _ _ he) (scan_step hs1)
      have := (Step_fwd_looking st2).2
      rcases st1 with ⟨_, h'⟩ | ⟨_, h'⟩ | ⟨_, h'⟩ <;> rw [h'] at this <;> simp at this

/-! ### 5. Known finding K1: a lone race separator is lost -/

/-- The naive statement "if no dump is recognised, the output equals the input" is false: a
line of 18 `=` between ordinary lines is withheld (it is taken for the start of a race
report, and when the next line is not `WARNING: DATA RACE` the scanner silently goes back to
`looking` without giving it back), although no goroutine is found. -/
theorem K1_lone_separator_lost :
    let bs := b!"hello\n==================\nworld\n"
    let o := scanL {} [] [] (specLines bs .eof)
    o.fwd = b!"hello\nworld\n" ∧ o.consumed = [b!"==================\n"] ∧ o.s.gs = [] ∧
    o.s.st = .looking ∧ o.rest = [] ∧ o.broke = false ∧
    trace {} (specLines bs .eof) =
      [(false, b!"hello\n"), (true, b!"==================\n"), (false, b!"world\n")] := by
  decide

/-- at the level of `ScanSnapshot`: nil snapshot, nil suffix, and the output lacks the line -/
theorem K1_snapshot :
    let r := scanSnapshotL false b!"hello\n==================\nworld\n" .eof
    r.snap.isNone = true ∧ r.suffix = none ∧ r.unread = [] ∧ r.fwd = b!"hello\nworld\n" ∧
    r.fwd ≠ b!"hello\n==================\nworld\n" := by
  decide

/-! ### Non-vacuity -/

section NonVacuity

private def dump1 : Bytes :=
  b!"panic: x\n\ngoroutine 1 [running]:\nmain.main()\n\t/a/b.go:12 +0x1\n\n\ntrailer\n"

/-- a real dump: two lines forwarded, then header, function, file and ONE blank line withheld;
the second blank line ends the dump and is handed back with the rest -/
example : trace {} (specLines dump1 .eof) =
    [(false, b!"panic: x\n"), (false, b!"\n"), (true, b!"goroutine 1 [running]:\n"),
     (true, b!"main.main()\n"), (true, b!"\t/a/b.go:12 +0x1\n"), (true, b!"\n")] := by decide

example : itemsBytes (scanL {} [] [] (specLines dump1 .eof)).rest = b!"\ntrailer\n" := by decide
example : (scanL {} [] [] (specLines dump1 .eof)).broke = true := by decide
example : (scanL {} [] [] (specLines dump1 .eof)).s.gs.length = 1 := by decide

/-- `conservation_stream` on it -/
example : (trace {} (specLines dump1 .eof)).flatMap (·.2) ++
    itemsBytes (scanL {} [] [] (specLines dump1 .eof)).rest = dump1 :=
  (conservation_stream dump1 .eof).1

/-- the hypothesis of `trace_split` holds here and that of `trace_shape` holds in K1 -/
example : ∀ ev ∈ traceL {} (specLines dump1 .eof), ev.withheld = true → ev.post.st ≠ .gotRaceHeader1 := by
  decide

example : ∃ t1 ev t2, traceL {} (specLines b!"hello\n==================\nworld\n" .eof) = t1 ++ ev :: t2 ∧
    ev.withheld = true ∧ ∃ f ∈ t2, f.withheld = false := by
  refine ⟨[_], _, [_], rfl, rfl, _, List.mem_singleton.mpr rfl, rfl⟩

/-- the hypothesis of `no_dump_identity` is satisfiable -/
example : ∀ p ∈ specLines b!"hello\nworld" .eof,
    (classify [] p.1).header = none ∧ (classify [] p.1).sep = false := by decide

example : (scanL {} [] [] (specLines b!"hello\nworld" .eof)).fwd = b!"hello\nworld" :=
  (no_dump_identity _ _ (by decide)).1

/-- blank lines exist, and a state consuming one exists -/
example : (classify [] b!"\n").isBlank := empty_line_isBlank _ _ (by decide)
example : (classify b!"  " b!"  \r\n").isBlank := empty_line_isBlank _ _ (by decide)
example : scan { st := .gotFileCreated } (classify [] b!"\n") =
    .ok ({ st := .betweenRoutine }, true, none) := by rfl
example : scan { st := .betweenRoutine } (classify [] b!"\n") =
    .ok ({ st := .done }, false, none) := by rfl

/-- a panic inside `scan` (model state not reachable from `{}`): the line stays in `rest` -/
example : (scanL { st := .gotFunc } [] [] [(b!"x\n", none)]).panicked = some .nilCur ∧
    (scanL { st := .gotFunc } [] [] [(b!"x\n", none)]).rest = [(b!"x\n", none)] := by decide

end NonVacuity

end PP

#print axioms PP.trace_agrees
#print axioms PP.conservation
#print axioms PP.conservation_panic
#print axioms PP.conservation_stream
#print axioms PP.trace_events_valid
#print axioms PP.forwarded_only_while_looking
#print axioms PP.no_forward_after_dump_started
#print axioms PP.trace_shape
#print axioms PP.trace_split
#print axioms PP.no_dump_identity
#print axioms PP.no_dump_identity_snapshot
#print axioms PP.empty_line_isBlank
#print axioms PP.blank_consumed_states
#print axioms PP.no_two_blank
#print axioms PP.withheld_blank_only_after_goroutine
#print axioms PP.K1_lone_separator_lost
#print axioms PP.K1_snapshot
