import PP.Lemmas.CliLemmas
import PP.Lemmas.ScanUnnamed
import PP.Props.C02
import PP.Props.C03
import PP.Props.C07
import PP.Props.C09b
import PP.Props.C15
/-
CLI — the `pp` command's `process()` end to end (model `PP/Model/Cli.lean`): the command-level
halves of C03 (the loop of repeated scanning terminates, nothing panics), C02 (the output is the
input with each dump replaced by one rendering, everything else verbatim and in order), the exit
status, C15 (the `NameArguments` gate) and the option gate of `ScanSnapshot`.

Definitions used in the statements (`PP/Lemmas/CliLemmas.lean`, `PP/Lemmas/Delimit.lean`,
`PP/Lemmas/ScanUnnamed.lean`):
* `Call` = `List (Bytes × Option RErr) × OutL`: the items a `ScanSnapshot` call was given and the
  outcome of the loop `scanL` on them; `scanAll n items` (C07) = the calls of the resumption
  protocol, each on the `rest` of the previous one, as long as the previous one reported no error.
* `processedBytes c`, `fwdLines c`, `withheldLines c`: all / the forwarded / the withheld lines of
  the ghost trace `trace {} c.1` of C02, in stream order.
* `renderBytes cfg snap`: the bytes `processInner` writes for `snap` (`[]` for a nil snapshot);
  `piece cfg c = c.2.fwd ++ renderBytes cfg (resultOf true c.2).snap`: what one iteration writes.
* `resultOf names o` (C07): the result of `ScanSnapshot` computed from the outcome of the loop
  (`scanSnapshotL names bs fin = resultOf names (scanL {} [] [] (specLines bs fin))`).
* `statusOf e = if e = .reader .eof then .ok else .failed e`.
* `Goroutine.Unnamed g`: no scalar in any argument of any call of `g` (stack and creator) has a
  name; `Arg.unnamed`, `callsUnnamed` likewise.
-/
namespace PP.Cli
open PP PP.Console

/-! ### 1. C03: the command's loop terminates, and nothing panics -/

/-- For every input, configuration, terminal error and every fuel `≥ input.length + 2`, the loop
of `process` returns: exit 0, or an error that is not EOF.  It never runs out of fuel (no input
makes the command scan forever: every call strictly shortens what is left, `resume_progress`)
and never panics (neither `scan` nor `IsRace`'s `Goroutines[0]`). -/
theorem process_terminates (cfg : CliCfg) (fin : RErr) (input out : Bytes) (n : Nat)
    (hn : input.length + 2 ≤ n) :
    (∃ o, processL cfg fin n input out = (o, .ok)) ∨
    (∃ o e, processL cfg fin n input out = (o, .failed e) ∧ e ≠ .reader .eof) := by
  obtain ⟨cs, c, e, _, _, _, hrun, _⟩ := process_run cfg fin input out n hn
  rw [hrun]
  by_cases he : e = .reader .eof
  · have hs : statusOf e = .ok := by simp [statusOf, he]
    exact Or.inl ⟨_, by rw [hs]⟩
  · have hs : statusOf e = .failed e := by simp [statusOf, he]
    exact Or.inr ⟨_, e, by rw [hs], he⟩

/-- the fuel is a model artefact: every fuel `≥ input.length + 2` gives the same output and status -/
theorem process_fuel_irrelevant (cfg : CliCfg) (fin : RErr) (input out : Bytes) (n : Nat)
    (hn : input.length + 2 ≤ n) :
    processL cfg fin n input out = processL cfg fin (processFuel input) input out :=
  processL_fuel_irrelevant cfg fin input out n hn

/-- the command itself (`process` passes the fuel `processFuel input = input.length + 2`) -/
theorem process_total (cfg : CliCfg) (goroot : Bytes) (gopaths : List Bytes) (fin : RErr) (input : Bytes) :
    (process cfg goroot gopaths fin input).2 ≠ .outOfFuel ∧
    (process cfg goroot gopaths fin input).2 ≠ .panicked := by
  unfold process
  split
  · rcases process_terminates cfg fin input [] (processFuel input) (Nat.le_refl _) with ⟨o, h⟩ | ⟨o, e, h, _⟩ <;>
      rw [h] <;> simp
  · simp

/-- the rendering of what `ScanSnapshot` returns never hits `Goroutines[0]` on an empty slice:
a non-nil snapshot has at least one goroutine -/
theorem render_no_panic (cfg : CliCfg) (names : Bool) (bs : Bytes) (fin : RErr) :
    ∃ b, renderOpt cfg (scanSnapshotL names bs fin).snap = .ok b :=
  ⟨_, renderOpt_resultOf cfg names _⟩

/-- `IsRace` on an empty goroutine list is the panic value (the hypothesis above is needed) -/
theorem isRace_nil : isRace [] = .error .goroutines0 := rfl

/-! ### 2. The shape of a run; C02 end to end -/

/-- **The run.**  With the fuel of `process`, the `ScanSnapshot` calls are `cs ++ [c]`; only the
last one reports an error `e`.  The output is, call by call, the forwarded text followed by the
rendering of the snapshot, then the `suffix` of the last call; the status is that of `e`.  The
input is, call by call, the processed lines (forwarded and withheld, in order), then what the
last call did not process — of which `suffix` is written and `unread` is lost. -/
theorem process_trace (cfg : CliCfg) (fin : RErr) (input : Bytes) :
    ∃ (cs : List Call) (c : Call) (e : LErr),
      scanAll (processFuel input) (specLines input fin) = cs ++ [c] ∧
      c.2.err = some e ∧ (∀ x ∈ cs, x.2.err = none) ∧
      (∀ x ∈ cs ++ [c], x.2 = scanL {} [] [] x.1 ∧ x.2.fwd = fwdLines x ∧ x.2.consumed = withheldLines x) ∧
      processL cfg fin (processFuel input) input [] =
        ((cs ++ [c]).flatMap (fun x => fwdLines x ++ renderBytes cfg (resultOf true x.2).snap) ++
            (resultOf true c.2).suffix.getD [],
         statusOf e) ∧
      input = (cs ++ [c]).flatMap processedBytes ++
        ((resultOf true c.2).suffix.getD [] ++ (resultOf true c.2).unread) := by
  obtain ⟨cs, c, e, h1, he, hcs, hrun, htiles, hrem, _⟩ :=
    process_run cfg fin input [] (processFuel input) (Nat.le_refl _)
  have hchain : ∀ x ∈ cs ++ [c], x.2 = scanL {} [] [] x.1 := by
    intro x hx
    exact (scanAll_chain (processFuel input) (specLines input fin)).1 x (by rw [h1]; exact hx)
  refine ⟨cs, c, e, h1, he, hcs, ?_, ?_, ?_⟩
  · intro x hx
    exact ⟨hchain x hx, call_fwd x (hchain x hx), call_consumed x (hchain x hx)⟩
  · rw [hrun, List.nil_append]
    congr 2
    apply flatMap_congr'
    intro x hx
    simp only [piece, call_fwd x (hchain x hx)]
  · rw [hrem]; exact htiles.symm

/-- **C02, end to end**, for every run (whatever the exit status), at line level.  There is one
`tail` such that
  `input  = processed₁ ++ processed₂ ++ … ++ tail` and
  `output = (forwarded₁ ++ render₁) ++ (forwarded₂ ++ render₂) ++ … ++ tail`
over the same calls: `forwardedᵢ` are the forwarded lines of call `i` verbatim and in order (a
sub-list of its processed lines), `renderᵢ` is the rendering of the goroutines scanned from
exactly its withheld lines (`[]` when the call found none), and `tail` is what the last call
handed back.  At line level nothing is lost even when the last call reports a parse error
(`suffix` is the whole remainder: the delivery in which everything was buffered); for what the
real reader does see `last_call_any_delivery`. -/
theorem process_conservation_any (cfg : CliCfg) (fin : RErr) (input : Bytes) :
    ∃ (calls : List Call) (tail : Bytes),
      calls = scanAll (processFuel input) (specLines input fin) ∧
      input = calls.flatMap processedBytes ++ tail ∧
      (processL cfg fin (processFuel input) input []).1 =
        calls.flatMap (fun c => fwdLines c ++ renderBytes cfg (resultOf true c.2).snap) ++ tail ∧
      (∀ c ∈ calls, c.2 = scanL {} [] [] c.1 ∧ c.2.consumed = withheldLines c ∧
        (resultOf true c.2).snap =
          (if c.2.s.gs.isEmpty then none else some (nameArguments c.2.s.gs)) ∧
        ((trace {} c.1).filter (fun p => !p.1)).Sublist (trace {} c.1)) := by
  obtain ⟨cs, c, e, h1, he, hun, hsuf⟩ :=
    process_run_unread cfg fin input [] (processFuel input) (Nat.le_refl _)
  obtain ⟨cs', c', e', h1', _, _, hrun, htiles, _, _⟩ :=
    process_run cfg fin input [] (processFuel input) (Nat.le_refl _)
  have hcc : cs' = cs ∧ c' = c := by
    have := h1'.symm.trans h1
    exact List.append_inj' this rfl |>.imp id (fun h => by simpa using h)
  obtain ⟨rfl, rfl⟩ := hcc
  have hchain : ∀ x ∈ cs' ++ [c'], x.2 = scanL {} [] [] x.1 := by
    intro x hx
    exact (scanAll_chain (processFuel input) (specLines input fin)).1 x (by rw [h1]; exact hx)
  refine ⟨cs' ++ [c'], (resultOf true c'.2).suffix.getD [], h1.symm, ?_, ?_, ?_⟩
  · rw [hsuf]; exact htiles.symm
  · rw [hrun]
    simp only [List.nil_append]
    congr 1
    apply flatMap_congr'
    intro x hx
    simp only [piece, call_fwd x (hchain x hx)]
  · intro x hx
    exact ⟨hchain x hx, call_consumed x (hchain x hx), rfl, List.filter_sublist⟩

/-- **C02, end to end, exit 0** (the statement for the real command: EOF means the whole input
was read, so the line-level `tail` is exactly what the command writes last, under every
delivery). -/
theorem process_conservation (cfg : CliCfg) (fin : RErr) (input : Bytes)
    (_hok : (processL cfg fin (processFuel input) input []).2 = .ok) :
    ∃ (calls : List Call) (tail : Bytes),
      calls = scanAll (processFuel input) (specLines input fin) ∧
      input = calls.flatMap processedBytes ++ tail ∧
      (processL cfg fin (processFuel input) input []).1 =
        calls.flatMap (fun c => fwdLines c ++ renderBytes cfg (resultOf true c.2).snap) ++ tail ∧
      (∀ c ∈ calls, c.2 = scanL {} [] [] c.1 ∧ c.2.consumed = withheldLines c ∧
        (resultOf true c.2).snap =
          (if c.2.s.gs.isEmpty then none else some (nameArguments c.2.s.gs)) ∧
        ((trace {} c.1).filter (fun p => !p.1)).Sublist (trace {} c.1)) :=
  process_conservation_any cfg fin input

/-- Within one call the forwarded lines come first and the withheld lines form one block after
them — so `renderᵢ` stands exactly where the withheld block was — unless the call consumed a
lone race separator (known finding K1, `trace_shape` in C02). -/
theorem call_forwarded_then_withheld (items : List (Bytes × Option RErr))
    (h : ∀ ev ∈ traceL {} items, ev.withheld = true → ev.post.st ≠ .gotRaceHeader1) :
    processedBytes (items, scanL {} [] [] items) =
      fwdLines (items, scanL {} [] [] items) ++ (withheldLines (items, scanL {} [] [] items)).flatten := by
  obtain ⟨F, W, hFW, hF, hW⟩ := trace_split {} items h
  simp only [processedBytes, fwdLines, withheldLines, trace, hFW, List.map_append, List.filter_append,
    List.flatMap_append]
  have e1 : (F.map (fun ev => (ev.withheld, ev.line))).filter (fun p => !p.1) =
      F.map (fun ev => (ev.withheld, ev.line)) := by
    rw [List.filter_eq_self]
    intro p hp
    simp only [List.mem_map] at hp
    obtain ⟨ev, hev, rfl⟩ := hp
    simp [hF ev hev]
  have e2 : (W.map (fun ev => (ev.withheld, ev.line))).filter (fun p => !p.1) = [] := by
    rw [List.filter_eq_nil_iff]
    intro p hp
    simp only [List.mem_map] at hp
    obtain ⟨ev, hev, rfl⟩ := hp
    simp [hW ev hev]
  have e3 : (F.map (fun ev => (ev.withheld, ev.line))).filter (·.1) = [] := by
    rw [List.filter_eq_nil_iff]
    intro p hp
    simp only [List.mem_map] at hp
    obtain ⟨ev, hev, rfl⟩ := hp
    simp [hF ev hev]
  have e4 : (W.map (fun ev => (ev.withheld, ev.line))).filter (·.1) =
      W.map (fun ev => (ev.withheld, ev.line)) := by
    rw [List.filter_eq_self]
    intro p hp
    simp only [List.mem_map] at hp
    obtain ⟨ev, hev, rfl⟩ := hp
    simp [hW ev hev]
  rw [e1, e2, e3, e4]
  simp [List.flatMap_def, List.map_map, Function.comp_def]

/-- Corollary: if no line of the input is a goroutine header or a race separator (the
hypothesis of `no_dump_identity`, C02), the output is the input and the command exits 0. -/
theorem process_identity_without_dump (cfg : CliCfg) (input : Bytes)
    (h : ∀ p ∈ specLines input .eof, (classify [] p.1).header = none ∧ (classify [] p.1).sep = false) :
    processL cfg .eof (processFuel input) input [] = (input, .ok) := by
  obtain ⟨h1, h2, h3, _, _, h6, _, h8⟩ := no_dump_identity_snapshot true input .eof h
  simp only [processFuel, processL, h1, h2, h3, h6, h8, renderOpt]
  simp [statusOf]

/-- the same for a stream that ends in a reader failure: everything is written, the failure is
returned -/
theorem process_identity_without_dump_fin (cfg : CliCfg) (fin : RErr) (input : Bytes)
    (h : ∀ p ∈ specLines input fin, (classify [] p.1).header = none ∧ (classify [] p.1).sep = false) :
    processL cfg fin (processFuel input) input [] = (input, statusOf (.reader fin)) := by
  obtain ⟨h1, h2, h3, _, _, h6, _, h8⟩ := no_dump_identity_snapshot true input fin h
  simp only [processFuel, processL, h1, h2, h3, h6, h8, renderOpt]
  simp

/-! ### 3. Exit status; what a failing run writes and loses -/

/-- The status is decided by the error `e` of the last call alone: exit 0 iff `e` is EOF,
otherwise `e` itself is returned (a parse error, or the reader's failure).  The last thing
written is that call's `suffix`, and at line level that is everything the last call did not
process (`unread = []`): the loop of `ScanSnapshot` stops with an error only through
`suffix = …; break`, or on the last item of the stream.  So a failing run loses nothing that the
reader had buffered; `last_call_any_delivery` below says what a real delivery changes: `suffix`
is then the offending line plus what the reader had read ahead (a prefix of the line-level
`suffix`), and only the input not yet read is lost. -/
theorem process_exit_status (cfg : CliCfg) (fin : RErr) (input : Bytes) :
    ∃ (cs : List Call) (c : Call) (e : LErr),
      scanAll (processFuel input) (specLines input fin) = cs ++ [c] ∧ c.2.err = some e ∧
      (∀ x ∈ cs, x.2.err = none) ∧
      (processL cfg fin (processFuel input) input []).2 = statusOf e ∧
      ((processL cfg fin (processFuel input) input []).2 = .ok ↔ e = .reader .eof) ∧
      (∀ e', (processL cfg fin (processFuel input) input []).2 = .failed e' ↔ (e' = e ∧ e ≠ .reader .eof)) ∧
      (processL cfg fin (processFuel input) input []).1 =
        (cs ++ [c]).flatMap (piece cfg) ++ (resultOf true c.2).suffix.getD [] ∧
      (resultOf true c.2).suffix.getD [] = itemsBytes c.2.rest ∧
      (resultOf true c.2).unread = [] := by
  obtain ⟨cs, c, e, h1, he, hun, hsuf⟩ :=
    process_run_unread cfg fin input [] (processFuel input) (Nat.le_refl _)
  obtain ⟨cs', c', e', h1', he', hcs, hrun, _, _, _⟩ :=
    process_run cfg fin input [] (processFuel input) (Nat.le_refl _)
  have hcc : cs' = cs ∧ c' = c := by
    have := h1'.symm.trans h1
    exact List.append_inj' this rfl |>.imp id (fun h => by simpa using h)
  obtain ⟨rfl, rfl⟩ := hcc
  have hee : e' = e := by rw [he] at he'; exact (Option.some.inj he').symm
  subst hee
  refine ⟨cs', c', e', h1, he, hcs, by rw [hrun], ?_, ?_, by rw [hrun]; simp, hsuf, hun⟩
  · rw [hrun]
    simp only [statusOf]
    by_cases h : e' = .reader .eof <;> simp [h]
  · intro e''
    rw [hrun]
    simp only [statusOf]
    by_cases h : e' = .reader .eof
    · simp [h]
    · simp only [h, if_false, Status.failed.injEq]
      constructor
      · intro h'; exact ⟨h'.symm, h⟩
      · intro h'; exact h'.1.symm

/-- Byte level, any delivery (C09b): whatever the buffer size, the read schedule and the way the
terminal error is reported, a `ScanSnapshot` call through the reader returns the same snapshot,
forwarded bytes and error as the line-level call, and `suffix ++ unread` is the same byte string:
the `suffix` the command writes on an error is a prefix of what remains, the lost part is the
`unread` input. -/
theorem last_call_any_delivery (N retry : Nat) (hN : 0 < N) (src : Src)
    (hR : maxZeroRun src.sched < retry) (r : ScanResult)
    (h : scanSnapshot N retry true src = some r) :
    r.snap = (scanSnapshotL true src.rest src.final).snap ∧
    r.fwd = (scanSnapshotL true src.rest src.final).fwd ∧
    r.err = (scanSnapshotL true src.rest src.final).err ∧
    r.suffix.isSome = (scanSnapshotL true src.rest src.final).suffix.isSome ∧
    r.suffix.getD [] ++ r.unread =
      (scanSnapshotL true src.rest src.final).suffix.getD [] ++ (scanSnapshotL true src.rest src.final).unread := by
  obtain ⟨a1, a2, a3, _, _, _, a7, a8⟩ := scanSnapshot_eq_L N retry hN true src hR r h
  exact ⟨a1, a2, a3, a7, a8 (scanSnapshot_no_panic N retry true src r h)⟩

/-! ### 4. C15: the `NameArguments` gate -/

/-- the scanner never sets a name: one step keeps every goroutine unnamed -/
theorem scan_step_unnamed (s : S) (raw : Bytes) (s' : S) (p : Bool) (e : Option Err)
    (hs : ∀ g ∈ s.gs, g.Unnamed) (h : scanBytes s raw = .ok (s', p, e)) : ∀ g ∈ s'.gs, g.Unnamed :=
  scanBytes_allU s raw s' p e hs h

/-- `parseArgs` produces scalars with `name = []` only -/
theorem parseArgs_unnamed' (line : Bytes) (a : Args) (h : parseArgs line = .ok a) :
    Arg.unnamedL a.values = true :=
  parseArgs_unnamed line a h

/-- every scanner state reachable from the initial one holds unnamed goroutines only -/
theorem scanner_never_names (items : List (Bytes × Option RErr)) :
    ∀ g ∈ (scanL {} [] [] items).s.gs, g.Unnamed :=
  scanL_preserves (fun s => AllU s.gs) (fun s raw s' p e hs h => scanBytes_allU s raw s' p e hs h)
    {} [] [] items (by intro g hg; simp at hg)

/-- an unnamed goroutine is a fixed point of `eraseNames` -/
theorem eraseNames_of_unnamed (g : Goroutine) (h : g.Unnamed) : Goroutine.eraseNames g = g :=
  Goroutine.eraseNames_unnamed g h

/-- **The gate.**  With `NameArguments` off no argument of any returned goroutine carries a
name.  Switching it on only adds the `nameArguments` pass to the snapshot — every other field of
the result is the same — and that pass changes nothing but names (`nameArguments_only_names_change`,
C15): erasing the names of the named snapshot gives back the unnamed one. -/
theorem names_gate (bs : Bytes) (fin : RErr) :
    (∀ gs, (scanSnapshotL false bs fin).snap = some gs → ∀ g ∈ gs, g.Unnamed) ∧
    (scanSnapshotL true bs fin).snap = (scanSnapshotL false bs fin).snap.map nameArguments ∧
    (scanSnapshotL true bs fin).fwd = (scanSnapshotL false bs fin).fwd ∧
    (scanSnapshotL true bs fin).suffix = (scanSnapshotL false bs fin).suffix ∧
    (scanSnapshotL true bs fin).unread = (scanSnapshotL false bs fin).unread ∧
    (scanSnapshotL true bs fin).err = (scanSnapshotL false bs fin).err ∧
    (scanSnapshotL true bs fin).consumed = (scanSnapshotL false bs fin).consumed ∧
    (scanSnapshotL true bs fin).state = (scanSnapshotL false bs fin).state ∧
    (scanSnapshotL true bs fin).panicked = (scanSnapshotL false bs fin).panicked ∧
    (∀ gs gs', (scanSnapshotL false bs fin).snap = some gs → (scanSnapshotL true bs fin).snap = some gs' →
      gs'.length = gs.length ∧ gs'.map Goroutine.eraseNames = gs) := by
  have hsnap : (scanSnapshotL true bs fin).snap = (scanSnapshotL false bs fin).snap.map nameArguments := by
    simp only [scanSnapshotL]
    split <;> simp
  have hun : ∀ gs, (scanSnapshotL false bs fin).snap = some gs → ∀ g ∈ gs, g.Unnamed := by
    intro gs h
    simp only [scanSnapshotL] at h
    split at h
    · cases h
    · simp only [Bool.false_eq_true, if_false, Option.some.injEq] at h
      subst h
      exact scanner_never_names _
  refine ⟨hun, hsnap, rfl, rfl, rfl, rfl, rfl, rfl, rfl, ?_⟩
  intro gs gs' h h'
  rw [hsnap, h] at h'
  simp only [Option.map_some, Option.some.injEq] at h'
  subst h'
  refine ⟨nameArguments_length gs, ?_⟩
  rw [nameArguments_only_names_change]
  have : ∀ g ∈ gs, Goroutine.eraseNames g = g := fun g hg => eraseNames_of_unnamed g (hun gs h g hg)
  calc gs.map Goroutine.eraseNames = gs.map id := List.map_congr_left this
    _ = gs := List.map_id gs

/-- the same through the option gate of `ScanSnapshot` (path guessing off): `NameArguments =
false` returns unnamed goroutines, `true` returns `nameArguments` of them -/
theorem names_gate_opts (o : Opts) (bs : Bytes) (fin : RErr) (hv : o.isValid = true)
    (hg : o.guessPaths = false) (ha : o.analyzeSources = false) :
    scanSnapshotOpts (some o) id id bs fin = .ok (scanSnapshotL o.nameArguments bs fin) := by
  have hpp : postProcess o id id = fun gs => if o.nameArguments then nameArguments gs else gs := by
    funext gs; simp [postProcess, hg, ha]
  simp only [scanSnapshotOpts, hv, Bool.not_true, Bool.false_eq_true, if_false, hpp]
  congr 1
  cases o.nameArguments
  · simp only [Bool.false_eq_true, if_false]
    generalize scanSnapshotL false bs fin = r
    cases r; simp
  · simp only [if_true, scanSnapshotL, Bool.false_eq_true, if_false]
    cases (scanL {} [] [] (specLines bs fin)).s.gs.isEmpty <;> simp

/-! ### 5. The option gate of `ScanSnapshot` -/

/-- `isValid` rejects exactly: `AnalyzeSources` without `GuessPaths`, or a backslash in
`LocalGOROOT` or in one of `LocalGOPATHs` -/
theorem isValid_iff (o : Opts) :
    o.isValid = false ↔
      ((o.analyzeSources = true ∧ o.guessPaths = false) ∨ backslash ∈ o.localGOROOT ∨
        ∃ p ∈ o.localGOPATHs, backslash ∈ p) :=
  Opts.isValid_false_iff o

/-- `ScanSnapshot` returns the error "invalid Opts" for exactly the invalid option sets (nil, or
rejected by `isValid`); for every other option set it runs the scan -/
theorem invalid_opts_rejected (opts : Option Opts) (guess augment : List Goroutine → List Goroutine)
    (bs : Bytes) (fin : RErr) :
    (scanSnapshotOpts opts guess augment bs fin = .error .invalidOpts ↔
      (opts = none ∨ ∃ o, opts = some o ∧
        ((o.analyzeSources = true ∧ o.guessPaths = false) ∨ backslash ∈ o.localGOROOT ∨
          ∃ p ∈ o.localGOPATHs, backslash ∈ p))) ∧
    (∀ o, opts = some o → o.isValid = true →
      scanSnapshotOpts opts guess augment bs fin =
        .ok { scanSnapshotL false bs fin with
              snap := (scanSnapshotL false bs fin).snap.map (postProcess o guess augment) }) := by
  constructor
  · cases opts with
    | none => simp [scanSnapshotOpts]
    | some o =>
      simp only [scanSnapshotOpts, reduceCtorEq, Option.some.injEq, false_or, exists_eq_left']
      rw [← isValid_iff]
      cases o.isValid <;> simp
  · intro o ho hv
    subst ho
    simp [scanSnapshotOpts, hv]

/-- at command level: rejected options end `process` at once, with nothing written; the options
`process` builds are valid iff the local GOROOT / GOPATHs carry no backslash -/
theorem process_invalid_opts (cfg : CliCfg) (goroot : Bytes) (gopaths : List Bytes) (fin : RErr)
    (input : Bytes) :
    ((processOpts goroot gopaths).isValid = false ↔ (backslash ∈ goroot ∨ ∃ p ∈ gopaths, backslash ∈ p)) ∧
    ((processOpts goroot gopaths).isValid = false →
      process cfg goroot gopaths fin input = ([], .invalidOpts)) ∧
    ((processOpts goroot gopaths).isValid = true →
      process cfg goroot gopaths fin input = processL cfg fin (processFuel input) input []) := by
  refine ⟨?_, ?_, ?_⟩
  · rw [isValid_iff]
    simp [processOpts, defaultOpts]
  · intro h; simp [process, h]
  · intro h; simp [process, h]

/-! ### Non-vacuity -/

section NonVacuity
set_option maxRecDepth 100000

/-- two dumps separated by other text (the stream of C07's examples) -/
private def two : Bytes :=
  b!"x\ngoroutine 1 [running]:\nmain.f()\n\t/a.go:1\n\nnext\ngoroutine 2 [select]:\nmain.g()\n\t/b.go:2\nend\n"

/-- the whole command on it: each dump replaced by its rendering, the rest verbatim, exit 0 -/
example : processL {} .eof (processFuel two) two [] =
    (b!"x\n1: running\n    main a.go:1 f()\nnext\n1: select\n    main b.go:2 g()\nend\n", .ok) := by
  decide +kernel

/-- with the banner (GOTRACEBACK unset) -/
example : (processL { showBanner := showBanner [] } .eof (processFuel two) two []).1 =
    b!"x\n" ++ banner ++ b!"1: running\n    main a.go:1 f()\nnext\n" ++ banner ++
      b!"1: select\n    main b.go:2 g()\nend\n" := by
  decide +kernel

example : showBanner b!"single" = true ∧ showBanner b!"all" = false := by decide

/-- the calls of that run: three calls, the pieces of `process_conservation` written out -/
example : (scanAll (processFuel two) (specLines two .eof)).map
      (fun c => (fwdLines c, (withheldLines c).length, processedBytes c)) =
    [(b!"x\n", 4, b!"x\ngoroutine 1 [running]:\nmain.f()\n\t/a.go:1\n\n"),
     (b!"next\n", 3, b!"next\ngoroutine 2 [select]:\nmain.g()\n\t/b.go:2\n"),
     (b!"end\n", 0, b!"end\n")] := by
  decide +kernel

/-- the hypothesis of `process_conservation` holds on it -/
example : (processL {} .eof (processFuel two) two []).2 = .ok := by decide +kernel

/-- the hypothesis of `call_forwarded_then_withheld` holds on the first call -/
example : ∀ ev ∈ traceL {} (specLines two .eof), ev.withheld = true → ev.post.st ≠ .gotRaceHeader1 := by
  decide

/-- a stream that ends in a reader failure: same output, the failure is returned -/
example : processL {} (.other 7) (processFuel two) two [] =
    (b!"x\n1: running\n    main a.go:1 f()\nnext\n1: select\n    main b.go:2 g()\nend\n",
     .failed (.reader (.other 7))) := by
  decide +kernel

/-- a parse error (K-C07-1: a foreign line directly after "stack unavailable"): the snapshot is
still rendered, the offending line and what follows it are written, the status is the error -/
private def unav : Bytes :=
  b!"pre\ngoroutine 1 [running]:\n\tgoroutine running on other thread; stack unavailable\nexit status 2\nmore\n"

example : processL {} .eof (processFuel unav) unav [] =
    (b!"pre\n1: running\n     :0 ()\nexit status 2\nmore\n", .failed (.parse .emptyAfterUnavail)) := by
  decide +kernel

/-- a race report goes through `writeGoroutines`, without aggregation -/
private def race : Bytes :=
  b!"==================\nWARNING: DATA RACE\nRead at 0x00c000012345 by goroutine 7:\n  main.f()\n      /a.go:1 +0x1\n\nPrevious write at 0x00c000012345 by goroutine 6:\n  main.g()\n      /a.go:2 +0x2\n\nGoroutine 7 (running) created at:\n  main.h()\n      /a.go:3 +0x3\n\nGoroutine 6 (finished) created at:\n  main.h()\n      /a.go:4 +0x4\n==================\nafter\n"

example : processL {} .eof (processFuel race) race [] =
    (b!"7: running [Created by main.h @ a.go:3] Race read @ 0xc000012345\n    main a.go:1 f()\n6: finished [Created by main.h @ a.go:4] Race write @ 0xc000012345\n    main a.go:2 g()\nafter\n",
     .ok) := by
  decide +kernel

/-- K1 at command level: a lone separator line disappears from the output, exit 0 -/
example : processL {} .eof 5 b!"hello\n==================\nworld\n" [] = (b!"hello\nworld\n", .ok) := by
  decide +kernel

/-- the hypothesis of `process_identity_without_dump` is satisfiable -/
example : processL {} .eof (processFuel b!"hello\nworld") b!"hello\nworld" [] = (b!"hello\nworld", .ok) :=
  process_identity_without_dump {} _ (by decide)

/-- the fuel is needed: one unit short of the number of calls runs out -/
example : (processL {} .eof 2 two []).2 = .outOfFuel ∧ (processL {} .eof 3 two []).2 = .ok := by
  decide +kernel

/-- the gate: naming off leaves the recurring pointer unnamed, naming on names it `#1`, and the
command prints the name -/
private def ptrs : Bytes := b!"goroutine 1 [running]:\nmain.f(0xc000012340, 0xc000012340, 0x5)\n\t/a.go:1\n"

example : (scanSnapshotL false ptrs .eof).snap.map
      (·.map (fun g => g.sig.stack.calls.map (fun c => (argsString c.args, Arg.unnamedL c.args.values)))) =
    some [[(b!"0xc000012340, 0xc000012340, 5", true)]] := by decide +kernel
example : (scanSnapshotL true ptrs .eof).snap.map
      (·.map (fun g => g.sig.stack.calls.map (fun c => (argsString c.args, Arg.unnamedL c.args.values)))) =
    some [[(b!"#1, #1, 5", false)]] := by decide +kernel
example : (processL {} .eof (processFuel ptrs) ptrs []).1 = b!"1: running\n    main a.go:1 f(#1, #1, 5)\n" := by
  decide +kernel
example : Arg.unnamed (.scalar b!"#1" 1 true false false) = false ∧
    Arg.unnamed (.agg [.scalar [] 1 true false false] true) = true := by decide

/-- the option gate: the three ways to be invalid, and the options `process` builds -/
example : Opts.isValid { analyzeSources := true } = false ∧
    Opts.isValid { localGOROOT := b!"C:\\Go" } = false ∧
    Opts.isValid { localGOPATHs := [b!"/home/u/go", b!"a\\b"] } = false ∧
    Opts.isValid (defaultOpts b!"/usr/lib/go" [b!"/home/u/go"]) = true ∧
    Opts.isValid (processOpts b!"/usr/lib/go" [b!"/home/u/go"]) = true := by decide
example : process {} b!"C:\\Go" [] .eof two = ([], .invalidOpts) := by decide
example : scanSnapshotOpts none id id two .eof = .error .invalidOpts := rfl

end NonVacuity

end PP.Cli

#print axioms PP.Cli.process_terminates
#print axioms PP.Cli.process_fuel_irrelevant
#print axioms PP.Cli.process_total
#print axioms PP.Cli.render_no_panic
#print axioms PP.Cli.isRace_nil
#print axioms PP.Cli.process_trace
#print axioms PP.Cli.process_conservation_any
#print axioms PP.Cli.process_conservation
#print axioms PP.Cli.call_forwarded_then_withheld
#print axioms PP.Cli.process_identity_without_dump
#print axioms PP.Cli.process_identity_without_dump_fin
#print axioms PP.Cli.process_exit_status
#print axioms PP.Cli.last_call_any_delivery
#print axioms PP.Cli.scan_step_unnamed
#print axioms PP.Cli.parseArgs_unnamed'
#print axioms PP.Cli.scanner_never_names
#print axioms PP.Cli.eraseNames_of_unnamed
#print axioms PP.Cli.names_gate
#print axioms PP.Cli.names_gate_opts
#print axioms PP.Cli.isValid_iff
#print axioms PP.Cli.invalid_opts_rejected
#print axioms PP.Cli.process_invalid_opts
