import PP.Lemmas.FuncAtLemmas
import PP.Lemmas.LineOffsetsLemmas
/-
C19d  Which function declaration a traceback line is attributed to:
`(*parsedFile).getFuncAST` (stack/source.go:114-157).

Model: `PP.FA.getFuncAST` (PP/Model/FuncAt.lean) — `ast.Inspect` with the
closure of the Go code over a rose tree of (position, is-FuncDecl, which
declaration).  Vocabulary: PP/Spec/FuncTree.lean (`nodes`, `AllBeforeL`,
`ReachesL`, `NoDeclL`, `Ordered`, `lastDecl`).

`off` is `p.lineToByteOffset[l]`; positions are `int(n.Pos())` (1-based), the
table is 0-based, the code compares them as they are (see the header of the
model file); the theorems are about the comparison the code makes.

Trusted, not modelled: go/parser and the order in which `ast.Walk` visits the
children of each node kind; the harness (C19 stream f) converts the real tree
with `ast.Inspect` and compares every line of generated files.
-/
namespace PP.FA
open PP PP.Bytes

/-! ### 1. errors -/

/-- the line is over the line count: the error, whatever the tree -/
theorem getFuncAST_lineOver (offsets : List Nat) (root : Node) (l : Nat) (h : offsets.length ≤ l) :
    getFuncAST offsets root l = .error .lineOver := by
  unfold getFuncAST; rw [if_pos h]

/-- **No index out of range.**  The only table index read is `l`, behind the
length test: the run-time panic of `p.lineToByteOffset[l]` (`.error .index` in
the model) is unreachable -/
theorem getFuncAST_indexes_in_range (offsets : List Nat) (root : Node) (l : Nat) :
    getFuncAST offsets root l ≠ .error .index := by
  by_cases h : offsets.length ≤ l
  · rw [getFuncAST_lineOver offsets root l h]; intro hc; cases hc
  · have hl : l < offsets.length := Nat.lt_of_not_le h
    rw [getFuncAST_eq_walk offsets root l offsets[l] (List.getElem?_eq_getElem hl)]
    intro hc; cases hc

/-- the result is an error exactly when the line is over the line count -/
theorem getFuncAST_error_iff (offsets : List Nat) (root : Node) (l : Nat) (e : Err) :
    getFuncAST offsets root l = .error e ↔ e = .lineOver ∧ offsets.length ≤ l := by
  by_cases h : offsets.length ≤ l
  · rw [getFuncAST_lineOver offsets root l h]
    constructor
    · intro hc; cases hc; exact ⟨rfl, h⟩
    · rintro ⟨rfl, _⟩; rfl
  · have hl : l < offsets.length := Nat.lt_of_not_le h
    rw [getFuncAST_eq_walk offsets root l offsets[l] (List.getElem?_eq_getElem hl)]
    constructor
    · intro hc; cases hc
    · rintro ⟨_, h'⟩; exact absurd h' h

/-! ### 2. a line inside a function -/

/-- **Inside, general form.**  The children of the file node are `before`,
then the declaration `k`, then anything.  Everything in `before` starts before
the line, the declaration starts before the line, some node under the
declaration starts on the line or later, and no node under it is a `FuncDecl`
(function literals are not): the answer is declaration `k` — for every shape
of `before`, of the subtrees of the declaration (nested literals included) and
of what follows. -/
theorem getFuncAST_inside_of_before (offsets : List Nat) (l off : Nat) (hoff : offsets[l]? = some off)
    (p0 x : Nat) (before after : List Node) (pk k : Nat) (body : List Node)
    (hroot : p0 < off) (hbefore : AllBeforeL off before)
    (hpk : pk < off) (hbody : NoDeclL body) (hreach : ReachesL off body) :
    getFuncAST offsets ⟨p0, false, x, before ++ ⟨pk, true, k, body⟩ :: after⟩ l = .ok (some k) := by
  rw [getFuncAST_eq_walk offsets _ l off hoff, walk_root off _ p0 x _ hroot,
    walkList_before off _ before _ hbefore, walkList, walk]
  have hp : ¬ pk ≥ off := by omega
  rw [if_neg (not_onLine_of_lt hp)]
  simp only [Option.isSome_none, Bool.false_eq_true, if_false, hp, if_true]
  rw [walkList_stop off k _ _ rfl rfl body hbody hreach, walkList_done off _ _ rfl after]

/-- **Inside.**  The top-level items of the file (package name, import, type,
variable and function declarations) are in source order (`Ordered`: every node
of an earlier item lies before the start of every later item).  Item `i` is
the function declaration `k`; the line's offset lies strictly after its
position and at or before the position of some node of its subtree (a line
inside the function, not its first line): the answer is `k`. -/
theorem getFuncAST_inside (offsets : List Nat) (l off : Nat) (hoff : offsets[l]? = some off)
    (p0 x : Nat) (items : List Node) (i pk k : Nat) (body : List Node)
    (hroot : p0 < off) (hord : Ordered items)
    (hi : items[i]? = some ⟨pk, true, k, body⟩)
    (hpk : pk < off) (hbody : NoDeclL body) (hreach : ReachesL off body) :
    getFuncAST offsets ⟨p0, false, x, items⟩ l = .ok (some k) := by
  obtain ⟨hlt, hget⟩ := List.getElem?_eq_some_iff.mp hi
  have hsplit : items = items.take i ++ ⟨pk, true, k, body⟩ :: items.drop (i + 1) := by
    rw [← hget, List.getElem_cons_drop, List.take_append_drop]
  have hbefore : AllBeforeL off (items.take i) := by
    intro m hm
    obtain ⟨c, hc, hmc⟩ := exists_of_mem_nodesL _ m hm
    unfold Ordered at hord
    rw [hsplit, List.pairwise_append] at hord
    have hlt' : m.pos < pk := hord.2.2 c hc ⟨pk, true, k, body⟩ (by simp) m hmc
    omega
  rw [hsplit]
  exact getFuncAST_inside_of_before offsets l off hoff p0 x _ _ pk k body hroot hbefore hpk hbody hreach

/-! ### 3. the first line of a declaration, and the lines between declarations -/

/-- **The first line (fix F12).**  The declaration `k` starts on the line
itself (`off ≤ pk ≤ eol`, `eol` the offset at which the next line starts, no
bound on the last line), some node under it starts on the line or later (its
name does) and no node under it is a `FuncDecl`: the answer is `k`.  A frame
in a one-line function `func k(…) { … }` gets the parameter types of `k`.
(Before the fix the answer was the previous declaration.) -/
theorem getFuncAST_first_line_is_self (offsets : List Nat) (l off : Nat) (hoff : offsets[l]? = some off)
    (p0 x : Nat) (before after : List Node) (pk k : Nat) (body : List Node)
    (hroot : p0 < off) (hbefore : AllBeforeL off before)
    (hk : off ≤ pk) (heol : leEol pk offsets[l + 1]? = true)
    (hbody : NoDeclL body) (hreach : ReachesL off body) :
    getFuncAST offsets ⟨p0, false, x, before ++ ⟨pk, true, k, body⟩ :: after⟩ l = .ok (some k) := by
  rw [getFuncAST_eq_walk offsets _ l off hoff, walk_root off _ p0 x _ hroot,
    walkList_before off _ before _ hbefore, walkList,
    walk_enter_self off _ _ rfl pk k body hk heol hbody hreach, walkList_done off _ _ rfl after]

/-- **Stop at a top-level item, general form.**  Everything in `before` starts
before the line, the next item `dk` stops the walk (`Stops`: it starts on the
line or later and is not a function declaration that starts on the line) and
the last function declaration in `before` is `j`: the answer is `j`.  These
are the closing-brace line of `j`, the blank and comment lines after it, and
the lines of a following variable or type declaration. -/
theorem getFuncAST_stop_at_item (offsets : List Nat) (l off : Nat) (hoff : offsets[l]? = some off)
    (p0 x : Nat) (before after : List Node) (dk : Node) (j : Nat)
    (hroot : p0 < off) (hbefore : AllBeforeL off before)
    (hlast : lastDecl none (nodesL before) = some j) (hk : Stops off offsets[l + 1]? dk) :
    getFuncAST offsets ⟨p0, false, x, before ++ dk :: after⟩ l = .ok (some j) := by
  rw [getFuncAST_eq_walk offsets _ l off hoff, walk_root off _ p0 x _ hroot,
    walkList_before off _ before _ hbefore, walkList, hlast,
    walk_stops off _ _ rfl dk hk, walkList_done off _ _ rfl after]

/-- **Between two declarations.**  Declaration `j` lies entirely before the
line and the next declaration `k` starts after the line (`eol < pk`): the line
(closing brace of `j`, blank lines, comments) is attributed to `j`. -/
theorem getFuncAST_between_is_previous (offsets : List Nat) (l off eol : Nat) (hoff : offsets[l]? = some off)
    (heol : offsets[l + 1]? = some eol)
    (p0 x : Nat) (before after : List Node) (pj j : Nat) (bodyj : List Node) (pk k : Nat) (bodyk : List Node)
    (hroot : p0 < off) (hbefore : AllBeforeL off before)
    (hpj : pj < off) (hbj : AllBeforeL off bodyj) (hnd : NoDeclL bodyj)
    (hk : off ≤ pk) (hk' : eol < pk) :
    getFuncAST offsets ⟨p0, false, x, before ++ ⟨pj, true, j, bodyj⟩ :: ⟨pk, true, k, bodyk⟩ :: after⟩ l
      = .ok (some j) := by
  have hb : AllBeforeL off (before ++ [⟨pj, true, j, bodyj⟩]) := by
    intro m hm
    rw [nodesL_append, nodesL, nodesL, List.append_nil, nodes] at hm
    rcases List.mem_append.mp hm with h | h
    · exact hbefore m h
    · rcases List.mem_cons.mp h with rfl | h'
      · exact hpj
      · exact hbj m h'
  have hs : Stops off offsets[l + 1]? ⟨pk, true, k, bodyk⟩ := by
    refine ⟨hk, ?_⟩
    rintro ⟨_, hle⟩
    rw [heol] at hle
    simp only [leEol, decide_eq_true_eq] at hle
    omega
  have := getFuncAST_stop_at_item offsets l off hoff p0 x (before ++ [⟨pj, true, j, bodyj⟩]) after
    ⟨pk, true, k, bodyk⟩ j hroot hb (lastDecl_through_decl none before pj j bodyj hnd) hs
  rwa [List.append_assoc, List.singleton_append] at this

/-- when no function declaration comes before and every later top-level item
stops the walk, there is no answer.  (The walk does not end at the first stop:
`d` is still nil, every later item is a stop again.) -/
theorem getFuncAST_above_first_is_none (offsets : List Nat) (l off : Nat)
    (hoff : offsets[l]? = some off) (p0 x : Nat) (before rest : List Node)
    (hroot : p0 < off) (hbefore : AllBeforeL off before) (hnd : NoDeclL before)
    (hrest : ∀ c ∈ rest, Stops off offsets[l + 1]? c) :
    getFuncAST offsets ⟨p0, false, x, before ++ rest⟩ l = .ok none := by
  rw [getFuncAST_eq_walk offsets _ l off hoff, walk_root off _ p0 x _ hroot,
    walkList_before off _ before _ hbefore, lastDecl_of_none _ _ hnd,
    walkList_all_stop_none off _ rest hrest]

/-! ### 4. outside every node -/

/-- a line beyond every node position (after the last statement of the last
function: its closing brace, trailing blank lines and comments) yields no
declaration -/
theorem getFuncAST_after_last (offsets : List Nat) (l off : Nat) (hoff : offsets[l]? = some off)
    (root : Node) (h : AllBefore off root) :
    getFuncAST offsets root l = .ok none := by
  rw [getFuncAST_eq_walk offsets _ l off hoff, walk_allBefore off _ {} rfl root h]

/-- a line at or above the `package` clause stops at the file node itself:
nothing is visited -/
theorem getFuncAST_before_package (offsets : List Nat) (l off : Nat) (hoff : offsets[l]? = some off)
    (root : Node) (h : off ≤ root.pos) (hf : root.isFuncDecl = false) :
    getFuncAST offsets root l = .ok none := by
  rw [getFuncAST_eq_walk offsets _ l off hoff,
    walk_stops off _ {} rfl root ⟨h, fun hc => by rw [hf] at hc; cases hc.1⟩]

/-- lines 0 and 1 of any source never yield a declaration (their offset is 0) -/
theorem getFuncASTSrc_line01 (src : Bytes) (root : Node) (hf : root.isFuncDecl = false) (l : Nat) (hl : l ≤ 1) :
    getFuncASTSrc src root l = .ok none := by
  unfold getFuncASTSrc
  apply getFuncAST_before_package _ l 0 _ root (Nat.zero_le _) hf
  rw [AugGlue.lineToByteOffsets_eq]
  rcases Nat.le_one_iff_eq_zero_or_eq_one.mp hl with rfl | rfl <;> rfl

/-! ### 5. the oracle of AugmentGlue -/

/-- `AugGlue.ParsedFile.getFuncAST` with the `Parsed` built from the tree is
this walk followed by the type extraction of the declaration found: the
oracle `Parsed.funcAt` of PP/Model/AugmentGlue.lean is discharged for every
tree -/
theorem glue_getFuncAST (offsets : List Nat) (root : Node) (types : Nat → Option (List Bytes × Bool))
    (f : Bytes) (l : Nat) :
    AugGlue.ParsedFile.getFuncAST ⟨offsets, toParsed offsets root types⟩ f l =
      match getFuncAST offsets root l with
      | .error _ => .error .lineOver
      | .ok r => .ok (r.bind types) := by
  unfold AugGlue.ParsedFile.getFuncAST
  by_cases h : offsets.length ≤ l
  · simp only [h, if_true, getFuncAST_lineOver offsets root l h]
  · have hl : l < offsets.length := Nat.lt_of_not_le h
    simp only [h, if_false, toParsed]
    rw [getFuncAST_eq_walk offsets root l offsets[l] (List.getElem?_eq_getElem hl)]
    cases (walk offsets[l] offsets[l + 1]? {} root).d <;> rfl

/-! ### 6. a concrete file -/

/-- three functions: one with a nested literal, one declared on a single line,
one pointer-receiver method -/
def exSrc : Bytes :=
  b!"package p\n\nfunc a(x int) {\n\tg := func() {\n\t\th()\n\t}\n\tg()\n}\n\nfunc b(x, y int) { panic(1) }\n\nfunc (t *T) c(x, y, z int) {\n\th()\n}\n"

/-- the bodies, as `ast.Inspect` reports them on go/parser's tree of `exSrc` -/
def exBodyA : List Node := [
    ⟨17, false, 0, []⟩,
    ⟨12, false, 0, [⟨18, false, 0, [⟨19, false, 0, [⟨19, false, 0, []⟩, ⟨21, false, 0, []⟩]⟩]⟩]⟩,
    ⟨26, false, 0, [
      ⟨29, false, 0, [
        ⟨29, false, 0, []⟩,
        ⟨34, false, 0, [
          ⟨34, false, 0, [⟨38, false, 0, []⟩]⟩,
          ⟨41, false, 0, [⟨45, false, 0, [⟨45, false, 0, [⟨45, false, 0, []⟩]⟩]⟩]⟩]⟩]⟩,
      ⟨53, false, 0, [⟨53, false, 0, [⟨53, false, 0, []⟩]⟩]⟩]⟩]

def exBodyB : List Node := [
    ⟨65, false, 0, []⟩,
    ⟨60, false, 0, [⟨66, false, 0, [⟨67, false, 0, [⟨67, false, 0, []⟩, ⟨70, false, 0, []⟩, ⟨72, false, 0, []⟩]⟩]⟩]⟩,
    ⟨77, false, 0, [⟨79, false, 0, [⟨79, false, 0, [⟨79, false, 0, []⟩, ⟨85, false, 0, []⟩]⟩]⟩]⟩]

def exBodyC : List Node := [
    ⟨96, false, 0, [⟨97, false, 0, [⟨97, false, 0, []⟩, ⟨99, false, 0, [⟨100, false, 0, []⟩]⟩]⟩]⟩,
    ⟨103, false, 0, []⟩,
    ⟨91, false, 0, [⟨104, false, 0, [⟨105, false, 0,
      [⟨105, false, 0, []⟩, ⟨108, false, 0, []⟩, ⟨111, false, 0, []⟩, ⟨113, false, 0, []⟩]⟩]⟩]⟩,
    ⟨118, false, 0, [⟨121, false, 0, [⟨121, false, 0, [⟨121, false, 0, []⟩]⟩]⟩]⟩]

def exItems : List Node :=
  [⟨9, false, 0, []⟩, ⟨12, true, 0, exBodyA⟩, ⟨60, true, 1, exBodyB⟩, ⟨91, true, 2, exBodyC⟩]

def exRoot : Node := ⟨1, false, 0, exItems⟩

/-- line by line (0 … 16): nothing above `a`; `a` from its first line to the
line before `b`; the one-line function `b` on its own line (line 10) and on
the blank line after it; `c` on its two lines; nothing on the closing brace of
the last function and after; the error beyond -/
example : (List.range 17).map (getFuncASTSrc exSrc exRoot) =
    [.ok none, .ok none, .ok none,
     .ok (some 0),                     -- line 3: `func a(x int) {`
     .ok (some 0), .ok (some 0), .ok (some 0), .ok (some 0), .ok (some 0), .ok (some 0),
     .ok (some 1),                     -- line 10: `func b(x, y int) { panic(1) }`
     .ok (some 1),
     .ok (some 2),                     -- line 12: `func (t *T) c(x, y, z int) {`
     .ok (some 2),
     .ok none, .ok none,
     .error .lineOver] := by decide +kernel

example : AugGlue.lineToByteOffsets exSrc = [0, 0, 10, 11, 27, 42, 48, 51, 56, 58, 59, 89, 90, 119, 124, 126] := by
  decide +kernel

example : Ordered exItems := by decide +kernel

/-- `getFuncAST_inside` applies: line 5 (`h()` inside the literal inside `a`) -/
example : getFuncASTSrc exSrc exRoot 5 = .ok (some 0) :=
  getFuncAST_inside _ 5 42 (by decide +kernel) 1 0 exItems 1 12 0 exBodyA (by decide) (by decide +kernel) rfl
    (by decide) (by decide +kernel) (by decide +kernel)

/-- `getFuncAST_inside` applies: line 13 (`h()` inside the method `c`) -/
example : getFuncASTSrc exSrc exRoot 13 = .ok (some 2) :=
  getFuncAST_inside _ 13 119 (by decide +kernel) 1 0 exItems 3 91 2 exBodyC (by decide) (by decide +kernel) rfl
    (by decide) (by decide +kernel) (by decide +kernel)

/-- `getFuncAST_first_line_is_self` applies: line 10, the one-line function
`b` (declaration 1) -/
example : getFuncASTSrc exSrc exRoot 10 = .ok (some 1) :=
  getFuncAST_first_line_is_self _ 10 59 (by decide +kernel) 1 0
    [⟨9, false, 0, []⟩, ⟨12, true, 0, exBodyA⟩] [⟨91, true, 2, exBodyC⟩]
    60 1 exBodyB (by decide) (by decide +kernel) (by decide) (by decide +kernel)
    (by decide +kernel) (by decide +kernel)

/-- `getFuncAST_between_is_previous` applies: line 9, the blank line between
`a` and `b` -/
example : getFuncASTSrc exSrc exRoot 9 = .ok (some 0) :=
  getFuncAST_between_is_previous _ 9 58 59 (by decide +kernel) (by decide +kernel) 1 0 [⟨9, false, 0, []⟩]
    [⟨91, true, 2, exBodyC⟩] 12 0 exBodyA 60 1 exBodyB (by decide) (by decide +kernel) (by decide)
    (by decide +kernel) (by decide +kernel) (by decide) (by decide)

/-- `getFuncAST_above_first_is_none` applies: line 2, the blank line above the
first function -/
example : getFuncASTSrc exSrc exRoot 2 = .ok none :=
  getFuncAST_above_first_is_none _ 2 10 (by decide +kernel) 1 0 [⟨9, false, 0, []⟩]
    [⟨12, true, 0, exBodyA⟩, ⟨60, true, 1, exBodyB⟩, ⟨91, true, 2, exBodyC⟩]
    (by decide) (by decide +kernel) (by decide +kernel) (by decide +kernel)

/-- `getFuncAST_after_last` applies: line 14, the closing brace of the last
function -/
example : getFuncASTSrc exSrc exRoot 14 = .ok none :=
  getFuncAST_after_last _ 14 124 (by decide +kernel) exRoot (by decide +kernel)

/-- `getFuncAST_lineOver` applies: line 16 of a 14-line file (15 is the empty
line after the final newline) -/
example : getFuncASTSrc exSrc exRoot 16 = .error .lineOver :=
  getFuncAST_lineOver _ exRoot 16 (by decide +kernel)

/-- the walk does continue after a stop with nothing remembered: a tree (not
one go/parser builds) whose second item starts before the first one -/
example : getFuncAST [0, 0, 10] ⟨1, false, 0, [⟨20, false, 0, []⟩, ⟨5, true, 7, []⟩, ⟨30, false, 0, []⟩]⟩ 2
    = .ok (some 7) := by decide

#print axioms getFuncAST_lineOver
#print axioms getFuncAST_indexes_in_range
#print axioms getFuncAST_error_iff
#print axioms getFuncAST_inside_of_before
#print axioms getFuncAST_inside
#print axioms getFuncAST_stop_at_item
#print axioms getFuncAST_first_line_is_self
#print axioms getFuncAST_between_is_previous
#print axioms getFuncAST_above_first_is_none
#print axioms getFuncAST_after_last
#print axioms getFuncAST_before_package
#print axioms getFuncASTSrc_line01
#print axioms glue_getFuncAST

end PP.FA
