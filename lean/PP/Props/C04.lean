import PP.Lemmas.Greedy
/-
C04: `Snapshot.Aggregate` (bucket.go:42-107) partitions the goroutines and
conserves them, whatever the map iteration order (`ValidOracle π`) and whatever
`similar` does (no law of `similar` / `merge` is used here):
  * the bucket id lists together are a permutation of the goroutine ids;
  * every bucket is non-empty and its ids are sorted;
  * with distinct goroutine ids the buckets are pairwise disjoint;
  * a bucket is `first` iff it holds a `first` goroutine; exactly one bucket is
    `first` when exactly one goroutine is.
-/
namespace PP

theorem agg_ids_perm {π : Oracle} (hπ : ValidOracle π) (l : Lvl) (gs : List Goroutine) :
    ((aggregateWith π l gs).flatMap (·.ids)).Perm (gs.map (·.id)) := by
  refine ((aggregateWith_perm hπ l gs).flatMap_right (·.ids)).trans ?_
  refine (toBucket_ids_perm _).trans ?_
  simpa using bucketLoop_ids_perm hπ l gs 0 []

theorem agg_ids_sorted_nonempty {π : Oracle} (hπ : ValidOracle π) (l : Lvl) (gs : List Goroutine) :
    ∀ b ∈ aggregateWith π l gs, b.ids ≠ [] ∧ b.ids.Pairwise (· ≤ ·) := by
  intro b hb
  obtain ⟨k, hk, rfl⟩ := (mem_aggregateWith hπ l gs b).1 hb
  exact ⟨sortNat_ne_nil (bucketLoop_ids_ne_nil hπ l gs k hk), sortNat_sorted _⟩

theorem agg_ids_disjoint {π : Oracle} (hπ : ValidOracle π) (l : Lvl) (gs : List Goroutine) :
    (gs.map (·.id)).Nodup →
      (aggregateWith π l gs).Pairwise (fun a b => ∀ i, i ∈ a.ids → i ∉ b.ids) := by
  intro hnd
  have h : ((aggregateWith π l gs).flatMap (·.ids)).Nodup :=
    (agg_ids_perm hπ l gs).nodup_iff.2 hnd
  have h' := (List.pairwise_flatMap.1 h).2
  refine h'.imp ?_
  intro a b hab i hia hib
  exact hab i hia i hib rfl

theorem agg_first_iff {π : Oracle} (hπ : ValidOracle π) (l : Lvl) (gs : List Goroutine) :
    (gs.map (·.id)).Nodup → ∀ b ∈ aggregateWith π l gs,
      (b.first = true ↔ ∃ g ∈ gs, g.first = true ∧ g.id ∈ b.ids) := by
  intro hnd b hb
  obtain ⟨k, hk, rfl⟩ := (mem_aggregateWith hπ l gs b).1 hb
  have := (bucketLoop_firstInv hπ l gs hnd).2 k hk
  simpa [Bkt.toBucket, mem_sortNat] using this

theorem agg_one_first {π : Oracle} (hπ : ValidOracle π) (l : Lvl) (gs : List Goroutine) :
    (gs.map (·.id)).Nodup →
    (∃ g₀ ∈ gs, g₀.first = true ∧ ∀ g ∈ gs, g.first = true → g = g₀) →
    ∃ b₀ ∈ aggregateWith π l gs, b₀.first = true ∧
      ∀ b ∈ aggregateWith π l gs, b.first = true → b.ids = b₀.ids := by
  rintro hnd ⟨g₀, hg₀, hf₀, huniq⟩
  -- the bucket holding g₀
  have hin : g₀.id ∈ (aggregateWith π l gs).flatMap (·.ids) :=
    (agg_ids_perm hπ l gs).mem_iff.2 (List.mem_map_of_mem (f := (·.id)) hg₀)
  obtain ⟨b₀, hb₀, hi₀⟩ := List.mem_flatMap.1 hin
  refine ⟨b₀, hb₀, (agg_first_iff hπ l gs hnd b₀ hb₀).2 ⟨g₀, hg₀, hf₀, hi₀⟩, ?_⟩
  intro b hb hbf
  obtain ⟨g, hg, hgf, hgi⟩ := (agg_first_iff hπ l gs hnd b hb).1 hbf
  have e := huniq g hg hgf
  subst e
  rcases pairwise_mem_cases (agg_ids_disjoint hπ l gs hnd) b b₀ hb hb₀ with e | h | h
  · rw [e]
  · exact absurd hi₀ (h _ hgi)
  · exact absurd hgi (h _ hi₀)

/-! ### non-vacuity -/

section Example

/-- a one-frame signature `main.f(arg)` at line 10 -/
private def sigOf (v : Nat) (ptr : Bool) (line : Nat) : Signature :=
  { state := b!"chan receive",
    stack := { calls := [{ fn := { complete := b!"main.f" },
                           args := { values := [.scalar [] v ptr false false] },
                           remoteSrcPath := b!"/src/main.go", line := line }] } }

/-- goroutines 1 and 3 differ only in a pointer value; goroutine 2 sits on another line;
goroutine 7 repeats goroutine 1 -/
private def exGs : List Goroutine :=
  [ { sig := sigOf 0xc000012340 true 10, id := 1, first := true },
    { sig := sigOf 0xc000012340 true 12, id := 2 },
    { sig := sigOf 0xc000099990 true 10, id := 3 },
    { sig := sigOf 0xc000012340 true 10, id := 7 } ]

example : (exGs.map (·.id)).Nodup := by decide

private theorem exGs_one_first :
    ∃ g₀ ∈ exGs, g₀.first = true ∧ ∀ g ∈ exGs, g.first = true → g = g₀ := by
  refine ⟨_, List.mem_cons_self, rfl, ?_⟩
  intro g hg hf
  simp only [exGs, List.mem_cons, List.not_mem_nil, or_false] at hg
  rcases hg with rfl | rfl | rfl | rfl
  · rfl
  · exact absurd hf (by decide)
  · exact absurd hf (by decide)
  · exact absurd hf (by decide)

/-- all hypotheses of the C04 theorems hold on the example -/
example : ∃ b₀ ∈ aggregate .anyPointer exGs, b₀.first = true ∧
    ∀ b ∈ aggregate .anyPointer exGs, b.first = true → b.ids = b₀.ids :=
  agg_one_first validOracle_id _ _ (by decide) exGs_one_first

/-- at `.anyPointer` the pointer pair shares a bucket (3 goroutines), flagged first -/
example : (bucketLoop idOracle .anyPointer 0 [] exGs).map (fun b => (b.ids, b.first)) =
    [([1, 3, 7], true), ([2], false)] := by decide

/-- at `.exactLines` the pointer pair is split -/
example : (bucketLoop idOracle .exactLines 0 [] exGs).map (fun b => (b.ids, b.first)) =
    [([1, 7], true), ([2], false), ([3], false)] := by decide

/-- a different iteration order yields the same partition -/
example : (bucketLoop revOracle .anyPointer 0 [] exGs).map (fun b => (b.ids, b.first)) =
    [([1, 3, 7], true), ([2], false)] := by decide

/-- the same on the sorted output of `aggregate` (membership; `decide` does not
reduce through the well-founded `List.mergeSort`) -/
example : ∃ b ∈ aggregate .anyPointer exGs, b.ids = [1, 3, 7] ∧ b.first = true := by
  have h : ∃ k ∈ bucketLoop idOracle .anyPointer 0 [] exGs,
      k.toBucket.ids = [1, 3, 7] ∧ k.toBucket.first = true := by decide
  obtain ⟨k, hk, h1, h2⟩ := h
  exact ⟨k.toBucket, (mem_aggregateWith validOracle_id _ _ _).2 ⟨k, hk, rfl⟩, h1, h2⟩

end Example

end PP

#print axioms PP.agg_ids_perm
#print axioms PP.agg_ids_sorted_nonempty
#print axioms PP.agg_ids_disjoint
#print axioms PP.agg_first_iff
#print axioms PP.agg_one_first
