import PP.Lemmas.LoopLemmas
/-
C09 (second half) — the outcome of `ScanSnapshot` depends only on the byte content of the
stream and on its terminal error, not on how the bytes are delivered: the byte-level loop
through the reader model (`scanB` / `scanSnapshot`, any capacity `N > 0`, any retry bound, any
schedule whose runs of zero-length reads stay below the retry bound, error with or after the
last data) computes what the line-level loop (`scanL` / `scanSnapshotL`) computes on the
canonical line split `specLines` of the content.

`RefinesL` (lemma file):
  o.s = ol.s ∧ o.fwd = ol.fwd ∧ o.consumed = ol.consumed ∧ o.err = ol.err ∧
  o.panicked = ol.panicked.isSome ∧ o.suffix.isSome = ol.broke ∧
  (o.suffix.isSome → o.rd.buf = []) ∧
  (o.panicked = false → o.suffix.getD [] ++ (o.rd.buf ++ o.rd.src.rest) = itemsBytes ol.rest)
-/
namespace PP

/-- loop level, from any scanner state and any reader state satisfying the reader invariant -/
theorem scanB_eq_L (N retry : Nat) (hN : 0 < N) (fuel : Nat) (s : S) (fwd : Bytes)
    (cons : List Bytes) (rd : Rd) (o : OutB) (hG : Good N rd)
    (hR : maxZeroRun rd.src.sched < retry)
    (h : scanB N retry fuel s fwd cons rd = some o) :
    RefinesL o (scanL s fwd cons (specLines (rd.buf ++ rd.src.rest) rd.src.final)) :=
  scanB_refines N retry hN fuel s fwd cons rd o hG hR h

/-- the fuel built into `scanSnapshot` suffices -/
theorem scanSnapshot_total (N retry : Nat) (hN : 0 < N) (names : Bool) (src : Src)
    (hR : maxZeroRun src.sched < retry) : (scanSnapshot N retry names src).isSome = true := by
  have h := scanB_isSome N retry hN (src.rest.length + 2) {} [] [] { src := src }
    ⟨by simp, Or.inl rfl⟩ hR (by simp)
  unfold scanSnapshot
  cases hb : scanB N retry (src.rest.length + 2) {} [] [] { src := src } with
  | none => rw [hb] at h; simp at h
  | some o => rfl

/-- `ScanSnapshot` through the reader = `ScanSnapshot` on the canonical line split.
The remaining bytes (`suffix ++ unread`) are compared only when no panic occurred: on a panic
in `scan` the Go program has no result at all, and the two models differ in whether the
offending line still counts as unread. -/
theorem scanSnapshot_eq_L (N retry : Nat) (hN : 0 < N) (names : Bool) (src : Src)
    (hR : maxZeroRun src.sched < retry)
    (r : ScanResult) (h : scanSnapshot N retry names src = some r) :
    let rl := scanSnapshotL names src.rest src.final
    r.snap = rl.snap ∧ r.fwd = rl.fwd ∧ r.err = rl.err ∧ r.consumed = rl.consumed ∧
    r.state = rl.state ∧ r.panicked = rl.panicked ∧ r.suffix.isSome = rl.suffix.isSome ∧
    (r.panicked = false →
      r.suffix.getD [] ++ r.unread = rl.suffix.getD [] ++ rl.unread) := by
  unfold scanSnapshot at h
  cases hb : scanB N retry (src.rest.length + 2) {} [] [] { src := src } with
  | none => rw [hb] at h; simp at h
  | some o =>
    rw [hb] at h
    have href := scanB_refines N retry hN _ _ _ _ _ o ⟨by simp, Or.inl rfl⟩ hR hb
    simp only [List.nil_append] at href
    obtain ⟨h1, h2, h3, h4, h5, h6, h7, h8⟩ := href
    simp only [Option.some.injEq] at h
    subst h
    simp only [scanSnapshotL]
    refine ⟨by rw [h1], h2, h4, h3, by rw [h1], h5, ?_, ?_⟩
    · simp only [finishSuffix]
      rw [← h1, ← h6]
      cases hsf : o.suffix <;> cases hdn : (o.s.st == .done) <;> simp
    · intro hp
      have h8' := h8 hp
      simp only [finishSuffix]
      rw [← h1, ← h6, ← h8']
      cases hsf : o.suffix with
      | none => cases hdn : (o.s.st == .done) <;> simp
      | some x =>
        have := h7 (by simp [hsf])
        simp [this]

/-- delivery independence: two sources with the same content and terminal error give results
that agree on every field, whatever the capacities, retry bounds, schedules and the way the
error is reported. -/
theorem scan_delivery_indep (N₁ N₂ retry₁ retry₂ : Nat) (hN₁ : 0 < N₁) (hN₂ : 0 < N₂)
    (names : Bool) (s₁ s₂ : Src) (hrest : s₁.rest = s₂.rest) (hfinal : s₁.final = s₂.final)
    (hR₁ : maxZeroRun s₁.sched < retry₁) (hR₂ : maxZeroRun s₂.sched < retry₂) :
    ∃ r₁ r₂, scanSnapshot N₁ retry₁ names s₁ = some r₁ ∧ scanSnapshot N₂ retry₂ names s₂ = some r₂ ∧
      r₁.snap = r₂.snap ∧ r₁.fwd = r₂.fwd ∧ r₁.err = r₂.err ∧ r₁.consumed = r₂.consumed ∧
      r₁.state = r₂.state ∧ r₁.panicked = r₂.panicked ∧ r₁.suffix.isSome = r₂.suffix.isSome ∧
      (r₁.panicked = false →
        r₁.suffix.getD [] ++ r₁.unread = r₂.suffix.getD [] ++ r₂.unread) := by
  have t1 := scanSnapshot_total N₁ retry₁ hN₁ names s₁ hR₁
  have t2 := scanSnapshot_total N₂ retry₂ hN₂ names s₂ hR₂
  cases h1 : scanSnapshot N₁ retry₁ names s₁ with
  | none => rw [h1] at t1; simp at t1
  | some r₁ =>
    cases h2 : scanSnapshot N₂ retry₂ names s₂ with
    | none => rw [h2] at t2; simp at t2
    | some r₂ =>
      obtain ⟨a1, a2, a3, a4, a5, a6, a7, a8⟩ := scanSnapshot_eq_L N₁ retry₁ hN₁ names s₁ hR₁ r₁ h1
      obtain ⟨b1, b2, b3, b4, b5, b6, b7, b8⟩ := scanSnapshot_eq_L N₂ retry₂ hN₂ names s₂ hR₂ r₂ h2
      rw [hrest, hfinal] at a1 a2 a3 a4 a5 a6 a7 a8
      refine ⟨r₁, r₂, rfl, rfl, by rw [a1, b1], by rw [a2, b2], by rw [a3, b3], by rw [a4, b4],
        by rw [a5, b5], by rw [a6, b6], by rw [a7, b7], fun hp => ?_⟩
      rw [a8 hp, b8 (by rw [b6, ← a6]; exact hp)]

/-! ### Non-vacuity -/

section NonVacuity

private def dump1 : Bytes :=
  b!"panic: x\n\ngoroutine 1 [running]:\nmain.main()\n\t/a/b.go:12 +0x1\n\n\ntrailer\n"

/-- zero-length reads, small reads, error together with the last data, lines longer than the
4-byte buffer -/
private def srcA : Src :=
  { rest := dump1, sched := [1, 0, 0, 2, 100, 3], final := .eof, withData := true }
/-- one big read per `fill`, separate EOF, 64-byte buffer -/
private def srcB : Src := { rest := dump1, sched := [], final := .eof }

example : maxZeroRun srcA.sched < 100 ∧ maxZeroRun srcB.sched < 3 := by decide

/-- the two deliveries split the remaining bytes differently between `suffix` and the unread
part of the source, which is why the theorem compares `suffix ++ unread` -/
example : (scanSnapshot 4 100 false srcA).map
      (fun r => (r.fwd, r.suffix, r.unread, r.state, r.panicked)) =
    some (b!"panic: x\n\n", some b!"\nt", b!"railer\n", .done, false) := by decide
example : (scanSnapshot 64 3 false srcB).map
      (fun r => (r.fwd, r.suffix, r.unread, r.state, r.panicked)) =
    some (b!"panic: x\n\n", some b!"\n", b!"trailer\n", .done, false) := by decide
example : (fun r : ScanResult => (r.fwd, r.suffix, r.unread, r.state, r.panicked))
      (scanSnapshotL false dump1 .eof) =
    (b!"panic: x\n\n", some b!"\ntrailer\n", [], .done, false) := by decide

/-- the theorems apply to these sources -/
example : ∃ r₁ r₂, scanSnapshot 4 100 false srcA = some r₁ ∧ scanSnapshot 64 3 false srcB = some r₂ ∧
    r₁.snap = r₂.snap ∧ r₁.fwd = r₂.fwd ∧ r₁.err = r₂.err ∧ r₁.consumed = r₂.consumed ∧
    r₁.state = r₂.state ∧ r₁.panicked = r₂.panicked ∧ r₁.suffix.isSome = r₂.suffix.isSome ∧
    (r₁.panicked = false → r₁.suffix.getD [] ++ r₁.unread = r₂.suffix.getD [] ++ r₂.unread) :=
  scan_delivery_indep 4 64 100 3 (by decide) (by decide) false srcA srcB rfl rfl
    (by decide) (by decide)

/-- the hypothesis on zero-length reads is needed: with retry bound 2 the reader gives up with
`io.ErrNoProgress` inside the first line, and the outcome differs from the line-level one -/
example : (scanSnapshot 4 2 false { srcA with sched := [1, 0, 0, 2] }).map (fun r => (r.fwd, r.err)) =
    some (b!"p", some (.reader .noProgress)) := by decide

/-- why the remaining bytes are compared only without panic: when `scan` panics (here from a
state that is not reachable from the initial one) the reader has already consumed the line,
while the line-level loop still lists it in `rest` -/
example : (scanB 4 3 5 { st := .gotFunc } [] [] { src := { rest := b!"x\ny", sched := [] } }).map
      (fun o => (o.panicked, o.suffix, o.rd.buf ++ o.rd.src.rest)) = some (true, none, b!"y") ∧
    itemsBytes (scanL { st := .gotFunc } [] [] (specLines b!"x\ny" .eof)).rest = b!"x\ny" := by
  decide

end NonVacuity

end PP

#print axioms PP.scanB_eq_L
#print axioms PP.scanSnapshot_total
#print axioms PP.scanSnapshot_eq_L
#print axioms PP.scan_delivery_indep
