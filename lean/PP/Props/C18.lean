import PP.Lemmas.RootsUpd
import PP.Lemmas.RootsFind
import PP.Lemmas.RootsLayout
import PP.Lemmas.RootsSplit
import PP.Lemmas.RootsMulti
/-
C18  Path rebasing maps remote paths to the right local files and classes.

All statements hold for every file-system oracle, every goroot, every pair of
maps and every call (no well-formedness hypothesis), except where a hypothesis
is written out.
-/
namespace PP.C18
open PP Bytes

variable {c c' : Call} {goroot lg : Bytes} {gomods gopaths : AMap}

theorem updateLocations_true :
    c.updateLocations goroot lg gomods gopaths = (c', true) ↔
      c.updateLocations? goroot lg gomods gopaths = some c' := by
  unfold Call.updateLocations
  cases c.updateLocations? goroot lg gomods gopaths <;> simp

/-- The complete description of a successful update: which root, which
separator, and every field that was written. -/
theorem resolved_shape (h : c.updateLocations goroot lg gomods gopaths = (c', true)) :
    Resolved c goroot lg gomods gopaths c' :=
  updateLocations?_resolved (updateLocations_true.mp h)

/-- 1. A resolved local path ends with `/` + the relative path, and so does the
remote path. -/
theorem resolved_suffix (h : c.updateLocations goroot lg gomods gopaths = (c', true)) :
    hasSuffix c'.localSrcPath (b!"/" ++ c'.relSrcPath) = true ∧
    hasSuffix c'.localSrcPath c'.relSrcPath = true ∧
    hasSuffix c.remoteSrcPath (b!"/" ++ c'.relSrcPath) = true := by
  cases resolved_shape h with
  | goroot rel hg hr hc =>
    subst hc
    refine ⟨hasSuffix_iff.mpr ⟨lg ++ b!"/src", by simp [pathJoin_triple]⟩,
      hasSuffix_iff.mpr ⟨lg ++ b!"/src/", by simp [pathJoin_triple]⟩,
      hasSuffix_iff.mpr ⟨goroot ++ b!"/src", by simp [hr, srcSep]⟩⟩
  | src k rel hk hr hc =>
    subst hc
    refine ⟨hasSuffix_iff.mpr ⟨gopaths.get k ++ b!"/src", by simp [pathJoin_triple]⟩,
      hasSuffix_iff.mpr ⟨gopaths.get k ++ b!"/src/", by simp [pathJoin_triple]⟩,
      hasSuffix_iff.mpr ⟨k ++ b!"/src", by simp [hr, srcSep]⟩⟩
  | pkgmod k rel hk hr hc =>
    subst hc
    refine ⟨hasSuffix_iff.mpr ⟨gopaths.get k ++ b!"/pkg/mod", by simp [pathJoin_triple]⟩,
      hasSuffix_iff.mpr ⟨gopaths.get k ++ b!"/pkg/mod/", by simp [pathJoin_triple]⟩,
      hasSuffix_iff.mpr ⟨k ++ b!"/pkg/mod", by simp [hr, pkgmodSep]⟩⟩
  | gomod k rel hk hr hc =>
    subst hc
    refine ⟨hasSuffix_iff.mpr ⟨k, by simp [hr]⟩, hasSuffix_iff.mpr ⟨k ++ b!"/", by simp [hr]⟩,
      hasSuffix_iff.mpr ⟨k, by simp [hr]⟩⟩

/-- 1, module case: the local path is the remote path. -/
theorem resolved_gomod_local (h : c.updateLocations goroot lg gomods gopaths = (c', true))
    (hl : c'.location = .goMod) (hu : c.location = .unknown) :
    c'.localSrcPath = c.remoteSrcPath := by
  cases resolved_shape h with
  | goroot rel hg hr hc => subst hc; simp [setLoc, hu] at hl
  | src k rel hk hr hc => subst hc; simp [setLoc, hu] at hl
  | pkgmod k rel hk hr hc => subst hc; simp [setLoc, hu] at hl
  | gomod k rel hk hr hc => subst hc; rfl

/-- 2. The root used is one of the given roots and a prefix of the frame:
remote = root ++ sep ++ rel with sep one of `/src/`, `/pkg/mod/`, `/`. -/
theorem root_is_prefix (h : c.updateLocations goroot lg gomods gopaths = (c', true)) :
    ∃ root ∈ goroot :: (gopaths.keys ++ gomods.keys), ∃ sep ∈ [srcSep, pkgmodSep, b!"/"],
      c.remoteSrcPath = root ++ sep ++ c'.relSrcPath ∧
      hasPrefix c.remoteSrcPath (root ++ b!"/") = true := by
  cases resolved_shape h with
  | goroot rel hg hr hc =>
    subst hc
    exact ⟨goroot, by simp, srcSep, by simp, hr,
      hasPrefix_iff.mpr ⟨b!"src/" ++ rel, by simp [hr, srcSep]⟩⟩
  | src k rel hk hr hc =>
    subst hc
    exact ⟨k, by simp [hk], srcSep, by simp, hr,
      hasPrefix_iff.mpr ⟨b!"src/" ++ rel, by simp [hr, srcSep]⟩⟩
  | pkgmod k rel hk hr hc =>
    subst hc
    exact ⟨k, by simp [hk], pkgmodSep, by simp, hr,
      hasPrefix_iff.mpr ⟨b!"pkg/mod/" ++ rel, by simp [hr, pkgmodSep]⟩⟩
  | gomod k rel hk hr hc =>
    subst hc
    exact ⟨k, by simp [hk], b!"/", by simp, hr, hasPrefix_iff.mpr ⟨rel, by simp [hr]⟩⟩

/-- 3a. A location that was already set (the generated test main) is never
changed. -/
theorem location_kept (h : c.updateLocations goroot lg gomods gopaths = (c', true))
    (hl : c.location ≠ .unknown) : c'.location = c.location := by
  cases resolved_shape h <;> rename_i hc <;> subst hc <;> simp [setLoc, hl]

/-- 3b. From `unknown`, the class follows the branch. -/
theorem class_by_branch (h : c.updateLocations goroot lg gomods gopaths = (c', true))
    (hl : c.location = .unknown) :
    (c'.location = .stdlib ∧ goroot ≠ [] ∧ c.remoteSrcPath = goroot ++ srcSep ++ c'.relSrcPath ∧
        c'.localSrcPath = pathJoin [lg, b!"src", c'.relSrcPath]) ∨
    (c'.location = .gopath ∧ ∃ k ∈ gopaths.keys, c.remoteSrcPath = k ++ srcSep ++ c'.relSrcPath ∧
        c'.localSrcPath = pathJoin [gopaths.get k, b!"src", c'.relSrcPath]) ∨
    (c'.location = .goPkg ∧ ∃ k ∈ gopaths.keys, c.remoteSrcPath = k ++ pkgmodSep ++ c'.relSrcPath ∧
        c'.localSrcPath = pathJoin [gopaths.get k, b!"pkg/mod", c'.relSrcPath]) ∨
    (c'.location = .goMod ∧ ∃ k ∈ gomods.keys, c.remoteSrcPath = k ++ b!"/" ++ c'.relSrcPath ∧
        c'.localSrcPath = c.remoteSrcPath ∧ c'.importPath = gomodImport (gomods.get k) c'.relSrcPath) := by
  cases resolved_shape h with
  | goroot rel hg hr hc => subst hc; exact Or.inl ⟨by simp [setLoc, hl], hg, hr, rfl⟩
  | src k rel hk hr hc => subst hc; exact Or.inr (Or.inl ⟨by simp [setLoc, hl], k, hk, hr, rfl⟩)
  | pkgmod k rel hk hr hc =>
    subst hc; exact Or.inr (Or.inr (Or.inl ⟨by simp [setLoc, hl], k, hk, hr, rfl⟩))
  | gomod k rel hk hr hc =>
    subst hc; exact Or.inr (Or.inr (Or.inr ⟨by simp [setLoc, hl], k, hk, hr, rfl, rfl⟩))

/-- 3c. In the three GOROOT/GOPATH branches the import path is the directory of
the relative path (unchanged when the relative path has no directory). -/
theorem import_of_rel (h : c.updateLocations goroot lg gomods gopaths = (c', true))
    (hl : c'.location ≠ .goMod) (hu : c.location = .unknown) :
    c'.importPath = importOfRel c'.relSrcPath c.importPath := by
  cases resolved_shape h with
  | goroot rel hg hr hc => subst hc; rfl
  | src k rel hk hr hc => subst hc; rfl
  | pkgmod k rel hk hr hc => subst hc; rfl
  | gomod k rel hk hr hc => subst hc; simp [setLoc, hu] at hl

/-- 4. When `updateLocations` returns false no field is touched. -/
theorem unresolved_stays_unknown (h : (c.updateLocations goroot lg gomods gopaths).2 = false) :
    (c.updateLocations goroot lg gomods gopaths).1 = c := by
  unfold Call.updateLocations at h ⊢
  cases hu : c.updateLocations? goroot lg gomods gopaths with
  | none => rfl
  | some c' => simp [hu] at h

/-- 4'. It returns true exactly when the frame has a path and lies under one of
the roots (at a `/src/`, `/pkg/mod/`, resp. `/` boundary). -/
theorem resolved_iff :
    (c.updateLocations goroot lg gomods gopaths).2 = true ↔
      c.remoteSrcPath ≠ [] ∧
      ((goroot ≠ [] ∧ hasPrefix c.remoteSrcPath (goroot ++ srcSep) = true) ∨
       (∃ k ∈ gopaths.keys, hasPrefix c.remoteSrcPath (k ++ srcSep) = true ∨
          hasPrefix c.remoteSrcPath (k ++ pkgmodSep) = true) ∨
       (∃ k ∈ gomods.keys, hasPrefix c.remoteSrcPath (k ++ b!"/") = true)) := by
  constructor
  · intro h
    have h' : c.updateLocations goroot lg gomods gopaths =
        ((c.updateLocations goroot lg gomods gopaths).1, true) := by
      rw [← h]
    refine ⟨(updateLocations?_cases (updateLocations_true.mp h')).1, ?_⟩
    cases resolved_shape h' with
    | goroot rel hg hr hc => exact Or.inl ⟨hg, hasPrefix_iff.mpr ⟨rel, hr⟩⟩
    | src k rel hk hr hc => exact Or.inr (Or.inl ⟨k, hk, Or.inl (hasPrefix_iff.mpr ⟨rel, hr⟩)⟩)
    | pkgmod k rel hk hr hc => exact Or.inr (Or.inl ⟨k, hk, Or.inr (hasPrefix_iff.mpr ⟨rel, hr⟩)⟩)
    | gomod k rel hk hr hc => exact Or.inr (Or.inr ⟨k, hk, hasPrefix_iff.mpr ⟨rel, hr⟩⟩)
  · rintro ⟨hne, hroot⟩
    unfold Call.updateLocations
    cases hu : c.updateLocations? goroot lg gomods gopaths with
    | some c' => rfl
    | none =>
      exfalso
      unfold Call.updateLocations? at hu
      have hne' : (c.remoteSrcPath == []) = false := by simpa using hne
      simp only [hne', Bool.false_eq_true, if_false] at hu
      split at hu
      · cases hu
      · rename_i hg
        split at hu
        · cases hu
        · rename_i hp
          rcases hroot with ⟨hg1, hg2⟩ | ⟨k, hk, hk2⟩ | ⟨k, hk, hk2⟩
          · rcases tryGoroot_none hg with h | h
            · exact hg1 h
            · simp [hg2] at h
          · have := gopathLoop_none hp k (mem_sortedByLen.mpr hk)
            have e := @tryGopath_isSome c k (gopaths.get k)
            rw [this] at e
            rcases hk2 with h | h <;> simp [h] at e
          · have := gomodLoop_none hu k (mem_sortedByLen.mpr hk)
            have e := @tryGomod_isSome c k (gomods.get k)
            rw [this, hk2] at e
            simp at e

/-- 5. The go-test generated main is standard library from `Call.init` on … -/
theorem testmain_stdlib (c : Call) (path : Bytes) (line : Nat) (hp : path ≠ [])
    (h : (Call.init c path line).dirSrc = testMainSrc) :
    (Call.init c path line).location = .stdlib := by
  have key : ∀ c1 : Call,
      (if c1.dirSrc == testMainSrc then { c1 with location := Loc.stdlib } else c1).dirSrc = testMainSrc →
      (if c1.dirSrc == testMainSrc then { c1 with location := Loc.stdlib } else c1).location = .stdlib := by
    intro c1
    by_cases hc : c1.dirSrc == testMainSrc
    · simp [hc]
    · intro h1
      simp only [hc] at h1
      simp only [beq_iff_eq] at hc
      exact absurd h1 hc
  unfold Call.init at h ⊢
  have hp' : (path != []) = true := by simpa using hp
  simp only [hp', if_true] at h ⊢
  exact key _ h

/-- … and `updateLocations` keeps it, whatever the roots. -/
theorem testmain_kept (h : c.updateLocations goroot lg gomods gopaths = (c', b)) (hl : c.location = .stdlib) :
    c'.location = .stdlib := by
  cases b with
  | true => rw [location_kept h (by simp [hl]), hl]
  | false =>
    have h2 : (c.updateLocations goroot lg gomods gopaths).2 = false := by rw [h]
    have := unresolved_stays_unknown h2
    rw [h] at this
    simp only at this
    rw [this, hl]

/-- 6a. Among the GOPATH keys (resp. module keys) that are prefixes of the
frame at the right boundary, the longest one is used. -/
theorem innermost_root (h : c.updateLocations goroot lg gomods gopaths = (c', true)) :
    c.tryGoroot goroot lg = some c' ∨
    (∃ k ∈ gopaths.keys, c.tryGopath k (gopaths.get k) = some c' ∧
      ∀ k' ∈ gopaths.keys, (hasPrefix c.remoteSrcPath (k' ++ srcSep) = true ∨
        hasPrefix c.remoteSrcPath (k' ++ pkgmodSep) = true) → k'.length ≤ k.length) ∨
    (∃ k ∈ gomods.keys, c.tryGomod k (gomods.get k) = some c' ∧
      ∀ k' ∈ gomods.keys, hasPrefix c.remoteSrcPath (k' ++ b!"/") = true → k'.length ≤ k.length) := by
  obtain ⟨_, h | ⟨_, h⟩ | ⟨_, _, h⟩⟩ := updateLocations?_cases (updateLocations_true.mp h)
  · exact Or.inl h
  · right; left
    obtain ⟨pre, k, post, e, hk, hpre⟩ := gopathLoop_some h
    have hs := sortedByLen_pairwise gopaths
    rw [e, List.pairwise_append] at hs
    have hpost := (List.pairwise_cons.mp hs.2.1).1
    refine ⟨k, mem_sortedByLen.mp (e ▸ by simp), hk, ?_⟩
    intro k' hk' hm
    have hin : k' ∈ pre ++ k :: post := e ▸ mem_sortedByLen.mpr hk'
    simp only [List.mem_append, List.mem_cons] at hin
    rcases hin with hin | rfl | hin
    · have := hpre k' hin
      have e2 := @tryGopath_isSome c k' (gopaths.get k')
      rw [this] at e2
      rcases hm with hm | hm <;> simp [hm] at e2
    · exact Nat.le_refl _
    · exact lenLexLe_length (hpost k' hin)
  · right; right
    obtain ⟨pre, k, post, e, hk, hpre⟩ := gomodLoop_some h
    have hs := sortedByLen_pairwise gomods
    rw [e, List.pairwise_append] at hs
    have hpost := (List.pairwise_cons.mp hs.2.1).1
    refine ⟨k, mem_sortedByLen.mp (e ▸ by simp), hk, ?_⟩
    intro k' hk' hm
    have hin : k' ∈ pre ++ k :: post := e ▸ mem_sortedByLen.mpr hk'
    simp only [List.mem_append, List.mem_cons] at hin
    rcases hin with hin | rfl | hin
    · have := hpre k' hin
      have e2 := @tryGomod_isSome c k' (gomods.get k')
      rw [this, hm] at e2
      simp at e2
    · exact Nat.le_refl _
    · exact lenLexLe_length (hpost k' hin)

/-- 6b. Determinism w.r.t. map order: permuting the association lists (distinct
keys) does not change the result. -/
theorem updateLocations_perm {gomods' gopaths' : AMap}
    (pm : gomods.Perm gomods') (pp : gopaths.Perm gopaths') (ndm : gomods.Nodup) (ndp : gopaths.Nodup) :
    c.updateLocations goroot lg gomods gopaths = c.updateLocations goroot lg gomods' gopaths' := by
  unfold Call.updateLocations
  rw [updateLocations?_perm pm pp ndm ndp]

/-- 6b for a whole goroutine (stack and creator). -/
theorem goroutine_updateLocations_perm {gomods' gopaths' : AMap} (g : Goroutine)
    (pm : gomods.Perm gomods') (pp : gopaths.Perm gopaths') (ndm : gomods.Nodup) (ndp : gopaths.Nodup) :
    g.updateLocations goroot lg gomods gopaths = g.updateLocations goroot lg gomods' gopaths' := by
  have e : ∀ c : Call, c.updateLocations goroot lg gomods gopaths = c.updateLocations goroot lg gomods' gopaths' :=
    fun c => updateLocations_perm pm pp ndm ndp
  simp only [PP.Goroutine.updateLocations, Signature.updateLocations, Stack.updateLocations, e]

end PP.C18

namespace PP.C18
open PP Bytes

/-- 0. `findRoots` cannot panic: since the fix (`strings.HasSuffix(r, "/src")`
resp. `"/pkg/mod"` instead of `r != ""`) the slice expressions
`r[:len(r)-len(src)]` are in range, for every oracle and every dump. -/
theorem findRoots_no_panic (fs : FS) (s : Snapshot) : ∃ st, Snapshot.findRoots fs s = .ok st :=
  findRootsLoop_ok fs s.localGOROOT s.localGOPATHs _ _

/-- 0'. … and neither can `guessPaths`. -/
theorem guessPaths_no_panic (fs : FS) (s : Snapshot) : ∃ r, Snapshot.guessPaths fs s = .ok r := by
  obtain ⟨st, h⟩ := findRoots_no_panic fs s
  unfold Snapshot.guessPaths
  rw [h]
  exact ⟨_, rfl⟩

/-- the slice is valid whenever the suffix test succeeds -/
theorem hasSuffix_length_le {r suf : Bytes} (h : hasSuffix r suf = true) : suf.length ≤ r.length :=
  length_le_of_hasSuffix h

/-- 7. `findRoots` soundness, for every oracle (`RootWitness fs f loc suf k`:
`k ++ suf` is `parts[:i]` joined for some `0 < i < len(parts)`,
`parts = splitPath f`, and `loc/parts[i:]` is a file):
* `RemoteGOROOT` is what it was, or there is a stack frame file `f` such that
  `RemoteGOROOT ++ "/src"` is a proper prefix `parts[:i]` of its parts and the
  rest is a file under `LocalGOROOT/src`;
* every `RemoteGOPATHs` entry `(k, l)` has `l ∈ LocalGOPATHs` and such a witness
  with `k ++ "/src"` under `l/src`, or `k ++ "/pkg/mod"` under `l/pkg/mod`;
* every `LocalGomods` entry is a proper directory prefix `parts[:i]` of a stack
  frame file whose `go.mod` was read and matched `module` with that value, or
  `path.Dir(f)` of an existing frame file with value `main`. -/
theorem findRoots_sound (fs : FS) (s : Snapshot) {st : RootsState} (h : s.findRoots fs = .ok st) :
    (st.goroot = s.remoteGOROOT ∨
      ∃ f ∈ getFiles s.goroutines, RootWitness fs f (s.localGOROOT ++ srcDir) srcDir st.goroot) ∧
    (∀ kv ∈ st.gopaths, GopathOK fs s.localGOPATHs (getFiles s.goroutines) kv) ∧
    (∀ kv ∈ st.gomods, GomodOK fs (getFiles s.goroutines) kv) := by
  have hs : Sound fs s.localGOROOT s.localGOPATHs (getFiles s.goroutines) s.remoteGOROOT
      { goroot := s.remoteGOROOT } := ⟨Or.inl rfl, by simp, by simp⟩
  have := findRootsLoop_sound (getFiles s.goroutines) (fun _ h => h) hs h
  exact ⟨this.goroot, this.gopaths, this.gomods⟩

/-- 7, GOPATH, at the level of path components: for a detected entry `(k, l)`
there is a frame of some stack, with parts `parts = splitPath(path)`, and a cut
`0 < i < len(parts)` such that `k ++ "/src"` (resp. `k ++ "/pkg/mod"`) is exactly
`parts[:i]` joined, and `parts[i:]` joined exists under `l/src` (resp.
`l/pkg/mod`).  The cut is at a component boundary and what was removed from
`parts[:i]` to get `k` is the directory `/src` (resp. `/pkg/mod`) itself. -/
theorem detected_gopath_at_boundary (fs : FS) (s : Snapshot) {st : RootsState} (h : s.findRoots fs = .ok st)
    {k l : Bytes} (hk : (k, l) ∈ st.gopaths) :
    l ∈ s.localGOPATHs ∧ ∃ g ∈ s.goroutines, ∃ c ∈ g.sig.stack.calls,
      ∃ i, 0 < i ∧ i < (splitPath c.remoteSrcPath).length ∧
      ((k ++ srcDir = pathJoin ((splitPath c.remoteSrcPath).take i) ∧
          fs.isFile (l ++ srcDir ++ b!"/" ++ pathJoin ((splitPath c.remoteSrcPath).drop i)) = true) ∨
       (k ++ pkgmodDir = pathJoin ((splitPath c.remoteSrcPath).take i) ∧
          fs.isFile (l ++ pkgmodDir ++ b!"/" ++ pathJoin ((splitPath c.remoteSrcPath).drop i)) = true)) := by
  obtain ⟨hl, f, hf, hw⟩ := (findRoots_sound fs s h).2.1 _ hk
  obtain ⟨g, hg, c, hc, rfl⟩ := mem_getFiles.mp hf
  refine ⟨hl, g, hg, c, hc, ?_⟩
  rcases hw with ⟨i, h1, h2, h3, h4⟩ | ⟨i, h1, h2, h3, h4⟩
  · exact ⟨i, h1, h2, Or.inl ⟨h3, h4⟩⟩
  · exact ⟨i, h1, h2, Or.inr ⟨h3, h4⟩⟩

/-- 7, GOROOT, at the level of path components. -/
theorem detected_goroot_at_boundary (fs : FS) (s : Snapshot) {st : RootsState} (h : s.findRoots fs = .ok st)
    (hne : st.goroot ≠ s.remoteGOROOT) :
    ∃ g ∈ s.goroutines, ∃ c ∈ g.sig.stack.calls, ∃ i, 0 < i ∧ i < (splitPath c.remoteSrcPath).length ∧
      st.goroot ++ srcDir = pathJoin ((splitPath c.remoteSrcPath).take i) ∧
      fs.isFile (s.localGOROOT ++ srcDir ++ b!"/" ++ pathJoin ((splitPath c.remoteSrcPath).drop i)) = true := by
  rcases (findRoots_sound fs s h).1 with h1 | ⟨f, hf, hw⟩
  · exact absurd h1 hne
  · obtain ⟨g, hg, c, hc, rfl⟩ := mem_getFiles.mp hf
    exact ⟨g, hg, c, hc, hw⟩

/-- 7, the directory cut off really is the part `src`: when `k ++ "/src"` is
`parts[:i]` joined (`parts = splitPath f`, the shape given by
`detected_gopath_at_boundary` / `detected_goroot_at_boundary`) and `i ≥ 2`, then
`parts[i-1] = "src"` and `k` is `parts[:i-1]` joined — the cut is between two
parts of the frame's path. -/
theorem cut_is_src_part {f k : Bytes} {i : Nat} (h2 : 2 ≤ i) (hi : i ≤ (splitPath f).length)
    (h : k ++ srcDir = pathJoin ((splitPath f).take i)) :
    (splitPath f)[i - 1]? = some b!"src" ∧ k = pathJoin ((splitPath f).take (i - 1)) :=
  cut_last_part (x := b!"src") (splitPath_shape f) h2 hi (by decide) h

/-- … and for `i = 1` the first part (which keeps the leading slashes of the
path) is `k ++ "/src"` with `k` a run of `/` (`/src/fmt/print.go` gives the
root `""`). -/
theorem cut_in_first_part {f k : Bytes} (h : k ++ srcDir = pathJoin ((splitPath f).take 1)) :
    (splitPath f).head? = some (k ++ srcDir) ∧ ∀ c ∈ k, c = 47 := by
  have hs := (splitPath_shape f).head
  cases hp : splitPath f with
  | nil =>
    rw [hp] at h
    exact absurd (congrArg List.length h) (by simp [srcDir, pathJoin, Bytes.join])
  | cons a t =>
    rw [hp] at h hs
    have e : a = k ++ srcDir := h.symm
    refine ⟨by simp [e], ?_⟩
    have := hs a (by simp)
    rw [e] at this
    exact firstShape_cut (x := b!"src") this

/-- 7, `/pkg/mod`: when `k ++ "/pkg/mod"` is `parts[:i]` joined and `i ≥ 3`, then
`parts[i-2] = "pkg"`, `parts[i-1] = "mod"` and `k` is `parts[:i-2]` joined. -/
theorem cut_is_pkgmod_parts {f k : Bytes} {i : Nat} (h3 : 3 ≤ i) (hi : i ≤ (splitPath f).length)
    (h : k ++ pkgmodDir = pathJoin ((splitPath f).take i)) :
    (splitPath f)[i - 2]? = some b!"pkg" ∧ (splitPath f)[i - 1]? = some b!"mod" ∧
      k = pathJoin ((splitPath f).take (i - 2)) := by
  have h' : (k ++ b!"/pkg") ++ 47 :: b!"mod" = pathJoin ((splitPath f).take i) := by
    rw [← h]; simp [pkgmodDir]
  obtain ⟨e1, e2⟩ := cut_last_part (splitPath_shape f) (by omega) hi (by decide) h'
  obtain ⟨e3, e4⟩ := cut_last_part (k := k) (x := b!"pkg") (splitPath_shape f) (i := i - 1) (by omega) (by omega)
    (by decide) e2
  exact ⟨by rw [← e3]; congr 1, e1, by rw [e4]; congr 2⟩

/-- 7, "a detected root is a prefix of the frames it explains": a detected
GOPATH key is a prefix of the normalised path of a frame of some stack, followed
by `/src/` (resp. `/pkg/mod/`) and a path that exists under the local root. -/
theorem detected_gopath_is_prefix (fs : FS) (s : Snapshot) {st : RootsState} (h : s.findRoots fs = .ok st)
    {k l : Bytes} (hk : (k, l) ∈ st.gopaths) :
    l ∈ s.localGOPATHs ∧ ∃ g ∈ s.goroutines, ∃ c ∈ g.sig.stack.calls, ∃ rel,
      (pathJoin (splitPath c.remoteSrcPath) = k ++ srcSep ++ rel ∧
          fs.isFile (l ++ srcSep ++ rel) = true) ∨
      (pathJoin (splitPath c.remoteSrcPath) = k ++ pkgmodSep ++ rel ∧
          fs.isFile (l ++ pkgmodSep ++ rel) = true) := by
  obtain ⟨hl, f, hf, hw⟩ := (findRoots_sound fs s h).2.1 _ hk
  obtain ⟨g, hg, c, hc, rfl⟩ := mem_getFiles.mp hf
  refine ⟨hl, g, hg, c, hc, ?_⟩
  rcases hw with hw | hw
  · obtain ⟨rel, h2, h3⟩ := hw.prefix
    exact ⟨rel, Or.inl ⟨by rw [h2]; simp [srcDir, srcSep], by rw [← h3]; simp [srcDir, srcSep]⟩⟩
  · obtain ⟨rel, h2, h3⟩ := hw.prefix
    exact ⟨rel, Or.inr ⟨by rw [h2]; simp [pkgmodDir, pkgmodSep], by rw [← h3]; simp [pkgmodDir, pkgmodSep]⟩⟩

theorem detected_goroot_is_prefix (fs : FS) (s : Snapshot) {st : RootsState} (h : s.findRoots fs = .ok st)
    (hne : st.goroot ≠ s.remoteGOROOT) :
    ∃ g ∈ s.goroutines, ∃ c ∈ g.sig.stack.calls, ∃ rel,
      pathJoin (splitPath c.remoteSrcPath) = st.goroot ++ srcSep ++ rel ∧
      fs.isFile (s.localGOROOT ++ srcSep ++ rel) = true := by
  rcases (findRoots_sound fs s h).1 with h1 | ⟨f, hf, hw⟩
  · exact absurd h1 hne
  · obtain ⟨g, hg, c, hc, rfl⟩ := mem_getFiles.mp hf
    obtain ⟨rel, h2, h3⟩ := hw.prefix
    exact ⟨g, hg, c, hc, rel, by rw [h2]; simp [srcDir, srcSep], by rw [← h3]; simp [srcDir, srcSep]⟩

/-- 7, modules: a detected module root is a directory prefix of a stack frame
(`parts[:i]` joined) whose go.mod matched, or `path.Dir` of an existing frame. -/
theorem detected_gomod_is_prefix (fs : FS) (s : Snapshot) {st : RootsState} (h : s.findRoots fs = .ok st)
    {k v : Bytes} (hk : (k, v) ∈ st.gomods) :
    ∃ g ∈ s.goroutines, ∃ c ∈ g.sig.stack.calls,
      (∃ i b, 0 < i ∧ i < (splitPath c.remoteSrcPath).length ∧
        pathJoin (splitPath c.remoteSrcPath) = k ++ b!"/" ++ pathJoin ((splitPath c.remoteSrcPath).drop i) ∧
        fs.readFile (pathJoin [k, b!"go.mod"]) = some b ∧ reModule b = some v) ∨
      (fs.isFile c.remoteSrcPath = true ∧ k = pathDir c.remoteSrcPath ∧ v = b!"main") := by
  obtain ⟨f, hf, hw⟩ := (findRoots_sound fs s h).2.2 _ hk
  obtain ⟨g, hg, c, hc, rfl⟩ := mem_getFiles.mp hf
  refine ⟨g, hg, c, hc, ?_⟩
  rcases hw with ⟨i, b, h1, h2, h3, h4, h5⟩ | hw
  · left
    refine ⟨i, b, h1, h2, ?_, h4, h5⟩
    simp only at h3
    rw [h3, pathJoin_take_drop _ i h1 h2]
  · exact Or.inr hw

/-- On a path that `splitPath` does not alter (no empty element, no trailing
slash, valid UTF-8), the witness reads `f = root ++ "/src/" ++ rel`. -/
theorem witness_clean_src {f k rel : Bytes} (hclean : pathJoin (splitPath f) = f)
    (h : pathJoin (splitPath f) = k ++ srcSep ++ rel) :
    f = k ++ srcSep ++ rel := by
  rw [hclean] at h
  exact h

/-- 7, clean paths: when the frames' paths are clean (`splitPath` then `pathJoin`
gives the path back: no `//`, no trailing `/`, valid UTF-8), a detected GOPATH
entry `(k, l)` is literally a prefix of a frame of some stack:
`path = k ++ "/src/" ++ rel` with `l ++ "/src/" ++ rel` a file, or
`path = k ++ "/pkg/mod/" ++ rel` with `l ++ "/pkg/mod/" ++ rel` a file.  No
hypothesis on the bytes that were cut is needed any more. -/
theorem detected_gopath_clean (fs : FS) (s : Snapshot) {st : RootsState} (h : s.findRoots fs = .ok st)
    (hclean : ∀ g ∈ s.goroutines, ∀ c ∈ g.sig.stack.calls,
      pathJoin (splitPath c.remoteSrcPath) = c.remoteSrcPath)
    {k l : Bytes} (hk : (k, l) ∈ st.gopaths) :
    l ∈ s.localGOPATHs ∧ ∃ g ∈ s.goroutines, ∃ c ∈ g.sig.stack.calls, ∃ rel,
      (c.remoteSrcPath = k ++ srcSep ++ rel ∧ fs.isFile (l ++ srcSep ++ rel) = true) ∨
      (c.remoteSrcPath = k ++ pkgmodSep ++ rel ∧ fs.isFile (l ++ pkgmodSep ++ rel) = true) := by
  obtain ⟨hl, g, hg, c, hc, rel, hw⟩ := detected_gopath_is_prefix fs s h hk
  refine ⟨hl, g, hg, c, hc, rel, ?_⟩
  rw [hclean g hg c hc] at hw
  exact hw

/-- 7, clean paths, GOROOT: a `RemoteGOROOT` that `findRoots` set satisfies
`path = RemoteGOROOT ++ "/src/" ++ rel` for a frame of some stack, with
`LocalGOROOT ++ "/src/" ++ rel` a file. -/
theorem detected_goroot_clean (fs : FS) (s : Snapshot) {st : RootsState} (h : s.findRoots fs = .ok st)
    (hclean : ∀ g ∈ s.goroutines, ∀ c ∈ g.sig.stack.calls,
      pathJoin (splitPath c.remoteSrcPath) = c.remoteSrcPath)
    (hne : st.goroot ≠ s.remoteGOROOT) :
    ∃ g ∈ s.goroutines, ∃ c ∈ g.sig.stack.calls, ∃ rel,
      c.remoteSrcPath = st.goroot ++ srcSep ++ rel ∧ fs.isFile (s.localGOROOT ++ srcSep ++ rel) = true := by
  obtain ⟨g, hg, c, hc, rel, h1, h2⟩ := detected_goroot_is_prefix fs s h hne
  exact ⟨g, hg, c, hc, rel, by rw [← hclean g hg c hc]; exact h1, h2⟩

/-- `guessPaths` = `findRoots`, then `updateLocations` of every goroutine with
the roots found: the per-call theorems above apply to each frame. -/
theorem guessPaths_shape (fs : FS) (s s' : Snapshot) (b : Bool) (h : s.guessPaths fs = .ok (s', b)) :
    ∃ st, s.findRoots fs = .ok st ∧ s'.remoteGOROOT = st.goroot ∧ s'.remoteGOPATHs = st.gopaths ∧
      s'.localGomods = st.gomods ∧
      s'.goroutines = s.goroutines.map
        (fun g => (g.updateLocations st.goroot s.localGOROOT st.gomods st.gopaths).1) := by
  unfold Snapshot.guessPaths at h
  split at h
  · cases h
  · rename_i st hst
    simp only [Except.ok.injEq, Prod.mk.injEq] at h
    obtain ⟨rfl, _⟩ := h
    exact ⟨st, hst, rfl, rfl, rfl, by simp [List.map_map]⟩

end PP.C18

namespace PP.C18
open PP Bytes

/-- 8 (partial). Single-GOPATH layout, one frame.  Let the snapshot have
`LocalGOPATHs = [L]`, and let a stack frame `c` (class still unknown) have the
source path `f` whose parts are `pR ++ ["src"] ++ pRel`, i.e.
`f = R ++ "/src/" ++ rel` with `R = join pR`, `rel = join pRel`, where
* `splitPath` loses nothing on `f` (`clean`),
* `L/src/rel` is a file (`present`),
* no longer suffix of `f` is a file under `L/src` (`noSpurious`, the decidable
  side condition `noSpuriousSuffix`), and no suffix of `f` is a file under
  `LocalGOROOT/src` (`noGoroot`),
* among the roots finally detected, neither the remote GOROOT, nor a GOPATH key
  other than `R`, nor a module root is a prefix of `f` at its boundary
  (`NoOtherClaim`, a decidable condition on the outputs `RemoteGOROOT`,
  `RemoteGOPATHs`, `LocalGomods`).
Then `guessPaths` detects `R ↦ L` and the frame comes out with
`LocalSrcPath = L/src/rel`, `RelSrcPath = rel`, `ImportPath = dir(rel)`,
`Location = GOPATH`.

What the full statement would need: replacing `NoOtherClaim` (a condition on
what the other files of the dump made `findRoots` detect) and `noSpurious` /
`noGoroot` by hypotheses on the layout alone.  That is not true for arbitrary
disk contents: an accidental suffix collision (`L/src/x/src/a/b.go` next to
`L/src/a/b.go`, a user package `fmt/print.go` against GOROOT) defeats the
heuristic, a root nested in another root's `src` is shadowed when a file of the
outer root sorts first, and several local GOPATHs holding the same import path
are resolved by their order.  A full theorem has to assume a layout whose roots
are pairwise suffix-disjoint and not nested; the harness checks exactly that
family against the implementation. -/
theorem layout_correct_partial (fs : FS) (s s' : Snapshot) (b : Bool) {L f : Bytes} {pR pRel : List Bytes}
    (hgp : s.localGOPATHs = [L])
    (hguess : s.guessPaths fs = .ok (s', b))
    {g : Goroutine} (hg : g ∈ s.goroutines) {c : Call} (hc : c ∈ g.sig.stack.calls)
    (hf : c.remoteSrcPath = f) (hl : c.location = .unknown)
    (hlay : LayoutHyp fs s.localGOROOT L f pR pRel)
    (hno : NoOtherClaim { goroot := s'.remoteGOROOT, gopaths := s'.remoteGOPATHs, gomods := s'.localGomods }
            f (pathJoin pR)) :
    (pathJoin pR, L) ∈ s'.remoteGOPATHs ∧
    ∃ g' ∈ s'.goroutines, ∃ c' ∈ g'.sig.stack.calls,
      c' = { c with relSrcPath := pathJoin pRel,
                    localSrcPath := L ++ srcSep ++ pathJoin pRel,
                    importPath := importOfRel (pathJoin pRel) c.importPath,
                    location := .gopath } := by
  obtain ⟨st, hst, e1, e2, e3, e4⟩ := guessPaths_shape fs s s' b hguess
  have hno' : NoOtherClaim st f (pathJoin pR) :=
    ⟨e1 ▸ hno.goroot, fun k hk => hno.gopaths k (by rw [e2]; exact hk), fun k hk => hno.gomods k (by rw [e3]; exact hk)⟩
  have hfiles : f ∈ getFiles s.goroutines := mem_getFiles.mpr ⟨g, hg, c, hc, hf⟩
  have hloop : findRootsLoop fs s.localGOROOT [L] { goroot := s.remoteGOROOT } (getFiles s.goroutines) = .ok st := by
    rw [← hgp]; exact hst
  have hsound : Sound fs s.localGOROOT [L] (getFiles s.goroutines) s.remoteGOROOT { goroot := s.remoteGOROOT } :=
    ⟨Or.inl rfl, by simp, by simp⟩
  obtain ⟨hk, hv⟩ := hlay.final hsound hfiles hloop hno'
  have hupd := hlay.update hf hl hno' hk hv
  refine ⟨?_, ?_⟩
  · rw [e2, ← hv]; exact AMap.get_of_mem_keys hk
  · refine ⟨(g.updateLocations st.goroot s.localGOROOT st.gomods st.gopaths).1, ?_, ?_⟩
    · rw [e4]; exact List.mem_map_of_mem hg
    · refine ⟨(c.updateLocations st.goroot s.localGOROOT st.gomods st.gopaths).1, ?_, ?_⟩
      · simp only [PP.Goroutine.updateLocations, Signature.updateLocations, Stack.updateLocations, List.map_map]
        exact List.mem_map_of_mem (f := fun c => (c.updateLocations st.goroot s.localGOROOT st.gomods st.gopaths).1) hc
      · rw [hupd]
        simp [pathJoin_triple, srcSep]

end PP.C18

namespace PP.C18
open PP Bytes

/-- 9. Several roots at once.  A `Layout` gives the local GOROOT `lg`, the GOROOT
`rg` of the machine that produced the dump, the pairs `(R, L)` (remote GOPATH,
local GOPATH) in the order of `LocalGOPATHs`, and the module directories that
may be recorded (`mods`, empty for a layout without local modules).
Hypotheses (`MultiHyp`):
* the snapshot is configured with `LocalGOROOT = lg`, `LocalGOPATHs` = the `L`s,
  and `RemoteGOROOT` is empty or already `rg`;
* `lay.Disjoint` (decidable): for any two of the remote roots `rg`, the `R`s and
  the module directories, neither `a/` is a prefix of `b/` nor `b/` of `a/`;
* every file of the dump is `Tame` (tests on the answers of the probes): a probe of
  `findRoots` on it that succeeds gives a root of the layout — the GOROOT probe
  answers `rg/src` or nothing ending in `/src`, the loop over `LocalGOPATHs`
  answers a pair of `gps` or nothing, and a file claimed by neither probe
  finds only admitted `go.mod`s (none when `mods = []`) and, if it exists
  itself, its directory is an admitted `main` module or it is a clean path
  with a `go.mod` above it.
Conclusions, for `guessPaths`:
(a) only roots of the layout are recorded;
(b) every goroutine is updated with exactly these roots;
(c) for EVERY call `c` (a stack frame, or a creator frame), by the tree it lies in:
  * `rg/src/rel`, with `RemoteGOROOT = rg` beforehand or some file `w` of the dump
    for which the GOROOT probe answers `rg/src` (`DetectsGoroot`): `rg` is
    recorded and `c` gets `RelSrcPath = rel`, `LocalSrcPath = lg/src/rel`,
    `ImportPath = dir(rel)`, class Stdlib;
  * `R/src/rel`, with some file `w` of the dump under `R/src/` or `R/pkg/mod/`
    that the GOROOT probe does not claim and for which the loop over
    `LocalGOPATHs` answers `(R, L)` (`DetectsGopath`): `R ↦ L` is recorded and
    `c` gets `rel`, `L/src/rel`, `dir(rel)`, class GOPATH;
  * `R/pkg/mod/rel`, same witness: `rel`, `L/pkg/mod/rel`, `dir(rel)`, class GoPkg;
  * under no root of the layout (`Unclaimed`, decidable): `c` is left untouched
    and `updateLocations` returns false.
  A class that was already set (the generated test main: Stdlib) is kept
  (`setLoc`).
The witness `w` may be the frame's own file (`layout_correct_multi_frame_*`
below) or any other file of the dump under the same root: a frame whose own
file is missing locally is still rebased once its root is known.

Frames in local `go.mod` modules and in `go run` directories: same hypotheses,
`layout_correct_gomod` and `layout_correct_gorun` below.

Not covered: nested roots (a GOPATH, module or GOROOT inside another root —
rejected by `Disjoint`), and two local GOPATHs that both hold a frame's
relative path under different remote roots (excluded by the witness condition:
the loop over `LocalGOPATHs` must answer the pair of the layout). -/
theorem layout_correct_multi (fs : FS) (lay : Layout) (s s' : Snapshot) (b : Bool)
    (H : MultiHyp fs lay s) (hguess : s.guessPaths fs = .ok (s', b)) :
    (s'.remoteGOROOT = [] ∨ s'.remoteGOROOT = lay.rg) ∧
    (∀ kv ∈ s'.remoteGOPATHs, kv ∈ lay.gps) ∧
    (∀ kv ∈ s'.localGomods, kv ∈ lay.mods) ∧
    s'.goroutines = s.goroutines.map
      (fun g => (g.updateLocations s'.remoteGOROOT lay.lg s'.localGomods s'.remoteGOPATHs).1) ∧
    ∀ c : Call,
      (∀ rel, c.remoteSrcPath = lay.rg ++ srcSep ++ rel → lay.rg ≠ [] →
        (s.remoteGOROOT = lay.rg ∨ ∃ w ∈ getFiles s.goroutines, DetectsGoroot lay fs w) →
        s'.remoteGOROOT = lay.rg ∧
        c.updateLocations s'.remoteGOROOT lay.lg s'.localGomods s'.remoteGOPATHs =
          ({ c with relSrcPath := rel, localSrcPath := lay.lg ++ srcSep ++ rel,
                    importPath := importOfRel rel c.importPath, location := setLoc c .stdlib }, true)) ∧
      (∀ R L rel, c.remoteSrcPath = R ++ srcSep ++ rel →
        (∃ w ∈ getFiles s.goroutines, DetectsGopath lay fs w R L) →
        (R, L) ∈ s'.remoteGOPATHs ∧
        c.updateLocations s'.remoteGOROOT lay.lg s'.localGomods s'.remoteGOPATHs =
          ({ c with relSrcPath := rel, localSrcPath := L ++ srcSep ++ rel,
                    importPath := importOfRel rel c.importPath, location := setLoc c .gopath }, true)) ∧
      (∀ R L rel, c.remoteSrcPath = R ++ pkgmodSep ++ rel →
        (∃ w ∈ getFiles s.goroutines, DetectsGopath lay fs w R L) →
        (R, L) ∈ s'.remoteGOPATHs ∧
        c.updateLocations s'.remoteGOROOT lay.lg s'.localGomods s'.remoteGOPATHs =
          ({ c with relSrcPath := rel, localSrcPath := L ++ pkgmodSep ++ rel,
                    importPath := importOfRel rel c.importPath, location := setLoc c .goPkg }, true)) ∧
      (Unclaimed lay c.remoteSrcPath →
        c.updateLocations s'.remoteGOROOT lay.lg s'.localGomods s'.remoteGOPATHs = (c, false)) := by
  obtain ⟨st, hst, e1, e2, e3, e4⟩ := guessPaths_shape fs s s' b hguess
  have hfin : Inv lay st := H.inv hst
  have hloop := H.loop hst
  rw [e1, e2, e3]
  refine ⟨hfin.goroot, hfin.gopaths, hfin.gomods, by rw [e4, H.localGoroot], ?_⟩
  intro c
  refine ⟨?_, ?_, ?_, ?_⟩
  · intro rel hc hne hw
    have hg : st.goroot = lay.rg := by
      rcases hw with h0 | ⟨w, hwf, hw⟩
      · have := (findRootsLoop_mono _ hloop).goroot (by rw [h0]; exact hne)
        rw [this]; exact h0
      · exact hw.final H.disjoint hne H.tame hwf H.inv0 hloop
    refine ⟨hg, ?_⟩
    rw [hg]
    exact update_goroot hne hc
  · intro R L rel hc ⟨w, hwf, hw⟩
    obtain ⟨hk, hv⟩ := hw.final H.disjoint H.tame hwf H.inv0 hloop
    exact ⟨hv ▸ AMap.get_of_mem_keys hk, update_src H.disjoint hfin hc hk hv⟩
  · intro R L rel hc ⟨w, hwf, hw⟩
    obtain ⟨hk, hv⟩ := hw.final H.disjoint H.tame hwf H.inv0 hloop
    exact ⟨hv ▸ AMap.get_of_mem_keys hk, update_pkgmod H.disjoint hfin hc hk hv⟩
  · intro hu
    exact update_unclaimed hfin hu

end PP.C18

namespace PP.C18
open PP Bytes

/-- 9a. A stack frame under `R/src/` whose own file is the witness.  The side
conditions are on the probes `findRoots` makes on this file, in the order it
makes them: the GOROOT probe does not answer a path ending in `/src` (`hG`); for
every local GOPATH listed before `L`, neither its `/src` nor its `/pkg/mod` probe
answers a root (`hpre`); the probe under `L/src` answers `R/src` (`hhit`: the file
exists as `L/src/rel` and no longer suffix of the path exists under `L/src`, see
`isRootedIn_of_present`).  Probes that come later are not made and are not
constrained. -/
theorem layout_correct_multi_frame_gopath (fs : FS) (lay : Layout) (s s' : Snapshot) (b : Bool)
    (H : MultiHyp fs lay s) (hguess : s.guessPaths fs = .ok (s', b))
    {g : Goroutine} (hg : g ∈ s.goroutines) {c : Call} (hc : c ∈ g.sig.stack.calls)
    {R L rel : Bytes} {pre post : List (Bytes × Bytes)} (hgps : lay.gps = pre ++ (R, L) :: post)
    (hf : c.remoteSrcPath = R ++ srcSep ++ rel)
    (hG : hasSuffix (isRootedIn fs (lay.lg ++ srcDir) (splitPath c.remoteSrcPath)) srcDir = false)
    (hpre : ∀ p ∈ pre, QuietGopath fs (splitPath c.remoteSrcPath) p.2)
    (hhit : isRootedIn fs (L ++ srcDir) (splitPath c.remoteSrcPath) = R ++ srcDir) :
    (R, L) ∈ s'.remoteGOPATHs ∧
    c.updateLocations s'.remoteGOROOT lay.lg s'.localGomods s'.remoteGOPATHs =
      ({ c with relSrcPath := rel, localSrcPath := L ++ srcSep ++ rel,
                importPath := importOfRel rel c.importPath, location := setLoc c .gopath }, true) :=
  ((layout_correct_multi fs lay s s' b H hguess).2.2.2.2 c).2.1 R L rel hf
    ⟨c.remoteSrcPath, mem_getFiles.mpr ⟨g, hg, c, hc, rfl⟩, DetectsGopath.of_src_probe hgps hf hG hpre hhit⟩

/-- 9b. A stack frame under `R/pkg/mod/` (module cache) whose own file is the
witness: as 9a, and the probe under `L/src` answers nothing ending in `/src`
(`hq`) before the probe under `L/pkg/mod` answers `R/pkg/mod` (`hhit`). -/
theorem layout_correct_multi_frame_gopkg (fs : FS) (lay : Layout) (s s' : Snapshot) (b : Bool)
    (H : MultiHyp fs lay s) (hguess : s.guessPaths fs = .ok (s', b))
    {g : Goroutine} (hg : g ∈ s.goroutines) {c : Call} (hc : c ∈ g.sig.stack.calls)
    {R L rel : Bytes} {pre post : List (Bytes × Bytes)} (hgps : lay.gps = pre ++ (R, L) :: post)
    (hf : c.remoteSrcPath = R ++ pkgmodSep ++ rel)
    (hG : hasSuffix (isRootedIn fs (lay.lg ++ srcDir) (splitPath c.remoteSrcPath)) srcDir = false)
    (hpre : ∀ p ∈ pre, QuietGopath fs (splitPath c.remoteSrcPath) p.2)
    (hq : hasSuffix (isRootedIn fs (L ++ srcDir) (splitPath c.remoteSrcPath)) srcDir = false)
    (hhit : isRootedIn fs (L ++ pkgmodDir) (splitPath c.remoteSrcPath) = R ++ pkgmodDir) :
    (R, L) ∈ s'.remoteGOPATHs ∧
    c.updateLocations s'.remoteGOROOT lay.lg s'.localGomods s'.remoteGOPATHs =
      ({ c with relSrcPath := rel, localSrcPath := L ++ pkgmodSep ++ rel,
                importPath := importOfRel rel c.importPath, location := setLoc c .goPkg }, true) :=
  ((layout_correct_multi fs lay s s' b H hguess).2.2.2.2 c).2.2.1 R L rel hf
    ⟨c.remoteSrcPath, mem_getFiles.mpr ⟨g, hg, c, hc, rfl⟩,
      DetectsGopath.of_pkgmod_probe hgps hf hG hpre hq hhit⟩

/-- 9c. A stack frame under `rg/src/` whose own file is the witness: the probe
under `LocalGOROOT/src` answers `rg/src` (the file exists as `lg/src/rel` and no
longer suffix of the path exists under `lg/src`).  It is the first probe made,
so nothing else is constrained. -/
theorem layout_correct_multi_frame_stdlib (fs : FS) (lay : Layout) (s s' : Snapshot) (b : Bool)
    (H : MultiHyp fs lay s) (hguess : s.guessPaths fs = .ok (s', b)) (hne : lay.rg ≠ [])
    {g : Goroutine} (hg : g ∈ s.goroutines) {c : Call} (hc : c ∈ g.sig.stack.calls) {rel : Bytes}
    (hf : c.remoteSrcPath = lay.rg ++ srcSep ++ rel)
    (hhit : isRootedIn fs (lay.lg ++ srcDir) (splitPath c.remoteSrcPath) = lay.rg ++ srcDir) :
    s'.remoteGOROOT = lay.rg ∧
    c.updateLocations s'.remoteGOROOT lay.lg s'.localGomods s'.remoteGOPATHs =
      ({ c with relSrcPath := rel, localSrcPath := lay.lg ++ srcSep ++ rel,
                importPath := importOfRel rel c.importPath, location := setLoc c .stdlib }, true) :=
  ((layout_correct_multi fs lay s s' b H hguess).2.2.2.2 c).1 rel hf hne
    (Or.inr ⟨c.remoteSrcPath, mem_getFiles.mpr ⟨g, hg, c, hc, rfl⟩,
      ⟨by rw [hf]; exact hasPrefix_root_sep _ _ _, hhit⟩⟩)

end PP.C18

namespace PP.C18
open PP Bytes

/-- 10. Local `go.mod` modules, same hypotheses as `layout_correct_multi` (the
layout lists the module directories with their module paths in `mods`; they are
part of `Disjoint`).  For every call `c` whose path is `k/rel`, if some file
`w` of the dump is a clean path that neither the GOROOT probe nor the loop over
`LocalGOPATHs` claims, has `k` among its directories `parts[:i]`, `k/go.mod`
declares `module m` and no directory between `k` and `w` has a `go.mod`
(`DetectsGomod`), then `k ↦ m` is recorded and `c` gets `RelSrcPath = rel`,
`LocalSrcPath` = its remote path, `ImportPath = m/dir(rel)` (`m` when `rel` has no
directory), class GoMod.  Whatever the go.mod cache holds when `w` is reached
(`findModule_trace`): the cache only short-cuts directories without a `go.mod`. -/
theorem layout_correct_gomod (fs : FS) (lay : Layout) (s s' : Snapshot) (b : Bool)
    (H : MultiHyp fs lay s) (hguess : s.guessPaths fs = .ok (s', b))
    (c : Call) {k m rel : Bytes} (hc : c.remoteSrcPath = k ++ b!"/" ++ rel)
    (hw : ∃ w ∈ getFiles s.goroutines, DetectsGomod lay fs w k m) :
    (k, m) ∈ s'.localGomods ∧
    c.updateLocations s'.remoteGOROOT lay.lg s'.localGomods s'.remoteGOPATHs =
      ({ c with relSrcPath := rel, localSrcPath := c.remoteSrcPath,
                importPath := gomodImport m rel, location := setLoc c .goMod }, true) := by
  obtain ⟨st, hst, e1, e2, e3, _⟩ := guessPaths_shape fs s s' b hguess
  obtain ⟨w, hwf, hw⟩ := hw
  obtain ⟨hk, hv⟩ := hw.final H.disjoint H.tame hwf H.inv0 (H.loop hst)
  rw [e1, e2, e3]
  exact ⟨hv ▸ AMap.get_of_mem_keys hk, update_gomod H.disjoint (H.inv hst) hc hk hv⟩

/-- 10'. Files that exist under their own path and have no `go.mod` above them
(`go run`): when such a file `w` of the dump is claimed by neither probe
(`DetectsGorun`), `path.Dir(w) ↦ "main"` is recorded and every call whose path
is `path.Dir(w)/rel` gets `RelSrcPath = rel`, `LocalSrcPath` = its remote path,
`ImportPath = main/dir(rel)` (`main` when `rel` has no directory), class GoMod. -/
theorem layout_correct_gorun (fs : FS) (lay : Layout) (s s' : Snapshot) (b : Bool)
    (H : MultiHyp fs lay s) (hguess : s.guessPaths fs = .ok (s', b))
    (c : Call) {w rel : Bytes} (hwf : w ∈ getFiles s.goroutines) (hw : DetectsGorun lay fs w)
    (hc : c.remoteSrcPath = pathDir w ++ b!"/" ++ rel) :
    (pathDir w, b!"main") ∈ s'.localGomods ∧
    c.updateLocations s'.remoteGOROOT lay.lg s'.localGomods s'.remoteGOPATHs =
      ({ c with relSrcPath := rel, localSrcPath := c.remoteSrcPath,
                importPath := gomodImport b!"main" rel, location := setLoc c .goMod }, true) := by
  obtain ⟨st, hst, e1, e2, e3, _⟩ := guessPaths_shape fs s s' b hguess
  obtain ⟨hk, hv⟩ := hw.final H.disjoint H.tame hwf H.inv0 (H.loop hst)
  rw [e1, e2, e3]
  exact ⟨hv ▸ AMap.get_of_mem_keys hk, update_gomod H.disjoint (H.inv hst) hc hk hv⟩

end PP.C18

/-! ### non-vacuity -/
namespace PP.C18.Examples
open PP Bytes PP.C18

def fs : FS :=
  { isFile := fun p => p == b!"/L/src/p/a.go" || p == b!"/G/src/fmt/print.go" || p == b!"/w/m/x.go",
    readFile := fun p => if p == b!"/w/m/go.mod" then some b!"// c\r\nmodule  example.com/m\r\n" else none }

def call (p : Bytes) : Call := { remoteSrcPath := p }
def snap (ps : List Bytes) : Snapshot :=
  { goroutines := [{ sig := { stack := { calls := ps.map call } } }], localGOROOT := b!"/G", localGOPATHs := [b!"/L"] }

theorem sortedByLen_single (k v : Bytes) : sortedByLen [(k, v)] = [k] := by
  simp [sortedByLen, AMap.keys]

theorem sortedByLen_nested :
    sortedByLen [(b!"/r", b!"/L1"), (b!"/r/src/q", b!"/L2")] = [b!"/r/src/q", b!"/r"] := by
  simp [sortedByLen, AMap.keys, List.mergeSort, List.MergeSort.Internal.splitInTwo, lenLexLe]

/-- GOROOT branch -/
example : let r := (call b!"/g/src/fmt/print.go").updateLocations b!"/g" b!"/G" [] []
    (r.2, r.1.localSrcPath, r.1.relSrcPath, r.1.importPath, r.1.location) =
      (true, b!"/G/src/fmt/print.go", b!"fmt/print.go", b!"fmt", .stdlib) := by decide

/-- GOPATH branch -/
example : let r := (call b!"/r/src/p/a.go").updateLocations [] b!"/G" [] [(b!"/r", b!"/L")]
    (r.2, r.1.localSrcPath, r.1.relSrcPath, r.1.importPath, r.1.location) =
      (true, b!"/L/src/p/a.go", b!"p/a.go", b!"p", .gopath) := by
  unfold Call.updateLocations Call.updateLocations?
  rw [sortedByLen_single]
  decide

/-- nested roots: the innermost one is used whatever the order of the map -/
example : let r := (call b!"/r/src/q/src/z/f.go").updateLocations [] b!"/G" [] [(b!"/r", b!"/L1"), (b!"/r/src/q", b!"/L2")]
    (r.2, r.1.localSrcPath, r.1.relSrcPath) = (true, b!"/L2/src/z/f.go", b!"z/f.go") := by
  unfold Call.updateLocations Call.updateLocations?
  rw [sortedByLen_nested]
  decide

/-- under no root: untouched -/
example : ((call b!"/elsewhere/x.go").updateLocations b!"/g" b!"/G" [] []).2 = false := by
  have e : sortedByLen [] = [] := by simp [sortedByLen, AMap.keys]
  unfold Call.updateLocations Call.updateLocations?
  rw [e]
  decide

/-- the generated test main -/
example : (Call.init {} b!"/w/_test/_testmain.go" 1).dirSrc = testMainSrc := by decide
example : (Call.init {} b!"/w/_test/_testmain.go" 1).location = .stdlib := by decide
/-- the bare relative form is not recognised (`DirSrc` needs two slashes) -/
example : (Call.init {} b!"_test/_testmain.go" 1).location = .unknown := by decide

/-- findRoots on a GOPATH frame, a GOROOT frame and a go.mod frame -/
example : (snap [b!"/r/src/p/a.go", b!"/g/src/fmt/print.go", b!"/w/m/x.go"]).findRoots fs =
    .ok { goroot := b!"/g", gopaths := [(b!"/r", b!"/L")], gomods := [(b!"/w/m", b!"example.com/m")],
          missing := 0, cache := [b!"/w/m"] } := by rfl

/-- the hypotheses of `layout_correct_partial` are satisfiable -/
example : LayoutHyp fs b!"/G" b!"/L" b!"/r/src/p/a.go" [b!"/r"] [b!"p", b!"a.go"] := by
  refine ⟨by decide, by decide, by decide, by decide, by decide, ?_, ?_⟩
  · intro j h1 h2
    have : j = 1 := by simp at h2; omega
    subst this; decide
  · intro j h1 h2
    have hl : (splitPath b!"/r/src/p/a.go").length = 4 := by decide
    have h3 : j = 1 ∨ j = 2 ∨ j = 3 := by omega
    rcases h3 with rfl | rfl | rfl <;> decide

example : NoOtherClaim { goroot := b!"/g", gopaths := [(b!"/r", b!"/L")], gomods := [(b!"/w/m", b!"example.com/m")] }
    b!"/r/src/p/a.go" b!"/r" :=
  ⟨Or.inr (by decide), by intro k hk hne; simp [AMap.keys] at hk; exact absurd hk hne,
   by intro k hk; simp [AMap.keys] at hk; subst hk; decide⟩

/-- Before the fix the Go code panicked here (slice bounds out of range in
`findRoots`: `isRootedIn` answered `/x`, shorter than `/src`).  Now the frame
detects nothing and is counted as missing. -/
example : (snap [b!"/x/fmt/print.go"]).findRoots fs =
    .ok { goroot := [], gopaths := [], gomods := [], missing := 1, cache := [b!"/x", b!"/x/fmt"] } := by rfl

example : (match (snap [b!"/x/fmt/print.go"]).guessPaths fs with
    | .ok (s', b) => s'.remoteGOROOT == [] && b == false | .error _ => false) = true := by decide

/-- Before the fix a spurious suffix collision (`fmt/print.go` exists under the
local GOROOT) gave `RemoteGOROOT = "/"` for this frame.  Now `isRootedIn`
answers `/home`, which does not end with `/src`: nothing is detected. -/
example : isRootedIn fs b!"/G/src" (splitPath b!"/home/fmt/print.go") = b!"/home" := by decide
example : (snap [b!"/home/fmt/print.go"]).findRoots fs =
    .ok { goroot := [], gopaths := [], gomods := [], missing := 1, cache := [b!"/home", b!"/home/fmt"] } := by rfl

/-- the same file under a real `/src` is still detected -/
example : (match (snap [b!"/home/src/fmt/print.go"]).findRoots fs with
    | .ok st => st.goroot == b!"/home" && st.missing == 0 | .error _ => false) = true := by decide

/-- the hypotheses of `cut_is_src_part` / `cut_in_first_part` are satisfiable -/
example : b!"/r" ++ srcDir = pathJoin ((splitPath b!"/r/src/p/a.go").take 2) := by decide
example : b!"/r" ++ pkgmodDir = pathJoin ((splitPath b!"/r/pkg/mod/m@v1/a.go").take 3) := by decide
example : [] ++ srcDir = pathJoin ((splitPath b!"/src/fmt/print.go").take 1) := by decide
/-- a frame directly under `/src`: the root is `""`, the frame is not missing -/
example : (snap [b!"/src/fmt/print.go"]).findRoots fs =
    .ok { goroot := [], gopaths := [], gomods := [], missing := 0, cache := [] } := by rfl


/-! #### a layout with GOROOT, two GOPATHs and a module cache -/

/-- local disk: the standard library under `/G`, package `p` under the first
GOPATH `/L1`, package `q` and a module-cache copy of `m@v1` under the second
GOPATH `/L2`; no go.mod anywhere -/
def fsM : FS :=
  { isFile := fun p => p == b!"/G/src/fmt/print.go" || p == b!"/L1/src/p/a.go" ||
      p == b!"/L2/src/q/b.go" || p == b!"/L2/pkg/mod/m@v1/c.go",
    readFile := fun _ => none }

/-- the dump was produced under `/g` (GOROOT) and the GOPATHs `/r1`, `/r2` -/
def layM : Layout := { lg := b!"/G", rg := b!"/g", gps := [(b!"/r1", b!"/L1"), (b!"/r2", b!"/L2")] }

/-- one frame per tree, one frame under `/r1` whose file is missing locally (it
sorts before the witness of `/r1`, so it is probed, in vain, before the root is
known), one frame under no root -/
def snapM : Snapshot :=
  { goroutines := [{ sig := { stack := { calls := [b!"/g/src/fmt/print.go", b!"/r1/src/p/a.go",
      b!"/r2/src/q/b.go", b!"/r2/pkg/mod/m@v1/c.go", b!"/r1/src/a/gone.go", b!"/elsewhere/x.go"].map call } } }],
    localGOROOT := b!"/G", localGOPATHs := [b!"/L1", b!"/L2"] }

example : layM.Disjoint := by decide
/-- a remote GOPATH inside another one is rejected by `Disjoint` -/
example : ¬ ({ layM with gps := [(b!"/r1", b!"/L1"), (b!"/r1/src/q", b!"/L2")] } : Layout).Disjoint := by decide

theorem filesM : getFiles snapM.goroutines = [b!"/elsewhere/x.go", b!"/g/src/fmt/print.go",
    b!"/r1/src/a/gone.go", b!"/r1/src/p/a.go", b!"/r2/pkg/mod/m@v1/c.go", b!"/r2/src/q/b.go"] := by rfl

theorem detM_goroot : DetectsGoroot layM fsM b!"/g/src/fmt/print.go" := ⟨by decide, by decide⟩
theorem detM_r1 : DetectsGopath layM fsM b!"/r1/src/p/a.go" b!"/r1" b!"/L1" :=
  ⟨Or.inl (by decide), by decide, by rfl⟩
/-- second GOPATH, `/src` tree: the probes under `/L1` are made first and are silent -/
theorem detM_r2_src : DetectsGopath layM fsM b!"/r2/src/q/b.go" b!"/r2" b!"/L2" :=
  DetectsGopath.of_src_probe (pre := [(b!"/r1", b!"/L1")]) (post := []) (rel := b!"q/b.go") rfl (by decide) (by decide)
    (by intro p hp; simp at hp; subst hp; decide) (by decide)
/-- second GOPATH, module cache: moreover the probe under `/L2/src` is silent -/
theorem detM_r2_mod : DetectsGopath layM fsM b!"/r2/pkg/mod/m@v1/c.go" b!"/r2" b!"/L2" :=
  DetectsGopath.of_pkgmod_probe (pre := [(b!"/r1", b!"/L1")]) (post := []) (rel := b!"m@v1/c.go") rfl (by decide)
    (by decide) (by intro p hp; simp at hp; subst hp; decide) (by decide) (by decide)

/-- the probe condition read on the disk: `/L2/src/q/b.go` exists, and no longer
suffix of `/r2/src/q/b.go` exists under `/L2/src` -/
example : isRootedIn fsM b!"/L2/src" (splitPath b!"/r2/src/q/b.go") = b!"/r2" ++ b!"/" ++ pathJoin [b!"src"] :=
  isRootedIn_of_present (pR := [b!"/r2"]) (pDir := [b!"src"]) (pRel := [b!"q", b!"b.go"]) (by decide) (by decide)
    (by decide) (by decide) (by decide) (by decide)
    (by intro j h1 h2
        have : j = 1 := by simp at h2; omega
        subst this; decide)

theorem silentM (f : Bytes) (hf : f = b!"/elsewhere/x.go" ∨ f = b!"/r1/src/a/gone.go") : Tame layM fsM f := by
  apply tame_of_silent
  · rcases hf with rfl | rfl <;> decide
  · rcases hf with rfl | rfl <;> rfl
  · intro i _ _; rfl
  · rcases hf with rfl | rfl <;> decide

/-- every hypothesis of `layout_correct_multi` holds for this layout -/
theorem hypM : MultiHyp fsM layM snapM := by
  refine ⟨rfl, rfl, Or.inl rfl, by decide, ?_⟩
  intro f hf
  rw [filesM] at hf
  simp only [List.mem_cons, List.not_mem_nil, or_false] at hf
  rcases hf with rfl | rfl | rfl | rfl | rfl | rfl
  · exact silentM _ (Or.inl rfl)
  · exact detM_goroot.tame (by intro k l h; have e : findGopath fsM (splitPath b!"/g/src/fmt/print.go") layM.locals = .ok none := by rfl
                               rw [e] at h; cases h)
  · exact silentM _ (Or.inr rfl)
  · exact detM_r1.tame (by decide)
  · exact detM_r2_mod.tame (by decide)
  · exact detM_r2_src.tame (by decide)

example : Unclaimed layM b!"/elsewhere/x.go" := ⟨by decide, by decide, by decide⟩

/-- … and the theorem gives, for this dump: both GOPATHs and the GOROOT recorded,
each frame rebased into its tree — the frame whose file is missing locally too —
and the frame under no root left alone. -/
example (s' : Snapshot) (b : Bool) (h : snapM.guessPaths fsM = .ok (s', b)) :
    s'.remoteGOROOT = b!"/g" ∧ (b!"/r1", b!"/L1") ∈ s'.remoteGOPATHs ∧ (b!"/r2", b!"/L2") ∈ s'.remoteGOPATHs ∧
    (call b!"/g/src/fmt/print.go").updateLocations s'.remoteGOROOT b!"/G" s'.localGomods s'.remoteGOPATHs =
      ({ call b!"/g/src/fmt/print.go" with
           relSrcPath := b!"fmt/print.go", localSrcPath := b!"/G/src/fmt/print.go",
           importPath := b!"fmt", location := .stdlib }, true) ∧
    (call b!"/r2/pkg/mod/m@v1/c.go").updateLocations s'.remoteGOROOT b!"/G" s'.localGomods s'.remoteGOPATHs =
      ({ call b!"/r2/pkg/mod/m@v1/c.go" with
           relSrcPath := b!"m@v1/c.go", localSrcPath := b!"/L2/pkg/mod/m@v1/c.go",
           importPath := b!"m@v1", location := .goPkg }, true) ∧
    (call b!"/r1/src/a/gone.go").updateLocations s'.remoteGOROOT b!"/G" s'.localGomods s'.remoteGOPATHs =
      ({ call b!"/r1/src/a/gone.go" with
           relSrcPath := b!"a/gone.go", localSrcPath := b!"/L1/src/a/gone.go",
           importPath := b!"a", location := .gopath }, true) ∧
    (call b!"/elsewhere/x.go").updateLocations s'.remoteGOROOT b!"/G" s'.localGomods s'.remoteGOPATHs =
      (call b!"/elsewhere/x.go", false) := by
  have T := (layout_correct_multi fsM layM snapM s' b hypM h).2.2.2.2
  have hr1 : ∃ w ∈ getFiles snapM.goroutines, DetectsGopath layM fsM w b!"/r1" b!"/L1" :=
    ⟨_, by rw [filesM]; simp, detM_r1⟩
  have hr2 : ∃ w ∈ getFiles snapM.goroutines, DetectsGopath layM fsM w b!"/r2" b!"/L2" :=
    ⟨_, by rw [filesM]; simp, detM_r2_mod⟩
  have t1 := (T (call b!"/g/src/fmt/print.go")).1 b!"fmt/print.go" rfl (by decide)
    (Or.inr ⟨_, by rw [filesM]; simp, detM_goroot⟩)
  have t2 := (T (call b!"/r2/pkg/mod/m@v1/c.go")).2.2.1 b!"/r2" b!"/L2" b!"m@v1/c.go" rfl hr2
  have t3 := (T (call b!"/r1/src/a/gone.go")).2.1 b!"/r1" b!"/L1" b!"a/gone.go" rfl hr1
  have t4 := (T (call b!"/elsewhere/x.go")).2.2.2 ⟨by decide, by decide, by decide⟩
  exact ⟨t1.1, t3.1, t2.1, t1.2, t2.2, t3.2, t4⟩

/-- `guessPaths` does return, so the conclusions are about an actual result -/
example : ∃ s' b, snapM.guessPaths fsM = .ok (s', b) ∧ s'.remoteGOROOT = b!"/g" ∧
    (b!"/r2", b!"/L2") ∈ s'.remoteGOPATHs := by
  obtain ⟨⟨s', b⟩, h⟩ := guessPaths_no_panic fsM snapM
  have T := (layout_correct_multi fsM layM snapM s' b hypM h).2.2.2.2
  exact ⟨s', b, h,
    ((T (call b!"/g/src/fmt/print.go")).1 b!"fmt/print.go" rfl (by decide)
      (Or.inr ⟨_, by rw [filesM]; simp, detM_goroot⟩)).1,
    ((T (call b!"/r2/src/q/b.go")).2.1 b!"/r2" b!"/L2" b!"q/b.go" rfl ⟨_, by rw [filesM]; simp, detM_r2_src⟩).1⟩

/-- the executable model agrees (and the hypothesis `h` above is satisfiable) -/
example : snapM.findRoots fsM =
    .ok { goroot := b!"/g", gopaths := [(b!"/r1", b!"/L1"), (b!"/r2", b!"/L2")], gomods := [], missing := 2,
          cache := [b!"/r1", b!"/r1/src", b!"/r1/src/a", b!"/elsewhere"] } := by rfl


/-! #### the same with a local go.mod module and a `go run` file -/

def fsG : FS :=
  { isFile := fun p => p == b!"/G/src/fmt/print.go" || p == b!"/L1/src/p/a.go" ||
      p == b!"/w/m/sub/x.go" || p == b!"/w/m/y.go" || p == b!"/tmp/run/main.go",
    readFile := fun p => if p == b!"/w/m/go.mod" then some b!"module example.com/m\n" else none }

def layG : Layout :=
  { lg := b!"/G", rg := b!"/g", gps := [(b!"/r1", b!"/L1")],
    mods := [(b!"/w/m", b!"example.com/m"), (b!"/tmp/run", b!"main")] }

/-- `/w/a/z.go` is missing locally and sorts before the module's files: its walk
puts `/w/a` and `/w` in the go.mod cache before the module is looked for -/
def snapG : Snapshot :=
  { goroutines := [{ sig := { stack := { calls := [b!"/g/src/fmt/print.go", b!"/r1/src/p/a.go",
      b!"/w/m/sub/x.go", b!"/w/m/y.go", b!"/tmp/run/main.go", b!"/w/a/z.go"].map call } } }],
    localGOROOT := b!"/G", localGOPATHs := [b!"/L1"] }

example : layG.Disjoint := by decide

theorem filesG : getFiles snapG.goroutines = [b!"/g/src/fmt/print.go", b!"/r1/src/p/a.go",
    b!"/tmp/run/main.go", b!"/w/a/z.go", b!"/w/m/sub/x.go", b!"/w/m/y.go"] := by rfl

theorem detG_goroot : DetectsGoroot layG fsG b!"/g/src/fmt/print.go" := ⟨by decide, by decide⟩
theorem detG_r1 : DetectsGopath layG fsG b!"/r1/src/p/a.go" b!"/r1" b!"/L1" :=
  ⟨Or.inl (by decide), by decide, by rfl⟩

theorem detG_mod_x : DetectsGomod layG fsG b!"/w/m/sub/x.go" b!"/w/m" b!"example.com/m" := by
  refine ⟨by decide, by decide, by rfl, 2, by decide, by decide, by decide, by rfl, ?_⟩
  intro j h1 h2
  have hl : (splitPath b!"/w/m/sub/x.go").length = 4 := by decide
  have : j = 3 := by omega
  subst this; rfl

theorem detG_mod_y : DetectsGomod layG fsG b!"/w/m/y.go" b!"/w/m" b!"example.com/m" := by
  refine ⟨by decide, by decide, by rfl, 2, by decide, by decide, by decide, by rfl, ?_⟩
  intro j h1 h2
  have hl : (splitPath b!"/w/m/y.go").length = 3 := by decide
  omega

theorem nomodG (f : Bytes) (hf : f = b!"/tmp/run/main.go" ∨ f = b!"/w/a/z.go") (i : Nat) (h1 : 0 < i)
    (h2 : i < (splitPath f).length) : modAt fsG (pathJoin ((splitPath f).take i)) = none := by
  rcases hf with rfl | rfl
  · have hl : (splitPath b!"/tmp/run/main.go").length = 3 := by decide
    have hi : i = 1 ∨ i = 2 := by omega
    rcases hi with rfl | rfl <;> rfl
  · have hl : (splitPath b!"/w/a/z.go").length = 3 := by decide
    have hi : i = 1 ∨ i = 2 := by omega
    rcases hi with rfl | rfl <;> rfl

theorem detG_run : DetectsGorun layG fsG b!"/tmp/run/main.go" :=
  ⟨by decide, by decide, by rfl, nomodG _ (Or.inl rfl), by decide⟩

theorem modsG (f : Bytes) (hf : f = b!"/w/m/sub/x.go" ∨ f = b!"/w/m/y.go") (i : Nat) (m' : Bytes) (h1 : 0 < i)
    (h2 : i < (splitPath f).length) (h : modAt fsG (pathJoin ((splitPath f).take i)) = some m') :
    (pathJoin ((splitPath f).take i), m') ∈ layG.mods := by
  rcases hf with rfl | rfl
  · have hl : (splitPath b!"/w/m/sub/x.go").length = 4 := by decide
    have hi : i = 1 ∨ i = 2 ∨ i = 3 := by omega
    rcases hi with rfl | rfl | rfl
    · have e : modAt fsG (pathJoin ((splitPath b!"/w/m/sub/x.go").take 1)) = none := by rfl
      rw [e] at h; cases h
    · have e : modAt fsG (pathJoin ((splitPath b!"/w/m/sub/x.go").take 2)) = some b!"example.com/m" := by rfl
      rw [e] at h; cases h; decide
    · have e : modAt fsG (pathJoin ((splitPath b!"/w/m/sub/x.go").take 3)) = none := by rfl
      rw [e] at h; cases h
  · have hl : (splitPath b!"/w/m/y.go").length = 3 := by decide
    have hi : i = 1 ∨ i = 2 := by omega
    rcases hi with rfl | rfl
    · have e : modAt fsG (pathJoin ((splitPath b!"/w/m/y.go").take 1)) = none := by rfl
      rw [e] at h; cases h
    · have e : modAt fsG (pathJoin ((splitPath b!"/w/m/y.go").take 2)) = some b!"example.com/m" := by rfl
      rw [e] at h; cases h; decide

/-- every hypothesis of `layout_correct_multi` / `layout_correct_gomod` /
`layout_correct_gorun` holds for this layout -/
theorem hypG : MultiHyp fsG layG snapG := by
  refine ⟨rfl, rfl, Or.inl rfl, by decide, ?_⟩
  intro f hf
  rw [filesG] at hf
  simp only [List.mem_cons, List.not_mem_nil, or_false] at hf
  rcases hf with rfl | rfl | rfl | rfl | rfl | rfl
  · exact detG_goroot.tame (by intro k l h; have e : findGopath fsG (splitPath b!"/g/src/fmt/print.go") layG.locals = .ok none := by rfl
                               rw [e] at h; cases h)
  · exact detG_r1.tame (by decide)
  · exact detG_run.tame (by decide)
  · exact tame_of_silent (by decide) (by rfl) (nomodG _ (Or.inr rfl)) (by decide)
  · exact detG_mod_x.tame (modsG _ (Or.inl rfl))
  · exact detG_mod_y.tame (modsG _ (Or.inr rfl))

/-- … and the theorems give: the module and the `go run` directory recorded, the
frames in them classed GoMod with their own path as local path and the import
path built from the module path. -/
example (s' : Snapshot) (b : Bool) (h : snapG.guessPaths fsG = .ok (s', b)) :
    (b!"/w/m", b!"example.com/m") ∈ s'.localGomods ∧ (b!"/tmp/run", b!"main") ∈ s'.localGomods ∧
    (call b!"/w/m/sub/x.go").updateLocations s'.remoteGOROOT b!"/G" s'.localGomods s'.remoteGOPATHs =
      ({ call b!"/w/m/sub/x.go" with
           relSrcPath := b!"sub/x.go", localSrcPath := b!"/w/m/sub/x.go",
           importPath := b!"example.com/m/sub", location := .goMod }, true) ∧
    (call b!"/w/m/y.go").updateLocations s'.remoteGOROOT b!"/G" s'.localGomods s'.remoteGOPATHs =
      ({ call b!"/w/m/y.go" with
           relSrcPath := b!"y.go", localSrcPath := b!"/w/m/y.go",
           importPath := b!"example.com/m", location := .goMod }, true) ∧
    (call b!"/tmp/run/main.go").updateLocations s'.remoteGOROOT b!"/G" s'.localGomods s'.remoteGOPATHs =
      ({ call b!"/tmp/run/main.go" with
           relSrcPath := b!"main.go", localSrcPath := b!"/tmp/run/main.go",
           importPath := b!"main", location := .goMod }, true) := by
  have hx : ∃ w ∈ getFiles snapG.goroutines, DetectsGomod layG fsG w b!"/w/m" b!"example.com/m" :=
    ⟨_, by rw [filesG]; simp, detG_mod_x⟩
  have t1 := layout_correct_gomod fsG layG snapG s' b hypG h (call b!"/w/m/sub/x.go") (rel := b!"sub/x.go") rfl hx
  have t2 := layout_correct_gomod fsG layG snapG s' b hypG h (call b!"/w/m/y.go") (rel := b!"y.go") rfl hx
  have t3 := layout_correct_gorun fsG layG snapG s' b hypG h (call b!"/tmp/run/main.go") (w := b!"/tmp/run/main.go")
    (rel := b!"main.go") (by rw [filesG]; simp) detG_run (by decide)
  exact ⟨t1.1, t3.1, t1.2, t2.2, t3.2⟩

/-- the executable model agrees; the cache holds `/w` when the module is looked for -/
example : snapG.findRoots fsG =
    .ok { goroot := b!"/g", gopaths := [(b!"/r1", b!"/L1")],
          gomods := [(b!"/tmp/run", b!"main"), (b!"/w/m", b!"example.com/m")], missing := 1,
          cache := [b!"/w/m", b!"/w/m/sub", b!"/w", b!"/w/a", b!"/tmp", b!"/tmp/run"] } := by rfl


/-! #### what the witness condition excludes -/

/-- The same relative path in an EARLIER local GOPATH captures the remote root:
`/r2/src/q/b.go` exists under `/L2/src`, but also under `/L1/src`, which is
probed first.  `/r2 ↦ /L1` is recorded, and the second frame, which exists
only under `/L2`, is sent to a file that does not exist.  (`DetectsGopath`
fails: the loop answers `(/r2, /L1)`, not a pair of the layout.) -/
def fsDup : FS :=
  { isFile := fun p => p == b!"/L1/src/q/b.go" || p == b!"/L2/src/q/b.go" || p == b!"/L2/src/q/only2.go",
    readFile := fun _ => none }

example : findGopath fsDup (splitPath b!"/r2/src/q/b.go") [b!"/L1", b!"/L2"] = .ok (some (b!"/r2", b!"/L1")) := by rfl

example : ({ goroutines := [{ sig := { stack := { calls := [b!"/r2/src/q/b.go", b!"/r2/src/q/only2.go"].map call } } }],
             localGOROOT := b!"/G", localGOPATHs := [b!"/L1", b!"/L2"] } : Snapshot).findRoots fsDup =
    .ok { goroot := [], gopaths := [(b!"/r2", b!"/L1")], gomods := [], missing := 0, cache := [] } := by rfl

example : let r := (call b!"/r2/src/q/only2.go").updateLocations [] b!"/G" [] [(b!"/r2", b!"/L1")]
    (r.1.localSrcPath, fsDup.isFile r.1.localSrcPath, fsDup.isFile b!"/L2/src/q/only2.go") =
      (b!"/L1/src/q/only2.go", false, true) := by
  unfold Call.updateLocations Call.updateLocations?
  rw [sortedByLen_single]
  decide

end PP.C18.Examples

#print axioms PP.C18.resolved_shape
#print axioms PP.C18.resolved_suffix
#print axioms PP.C18.resolved_gomod_local
#print axioms PP.C18.root_is_prefix
#print axioms PP.C18.location_kept
#print axioms PP.C18.class_by_branch
#print axioms PP.C18.import_of_rel
#print axioms PP.C18.unresolved_stays_unknown
#print axioms PP.C18.resolved_iff
#print axioms PP.C18.testmain_stdlib
#print axioms PP.C18.testmain_kept
#print axioms PP.C18.innermost_root
#print axioms PP.C18.updateLocations_perm
#print axioms PP.C18.goroutine_updateLocations_perm
#print axioms PP.C18.findRoots_no_panic
#print axioms PP.C18.guessPaths_no_panic
#print axioms PP.C18.hasSuffix_length_le
#print axioms PP.C18.findRoots_sound
#print axioms PP.C18.detected_gopath_at_boundary
#print axioms PP.C18.detected_goroot_at_boundary
#print axioms PP.C18.cut_is_src_part
#print axioms PP.C18.cut_in_first_part
#print axioms PP.C18.cut_is_pkgmod_parts
#print axioms PP.C18.detected_gopath_is_prefix
#print axioms PP.C18.detected_goroot_is_prefix
#print axioms PP.C18.detected_gomod_is_prefix
#print axioms PP.C18.witness_clean_src
#print axioms PP.C18.detected_gopath_clean
#print axioms PP.C18.detected_goroot_clean
#print axioms PP.C18.guessPaths_shape
#print axioms PP.C18.layout_correct_partial
#print axioms PP.C18.layout_correct_multi
#print axioms PP.C18.layout_correct_multi_frame_gopath
#print axioms PP.C18.layout_correct_multi_frame_gopkg
#print axioms PP.C18.layout_correct_multi_frame_stdlib
#print axioms PP.C18.layout_correct_gomod
#print axioms PP.C18.layout_correct_gorun
