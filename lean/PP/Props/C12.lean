import PP.Lemmas.Generalise
import PP.Lemmas.Typed
import PP.Props.C05
/-
C12: the signature displayed for a bucket of `Snapshot.Aggregate` truthfully
generalises its members.  For every valid iteration-order oracle, every level
and every snapshot with distinct goroutine ids (and, where `similar` between
the key and the members is needed, well-formed signatures), for every bucket
`b` with `b.members gs = gs.filter (fun g => b.ids.contains g.id)`:
  * the sleep range shown is exactly the minimum and the maximum over the members;
  * the bucket is shown locked iff some member is locked;
  * state, frame count and, frame by frame, function / path / line / elided flag
    agree with every member; all call fields but the arguments, and `createdBy`,
    are those of the first member;
  * on the scalar arguments flattened in `walk` order (`Signature.flatArgs`):
    every member has the shape of the bucket; a position where all members agree
    is shown unchanged; a position where two members differ is shown as `*`;
    hence a position not shown as `*` holds the value of every member;
  * at the exact levels the arguments are those of every member verbatim;
  * the typed rendering of the arguments (`Args.Processed`, made by source analysis) is shown for
    a bucket only when nothing was generalised: the signature is the first member's verbatim and
    every other member is `equal` to it; as soon as one member differs no call shows one.
-/
namespace PP

/-- the range shown is exactly the min and the max over the members -/
theorem bucket_sleep_range {π : Oracle} (hπ : ValidOracle π) (l : Lvl) (gs : List Goroutine)
    (hnd : (gs.map (·.id)).Nodup) :
    ∀ b ∈ aggregateWith π l gs,
      (∀ g ∈ b.members gs, b.sig.sleepMin ≤ g.sig.sleepMin) ∧
      (∃ g ∈ b.members gs, g.sig.sleepMin = b.sig.sleepMin) ∧
      (∀ g ∈ b.members gs, g.sig.sleepMax ≤ b.sig.sleepMax) ∧
      (∃ g ∈ b.members gs, g.sig.sleepMax = b.sig.sleepMax) := by
  intro b hb
  have h := bucket_gen hπ l gs hnd b hb
  refine ⟨?_, ?_, ?_, ?_⟩
  · intro g hg
    exact h.minLe _ (List.mem_map_of_mem hg)
  · obtain ⟨m, hm, e⟩ := h.minAtt
    obtain ⟨g, hg, rfl⟩ := List.mem_map.1 hm
    exact ⟨g, hg, e⟩
  · intro g hg
    exact h.maxGe _ (List.mem_map_of_mem hg)
  · obtain ⟨m, hm, e⟩ := h.maxAtt
    obtain ⟨g, hg, rfl⟩ := List.mem_map.1 hm
    exact ⟨g, hg, e⟩

theorem bucket_locked_iff_any {π : Oracle} (hπ : ValidOracle π) (l : Lvl) (gs : List Goroutine)
    (hnd : (gs.map (·.id)).Nodup) :
    ∀ b ∈ aggregateWith π l gs,
      (b.sig.locked = true ↔ ∃ g ∈ b.members gs, g.sig.locked = true) := by
  intro b hb
  rw [(bucket_gen hπ l gs hnd b hb).locked]
  constructor
  · rintro ⟨m, hm, e⟩
    obtain ⟨g, hg, rfl⟩ := List.mem_map.1 hm
    exact ⟨g, hg, e⟩
  · rintro ⟨g, hg, e⟩
    exact ⟨g.sig, List.mem_map_of_mem hg, e⟩

/-- state, frame count and the compared fields of every frame agree with every member;
the creator stack is similar to every member's -/
theorem bucket_state_creator_frames {π : Oracle} (hπ : ValidOracle π) (l : Lvl)
    (gs : List Goroutine) (hnd : (gs.map (·.id)).Nodup) (hwf : ∀ g ∈ gs, g.sig.WF = true) :
    ∀ b ∈ aggregateWith π l gs, ∀ g ∈ b.members gs,
      b.sig.state = g.sig.state ∧ Stack.similar l b.sig.createdBy g.sig.createdBy = true ∧
      b.sig.stack.elided = g.sig.stack.elided ∧
      b.sig.stack.calls.length = g.sig.stack.calls.length ∧
      ∀ (i : Nat) (c c' : Call), b.sig.stack.calls[i]? = some c → g.sig.stack.calls[i]? = some c' →
        c.fn.complete = c'.fn.complete ∧ c.remoteSrcPath = c'.remoteSrcPath ∧ c.line = c'.line ∧
          c.args.elided = c'.args.elided := by
  intro b hb g hg
  obtain ⟨hg, hi⟩ := mem_members.1 hg
  exact Signature.similar_frames l _ _ (bucket_key_similar_members hπ l gs hnd hwf b hb g hg hi)

/-- every call field but the arguments, the state and the creator are those of the first
member verbatim -/
theorem bucket_fields_from_first_member {π : Oracle} (hπ : ValidOracle π) (l : Lvl)
    (gs : List Goroutine) (hnd : (gs.map (·.id)).Nodup) :
    ∀ b ∈ aggregateWith π l gs, ∃ g rest, b.members gs = g :: rest ∧
      b.sig.state = g.sig.state ∧ b.sig.createdBy = g.sig.createdBy ∧
      b.sig.stack.elided = g.sig.stack.elided ∧
      ∀ i : Nat, (b.sig.stack.calls[i]?).map Call.strip = (g.sig.stack.calls[i]?).map Call.strip := by
  intro b hb
  obtain ⟨m₀, rest, e, h1, h2, h3, h4⟩ := (bucket_gen hπ l gs hnd b hb).first
  obtain ⟨g, rest', e', rfl, _⟩ := List.map_eq_cons_iff.1 e
  refine ⟨g, rest', e', h1, h2, h3, ?_⟩
  intro i
  rw [← List.getElem?_map, ← List.getElem?_map, h4]

/-- every member has as many scalar arguments as the bucket shows -/
theorem flat_same_length {π : Oracle} (hπ : ValidOracle π) (l : Lvl) (gs : List Goroutine)
    (hnd : (gs.map (·.id)).Nodup) :
    ∀ b ∈ aggregateWith π l gs, ∀ g ∈ b.members gs,
      g.sig.flatArgs.length = b.sig.flatArgs.length := by
  intro b hb g hg
  exact (bucket_gen hπ l gs hnd b hb).len _ (List.mem_map_of_mem hg)

/-- a position at which two members differ is shown as `*` -/
theorem arg_star_if_differs {π : Oracle} (hπ : ValidOracle π) (l : Lvl) (gs : List Goroutine)
    (hnd : (gs.map (·.id)).Nodup) :
    ∀ b ∈ aggregateWith π l gs, ∀ i : Nat, ∀ g ∈ b.members gs, ∀ h ∈ b.members gs,
      g.sig.flatArgs[i]? ≠ h.sig.flatArgs[i]? →
        (b.sig.flatArgs[i]?).map Scalar.name = some star := by
  intro b hb i g hg h hh hne
  rcases (bucket_gen hπ l gs hnd b hb).args i with hA | ⟨hs, _⟩
  · exact absurd ((hA _ (List.mem_map_of_mem hg)).trans (hA _ (List.mem_map_of_mem hh)).symm) hne
  · exact hs

/-- a position at which all members agree is shown as it is in the members -/
theorem arg_unchanged_if_common {π : Oracle} (hπ : ValidOracle π) (l : Lvl) (gs : List Goroutine)
    (hnd : (gs.map (·.id)).Nodup) :
    ∀ b ∈ aggregateWith π l gs, ∀ i : Nat,
      (∀ g ∈ b.members gs, ∀ h ∈ b.members gs, g.sig.flatArgs[i]? = h.sig.flatArgs[i]?) →
        ∀ g ∈ b.members gs, b.sig.flatArgs[i]? = g.sig.flatArgs[i]? := by
  intro b hb i hall g hg
  rcases (bucket_gen hπ l gs hnd b hb).args i with hA | ⟨_, m, hm, m', hm', hne⟩
  · exact (hA _ (List.mem_map_of_mem hg)).symm
  · obtain ⟨g₁, hg₁, rfl⟩ := List.mem_map.1 hm
    obtain ⟨g₂, hg₂, rfl⟩ := List.mem_map.1 hm'
    exact absurd (hall g₁ hg₁ g₂ hg₂) hne

/-- converse of `arg_star_if_differs`: a position is shown as `*` only if two members differ
there, unless every member carries that very scalar (itself named `*`) -/
theorem arg_star_only_if_differs {π : Oracle} (hπ : ValidOracle π) (l : Lvl) (gs : List Goroutine)
    (hnd : (gs.map (·.id)).Nodup) :
    ∀ b ∈ aggregateWith π l gs, ∀ i : Nat, (b.sig.flatArgs[i]?).map Scalar.name = some star →
      (∃ g ∈ b.members gs, ∃ h ∈ b.members gs, g.sig.flatArgs[i]? ≠ h.sig.flatArgs[i]?) ∨
      (∀ g ∈ b.members gs, g.sig.flatArgs[i]? = b.sig.flatArgs[i]?) := by
  intro b hb i _
  rcases (bucket_gen hπ l gs hnd b hb).args i with hA | ⟨_, m, hm, m', hm', hne⟩
  · exact .inr (fun g hg => hA _ (List.mem_map_of_mem hg))
  · obtain ⟨g₁, hg₁, rfl⟩ := List.mem_map.1 hm
    obtain ⟨g₂, hg₂, rfl⟩ := List.mem_map.1 hm'
    exact .inl ⟨g₁, hg₁, g₂, hg₂, hne⟩

/-- safety: a scalar shown under a name other than `*` is the scalar of every member -/
theorem no_partial_value {π : Oracle} (hπ : ValidOracle π) (l : Lvl) (gs : List Goroutine)
    (hnd : (gs.map (·.id)).Nodup) :
    ∀ b ∈ aggregateWith π l gs, ∀ (i : Nat) (s : Scalar), b.sig.flatArgs[i]? = some s →
      s.name ≠ star → ∀ g ∈ b.members gs, g.sig.flatArgs[i]? = some s := by
  intro b hb i s hs hn g hg
  rcases (bucket_gen hπ l gs hnd b hb).args i with hA | ⟨hstar, _⟩
  · rw [← hs]; exact hA _ (List.mem_map_of_mem hg)
  · rw [hs] at hstar
    exact absurd (Option.some.inj hstar) hn

/-- at the exact levels the arguments shown are those of every member -/
theorem exact_levels_args_verbatim {π : Oracle} (hπ : ValidOracle π) (l : Lvl)
    (hl : l = .exactFlags ∨ l = .exactLines) (gs : List Goroutine)
    (hnd : (gs.map (·.id)).Nodup) (hwf : ∀ g ∈ gs, g.sig.WF = true) :
    ∀ b ∈ aggregateWith π l gs, ∀ g ∈ b.members gs, b.sig.flatArgs = g.sig.flatArgs := by
  intro b hb g hg
  obtain ⟨hg, hi⟩ := mem_members.1 hg
  exact Signature.flatArgs_eq_of_exact hl _ _
    (bucket_key_similar_members hπ l gs hnd hwf b hb g hg hi)

/-- at the exact levels nothing is ever starred -/
theorem exact_levels_no_star {π : Oracle} (hπ : ValidOracle π) (l : Lvl)
    (hl : l = .exactFlags ∨ l = .exactLines) (gs : List Goroutine)
    (hnd : (gs.map (·.id)).Nodup) (hwf : ∀ g ∈ gs, g.sig.WF = true) :
    (∀ g ∈ gs, ∀ s ∈ g.sig.flatArgs, s.name ≠ star) →
      ∀ b ∈ aggregateWith π l gs, ∀ s ∈ b.sig.flatArgs, s.name ≠ star := by
  intro hns b hb s hs
  obtain ⟨g, _, hg, _⟩ := bucket_fields_from_first_member hπ l gs hnd b hb
  have hgm : g ∈ b.members gs := by simp [hg]
  rw [exact_levels_args_verbatim hπ l hl gs hnd hwf b hb g hgm] at hs
  exact hns g (mem_members.1 hgm).1 s hs

/-- the typed rendering: a bucket one of whose calls shows typed arguments has the first member's
signature verbatim (typed arguments included), and every other member is `equal` to it — same
state, creator, lock flag, sleep range, frames and arguments at the strictest level -/
theorem typed_args_only_if_unmerged {π : Oracle} (hπ : ValidOracle π) (l : Lvl) (gs : List Goroutine)
    (hnd : (gs.map (·.id)).Nodup) :
    ∀ b ∈ aggregateWith π l gs, (∃ c ∈ b.sig.stack.calls, c.args.processed ≠ []) →
      ∃ g rest, b.members gs = g :: rest ∧ b.sig = g.sig ∧
        ∀ h ∈ rest, Signature.equal b.sig h.sig = true := by
  intro b hb ⟨c, hc, hne⟩
  rcases bucket_typed hπ l gs hnd b hb with ⟨m₀, rest, e, hk, hall⟩ | hno
  · obtain ⟨g, rest', e', rfl, rfl⟩ := List.map_eq_cons_iff.1 e
    exact ⟨g, rest', e', hk, fun h hh => hall _ (List.mem_map_of_mem hh)⟩
  · exact absurd (hno c hc) hne

/-- contrapositive, as the property puts it: as soon as two members differ in anything `equal`
looks at (e.g. one argument value), no call of the bucket shows typed arguments, so no typed
value held by only some members is presented as common -/
theorem no_typed_args_if_members_differ {π : Oracle} (hπ : ValidOracle π) (l : Lvl) (gs : List Goroutine)
    (hnd : (gs.map (·.id)).Nodup) :
    ∀ b ∈ aggregateWith π l gs, ∀ g rest, b.members gs = g :: rest →
      (∃ h ∈ rest, Signature.equal g.sig h.sig = false) →
        ∀ c ∈ b.sig.stack.calls, c.args.processed = [] := by
  intro b hb g rest hm ⟨h, hh, hne⟩ c hc
  rcases bucket_typed hπ l gs hnd b hb with ⟨m₀, rest', e, hk, hall⟩ | hno
  · rw [hm] at e
    simp only [List.map_cons, List.cons.injEq] at e
    obtain ⟨rfl, rfl⟩ := e
    have := hall _ (List.mem_map_of_mem (f := fun x : Goroutine => x.sig) hh)
    rw [hk, hne] at this
    exact absurd this (by simp)
  · exact hno c hc

/-! ### non-vacuity -/

section Example

/-- one frame `main.f(1, {2, {p, 3}}, 4)`: the pointer `p` sits two aggregates deep, at
position 2 of the flattened arguments -/
private def sigOf (p : Nat) (smin smax : Nat) (locked : Bool) : Signature :=
  { state := b!"select", sleepMin := smin, sleepMax := smax, locked := locked,
    stack := { calls := [{ fn := { complete := b!"main.f" },
                           args := { values :=
                             [.scalar [] 1 false false false,
                              .agg [.scalar [] 2 false false false,
                                    .agg [.scalar [] p true false false,
                                          .scalar [] 3 false false false] false] false,
                              .scalar [] 4 false false false] },
                           remoteSrcPath := b!"/src/main.go", line := 10,
                           srcName := b!"main.go" }] } }

/-- goroutines 1 and 2 differ in the nested pointer, in the sleep range and in the lock flag;
goroutine 7 repeats goroutine 1 -/
private def exGs : List Goroutine :=
  [ { sig := sigOf 0xc000012340 3 3 false, id := 1, first := true },
    { sig := sigOf 0xc000099990 10 12 true, id := 2 },
    { sig := sigOf 0xc000012340 3 3 false, id := 7 } ]

private theorem exGs_nodup : (exGs.map (·.id)).Nodup := by decide
private theorem exGs_wf : ∀ g ∈ exGs, g.sig.WF = true := by decide

/-- at `.anyPointer` the three share one bucket, showing sleep 3..12 and locked … -/
example : (bucketLoop idOracle .anyPointer 0 [] exGs).map
      (fun b => (b.ids, b.key.sleepMin, b.key.sleepMax, b.key.locked)) =
    [([1, 2, 7], 3, 12, true)] := by decide
/-- … with exactly the nested pointer starred, the other four scalars kept … -/
example : (bucketLoop idOracle .anyPointer 0 [] exGs).map
      (fun b => b.key.flatArgs.map (fun s => (s.name, s.value))) =
    [[([], 1), ([], 2), (star, 0xc000012340), ([], 3), ([], 4)]] := by decide
/-- … and every call field but the arguments copied from goroutine 1 -/
example : (bucketLoop idOracle .anyPointer 0 [] exGs).map
      (fun b => b.key.stack.calls.map (fun c => (c.fn.complete, c.line, c.srcName))) =
    [[(b!"main.f", 10, b!"main.go")]] := by decide
/-- at `.exactLines` goroutine 2 is on its own and nothing is starred -/
example : (bucketLoop idOracle .exactLines 0 [] exGs).map
      (fun b => (b.ids, b.key.sleepMin, b.key.sleepMax, b.key.locked)) =
    [([1, 7], 3, 3, false), ([2], 10, 12, true)] := by decide
example : (bucketLoop idOracle .exactLines 0 [] exGs).map
      (fun b => b.key.flatArgs.map Scalar.name) =
    [[[], [], [], [], []], [[], [], [], [], []]] := by decide

/-- the same goroutines after source analysis (every call carries a typed rendering) -/
private def typed (g : Goroutine) (r : Bytes) : Goroutine :=
  { g with sig := { g.sig with stack := { g.sig.stack with
      calls := g.sig.stack.calls.map (fun c => { c with args := { c.args with processed := [r] } }) } } }
private def exTyped : List Goroutine :=
  [typed exGs[0] b!"int(1), S{2, {*T(0xc000012340), 3}}, 4", typed exGs[2] b!"int(1), S{2, {*T(0xc000012340), 3}}, 4",
   typed exGs[1] b!"int(1), S{2, {*T(0xc000099990), 3}}, 4"]
/-- goroutines 1 and 7 are equal: at `.exactLines` their bucket keeps the typed rendering (and
`typed_args_only_if_unmerged` applies to it); at `.anyPointer` goroutine 2 joins, the pointer is
starred and no typed rendering is shown any more -/
example : (bucketLoop idOracle .exactLines 0 [] exTyped).map
      (fun b => (b.ids, b.key.stack.calls.map (fun c => c.args.processed.length))) =
    [([1, 7], [1]), ([2], [1])] := by decide
example : (bucketLoop idOracle .anyPointer 0 [] exTyped).map
      (fun b => (b.ids, b.key.stack.calls.map (fun c => c.args.processed.length))) =
    [([1, 7, 2], [0])] := by decide

/-- the members differ at position 2 and nowhere else -/
example : exGs[0].sig.flatArgs[2]? ≠ exGs[1].sig.flatArgs[2]?
    ∧ ∀ i, i ≠ 2 → exGs[0].sig.flatArgs[i]? = exGs[1].sig.flatArgs[i]? := by
  refine ⟨by decide, ?_⟩
  intro i hi
  match i with
  | 0 | 1 | 3 | 4 => decide
  | 2 => exact absurd rfl hi
  | n + 5 => simp [exGs, sigOf, Signature.flatArgs, Arg.flatL, Arg.flat]

/-- the theorems apply to `aggregate .anyPointer exGs`, under the reversed iteration order
as well: the bucket of goroutines 1 and 2 shows `*` at position 2, a sleep range covering
3..12 and the lock flag -/
example : ∃ b ∈ aggregateWith revOracle .anyPointer exGs,
    (b.sig.flatArgs[2]?).map Scalar.name = some star ∧
    b.sig.sleepMin ≤ 3 ∧ 12 ≤ b.sig.sleepMax ∧ b.sig.locked = true := by
  obtain ⟨b, hb, h1, h2⟩ :=
    (same_bucket_iff validOracle_rev .anyPointer exGs exGs_nodup exGs_wf
      exGs[0] (by simp [exGs]) exGs[1] (by simp [exGs])).2 (by decide)
  have m1 : exGs[0] ∈ b.members exGs := mem_members.2 ⟨by simp [exGs], h1⟩
  have m2 : exGs[1] ∈ b.members exGs := mem_members.2 ⟨by simp [exGs], h2⟩
  have hr := bucket_sleep_range validOracle_rev .anyPointer exGs exGs_nodup b hb
  exact ⟨b, hb,
    arg_star_if_differs validOracle_rev .anyPointer exGs exGs_nodup b hb 2 _ m1 _ m2 (by decide),
    hr.1 _ m1, hr.2.2.1 _ m2,
    (bucket_locked_iff_any validOracle_rev .anyPointer exGs exGs_nodup b hb).2 ⟨_, m2, by decide⟩⟩

end Example

end PP

#print axioms PP.bucket_sleep_range
#print axioms PP.bucket_locked_iff_any
#print axioms PP.bucket_state_creator_frames
#print axioms PP.bucket_fields_from_first_member
#print axioms PP.flat_same_length
#print axioms PP.arg_star_if_differs
#print axioms PP.arg_unchanged_if_common
#print axioms PP.arg_star_only_if_differs
#print axioms PP.no_partial_value
#print axioms PP.exact_levels_args_verbatim
#print axioms PP.exact_levels_no_star
#print axioms PP.typed_args_only_if_unmerged
#print axioms PP.no_typed_args_if_members_differ
