import PP.Lemmas.ScanInv
import PP.Lemmas.ScanLoop
import PP.Lemmas.ScanWF
import PP.Lemmas.FuncInitLemmas
import PP.Lemmas.AggSafe
import PP.Props.C09
import PP.Props.C13
/-
C03 — total robustness: no input can make the scanner, `Func.Init`, the
ScanSnapshot loop or `Aggregate` panic, and the loop terminates within the fuel
built into the model.  Only property statements live here; helpers are in
`PP/Lemmas/ScanInv.lean` (invariant, one lemma per scanner state),
`ScanLoop.lean`, `ScanWF.lean`, `FuncInitLemmas.lean`, `AggSafe.lean`.

The invariant (`PP.Inv`, defined in `ScanInv.lean`):
  `Inv s := InvAt s.st s.gs s.gi ∧ FirstOK s.gs` where
  * `InvAt` ties the state to the structure the Go code indexes into:
    `looking`/`gotRaceHeader1`/`gotRaceHeader2`: `gs = []`;
    `gotFunc`/`gotRaceOperationFunc`: `gs` has a last goroutine whose `Stack.Calls ≠ []`;
    `gotCreated`: the last goroutine has `CreatedBy.Calls ≠ []`;
    `gotRaceGoroutineHeader`/`File`: `gi < len(gs)`; `gotRaceGoroutineFunc`: moreover
    `gs[gi].CreatedBy.Calls ≠ []`; `done`: nothing; every other state: `gs ≠ []`.
  * `FirstOK gs`: `gs` is empty, or its head has `first = true` and no other element has
    (in every state, race states included).
-/
namespace PP
open Bytes

/-! ### 1. Invariant and step safety -/

theorem inv_init : Inv ({} : S) := inv_init'

/-- from a state satisfying the invariant, `scan` cannot panic on ANY `Line` record
(not only those `classify` produces), and re-establishes the invariant -/
theorem scan_safe (s : S) (l : Line) (h : Inv s) :
    ∃ s' p e, scan s l = .ok (s', p, e) ∧ Inv s' :=
  scan_stepOK s l h

theorem scanBytes_safe (s : S) (raw : Bytes) (h : Inv s) :
    ∃ s' p e, scanBytes s raw = .ok (s', p, e) ∧ Inv s' :=
  scan_stepOK s _ h

/-- what the invariant says about `first` -/
theorem inv_first (s : S) (h : Inv s) (i : Nat) (hi : i < s.gs.length) : s.gs[i].first = (i == 0) :=
  firstOK_get s.gs h.2 i hi

/-- no sequence of raw lines fed from the initial state reaches a panic, and only the
first goroutine of the result is marked `first`.  (`feed` = fold of `scanBytes`.)
The index is restricted to `i < gs.length`: beyond it `gs[i]?` is `none`. -/
theorem scan_first_flags (raws : List Bytes) :
    ∃ s', feed {} raws = .ok s' ∧
      ∀ i, i < s'.gs.length → (s'.gs[i]?).map (·.first) = some (i == 0) := by
  obtain ⟨s', h1, hi⟩ := feed_inv {} raws inv_init
  refine ⟨s', h1, fun i hlt => ?_⟩
  simp [hlt, inv_first s' hi i hlt]

/-! ### 2. `Func.Init` never panics -/

/-- the slice expressions `f.Complete[:endPkg]`, `f.Complete[endPkg+1:]` are always in range -/
theorem funcInit_no_slice (raw : Bytes) : funcInit raw ≠ .error .slice :=
  funcInit_ne_slice raw

theorem parseFunc_no_slice (line : Bytes) :
    ∀ c e, parseFunc line = some (c, some e) → e ≠ .funcSlice :=
  fun c e h => parseFunc_ne_funcSlice line c e h

theorem classify_no_slice (pfx raw : Bytes) :
    (classify pfx raw).created ≠ some (.error .funcSlice) ∧
    (∀ c e, (classify pfx raw).func = some (c, some e) → e ≠ .funcSlice) ∧
    (∀ c e, (classify pfx raw).funcL = some (c, some e) → e ≠ .funcSlice) :=
  ⟨classify_created_ne_funcSlice pfx raw, (classify_lineNoSlice pfx raw).1,
    (classify_lineNoSlice pfx raw).2.1⟩

/-- the error `scan` reports for a raw line is never the slice panic -/
theorem scanBytes_err_no_slice (s : S) (raw : Bytes) (s' : S) (p : Bool) (e : Err)
    (h : scanBytes s raw = .ok (s', p, some e)) : e ≠ .funcSlice :=
  scan_err_ne_funcSlice' s _ s' p e (classify_lineNoSlice _ _) h

/-! ### 3. Loop level -/

theorem scanL_no_panic_from (s : S) (fwd : Bytes) (cons : List Bytes)
    (items : List (Bytes × Option RErr)) (h : Inv s) :
    (scanL s fwd cons items).panicked = none ∧ Inv (scanL s fwd cons items).s :=
  scanL_panicked_none s fwd cons items h

theorem scanL_no_panic (items : List (Bytes × Option RErr)) :
    (scanL {} [] [] items).panicked = none :=
  (scanL_panicked_none {} [] [] items inv_init).1

theorem scanB_no_panic_from (N retry fuel : Nat) (s : S) (fwd : Bytes) (cons : List Bytes) (rd : Rd)
    (h : Inv s) (hb : rd.buf.length ≤ N) (o : OutB)
    (ho : scanB N retry fuel s fwd cons rd = some o) : o.panicked = false ∧ Inv o.s :=
  scanB_not_panicked N retry fuel s fwd cons rd h hb o ho

/-- neither the reader nor the scanner panics, for every capacity, retry bound, schedule -/
theorem scanB_no_panic (N retry fuel : Nat) (src : Src) (o : OutB)
    (ho : scanB N retry fuel {} [] [] { src := src } = some o) : o.panicked = false :=
  (scanB_not_panicked N retry fuel {} [] [] { src := src } inv_init (by simp) o ho).1

theorem scanSnapshot_no_panic (N retry : Nat) (nameArgs : Bool) (src : Src) (r : ScanResult)
    (h : scanSnapshot N retry nameArgs src = some r) : r.panicked = false := by
  unfold scanSnapshot at h
  split at h
  · cases h
  · rename_i o ho
    cases h
    exact scanB_no_panic N retry _ src o ho

theorem scanSnapshotL_no_panic (nameArgs : Bool) (bs : Bytes) (fin : RErr) :
    (scanSnapshotL nameArgs bs fin).panicked = false := by
  simp [scanSnapshotL, scanL_no_panic]

/-! ### 4. Progress / termination -/

/-- every iteration ends the loop or takes a non-empty line off the stream:
`buf.length + rest.length + 1` iterations suffice from any good reader state -/
theorem scanB_fuel_from (N retry fuel : Nat) (s : S) (fwd : Bytes) (cons : List Bytes) (rd : Rd)
    (hN : 0 < N) (hG : Good N rd) (hR : maxZeroRun rd.src.sched < retry)
    (hf : rd.buf.length + rd.src.rest.length + 1 ≤ fuel) :
    (scanB N retry fuel s fwd cons rd).isSome :=
  scanB_fuel_aux N retry fuel s fwd cons rd hN hG hR hf

/-- the fuel `scanSnapshot` passes (`+ 2`; `+ 1` is already enough) suffices
(`scanSnapshot_total` in `PP/Props/C09b.lean` is the consequence for `scanSnapshot`) -/
theorem scanB_fuel (N retry : Nat) (src : Src) (hN : 0 < N) (hR : maxZeroRun src.sched < retry) :
    (scanB N retry (src.rest.length + 2) {} [] [] { src := src }).isSome :=
  scanB_fuel_aux N retry _ {} [] [] { src := src } hN ⟨by simp, Or.inl rfl⟩ hR (by simp)

/-- `scanL` consumes at most one line per item -/
theorem scan_calls_le_lines (s : S) (fwd : Bytes) (cons : List Bytes)
    (items : List (Bytes × Option RErr)) :
    (scanL s fwd cons items).consumed.length ≤ cons.length + items.length :=
  scanL_consumed_le s fwd cons items

/-! ### 5. Aggregation totality -/

/-- every merge `Aggregate` performs has matching shapes and every `less` it evaluates stays
in range — for every goroutine list (well-formedness is not needed) -/
theorem aggregate_total (l : Lvl) (gs : List Goroutine) : aggregateSafe l gs = true := by
  simp only [aggregateSafe, aggregateSafe_go, Bool.true_and, List.all_eq_true]
  intro a _ b _
  exact sigLess_safe _ _

/-! ### 6. parse_wf -/

theorem parseArgs_wf (line : Bytes) (a : Args) : parseArgs line = .ok a → Arg.WFL a.values = true :=
  parseArgs_wfl line a

/-- `scan` keeps every signature well-formed on any line whose calls are -/
theorem scan_wf_line (s : S) (l : Line) (s' : S) (p : Bool) (e : Option Err)
    (hl : LineWF l) :
    (∀ g ∈ s.gs, g.sig.WF = true) → scan s l = .ok (s', p, e) → ∀ g ∈ s'.gs, g.sig.WF = true :=
  fun hs h => scan_allWF s l s' p e hs hl h

theorem scan_wf (s : S) (raw : Bytes) (s' : S) (p : Bool) (e : Option Err) :
    (∀ g ∈ s.gs, g.sig.WF = true) → scanBytes s raw = .ok (s', p, e) →
    ∀ g ∈ s'.gs, g.sig.WF = true :=
  fun hs h => scanBytes_allWF s raw s' p e hs h

/-- every goroutine of every snapshot the line-level loop returns is well-formed -/
theorem scanL_wf (items : List (Bytes × Option RErr)) :
    ∀ g ∈ (scanL {} [] [] items).s.gs, g.sig.WF = true :=
  scanL_preserves (fun s => AllWF s.gs) (fun s raw s' p e hs h => scanBytes_allWF s raw s' p e hs h)
    {} [] [] items (by intro g hg; simp at hg)

/-- the same through the reader -/
theorem scanB_wf (N retry fuel : Nat) (src : Src) (o : OutB)
    (ho : scanB N retry fuel {} [] [] { src := src } = some o) :
    ∀ g ∈ o.s.gs, g.sig.WF = true :=
  scanB_preserves (fun s => AllWF s.gs) (fun s raw s' p e hs h => scanBytes_allWF s raw s' p e hs h)
    N retry fuel {} [] [] { src := src } (by intro g hg; simp at hg) o ho

/-! ### Non-vacuity -/

section
set_option maxRecDepth 100000

/-- a header line leaves `looking` -/
example : (feed {} [b!"goroutine 1 [running]:\n"]).toOption.map (·.st) = some .gotRoutineHeader := by
  decide

/-- two goroutines: the invariant's non-trivial states are reached, flags are `[true, false]` -/
example : (feed {} [b!"goroutine 1 [running]:\n", b!"main.main()\n", b!"\t/tmp/x.go:12 +0x20\n",
      b!"\n", b!"goroutine 2 [running]:\n"]).toOption.map (fun s => (s.st, s.gs.map (·.first))) =
    some (.gotRoutineHeader, [true, false]) := by decide

/-- `gotFunc` is reached (the state whose `&cur.Stack.Calls[len-1]` needs the invariant) -/
example : (feed {} [b!"goroutine 1 [running]:\n", b!"main.main(0x1, _, {0x2, ...})\n"]).toOption.map
    (fun s => (s.st, s.gs.map (·.sig.stack.calls.length))) = some (.gotFunc, [1]) := by decide

/-- the race states are reached -/
example : (feed {} [b!"==================\n", b!"WARNING: DATA RACE\n",
      b!"Write at 0x00c000012345 by goroutine 7:\n", b!"  main.f()\n"]).toOption.map (·.st) =
    some .gotRaceOperationFunc := by decide

/-- without the invariant `scan` does panic: the hypothesis of `scan_safe` is needed -/
example : ∃ l, scan { st := .gotFunc } l = .error .nilCur :=
  ⟨{ hasEOL := true, indentOK := true, empty := false, header := none, sep := false, warn := false,
     unavail := false, func := none, funcL := none, file := none, created := none,
     elidedMark := false, raceOp := none, racePrev := none, raceGor := none }, rfl⟩

/-- `funcInit` with an escaped dot before the package separator: the adjusted `endPkg` is used -/
example : (funcInit b!"a%2eb.c").toOption.map (·.importPath) = some b!"a.b" := by decide
example : (match funcInit b!"a%2" with | .error e => some e | .ok _ => none) = some .escape := by decide

/-- `parseArgs` on a too-large argument and a nested aggregate -/
example : (parseArgs b!"0x1, _, {0x2, ...}").toOption.map (·.values.length) = some 3 := by decide

/-- the loop runs to completion on a small stream, for a tiny buffer -/
example : (scanB 4 100 (b!"goroutine 1 [running]:\nmain.main()\n".length + 2) {} [] []
    { src := { rest := b!"goroutine 1 [running]:\nmain.main()\n", sched := [] } }).map
      (fun o => (o.s.st, o.panicked)) = some (.gotFunc, false) := by decide
end

#print axioms inv_init
#print axioms scan_safe
#print axioms scanBytes_safe
#print axioms inv_first
#print axioms scan_first_flags
#print axioms funcInit_no_slice
#print axioms parseFunc_no_slice
#print axioms classify_no_slice
#print axioms scanBytes_err_no_slice
#print axioms scanL_no_panic_from
#print axioms scanL_no_panic
#print axioms scanB_no_panic_from
#print axioms scanB_no_panic
#print axioms scanSnapshot_no_panic
#print axioms scanSnapshotL_no_panic
#print axioms scanB_fuel_from
#print axioms scanB_fuel
#print axioms scan_calls_le_lines
#print axioms aggregate_total
#print axioms parseArgs_wf
#print axioms scan_wf_line
#print axioms scan_wf
#print axioms scanL_wf
#print axioms scanB_wf

end PP
