import PP.Lemmas.AliasRefine
/-
C14 (first half): snapshots are immutable under aggregation.

Stated over the explicit-heap model of `PP/Model/Alias.lean`, in which the
backing arrays of `[]Arg` / `[]Call` are heap cells, bucket keys start as
shallow copies of the goroutines' signatures (all slices shared) and every
`make` / element write of `Args.merge`, `Stack.merge` and `Aggregate` is an
explicit heap operation.

* `merge_frame`, `aggregate_frame`: every cell that existed before the call is
  unchanged after it — all writes target cells allocated during the call.
* `snapshot_unchanged`: the goroutines read out of the heap after aggregation
  are equal to what was read before, for every level, every goroutine list,
  every map iteration order, every fuel.
* a buggy in-place variant of `Args.merge` violates the frame property
  (so the property is not vacuous).
-/
namespace PP.Alias

/-- every write of `Signature.merge` (→ `Stack.merge` → `Call.merge` → `Args.merge`,
recursively) goes to a cell allocated during the call: all cells of `h` are
unchanged in the resulting heap.  No well-formedness needed: holds for dangling
and cyclic heaps, any fuel, and when `k` and `r` share cells. -/
theorem merge_frame (fuel : Nat) (h : Heap) (k r : HSig) :
    (∀ a, a < h.argCells.length →
        (mergeSigH fuel h k r).1.argCells[a]? = h.argCells[a]?) ∧
    (∀ a, a < h.callCells.length →
        (mergeSigH fuel h k r).1.callCells[a]? = h.callCells[a]?) :=
  let e := mergeSigH_ext fuel h k r
  ⟨e.1.2, e.2.2⟩

/-- the same for `Args.merge` alone, at any nesting level -/
theorem mergeArgs_frame (fuel : Nat) (h : Heap) (a r : HArgs) :
    (∀ x, x < h.argCells.length →
        (mergeArgsH fuel h a r).1.argCells[x]? = h.argCells[x]?) ∧
    (∀ x, x < h.callCells.length →
        (mergeArgsH fuel h a r).1.callCells[x]? = h.callCells[x]?) :=
  let e := mergeArgsH_ext fuel h a r
  ⟨e.1.2, e.2.2⟩

/-- `Aggregate` leaves every pre-existing cell unchanged, whatever the level, the
goroutine list and the map iteration order — including when bucket keys alias
the goroutines' slices (they always do initially: `insertGH`, `[]` case). -/
theorem aggregate_frame (π : HOracle) (fuel : Nat) (l : Lvl) (h : Heap) (gs : List HGoroutine) :
    (∀ a, a < h.argCells.length →
        (aggregateHWith π fuel l h gs).1.argCells[a]? = h.argCells[a]?) ∧
    (∀ a, a < h.callCells.length →
        (aggregateHWith π fuel l h gs).1.callCells[a]? = h.callCells[a]?) :=
  let e := aggregateHWith_ext π fuel l h gs
  ⟨e.1.2, e.2.2⟩

/-- the snapshot's goroutines are deep-equal before and after aggregation -/
theorem snapshot_unchanged (π : HOracle) (fuel : Nat) (l : Lvl) (h : Heap) (gs : List HGoroutine)
    {d : Nat} (hwf : HeapWF d h gs) (f : Nat) :
    absGoroutines f (aggregateHWith π fuel l h gs).1 gs = absGoroutines f h gs :=
  absGoroutines_ext (aggregateHWith_ext π fuel l h gs) hwf f

/-- … and they still only point into the heap -/
theorem snapshot_wf_preserved (π : HOracle) (fuel : Nat) (l : Lvl) (h : Heap)
    (gs : List HGoroutine) {d : Nat} (hwf : HeapWF d h gs) :
    HeapWF d (aggregateHWith π fuel l h gs).1 gs :=
  hwf.ext (aggregateHWith_ext π fuel l h gs)

/-- the same after any sequence of aggregations, at any levels, in any map orders -/
theorem snapshot_unchanged_seq (fuel : Nat) (gs : List HGoroutine) (ls : List (HOracle × Lvl))
    (h : Heap) {d : Nat} (hwf : HeapWF d h gs) (f : Nat) :
    (∀ a, a < h.argCells.length →
        (afterAggregations fuel gs ls h).argCells[a]? = h.argCells[a]?) ∧
    (∀ a, a < h.callCells.length →
        (afterAggregations fuel gs ls h).callCells[a]? = h.callCells[a]?) ∧
    absGoroutines f (afterAggregations fuel gs ls h) gs = absGoroutines f h gs :=
  let e := afterAggregations_ext fuel gs ls h
  ⟨e.1.2, e.2.2, absGoroutines_ext e hwf f⟩

/-! ### refinement: the heap version computes what the functional model computes -/

/-- `Signature.merge` over the heap, read back, is `Signature.merge` of the model; the
result is again well-formed.  `d` is both the fuel and the nesting bound of `wfSig`. -/
theorem merge_refines (d : Nat) (h : Heap) (k r : HSig)
    (hwk : wfSig d h k = true) (hwr : wfSig d h r = true) :
    absSig d (mergeSigH d h k r).1 (mergeSigH d h k r).2 =
      Signature.merge (absSig d h k) (absSig d h r) ∧
    wfSig d (mergeSigH d h k r).1 (mergeSigH d h k r).2 = true :=
  let s := mergeSigH_spec d h k r hwk hwr
  ⟨s.2.2, s.2.1⟩

/-- `Aggregate` over the heap, with keys aliasing the snapshot, computes exactly the
buckets of the functional model every other theorem is about -/
theorem aggregate_refines (d : Nat) (l : Lvl) (h : Heap) (gs : List HGoroutine)
    (hwf : HeapWF d h gs) :
    (aggregateH d l h gs).2.map (absBucket d (aggregateH d l h gs).1) =
      aggregateWith idOracle l (absGoroutines d h gs) :=
  aggregateH_spec d l h gs hwf

/-- aggregating again — after any sequence of aggregations at any levels — gives the
same buckets as aggregating the freshly parsed snapshot (the buckets are compared
read back: the new keys live at other addresses) -/
theorem aggregate_twice (d : Nat) (l : Lvl) (h : Heap) (gs : List HGoroutine)
    (hwf : HeapWF d h gs) (ls : List (HOracle × Lvl)) :
    (aggregateH d l (afterAggregations d gs ls h) gs).2.map
        (absBucket d (aggregateH d l (afterAggregations d gs ls h) gs).1) =
      (aggregateH d l h gs).2.map (absBucket d (aggregateH d l h gs).1) := by
  have e := afterAggregations_ext d gs ls h
  rw [aggregate_refines d l _ gs (hwf.ext e), aggregate_refines d l h gs hwf,
    absGoroutines_ext e hwf d]

/-- the nesting bound `d` can be any upper bound (so one fixed fuel serves all heaps
of smaller depth), and reading with more fuel than the depth changes nothing -/
theorem heapWF_mono (d : Nat) (h : Heap) (gs : List HGoroutine) (hwf : HeapWF d h gs) :
    HeapWF (d + 1) h gs ∧ ∀ f, d ≤ f → absGoroutines f h gs = absGoroutines d h gs :=
  ⟨hwf.succ, absGoroutines_fuel hwf⟩

/-! ### the frame property can fail: merging in place -/

section InPlace

/-- receiver `f(0xc000012340)` at address 0, argument `f(0xc000099990)` at address 1 -/
private def ipHeap : Heap :=
  { argCells := [[.scalar [] 0xc000012340 true false false],
                 [.scalar [] 0xc000099990 true false false]] }

/-- the in-place variant overwrites the receiver's cell 0 with `*` … -/
example :
    (mergeArgsInPlaceH 1 ipHeap { values := some 0 } { values := some 1 }).1.argCells[0]? =
      some [.scalar star 0xc000012340 true false false] := by decide

example :
    (mergeArgsInPlaceH 1 ipHeap { values := some 0 } { values := some 1 }).1.argCells[0]? ≠
      ipHeap.argCells[0]? := by decide

/-- … while the real `Args.merge` on the same input leaves cells 0 and 1 alone and puts
the `*` into the new cell 2 -/
example :
    (mergeArgsH 1 ipHeap { values := some 0 } { values := some 1 }) =
      ({ argCells := ipHeap.argCells ++ [[.scalar star 0xc000012340 true false false]] },
       { values := some 2 }) := by decide

end InPlace

/-! ### non-vacuity: aggregation with aliasing keys -/

section Example

private def exCall (args : Addr) : HCall :=
  { fn := { complete := b!"main.f" }, args := { values := some args },
    remoteSrcPath := b!"/src/main.go", line := 10 }

/-- two goroutines `main.f({0xc0000…}, 5)` sharing no cell; they differ in the pointer
inside the nested aggregate -/
private def exHeap : Heap :=
  { argCells := [ [.scalar [] 0xc000012340 true false false],                  -- 0: g1 {…}
                  [.agg (some 0) false, .scalar [] 5 false false false],        -- 1: g1 args
                  [.scalar [] 0xc000099990 true false false],                  -- 2: g2 {…}
                  [.agg (some 2) false, .scalar [] 5 false false false] ],      -- 3: g2 args
    callCells := [ [exCall 1],                                                  -- 0: g1 stack
                   [exCall 3] ] }                                               -- 1: g2 stack

private def exGs : List HGoroutine :=
  [ { sig := { state := b!"chan receive", stack := { calls := some 0 } }, id := 1, first := true },
    { sig := { state := b!"chan receive", stack := { calls := some 1 } }, id := 2 } ]

/-- the hypotheses of `snapshot_unchanged` hold -/
private theorem exWF : HeapWF 2 exHeap exGs := by
  intro g hg
  simp only [exGs, List.mem_cons, List.not_mem_nil, or_false] at hg
  rcases hg with rfl | rfl <;> decide

/-- the heap after `Aggregate(AnyPointer)`: the six old cells are unchanged, the merged
key lives in three new ones (call cell 2 → arg cell 4 → nested arg cell 5) -/
private def exHeap' : Heap :=
  { argCells := exHeap.argCells ++
      [ [.agg (some 5) false, .scalar [] 5 false false false],                  -- 4: key args
        [.scalar star 0xc000012340 true false false] ],                         -- 5: key {*}
    callCells := exHeap.callCells ++
      [ [{ exCall 4 with }] ] }                                                 -- 2: key stack

/-- after the first goroutine the only key aliases goroutine 1's stack (call cell 0) … -/
example : bucketLoopH idHOracle 2 .anyPointer 0 exHeap [] (exGs.take 1) =
    (exHeap, [{ key := { state := b!"chan receive", stack := { calls := some 0 } },
                ids := [1], first := true, order := 0 }]) := by decide

private theorem ex_loop : bucketLoopH idHOracle 2 .anyPointer 0 exHeap [] exGs =
    (exHeap', [{ key := { state := b!"chan receive", stack := { calls := some 2 } },
                 ids := [1, 2], first := true, order := 0 }]) := by decide

/-- … and after the second one bucket is left, whose key points to the NEW call cell 2
(→ new arg cells 4, 5), while every cell of both goroutines is as before -/
example : aggregateH 2 .anyPointer exHeap exGs =
    (exHeap', [{ sig := { state := b!"chan receive", stack := { calls := some 2 } },
                 ids := [1, 2], first := true }]) := by
  simp only [aggregateH, aggregateHWith, ex_loop, idHOracle, sortBucketsH,
    List.mergeSort_singleton, List.map_cons, List.map_nil]
  decide

/-- `aggregate_refines` and `aggregate_twice` apply to the example -/
example : (aggregateH 2 .anyPointer exHeap exGs).2.map
      (absBucket 2 (aggregateH 2 .anyPointer exHeap exGs).1) =
    aggregate .anyPointer (absGoroutines 2 exHeap exGs) :=
  aggregate_refines 2 .anyPointer exHeap exGs exWF

example : (aggregateH 2 .anyPointer
      (afterAggregations 2 exGs [(idHOracle, .anyValue), (idHOracle, .exactFlags)] exHeap) exGs).2.map
      (absBucket 2 (aggregateH 2 .anyPointer
        (afterAggregations 2 exGs [(idHOracle, .anyValue), (idHOracle, .exactFlags)] exHeap) exGs).1) =
    (aggregateH 2 .anyPointer exHeap exGs).2.map
      (absBucket 2 (aggregateH 2 .anyPointer exHeap exGs).1) :=
  aggregate_twice 2 .anyPointer exHeap exGs exWF _

example : exHeap'.argCells.take 4 = exHeap.argCells ∧ exHeap'.callCells.take 2 = exHeap.callCells := by
  decide

/-- read back, the key is `main.f({*}, 5)` and the goroutines still carry their pointers -/
example : (absSig 2 exHeap' { state := b!"chan receive", stack := { calls := some 2 } }).stack.calls.map
      (·.args.values) =
    [[.agg [.scalar star 0xc000012340 true false false] false, .scalar [] 5 false false false]] ∧
    absGoroutines 2 exHeap' exGs = absGoroutines 2 exHeap exGs := by
  exact ⟨rfl, rfl⟩

end Example

#print axioms merge_frame
#print axioms mergeArgs_frame
#print axioms aggregate_frame
#print axioms snapshot_unchanged
#print axioms snapshot_wf_preserved
#print axioms snapshot_unchanged_seq
#print axioms merge_refines
#print axioms aggregate_refines
#print axioms aggregate_twice
#print axioms heapWF_mono

end PP.Alias
