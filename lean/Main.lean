import PP.Driver.Ops
/-
ppdrv: one JSON request per line on stdin, one JSON response per line on
stdout.  Runs the executable definitions of the model, nothing else.
-/
open Lean PP

partial def loop (hin hout : IO.FS.Stream) : IO Unit := do
  let line ← hin.getLine
  if line.isEmpty then return ()
  let out :=
    match Json.parse line with
    | .error e => Json.mkObj [("error", s!"parse: {e}")]
    | .ok j =>
      match PP.Ops.handle j with
      | .ok r => r
      | .error e => Json.mkObj [("error", e)]
  hout.putStrLn out.compress
  hout.flush
  loop hin hout

def main : IO Unit := do
  loop (← IO.getStdin) (← IO.getStdout)
