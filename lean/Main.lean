import PP.Driver.Codec
import PP.Model.Aggregate
import PP.Model.Names
/-
ppdrv: one JSON request per line on stdin, one JSON response per line on
stdout.  Runs the executable definitions of the model, nothing else.
-/
open Lean PP PP.Codec

def oracleOf : Nat → Oracle
  | 0 => idOracle
  | 1 => revOracle
  | _ => rotOracle

def handle (j : Json) : Except String Json := do
  let op ← getStr j "op"
  match op with
  | "ping" => pure (Json.mkObj [("ok", true)])
  | "agg" =>
    let gs ← decGs j "gs"
    let l ← lvlOfNat (← getNat j "lvl")
    let π := oracleOf (← getNat j "oracle")
    if !aggregateSafe l gs then pure (Json.mkObj [("panic", true)]) else
    pure (Json.mkObj [("buckets", Json.arr ((aggregateWith π l gs).map encBucket).toArray)])
  | "sig" =>
    let a ← decSig (← j.getObjVal? "a")
    let b ← decSig (← j.getObjVal? "b")
    let l ← lvlOfNat (← getNat j "lvl")
    pure (Json.mkObj [("similar", Signature.similar l a b), ("equal", Signature.equal a b),
      ("less", if Signature.lessSafe a b then Json.bool (Signature.less a b) else Json.null),
      ("merge", if Signature.shapeOK a b then encSig (Signature.merge a b) else Json.null)])
  | "names" =>
    let gs ← decGs j "gs"
    pure (Json.mkObj [("gs", encGs (nameArguments gs))])
  | _ => throw s!"unknown op {op}"

partial def loop (hin hout : IO.FS.Stream) : IO Unit := do
  let line ← hin.getLine
  if line.isEmpty then return ()
  let out :=
    match Json.parse line with
    | .error e => Json.mkObj [("error", s!"parse: {e}")]
    | .ok j =>
      match handle j with
      | .ok r => r
      | .error e => Json.mkObj [("error", e)]
  hout.putStrLn out.compress
  hout.flush
  loop hin hout

def main : IO Unit := do
  loop (← IO.getStdin) (← IO.getStdout)
