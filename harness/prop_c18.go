package main

import (
	"encoding/json"
	"fmt"
	"io"
	"os"
	"path"
	"path/filepath"
	"sort"
	"strings"

	"github.com/maruel/panicparse/v2/stack"
)

// C18: path rebasing maps remote paths to the right local files and classes.
//
// Streams:
//   layout   : a generated file-system layout (GOROOT, disjoint GOPATHs with
//              src and pkg/mod, go.mod modules, "go run" files) materialised
//              under a temporary directory, remote-root renamings, a dump
//              printed from it and scanned end to end with GuessPaths. Direct
//              oracle = the generating layout. No root is nested in another.
//   nested   : the same generator with remote GOPATHs nested in another one's
//              src and go.mod modules nested in another module. Outside the
//              property's quantifier (disjoint roots): only determinism (7
//              identical runs) and model correspondence are checked; how the
//              result relates to the generating layout is counted (observed:…).
//   hostile  : constructed snapshots (hook) with unclean, relative, colliding,
//              non-UTF-8 paths, preset locations and roots, multi-frame
//              CreatedBy; only the unconditional invariants are checked.
//   updloc   : Call.updateLocations with generated maps (nested keys, ties).
//   fn       : splitPath / reModule / path.Dir on hostile byte strings.
// Correspondence: ops roots / updloc / c18fn of the model driver.

func init() { props["C18"] = runC18 }

const (
	locUnknown = 0
	locGoMod   = 1
	locGOPATH  = 2
	locGoPkg   = 3
	locStdlib  = 4
)

type c18Root struct {
	Kind   string // goroot | gopath | mod | gorun
	Local  string
	Remote string
	Mod    string // module path (mod, gorun)
	Nested bool   // remote root nested under another remote root
	Outer  *c18Root
}

type c18Frame struct {
	Remote string
	Kind   string // goroot | gopath | gopkg | gomod | gorun | unknown | testmain
	Root   *c18Root
	Sep    string
	Rel    string
	Exists bool
	Pkg    string
	Name   string
}

type c18Layout struct {
	Base    string
	Goroot  string
	Gopaths []string
	Files   map[string]string // regular files, path -> content
	Dirs    []string          // directories created on purpose (named like files)
	Roots   []*c18Root
	Frames  []c18Frame
	Tags    map[string]bool
}

func (l *c18Layout) tag(t string) { l.Tags[t] = true }

func (l *c18Layout) materialise() error {
	for _, d := range l.Dirs {
		if err := os.MkdirAll(d, 0o755); err != nil {
			return err
		}
	}
	for p, c := range l.Files {
		if err := os.MkdirAll(filepath.Dir(p), 0o755); err != nil {
			return err
		}
		if err := os.WriteFile(p, []byte(c), 0o644); err != nil {
			return err
		}
	}
	return nil
}

var c18Stdlib = []string{"fmt/print.go", "net/http/server.go", "os/file.go", "runtime/proc.go", "internal/poll/fd_unix.go", "runtime/internal/atomic/types.go", "sync/mutex.go"}

var c18GoMods = []func(mod string) string{
	func(m string) string { return "module " + m + "\n" },
	func(m string) string { return "module " + m + "\n\ngo 1.20\n" },
	func(m string) string { return "module " + m + "\r\n\r\ngo 1.20\r\n" },
	func(m string) string {
		return "// a comment\n\nmodule " + m + "\n\ngo 1.20\n\nrequire example.com/x v1.0.0\n"
	},
	func(m string) string { return "go 1.20\nmodule\t" + m + "\n" },
	func(m string) string { return "// module not.this/one\ngo 1.17\n\nmodule   " + m + "\r\n" },
	func(m string) string { return "module " + m },
	func(m string) string { return "module " + m + "\r" },
	func(m string) string { return "\nmodule\n" + m + "\n" },
}

func lastDir(p string) string {
	if i := strings.LastIndexByte(p, '/'); i >= 0 {
		return p[:i]
	}
	return ""
}

func c18Pkg(importPath string) string {
	p := lastElem(importPath)
	if i := strings.IndexByte(p, '@'); i >= 0 {
		p = p[:i]
	}
	return p
}

// genC18Layout draws a layout without accidental suffix collisions: import
// paths, module names and file names are distinct per root. With allowNested
// false no root lies under another root (the property's layouts); with true a
// remote GOPATH may sit in another one's src and a module in another module.
func genC18Layout(r *Rng, base string, allowNested bool) *c18Layout {
	l := &c18Layout{Base: base, Files: map[string]string{}, Tags: map[string]bool{}}
	add := func(root *c18Root, kind, sep, rel string, exists bool, pkg string) {
		f := c18Frame{Remote: root.Remote + sep + rel, Kind: kind, Root: root, Sep: sep, Rel: rel, Exists: exists, Pkg: pkg, Name: r.Pick([]string{"F", "run", "(*T).Do", "init.0", "Serve.func1"})}
		if exists {
			l.Files[root.Local+sep+rel] = "package " + c18Pkg(pkg) + "\n"
		} else {
			l.tag("absent-file")
		}
		l.Frames = append(l.Frames, f)
		// now and then a file of the same directory that is missing locally
		// (generated code that is not checked in) and sorts before its sibling
		if exists && kind != "gomod" && kind != "gorun" && kind != "testmain" && r.Chance(1, 4) {
			d := ""
			if i := strings.LastIndexByte(rel, '/'); i >= 0 {
				d = rel[:i+1]
			}
			g := c18Frame{Remote: root.Remote + sep + d + "AAA_generated.pb.go", Kind: kind, Root: root, Sep: sep, Rel: d + "AAA_generated.pb.go", Exists: false, Pkg: pkg, Name: "gen"}
			l.Frames = append(l.Frames, g)
			l.tag("absent-sibling-first")
		}
	}
	// GOROOT
	switch r.Intn(8) {
	case 0: // unset
		l.tag("goroot-unset")
	case 1: // set, nothing referenced
		l.Goroot = base + "/goroot"
		l.Files[l.Goroot+"/src/fmt/print.go"] = "package fmt\n"
		l.tag("goroot-unreferenced")
	default:
		l.Goroot = base + "/goroot"
		root := &c18Root{Kind: "goroot", Local: l.Goroot}
		root.Remote = r.Pick([]string{"/c18remote/goroot", "/home/c18ci/go", l.Goroot, "/c18usr/lib/go-1.22", "/c18remote/src", "/c18r"})
		if root.Remote == root.Local {
			l.tag("goroot-same")
		}
		l.Roots = append(l.Roots, root)
		for _, i := range r.Perm(len(c18Stdlib))[:1+r.Intn(4)] {
			add(root, "goroot", "/src/", c18Stdlib[i], !r.Chance(1, 6), lastDir(c18Stdlib[i]))
		}
	}
	// GOPATHs
	ngp := r.Intn(4)
	var gps []*c18Root
	for k := 0; k < ngp; k++ {
		if k > 0 && r.Chance(1, 4) {
			// a second remote root whose files live in the FIRST local GOPATH as well (the build machine
			// had GOPATH=/a:/b, here everything was checked out into one tree)
			sh := &c18Root{Kind: "gopath", Local: gps[0].Local, Remote: fmt.Sprintf("/c18shared/other%d", k)}
			l.Roots = append(l.Roots, sh)
			l.tag("gopath-shared-local")
			shs := []string{fmt.Sprintf("example.com/shared%d/s%d.go", k, k), fmt.Sprintf("aaa.example/first%d/t%d.go", k, k), fmt.Sprintf("zzz.example/last%d/u%d.go", k, k)}
			for _, i := range r.Perm(len(shs))[:1+r.Intn(3)] {
				add(sh, "gopath", "/src/", shs[i], true, lastDir(shs[i]))
			}
			if r.Bool() {
				add(sh, "gopkg", "/pkg/mod/", fmt.Sprintf("github.com/sh%d/lib@v1.0.0/v%d.go", k, k), true, "lib@v1.0.0")
			}
		}
		root := &c18Root{Kind: "gopath", Local: fmt.Sprintf("%s/gp%d", base, k)}
		opts := []string{fmt.Sprintf("/c18remote/gp%d", k), fmt.Sprintf("/home/c18ci/gopath%d", k), root.Local}
		if k > 0 {
			// a sibling whose name extends another root's name (disjoint trees)
			opts = append(opts, gps[0].Remote+strings.Repeat("x", k))
		}
		if k > 0 && allowNested {
			// the F7 shape: a remote GOPATH nested in another one's src
			nest := r.Pick([]string{"nested", "aaa", "zzz/deep"})
			opts = append(opts, gps[0].Remote+"/src/"+nest+fmt.Sprintf("/gp%d", k), gps[0].Remote+"/src/"+nest+fmt.Sprintf("/gp%d", k))
		}
		root.Remote = opts[r.Intn(len(opts))]
		if root.Remote == root.Local {
			l.tag("gopath-same")
		}
		if k > 0 && strings.HasPrefix(root.Remote, gps[0].Remote+"/src/") {
			root.Nested, root.Outer = true, gps[0]
			l.tag("gopath-nested")
		}
		if k > 0 && root.Remote == gps[0].Remote+strings.Repeat("x", k) {
			l.tag("gopath-sibling-prefix")
		}
		gps = append(gps, root)
		l.Roots = append(l.Roots, root)
		l.Gopaths = append(l.Gopaths, root.Local)
		srcs := []string{fmt.Sprintf("example.com/p%d/a%d.go", k, k), fmt.Sprintf("github.com/u%d/proj/sub/pkg/b%d.go", k, k), fmt.Sprintf("example.com/p%d/cmd/tool/main%d.go", k, k), fmt.Sprintf("top%d/c%d.go", k, k)}
		mods := []string{fmt.Sprintf("github.com/m%d/lib@v1.2.3/d%d.go", k, k), fmt.Sprintf("golang.org/x/net%d@v0.1.0/http2/e%d.go", k, k), fmt.Sprintf("gopkg.in/yaml%d.v2@v2.4.0/f%d.go", k, k)}
		n := 0
		for _, i := range r.Perm(len(srcs))[:r.Intn(3)] {
			add(root, "gopath", "/src/", srcs[i], !r.Chance(1, 6), lastDir(srcs[i]))
			n++
		}
		for _, i := range r.Perm(len(mods))[:r.Intn(3)] {
			add(root, "gopkg", "/pkg/mod/", mods[i], !r.Chance(1, 6), lastDir(mods[i]))
			n++
		}
		if n == 0 {
			l.tag("gopath-unreferenced")
		}
	}
	// go.mod modules (local == remote by nature)
	firstModLocal := ""
	for k, nm := 0, r.Intn(3); k < nm; k++ {
		depth := r.Pick([]string{"", "/deep", "/a/b/c"})
		root := &c18Root{Kind: "mod", Local: fmt.Sprintf("%s/work%s/m%d", base, depth, k), Mod: fmt.Sprintf("example.com/m%d", k)}
		if k == 0 && len(gps) > 0 && gps[0].Remote == gps[0].Local && r.Bool() {
			// a module checked out under the GOPATH directory itself, next to src and pkg (~/go/work/m0):
			// under the remote GOPATH's name, yet outside the two subtrees a GOPATH explains
			root.Local = fmt.Sprintf("%s/%s%s/m%d", gps[0].Local, r.Pick([]string{"work", "dev", "src2", "zz"}), depth, k)
			l.tag("gomod-under-gopath-dir")
		}
		if k == 0 {
			firstModLocal = root.Local
		} else if r.Bool() {
			// a sibling module whose directory name extends another module's name
			// (disjoint trees): api / apiv2, server / serverutil
			root.Local = firstModLocal + r.Pick([]string{"v2", "util", "0", "~x"}) + fmt.Sprint(k)
			l.tag("gomod-sibling-prefix")
		}
		root.Remote = root.Local
		l.Roots = append(l.Roots, root)
		v := r.Intn(len(c18GoMods))
		l.Files[root.Local+"/go.mod"] = c18GoMods[v](root.Mod)
		l.tag(fmt.Sprintf("gomod-form-%d", v))
		rels := []string{fmt.Sprintf("f%d.go", k), fmt.Sprintf("sub/g%d.go", k), fmt.Sprintf("sub/deep/h%d.go", k), fmt.Sprintf("zz/i%d.go", k)}
		for _, i := range r.Perm(len(rels))[:1+r.Intn(3)] {
			pkg := root.Mod
			if d := lastDir(rels[i]); d != "" {
				pkg += "/" + d
			}
			add(root, "gomod", "/", rels[i], !r.Chance(1, 6), pkg)
		}
		if allowNested && r.Chance(1, 3) {
			// a nested module whose name continues the outer one
			in := &c18Root{Kind: "mod", Local: root.Local + "/inner", Mod: root.Mod + "/inner", Nested: true, Outer: root}
			in.Remote = in.Local
			l.Roots = append(l.Roots, in)
			l.Files[in.Local+"/go.mod"] = "module " + in.Mod + "\n"
			add(in, "gomod", "/", fmt.Sprintf("j%d.go", k), true, in.Mod)
			if r.Bool() {
				add(in, "gomod", "/", fmt.Sprintf("x/k%d.go", k), true, in.Mod+"/x")
			}
			l.tag("gomod-nested")
		}
	}
	if r.Chance(1, 4) {
		root := &c18Root{Kind: "gorun", Local: base + "/loose/dir", Mod: "main"}
		root.Remote = root.Local
		l.Roots = append(l.Roots, root)
		add(root, "gorun", "/", "prog.go", true, "main")
		l.tag("gorun")
	}
	// frames under no root
	for _, p := range []string{"/c18elsewhere/x/y.go", "<autogenerated>", "??", "/c18elsewhere/z.s", "_cgo_gotypes.go"} {
		if r.Chance(1, 3) {
			l.Frames = append(l.Frames, c18Frame{Remote: p, Kind: "unknown", Pkg: "other/pkg", Name: "G"})
			l.tag("unknown-frame")
		}
	}
	if r.Chance(1, 3) {
		// the real path of the generated main and, less often, the bare relative
		// form, which is outside the property and only observed
		p := r.Pick([]string{"/tmp/go-build123/b001/_test/_testmain.go", "/tmp/go-build123/b001/_test/_testmain.go", "_test/_testmain.go", "/c18elsewhere/_test/_testmain.go"})
		if len(gps) > 0 && r.Bool() {
			// generated main that happens to sit under a mapped root
			add(gps[0], "testmain", "/src/", fmt.Sprintf("example.com/p0/_test/_testmain.go"), true, "main")
			l.Frames[len(l.Frames)-1].Name = "main"
			l.tag("testmain-under-root")
		} else {
			l.Frames = append(l.Frames, c18Frame{Remote: p, Kind: "testmain", Pkg: "main", Name: "main"})
		}
		l.tag("testmain")
	}
	if len(l.Frames) == 0 {
		l.Frames = append(l.Frames, c18Frame{Remote: "/c18elsewhere/only.go", Kind: "unknown", Pkg: "main", Name: "main"})
	}
	return l
}

// dump builds goroutines whose frames draw from the layout's frames.
func (l *c18Layout) dump(r *Rng) ([]GSpec, map[string]bool) {
	inStack := map[string]bool{}
	ng := 1 + r.Intn(3)
	gs := make([]GSpec, ng)
	order := r.Perm(len(l.Frames))
	next := 0
	mk := func(f *c18Frame) FrameSpec {
		fs := FrameSpec{Pkg: f.Pkg, Name: f.Name, File: f.Remote, Line: 1 + r.Intn(500), Off: " +0x1d"}
		if r.Bool() {
			fs.Args = []ArgSpec{{V: uint64(r.Intn(1 << 20))}}
		}
		return fs
	}
	for i := range gs {
		g := &gs[i]
		g.ID, g.State, g.Elided = i+1, r.Pick([]string{"running", "chan receive", "select", "IO wait"}), -1
		nf := 1 + r.Intn(5)
		for j := 0; j < nf; j++ {
			var f *c18Frame
			if next < len(order) { // make sure every frame appears at least once somewhere
				f = &l.Frames[order[next]]
				next++
			} else {
				f = &l.Frames[r.Intn(len(l.Frames))]
			}
			g.Frames = append(g.Frames, mk(f))
			inStack[f.Remote] = true
		}
		if r.Bool() {
			var f *c18Frame
			if next < len(order) && r.Bool() {
				f = &l.Frames[order[next]] // possibly a file that only a creator references
				next++
			} else {
				f = &l.Frames[r.Intn(len(l.Frames))]
			}
			c := mk(f)
			c.Args = nil
			g.Created = &c
			if r.Bool() {
				g.Parent = 1 + r.Intn(9)
			}
		}
	}
	return gs, inStack
}

// ---- running the implementation ----

type c18Out struct {
	Panic         string  `json:"panic"`
	OK            bool    `json:"ok"`
	RemoteGoroot  HB      `json:"remoteGoroot"`
	RemoteGopaths [][2]HB `json:"remoteGopaths"`
	LocalGomods   [][2]HB `json:"localGomods"`
	Gs            []MG    `json:"gs"`
}

func sortedPairs(m map[string]string) [][2]HB {
	ks := make([]string, 0, len(m))
	for k := range m {
		ks = append(ks, k)
	}
	sort.Strings(ks)
	out := make([][2]HB, 0, len(ks))
	for _, k := range ks {
		out = append(out, [2]HB{hb(k), hb(m[k])})
	}
	return out
}

func c18OutOf(s *stack.Snapshot, ok bool) c18Out {
	return c18Out{OK: ok, RemoteGoroot: hb(s.RemoteGOROOT), RemoteGopaths: sortedPairs(s.RemoteGOPATHs), LocalGomods: sortedPairs(s.LocalGomods), Gs: mGs(s.Goroutines)}
}

// c18Guess runs guessPaths through the hook on a fresh copy of the goroutines.
func c18Guess(pre []MG, goroot string, gopaths []string, remoteGoroot string) (out c18Out) {
	defer func() {
		if p := recover(); p != nil {
			out = c18Out{Panic: fmt.Sprint(p)}
		}
	}()
	s := &stack.Snapshot{Goroutines: sGs(pre), LocalGOROOT: goroot, LocalGOPATHs: gopaths, RemoteGOROOT: remoteGoroot}
	ok := stack.VerifGuessPaths(s)
	return c18OutOf(s, ok)
}

func c18ScanE2E(txt, goroot string, gopaths []string, guess bool) (s *stack.Snapshot, pmsg string) {
	defer func() {
		if p := recover(); p != nil {
			s, pmsg = nil, fmt.Sprint(p)
		}
	}()
	s, _, _ = stack.ScanSnapshot(strings.NewReader(txt), io.Discard, &stack.Opts{LocalGOROOT: goroot, LocalGOPATHs: gopaths, GuessPaths: guess})
	return s, ""
}

// c18Oracle asks the real file system about every path guessPaths may probe
// for these goroutines: the explicit file-system oracle handed to the model.
func c18Oracle(gs []MG, goroot string, gopaths []string) (files []HB, gomods [][2]HB) {
	seenF := map[string]bool{}
	seenM := map[string]bool{}
	stat := func(p string) {
		if seenF[p] {
			return
		}
		seenF[p] = true
		if i, err := os.Stat(p); err == nil && !i.IsDir() {
			files = append(files, hb(p))
		}
	}
	for gi := range gs {
		for ci := range gs[gi].Sig.Stack.Calls {
			f := gs[gi].Sig.Stack.Calls[ci].Remote.String()
			if seenF["\x00"+f] {
				continue
			}
			seenF["\x00"+f] = true
			stat(f)
			parts := stack.VerifSplitPath(f)
			for i := 1; i < len(parts); i++ {
				suffix := strings.Join(parts[i:], "/")
				stat(goroot + "/src/" + suffix)
				for _, l := range gopaths {
					stat(l + "/src/" + suffix)
					stat(l + "/pkg/mod/" + suffix)
				}
			}
			for i := len(parts) - 1; i > 0; i-- {
				p := strings.Join(parts[:i], "/") + "/go.mod"
				if seenM[p] {
					continue
				}
				seenM[p] = true
				if b, err := os.ReadFile(p); err == nil {
					gomods = append(gomods, [2]HB{hb(p), hb(string(b))})
				}
			}
		}
	}
	if files == nil {
		files = []HB{}
	}
	if gomods == nil {
		gomods = [][2]HB{}
	}
	return
}

func eachCall(gs []MG, f func(c *MCall, created bool)) {
	for gi := range gs {
		for ci := range gs[gi].Sig.Stack.Calls {
			f(&gs[gi].Sig.Stack.Calls[ci], false)
		}
		for ci := range gs[gi].Sig.Created.Calls {
			f(&gs[gi].Sig.Created.Calls[ci], true)
		}
	}
}

// c18Invariants are the parts of the property that hold for any input: a
// resolved local path ends with the relative path; the root used is a prefix of
// the frame; an unresolved frame is untouched; the class follows the kind of
// root; a location that was already set (generated test main) is kept.
func c18Invariants(pre []MG, out *c18Out) string {
	var pc []*MCall
	eachCall(pre, func(c *MCall, _ bool) { pc = append(pc, c) })
	i := 0
	bad := ""
	goroot := out.RemoteGoroot.String()
	eachCall(out.Gs, func(c *MCall, _ bool) {
		p := pc[i]
		i++
		if bad != "" {
			return
		}
		remote, local, rel := c.Remote.String(), c.Local.String(), c.Rel.String()
		if p.Loc != locUnknown && c.Loc != p.Loc {
			bad = fmt.Sprintf("%s: location was already %d and became %d", remote, p.Loc, c.Loc)
			return
		}
		if string(p.DirSrc.String()) == "_test/_testmain.go" && p.Loc == locStdlib && c.Loc != locStdlib {
			bad = remote + ": generated test main is not Stdlib"
			return
		}
		if local == "" {
			if jsonStr(c) != jsonStr(p) {
				bad = remote + ": unresolved frame was modified"
			}
			return
		}
		if !strings.HasSuffix(local, "/"+rel) && !(local == remote && strings.HasSuffix(remote, "/"+rel)) {
			bad = fmt.Sprintf("%s: local path %q does not end with the relative path %q", remote, local, rel)
			return
		}
		// which root explains it
		explained := false
		if goroot != "" && remote == goroot+"/src/"+rel {
			explained = true
			if p.Loc == locUnknown && c.Loc != locStdlib {
				bad = fmt.Sprintf("%s: under the remote GOROOT but class %d", remote, c.Loc)
			}
			if local != p.Local.String() && local != "" && !strings.HasSuffix(local, "/src/"+rel) {
				bad = remote + ": GOROOT mapping does not go through src/"
			}
		}
		if !explained {
			for _, kv := range out.RemoteGopaths {
				k := kv[0].String()
				if remote == k+"/src/"+rel && local == kv[1].String()+"/src/"+rel {
					explained = true
					if p.Loc == locUnknown && c.Loc != locGOPATH {
						bad = fmt.Sprintf("%s: under GOPATH src but class %d", remote, c.Loc)
					}
					break
				}
				if remote == k+"/pkg/mod/"+rel && local == kv[1].String()+"/pkg/mod/"+rel {
					explained = true
					if p.Loc == locUnknown && c.Loc != locGoPkg {
						bad = fmt.Sprintf("%s: under GOPATH pkg/mod but class %d", remote, c.Loc)
					}
					break
				}
			}
		}
		if !explained {
			for _, kv := range out.LocalGomods {
				if remote == kv[0].String()+"/"+rel && local == remote {
					explained = true
					if p.Loc == locUnknown && c.Loc != locGoMod {
						bad = fmt.Sprintf("%s: under a go.mod root but class %d", remote, c.Loc)
					}
					break
				}
			}
		}
		if !explained && bad == "" {
			bad = fmt.Sprintf("%s: resolved to %q but no detected root is a prefix of it with that relative path", remote, local)
		}
	})
	return bad
}

// c18Clean: the path is what a Go toolchain prints: no empty, "." or ".."
// element, no trailing slash, valid UTF-8, absolute.
func c18Clean(p string) bool {
	return strings.HasPrefix(p, "/") && path.Clean(p) == p && strings.ToValidUTF8(p, "") == p
}

// rootsArePrefixes: every detected root is a prefix of some stack frame.
func c18RootsArePrefixes(pre []MG, out *c18Out) string {
	var files []string
	for gi := range pre {
		for ci := range pre[gi].Sig.Stack.Calls {
			files = append(files, pre[gi].Sig.Stack.Calls[ci].Remote.String())
		}
	}
	has := func(root string) bool {
		for _, f := range files {
			if strings.HasPrefix(f, root+"/") || (strings.HasSuffix(root, "/") && strings.HasPrefix(f, root)) {
				return true
			}
		}
		return false
	}
	if g := out.RemoteGoroot.String(); g != "" && !has(g) {
		return "RemoteGOROOT " + g + " is a prefix of no frame"
	}
	for _, kv := range out.RemoteGopaths {
		if !has(kv[0].String()) {
			return "RemoteGOPATHs key " + kv[0].String() + " is a prefix of no frame"
		}
	}
	for _, kv := range out.LocalGomods {
		if !has(kv[0].String()) {
			return "LocalGomods key " + kv[0].String() + " is a prefix of no frame"
		}
	}
	return ""
}

type c18RootsOp struct {
	Op           string  `json:"op"`
	Gs           []MG    `json:"gs"`
	Goroot       HB      `json:"goroot"`
	Gopaths      []HB    `json:"gopaths"`
	RemoteGoroot HB      `json:"remoteGoroot"`
	Files        []HB    `json:"files"`
	Gomods       [][2]HB `json:"gomods"`
}

func c18SendRoots(res *Result, pool *DrvPool, stream string, op *c18RootsOp, impl c18Out) {
	if op.Gopaths == nil {
		op.Gopaths = []HB{}
	}
	want := impl
	pool.Send(op, func(raw json.RawMessage) {
		res.Trace()
		var rep c18Out
		if err := json.Unmarshal(raw, &rep); err != nil {
			res.Disagree(Finding{Stream: stream, What: "undecodable reply: " + string(raw), Op: op})
			return
		}
		if (rep.Panic != "") != (want.Panic != "") {
			res.Disagree(Finding{Stream: stream, What: fmt.Sprintf("panic: model %q, implementation %q", rep.Panic, want.Panic), Op: op})
			return
		}
		if want.Panic != "" {
			return
		}
		if rep.RemoteGopaths == nil {
			rep.RemoteGopaths = [][2]HB{}
		}
		if rep.LocalGomods == nil {
			rep.LocalGomods = [][2]HB{}
		}
		switch {
		case rep.OK != want.OK:
			res.Disagree(Finding{Stream: stream, What: fmt.Sprintf("guessPaths result: model %v, implementation %v", rep.OK, want.OK), Op: op})
		case rep.RemoteGoroot != want.RemoteGoroot:
			res.Disagree(Finding{Stream: stream, What: fmt.Sprintf("RemoteGOROOT: model %q, implementation %q", rep.RemoteGoroot.String(), want.RemoteGoroot.String()), Op: op})
		case jsonStr(rep.RemoteGopaths) != jsonStr(want.RemoteGopaths):
			res.Disagree(Finding{Stream: stream, What: "RemoteGOPATHs differ", Op: op, Expected: want.RemoteGopaths, Got: rep.RemoteGopaths})
		case jsonStr(rep.LocalGomods) != jsonStr(want.LocalGomods):
			res.Disagree(Finding{Stream: stream, What: "LocalGomods differ", Op: op, Expected: want.LocalGomods, Got: rep.LocalGomods})
		case jsonStr(rep.Gs) != jsonStr(want.Gs):
			res.Disagree(Finding{Stream: stream, What: "calls differ: " + firstDiff(rep.Gs, want.Gs), Op: op})
		}
	})
}

// ---- the layout stream ----

type c18Want struct {
	Mapped bool
	Local  string
	Rel    string
	IP     string
	Loc    int
}

// runC18Layout: with nested false the generating layout is the oracle; with
// nested true (roots inside roots: outside the property) only determinism and
// model correspondence are checked and the comparison with the layout is
// counted as observations.
func runC18Layout(res *Result, pool *DrvPool, r *Rng, idx int, nested bool) {
	stream := "layout"
	if nested {
		stream = "nested"
	}
	base, err := os.MkdirTemp("", "verif-c18-")
	if err != nil {
		res.Disagree(Finding{Stream: stream, What: "cannot create the scratch directory: " + err.Error()})
		return
	}
	defer os.RemoveAll(base)
	l := genC18Layout(r, base, nested)
	if !nested {
		// the oracle-checked stream must not contain a root inside a root
		for _, a := range l.Roots {
			for _, b := range l.Roots {
				under := func(x, y string) bool {
					if b.Kind == "gopath" && (a.Kind == "mod" || a.Kind == "gorun") {
						// what a GOPATH explains is its src tree and its module cache: a module next to them is not inside either
						return strings.HasPrefix(x, y+"/src/") || strings.HasPrefix(x, y+"/pkg/mod/")
					}
					return strings.HasPrefix(x, y+"/")
				}
				if a != b && (a.Nested || under(a.Remote, b.Remote) || under(a.Local, b.Local)) {
					res.Disagree(Finding{Stream: stream, What: "generator bug: root " + a.Remote + " is nested in " + b.Remote})
					return
				}
			}
		}
	}
	if err := l.materialise(); err != nil {
		res.Disagree(Finding{Stream: stream, What: "cannot materialise the layout: " + err.Error()})
		return
	}
	gs, inStack := l.dump(r)
	txt := GenCfg(r).Dump(gs)
	preS, pmsg := c18ScanE2E(txt, l.Goroot, l.Gopaths, false)
	if preS == nil {
		res.Violation(Finding{Stream: stream, What: "generated dump did not scan: " + pmsg, Op: map[string]interface{}{"text": txt}})
		return
	}
	pre := mGs(preS.Goroutines)
	describe := map[string]interface{}{"text": txt, "localGOROOT": l.Goroot, "localGOPATHs": l.Gopaths, "files": sortedKeys(l.Files), "tags": sortedTags(l.Tags)}

	// end to end, then several times through the hook: identical results
	e2e, pmsg := c18ScanE2E(txt, l.Goroot, l.Gopaths, true)
	if e2e == nil {
		res.Violation(Finding{Stream: stream, What: "ScanSnapshot with GuessPaths panicked or returned nothing: " + pmsg, Op: describe})
		return
	}
	first := c18Guess(pre, l.Goroot, l.Gopaths, "")
	if first.Panic != "" {
		res.Violation(Finding{Stream: stream, What: "guessPaths panicked: " + first.Panic, Op: describe})
		return
	}
	ref := first
	ref.OK = false
	e := c18OutOf(e2e, false)
	if jsonStr(e) != jsonStr(ref) {
		res.Violation(Finding{Stream: stream, What: "ScanSnapshot(GuessPaths) and guessPaths on the scanned snapshot differ", Op: describe, Expected: e, Got: ref})
	}
	for k := 0; k < 5; k++ {
		again := c18Guess(pre, l.Goroot, l.Gopaths, "")
		if jsonStr(again) != jsonStr(first) {
			res.Violation(Finding{Stream: stream, What: "two runs on the same input differ (map order)", Op: describe, Expected: first, Got: again})
			break
		}
	}

	// direct oracle: the generating layout (nested stream: observations only)
	violation := func(f Finding) {
		if nested {
			res.Count("observed:nested-layout-differs")
			return
		}
		res.Violation(f)
	}
	detected := map[*c18Root]bool{}
	for i := range l.Frames {
		f := &l.Frames[i]
		if f.Root == nil || !inStack[f.Remote] {
			continue
		}
		if f.Exists || f.Root.Kind == "mod" {
			detected[f.Root] = true
		}
	}
	want := map[string]c18Want{}
	for i := range l.Frames {
		f := &l.Frames[i]
		w := c18Want{}
		if f.Root != nil && detected[f.Root] {
			w.Mapped = true
			w.Local = f.Root.Local + f.Sep + f.Rel
			w.Rel = f.Rel
			switch f.Root.Kind {
			case "goroot":
				w.Loc, w.IP = locStdlib, lastDir(f.Rel)
			case "gopath":
				w.IP = lastDir(f.Rel)
				if f.Sep == "/src/" {
					w.Loc = locGOPATH
				} else {
					w.Loc = locGoPkg
				}
			case "mod", "gorun":
				w.Loc, w.IP = locGoMod, f.Root.Mod
				if d := lastDir(f.Rel); d != "" {
					w.IP += "/" + d
				}
			}
		}
		if f.Kind == "testmain" {
			w.Loc = locStdlib
		}
		want[f.Remote] = w
	}
	byRemote := map[string]*c18Frame{}
	for i := range l.Frames {
		byRemote[l.Frames[i].Remote] = &l.Frames[i]
	}
	var pc []*MCall
	eachCall(pre, func(c *MCall, _ bool) { pc = append(pc, c) })
	ci := 0
	nontrivial := false
	eachCall(first.Gs, func(c *MCall, created bool) {
		p := pc[ci]
		ci++
		remote := c.Remote.String()
		w, f := want[remote], byRemote[remote]
		shadow := func() string {
			// the frame lies under a nested root (F7 shape) whose outer root
			// was detected first; findRoots then skips the inner files
			if f != nil && f.Root != nil && f.Root.Nested && detected[f.Root.Outer] {
				return "nested-root-shadowed"
			}
			if created && f != nil && f.Root != nil && !detected[f.Root] && f.Exists {
				return "createdby-only-root"
			}
			return ""
		}
		fail := func(msg string) {
			if s := shadow(); s != "" && (nested || s == "createdby-only-root") {
				// outside the property's quantifier (roots inside roots; a root
				// that only a creator frame references): observed, not judged
				if s == "nested-root-shadowed" {
					// was the frame resolved as the enclosing root dictates?
					o := f.Root.Outer
					alt := *p
					if o.Kind == "gopath" {
						rel := strings.TrimPrefix(remote, o.Remote+"/src/")
						alt.Local, alt.Rel, alt.IP, alt.Loc = hb(o.Local+"/src/"+rel), hb(rel), hb(lastDir(rel)), locGOPATH
					} else {
						rel := strings.TrimPrefix(remote, o.Local+"/")
						alt.Local, alt.Rel, alt.IP, alt.Loc = hb(remote), hb(rel), hb(o.Mod+"/"+lastDir(rel)), locGoMod
					}
					if jsonStr(c) != jsonStr(alt) {
						s = "nested-root-neither-own-nor-enclosing"
					}
				}
				res.Count("observed:" + s)
				return
			}
			violation(Finding{Stream: stream, What: remote + ": " + msg, Op: describe, Expected: w, Got: c})
		}
		if !w.Mapped {
			if created && f != nil && f.Root != nil && f.Exists {
				// file exists locally but only a creator references its root
				res.Count("observed:createdby-only-root")
			}
			exp := *p
			if jsonStr(c) != jsonStr(exp) {
				fail("frame under no detected root was modified")
			}
			if f != nil && f.Kind == "testmain" && c.Loc != locStdlib {
				if strings.Count(remote, "/") < 2 {
					// Call.init only fills DirSrc when the path has two slashes:
					// the bare relative "_test/_testmain.go" is not recognised
					// (the property speaks of the real path …/_test/_testmain.go)
					res.Count("observed:testmain-bare-path")
				} else {
					fail("generated test main is not Stdlib")
				}
			}
			return
		}
		nontrivial = true
		exp := *p
		exp.Local, exp.Rel, exp.IP, exp.Loc = hb(w.Local), hb(w.Rel), hb(w.IP), w.Loc
		if jsonStr(c) != jsonStr(exp) {
			fail(fmt.Sprintf("got local=%q rel=%q import=%q class=%d, want local=%q rel=%q import=%q class=%d", c.Local.String(), c.Rel.String(), c.IP.String(), c.Loc, w.Local, w.Rel, w.IP, w.Loc))
			return
		}
		if f.Exists {
			if i, err := os.Stat(c.Local.String()); err != nil || i.IsDir() {
				fail("mapped local path is not the existing file")
			}
		}
		res.Count(stream + "-frame:" + f.Kind)
	})
	if !nested {
		if w := c18Invariants(pre, &first); w != "" {
			res.Violation(Finding{Stream: stream, What: w, Op: describe, Got: first})
		}
		if w := c18RootsArePrefixes(pre, &first); w != "" {
			res.Violation(Finding{Stream: stream, What: w, Op: describe, Got: first})
		}
	}
	// detected roots are exactly the generating ones
	wantGoroot, wantGP, wantMods := "", map[string]string{}, map[string]string{}
	for root, d := range detected {
		if !d {
			continue
		}
		switch root.Kind {
		case "goroot":
			wantGoroot = root.Remote
		case "gopath":
			wantGP[root.Remote] = root.Local
		default:
			wantMods[root.Local] = root.Mod
		}
	}
	rootsOK := first.RemoteGoroot.String() == wantGoroot && jsonStr(first.RemoteGopaths) == jsonStr(sortedPairs(wantGP)) && jsonStr(first.LocalGomods) == jsonStr(sortedPairs(wantMods))
	if !rootsOK {
		if nested {
			res.Count("observed:nested-root-shadowed-roots")
		} else {
			res.Violation(Finding{Stream: stream, What: "detected roots differ from the generating layout", Op: describe,
				Expected: map[string]interface{}{"goroot": wantGoroot, "gopaths": wantGP, "gomods": wantMods},
				Got:      map[string]interface{}{"goroot": first.RemoteGoroot.String(), "gopaths": first.RemoteGopaths, "gomods": first.LocalGomods}})
		}
	}
	for t := range l.Tags {
		res.Count(stream + ":" + t)
	}
	res.Count(fmt.Sprintf("%s:gopaths-%d", stream, len(l.Gopaths)))
	res.Eval(stream+":"+txt+strings.Join(sortedKeys(l.Files), "|"), nontrivial)
	if idx < 2 {
		res.Sample(describe)
	}

	// correspondence
	files, gomods := c18Oracle(pre, l.Goroot, l.Gopaths)
	// sanity of the oracle lists: everything that exists among the probes is a
	// file of the layout
	for _, f := range files {
		if _, ok := l.Files[f.String()]; !ok {
			res.Disagree(Finding{Stream: stream, What: "the disk has a file the layout did not create: " + f.String(), Op: describe})
		}
	}
	c18SendRoots(res, pool, "S18 roots("+stream+")", &c18RootsOp{Op: "roots", Gs: pre, Goroot: hb(l.Goroot), Gopaths: hbs(l.Gopaths), Files: files, Gomods: gomods}, first)
}

func sortedKeys(m map[string]string) []string {
	ks := make([]string, 0, len(m))
	for k := range m {
		ks = append(ks, k)
	}
	sort.Strings(ks)
	return ks
}

func sortedTags(m map[string]bool) []string {
	ks := make([]string, 0, len(m))
	for k := range m {
		ks = append(ks, k)
	}
	sort.Strings(ks)
	return ks
}

// ---- the hostile stream ----

func c18MkCall(r *Rng, remote string) MCall {
	c := stack.Call{}
	c.Func.Init(r.Pick([]string{"main.main", "example.com/p/q.F", "fmt.Println", "a/b.(*T).M"}))
	stack.VerifCallInit(&c, remote, 1+r.Intn(99))
	m := mCall(&c)
	if m.Args.Processed == nil {
		m.Args.Processed = []HB{}
	}
	if m.Args.Values == nil {
		m.Args.Values = []MArg{}
	}
	return m
}

func runC18Hostile(res *Result, pool *DrvPool, r *Rng, idx int) {
	base, err := os.MkdirTemp("", "verif-c18-")
	if err != nil {
		res.Disagree(Finding{Stream: "hostile", What: "cannot create the scratch directory: " + err.Error()})
		return
	}
	defer os.RemoveAll(base)
	l := &c18Layout{Base: base, Files: map[string]string{}, Tags: map[string]bool{}}
	// a small tree with deliberately colliding names
	l.Goroot = base + "/goroot"
	l.Gopaths = []string{base + "/gp0", base + "/gp1"}[:r.Intn(3)]
	if r.Chance(1, 6) {
		l.Goroot = ""
	}
	names := []string{"fmt/print.go", "print.go", "a/b.go", "b.go", "src/fmt/print.go", "x/src/a/b.go", "pkg/mod/a/b.go", "a@v1/b.go", "go.mod", "a/go.mod", "é/ü.go", "_test/_testmain.go"}
	rootsL := []string{base + "/goroot/src", base + "/gp0/src", base + "/gp0/pkg/mod", base + "/gp1/src", base + "/gp1/pkg/mod", base + "/w", base + "/w/m", base}
	for k := 3 + r.Intn(10); k > 0; k-- {
		p := r.Pick(rootsL) + "/" + r.Pick(names)
		if strings.HasSuffix(p, "go.mod") {
			l.Files[p] = r.Pick([]string{"module x.y/z\n", "module  a b \r\n", "modul x\n", "", "module\n\n\tq\n", "xmodule a\nmodule b", "module \"quoted/p\"\n", "module a // c\n"})
		} else {
			l.Files[p] = "package p\n"
		}
	}
	if r.Chance(1, 4) {
		l.Dirs = append(l.Dirs, base+"/w/m/go.mod", base+"/goroot/src/d.go")
		delete(l.Files, base+"/w/m/go.mod")
		delete(l.Files, base+"/goroot/src/d.go")
		for p := range l.Files {
			if strings.HasPrefix(p, base+"/w/m/go.mod/") || strings.HasPrefix(p, base+"/goroot/src/d.go/") {
				delete(l.Files, p)
			}
		}
	}
	if err := l.materialise(); err != nil {
		// a name used both as file and directory: skip the case
		res.Count("hostile:skipped")
		return
	}
	remPrefix := []string{"/c18r", "/c18r/goroot", "/c18r/goroot/src", base, base + "/w", base + "/w/m", base + "/gp0/src", "/c18r//x", "/c18r/./x", "/c18r/x/..", "c18rel", "", "/", "//", "/c18r/\xff", "/c18r/é", "a", "ab", "abc", "/c18r/gp/src/in/gp2", base + "/gp0", base + "/gp1/pkg/mod", "/c18r/go/"}
	mkPath := func() string {
		switch r.Intn(12) {
		case 0:
			return r.Pick([]string{"", "??", "<autogenerated>", "/", "//", "a.go", "/a.go", "src/a/b.go", "fmt/print.go", "a/fmt/print.go", "ab/a/b.go", "x/pkg/mod/a/b.go", "/src/fmt/print.go"})
		case 1:
			return r.Pick(remPrefix) + "/" + r.Pick(names) + r.Pick([]string{"/", "//", "/.", ""})
		default:
			return r.Pick(remPrefix) + r.Pick([]string{"/", "/src/", "/pkg/mod/", "//src/", "/src//", "/x/src/"}) + r.Pick(names)
		}
	}
	ng := 1 + r.Intn(3)
	pre := make([]MG, ng)
	unclean := false
	for gi := range pre {
		g := &pre[gi]
		g.ID, g.First = gi+1, gi == 0
		g.Sig.State = hb("running")
		g.Sig.Stack.Calls, g.Sig.Created.Calls = []MCall{}, []MCall{}
		for k := r.Intn(5); k > 0; k-- {
			c := c18MkCall(r, mkPath())
			if r.Chance(1, 8) {
				c.Loc = r.Intn(5) // a location set beforehand
			}
			if r.Chance(1, 12) {
				c.Local, c.Rel = hb("/stale/local.go"), hb("local.go")
			}
			if !c18Clean(c.Remote.String()) {
				unclean = true
			}
			g.Sig.Stack.Calls = append(g.Sig.Stack.Calls, c)
		}
		for k := r.Intn(3); k > 0; k-- {
			g.Sig.Created.Calls = append(g.Sig.Created.Calls, c18MkCall(r, mkPath()))
		}
	}
	remoteGoroot := ""
	if r.Chance(1, 6) {
		remoteGoroot = r.Pick(remPrefix)
	}
	first := c18Guess(pre, l.Goroot, l.Gopaths, remoteGoroot)
	describe := map[string]interface{}{"gs": pre, "localGOROOT": l.Goroot, "localGOPATHs": l.Gopaths, "remoteGOROOT0": remoteGoroot, "files": sortedKeys(l.Files), "dirs": l.Dirs}
	for k := 0; k < 5; k++ {
		again := c18Guess(pre, l.Goroot, l.Gopaths, remoteGoroot)
		if jsonStr(again) != jsonStr(first) {
			res.Violation(Finding{Stream: "hostile", What: "two runs on the same input differ (map order)", Op: describe, Expected: first, Got: again})
			break
		}
	}
	if first.Panic != "" {
		// findRoots_no_panic: no input and no disk content makes guessPaths panic
		res.Count("hostile:impl-panic")
		res.Violation(Finding{Stream: "hostile", What: "guessPaths panicked: " + first.Panic, Op: describe})
	} else {
		// the stale fields of a call resolved before are not part of the
		// invariants: compare against a pre-state and skip those
		if w := c18Invariants(pre, &first); w != "" && !strings.Contains(jsonStr(pre), string(hb("/stale/local.go"))) {
			res.Violation(Finding{Stream: "hostile", What: w, Op: describe, Got: first})
		}
		if w := c18RootsArePrefixes(pre, &first); w != "" && remoteGoroot == "" {
			if unclean {
				// splitPath normalises (//, trailing /, invalid UTF-8): the root is a
				// prefix of the normalised path only (detected_gopath_is_prefix)
				res.Count("observed:root-not-prefix-on-unclean-path")
			} else {
				// detected_gopath_clean / detected_goroot_clean
				res.Violation(Finding{Stream: "hostile", What: w, Op: describe, Got: first})
			}
		}
		if len(first.RemoteGopaths)+len(first.LocalGomods) > 0 || first.RemoteGoroot != "" {
			res.Count("hostile:some-root")
		}
		// distribution: how often the first local match of a frame's suffix is
		// not preceded by the src (pkg/mod) directory, the case the HasSuffix
		// test of findRoots rejects (it used to panic or invent a root)
		for gi := range pre {
			for ci := range pre[gi].Sig.Stack.Calls {
				parts := stack.VerifSplitPath(pre[gi].Sig.Stack.Calls[ci].Remote.String())
				probe := func(local, dir string) {
					if local == "" && dir == "/src" && l.Goroot == "" {
						return
					}
					for i := 1; i < len(parts); i++ {
						if st, err := os.Stat(local + dir + "/" + strings.Join(parts[i:], "/")); err == nil && !st.IsDir() {
							if strings.HasSuffix(strings.Join(parts[:i], "/"), dir) {
								res.Count("hostile:first-match-after" + dir)
							} else {
								res.Count("hostile:first-match-not-after" + dir)
							}
							return
						}
					}
				}
				probe(l.Goroot, "/src")
				for _, gp := range l.Gopaths {
					probe(gp, "/src")
					probe(gp, "/pkg/mod")
				}
			}
		}
	}
	res.Eval("hostile:"+jsonStr(describe), first.Panic == "" && (len(first.RemoteGopaths)+len(first.LocalGomods) > 0 || first.RemoteGoroot != ""))
	files, gomods := c18Oracle(pre, l.Goroot, l.Gopaths)
	c18SendRoots(res, pool, "S18 roots(hostile)", &c18RootsOp{Op: "roots", Gs: pre, Goroot: hb(l.Goroot), Gopaths: hbs(l.Gopaths), RemoteGoroot: hb(remoteGoroot), Files: files, Gomods: gomods}, first)
	_ = idx
}

// ---- Call.updateLocations with generated maps ----

func runC18UpdLoc(res *Result, pool *DrvPool, r *Rng) {
	keys := []string{"/r", "/r/a", "/r/a/src/b", "/r/b", "/r/ab", "/r/a/pkg/mod/c", "", "/", "/r/a/src", "/q", "/r/a/", "r"}
	mkMap := func() map[string]string {
		m := map[string]string{}
		for k := r.Intn(5); k > 0; k-- {
			m[r.Pick(keys)] = r.Pick([]string{"/L0", "/L1", "/L2", "example.com/m", "main", ""})
		}
		return m
	}
	gopaths, gomods := mkMap(), mkMap()
	goroot := r.Pick([]string{"", "/r", "/r/a", "/g", "/"})
	remote := r.Pick(keys) + r.Pick([]string{"/src/", "/pkg/mod/", "/", "/src", "", "/src/b/src/", "/src/b/pkg/mod/"}) + r.Pick([]string{"x.go", "p/x.go", "p/q/x.go", "", "_test/_testmain.go"})
	pre := c18MkCall(r, remote)
	if r.Chance(1, 6) {
		pre.Loc = r.Intn(5)
	}
	var outs []string
	var got MCall
	var ok bool
	for k := 0; k < 5; k++ {
		c := sCall(&pre)
		ok = stack.VerifUpdateLocations(&c, goroot, "/LG", gomods, gopaths)
		got = mCall(&c)
		if got.Args.Processed == nil {
			got.Args.Processed = []HB{}
		}
		if got.Args.Values == nil {
			got.Args.Values = []MArg{}
		}
		outs = append(outs, fmt.Sprint(ok)+jsonStr(got))
	}
	op := map[string]interface{}{"op": "updloc", "call": pre, "goroot": hb(goroot), "localgoroot": hb("/LG"), "gomods": sortedPairs(gomods), "gopaths": sortedPairs(gopaths)}
	for _, o := range outs[1:] {
		if o != outs[0] {
			res.Violation(Finding{Stream: "updloc", What: "two runs on the same input differ (map order)", Op: op})
			break
		}
	}
	res.Eval("updloc:"+jsonStr(op), ok)
	// direct: the statements of the property on one call
	local, rel := got.Local.String(), got.Rel.String()
	switch {
	case !ok && jsonStr(got) != jsonStr(pre):
		res.Violation(Finding{Stream: "updloc", What: "returned false but modified the call", Op: op, Got: got})
	case ok && !strings.HasSuffix(local, rel):
		res.Violation(Finding{Stream: "updloc", What: "local path does not end with the relative path", Op: op, Got: got})
	case ok && !strings.HasSuffix(remote, rel):
		res.Violation(Finding{Stream: "updloc", What: "remote path does not end with the relative path", Op: op, Got: got})
	case pre.Loc != locUnknown && got.Loc != pre.Loc:
		res.Violation(Finding{Stream: "updloc", What: "a location already set was changed", Op: op, Got: got})
	}
	if ok {
		// innermost root: no longer key of the same kind is a prefix at a boundary
		used := strings.TrimSuffix(remote, rel)
		kind := "gomod"
		if goroot != "" && used == goroot+"/src/" {
			kind = "goroot"
		} else if strings.HasSuffix(used, "/src/") || strings.HasSuffix(used, "/pkg/mod/") {
			if _, isGP := gopaths[strings.TrimSuffix(strings.TrimSuffix(used, "/src/"), "/pkg/mod/")]; isGP {
				kind = "gopath"
			}
		}
		res.Count("updloc:" + kind)
		if kind == "gopath" {
			for k := range gopaths {
				if len(k)+1 > len(used) && (strings.HasPrefix(remote, k+"/src/") || strings.HasPrefix(remote, k+"/pkg/mod/")) {
					res.Violation(Finding{Stream: "updloc", What: "a longer GOPATH root " + k + " also is a prefix of the frame", Op: op, Got: got})
				}
			}
		}
		if kind == "gomod" {
			for k := range gomods {
				if len(k)+1 > len(used) && strings.HasPrefix(remote, k+"/") {
					res.Violation(Finding{Stream: "updloc", What: "a longer module root " + k + " also is a prefix of the frame", Op: op, Got: got})
				}
			}
			if pre.Loc == locUnknown && got.Loc != locGoMod {
				res.Violation(Finding{Stream: "updloc", What: "module branch but class is not GoMod", Op: op, Got: got})
			}
		}
	} else {
		res.Count("updloc:unresolved")
	}
	wantOK, want := ok, jsonStr(got)
	pool.Send(op, func(raw json.RawMessage) {
		res.Trace()
		var rep struct {
			OK   bool  `json:"ok"`
			Call MCall `json:"call"`
		}
		json.Unmarshal(raw, &rep)
		if rep.OK != wantOK || jsonStr(rep.Call) != want {
			res.Disagree(Finding{Stream: "S18 updloc", What: "Call.updateLocations: model and implementation differ", Op: op, Expected: got, Got: rep.Call})
		}
	})
}

// ---- splitPath / reModule / path.Dir ----

func runC18Fn(res *Result, pool *DrvPool, r *Rng) {
	reMod := stack.VerifRegexps()["reModule"]
	alpha := []string{"module", "module", " ", "\t", "\n", "\r", "\r\n", "\f", "\v", "x", "a/b", "/", "//", ".", "..", "é", "\xff", "\xe2\x82", "modul", "emodule", " ", " ", "src", "go.mod"}
	var sb strings.Builder
	for k := r.Intn(12); k > 0; k-- {
		sb.WriteString(r.Pick(alpha))
	}
	s := sb.String()
	sp := stack.VerifSplitPath(s)
	if sp == nil {
		sp = []string{}
	}
	var rm interface{}
	if m := reMod.FindSubmatch([]byte(s)); m != nil {
		rm = hb(string(m[1]))
	}
	pd := path.Dir(s)
	res.Eval("fn:"+s, len(sp) > 1 || rm != nil)
	if rm != nil {
		res.Count("fn:remodule-match")
	}
	// direct: splitPath loses nothing but separators on clean paths
	if c18Clean(s) && strings.Join(sp, "/") != s {
		res.Violation(Finding{Stream: "fn", What: "splitPath of a clean path does not join back", Op: map[string]interface{}{"s": hb(s)}, Got: sp})
	}
	op := map[string]interface{}{"op": "c18fn", "s": hb(s)}
	want := canon(map[string]interface{}{"splitpath": hbs(sp), "remodule": rm, "pathdir": hb(pd)})
	pool.Send(op, func(raw json.RawMessage) {
		res.Trace()
		if got := canonRaw(raw); got != want {
			res.Disagree(Finding{Stream: "S18 fn", What: "splitPath / reModule / path.Dir: model and implementation differ", Op: op, Expected: json.RawMessage(want), Got: json.RawMessage(got)})
		}
	})
}

func runC18(prop string, res *Result, pool *DrvPool, r *Rng) {
	res.Rule = "layout stream: a generated tree (0..1 GOROOT, 0..3 pairwise disjoint GOPATHs with src and pkg/mod, go.mod modules at several depths in 9 go.mod spellings, go-run files, some referenced files absent; no root inside another root) is written under a temporary directory, remote roots are renamed (other prefix, same as local, sibling name extension) and a dump referencing the frames is printed and scanned with GuessPaths; every case runs 1+6 times; the oracle is the generating layout. nested stream: the same generator plus remote GOPATHs nested in another root's src and modules nested in a module (outside the property): 1+6 identical runs and model correspondence only, the relation to the layout is counted as observed:*. hostile stream: constructed snapshots over a colliding tree with unclean/relative/non-UTF-8 paths, preset classes and roots. updloc stream: Call.updateLocations on generated maps with nested and tied keys. fn stream: splitPath/reModule/path.Dir on strings over a hostile alphabet. non-trivial = at least one frame is mapped (layout, updloc), a root is detected (hostile), several parts or a module match (fn); distinct by hash of the input and tree"
	nl := countN(res.Tier, 400, 12000)
	for i := 0; i < nl; i++ {
		runC18Layout(res, pool, r.Fork(), i, false)
	}
	nn := countN(res.Tier, 120, 4000)
	for i := 0; i < nn; i++ {
		runC18Layout(res, pool, r.Fork(), i, true)
	}
	nh := countN(res.Tier, 400, 12000)
	for i := 0; i < nh; i++ {
		runC18Hostile(res, pool, r.Fork(), i)
	}
	nu := countN(res.Tier, 4000, 150000)
	for i := 0; i < nu; i++ {
		runC18UpdLoc(res, pool, r)
	}
	nf := countN(res.Tier, 6000, 200000)
	for i := 0; i < nf; i++ {
		runC18Fn(res, pool, r)
	}
}
