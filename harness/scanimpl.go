package main

import (
	"bytes"
	"encoding/json"
	"errors"
	"fmt"
	"io"
	"strings"
	"sync/atomic"

	"github.com/maruel/panicparse/v2/stack"
)

// SchedReader delivers data according to a schedule of read sizes (0 = a
// zero-length read without error), then `final`, either together with the last
// data or by a separate Read.
type SchedReader struct {
	data     []byte
	pos      int
	sched    []int
	final    error
	withData bool
	Reads    int
	// OnRead, if set, is called at every Read with what was delivered so far.
	OnRead func(delivered int)
}

func (s *SchedReader) Read(p []byte) (int, error) {
	s.Reads++
	if s.OnRead != nil {
		s.OnRead(s.pos)
	}
	if s.pos >= len(s.data) {
		return 0, s.final
	}
	n := len(p)
	if len(s.sched) > 0 {
		if s.sched[0] < n {
			n = s.sched[0]
		}
		s.sched = s.sched[1:]
	}
	if n > len(s.data)-s.pos {
		n = len(s.data) - s.pos
	}
	copy(p, s.data[s.pos:s.pos+n])
	s.pos += n
	if s.pos >= len(s.data) && s.withData && n > 0 {
		return n, s.final
	}
	return n, nil
}

type errOther struct{ tag int }

func (e errOther) Error() string { return fmt.Sprintf("injected reader failure %d", e.tag) }

// tags >= 100 are failures that call themselves temporary (EINTR, EAGAIN, a
// deadline): still failures of the reader, to be reported as such.
func (e errOther) Temporary() bool { return e.tag >= 100 }
func (e errOther) Timeout() bool   { return e.tag >= 100 }

// ScanOp is the "scan" request of the line protocol.
type ScanOp struct {
	Op       string `json:"op"`
	Data     HB     `json:"data"`
	Sched    []int  `json:"sched"`
	Final    string `json:"final"`
	WithData bool   `json:"withData"`
	Names    bool   `json:"names"`
	// History is set when the fixed prelude of earlier ScanSnapshot calls (see
	// historyPrelude) ran in this process right before this call: a result that
	// depends on it is a result that depends on earlier calls.
	History bool `json:"history,omitempty"`
}

var scanCalls int64

// historyPrelude runs a fixed set of ScanSnapshot calls whose readers and
// streams leave as much pending state as a call can leave behind: the last data
// delivered together with EOF while the dump ended earlier in the buffer, a
// reader that fails after the dump, a stream cut inside a dump, an indented
// dump, a race report followed by text.  On an implementation without hidden
// state shared between calls it has no effect on what follows.
func historyPrelude(k int64) {
	defer func() { recover() }()
	dump := "goroutine 1 [running]:\nmain.f(0xc000012345)\n\t/a/b.go:12 +0x1\n\nexit status 2\ntrailing text\n"
	race := "==================\nWARNING: DATA RACE\nRead at 0x00c000012345 by goroutine 8:\n  main.f()\n      /a/b.go:12 +0x1\n\nGoroutine 8 (running) created at:\n  main.main()\n      /a/b.go:3 +0x1\n==================\nafter\n"
	cases := []struct {
		data     string
		final    error
		withData bool
		sched    []int
	}{
		{dump, io.EOF, true, nil},
		{dump, errOther{7}, true, []int{40}},
		{dump[:30], io.EOF, false, nil},
		{"    " + strings.ReplaceAll(dump, "\n", "\n    "), io.EOF, true, []int{10, 10}},
		{race, io.EOF, true, nil},
	}
	// one call per prelude (they rotate), so that whatever it leaves behind is
	// met by the call under test and not by another prelude call
	c := cases[int(k)%len(cases)]
	rd := &SchedReader{data: []byte(c.data), sched: c.sched, final: c.final, withData: c.withData}
	stack.ScanSnapshot(rd, io.Discard, &stack.Opts{NameArguments: true})
}

func (o *ScanOp) finalErr() error {
	switch {
	case o.Final == "eof":
		return io.EOF
	case strings.HasPrefix(o.Final, "reader:"):
		var t int
		fmt.Sscanf(o.Final, "reader:%d", &t)
		return errOther{t}
	}
	return io.EOF
}

// ScanRes is the canonical result of one ScanSnapshot call (both sides).
type ScanRes struct {
	Snap      []MG   `json:"snap"`
	Fwd       HB     `json:"fwd"`
	Rest      HB     `json:"rest"` // suffix ++ unread
	SuffixNil bool   `json:"suffixNil"`
	Err       string `json:"err"`
	Consumed  []HB   `json:"consumed,omitempty"` // model only
	State     int    `json:"state"`              // model only
	Panic     bool   `json:"panic"`
	Fuel      bool   `json:"fuel,omitempty"`
	Error     string `json:"error,omitempty"`
	PanicMsg  string `json:"-"`
}

var errKinds = []struct{ prefix, kind string }{
	{"expected a function after a goroutine header", "funcAfterHeader"},
	{"expected a file after a function", "fileAfterFunc"},
	{"expected a file after a created line", "fileAfterCreated"},
	{"expected empty line after unavailable stack", "emptyAfterUnavail"},
	{"inconsistent indentation", "indent"},
	{"expected race condition", "raceExpected"},
	{"failed to parse address", "raceAddr"},
	{"failed to parse goroutine id", "raceId"},
	{"expected a function after a race operation or a race file", "raceFuncOrFile"},
	{"expected a function after a race operation", "raceFunc"},
	{"expected a file after a race function", "raceFile"},
	{"expected an empty line after a race file", "raceEmptyAfterFile"},
	{"expected an operator or goroutine", "raceOpOrGoroutine"},
	{"unexpected goroutine ID", "raceUnknownGoroutine"},
	{"bad function reference: expected to have at least one dot", "funcNoDot"},
	{"bad function reference: invalid URL escape", "funcEscape"},
	{"nested aggregate-typed arguments exceeded depth limit", "argsDepth"},
	{"failed to parse int", "int"},
	{"unmatched closing curly bracket", "argsClose"},
	{"unmatched opening curly bracket", "argsOpen"},
	{"internal error", "internal"},
}

func parseErrKind(err error) string {
	if err == nil {
		return ""
	}
	m := err.Error()
	for _, k := range errKinds {
		if strings.HasPrefix(m, k.prefix) {
			return k.kind
		}
	}
	return "unknown:" + m
}

func errString(err error) string {
	var eo errOther
	switch {
	case err == nil:
		return ""
	case err == io.EOF:
		return "eof"
	case err == io.ErrNoProgress:
		return "noprogress"
	case errors.As(err, &eo):
		return fmt.Sprintf("reader:%d", eo.tag)
	}
	return "parse:" + parseErrKind(err)
}

// implScan runs the real ScanSnapshot (path guessing off) on a scripted reader.
func implScan(op *ScanOp) (res ScanRes) {
	if k := atomic.AddInt64(&scanCalls, 1); k%8 == 0 || op.History {
		historyPrelude(k / 8)
		op.History = true
	}
	data := []byte(op.Data.String())
	rd := &SchedReader{data: data, sched: append([]int{}, op.Sched...), final: op.finalErr(), withData: op.WithData}
	var fwd bytes.Buffer
	defer func() {
		if p := recover(); p != nil {
			res = ScanRes{Panic: true, PanicMsg: fmt.Sprint(p)}
		}
	}()
	s, suffix, err := stack.ScanSnapshot(rd, &fwd, &stack.Opts{NameArguments: op.Names})
	if op.History {
		// what a call returned belongs to the caller: another scan in between (any stream, any
		// goroutine) must not change the remainder or the snapshot that were handed out
		historyPrelude(atomic.LoadInt64(&scanCalls)/8 + 1)
	}
	res.Fwd = hb(fwd.String())
	res.Rest = hb(string(suffix) + string(data[rd.pos:]))
	res.SuffixNil = suffix == nil
	res.Err = errString(err)
	if s != nil {
		res.Snap = mGs(s.Goroutines)
	}
	return res
}

func simpleScan(data string, names bool) ScanRes {
	return implScan(&ScanOp{Op: "scan", Data: hb(data), Sched: []int{}, Final: "eof", Names: names})
}

// sameScan compares the observable parts of two results.
func sameScan(a, b *ScanRes) string {
	switch {
	case a.Panic != b.Panic:
		return fmt.Sprintf("panic %v vs %v (%s)", a.Panic, b.Panic, a.PanicMsg+b.PanicMsg)
	case a.Panic:
		return ""
	case a.Err != b.Err:
		return fmt.Sprintf("error %q vs %q", a.Err, b.Err)
	case a.Fwd != b.Fwd:
		return fmt.Sprintf("forwarded bytes differ: %q vs %q", clip(a.Fwd.String()), clip(b.Fwd.String()))
	case a.Rest != b.Rest:
		return fmt.Sprintf("remainder+unread differ: %q vs %q", clip(a.Rest.String()), clip(b.Rest.String()))
	case (a.Snap == nil) != (b.Snap == nil):
		return fmt.Sprintf("snapshot nil-ness differs: %v vs %v", a.Snap == nil, b.Snap == nil)
	case jsonStr(a.Snap) != jsonStr(b.Snap):
		return "snapshots differ: " + firstDiff(a.Snap, b.Snap)
	}
	return ""
}

func clip(s string) string {
	if len(s) > 120 {
		return s[:60] + "…" + s[len(s)-50:]
	}
	return s
}

func firstDiff(a, b []MG) string {
	if len(a) != len(b) {
		return fmt.Sprintf("%d vs %d goroutines", len(a), len(b))
	}
	for i := range a {
		if ja, jb := jsonStr(a[i]), jsonStr(b[i]); ja != jb {
			x, y := a[i], b[i]
			switch {
			case x.ID != y.ID:
				return fmt.Sprintf("goroutine %d: id %d vs %d", i, x.ID, y.ID)
			case x.First != y.First:
				return fmt.Sprintf("goroutine %d: first %v vs %v", i, x.First, y.First)
			case x.Sig.State != y.Sig.State:
				return fmt.Sprintf("goroutine %d: state %q vs %q", i, x.Sig.State, y.Sig.State)
			case len(x.Sig.Stack.Calls) != len(y.Sig.Stack.Calls):
				return fmt.Sprintf("goroutine %d: %d vs %d frames", i, len(x.Sig.Stack.Calls), len(y.Sig.Stack.Calls))
			}
			for k := range x.Sig.Stack.Calls {
				if jx, jy := jsonStr(x.Sig.Stack.Calls[k]), jsonStr(y.Sig.Stack.Calls[k]); jx != jy {
					return fmt.Sprintf("goroutine %d frame %d: %s vs %s", i, k, humanCall(&x.Sig.Stack.Calls[k]), humanCall(&y.Sig.Stack.Calls[k]))
				}
			}
			return fmt.Sprintf("goroutine %d: %s vs %s", i, clip(ja), clip(jb))
		}
	}
	return ""
}

func humanCall(c *MCall) string {
	return fmt.Sprintf("{fn=%q ip=%q name=%q ex=%v main=%v file=%q:%d src=%q dirsrc=%q loc=%d args=%s}", c.Fn.C, c.Fn.IP, c.Fn.N, c.Fn.Ex, c.Fn.Main, c.Remote, c.Line, c.Src, c.DirSrc, c.Loc, jsonStr(c.Args))
}

// modelScan asks the model for the same op and hands both results to k.
func modelScan(pool *DrvPool, res *Result, op *ScanOp, impl ScanRes, k func(model *ScanRes)) {
	pool.Send(op, func(raw json.RawMessage) {
		res.Trace()
		var m ScanRes
		if err := json.Unmarshal(raw, &m); err != nil || m.Error != "" || m.Fuel {
			res.Disagree(Finding{Stream: "S7 scan", What: "model error: " + clip(string(raw)), Op: op})
			return
		}
		if d := sameScan(&m, &impl); d != "" {
			res.Disagree(Finding{Stream: "S7 scan", What: "model vs implementation: " + d, Op: op, Expected: m, Got: impl})
		}
		if k != nil {
			k(&m)
		}
	})
}

// random schedules
func genSched(r *Rng, n int) []int {
	switch r.Intn(6) {
	case 0:
		return []int{} // everything offered at once
	case 1: // one byte at a time
		s := make([]int, n)
		for i := range s {
			s[i] = 1
		}
		return s
	case 2: // small random chunks with zero reads
		s := []int{}
		for t := 0; t < n; {
			if r.Chance(1, 5) {
				for z := r.Intn(4); z > 0; z-- {
					s = append(s, 0)
				}
			}
			k := 1 + r.Intn(7)
			s = append(s, k)
			t += k
		}
		return s
	case 3: // around the buffer size
		s := []int{}
		for t := 0; t < n; {
			k := 16384 - 2 + r.Intn(5)
			s = append(s, k)
			t += k
		}
		return s
	case 4: // bursts of 99 zero reads (one below the retry bound)
		s := []int{}
		for t := 0; t < n; {
			if r.Chance(1, 3) {
				for z := 0; z < 99; z++ {
					s = append(s, 0)
				}
			}
			k := 1 + r.Intn(200)
			s = append(s, k)
			t += k
		}
		return s
	default:
		s := []int{}
		for t := 0; t < n; {
			k := 1 + r.Intn(3000)
			s = append(s, k)
			t += k
		}
		return s
	}
}
