package main

import "os"

func getenv(k string) string { return os.Getenv(k) }
