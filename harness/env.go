package main

import (
	"os"
	"regexp"
)

func getenv(k string) string { return os.Getenv(k) }

var reCreatedOn = regexp.MustCompile(`<li>Created on [^<]*</li>`)
