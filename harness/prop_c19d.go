package main

import (
	"encoding/json"
	"fmt"
	"go/ast"
	"go/parser"
	"go/token"
	"strings"
)

// C19, stream (f): which function declaration a traceback line is attributed
// to — (*parsedFile).getFuncAST (stack/source.go:114-157).
//
// Whole Go source files are generated (1-6 functions and methods, see
// genC19dFile). For EVERY line l from 0 to lines+2:
//
//   - implementation: stack.VerifExtractTypes(src, "", l). Function k (k-th
//     FuncDecl in source order) has exactly k+1 parameters of type int, so the
//     number of "int" in the answer identifies the declaration; ok=false is
//     "no declaration or error".
//   - model: op funcat (PP/Model/FuncAt.lean) on the tree go/parser builds
//     here, converted by treeJSON: a plain walk with ast.Inspect recording, for
//     every node, int(Pos()), whether it is an *ast.FuncDecl and its index
//     among the file's FuncDecls (the only trusted new piece). The line table
//     is computed by the model from the source (AugGlue.lineToByteOffsets);
//     the harness table (expectedOffsets) is cross-checked against the op
//     linetobyteoffsets.
//
// Direct oracle, written from the property text and from what the generator
// wrote (neither the model nor the AST is used):
//   (O1) a line after the line of the `func` keyword of a declaration and not
//        after the line on which the generator wrote the last token that
//        starts a syntax node of that declaration (parameters on their own
//        lines, statements, nested blocks, function literals, arguments of a
//        `}(1, 2)`, `} else {`) is attributed to that declaration;
//   (O2) a line above the `func` line of the first declaration, and a line
//        beyond the line table, is attributed to none;
//   (O3) no line is attributed to a declaration that starts on a later line;
//   (O4) never a panic; nothing is returned for a source go/parser rejects.
//   (O5) the line on which a declaration starts (and no other declaration
//        starts or ends) is attributed to that declaration: the frames of a
//        one-line function `func f(a, b int) { … }` are on that line (fix F12;
//        before it the line was attributed to the previous declaration).
// Not claimed, counted (f:tail:*): the closing-brace line of a function and
// the blank/comment lines after its last statement. They are attributed to the
// function only when a later top-level declaration follows; for the last
// declaration of the file the answer is none (harmless: unaugmented).

func init() { props["C19D"] = runC19d } // stand-alone entry; C19 chains it as stream (f)

// ---------------------------------------------------------------------------
// AST -> JSON (trusted)

type fnode struct {
	P int      `json:"p"`
	F bool     `json:"f,omitempty"`
	D int      `json:"d,omitempty"`
	C []*fnode `json:"c,omitempty"`
}

// treeJSON records what ast.Inspect reports, in its order.
func treeJSON(file *ast.File) (*fnode, []*ast.FuncDecl) {
	var decls []*ast.FuncDecl
	idx := map[*ast.FuncDecl]int{}
	for _, d := range file.Decls {
		if fd, ok := d.(*ast.FuncDecl); ok {
			idx[fd] = len(decls)
			decls = append(decls, fd)
		}
	}
	root := &fnode{}
	stk := []*fnode{root}
	ast.Inspect(file, func(n ast.Node) bool {
		if n == nil {
			stk = stk[:len(stk)-1]
			return true
		}
		x := &fnode{P: int(n.Pos())}
		if fd, ok := n.(*ast.FuncDecl); ok {
			x.F, x.D = true, idx[fd]
		}
		top := stk[len(stk)-1]
		top.C = append(top.C, x)
		stk = append(stk, x)
		return true
	})
	return root.C[0], decls
}

// declSig spells the type names of a declaration's used fields for the simple
// types the generator writes ("?" = anything else): only used to recognise the
// implementation's answer in damaged sources.
func declSig(fd *ast.FuncDecl) []string {
	spell := func(e ast.Expr) string {
		switch t := e.(type) {
		case *ast.Ident:
			return t.Name
		case *ast.StarExpr:
			if id, ok := t.X.(*ast.Ident); ok {
				return "*" + id.Name
			}
		}
		return "?"
	}
	var out []string
	if fd.Recv != nil && len(fd.Recv.List) == 1 {
		if _, ok := fd.Recv.List[0].Type.(*ast.StarExpr); ok {
			n := len(fd.Recv.List[0].Names)
			if n == 0 {
				n = 1
			}
			for i := 0; i < n; i++ {
				out = append(out, spell(fd.Recv.List[0].Type))
			}
		}
	}
	if fd.Type.Params != nil {
		for _, f := range fd.Type.Params.List {
			n := len(f.Names)
			if n == 0 {
				n = 1
			}
			for i := 0; i < n; i++ {
				out = append(out, spell(f.Type))
			}
		}
	}
	return out
}

func sigMatch(sig, types []string) bool {
	if len(sig) != len(types) {
		return false
	}
	for i := range sig {
		if sig[i] != "?" && sig[i] != types[i] {
			return false
		}
	}
	return true
}

// ---------------------------------------------------------------------------
// generator

// blk is a run of source lines; last is the index of the last line on which a
// token that starts a syntax node was written (-1: none).
type blk struct {
	lines []string
	last  int
}

func (b *blk) add(o blk) {
	if o.last >= 0 {
		b.last = len(b.lines) + o.last
	}
	b.lines = append(b.lines, o.lines...)
}

func (b *blk) line(s string, node bool) {
	if node {
		b.last = len(b.lines)
	}
	b.lines = append(b.lines, s)
}

type c19dGen struct {
	r      *Rng
	labels int
	lits   int // function literals written
	kinds  map[string]int
}

func (g *c19dGen) count(k string) { g.kinds[k]++ }

func indent(o blk) blk {
	out := blk{last: o.last}
	for _, l := range o.lines {
		if l == "" {
			out.lines = append(out.lines, "")
		} else {
			out.lines = append(out.lines, "\t"+l)
		}
	}
	return out
}

// stmts draws a statement list.
func (g *c19dGen) stmts(depth, max int) blk {
	b := blk{last: -1}
	n := g.r.Intn(max + 1)
	for i := 0; i < n; i++ {
		b.add(g.stmt(depth))
	}
	return b
}

func (g *c19dGen) stmt(depth int) blk {
	r := g.r
	b := blk{last: -1}
	k := r.Intn(24)
	if depth >= 3 && k >= 12 {
		k = r.Intn(12)
	}
	switch k {
	case 0, 1, 2:
		b.line("h()", true)
	case 3:
		b.line("x := 1 + 2", true)
		b.line("_ = x", true)
	case 4:
		g.count("multiline_call")
		b.line("h(1,", true)
		b.line("\t2)", true)
	case 5:
		g.count("multiline_call_close")
		b.line("h(", true)
		b.line("\t1,", true)
		b.line(")", false)
	case 6:
		g.count("multiline_composite")
		b.line("v := []int{", true)
		b.line("\t1,", true)
		b.line("\t2,", true)
		b.line("}", false)
		if r.Chance(1, 2) {
			b.line("_ = v", true)
		}
	case 7:
		g.count("raw_string")
		b.line("s := `a", true)
		b.line("b", false)
		b.line("\tc`", false)
		if r.Chance(1, 2) {
			b.line("_ = s", true)
		}
	case 8:
		g.count("comment")
		b.line("// a comment", false)
	case 9:
		g.count("blank")
		b.line("", false)
	case 10:
		g.count("block_comment")
		b.line("/* a", false)
		b.line("   b */", false)
	case 11:
		b.line([]string{"return", "panic(1)", "x++", "ch <- 1", "a, b = b, a"}[r.Intn(5)], true)
	case 12, 13:
		g.count("if")
		b.line("if x > 0 {", true)
		b.add(indent(g.stmts(depth+1, 3)))
		if r.Chance(1, 3) {
			g.count("else")
			b.line("} else {", true) // the else block starts here
			b.add(indent(g.stmts(depth+1, 2)))
		} else if r.Chance(1, 5) {
			g.count("else_if")
			b.line("} else if y {", true)
			b.add(indent(g.stmts(depth+1, 2)))
		}
		b.line("}", false)
	case 14:
		g.count("for")
		b.line([]string{"for i := 0; i < 3; i++ {", "for {", "for _, e := range es {"}[r.Intn(3)], true)
		b.add(indent(g.stmts(depth+1, 3)))
		b.line("}", false)
	case 15:
		g.count("switch")
		b.line("switch x {", true)
		b.line("case 1:", true)
		b.add(indent(g.stmts(depth+1, 2)))
		if r.Chance(1, 2) {
			b.line("default:", true)
			b.add(indent(g.stmts(depth+1, 2)))
		}
		b.line("}", false)
	case 16, 17:
		g.count("funclit_assign")
		g.lits++
		b.line("g := func(a string, b ...byte) {", true)
		b.add(indent(g.stmts(depth+1, 3)))
		b.line("}", false)
		if r.Chance(2, 3) {
			b.line("g(\"\")", true)
		}
	case 18:
		g.count("funclit_defer_args")
		g.lits++
		b.line([]string{"defer", "go"}[r.Intn(2)]+" func(a, b string) {", true)
		b.add(indent(g.stmts(depth+1, 3)))
		b.line("}(\"1\", \"2\")", true) // the arguments start on the closing line
	case 19:
		g.count("funclit_go")
		g.lits++
		b.line([]string{"defer", "go"}[r.Intn(2)]+" func() {", true)
		b.add(indent(g.stmts(depth+1, 3)))
		b.line("}()", false)
	case 20:
		g.count("labeled")
		g.labels++
		l := fmt.Sprintf("L%d", g.labels)
		b.line(l+":", true)
		b.line("for {", true)
		b.add(indent(g.stmts(depth+1, 2)))
		b.line("\tbreak "+l, true)
		b.line("}", false)
	case 21:
		g.count("block")
		b.line("{", true)
		b.add(indent(g.stmts(depth+1, 3)))
		b.line("}", false)
	case 22:
		g.count("funclit_arg")
		g.lits++
		b.line("run(func(s string) {", true)
		b.add(indent(g.stmts(depth+1, 2)))
		b.line("}, func(s string) {", true)
		b.add(indent(g.stmts(depth+1, 2)))
		b.line("})", false)
	default:
		g.count("select")
		b.line("select {", true)
		b.line("case <-ch:", true)
		b.add(indent(g.stmts(depth+1, 2)))
		b.line("}", false)
	}
	return b
}

type c19dFunc struct {
	Idx      int // index among the FuncDecls, in source order
	Ints     int // number of int parameters (Idx+1)
	PtrRecv  bool
	Form     string
	FuncLine int // line of the `func` keyword
	LastLine int // line of the last token that starts a node of the declaration
	EndLine  int // line of the last character of the declaration
	OneLine  bool
}

type c19dFile struct {
	Src     string
	Funcs   []c19dFunc
	Lines   int // number of '\n'
	CRLF    bool
	NoEOL   bool
	Tail    string
	Kinds   map[string]int
	Lits    int
	Mutated bool
}

func intParams(r *Rng, n int) []string {
	var ps []string
	if r.Chance(1, 2) {
		// grouped: p0, p1 int
		var ns []string
		for i := 0; i < n; i++ {
			ns = append(ns, fmt.Sprintf("p%d", i))
		}
		return []string{strings.Join(ns, ", ") + " int"}
	}
	for i := 0; i < n; i++ {
		ps = append(ps, fmt.Sprintf("p%d int", i))
	}
	return ps
}

// genC19dFile writes a file: optional licence comment, package clause,
// optional imports and other declarations, 1-6 functions/methods separated by
// zero, one or several blank lines, comments, or other declarations.
func genC19dFile(r *Rng) c19dFile {
	g := &c19dGen{r: r, kinds: map[string]int{}}
	var out []string // lines, without terminators
	f := c19dFile{Kinds: g.kinds}
	emit := func(b blk) (first int) {
		first = len(out) + 1
		out = append(out, b.lines...)
		return
	}
	text := func(ls ...string) { out = append(out, ls...) }

	if r.Chance(1, 3) {
		g.count("licence")
		text("// Copyright", "// licence")
		if r.Chance(1, 2) {
			text("")
		}
	}
	text("package p")
	importDecl := func() {
		if r.Chance(1, 2) {
			g.count("decl:import")
			text("import \"fmt\"")
		} else {
			g.count("decl:import_group")
			text("import (", "\t\"fmt\"", "\t\"os\"", ")")
		}
	}
	otherDecl := func() {
		switch 2 + r.Intn(5) {
		case 2:
			g.count("decl:type")
			text("type T struct {", "\ta int", "\tf func(q string)", "}")
		case 3:
			g.count("decl:var")
			text("var ch = make(chan int)")
		case 4:
			g.count("decl:var_funclit")
			g.lits++
			b := blk{last: -1}
			b.line("var V = func(z string) {", true)
			b.add(indent(g.stmts(1, 3)))
			b.line("}", false)
			emit(b)
		case 5:
			g.count("decl:const_group")
			text("const (", "\tA = iota", "\tB", ")")
		default:
			g.count("decl:type_iface")
			text("type I interface {", "\tM(a string) error", "}")
		}
	}
	sep := func(first bool) (sameLine bool) {
		switch k := r.Intn(20); {
		case k < 3:
			g.count("sep:none") // next declaration on the next line
		case k < 10:
			g.count("sep:blank1")
			text("")
		case k < 13:
			g.count("sep:blanks")
			for i := 2 + r.Intn(3); i > 0; i-- {
				text("")
			}
		case k < 16:
			g.count("sep:doc_comment")
			text("", "// doc comment", "// more")
		case k < 17:
			g.count("sep:block_comment")
			text("", "/*", "func fake(p0 int) {", "}", "*/")
		case k < 18:
			g.count("sep:comment_blank")
			text("// detached", "")
		case k < 19 && !first:
			g.count("sep:same_line")
			return true
		default:
			g.count("sep:blank1")
			text("")
		}
		return false
	}
	sep(true)
	for i := r.Intn(3); i > 0; i-- {
		importDecl() // imports come before the other declarations
		sep(true)
	}
	for i := r.Intn(3); i > 0; i-- {
		otherDecl()
		sep(true)
	}

	nf := 1 + r.Intn(6)
	for k := 0; k < nf; k++ {
		fn := c19dFunc{Idx: k, Ints: k + 1}
		recv := ""
		switch r.Intn(6) {
		case 0:
			recv = "(t T) "
		case 1:
			recv = "(t *T) "
			fn.PtrRecv = true
		case 2:
			recv = "(T) "
		}
		name := fmt.Sprintf("f%d", k)
		if r.Chance(1, 15) {
			name += "[K any]"
			recv = ""
			fn.PtrRecv = false
		}
		results := []string{"", "", "", " int", " (int, error)", " (r []string, err error)"}[r.Intn(6)]
		ps := intParams(r, fn.Ints)
		b := blk{last: -1}
		switch form := r.Intn(20); {
		case form < 3:
			fn.Form, fn.OneLine = "oneline", true
			body := []string{"{}", "{ h() }", "{ panic(p0) }", "{ return }", "{ go func(s string) {}(\"\") }"}[r.Intn(5)]
			b.line("func "+recv+name+"("+strings.Join(ps, ", ")+")"+results+" "+body, true)
		case form < 4:
			fn.Form, fn.OneLine = "nobody", true
			b.line("func "+recv+name+"("+strings.Join(ps, ", ")+")"+results, true)
		case form < 7:
			fn.Form = "multiline_sig"
			b.line("func "+recv+name+"(", true)
			for _, p := range ps {
				b.line("\t"+p+",", true)
			}
			b.line(")"+results+" {", true)
			b.add(indent(g.stmts(1, 5)))
			b.line("}", false)
		case form < 8:
			fn.Form = "func_alone"
			b.line("func", true)
			b.line(recv+name+"("+strings.Join(ps, ", ")+")"+results+" {", true)
			b.add(indent(g.stmts(1, 4)))
			b.line("}", false)
		case form < 9:
			fn.Form = "empty_body"
			b.line("func "+recv+name+"("+strings.Join(ps, ", ")+")"+results+" {", true)
			b.line("}", false)
		default:
			fn.Form = "gofmt"
			b.line("func "+recv+name+"("+strings.Join(ps, ", ")+")"+results+" {", true)
			b.add(indent(g.stmts(1, 6)))
			b.line("}", false)
		}
		sameLine := false
		if k > 0 {
			sameLine = sep(false)
			if r.Chance(1, 6) {
				otherDecl()
				sameLine = sep(true)
			}
		}
		if sameLine {
			// `}; func …` on the line the previous declaration ends on
			g.count("same_line_decl")
			prev := len(out) - 1
			out[prev] = out[prev] + "; " + b.lines[0]
			fn.FuncLine = prev + 1
			out = append(out, b.lines[1:]...)
		} else {
			fn.FuncLine = emit(b)
		}
		fn.LastLine = fn.FuncLine + b.last
		fn.EndLine = fn.FuncLine + len(b.lines) - 1
		f.Funcs = append(f.Funcs, fn)
	}
	// tail
	switch r.Intn(8) {
	case 0:
		f.Tail = "comment"
		text("", "// trailing comment")
	case 1:
		f.Tail = "comment_same_line"
		out[len(out)-1] += " // trailing"
	case 2:
		f.Tail = "blanks"
		text("", "")
	case 3:
		f.Tail = "decl"
		text("")
		otherDecl()
	case 4:
		f.Tail = "block_comment"
		text("/* the", "   end */")
	}
	f.CRLF = r.Chance(1, 6)
	f.NoEOL = r.Chance(1, 5)
	nl := "\n"
	if f.CRLF {
		nl = "\r\n"
	}
	f.Src = strings.Join(out, nl)
	if !f.NoEOL {
		f.Src += nl
	}
	f.Lines = strings.Count(f.Src, "\n")
	f.Lits = g.lits
	return f
}

// ---------------------------------------------------------------------------

type funcatRep struct {
	Res []struct {
		Decl *int   `json:"decl"`
		Err  string `json:"err"`
	} `json:"res"`
	Error string `json:"error"`
}

func countInts(types []string) int {
	n := 0
	for _, t := range types {
		if t == "int" {
			n++
		}
	}
	return n
}

// runC19d is stream (f) of C19.
func runC19d(prop string, res *Result, pool *DrvPool, r *Rng) {
	res.Rule += " (f) generated Go files: optional licence comment, package clause, imports / types / vars (one holding a function literal) / consts, 1-6 functions and methods (function k has k+1 int parameters; value, pointer and unnamed receivers, type parameters, results) in gofmt form, on one line, without body, with an empty body, with one parameter per line or with `func` alone on its line, bodies of 0-6 statements drawn recursively over calls (also spread over lines), composite literals and raw strings over several lines, comments, blank lines, if / else / else-if, for, switch, select, labels, blocks, function literals (assigned, deferred or started with arguments on the closing line, passed as arguments), separated by nothing, one or several blank lines, doc / block / detached comments, other declarations or `; ` on the same line; LF or CRLF, with or without final newline, with a trailing comment / blank lines / declaration. Every line 0 … lines+2 through stack.VerifExtractTypes vs model op funcat on the go/parser tree (converted with ast.Inspect); oracle from the generated layout (O1-O5). One file in six is damaged text (only: nothing returned if it does not parse; correspondence if it does). Non-trivial = the file parses, some line is attributed to a function and some line to none."
	n := countN(res.Tier, 2500, 75000)
	for i := 0; i < n; i++ {
		f := genC19dFile(r)
		if r.Chance(1, 6) {
			f.Mutated = true
			f.Src = mutateSrc(r, f.Src)
			f.Lines = strings.Count(f.Src, "\n")
		}
		src := []byte(f.Src)
		table := expectedOffsets(src)
		maxLine := f.Lines + 3 // line count is Lines+1; two more
		opDesc := map[string]interface{}{"src": f.Src}

		// implementation, every line
		type implRes struct {
			types []string
			ok    bool
		}
		impl := make([]implRes, maxLine+1)
		panicked := false
		for l := 0; l <= maxLine; l++ {
			types, _, ok, pan := safeExtractTypes(src, "", l)
			if pan != nil {
				res.Violation(Finding{Stream: "f", What: fmt.Sprintf("getFuncAST panicked at line %d: %v", l, pan), Op: opDesc})
				panicked = true
				break
			}
			impl[l] = implRes{types, ok}
		}
		if panicked {
			res.Eval("f:"+f.Src, false)
			continue
		}
		found, notFound := 0, 0
		for l := range impl {
			if impl[l].ok {
				found++
			} else {
				notFound++
			}
		}

		fset := token.NewFileSet()
		file, perr := parser.ParseFile(fset, "x.go", src, 0)
		res.Eval("f:"+f.Src, perr == nil && found > 0 && notFound > 0)
		res.Count("f:files")
		if f.Mutated {
			res.Count("f:mutated")
		}
		if perr != nil {
			res.Count("f:unparsable")
			if !f.Mutated {
				res.Disagree(Finding{Stream: "f", What: "harness: generated source does not parse: " + perr.Error(), Op: opDesc})
			}
			if found > 0 {
				res.Violation(Finding{Stream: "f", What: "a declaration is returned for a source go/parser rejects", Op: opDesc})
			}
			continue
		}
		root, decls := treeJSON(file)
		sigs := make([][]string, len(decls))
		for k, d := range decls {
			sigs[k] = declSig(d)
		}

		// ---- direct oracle (generated layout only)
		if !f.Mutated {
			if len(decls) != len(f.Funcs) {
				res.Disagree(Finding{Stream: "f", What: fmt.Sprintf("harness: %d function declarations parsed, %d generated", len(decls), len(f.Funcs)), Op: opDesc})
				continue
			}
			res.Count(fmt.Sprintf("f:funcs:%d", len(f.Funcs)))
			if f.CRLF {
				res.Count("f:crlf")
			}
			if f.NoEOL {
				res.Count("f:no_final_newline")
			}
			if f.Tail != "" {
				res.Count("f:tail:" + f.Tail)
			}
			if f.Lits > 0 {
				res.Count("f:with_function_literals")
			}
			for k, c := range f.Kinds {
				res.CountN("f:gen:"+k, c)
			}
			// answer of the implementation as a declaration index (-1 none)
			ans := make([]int, len(impl))
			for l := range impl {
				ans[l] = -1
				if impl[l].ok {
					k := countInts(impl[l].types) - 1
					if k < 0 || k >= len(f.Funcs) {
						res.Violation(Finding{Stream: "f", What: fmt.Sprintf("line %d: the types %v are those of no generated function", l, impl[l].types), Op: opDesc})
						continue
					}
					want := k + 1
					if f.Funcs[k].PtrRecv {
						want++
					}
					if len(impl[l].types) != want {
						res.Violation(Finding{Stream: "f", What: fmt.Sprintf("line %d: the types %v are not those of f%d", l, impl[l].types, k), Op: opDesc})
						continue
					}
					ans[l] = k
				}
			}
			first := f.Funcs[0].FuncLine
			for l := 0; l <= maxLine; l++ {
				// (O3)
				if ans[l] >= 0 && f.Funcs[ans[l]].FuncLine > l {
					res.Violation(Finding{Stream: "f", What: fmt.Sprintf("line %d is attributed to f%d which starts on line %d", l, ans[l], f.Funcs[ans[l]].FuncLine), Op: opDesc})
				}
				// (O2)
				if (l < first || l >= len(table)) && ans[l] >= 0 {
					res.Violation(Finding{Stream: "f", What: fmt.Sprintf("line %d (first function on line %d, %d lines) is attributed to f%d", l, first, len(table)-1, ans[l]), Op: opDesc})
				}
				if l >= len(table) {
					res.Count("f:line:over")
				} else if l < first {
					res.Count("f:line:above_first")
				}
			}
			for k, fn := range f.Funcs {
				res.Count("f:form:" + fn.Form)
				// (O1)
				for l := fn.FuncLine + 1; l <= fn.LastLine; l++ {
					if k+1 < len(f.Funcs) && f.Funcs[k+1].FuncLine == l {
						break // `}; func …` on this line
					}
					res.Count("f:line:inside")
					if ans[l] != k {
						res.Violation(Finding{Stream: "f", What: fmt.Sprintf("line %d is inside f%d (func on line %d, last statement on line %d) but is attributed to %d", l, k, fn.FuncLine, fn.LastLine, ans[l]), Op: opDesc})
					}
				}
				// not claimed: after the last statement
				for l := fn.LastLine + 1; l <= fn.EndLine; l++ {
					switch {
					case ans[l] == k:
						res.Count("f:tail:closing_lines_same_function")
					case ans[l] == -1:
						res.Count("f:tail:closing_lines_none")
						if k+1 < len(f.Funcs) {
							res.Count("f:tail:closing_lines_none_not_last")
						}
					default:
						res.Count("f:tail:closing_lines_other")
					}
				}
				// (O5) the first line
				l := fn.FuncLine
				shared := (k > 0 && f.Funcs[k-1].EndLine == l) || (k+1 < len(f.Funcs) && f.Funcs[k+1].FuncLine == l)
				switch {
				case shared:
					res.Count("f:firstline:shared_with_another_declaration")
				case ans[l] == k:
					res.Count("f:firstline:same_function")
					if fn.Form == "oneline" {
						res.Count("f:firstline:oneline_same_function")
					}
				default:
					res.Violation(Finding{Stream: "f", What: fmt.Sprintf("line %d is the line f%d starts on (%s) but is attributed to %d", l, k, fn.Form, ans[l]), Op: opDesc})
				}
			}
		}

		// ---- correspondence
		// a node on the last byte of the previous line? (documented as never)
		{
			pos := map[int]bool{}
			var walk func(x *fnode)
			walk = func(x *fnode) {
				pos[x.P] = true
				for _, c := range x.C {
					walk(c)
				}
			}
			walk(root)
			for l := 2; l < len(table); l++ {
				if pos[table[l]] {
					res.Count("f:node_on_newline_byte")
				}
			}
		}
		lop := map[string]interface{}{"op": "linetobyteoffsets", "src": hb(f.Src)}
		pool.Send(lop, func(raw json.RawMessage) {
			res.Trace()
			var rep struct {
				Offsets []int `json:"offsets"`
			}
			if err := json.Unmarshal(raw, &rep); err != nil || jsonStr(rep.Offsets) != jsonStr(table) {
				res.Disagree(Finding{Stream: "f", What: "lineToByteOffsets: model differs from [0 0] + offsets after each newline", Op: lop, Expected: table, Got: clip(string(raw))})
			}
		})
		lines := make([]int, maxLine+1)
		for l := range lines {
			lines[l] = l
		}
		op := map[string]interface{}{"op": "funcat", "root": root, "src": hb(f.Src), "lines": lines}
		tlen := len(table)
		mutated := f.Mutated
		pool.Send(op, func(raw json.RawMessage) {
			res.Trace()
			var rep funcatRep
			if err := json.Unmarshal(raw, &rep); err != nil || rep.Error != "" || len(rep.Res) != len(lines) {
				res.Disagree(Finding{Stream: "S19d funcat", What: "model did not answer one result per line: " + clip(string(raw)), Op: opDesc})
				return
			}
			for l, m := range rep.Res {
				got := impl[l]
				switch {
				case m.Err != "":
					if m.Err != "lineOver" || l < tlen {
						res.Disagree(Finding{Stream: "S19d funcat", What: fmt.Sprintf("line %d: model reports the error %q with a table of %d entries", l, m.Err, tlen), Op: opDesc})
					} else if got.ok {
						res.Disagree(Finding{Stream: "S19d funcat", What: fmt.Sprintf("line %d: model reports line-over, the implementation returns a declaration", l), Op: opDesc, Got: got.types})
					}
				case l >= tlen:
					res.Disagree(Finding{Stream: "S19d funcat", What: fmt.Sprintf("line %d: no line-over error from the model with a table of %d entries", l, tlen), Op: opDesc})
				case m.Decl == nil:
					if got.ok {
						res.Disagree(Finding{Stream: "S19d funcat", What: fmt.Sprintf("line %d: model finds no declaration, the implementation returns one", l), Op: opDesc, Got: got.types})
					}
				default:
					k := *m.Decl
					if k < 0 || k >= len(sigs) {
						res.Disagree(Finding{Stream: "S19d funcat", What: fmt.Sprintf("line %d: model answers declaration %d of %d", l, k, len(sigs)), Op: opDesc})
					} else if !got.ok {
						res.Disagree(Finding{Stream: "S19d funcat", What: fmt.Sprintf("line %d: model finds declaration %d, the implementation none", l, k), Op: opDesc})
					} else if !sigMatch(sigs[k], got.types) {
						res.Disagree(Finding{Stream: "S19d funcat", What: fmt.Sprintf("line %d: model finds declaration %d (%v), the implementation one with types %v", l, k, sigs[k], got.types), Op: opDesc})
					} else if !mutated && countInts(got.types)-1 != k {
						res.Disagree(Finding{Stream: "S19d funcat", What: fmt.Sprintf("line %d: model finds declaration %d, the implementation f%d", l, k, countInts(got.types)-1), Op: opDesc})
					}
				}
			}
		})
		if i < 2 {
			var a []interface{}
			for l := range impl {
				if impl[l].ok {
					a = append(a, countInts(impl[l].types)-1)
				} else {
					a = append(a, nil)
				}
			}
			res.Sample(map[string]interface{}{"stream": "f", "src": f.Src, "funcs": f.Funcs, "decl_per_line_from_0": a})
		}
	}
}
