package main

import (
	"bytes"
	"fmt"
	"html/template"
	"io"
	"os"
	"os/exec"
	"path/filepath"
	"regexp"
	"strconv"
	"strings"
	"sync"

	"github.com/maruel/panicparse/v2/stack"
	"github.com/maruel/panicparse/v2/verifhooks"
)

func init() { props["C14"] = runC14 }

type c14op struct {
	kind int // 0 aggregate, 1 agg+html, 2 snapshot html, 3 console buckets, 4 console goroutines, 5/6 goroutines with -f / -m, 7/8 buckets with -f / -m
	lvl  int
	pf   int
	sel  int // kinds 5..8: the goroutine whose id the regular expression is built from
}

func (o c14op) String() string {
	return fmt.Sprintf("%s(level=%d,pf=%d,sel=%d)", []string{"Aggregate", "Aggregate+ToHTML", "Snapshot.ToHTML", "console buckets", "console goroutines",
		"console goroutines filtered (-f)", "console goroutines matched (-m)", "console buckets filtered (-f)", "console buckets matched (-m)"}[o.kind], o.lvl, o.pf, o.sel)
}

// headerRe matches the console header of goroutine id (goroutine rendering) or
// of a bucket of exactly that many members (bucket rendering): both start with
// "<n>: ".
func headerRe(n int) *regexp.Regexp { return regexp.MustCompile(`^` + strconv.Itoa(n) + `: `) }

func (o c14op) run(s *stack.Snapshot) string {
	var b bytes.Buffer
	switch o.kind {
	case 0:
		fmt.Fprint(&b, jsonStr(mBuckets(s.Aggregate(levels[o.lvl]).Buckets)))
	case 1:
		s.Aggregate(levels[o.lvl]).ToHTML(&b, template.HTML(""))
	case 2:
		s.ToHTML(&b, template.HTML(""))
	case 3:
		verifhooks.WriteBuckets(&b, verifhooks.NewPalette(o.lvl%2 == 0), s.Aggregate(levels[o.lvl]), o.pf, false, nil, nil)
	case 4:
		verifhooks.WriteGoroutines(&b, verifhooks.NewPalette(o.lvl%2 == 0), s, o.pf, false, nil, nil)
	case 5, 6:
		id := 1
		if len(s.Goroutines) > 0 {
			id = s.Goroutines[o.sel%len(s.Goroutines)].ID
		}
		var f, m *regexp.Regexp
		if o.kind == 5 {
			f = headerRe(id)
		} else {
			m = headerRe(id)
		}
		verifhooks.WriteGoroutines(&b, verifhooks.NewPalette(o.lvl%2 == 0), s, o.pf, false, f, m)
	default:
		var f, m *regexp.Regexp
		if o.kind == 7 {
			f = headerRe(1 + o.sel%3)
		} else {
			m = headerRe(1 + o.sel%3)
		}
		verifhooks.WriteBuckets(&b, verifhooks.NewPalette(o.lvl%2 == 0), s.Aggregate(levels[o.lvl]), o.pf, false, f, m)
	}
	return reCreatedOn.ReplaceAllString(b.String(), "")
}

func genC14Snapshot(r *Rng) ([]MG, string) {
	if r.Bool() {
		return GenSnapshot(r, 12), ""
	}
	txt := GenCfg(r).Dump(genPtrDump(r))
	s, _, _ := stack.ScanSnapshot(strings.NewReader(txt), io.Discard, &stack.Opts{NameArguments: true})
	if s == nil {
		return GenSnapshot(r, 12), ""
	}
	return mGs(s.Goroutines), txt
}

func runC14(prop string, res *Result, pool *DrvPool, r *Rng) {
	res.Rule = "histories: random sequences (length 4..12) of Aggregate(level) / Aggregated.ToHTML / Snapshot.ToHTML / console rendering on one snapshot (parsed or constructed); after every operation the snapshot must be deep-equal to a copy taken before, and every operation must give the same result as on a fresh copy; then the same operations from 8 goroutines sharing the snapshot; plus a separately built -race program (16 goroutines, shared snapshot and Opts); non-trivial = the history contains a merging aggregation; distinct by hash of (snapshot, history)"
	full, rel, base := verifhooks.PathFormats()
	pfs := []int{full, rel, base}
	n := countN(res.Tier, 250, 6000)
	for i := 0; i < n; i++ {
		gs, _ := genC14Snapshot(r)
		before := jsonStr(gs)
		snap := &stack.Snapshot{Goroutines: sGs(gs)}
		hist := make([]c14op, 4+r.Intn(9))
		for k := range hist {
			hist[k] = c14op{kind: r.Intn(9), lvl: r.Intn(4), pf: pfs[r.Intn(3)], sel: r.Intn(64)}
		}
		merging := false
		for k, op := range hist {
			var got string
			if p := catch(func() { got = op.run(snap) }); p != nil {
				res.Violation(Finding{Stream: "history", What: fmt.Sprintf("%v panicked: %v", op, p), Op: map[string]interface{}{"gs": gs}})
				break
			}
			if after := jsonStr(mGs(snap.Goroutines)); after != before {
				res.Violation(Finding{Stream: "history", What: fmt.Sprintf("the snapshot was modified by operation %d of the history %v", k, hist[:k+1]), Op: map[string]interface{}{"gs": gs, "history": fmt.Sprint(hist[:k+1])}})
				break
			}
			fresh := &stack.Snapshot{Goroutines: sGs(gs)}
			if want := op.run(fresh); want != got {
				res.Violation(Finding{Stream: "history", What: fmt.Sprintf("%v after the history %v gives a different result than on a fresh snapshot", op, hist[:k]), Op: map[string]interface{}{"gs": gs, "history": fmt.Sprint(hist[:k+1])}})
				break
			}
			if op.kind != 2 && op.kind != 4 && op.kind != 5 && op.kind != 6 && len(snap.Aggregate(levels[op.lvl]).Buckets) < len(gs) {
				merging = true
			}
		}
		res.Eval(before+fmt.Sprint(hist), merging)
		// concurrent use of one snapshot
		if i%5 == 0 {
			want := make([]string, len(hist))
			for k, op := range hist {
				want[k] = op.run(&stack.Snapshot{Goroutines: sGs(gs)})
			}
			var wg sync.WaitGroup
			var mu sync.Mutex
			var bad string
			for w := 0; w < 8; w++ {
				wg.Add(1)
				go func(w int) {
					defer wg.Done()
					for k := range hist {
						op := hist[(k+w)%len(hist)]
						if got := op.run(snap); got != want[(k+w)%len(hist)] {
							mu.Lock()
							bad = fmt.Sprintf("%v run concurrently on a shared snapshot gave a different result than sequentially", op)
							mu.Unlock()
						}
					}
				}(w)
			}
			wg.Wait()
			if bad != "" {
				res.Violation(Finding{Stream: "concurrent", What: bad, Op: map[string]interface{}{"gs": gs}})
			}
			if after := jsonStr(mGs(snap.Goroutines)); after != before {
				res.Violation(Finding{Stream: "concurrent", What: "the shared snapshot was modified by concurrent aggregation/rendering", Op: map[string]interface{}{"gs": gs}})
			}
			res.Count("concurrent-histories")
		}
		if i < 3 {
			res.Sample(map[string]interface{}{"goroutines": len(gs), "history": fmt.Sprint(hist)})
		}
	}
	// the options value is an input too: scanning must not modify it
	for i := 0; i < countN(res.Tier, 40, 600); i++ {
		gp := []string{"/nonexistent/gp", "/nonexistent/a/longer/gopath", "/nonexistent/mid/gp", "/x"}
		for j, k := range r.Perm(len(gp)) {
			gp[j], gp[k] = gp[k], gp[j]
		}
		gp = gp[:1+r.Intn(len(gp))]
		opts := &stack.Opts{NameArguments: r.Bool(), GuessPaths: true, AnalyzeSources: r.Bool(), LocalGOROOT: goroot, LocalGOPATHs: gp}
		before := fmt.Sprintf("%+v", *opts)
		in := GenCfg(r).Dump(GenDump(r, 4, 3))
		if p := catch(func() { stack.ScanSnapshot(strings.NewReader(in), io.Discard, opts) }); p != nil {
			res.Violation(Finding{Stream: "opts", What: fmt.Sprintf("ScanSnapshot panicked: %v", p), Op: map[string]interface{}{"input": hb(in), "opts": before}})
			continue
		}
		res.Count("opts-unchanged-checks")
		if after := fmt.Sprintf("%+v", *opts); after != before {
			res.Violation(Finding{Stream: "opts", What: "ScanSnapshot modified the options value it was given (shared between calls and goroutines): " + before + " became " + after, Op: map[string]interface{}{"input": hb(in), "opts": before}})
			break
		}
	}
	// what one call returned must not be touched by a later call: race reports and dumps followed by
	// text, each scanned with another scan (other streams, other readers) before and after it
	for i := 0; i < countN(res.Tier, 150, 3000); i++ {
		var txt string
		if r.Bool() {
			rs := GenRace(r)
			txt = rs.Print(false)
		} else {
			txt = GenCfg(r).Dump(GenDump(r, 3, 3))
		}
		trailer := fmt.Sprintf("exit status %d\nremainder line %d of the stream\nand one more\n", 2+r.Intn(3), i)
		op := &ScanOp{Op: "scan", Data: hb(txt + trailer), Sched: genSched(r, len(txt)+len(trailer)), Final: "eof", WithData: r.Bool(), History: true}
		got := implScan(op)
		plain := &ScanOp{Op: "scan", Data: op.Data, Sched: op.Sched, Final: "eof", WithData: op.WithData}
		res.Count("interleaved-scans")
		if got.Panic {
			res.Violation(Finding{Stream: "interleaved", What: "ScanSnapshot panicked: " + got.PanicMsg, Op: plain})
			break
		}
		if !strings.HasSuffix(txt+trailer, got.Rest.String()) || (got.Err == "" && !strings.HasSuffix(got.Rest.String(), "and one more\n")) {
			res.Violation(Finding{Stream: "interleaved", What: fmt.Sprintf("the remainder a scan returned was changed by a scan of another stream made right after it: %q is not the tail of the input", clip(got.Rest.String())), Op: plain, Got: got})
			break
		}
	}
	runColdConcurrentScans(res, r.Fork())
	runRaceProgram(res)
	// model correspondence of the aggregation itself is C04's; here: aggregate twice = same
	aggCasesDiv = 4
	runAgg("C14", res, pool, r.Fork())
}

// runColdConcurrentScans: several goroutines scan the same dump at the same
// moment, with path guessing and source analysis on and one shared Opts, while
// the source file is new to the process (a fresh directory per round): each must
// get what a scan run alone gets afterwards.  Anything the library keeps between
// calls (a process-wide source cache, a pooled buffer) is cold in every round.
func runColdConcurrentScans(res *Result, r *Rng) {
	for round := 0; round < countN(res.Tier, 6, 60); round++ {
		dir, err := os.MkdirTemp("", "verif-c14-src-")
		if err != nil {
			return
		}
		txt, opts := sourceTree(dir, 3+r.Intn(6))
		const workers = 8
		got := make([]string, workers)
		var wg sync.WaitGroup
		start := make(chan struct{})
		for w := 0; w < workers; w++ {
			wg.Add(1)
			go func(w int) {
				defer wg.Done()
				<-start
				defer func() {
					if p := recover(); p != nil {
						got[w] = fmt.Sprintf("panic: %v", p)
					}
				}()
				s, _, _ := stack.ScanSnapshot(strings.NewReader(txt), io.Discard, opts)
				if s != nil {
					got[w] = fmt.Sprintf("%+v", derefGs(s.Goroutines))
				}
			}(w)
		}
		close(start)
		wg.Wait()
		alone := ""
		if s, _, _ := stack.ScanSnapshot(strings.NewReader(txt), io.Discard, opts); s != nil {
			alone = fmt.Sprintf("%+v", derefGs(s.Goroutines))
		}
		os.RemoveAll(dir)
		res.Count("cold-concurrent-rounds")
		if !strings.Contains(alone, "Processed:[") || strings.Contains(alone, "Processed:[] Elided:false _:{}} _:{}} RemoteSrcPath:"+dir) && !strings.Contains(alone, "string(") {
			res.Extra["cold-concurrent"] = "source tree not picked up"
		}
		for w := range got {
			if got[w] != alone {
				res.Violation(Finding{Stream: "cold-concurrent", What: fmt.Sprintf("%d goroutines scanned the same dump concurrently with sources on disk (shared Opts, file new to the process): worker %d got a different snapshot than a scan run alone: %s", workers, w, diffAround(alone, got[w])), Op: map[string]interface{}{"input": hb(txt), "round": round}})
				return
			}
		}
	}
}

func derefGs(gs []*stack.Goroutine) []stack.Goroutine {
	out := make([]stack.Goroutine, len(gs))
	for i, g := range gs {
		out[i] = *g
	}
	return out
}

// runRaceProgram builds harness/c14race with the race detector and runs it.
func runRaceProgram(res *Result) {
	dir := os.Getenv("VERIF_DIR")
	if dir == "" {
		dir = "/verif"
	}
	hdir := filepath.Join(dir, "harness")
	if h := os.Getenv("VERIF_HARNESS_DIR"); h != "" {
		hdir = h
	}
	tmp, err := os.MkdirTemp("", "verif-c14-")
	if err != nil {
		res.Extra["race"] = "cannot create temp dir: " + err.Error()
		return
	}
	defer os.RemoveAll(tmp)
	exe := filepath.Join(tmp, "c14race")
	cmd := exec.Command("go", "build", "-race", "-tags", "verif", "-o", exe, "./c14race")
	cmd.Dir = hdir
	cmd.Env = append(os.Environ(), "CGO_ENABLED=1", "GOFLAGS=-mod=mod", "GOPROXY=off", "GOSUMDB=off", "GOTOOLCHAIN=local")
	if out, err := cmd.CombinedOutput(); err != nil {
		res.Extra["race"] = "race build unavailable: " + clip(string(out))
		res.Count("race-build-failed")
		return
	}
	runs := countN(res.Tier, 2, 20)
	for i := 0; i < runs; i++ {
		c := exec.Command(exe)
		c.Env = append(os.Environ(), "GORACE=halt_on_error=0")
		out, err := c.CombinedOutput()
		res.Count("race-runs")
		s := string(out)
		switch {
		case strings.Contains(s, "WARNING: DATA RACE"):
			i0 := strings.Index(s, "WARNING: DATA RACE")
			res.Violation(Finding{Stream: "race", What: "the race detector reported a data race while 16 goroutines scanned, aggregated and rendered shared and private snapshots: " + clip(s[i0:]), Op: map[string]interface{}{"program": "harness/c14race"}})
			return
		case strings.Contains(s, "RESULT-MISMATCH"):
			res.Violation(Finding{Stream: "race", What: "concurrent scan/aggregate/render gave results different from the sequential run: " + clip(s), Op: map[string]interface{}{"program": "harness/c14race"}})
			return
		case err != nil:
			res.Violation(Finding{Stream: "race", What: "the concurrent driver failed: " + clip(s), Op: map[string]interface{}{"program": "harness/c14race"}})
			return
		}
	}
	res.Extra["race"] = fmt.Sprintf("%d runs of the -race program, no report", runs)
}
