package main

import (
	"encoding/json"
	"fmt"
	"go/parser"
	"go/token"
	"math"
	"os"
	"path/filepath"
	"regexp"
	"strconv"
	"strings"

	"github.com/maruel/panicparse/v2/stack"
)

// C19B: the glue around augmentCall (Snapshot.augment, augmentGoroutine,
// loadFile, lineToByteOffsets, getFuncAST) is harmless.
//
// Streams:
//   (w) "worlds": a temporary source tree with valid Go files (LF, CRLF, no
//       trailing newline, trailing comments, twin files with equal content),
//       unparsable files, an empty file, non-.go files with valid content, a
//       directory named like a Go file and names that do not exist; a
//       constructed snapshot whose calls point into the tree (several calls per
//       file, files shared between goroutines, calls without arguments, lines
//       0 / 1 / on a declaration / in a body / after the last function / at
//       and beyond the end of the file, calls that already carry Processed,
//       created-by frames) goes through stack.VerifAugment.
//       Direct oracle: no panic; nothing but Processed of Stack.Calls differs
//       from a deep copy taken before; calls into unusable files, calls
//       whose line is outside the file or outside any function, and calls
//       without arguments keep their Processed; a "line over" error quotes the
//       line count of a file of the tree; extractArgumentsType never answers
//       (no type, ellipsis).
//       Correspondence: op augmentglue with the oracle tables computed here
//       (file contents or absence, go/parser verdict, VerifExtractTypes for
//       every (file, name, line) of a call with arguments) must return the
//       same goroutines and the same kind of last error.
//   (l) line tables: `package p` followed by a random mix of LF / CRLF / lone
//       CR / comments / no final newline; the line count is read from the
//       implementation through the text of the "line over" error at a huge
//       line and the boundary `len(offsets) <= l` is probed at count and
//       count+1.  Direct oracle: count = 1 + number of '\n'.  Correspondence:
//       op linetobyteoffsets returns [0, 0] followed by the offset after each
//       '\n'.

func init() { props["C19B"] = runC19B }

// ---------------------------------------------------------------------------
// source generation

type srcFunc struct {
	Name     string
	DeclLine int
	Body     []int // lines of the statements of the body
	EndLine  int
}

type srcFile struct {
	Kind    string // valid, valid-crlf, valid-noeol, valid-tail, twin, unparsable, empty, nongo, dir, missing, emptyname
	Path    string // LocalSrcPath used by calls
	Content []byte // what was written (nil: nothing on disk)
	OnDisk  bool
	Funcs   []srcFunc
	NL      int  // number of '\n' written, by construction
	Usable  bool // by construction: .go suffix, readable, parsable
}

var c19bParams = []string{"", "a int", "a, b int", "s string, n int", "xs ...int", "p *T, m map[string]int", "f func(), c chan int",
	"e error", "sl []byte", "x float64, y float32", "T", "int, string", "a int8, b uint16, c rune, d bool", "args ...interface{}",
	"v pkg.V, w [4]int", "_ uintptr, s []string"}

var c19bRecv = []string{"", "", "", "(t *T) ", "(t T) ", "(*T) "}

// genGoSource returns the lines (without terminators) of a valid Go file and
// its functions.
func genGoSource(r *Rng) ([]string, []srcFunc) {
	lines := []string{"package p", ""}
	if r.Chance(1, 2) {
		lines = append(lines, "var V = func(x int) int { return x }", "")
	}
	if r.Chance(1, 3) {
		lines = append(lines, "// T is a type.", "type T struct{ a, b int }", "")
	}
	var fns []srcFunc
	n := 1 + r.Intn(4)
	for i := 0; i < n; i++ {
		f := srcFunc{Name: fmt.Sprintf("F%d", i)}
		lines = append(lines, "func "+c19bRecv[r.Intn(len(c19bRecv))]+f.Name+"("+c19bParams[r.Intn(len(c19bParams))]+") {")
		f.DeclLine = len(lines)
		k := 1 + r.Intn(3)
		for j := 0; j < k; j++ {
			switch r.Intn(3) {
			case 0:
				lines = append(lines, "\tpanic(1)")
			case 1:
				lines = append(lines, "\tg := func(q int) { _ = q }; g(2)")
			default:
				lines = append(lines, "\tprintln(\"x\")")
			}
			f.Body = append(f.Body, len(lines))
		}
		lines = append(lines, "}")
		f.EndLine = len(lines)
		if r.Chance(2, 3) {
			lines = append(lines, "")
		}
		fns = append(fns, f)
	}
	return lines, fns
}

func countNL(b []byte) int { return strings.Count(string(b), "\n") }

// genWorld creates the files under dir.
func genWorld(r *Rng, dir string) ([]*srcFile, error) {
	var files []*srcFile
	write := func(f *srcFile, rel string) error {
		f.Path = filepath.Join(dir, rel)
		f.OnDisk = true
		if err := os.MkdirAll(filepath.Dir(f.Path), 0o755); err != nil {
			return err
		}
		return os.WriteFile(f.Path, f.Content, 0o644)
	}
	nValid := 1 + r.Intn(3)
	for i := 0; i < nValid; i++ {
		lines, fns := genGoSource(r)
		f := &srcFile{Funcs: fns, Usable: true}
		switch r.Intn(5) {
		case 0:
			f.Kind = "valid-crlf"
			f.Content = []byte(strings.Join(lines, "\r\n") + "\r\n")
		case 1:
			f.Kind = "valid-noeol"
			f.Content = []byte(strings.Join(lines, "\n"))
		case 2:
			f.Kind = "valid-tail"
			lines = append(lines, "", "// trailing comment", "")
			f.Content = []byte(strings.Join(lines, "\n") + "\n")
		default:
			f.Kind = "valid"
			f.Content = []byte(strings.Join(lines, "\n") + "\n")
		}
		f.NL = countNL(f.Content)
		sub := []string{"", "pkg", "a/b"}[r.Intn(3)]
		if err := write(f, filepath.Join(sub, fmt.Sprintf("v%d.go", i))); err != nil {
			return nil, err
		}
		files = append(files, f)
		if r.Chance(1, 4) {
			// a second file with the same content
			t := &srcFile{Kind: "twin", Content: f.Content, Funcs: fns, NL: f.NL, Usable: true}
			if err := write(t, fmt.Sprintf("twin%d.go", i)); err != nil {
				return nil, err
			}
			files = append(files, t)
		}
		if r.Chance(1, 4) {
			// valid content under a name the code must refuse
			t := &srcFile{Kind: "nongo", Content: f.Content, Funcs: fns, NL: f.NL}
			if err := write(t, []string{"c.c", "asm.s", "x.go.bak", "xgo", "y.GO"}[r.Intn(5)]); err != nil {
				return nil, err
			}
			files = append(files, t)
		}
	}
	if r.Chance(2, 3) {
		lines, fns := genGoSource(r)
		txt := strings.Join(lines, "\n") + "\n"
		switch r.Intn(4) {
		case 0:
			txt = strings.Replace(txt, "func ", "func {", 1)
		case 1:
			txt = strings.Replace(txt, "package p", "package", 1)
		case 2:
			txt = txt + "}}}} )(\n"
		default:
			txt = "\x00\x01" + txt
		}
		f := &srcFile{Kind: "unparsable", Content: []byte(txt), Funcs: fns, NL: countNL([]byte(txt))}
		if err := write(f, "bad.go"); err != nil {
			return nil, err
		}
		files = append(files, f)
	}
	if r.Chance(1, 2) {
		f := &srcFile{Kind: "empty", Content: []byte{}}
		if err := write(f, "empty.go"); err != nil {
			return nil, err
		}
		files = append(files, f)
	}
	if r.Chance(1, 2) {
		f := &srcFile{Kind: "dir", Path: filepath.Join(dir, "isdir.go")}
		if err := os.MkdirAll(f.Path, 0o755); err != nil {
			return nil, err
		}
		files = append(files, f)
	}
	if r.Chance(2, 3) {
		files = append(files, &srcFile{Kind: "missing", Path: filepath.Join(dir, "nothere", "gone.go")})
	}
	if r.Chance(1, 3) {
		files = append(files, &srcFile{Kind: "missing", Path: filepath.Join(dir, "gone.s")})
	}
	if r.Chance(1, 3) {
		files = append(files, &srcFile{Kind: "emptyname", Path: ""})
	}
	return files, nil
}

// lineClass says what the generator knows about a line of a file.
//
//	"over"    : beyond the file (len(offsets) <= l)
//	"outside" : inside the file, certainly not inside a function declaration
//	"body"    : a statement of a function body
//	"other"   : declaration line, closing brace, between functions (no claim)
func (f *srcFile) lineClass(l int) string {
	if l >= f.NL+2 {
		return "over"
	}
	if len(f.Funcs) == 0 || l < f.Funcs[0].DeclLine {
		return "outside"
	}
	for _, fn := range f.Funcs {
		for _, b := range fn.Body {
			if b == l {
				return "body"
			}
		}
	}
	return "other"
}

func (f *srcFile) pickLine(r *Rng) int {
	switch r.Intn(12) {
	case 0:
		return 0
	case 1:
		return 1
	case 2:
		return f.NL // last line that ends with a newline
	case 3:
		return f.NL + 1 // the line after the last newline: still inside
	case 4:
		return f.NL + 2 // first line beyond
	case 5:
		return f.NL + 3 + r.Intn(5)
	case 6:
		return 1 << uint(10+r.Intn(20))
	}
	if len(f.Funcs) == 0 {
		return r.Intn(f.NL + 3)
	}
	fn := f.Funcs[r.Intn(len(f.Funcs))]
	switch r.Intn(6) {
	case 0:
		return fn.DeclLine
	case 1:
		return fn.EndLine
	case 2:
		return fn.EndLine + 1
	}
	return fn.Body[r.Intn(len(fn.Body))]
}

type callInfo struct {
	File  *srcFile
	Class string
	Args  bool
}

func hbStrings(v []HB) []string {
	out := make([]string, len(v))
	for i := range v {
		out[i] = v[i].String()
	}
	return out
}

func genGlueCall(r *Rng, files []*srcFile) (stack.Call, callInfo) {
	f := files[r.Intn(len(files))]
	if r.Chance(1, 2) {
		// half of the calls go to a usable file (there is always one)
		for !f.Usable {
			f = files[r.Intn(len(files))]
		}
	}
	line := f.pickLine(r)
	name := "F0"
	if len(f.Funcs) > 0 && r.Chance(3, 4) {
		name = f.Funcs[r.Intn(len(f.Funcs))].Name
	} else if r.Chance(1, 2) {
		name = []string{"", "nosuch", "T.F1", "(*T).F1", "func1"}[r.Intn(5)]
	}
	c := stack.Call{
		Func:          stack.Func{Complete: "p." + name, ImportPath: "p", DirName: "p", Name: name, IsExported: true},
		RemoteSrcPath: "/remote/" + filepath.Base(f.Path), Line: line, SrcName: filepath.Base(f.Path),
		LocalSrcPath: f.Path, RelSrcPath: filepath.Base(f.Path), ImportPath: "p", Location: stack.Location(r.Intn(5)),
	}
	if !r.Chance(1, 4) {
		n := 1 + r.Intn(5)
		for i := 0; i < n; i++ {
			c.Args.Values = append(c.Args.Values, genHostileArg(r, 0))
		}
	}
	c.Args.Elided = r.Chance(1, 8)
	if r.Chance(1, 8) {
		c.Args.Processed = []string{"pre", "existing"}[:1+r.Intn(2)]
	}
	return c, callInfo{File: f, Class: f.lineClass(line), Args: len(c.Args.Values) != 0}
}

// ---------------------------------------------------------------------------
// oracle tables for the model

type glueFuncRow struct {
	Name     HB   `json:"name"`
	Line     int  `json:"line"`
	Found    bool `json:"found"`
	Types    []HB `json:"types"`
	Ellipsis bool `json:"ellipsis"`
}

type glueFileRow struct {
	Name    HB            `json:"name"`
	Content *HB           `json:"content"`
	Parse   bool          `json:"parse"`
	Funcs   []glueFuncRow `json:"funcs"`
}

type glueOp struct {
	Op    string          `json:"op"`
	Gs    []MG            `json:"gs"`
	Files []glueFileRow   `json:"files"`
	F32   [][]interface{} `json:"f32"`
	F64   [][]interface{} `json:"f64"`
}

// mkGlueOp computes the oracle tables from the disk and the real hooks.
func mkGlueOp(res *Result, gs []*stack.Goroutine) *glueOp {
	op := &glueOp{Op: "augmentglue", Gs: mGs(gs), Files: []glueFileRow{}, F32: [][]interface{}{}, F64: [][]interface{}{}}
	idx := map[string]int{}
	seenQ := map[string]bool{}
	s32, s64 := map[uint32]bool{}, map[uint64]bool{}
	for _, g := range gs {
		for i := range g.Stack.Calls {
			c := &g.Stack.Calls[i]
			if len(c.Args.Values) == 0 {
				continue
			}
			var flat []*stack.Arg
			flatScalars(c.Args.Values, &flat)
			for _, a := range flat {
				if b := uint32(a.Value); !s32[b] {
					s32[b] = true
					op.F32 = append(op.F32, []interface{}{b, hb(strconv.FormatFloat(float64(math.Float32frombits(b)), 'g', -1, 32))})
				}
				if b := a.Value; !s64[b] {
					s64[b] = true
					op.F64 = append(op.F64, []interface{}{b, hb(strconv.FormatFloat(math.Float64frombits(b), 'g', -1, 64))})
				}
			}
			k, ok := idx[c.LocalSrcPath]
			if !ok {
				row := glueFileRow{Name: hb(c.LocalSrcPath), Funcs: []glueFuncRow{}}
				if c.LocalSrcPath != "" {
					if src, err := os.ReadFile(c.LocalSrcPath); err == nil {
						h := hb(string(src))
						row.Content = &h
						_, perr := parser.ParseFile(token.NewFileSet(), c.LocalSrcPath, src, 0)
						row.Parse = perr == nil
					}
				}
				k = len(op.Files)
				idx[c.LocalSrcPath] = k
				op.Files = append(op.Files, row)
			}
			row := &op.Files[k]
			if row.Content == nil || !row.Parse {
				continue
			}
			q := fmt.Sprintf("%d\x00%s\x00%d", k, c.Func.Name, c.Line)
			if seenQ[q] {
				continue
			}
			seenQ[q] = true
			src := []byte(row.Content.String())
			types, ell, found := stack.VerifExtractTypes(src, c.Func.Name, c.Line)
			if found && len(types) == 0 && ell {
				res.Violation(Finding{Stream: "w", What: "extractArgumentsType returned no type but ellipsis=true (augmentCall would index types[-1])",
					Op: map[string]interface{}{"src": string(src), "line": c.Line}})
			}
			row.Funcs = append(row.Funcs, glueFuncRow{Name: hb(c.Func.Name), Line: c.Line, Found: found, Types: hbs(types), Ellipsis: ell})
		}
	}
	return op
}

var reLineOver = regexp.MustCompile(`^line (-?\d+) is over line count of (-?\d+)$`)

func glueErrKind(err error) string {
	if err == nil {
		return "none"
	}
	s := err.Error()
	switch {
	case strings.HasPrefix(s, "cannot load non-go file "):
		return "nongo"
	case strings.HasPrefix(s, "failed to parse "):
		return "parse"
	case reLineOver.MatchString(s):
		return "lineover"
	}
	if _, ok := err.(*os.PathError); ok {
		return "read"
	}
	return "unknown:" + s
}

func safeAugment(s *stack.Snapshot) (err error, panicked interface{}) {
	defer func() {
		if e := recover(); e != nil {
			panicked = e
		}
	}()
	return stack.VerifAugment(s), nil
}

func eraseStackProcessed(gs []MG) []MG {
	b, _ := json.Marshal(gs)
	var out []MG
	json.Unmarshal(b, &out)
	for i := range out {
		for j := range out[i].Sig.Stack.Calls {
			out[i].Sig.Stack.Calls[j].Args.Processed = []HB{}
		}
	}
	return out
}

func sameHBs(a, b []HB) bool {
	if len(a) != len(b) {
		return false
	}
	for i := range a {
		if a[i] != b[i] {
			return false
		}
	}
	return true
}

// ---------------------------------------------------------------------------
// (w) worlds

func runC19Bw(res *Result, pool *DrvPool, r *Rng, base string) {
	n := countN(res.Tier, 1500, 40000)
	for it := 0; it < n; it++ {
		dir := filepath.Join(base, fmt.Sprintf("w%d", it))
		files, err := genWorld(r, dir)
		if err != nil {
			res.Disagree(Finding{Stream: "w", What: "harness: " + err.Error()})
			os.RemoveAll(dir)
			continue
		}
		var gs []*stack.Goroutine
		var infos [][]callInfo
		ng := 1 + r.Intn(4)
		for gi := 0; gi < ng; gi++ {
			g := &stack.Goroutine{ID: gi + 1, First: gi == 0, Signature: stack.Signature{State: "running"}}
			nc := r.Intn(6)
			var inf []callInfo
			for k := 0; k < nc; k++ {
				c, ci := genGlueCall(r, files)
				g.Stack.Calls = append(g.Stack.Calls, c)
				inf = append(inf, ci)
			}
			g.Stack.Elided = r.Chance(1, 10)
			if r.Chance(1, 2) {
				// created-by frames are never augmented
				c, _ := genGlueCall(r, files)
				g.CreatedBy.Calls = append(g.CreatedBy.Calls, c)
			}
			gs = append(gs, g)
			infos = append(infos, inf)
		}
		before := mGs(gs)
		op := mkGlueOp(res, gs)
		// every call augmented on its own (a snapshot of one goroutine with that one frame): the typed
		// rendering of a frame is a function of the frame and its source file, not of the other files
		// the same augmentation loaded before it
		alone := make([][][]HB, len(before))
		for gi := range before {
			alone[gi] = make([][]HB, len(before[gi].Sig.Stack.Calls))
			for ci := range before[gi].Sig.Stack.Calls {
				mc := before[gi].Sig.Stack.Calls[ci]
				one := &stack.Snapshot{Goroutines: []*stack.Goroutine{{Signature: stack.Signature{Stack: stack.Stack{Calls: []stack.Call{sCall(&mc)}}}, ID: 1}}}
				if _, p1 := safeAugment(one); p1 == nil {
					alone[gi][ci] = mGs(one.Goroutines)[0].Sig.Stack.Calls[0].Args.Processed
				}
			}
		}
		snap := &stack.Snapshot{Goroutines: gs}
		aerr, pan := safeAugment(snap)
		after := mGs(snap.Goroutines)
		os.RemoveAll(dir)

		opDesc := map[string]interface{}{"op": op, "files": describeFiles(files)}
		augmented, bad := 0, 0
		if pan != nil {
			res.Violation(Finding{Stream: "w", What: fmt.Sprintf("Snapshot.augment panicked: %v", pan), Op: opDesc})
			res.Eval("w:"+jsonStr(op), false)
			continue
		}
		if a, b := jsonStr(eraseStackProcessed(after)), jsonStr(eraseStackProcessed(before)); a != b {
			res.Violation(Finding{Stream: "w", What: "augment changed something other than Processed of stack calls: " + firstDiff(eraseStackProcessed(after), eraseStackProcessed(before)), Op: opDesc})
		}
		lineCounts := map[int]bool{}
		for _, f := range files {
			if f.OnDisk {
				lineCounts[f.NL+1] = true
			}
		}
		for gi := range before {
			for ci := range before[gi].Sig.Stack.Calls {
				inf := infos[gi][ci]
				pb, pa := before[gi].Sig.Stack.Calls[ci].Args.Processed, after[gi].Sig.Stack.Calls[ci].Args.Processed
				same := sameHBs(pb, pa)
				res.Count("w:file:" + inf.File.Kind)
				why := ""
				switch {
				case !inf.Args:
					why = "call without arguments"
					res.Count("w:call:noargs")
				case !inf.File.Usable:
					why = "call into a " + inf.File.Kind + " file"
					res.Count("w:call:badfile")
				case inf.Class == "over":
					why = "line beyond the end of the file"
					res.Count("w:call:line_over")
				case inf.Class == "outside":
					why = "line outside any function"
					res.Count("w:call:line_outside")
				case inf.Class == "body":
					res.Count("w:call:body")
				default:
					res.Count("w:call:other_line")
				}
				if why != "" {
					bad++
					if !same {
						res.Violation(Finding{Stream: "w", What: fmt.Sprintf("%s but Processed changed (goroutine %d call %d)", why, gi, ci), Op: opDesc, Expected: pb, Got: pa})
					}
				} else {
					if len(pa) < len(pb) || !sameHBs(pb, pa[:len(pb)]) {
						res.Violation(Finding{Stream: "w", What: fmt.Sprintf("previous Processed entries were not kept (goroutine %d call %d)", gi, ci), Op: opDesc, Expected: pb, Got: pa})
					}
					if alone[gi][ci] != nil && !sameHBs(alone[gi][ci], pa) {
						res.Violation(Finding{Stream: "w", What: fmt.Sprintf("the typed rendering of a frame depends on the other frames of the snapshot: goroutine %d call %d (%s:%d) is rendered %v when the whole snapshot is augmented and %v when a snapshot of that one frame is", gi, ci, filepath.Base(inf.File.Path), before[gi].Sig.Stack.Calls[ci].Line, hbStrings(pa), hbStrings(alone[gi][ci])), Op: opDesc, Expected: alone[gi][ci], Got: pa})
					}
					if !same {
						augmented++
						res.Count("w:call:augmented")
					} else if inf.Class == "body" {
						res.Count("w:call:body_not_augmented")
					}
				}
			}
		}
		kind := glueErrKind(aerr)
		res.Count("w:err:" + kind)
		if strings.HasPrefix(kind, "unknown:") {
			res.Violation(Finding{Stream: "w", What: "augment returned an error of an unexpected shape: " + aerr.Error(), Op: opDesc})
		}
		if kind == "lineover" {
			m := reLineOver.FindStringSubmatch(aerr.Error())
			cnt, _ := strconv.Atoi(m[2])
			if !lineCounts[cnt] {
				res.Violation(Finding{Stream: "w", What: "line-over error quotes a line count that no file of the tree has: " + aerr.Error(), Op: opDesc})
			}
		}
		res.Eval("w:"+jsonStr(op), augmented > 0 && bad > 0)
		if it < 2 {
			res.Sample(map[string]interface{}{"stream": "w", "files": describeFiles(files), "before": before, "after": after, "err": kind})
		}
		want := jsonStr(after)
		pool.Send(op, func(raw json.RawMessage) {
			res.Trace()
			var rep struct {
				Gs    []MG   `json:"gs"`
				Err   string `json:"err"`
				Panic string `json:"panic"`
				Error string `json:"error"`
			}
			if err := json.Unmarshal(raw, &rep); err != nil || rep.Error != "" || rep.Panic != "" {
				res.Disagree(Finding{Stream: "w", What: "model did not answer with goroutines: " + clip(string(raw)), Op: opDesc})
				return
			}
			if got := jsonStr(rep.Gs); got != want {
				res.Disagree(Finding{Stream: "w", What: "augment: goroutines differ between model and implementation: " + firstDiff(rep.Gs, after), Op: opDesc, Expected: rep.Gs, Got: after})
			}
			if rep.Err != kind {
				res.Disagree(Finding{Stream: "w", What: fmt.Sprintf("augment: last error kind: model %q, implementation %q", rep.Err, kind), Op: opDesc})
			}
		})
	}
}

func describeFiles(files []*srcFile) []map[string]interface{} {
	var out []map[string]interface{}
	for _, f := range files {
		out = append(out, map[string]interface{}{"kind": f.Kind, "path": f.Path, "content": string(f.Content), "funcs": f.Funcs})
	}
	return out
}

// ---------------------------------------------------------------------------
// (l) line tables

func genLineSource(r *Rng) []byte {
	var b strings.Builder
	b.WriteString("package p")
	n := r.Intn(12)
	for i := 0; i < n; i++ {
		switch r.Intn(8) {
		case 0:
			b.WriteString("\r\n")
		case 1:
			b.WriteString("\r")
		case 2:
			b.WriteString("\n// c")
		case 3:
			b.WriteString("\n/* a\nb\r\nc */")
		case 4:
			b.WriteString("\n\n\n")
		case 5:
			b.WriteString("\nvar _ = `raw\nstring`")
		default:
			b.WriteString("\n")
		}
	}
	return []byte(b.String())
}

// expectedOffsets is written from the comment of lineToByteOffsets: a dummy 0
// so that lines are 1-based, line 1 starts at 0, every '\n' starts a line.
func expectedOffsets(src []byte) []int {
	out := []int{0, 0}
	for i, c := range src {
		if c == '\n' {
			out = append(out, i+1)
		}
	}
	return out
}

func runC19Bl(res *Result, pool *DrvPool, r *Rng, base string) {
	n := countN(res.Tier, 600, 15000)
	path := filepath.Join(base, "lines.go")
	defer os.Remove(path)
	probe := func(line int) (string, int, interface{}) {
		g := &stack.Goroutine{ID: 1, Signature: stack.Signature{Stack: stack.Stack{Calls: []stack.Call{{
			Func: stack.Func{Name: "F"}, LocalSrcPath: path, Line: line, Args: stack.Args{Values: []stack.Arg{{Value: 1}}}}}}}}
		err, pan := safeAugment(&stack.Snapshot{Goroutines: []*stack.Goroutine{g}})
		k := glueErrKind(err)
		cnt := -1
		if k == "lineover" {
			cnt, _ = strconv.Atoi(reLineOver.FindStringSubmatch(err.Error())[2])
		}
		return k, cnt, pan
	}
	for it := 0; it < n; it++ {
		src := genLineSource(r)
		if err := os.WriteFile(path, src, 0o644); err != nil {
			res.Disagree(Finding{Stream: "l", What: "harness: " + err.Error()})
			return
		}
		opDesc := map[string]interface{}{"src": string(src)}
		nl := countNL(src)
		k, cnt, pan := probe(1 << 30)
		res.Eval("l:"+string(src), nl > 0)
		if pan != nil || k != "lineover" {
			res.Violation(Finding{Stream: "l", What: fmt.Sprintf("huge line: want a line-over error, got %q (panic %v)", k, pan), Op: opDesc})
			continue
		}
		if cnt != nl+1 {
			res.Violation(Finding{Stream: "l", What: fmt.Sprintf("line count %d, want 1 + %d newlines", cnt, nl), Op: opDesc})
		}
		if k2, _, pan2 := probe(cnt); pan2 != nil || k2 != "none" {
			res.Violation(Finding{Stream: "l", What: fmt.Sprintf("line == line count: want no error, got %q (panic %v)", k2, pan2), Op: opDesc})
		}
		if k3, c3, pan3 := probe(cnt + 1); pan3 != nil || k3 != "lineover" || c3 != cnt {
			res.Violation(Finding{Stream: "l", What: fmt.Sprintf("line == line count + 1: want line-over, got %q (panic %v)", k3, pan3), Op: opDesc})
		}
		if len(src) > 0 && src[len(src)-1] != '\n' {
			res.Count("l:no_final_newline")
		}
		if strings.Contains(string(src), "\r") {
			res.Count("l:cr")
		}
		res.Count(fmt.Sprintf("l:newlines:%d", min(nl, 8)))
		want := expectedOffsets(src)
		lop := map[string]interface{}{"op": "linetobyteoffsets", "src": hb(string(src))}
		pool.Send(lop, func(raw json.RawMessage) {
			res.Trace()
			var rep struct {
				Offsets []int `json:"offsets"`
			}
			if err := json.Unmarshal(raw, &rep); err != nil || jsonStr(rep.Offsets) != jsonStr(want) {
				res.Disagree(Finding{Stream: "l", What: "lineToByteOffsets: model differs from [0 0] + offsets after each newline", Op: lop, Expected: want, Got: clip(string(raw))})
				return
			}
			if len(rep.Offsets)-1 != cnt {
				res.Disagree(Finding{Stream: "l", What: fmt.Sprintf("line count: model %d, implementation %d", len(rep.Offsets)-1, cnt), Op: lop})
			}
		})
	}
}

func runC19B(prop string, res *Result, pool *DrvPool, r *Rng) {
	res.Rule = "(w) temporary source trees (valid Go with 1-4 functions in LF / CRLF / no-final-newline / trailing-comment form, twin files, unparsable, empty, non-.go names with valid content, a directory named *.go, missing names, the empty name) and constructed snapshots of 1-4 goroutines x 0-5 calls pointing into them (lines 0, 1, declaration, body, closing brace, after the last function, at / just beyond / far beyond the end; 1/4 of the calls without arguments; 1/8 already carrying Processed; created-by frames) through stack.VerifAugment vs model op augmentglue fed with oracle tables computed by the harness (os.ReadFile, go/parser, VerifExtractTypes); non-trivial = at least one call augmented and at least one call that must stay unaugmented. " +
		"(l) `package p` followed by a random mix of LF/CRLF/CR/comments/raw strings, line count read from the line-over error, boundary probed at count and count+1; non-trivial = at least one newline."
	base, err := os.MkdirTemp("", "verif-c19b-")
	if err != nil {
		res.Disagree(Finding{Stream: "w", What: "harness: " + err.Error()})
		return
	}
	defer os.RemoveAll(base)
	runC19Bw(res, pool, r.Fork(), base)
	runC19Bl(res, pool, r.Fork(), base)
}
