package main

import (
	"bytes"
	"crypto/sha256"
	"encoding/hex"
	"fmt"
	"html/template"
	"io"
	"os"
	"os/exec"
	"path/filepath"
	"strings"

	"github.com/maruel/panicparse/v2/stack"
	"github.com/maruel/panicparse/v2/verifhooks"
)

func init() { props["C06"] = runC06 }

// renderEverything: all observable outputs for one input, time masked.
func renderEverything(txt string, opts *stack.Opts) string {
	var b bytes.Buffer
	s, suffix, err := stack.ScanSnapshot(strings.NewReader(txt), &b, opts)
	fmt.Fprintf(&b, "|suffix=%q err=%v\n", suffix, err)
	if s == nil {
		return b.String()
	}
	fmt.Fprintf(&b, "goroot=%q gopaths=%v gomods=%v\n", s.RemoteGOROOT, sortedMap(s.RemoteGOPATHs), sortedMap(s.LocalGomods))
	for _, g := range s.Goroutines {
		fmt.Fprintf(&b, "%+v\n", *g)
	}
	full, rel, base := verifhooks.PathFormats()
	for _, lvl := range levels {
		a := s.Aggregate(lvl)
		for _, bk := range a.Buckets {
			fmt.Fprintf(&b, "%+v\n", *bk)
		}
		var h bytes.Buffer
		a.ToHTML(&h, template.HTML(""))
		b.WriteString(reCreatedOn.ReplaceAllString(h.String(), ""))
		for _, pf := range []int{full, rel, base} {
			verifhooks.WriteBuckets(&b, verifhooks.NewPalette(true), a, pf, false, nil, nil)
		}
	}
	var h bytes.Buffer
	s.ToHTML(&h, template.HTML(""))
	b.WriteString(reCreatedOn.ReplaceAllString(h.String(), ""))
	verifhooks.WriteGoroutines(&b, verifhooks.NewPalette(false), s, base, false, nil, nil)
	return b.String()
}

func sortedMap(m map[string]string) string {
	var ks []string
	for k, v := range m {
		ks = append(ks, k+"="+v)
	}
	sortStrings(ks)
	return strings.Join(ks, ",")
}

func sortStrings(s []string) {
	for i := 1; i < len(s); i++ {
		for j := i; j > 0 && s[j] < s[j-1]; j-- {
			s[j], s[j-1] = s[j-1], s[j]
		}
	}
}

// tieDump: many singleton buckets that tie under the comparator, pointers that
// recur, and a '?' argument next to differing values.
func tieDump(r *Rng) string {
	var sb strings.Builder
	n := 4 + r.Intn(8)
	dup := r.Chance(1, 3) // ids that repeat (two dumps pasted together) or decrease
	for i := 1; i <= n; i++ {
		arg := fmt.Sprintf("0x%x", 1+r.Intn(3))
		if r.Chance(1, 4) {
			arg += "?"
		}
		id := i * 3
		if dup {
			id = 1 + r.Intn(3)
		}
		fmt.Fprintf(&sb, "goroutine %d [select]:\nmain.worker(%s, 0xc0000%d0000)\n\t/home/u/app/main.go:%d +0x1\n\n", id, arg, r.Intn(4), 20+r.Intn(2))
	}
	return sb.String()
}

// sourceTree writes a Go file and returns a dump of many goroutines blocked in
// it, for the augmentation path (GuessPaths + AnalyzeSources).
func sourceTree(dir string, n int) (string, *stack.Opts) {
	src := "package main\n\nfunc worker(id int, name string) {\n\tselect {}\n}\n\nfunc main() {\n\tworker(1, \"a\")\n}\n"
	os.MkdirAll(filepath.Join(dir, "src", "app"), 0o755)
	p := filepath.Join(dir, "src", "app", "main.go")
	os.WriteFile(p, []byte(src), 0o644)
	var sb strings.Builder
	for i := 1; i <= n; i++ {
		fmt.Fprintf(&sb, "goroutine %d [select (no cases)]:\nmain.worker(0x%x, {0xc0000%d0000, 0x%x})\n\t%s:4 +0x1\nmain.main()\n\t%s:8 +0x2\n\n", i, i%5, i%3, 1+i%2, p, p)
	}
	return sb.String(), &stack.Opts{LocalGOPATHs: []string{dir}, NameArguments: true, GuessPaths: true, AnalyzeSources: true}
}

func detInputs(seed uint64) []string {
	r := NewRng(seed)
	var in []string
	for i := 0; i < 12; i++ {
		in = append(in, tieDump(r))
	}
	for i := 0; i < 6; i++ {
		in = append(in, GenCfg(r).Dump(genPtrDump(r)))
	}
	for i := 0; i < 3; i++ {
		rs := GenRace(r)
		in = append(in, rs.Print(false))
	}
	return in
}

// detDigest is what `harness -det <seed>` prints: a digest over every
// observable output for a fixed set of inputs. Run in several processes, it
// must be identical.
func detDigest(seed uint64) string {
	h := sha256.New()
	for _, in := range detInputs(seed) {
		io.WriteString(h, renderEverything(in, &stack.Opts{NameArguments: true}))
	}
	dir, err := os.MkdirTemp("", "verif-c06-")
	if err == nil {
		defer os.RemoveAll(dir)
		txt, opts := sourceTree(dir, 80)
		out := renderEverything(txt, opts)
		io.WriteString(h, strings.ReplaceAll(out, dir, "$DIR"))
	}
	return hex.EncodeToString(h.Sum(nil))
}

// Order independence across processes.  A cache that is filled by the first call that needs an entry
// gives the same (possibly wrong) answer for the rest of the process, so repeating calls in one
// process cannot see it; separate processes that handle the same inputs, with the same files on disk,
// in DIFFERENT orders can: every input must give the same result in each of them.
// The inputs: the seeded dumps of detInputs, and two checkouts of one module under dir (wt1, wt2: the
// same go.mod, the same relative paths and lines) with one dump each.
func detOrderInputs(dir string, seed uint64) (ins []string, opts *stack.Opts) {
	for _, wt := range []string{"wt1", "wt2", "wt3"} {
		ins = append(ins, fmt.Sprintf("goroutine 1 [running]:\nexample.com/lib/lib.Do(0x1)\n\t%s/%s/lib/lib.go:4 +0x1\nmain.main()\n\t%s/%s/main.go:4 +0x2\n\n", dir, wt, dir, wt))
	}
	ins = append(ins, detInputs(seed)...)
	return ins, &stack.Opts{NameArguments: true, GuessPaths: true, AnalyzeSources: true, LocalGOROOT: "/nonexistent-goroot", LocalGOPATHs: []string{"/nonexistent-gopath"}}
}

func detOrderPrepare(dir string) {
	for _, wt := range []string{"wt1", "wt2", "wt3"} {
		os.MkdirAll(filepath.Join(dir, wt, "lib"), 0o755)
		os.WriteFile(filepath.Join(dir, wt, "go.mod"), []byte("module example.com/lib\n\ngo 1.20\n"), 0o644)
		os.WriteFile(filepath.Join(dir, wt, "lib", "lib.go"), []byte("package lib\n\nfunc Do(n int) {\n\tpanic(n)\n}\n"), 0o644)
		os.WriteFile(filepath.Join(dir, wt, "main.go"), []byte("package main\n\nfunc main() {\n\tlib.Do(1)\n}\n"), 0o644)
	}
}

func detOrderPerm(n, order int) []int {
	idx := make([]int, n)
	for i := range idx {
		idx[i] = i
	}
	switch order % 4 {
	case 1:
		for i, j := 0, n-1; i < j; i, j = i+1, j-1 {
			idx[i], idx[j] = idx[j], idx[i]
		}
	case 2:
		idx = append(idx[n/2:], idx[:n/2]...)
	case 3:
		r := NewRng(uint64(order) + 77)
		p := r.Perm(n)
		copy(idx, p)
	}
	return idx
}

// detOrderRun: the child process
func detOrderRun(dir string, order int, seed uint64) {
	ins, opts := detOrderInputs(dir, seed)
	for _, i := range detOrderPerm(len(ins), order) {
		out := renderEverything(ins[i], opts)
		sum := sha256.Sum256([]byte(out))
		fmt.Printf("%d %s\n", i, hex.EncodeToString(sum[:8]))
	}
}

func runOrderIndependence(res *Result) {
	self, err := os.Executable()
	if err != nil {
		return
	}
	dir, err := os.MkdirTemp("", "verif-c06-order-")
	if err != nil {
		return
	}
	defer os.RemoveAll(dir)
	detOrderPrepare(dir)
	ins, _ := detOrderInputs(dir, res.Seed+1)
	byInput := map[string]map[string][]int{} // input index -> digest -> orders
	orders := countN(res.Tier, 4, 12)
	for o := 0; o < orders; o++ {
		out, err := exec.Command(self, "-detorder", fmt.Sprint(o), "-detdir", dir, "-det", fmt.Sprint(res.Seed+1)).Output()
		if err != nil {
			res.Extra["order-independence"] = "cannot re-exec: " + err.Error()
			return
		}
		res.Count("order-processes")
		for _, l := range strings.Split(strings.TrimSpace(string(out)), "\n") {
			f := strings.Fields(l)
			if len(f) != 2 {
				continue
			}
			if byInput[f[0]] == nil {
				byInput[f[0]] = map[string][]int{}
			}
			byInput[f[0]][f[1]] = append(byInput[f[0]][f[1]], o)
		}
	}
	for i := range ins {
		k := fmt.Sprint(i)
		res.Eval("order|"+k, true)
		if len(byInput[k]) > 1 {
			res.Violation(Finding{Stream: "order-independence", What: fmt.Sprintf("input %d (snapshot, buckets, console text and HTML) came out differently in separate processes that handled the same %d inputs, with the same files on disk, in different orders: digest -> orders %v; the input: %s", i, len(ins), byInput[k], clip(strings.ReplaceAll(ins[i], dir, "$DIR"))), Op: map[string]interface{}{"input_index": i, "orders": byInput[k], "layout": "$DIR/wt1, $DIR/wt2, $DIR/wt3: three checkouts of module example.com/lib (go.mod, main.go, lib/lib.go)", "input": strings.ReplaceAll(ins[i], dir, "$DIR")}})
			return
		}
	}
}

func runC06(prop string, res *Result, pool *DrvPool, r *Rng) {
	res.Rule = "inputs biased to buckets that tie under the ordering, recurring pointers, '?' arguments next to differing values, race reports, and an on-disk source tree with 80 goroutines for the path-guessing/augmentation path; each input is processed repeatedly in one process (snapshot, buckets at 4 levels, console text in 3 path formats, HTML with the time masked) and the whole set in several separate processes (digest comparison); plus the aggregation determinism stream shared with C04; non-trivial = the input yields >= 2 buckets; distinct by hash of the input"
	n := countN(res.Tier, 60, 1500)
	reps := countN(res.Tier, 6, 30)
	for i := 0; i < n; i++ {
		var in string
		switch i % 3 {
		case 0:
			in = tieDump(r)
		case 1:
			in = GenCfg(r).Dump(genPtrDump(r))
		default:
			rs := GenRace(r)
			in = rs.Print(false)
		}
		opts := &stack.Opts{NameArguments: true}
		ref := renderEverything(in, opts)
		res.Eval(in, strings.Count(in, "goroutine ") >= 2)
		for k := 0; k < reps; k++ {
			if got := renderEverything(in, opts); got != ref {
				res.Violation(Finding{Stream: "repeat", What: "the same input processed twice in one process gave different output: " + diffAround(ref, got), Op: &ScanOp{Op: "scan", Data: hb(in), Sched: []int{}, Final: "eof", Names: true}})
				break
			}
		}
		if i < 2 {
			res.Sample(map[string]interface{}{"input": clip(in)})
		}
	}
	// augmentation path on disk
	dir, err := os.MkdirTemp("", "verif-c06-")
	if err == nil {
		txt, opts := sourceTree(dir, 80)
		ref := renderEverything(txt, opts)
		if !strings.Contains(ref, "worker(") {
			res.Extra["augment"] = "source tree not picked up"
		}
		for k := 0; k < countN(res.Tier, 12, 60); k++ {
			if got := renderEverything(txt, opts); got != ref {
				res.Violation(Finding{Stream: "repeat-augment", What: "the same 80-goroutine dump with sources on disk, processed twice, gave different output: " + diffAround(ref, got), Op: map[string]interface{}{"goroutines": 80}})
				break
			}
			res.Count("augment-repeats")
		}
		os.RemoveAll(dir)
	}
	// a frame that can be rooted in two ways under the same local root (a `src` directory inside a
	// package directory): whichever candidate the code prefers, it must prefer it every time
	if dir, err := os.MkdirTemp("", "verif-c06-roots-"); err == nil {
		os.MkdirAll(filepath.Join(dir, "src", "foo", "src", "foo"), 0o755)
		os.WriteFile(filepath.Join(dir, "src", "foo", "src", "foo", "bar.go"), []byte("package foo\n"), 0o644)
		os.WriteFile(filepath.Join(dir, "src", "foo", "bar.go"), []byte("package foo\n"), 0o644)
		os.MkdirAll(filepath.Join(dir, "pkg", "mod", "m@v1.0.0", "pkg", "mod", "m@v1.0.0"), 0o755)
		os.WriteFile(filepath.Join(dir, "pkg", "mod", "m@v1.0.0", "pkg", "mod", "m@v1.0.0", "x.go"), []byte("package m\n"), 0o644)
		os.WriteFile(filepath.Join(dir, "pkg", "mod", "m@v1.0.0", "x.go"), []byte("package m\n"), 0o644)
		txt := "goroutine 1 [running]:\nfoo.Bar(0x1)\n\t/work/src/foo/src/foo/bar.go:3 +0x1\nm.X()\n\t/other/pkg/mod/m@v1.0.0/pkg/mod/m@v1.0.0/x.go:1 +0x1\nmain.main()\n\t/work/src/app/main.go:5 +0x2\n\n"
		opts := &stack.Opts{LocalGOPATHs: []string{dir}, GuessPaths: true}
		scan := func() string {
			s, _, _ := stack.ScanSnapshot(strings.NewReader(txt), io.Discard, opts)
			if s == nil {
				return "nil"
			}
			return strings.ReplaceAll(fmt.Sprintf("%v %v %+v", s.RemoteGOPATHs, s.RemoteGOROOT, derefG(s.Goroutines)), dir, "$DIR")
		}
		ref := scan()
		for k := 0; k < countN(res.Tier, 400, 4000); k++ {
			if got := scan(); got != ref {
				res.Violation(Finding{Stream: "repeat-roots", What: "the same dump, with a frame that can be rooted in two ways under one local root, scanned twice with path guessing on gave different results: " + diffAround(ref, got), Op: map[string]interface{}{"input": hb(txt), "layout": "$DIR/src/foo/src/foo/bar.go, $DIR/src/foo/bar.go, $DIR/pkg/mod/m@v1.0.0/pkg/mod/m@v1.0.0/x.go, $DIR/pkg/mod/m@v1.0.0/x.go"}})
				break
			}
			res.Count("root-repeats")
		}
		os.RemoveAll(dir)
	}
	// two local GOPATHs that both hold a file of the dump, and a file only the second one holds: the
	// same bytes with the same Opts value give the same result call after call, and the Opts value
	// (shared between calls) stays what the caller made it
	if dir, err := os.MkdirTemp("", "verif-c06-gopaths-"); err == nil {
		gp1, gp2 := filepath.Join(dir, "gp1"), filepath.Join(dir, "gp2")
		for _, f := range []string{gp1 + "/src/q/b.go", gp2 + "/src/q/b.go", gp2 + "/src/r/only2.go", gp1 + "/src/s/only1.go"} {
			os.MkdirAll(filepath.Dir(f), 0o755)
			os.WriteFile(f, []byte("package x\n"), 0o644)
		}
		txt := "goroutine 1 [running]:\nq.B(0x1)\n\t/home/u1/go/src/q/b.go:3 +0x1\nr.Only2()\n\t/home/u2/go/src/r/only2.go:1 +0x1\nmain.main()\n\t/home/u1/go/src/app/main.go:5 +0x2\n\n"
		opts := &stack.Opts{LocalGOPATHs: []string{gp1, gp2}, GuessPaths: true}
		optsBefore := fmt.Sprintf("%+v", *opts)
		scan := func() string {
			s, _, _ := stack.ScanSnapshot(strings.NewReader(txt), io.Discard, opts)
			if s == nil {
				return "nil"
			}
			return strings.ReplaceAll(fmt.Sprintf("%v %v %+v", s.RemoteGOPATHs, s.RemoteGOROOT, derefG(s.Goroutines)), dir, "$DIR")
		}
		ref := scan()
		for k := 0; k < countN(res.Tier, 20, 200); k++ {
			got := scan()
			res.Count("gopaths-repeats")
			if got != ref {
				res.Violation(Finding{Stream: "repeat-gopaths", What: fmt.Sprintf("call %d with the same bytes, the same Opts value and the same files gave a different result than the first call: %s", k+2, diffAround(ref, got)), Op: map[string]interface{}{"input": hb(txt), "layout": "$DIR/gp1/src/q/b.go, $DIR/gp2/src/q/b.go, $DIR/gp2/src/r/only2.go, $DIR/gp1/src/s/only1.go; LocalGOPATHs=[gp1 gp2]"}})
				break
			}
			if after := fmt.Sprintf("%+v", *opts); after != optsBefore {
				res.Violation(Finding{Stream: "repeat-gopaths", What: "ScanSnapshot changed the Opts value it shares with later calls: " + strings.ReplaceAll(optsBefore, dir, "$DIR") + " became " + strings.ReplaceAll(after, dir, "$DIR"), Op: map[string]interface{}{"input": hb(txt)}})
				break
			}
		}
		os.RemoveAll(dir)
	}
	runHistory(res, r.Fork())
	// across processes
	self, _ := os.Executable()
	var digests []string
	for k := 0; k < countN(res.Tier, 3, 8); k++ {
		out, err := exec.Command(self, "-det", fmt.Sprint(res.Seed+1)).Output()
		if err != nil {
			res.Extra["cross-process"] = "cannot re-exec: " + err.Error()
			break
		}
		digests = append(digests, strings.TrimSpace(string(out)))
		res.Count("processes")
	}
	for _, d := range digests {
		if d != digests[0] {
			res.Violation(Finding{Stream: "cross-process", What: fmt.Sprintf("separate processes produced different outputs for the same inputs: digests %v", digests), Op: map[string]interface{}{"det_seed": res.Seed + 1}})
			break
		}
	}
	runOrderIndependence(res)
	aggCasesDiv = 4
	runAgg("C06", res, pool, r.Fork())
}

func diffAround(a, b string) string {
	i := 0
	for i < len(a) && i < len(b) && a[i] == b[i] {
		i++
	}
	lo := i - 60
	if lo < 0 {
		lo = 0
	}
	hi := func(s string) int {
		if i+60 < len(s) {
			return i + 60
		}
		return len(s)
	}
	return fmt.Sprintf("at byte %d: %q vs %q", i, a[lo:hi(a)], b[lo:hi(b)])
}

// runHistory: the result of a call must not depend on the calls made before
// it. A set of calls (dumps followed by more text, readers that deliver their
// last bytes together with the error, readers that fail, cuts) is evaluated in
// one order, then again in shuffled orders; every call must give what it gave
// the first time.
func runHistory(res *Result, r *Rng) {
	for round := 0; round < countN(res.Tier, 12, 200); round++ {
		var ops []*ScanOp
		for k := 4 + r.Intn(6); k > 0; k-- {
			var in string
			switch r.Intn(4) {
			case 0:
				in = tieDump(r) + "trailing line 1\ntrailing line 2\n"
			case 1:
				in = "log line\n" + GenCfg(r).Dump(genPtrDump(r)) + "after\n"
			case 2:
				rs := GenRace(r)
				in = rs.Print(false) + "after the report\n"
			default:
				in = "only text\nno dump here\n"
			}
			if r.Chance(1, 4) && len(in) > 2 {
				in = in[:1+r.Intn(len(in)-1)]
			}
			op := &ScanOp{Op: "scan", Data: hb(in), Sched: genSched(r, len(in)), Final: []string{"eof", "eof", "reader:1", "reader:2"}[r.Intn(4)], WithData: r.Bool(), Names: r.Bool()}
			ops = append(ops, op)
		}
		ref := make([]ScanRes, len(ops))
		for i, op := range ops {
			ref[i] = implScan(op)
		}
		for pass := 0; pass < 3; pass++ {
			perm := r.Perm(len(ops))
			for _, i := range perm {
				got := implScan(ops[i])
				res.Count("history-calls")
				if d := sameScan(&ref[i], &got); d != "" {
					res.Violation(Finding{Stream: "history", What: "the same bytes, read schedule and options gave a different result after a different sequence of earlier ScanSnapshot calls in the same process: " + d, Op: map[string]interface{}{"calls": ops, "order": perm, "differs_at": i}})
					return
				}
			}
		}
	}
}

func derefG(gs []*stack.Goroutine) []stack.Goroutine {
	out := make([]stack.Goroutine, len(gs))
	for i, g := range gs {
		out[i] = *g
	}
	return out
}
