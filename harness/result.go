package main

import (
	"crypto/sha256"
	"encoding/hex"
	"encoding/json"
	"fmt"
	"os"
	"path/filepath"
	"sort"
	"sync"
)

// Finding is a disagreement (model vs implementation) or a violation (the
// property's direct oracle fails on the implementation).
type Finding struct {
	Property string      `json:"property"`
	Kind     string      `json:"kind"` // "input" (violation) | "correspondence"
	Stream   string      `json:"stream"`
	What     string      `json:"what"`
	Op       interface{} `json:"op,omitempty"`
	Expected interface{} `json:"expected,omitempty"`
	Got      interface{} `json:"got,omitempty"`
	Seed     uint64      `json:"seed"`
	Tier     string      `json:"tier"`
	Known    string      `json:"known,omitempty"` // id of the known finding it matches
}

// Result is what one harness run reports to bin/check.
type Result struct {
	Property      string                 `json:"property"`
	Tier          string                 `json:"tier"`
	Seed          uint64                 `json:"seed"`
	Evaluations   int                    `json:"evaluations"`
	Distinct      int                    `json:"distinct_nontrivial"`
	Rule          string                 `json:"rule"`
	Samples       []interface{}          `json:"samples"`
	Traces        int                    `json:"traces_validated_against_impl"`
	Distribution  map[string]int         `json:"distribution"`
	Violations    []Finding              `json:"violations"`
	Disagreements []Finding              `json:"disagreements"`
	Known         []Finding              `json:"known_findings"`
	Extra         map[string]interface{} `json:"extra,omitempty"`
	Exhaustive    bool                   `json:"exhaustive,omitempty"`

	mu       sync.Mutex
	distinct map[[8]byte]struct{}
}

func NewResult(prop, tier string, seed uint64) *Result {
	return &Result{Property: prop, Tier: tier, Seed: seed, Distribution: map[string]int{}, distinct: map[[8]byte]struct{}{}, Extra: map[string]interface{}{}}
}

// Eval counts one evaluated case; nontrivial cases are hashed for the distinct
// count.
func (r *Result) Eval(key string, nontrivial bool) {
	r.mu.Lock()
	r.Evaluations++
	if nontrivial {
		h := sha256.Sum256([]byte(key))
		var k [8]byte
		copy(k[:], h[:8])
		r.distinct[k] = struct{}{}
	}
	r.mu.Unlock()
}

func (r *Result) Count(k string) { r.mu.Lock(); r.Distribution[k]++; r.mu.Unlock() }
func (r *Result) CountN(k string, n int) {
	r.mu.Lock()
	r.Distribution[k] += n
	r.mu.Unlock()
}
func (r *Result) Trace() { r.mu.Lock(); r.Traces++; r.mu.Unlock() }

func (r *Result) Sample(v interface{}) {
	r.mu.Lock()
	if len(r.Samples) < 4 {
		r.Samples = append(r.Samples, v)
	}
	r.mu.Unlock()
}

func (r *Result) Violation(f Finding) {
	f.Property, f.Kind, f.Seed, f.Tier = r.Property, "input", r.Seed, r.Tier
	r.mu.Lock()
	if len(r.Violations) < 20 {
		r.Violations = append(r.Violations, f)
	}
	r.Distribution["violations"]++
	r.mu.Unlock()
}

func (r *Result) KnownFinding(id string, f Finding) {
	f.Property, f.Kind, f.Seed, f.Tier, f.Known = r.Property, "input", r.Seed, r.Tier, id
	r.mu.Lock()
	r.Distribution["known:"+id]++
	for _, k := range r.Known {
		if k.Known == id {
			r.mu.Unlock()
			return
		}
	}
	r.Known = append(r.Known, f)
	r.mu.Unlock()
}

func (r *Result) Disagree(f Finding) {
	f.Property, f.Kind, f.Seed, f.Tier = r.Property, "correspondence", r.Seed, r.Tier
	r.mu.Lock()
	if len(r.Disagreements) < 20 {
		r.Disagreements = append(r.Disagreements, f)
	}
	r.Distribution["disagreements"]++
	r.mu.Unlock()
}

func (r *Result) Write(path string) error {
	r.mu.Lock()
	defer r.mu.Unlock()
	r.Distinct = len(r.distinct)
	if r.Violations == nil {
		r.Violations = []Finding{}
	}
	if r.Disagreements == nil {
		r.Disagreements = []Finding{}
	}
	if r.Known == nil {
		r.Known = []Finding{}
	}
	if r.Samples == nil {
		r.Samples = []interface{}{}
	}
	b, err := json.MarshalIndent(r, "", " ")
	if err != nil {
		return err
	}
	if err := os.MkdirAll(filepath.Dir(path), 0o755); err != nil {
		return err
	}
	return os.WriteFile(path, b, 0o644)
}

func distKeys(m map[string]int) string {
	var ks []string
	for k := range m {
		ks = append(ks, k)
	}
	sort.Strings(ks)
	s := ""
	for _, k := range ks {
		s += fmt.Sprintf("%s=%d ", k, m[k])
	}
	return s
}

func shortHash(s string) string {
	h := sha256.Sum256([]byte(s))
	return hex.EncodeToString(h[:6])
}
