package main

import (
	"regexp"
	"bytes"
	"encoding/json"
	"fmt"
	"mime/multipart"
	"net/http"
	"net/http/httptest"
	"os"
	"os/exec"
	"path/filepath"
	"runtime"
	"sort"
	"strconv"
	"strings"
	"sync"
	"sync/atomic"
	"time"

	"github.com/maruel/panicparse/v2/stack/webstack"

	"verifharness/c20lib"
)

func init() { props["C20"] = runC20 }

// webOp is the "web" request of the line protocol (S16).
type webOp struct {
	Op         string `json:"op"`
	Method     HB     `json:"method"`
	Maxmem     HB     `json:"maxmem"`
	Augment    HB     `json:"augment"`
	Similarity HB     `json:"similarity"`
	OK         bool   `json:"ok"`
}

type webRep struct {
	Status       int    `json:"status"`
	MaxmemOK     bool   `json:"maxmemOK"`
	AugmentOK    bool   `json:"augmentOK"`
	SimilarityOK bool   `json:"similarityOK"`
	Error        string `json:"error,omitempty"`
}

// c20Model sends one decision to the model and compares the status (and the
// model's parameter classes with the harness's independent reading of them).
func c20Model(pool *DrvPool, res *Result, stream string, q c20lib.Req, method string, status int, snapOK bool) {
	op := &webOp{Op: "web", Method: hb(method), Maxmem: hb(q.Maxmem), Augment: hb(q.Augment), Similarity: hb(q.Similarity), OK: snapOK}
	pool.Send(op, func(raw json.RawMessage) {
		res.Trace()
		var m webRep
		if err := json.Unmarshal(raw, &m); err != nil || m.Error != "" {
			res.Disagree(Finding{Stream: stream, What: "model error: " + clip(string(raw)), Op: op})
			return
		}
		if m.Status != status {
			res.Disagree(Finding{Stream: stream, What: fmt.Sprintf("handler status: model %d, implementation %d for %s", m.Status, status, q.Describe()), Op: op, Expected: m.Status, Got: status})
		}
		if m.MaxmemOK != c20lib.ValidMaxmem(q.Maxmem) || m.AugmentOK != c20lib.ValidAugment(q.Augment) || m.SimilarityOK != c20lib.ValidSimilarity(q.Similarity) {
			res.Disagree(Finding{Stream: stream, What: fmt.Sprintf("parameter classes: model (maxmem %v, augment %v, similarity %v) differs from the property's reading for %s", m.MaxmemOK, m.AugmentOK, m.SimilarityOK, q.Describe()), Op: op})
		}
	})
}

// c20Bounds: how many goroutines a page may account for.
type c20Bounds struct {
	min, max int
	names    []string
}

func boundsOf(w *c20lib.Workload, cfg c20lib.Config) c20Bounds {
	reg := w.Registry()
	// the registry + the goroutine serving the request; at most: everything the
	// workload may have alive + the harness's own goroutines (drivers, HTTP
	// server and clients)
	return c20Bounds{min: len(reg) + 1, max: len(reg) + cfg.ShortLive + cfg.Churners + 400, names: c20lib.FuncNames(reg)}
}

// ---- (a) decision table ------------------------------------------------------

// c20Serve runs the handler on one request and waits for the answer with a time bound: a
// handler that never answers (a leaked semaphore slot, a lock held for ever) is a violation,
// not a hung check.  After the first hang further requests are not sent.
var (
	c20res   *Result
	c20hung  bool
	c20count int
)

func c20Serve(req *http.Request, what interface{}) *httptest.ResponseRecorder {
	c20count++
	if c20hung {
		rec := httptest.NewRecorder()
		rec.WriteHeader(599)
		return rec
	}
	rec := httptest.NewRecorder()
	done := make(chan struct{})
	go func() {
		defer close(done)
		defer func() {
			if p := recover(); p != nil && c20res != nil {
				c20res.Violation(Finding{Stream: "web", What: fmt.Sprintf("the handler panicked: %v", p), Op: what})
			}
		}()
		webstack.SnapshotHandler(rec, req)
	}()
	select {
	case <-done:
		return rec
	case <-time.After(30 * time.Second):
		c20hung = true
		if c20res != nil {
			c20res.Violation(Finding{Stream: "web hang", What: fmt.Sprintf("the handler did not answer request number %d of this process (%s %s) within 30 s; the requests before it were all answered", c20count, req.Method, req.URL.String()), Op: what})
		}
		hung := httptest.NewRecorder()
		hung.WriteHeader(599)
		return hung
	}
}

var reTypedArg = regexp.MustCompile(`\*[A-Za-z][A-Za-z0-9_.]*\((0x[0-9a-f]+|#[0-9]+)\)`)

// c20Sequence: what the handler answers to a request must not depend on the parameters of the requests
// before it.  The page of `augment=1` shows arguments with their types (the sources of the Go library
// and of this program are on disk); it must still do so after an `augment=0` request, and the other
// way round; the same with the similarity levels.
func c20Sequence(res *Result) {
	get := func(query string) (int, string) {
		req := httptest.NewRequest("GET", "/?"+query, nil)
		rec := c20Serve(req, map[string]interface{}{"request": "GET /?" + query})
		return rec.Code, rec.Body.String()
	}
	typed := func(body string) int { return len(reTypedArg.FindAllString(body, -1)) }
	for round := 0; round < countN(res.Tier, 2, 10); round++ {
		var history []string
		step := func(q string) (int, string) {
			history = append(history, "GET /?"+q)
			return get(q)
		}
		c1, p1 := step("augment=1")
		if c1 != 200 {
			return
		}
		t1 := typed(p1)
		res.Eval(fmt.Sprintf("sequence|%d", round), t1 > 0)
		if t1 == 0 {
			res.Count("sequence:no-sources")
			return
		}
		c0, p0 := step("augment=0")
		c3, p3 := step("augment=1")
		_, pd := step("")
		res.Count("sequence-rounds")
		if c0 != 200 || c3 != 200 {
			res.Violation(Finding{Stream: "web sequence", What: fmt.Sprintf("a valid GET was answered with status %d / %d after other valid requests", c0, c3), Op: map[string]interface{}{"requests": history}})
			return
		}
		if t3 := typed(p3); t3 == 0 {
			res.Violation(Finding{Stream: "web sequence", What: fmt.Sprintf("GET /?augment=1 showed %d arguments with their types; the same request after a GET /?augment=0 shows none: what the handler answers depends on the parameters of an earlier request", t1), Op: map[string]interface{}{"requests": history}})
			return
		}
		if t0 := typed(p0); t0 != 0 && typed(pd) == 0 {
			res.Violation(Finding{Stream: "web sequence", What: "the page of GET / (default parameters) lost its typed arguments after requests with other augment values", Op: map[string]interface{}{"requests": history}})
			return
		}
	}
}

func c20Call(q c20lib.Req, method string, mutate func(*http.Request)) *httptest.ResponseRecorder {
	target := "/"
	if enc := q.Query(false); enc != "" && !q.InBody {
		target += "?" + enc
	}
	var req *http.Request
	if q.InBody {
		req = httptest.NewRequest("POST", target, strings.NewReader(q.Query(false)))
		req.Header.Set("Content-Type", "application/x-www-form-urlencoded")
	} else {
		req = httptest.NewRequest("GET", target, nil)
	}
	req.Method = method
	if mutate != nil {
		mutate(req)
	}
	return c20Serve(req, q)
}

// c20Exact narrows the bounds to the exact number of goroutines when that
// number was the same before and after the request (churn paused).
func c20Exact(b c20Bounds, before int) c20Bounds {
	if after := len(c20lib.HeaderIDs(c20lib.TakeDump())); after == before {
		// + the goroutine c20Serve runs the handler in (so that a handler that never answers
		// can be told from a slow one); it exists only while the request is served
		return c20Bounds{min: before + 1, max: before + 1, names: b.names}
	}
	return b
}

func c20Count() int { return len(c20lib.HeaderIDs(c20lib.TakeDump())) }

func c20Grid(res *Result, pool *DrvPool, b c20Bounds) {
	samples := 0
	for _, m := range c20lib.GridMethods {
		for _, mm := range c20lib.GridMaxmem {
			for _, au := range c20lib.GridAugment {
				for _, si := range c20lib.GridSimilarity {
					q := c20lib.Req{Method: m, Maxmem: mm, Augment: au, Similarity: si}
					valid := c20lib.Valid(m, mm, au, si)
					before := 0
					if valid {
						before = c20Count()
					}
					rec := c20Call(q, m, nil)
					bb := b
					if valid {
						if bb = c20Exact(b, before); bb.min == bb.max {
							res.Count("grid:exact-accounting")
						}
					}
					res.Eval("grid|"+q.Describe(), true)
					res.Count(fmt.Sprintf("grid:%d", rec.Code))
					if w := c20lib.CheckResponse(m, mm, au, si, rec.Code, rec.Header().Get("Content-Type"), rec.Body.Bytes(), bb.min, bb.max, b.names); w != "" {
						res.Violation(Finding{Stream: "web grid", What: w + " — " + q.Describe(), Op: q, Got: rec.Code})
					}
					c20Model(pool, res, "S16 web", q, m, rec.Code, true)
					if samples++; valid && samples < 3 {
						res.Sample(map[string]interface{}{"request": q, "status": rec.Code, "bytes": rec.Body.Len(), "routines": c20lib.ParsePage(rec.Body.Bytes()).Routines})
					}
				}
			}
		}
	}
	// the same parameters carried by a body: FormValue reads the body of
	// POST/PUT/PATCH only, and a multipart body of any method
	for _, mm := range []string{"", "abc", "5"} {
		for _, au := range []string{"", "2", "0"} {
			for _, si := range []string{"", "any", "anyvalue"} {
				q := c20lib.Req{Method: "POST", Maxmem: mm, Augment: au, Similarity: si, InBody: true}
				for _, m := range []string{"POST", "PUT", "PATCH"} {
					q.Method = m
					rec := c20Call(q, m, nil)
					res.Eval("body|"+q.Describe(), true)
					res.Count(fmt.Sprintf("body:%s:%d", m, rec.Code))
					if rec.Code != 405 {
						res.Violation(Finding{Stream: "web body", What: fmt.Sprintf("%s answered %d, want 405", q.Describe(), rec.Code), Op: q})
					}
					c20Model(pool, res, "S16 web", q, m, rec.Code, true)
				}
				// GET with an urlencoded body: the body is not read, the request is a plain valid GET
				q.Method = "GET"
				rec := c20Call(q, "GET", nil)
				eff := c20lib.Req{Method: "GET"}
				res.Eval("getbody|"+q.Describe(), true)
				res.Count(fmt.Sprintf("getbody:%d", rec.Code))
				if w := c20lib.CheckResponse("GET", "", "", "", rec.Code, rec.Header().Get("Content-Type"), rec.Body.Bytes(), b.min, b.max, b.names); w != "" {
					res.Violation(Finding{Stream: "web body", What: "GET with an urlencoded body (ignored by FormValue): " + w, Op: q})
				}
				c20Model(pool, res, "S16 web", eff, "GET", rec.Code, true)
				// GET with a multipart body: FormValue merges its values
				var buf bytes.Buffer
				mw := multipart.NewWriter(&buf)
				if mm != "" {
					mw.WriteField("maxmem", mm)
				}
				if au != "" {
					mw.WriteField("augment", au)
				}
				if si != "" {
					mw.WriteField("similarity", si)
				}
				mw.Close()
				mk := func() *http.Request {
					req := httptest.NewRequest("GET", "/", bytes.NewReader(buf.Bytes()))
					req.Header.Set("Content-Type", mw.FormDataContentType())
					return req
				}
				probe := mk()
				eff = c20lib.Req{Method: "GET", Maxmem: probe.FormValue("maxmem"), Augment: probe.FormValue("augment"), Similarity: probe.FormValue("similarity")}
				rec = c20Serve(mk(), eff)
				res.Eval("multipart|"+eff.Describe(), true)
				res.Count(fmt.Sprintf("multipart:%d", rec.Code))
				if w := c20lib.CheckResponse("GET", eff.Maxmem, eff.Augment, eff.Similarity, rec.Code, rec.Header().Get("Content-Type"), rec.Body.Bytes(), b.min, b.max, b.names); w != "" {
					res.Violation(Finding{Stream: "web body", What: "GET with a multipart body: " + w + " — effective " + eff.Describe(), Op: eff})
				}
				c20Model(pool, res, "S16 web", eff, "GET", rec.Code, true)
			}
		}
	}
}

// ---- atoi correspondence -------------------------------------------------------

func genAtoi(r *Rng) string {
	digits := func(n int) string {
		var b strings.Builder
		for i := 0; i < n; i++ {
			b.WriteByte(byte('0' + r.Intn(10)))
		}
		return b.String()
	}
	sign := []string{"", "", "+", "-"}[r.Intn(4)]
	switch r.Intn(10) {
	case 0: // around the int64 limits
		base := []string{"9223372036854775807", "9223372036854775808", "9223372036854775806", "9223372036854775809", "18446744073709551615", "18446744073709551616", "922337203685477580", "92233720368547758070"}[r.Intn(8)]
		return sign + strings.Repeat("0", r.Intn(3)*r.Intn(12)) + base
	case 1: // at the fast-path length limit (18/19 bytes)
		return sign + digits(17+r.Intn(3))
	case 2: // leading zeros
		return sign + strings.Repeat("0", r.Intn(30)) + digits(r.Intn(3))
	case 3: // a foreign byte somewhere
		s := sign + digits(1+r.Intn(22))
		i := r.Intn(len(s) + 1)
		junk := []string{"_", " ", "x", ".", "e", "+", "-", "\x00", "\xff", "/", ":", "a", "٣"}[r.Intn(13)]
		return s[:i] + junk + s[i:]
	case 4:
		return []string{"", "+", "-", "+-1", "--1", "0x10", "0b1", "0o7", "1_0", "_1", "1_", "0_0", " 1", "1 ", "1e6", "1.0", "０"}[r.Intn(17)]
	default:
		return sign + digits(1+r.Intn(24))
	}
}

func c20Atoi(res *Result, pool *DrvPool, r *Rng) {
	n := countN(res.Tier, 3000, 150000)
	for i := 0; i < n; i++ {
		s := genAtoi(r)
		v, err := strconv.Atoi(s)
		res.Eval("atoi|"+s, true)
		if err == nil {
			res.Count("atoi:ok")
		} else {
			res.Count("atoi:err")
		}
		// direct: Atoi accepts exactly the decimal integers that fit an int
		if c20lib.ValidMaxmem(s) != (s == "" || err == nil) {
			res.Violation(Finding{Stream: "atoi", What: fmt.Sprintf("strconv.Atoi(%q) = %d, %v but the string does (not) denote an int", s, v, err)})
		}
		op := map[string]interface{}{"op": "atoi", "s": hb(s)}
		pool.Send(op, func(raw json.RawMessage) {
			res.Trace()
			var m struct {
				V     *json.Number `json:"v"`
				Error string       `json:"error"`
			}
			if e := json.Unmarshal(raw, &m); e != nil || m.Error != "" {
				res.Disagree(Finding{Stream: "S16 atoi", What: "model error: " + clip(string(raw)), Op: op})
				return
			}
			switch {
			case (m.V == nil) != (err != nil):
				res.Disagree(Finding{Stream: "S16 atoi", What: fmt.Sprintf("Atoi(%q): model %v, implementation %d, %v", s, m.V, v, err), Op: op})
			case m.V != nil && m.V.String() != strconv.Itoa(v):
				res.Disagree(Finding{Stream: "S16 atoi", What: fmt.Sprintf("Atoi(%q): model %s, implementation %d", s, m.V, v), Op: op})
			}
		})
	}
}

// ---- (b) live self-snapshot -------------------------------------------------------

var c20LiveSamples atomic.Int32

//go:noinline
func c20TakeDump() []byte { return c20lib.TakeDump() }

// c20LiveOnce takes dumps until no registered goroutine is caught in transit
// (at most 8 tries) and evaluates the oracle on the last one.
func c20LiveOnce(res *Result, pool *DrvPool, w *c20lib.Workload, states map[string]int, withModel bool) {
	reg := w.Registry()
	var rep *c20lib.LiveReport
	var raw []byte
	for try := 0; try < 8; try++ {
		raw = c20TakeDump()
		rep = c20lib.CheckLive(raw, reg, "c20TakeDump")
		if len(rep.Transient) == 0 || len(rep.Problems) > 0 {
			break
		}
		res.Count("live:retry-transient")
		time.Sleep(15 * time.Millisecond)
	}
	res.Eval("live|"+shortHash(string(raw)), true)
	res.Count("live:dumps")
	res.CountN("live:goroutines", rep.Headers)
	res.CountN("live:registered-verified", rep.Checked)
	res.CountN("live:creator-goroutine-verified", rep.CreatedIn)
	for st, n := range rep.States {
		states[st] += n
	}
	op := &ScanOp{Op: "scan", Data: hb(string(raw)), Sched: []int{}, Final: "eof"}
	var opv interface{}
	if len(raw) <= 64<<10 {
		opv = op
	}
	for _, p := range rep.Problems {
		res.Violation(Finding{Stream: "live snapshot", What: p, Op: opv})
	}
	if len(rep.Transient) > 0 && len(rep.Problems) == 0 {
		res.Violation(Finding{Stream: "live snapshot", What: "registered goroutines never seen parked after 8 dumps: " + strings.Join(rep.Transient, "; "), Op: opv})
	}
	if withModel && len(raw) <= 300<<10 {
		res.Count("live:model")
		modelScan(pool, res, op, implScan(op), nil)
	}
	if c20LiveSamples.Add(1) <= 2 {
		res.Sample(map[string]interface{}{"live_dump_bytes": len(raw), "goroutines": rep.Headers, "registered": len(reg), "states": rep.States})
	}
}

// ---- (c) concurrent requests --------------------------------------------------------

func c20Concurrent(res *Result, pool *DrvPool, w *c20lib.Workload, b c20Bounds, seed uint64, clients, per int, states map[string]int) {
	srv := httptest.NewServer(http.HandlerFunc(webstack.SnapshotHandler))
	defer srv.Close()
	var stop atomic.Bool
	var bg sync.WaitGroup
	bg.Add(1)
	var mu sync.Mutex
	go func() { // library-level snapshots interleaved with the requests
		defer bg.Done()
		for !stop.Load() {
			mu.Lock()
			c20LiveOnce(res, pool, w, states, false)
			mu.Unlock()
			time.Sleep(20 * time.Millisecond)
		}
	}()
	c20lib.RunClients(srv.URL, clients, per, seed, time.Time{}, func(r c20lib.Resp) {
		q := r.Req
		res.Eval(fmt.Sprintf("conc|%s|%d|%d", q.Describe(), r.Status, len(r.Body)), true)
		if r.Err != nil {
			res.Violation(Finding{Stream: "web concurrent", What: "request failed: " + r.Err.Error(), Op: q})
			return
		}
		res.Count(fmt.Sprintf("conc:%d", r.Status))
		names := b.names
		if q.Method == "HEAD" {
			names = nil
		} else if r.Marker != "" {
			// the goroutine started before this request was sent is on its page
			names = append(append([]string{}, names...), r.Marker)
			res.Count("conc:with-fresh-goroutine")
		}
		if wt := c20lib.CheckResponse(q.Method, q.Maxmem, q.Augment, q.Similarity, r.Status, r.ContentType, r.Body, b.min, b.max, names); wt != "" {
			res.Violation(Finding{Stream: "web concurrent", What: wt + " — " + q.Describe(), Op: q, Got: r.Status})
		}
		c20Model(pool, res, "S16 web", q, q.Method, r.Status, true)
	})
	stop.Store(true)
	bg.Wait()
}

// ---- truncation: a dump larger than max(maxmem, 1 MiB) --------------------------------

func c20Truncation(res *Result, pool *DrvPool, w *c20lib.Workload, b c20Bounds) {
	// inflate the dump beyond the first buffer (1 MiB): each deep goroutine prints ~100 frames
	for tries := 0; tries < 6 && len(c20lib.TakeDump()) <= 1<<20+1<<16; tries++ {
		w.AddBulk(40)
	}
	need := len(c20lib.TakeDump())
	reg := w.Registry()
	total := c20Count()
	b = c20Bounds{min: total + 1, max: total + 1, names: b.names}
	info := map[string]interface{}{"dump_bytes": need, "goroutines_registered": len(reg), "goroutines": total}
	if need <= 1<<20 {
		info["skipped"] = "could not inflate the dump beyond 1 MiB"
		res.Extra["truncation"] = info
		return
	}
	// enough memory: two buffers are tried, the page is complete
	// incl. limits that are not 1 MiB times a power of two: the last buffer is
	// clamped to maxmem and still holds the dump
	fits := []string{"", "2097152", "67108864", fmt.Sprint(need + 1<<16), fmt.Sprint(need + 1<<18)}
	if need < 1835008-1<<16 {
		fits = append(fits, "1835008")
	}
	for _, mm := range fits {
		q := c20lib.Req{Method: "GET", Maxmem: mm, Augment: "0"}
		rec := c20Call(q, "GET", nil)
		res.Eval("big|"+q.Describe(), true)
		res.Count(fmt.Sprintf("big-fits:%d", rec.Code))
		if wt := c20lib.CheckResponse("GET", mm, "0", "", rec.Code, rec.Header().Get("Content-Type"), rec.Body.Bytes(), b.min, b.max, b.names); wt != "" {
			res.Violation(Finding{Stream: "web big dump", What: wt + " — " + q.Describe() + fmt.Sprintf(" (dump of %d bytes)", need), Op: q})
		}
		c20Model(pool, res, "S16 web", q, "GET", rec.Code, true)
	}
	// not enough memory (outside C20: "dumps that fit"): the handler parses a
	// text cut at 1 MiB. Recorded, not judged: 500, or 200 with a partial page.
	outcomes := map[string]int{}
	for _, mm := range []string{"0", "1", "1048576", "-5"} {
		for _, si := range []string{"", "bogus"} {
			q := c20lib.Req{Method: "GET", Maxmem: mm, Augment: "0", Similarity: si}
			rec := c20Call(q, "GET", nil)
			pg := c20lib.ParsePage(rec.Body.Bytes())
			k := fmt.Sprintf("%d", rec.Code)
			if rec.Code == 200 {
				k = fmt.Sprintf("200 with a page accounting for %d of %d goroutines", pg.Routines, total)
				if pg.Routines == total {
					k = "200 complete"
				}
			}
			outcomes[fmt.Sprintf("similarity=%q: %s", si, k)]++
			res.Eval("trunc|"+q.Describe(), true)
			res.Count(fmt.Sprintf("truncated:%d", rec.Code))
			// the model with the observed snapshot outcome: a 500 means the snapshot failed, anything else that it parsed
			c20Model(pool, res, "S16 web", q, "GET", rec.Code, rec.Code != 500)
			if rec.Code != 200 && rec.Code != 500 && !(si == "bogus" && rec.Code == 400) {
				res.Violation(Finding{Stream: "web big dump", What: fmt.Sprintf("truncated dump answered %d — %s", rec.Code, q.Describe()), Op: q})
			}
		}
	}
	info["outcomes_when_maxmem_is_too_small"] = outcomes
	res.Extra["truncation"] = info
}

// ---- race detector ------------------------------------------------------------------

func harnessDir() string {
	has := func(d string) bool {
		_, err := os.Stat(filepath.Join(d, "c20race", "main.go"))
		return err == nil
	}
	if d := getenv("VERIF_HARNESS_DIR"); d != "" {
		return d
	}
	if d := getenv("VERIF_DIR"); d != "" && has(filepath.Join(d, "harness")) {
		return filepath.Join(d, "harness")
	}
	if _, file, _, ok := runtime.Caller(0); ok && has(filepath.Dir(file)) {
		return filepath.Dir(file)
	}
	if has("/verif/harness") {
		return "/verif/harness"
	}
	return ""
}

func c20Race(res *Result, seed uint64, dur time.Duration) {
	info := map[string]interface{}{}
	res.Extra["race"] = info
	dir := harnessDir()
	if dir == "" {
		info["status"] = "unavailable: harness sources not found (set VERIF_HARNESS_DIR)"
		return
	}
	tmp, err := os.MkdirTemp("", "verif-c20-")
	if err != nil {
		info["status"] = "unavailable: " + err.Error()
		return
	}
	defer os.RemoveAll(tmp)
	bin := filepath.Join(tmp, "c20race")
	env := append(os.Environ(), "GOFLAGS=-mod=mod", "GOPROXY=off", "GOSUMDB=off", "GOTOOLCHAIN=local", "CGO_ENABLED=1")
	build := exec.Command("go", "build", "-race", "-tags", "verif", "-o", bin, "./c20race")
	build.Dir = dir
	build.Env = env
	t0 := time.Now()
	if out, err := build.CombinedOutput(); err != nil {
		info["status"] = "unavailable: go build -race failed: " + clip(string(out)) + " " + err.Error()
		return
	}
	info["build_s"] = time.Since(t0).Seconds()
	var stdout, stderr bytes.Buffer
	run := exec.Command(bin, "-dur", dur.String(), "-seed", fmt.Sprint(seed))
	run.Stdout, run.Stderr = &stdout, &stderr
	run.Env = append(os.Environ(), "GORACE=halt_on_error=0 exitcode=66")
	err = run.Run()
	info["status"] = "ran"
	info["summary"] = strings.TrimSpace(stdout.String())
	res.Eval("race|"+stdout.String(), true)
	res.Count("race:runs")
	se := stderr.String()
	if strings.Contains(se, "WARNING: DATA RACE") {
		res.Violation(Finding{Stream: "race detector", What: "data race reported while snapshots were served concurrently with goroutine churn: " + clipLong(se, 3000)})
	} else if err != nil {
		res.Violation(Finding{Stream: "race detector", What: "the workload under -race failed: " + err.Error() + ": " + clipLong(se, 3000)})
	}
}

func clipLong(s string, n int) string {
	if len(s) > n {
		return s[:n] + "…"
	}
	return s
}

// ---- entry point -------------------------------------------------------------------------

func runC20(prop string, res *Result, pool *DrvPool, r *Rng) {
	res.Rule = "(a) exhaustive grid method x maxmem x augment x similarity (6x12x10x8) on the real handler via httptest, plus the parameters carried by urlencoded and multipart bodies; (b) runtime.Stack(all) of the harness process while a churn workload runs (goroutines registered by id, parked in known states inside uniquely named functions: chan receive/send, select, Mutex, RWMutex, WaitGroup, Cond, sleep, IO wait on pipe and socket, raw syscall, locked to thread, 150-deep recursion, spinning, nil channel, empty select; plus goroutines created and exiting continuously), parsed by the library and (<= 300 KB) by the model; (c) 8 concurrent clients x random mostly-valid requests against an httptest.Server while the workload and library-level snapshots run; a dump inflated beyond 1 MiB for the buffer-growth path; strconv.Atoi against the model on boundary strings. Every case is non-trivial; distinct by request (+status and size for concurrent ones) or hash of the dump"
	c20res, c20hung, c20count = res, false, 0
	cfg := c20lib.Config{PerKind: 3, Churners: 4, ShortLive: 120, Seed: r.Next(), Leaky: true}
	w := c20lib.Start(cfg)
	time.Sleep(100 * time.Millisecond)
	states := map[string]int{}
	b := boundsOf(w, cfg)
	res.Extra["go_version"] = runtime.Version()
	res.Extra["registered_goroutines"] = b.min - 1

	phases := map[string]float64{}
	timed := func(name string, f func()) {
		t0 := time.Now()
		f()
		phases[name] = time.Since(t0).Seconds()
	}
	timed("atoi", func() { c20Atoi(res, pool, r) })
	// (a) with the churn paused: the number of goroutines is steady, so the page can be checked exactly
	w.Pause()
	// the request sequences come first: they are about what earlier requests leave behind, and the
	// grid below makes every kind of request
	timed("sequence", func() { c20Sequence(res) })
	timed("grid", func() { c20Grid(res, pool, b) })
	timed("sequence-after-grid", func() { c20Sequence(res) })
	w.Resume()
	if c20hung {
		// the handler is stuck: nothing further can be learnt from this process
		res.Extra["phase_seconds"] = phases
		w.Stop()
		return
	}
	timed("live", func() {
		nLive := countN(res.Tier, 40, 700)
		for i := 0; i < nLive; i++ {
			c20LiveOnce(res, pool, w, states, i%4 == 0 || res.Tier == "thorough" && i%2 == 0)
			time.Sleep(time.Duration(r.Intn(3000)) * time.Microsecond)
		}
	})
	timed("concurrent", func() { c20Concurrent(res, pool, w, b, r.Next(), 8, countN(res.Tier, 25, 400), states) })
	w.Pause()
	timed("bigdump", func() { c20Truncation(res, pool, w, b) })
	res.Extra["phase_seconds"] = phases
	res.Extra["short_lived_spawned"] = w.Spawned.Load()
	w.Stop()
	res.Extra["short_lived_exited"] = w.Exited.Load()
	res.Extra["goroutines_left_parked_forever"] = w.Leaked

	var ks []string
	for k := range states {
		ks = append(ks, k)
	}
	sort.Strings(ks)
	obs := map[string]int{}
	for _, k := range ks {
		obs[k] = states[k]
		res.CountN("state:"+k, states[k])
	}
	res.Extra["states_observed"] = obs

	if res.Tier == "thorough" {
		c20Race(res, r.Next(), 20*time.Second)
	} else {
		res.Extra["race"] = map[string]interface{}{"status": "thorough tier only"}
	}
}
