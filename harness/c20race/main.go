// c20race runs the C20 workload (churn + concurrent snapshot requests +
// library-level snapshots) as a stand-alone program so that it can be built
// with -race. It exits 1 when the property's oracle fails; the race detector
// reports on stderr ("WARNING: DATA RACE") and sets its own exit code.
package main

import (
	"flag"
	"fmt"
	"net/http"
	"net/http/httptest"
	"os"
	"sync"
	"sync/atomic"
	"time"

	"github.com/maruel/panicparse/v2/stack/webstack"

	"verifharness/c20lib"
)

//go:noinline
func raceTakeDump() []byte { return c20lib.TakeDump() }

func main() {
	dur := flag.Duration("dur", 20*time.Second, "how long to run")
	seed := flag.Uint64("seed", 1, "seed")
	clients := flag.Int("clients", 8, "concurrent clients")
	flag.Parse()

	cfg := c20lib.Config{PerKind: 2, Churners: 4, ShortLive: 80, Seed: *seed, Leaky: true}
	w := c20lib.Start(cfg)
	time.Sleep(200 * time.Millisecond)
	reg := w.Registry()
	names := c20lib.FuncNames(reg)
	srv := httptest.NewServer(http.HandlerFunc(webstack.SnapshotHandler))

	var mu sync.Mutex
	var problems []string
	report := func(s string) {
		mu.Lock()
		if len(problems) < 20 {
			problems = append(problems, s)
		}
		mu.Unlock()
	}
	var nReq, n200, n4xx, nLive atomic.Int64
	var stop atomic.Bool
	var bg sync.WaitGroup
	for i := 0; i < 2; i++ { // two library-level snapshotters
		bg.Add(1)
		go func() {
			defer bg.Done()
			for !stop.Load() {
				var rep *c20lib.LiveReport
				for try := 0; try < 8; try++ {
					rep = c20lib.CheckLive(raceTakeDump(), reg, "raceTakeDump")
					if len(rep.Transient) == 0 || len(rep.Problems) > 0 {
						break
					}
					time.Sleep(20 * time.Millisecond)
				}
				nLive.Add(1)
				for _, p := range rep.Problems {
					report("live: " + p)
				}
				if len(rep.Problems) == 0 && len(rep.Transient) > 0 {
					report(fmt.Sprint("live: never parked: ", rep.Transient))
				}
				time.Sleep(30 * time.Millisecond)
			}
		}()
	}
	min, max := len(reg)+1, len(reg)+cfg.ShortLive+cfg.Churners+400
	c20lib.RunClients(srv.URL, *clients, 0, *seed, time.Now().Add(*dur), func(r c20lib.Resp) {
		nReq.Add(1)
		if r.Err != nil {
			report("request failed: " + r.Err.Error())
			return
		}
		if r.Status == 200 {
			n200.Add(1)
		} else if r.Status >= 400 && r.Status < 500 {
			n4xx.Add(1)
		}
		nm := names
		if r.Method == "HEAD" {
			nm = nil
		} else if r.Marker != "" {
			nm = append(append([]string{}, nm...), r.Marker)
		}
		if wt := c20lib.CheckResponse(r.Method, r.Maxmem, r.Augment, r.Similarity, r.Status, r.ContentType, r.Body, min, max, nm); wt != "" {
			report("web: " + wt + " — " + r.Req.Describe())
		}
	})
	stop.Store(true)
	bg.Wait()
	srv.Close()
	spawned := w.Spawned.Load()
	w.Stop()
	fmt.Printf("requests=%d ok=%d 4xx=%d live_snapshots=%d registered=%d short_lived=%d problems=%d\n",
		nReq.Load(), n200.Load(), n4xx.Load(), nLive.Load(), len(reg), spawned, len(problems))
	if len(problems) > 0 {
		for _, p := range problems {
			fmt.Fprintln(os.Stderr, "PROBLEM:", p)
		}
		os.Exit(1)
	}
}
