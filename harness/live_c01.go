package main

import (
	"fmt"
	"io"
	"regexp"
	"runtime"
	"strings"
	"sync"
	"time"

	"github.com/maruel/panicparse/v2/stack"
)

// Validation of the printer model against the running runtime: a dump of this
// very process is parsed by the implementation, turned back into a dump
// description, printed by the generator (the model of runtime/traceback.go the
// round-trip theorem is about, tied byte for byte to the Lean spec printer),
// and must reproduce the runtime's own text (code offsets aside, which the
// snapshot does not keep).

type liveT struct{ a, b int }

//go:noinline
func (t *liveT) liveMethod(ch chan int, s string, n int8) { <-ch }

//go:noinline
func liveSelect(a, b chan struct{}, xs []int) {
	select {
	case <-a:
	case <-b:
	}
}

//go:noinline
func liveMutex(mu *sync.Mutex, v liveT, f float64) { mu.Lock(); mu.Unlock() }

//go:noinline
func liveSleep(d time.Duration, ok bool) { time.Sleep(d) }

var reOffset = regexp.MustCompile(` \+0x[0-9a-f]+`)

func argSpecs(vs []stack.Arg) []ArgSpec {
	out := []ArgSpec{}
	for i := range vs {
		a := &vs[i]
		if a.IsAggregate {
			out = append(out, ArgSpec{IsAgg: true, Agg: argSpecs(a.Fields.Values), Elided: a.Fields.Elided})
		} else {
			out = append(out, ArgSpec{V: a.Value, Otl: a.IsOffsetTooLarge, Inacc: a.IsInaccurate})
		}
	}
	return out
}

var reParent = regexp.MustCompile(` in goroutine (\d+)$`)

func describeGoroutine(g *stack.Goroutine) (GSpec, bool) {
	s := GSpec{ID: g.ID, State: g.State, WaitMin: g.SleepMin, Locked: g.Locked, Elided: -1}
	if g.Stack.Elided {
		return s, false
	}
	for i := range g.Stack.Calls {
		c := &g.Stack.Calls[i]
		if c.RemoteSrcPath == "<unavailable>" {
			s.Unavail = true
			continue
		}
		s.Frames = append(s.Frames, FrameSpec{Pkg: c.Func.ImportPath, Name: c.Func.Name, Args: argSpecs(c.Args.Values), ArgsElide: c.Args.Elided, File: c.RemoteSrcPath, Line: c.Line})
	}
	if len(g.CreatedBy.Calls) == 1 {
		c := &g.CreatedBy.Calls[0]
		f := FrameSpec{Pkg: c.Func.ImportPath, Name: c.Func.Name, File: c.RemoteSrcPath, Line: c.Line}
		s.Created = &f
		if m := reParent.FindStringSubmatch(c.Func.Complete); m != nil {
			fmt.Sscan(m[1], &s.Parent)
		}
	}
	return s, true
}

func runLiveC01(res *Result) {
	stop := make(chan struct{})
	ch := make(chan int)
	var mu sync.Mutex
	mu.Lock()
	var wg sync.WaitGroup
	start := func(f func()) {
		wg.Add(1)
		go func() { defer wg.Done(); f() }()
	}
	t := &liveT{1, 2}
	start(func() { t.liveMethod(ch, "héllo", -3) })
	start(func() { liveSelect(stop, nil, []int{1, 2, 3}) })
	start(func() { liveMutex(&mu, liveT{7, 8}, 1.5) })
	start(func() { liveSleep(50*time.Millisecond, true); <-stop })
	start(func() { runtime.LockOSThread(); <-stop })
	time.Sleep(20 * time.Millisecond)
	for round := 0; round < 3; round++ {
		buf := make([]byte, 1<<20)
		buf = buf[:runtime.Stack(buf, true)]
		txt := string(buf)
		s, _, err := stack.ScanSnapshot(strings.NewReader(txt), io.Discard, &stack.Opts{})
		if err != io.EOF || s == nil {
			res.Violation(Finding{Stream: "live", What: fmt.Sprintf("the runtime's own dump does not parse cleanly: err=%v", err), Op: map[string]interface{}{"dump": hb(txt)}})
			break
		}
		blocks := strings.Split(strings.TrimSuffix(txt, "\n"), "\n\n")
		if len(blocks) != len(s.Goroutines) {
			res.Violation(Finding{Stream: "live", What: fmt.Sprintf("%d goroutine blocks printed by the runtime, %d goroutines parsed", len(blocks), len(s.Goroutines)), Op: map[string]interface{}{"dump": hb(txt)}})
			break
		}
		cfg := PrintCfg{FileIndent: "\t"}
		for i, g := range s.Goroutines {
			d, ok := describeGoroutine(g)
			if !ok {
				continue
			}
			var sb strings.Builder
			cfg.Goroutine(&sb, &d)
			want := reOffset.ReplaceAllString(blocks[i], "") + "\n"
			res.Eval("live:"+want, true)
			res.Count("live-goroutines")
			if got := sb.String(); got != want {
				res.Violation(Finding{Stream: "live", What: fmt.Sprintf("printing the parsed goroutine %d back with the printer model does not reproduce the runtime's text (the parse lost or altered something, or the printer model is wrong): got %q want %q", g.ID, clip(got), clip(want)), Op: map[string]interface{}{"dump": hb(txt)}})
			}
		}
		runtime.Gosched()
	}
	close(stop)
	close(ch)
	mu.Unlock()
	wg.Wait()
}
