package main

// Rng is a xorshift64* generator; every random choice of the harness derives
// from one of these, seeded from VERIF_SEED, so a run replays exactly.
type Rng struct{ s uint64 }

func NewRng(seed uint64) *Rng {
	r := &Rng{s: seed*0x9E3779B97F4A7C15 + 0x1234567}
	if r.s == 0 {
		r.s = 1
	}
	for i := 0; i < 4; i++ {
		r.Next()
	}
	return r
}

func (r *Rng) Next() uint64 {
	r.s ^= r.s >> 12
	r.s ^= r.s << 25
	r.s ^= r.s >> 27
	return r.s * 2685821657736338717
}

// Intn returns a value in [0,n).
func (r *Rng) Intn(n int) int {
	if n <= 0 {
		return 0
	}
	return int(r.Next() % uint64(n))
}

func (r *Rng) Bool() bool { return r.Next()&1 == 1 }

// Chance returns true with probability num/den.
func (r *Rng) Chance(num, den int) bool { return r.Intn(den) < num }

func (r *Rng) Pick(s []string) string { return s[r.Intn(len(s))] }

// Fork derives an independent generator.
func (r *Rng) Fork() *Rng { return NewRng(r.Next()) }

func (r *Rng) Perm(n int) []int {
	p := make([]int, n)
	for i := range p {
		p[i] = i
	}
	for i := n - 1; i > 0; i-- {
		j := r.Intn(i + 1)
		p[i], p[j] = p[j], p[i]
	}
	return p
}
