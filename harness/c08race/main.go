// c08race is built with -race by the C08 check: two non-main goroutines race on
// a variable; the race detector prints its report on stderr and the harness
// feeds that text to the parser and to the printer model.
package main

import (
	"sync"
	"time"
)

var shared int

//go:noinline
func writer(wg *sync.WaitGroup, v int) {
	defer wg.Done()
	shared = v
}

//go:noinline
func reader(wg *sync.WaitGroup, out *int) {
	defer wg.Done()
	time.Sleep(10 * time.Millisecond)
	*out = shared
}

func main() {
	var wg sync.WaitGroup
	var x int
	wg.Add(2)
	go writer(&wg, 42)
	go reader(&wg, &x)
	wg.Wait()
}
