package main

import (
	"fmt"
	"io"
	"os"
	"os/exec"
	"path/filepath"
	"regexp"
	"strings"

	"github.com/maruel/panicparse/v2/stack"
)

var reRaceOff = regexp.MustCompile(` \+0x[0-9a-f]+`)

func raceFrames(cs []stack.Call) []FrameSpec {
	var out []FrameSpec
	for i := range cs {
		c := &cs[i]
		out = append(out, FrameSpec{Pkg: c.Func.ImportPath, Name: c.Func.Name, Args: argSpecs(c.Args.Values), ArgsElide: c.Args.Elided, File: c.RemoteSrcPath, Line: c.Line})
	}
	return out
}

// runLiveC08 builds a racy program with the race detector, and checks that the
// report the real tsan runtime prints (1) parses into one goroutine per
// operation and (2) is reproduced by the printer model from the parsed
// snapshot, code offsets aside.
func runLiveC08(res *Result) {
	dir := os.Getenv("VERIF_DIR")
	if dir == "" {
		dir = "/verif"
	}
	tmp, err := os.MkdirTemp("", "verif-c08-")
	if err != nil {
		res.Extra["live-race"] = err.Error()
		return
	}
	defer os.RemoveAll(tmp)
	exe := filepath.Join(tmp, "c08race")
	cmd := exec.Command("go", "build", "-race", "-o", exe, "./c08race")
	cmd.Dir = filepath.Join(dir, "harness")
	cmd.Env = append(os.Environ(), "CGO_ENABLED=1", "GOFLAGS=-mod=mod", "GOPROXY=off", "GOSUMDB=off", "GOTOOLCHAIN=local")
	if out, err := cmd.CombinedOutput(); err != nil {
		res.Extra["live-race"] = "race build unavailable: " + clip(string(out))
		return
	}
	for i := 0; i < 3; i++ {
		c := exec.Command(exe)
		c.Env = append(os.Environ(), "GORACE=halt_on_error=0")
		out, _ := c.CombinedOutput()
		txt := string(out)
		a := strings.Index(txt, "==================\nWARNING: DATA RACE")
		if a < 0 {
			res.Count("live-race-no-report")
			continue
		}
		b := strings.Index(txt[a+19:], "==================\n")
		if b < 0 {
			continue
		}
		report := txt[a : a+19+b+19]
		if strings.Contains(report, "by main goroutine") {
			res.Count("live-race-main-goroutine(outside the format)")
			continue
		}
		s, suffix, err := stack.ScanSnapshot(strings.NewReader(report+"tail\n"), io.Discard, &stack.Opts{})
		if err != nil || s == nil || string(suffix) != "tail\n" || !s.IsRace() {
			res.Violation(Finding{Stream: "live-race", What: fmt.Sprintf("the race detector's own report does not parse: err=%v snapshot=%v suffix=%q", err, s != nil, suffix), Op: map[string]interface{}{"report": hb(report)}})
			continue
		}
		rs := RaceSpec{}
		for gi, g := range s.Goroutines {
			rs.Ops = append(rs.Ops, RaceOp{Write: g.RaceWrite, Addr: g.RaceAddr, ID: g.ID, Frames: raceFrames(g.Stack.Calls)})
			_ = gi
		}
		// creation sections in printed order: recover the order from the text
		for _, m := range regexp.MustCompile(`(?m)^Goroutine (\d+) \((running|finished)\) created at:$`).FindAllStringSubmatch(report, -1) {
			var id int
			fmt.Sscan(m[1], &id)
			for _, g := range s.Goroutines {
				if g.ID == id {
					rs.Gors = append(rs.Gors, RaceGor{ID: id, Finished: m[2] == "finished", Frames: raceFrames(g.CreatedBy.Calls)})
					break
				}
			}
		}
		got := rs.Print(false)
		want := reRaceOff.ReplaceAllString(report, "")
		got = reRaceOff.ReplaceAllString(got, "")
		res.Eval("live-race:"+want, true)
		res.Count("live-race-reports")
		if got != want {
			res.Violation(Finding{Stream: "live-race", What: fmt.Sprintf("printing the parsed race snapshot back with the printer model does not reproduce tsan's text: got %q want %q", clip(got), clip(want)), Op: map[string]interface{}{"report": hb(report)}})
		}
	}
}
