package main

import (
	"bytes"
	"encoding/json"
	"fmt"
	"io"
	"os"
	"regexp"
	"strings"

	"github.com/maruel/panicparse/v2/stack"
	"github.com/maruel/panicparse/v2/verifhooks"
)

// CLI: the pp command's process() end to end (command-level halves of C02, C03, C15).
//
// Direct oracle (written from the property text, independent of the Lean model):
//   - process never panics and always returns;
//   - process is the documented resume protocol: its output is, call by call, what
//     ScanSnapshot forwards followed by the rendering of the snapshot it returns (the
//     console writers on the snapshot, Aggregate unless it is a race report), and finally
//     the remainder the last call hands back; it exits 0 exactly when the last call
//     reports io.EOF, otherwise it returns that call's error;
//   - on a stream of clean dumps between junk it exits 0 and the output is the input with
//     each dump replaced by the rendering of that dump scanned alone (checkProcess);
//   - a stream in which no line starts a dump is reproduced byte for byte, exit 0;
//   - with NameArguments off no argument of any returned goroutine carries a name, and
//     switching it on changes nothing but names (C15 gate);
//   - ScanSnapshot rejects exactly the invalid option sets.
//
// Correspondence: the same input and configuration through the model op `cli`
// (PP/Driver/OpsCLI.lean): output bytes and exit status/error kind, compared exactly.
// One case cannot be exact at line level: on a parse error the last bytes written are the
// offending line plus what the reader had read ahead; when the stream is larger than the
// read buffer (or is delivered in pieces) the amount read ahead depends on the delivery.
// Then the implementation's output must be the model's output minus a (possibly empty)
// part of the model's last `tail` that does not reach into its first line.

func init() { props["CLI"] = runCLI }

type cliCfg struct {
	colour bool
	sim    stack.Similarity
	pfName string
	pf     int
	filter *string
	match  *string
	gtb    string
	final  error
	sched  []int
}

func (c *cliCfg) re() (f, m *regexp.Regexp) {
	if c.filter != nil {
		f = regexp.MustCompile(regexp.QuoteMeta(*c.filter))
	}
	if c.match != nil {
		m = regexp.MustCompile(regexp.QuoteMeta(*c.match))
	}
	return
}

func (c *cliCfg) finalStr() string {
	if c.final == io.EOF {
		return "eof"
	}
	return errString(c.final)
}

func (c *cliCfg) key() string {
	s := fmt.Sprint(c.colour, int(c.sim), c.pfName, c.gtb, c.finalStr(), len(c.sched))
	if c.filter != nil {
		s += "f:" + *c.filter
	}
	if c.match != nil {
		s += "m:" + *c.match
	}
	return s
}

var cliPatterns = []string{"running", "select", "chan receive", "IO wait", "Race", "1: ", "[Created by", "minutes", "\x00nothing\x00", "", "sleep", ": "}
var cliGtb = []string{"", "single", "all", "system", "", "single", "crash", "Single"}

func genCliCfg(r *Rng, pfVal map[string]int) cliCfg {
	c := cliCfg{colour: r.Bool(), sim: stack.AnyPointer, final: io.EOF}
	if r.Bool() {
		c.sim = stack.AnyValue
	}
	c.pfName = c16PathFormats[r.Intn(3)]
	c.pf = pfVal[c.pfName]
	if r.Chance(1, 5) {
		p := r.Pick(cliPatterns)
		c.filter = &p
	}
	if r.Chance(1, 5) {
		p := r.Pick(cliPatterns)
		c.match = &p
	}
	c.gtb = r.Pick(cliGtb)
	if r.Chance(1, 10) {
		c.final = errOther{7}
	}
	return c
}

// cliRender: what processInner prints for a snapshot, through the console writers.
func cliRender(s *stack.Snapshot, c *cliCfg, pal *verifhooks.Palette) string {
	var out bytes.Buffer
	f, m := c.re()
	needsEnv := len(s.Goroutines) == 1 && showBanner()
	if s.IsRace() {
		verifhooks.WriteGoroutines(&out, pal, s, c.pf, needsEnv, f, m)
	} else {
		verifhooks.WriteBuckets(&out, pal, s.Aggregate(c.sim), c.pf, needsEnv, f, m)
	}
	return out.String()
}

type cliRef struct {
	pre       string // everything written before the final suffix
	suffix    string // the remainder of the last call (suffix ++ unread)
	suffixNil bool
	err       string // "" = exit 0
	calls     int
	snaps     int
	panicMsg  string
}

// refProcess composes the output from the public protocol: ScanSnapshot calls on what the
// previous call handed back, each followed by the rendering of its snapshot.
func refProcess(input string, c *cliCfg, pal *verifhooks.Palette) (ref cliRef) {
	defer func() {
		if p := recover(); p != nil {
			ref.panicMsg = fmt.Sprint(p)
		}
	}()
	var out strings.Builder
	in := input
	for i := 0; i < len(input)+2; i++ {
		rd := &SchedReader{data: []byte(in), final: c.final}
		var fwd bytes.Buffer
		s, suffix, err := stack.ScanSnapshot(rd, &fwd, defaultOptsNoGuess())
		ref.calls++
		out.Write(fwd.Bytes())
		if s != nil {
			ref.snaps++
			out.WriteString(cliRender(s, c, pal))
		}
		rest := string(suffix) + in[rd.pos:]
		if err == nil {
			if len(rest) >= len(in) {
				ref.panicMsg = "the resume protocol made no progress"
				return
			}
			in = rest
			continue
		}
		ref.pre = out.String()
		ref.suffix = rest
		ref.suffixNil = suffix == nil
		if err != io.EOF {
			ref.err = errString(err)
		}
		return
	}
	ref.panicMsg = "the resume protocol did not terminate"
	return
}

func firstLineOf(s string) string {
	if i := strings.IndexByte(s, '\n'); i >= 0 {
		return s[:i+1]
	}
	return s
}

type cliReply struct {
	Out     HB     `json:"out"`
	Status  string `json:"status"`
	Err     string `json:"err"`
	Calls   int    `json:"calls"`
	Snaps   int    `json:"snaps"`
	Lost    HB     `json:"lost"`
	Tail    HB     `json:"tail"`
	OutB    HB     `json:"outB"`
	StatusB string `json:"statusB"`
	ErrB    string `json:"errB"`
	ExactB  bool   `json:"exactB"`
	Error   string `json:"error"`
}

const cliBufSize = 16384

func runCLI(prop string, res *Result, pool *DrvPool, r *Rng) {
	res.Rule = "byte streams through the real process() (verifhooks.Process: DefaultOpts with path guessing off) and through the model op `cli`: (a) structured streams: junk interleaved with 0..4 clean dumps/race reports (indentation, CRLF, blank separator, terminating lines longer than the read buffer); (b) hostile streams: look-alike lines ('==================', 'WARNING: DATA RACE', header-like, file-like), 0..2 dumps/race reports in arbitrary print configurations (incl. ones that end in a parse error), lines longer than the read buffer, no trailing newline; x colour on/off x {AnyPointer, AnyValue} x 3 path formats x GOTRACEBACK in {'', single, all, system, crash, Single} x literal filter/match expressions x terminal error {EOF, injected reader failure} x delivery {one piece, random pieces}; (c) the C15 gate on every dump; (d) the option gate of ScanSnapshot on generated option sets; non-trivial = the stream contains a dump or a look-alike line; distinct by hash of (stream, configuration)"
	pfFull, pfRel, pfBase := verifhooks.PathFormats()
	pfVal := map[string]int{"full": pfFull, "rel": pfRel, "base": pfBase}
	if pfFull != 0 || pfRel != 1 || pfBase != 2 {
		res.Disagree(Finding{Stream: "CLI", What: fmt.Sprintf("path format constants are %d,%d,%d; the model assumes 0,1,2", pfFull, pfRel, pfBase)})
		return
	}
	if int(stack.ExactFlags) != 0 || int(stack.ExactLines) != 1 || int(stack.AnyPointer) != 2 || int(stack.AnyValue) != 3 {
		res.Disagree(Finding{Stream: "CLI", What: "similarity constants are not 0..3 in declaration order"})
		return
	}
	palettes := map[bool]*verifhooks.Palette{false: verifhooks.NewPalette(false), true: verifhooks.NewPalette(true)}
	palJSON := map[bool]map[string]HB{false: paletteJSON(palettes[false]), true: paletteJSON(palettes[true])}
	dopts := stack.DefaultOpts()
	goroot, gopaths := hb(dopts.LocalGOROOT), hbs(dopts.LocalGOPATHs)
	if gopaths == nil {
		gopaths = []HB{}
	}
	origGtb, hadGtb := os.LookupEnv("GOTRACEBACK")
	defer func() {
		if hadGtb {
			os.Setenv("GOTRACEBACK", origGtb)
		} else {
			os.Unsetenv("GOTRACEBACK")
		}
	}()

	samples := 0
	one := func(input string, c cliCfg, segs []segment, hasDump bool, kind string) {
		os.Setenv("GOTRACEBACK", c.gtb)
		gtb := getenv("GOTRACEBACK") // what showBanner() reads
		pal := palettes[c.colour]
		f, m := c.re()
		// ---- the implementation
		var out bytes.Buffer
		var err error
		rd := &SchedReader{data: []byte(input), sched: append([]int{}, c.sched...), final: c.final}
		p := catch(func() { err = verifhooks.Process(rd, &out, pal, c.sim, c.pf, f, m) })
		got := out.String()
		status := errString(err)
		opReq := map[string]interface{}{"op": "cli", "data": hb(input), "final": c.finalStr(), "palette": palJSON[c.colour], "lvl": int(c.sim), "pf": c.pf,
			"gotraceback": hb(gtb), "goroot": goroot, "gopaths": gopaths}
		if c.filter != nil {
			opReq["filter"] = hb(*c.filter)
		}
		if c.match != nil {
			opReq["match"] = hb(*c.match)
		}
		if len(c.sched) != 0 {
			opReq["implSched"] = c.sched // not read by the model: for replay only
		}
		nontrivial := hasDump || strings.Contains(input, "======") || strings.Contains(input, "goroutine ")
		res.Eval(input+c.key(), nontrivial)
		res.Count("kind:" + kind)
		res.Count("pf:" + c.pfName)
		if c.colour {
			res.Count("colour")
		}
		if showBanner() {
			res.Count("banner-enabled")
		}
		if c.final != io.EOF {
			res.Count("reader-failure")
		}
		if len(c.sched) != 0 {
			res.Count("delivered-in-pieces")
		}
		if len(input) > cliBufSize {
			res.Count("larger-than-buffer")
		}
		bad := func(what string, exp, g interface{}) {
			res.Violation(Finding{Stream: "cli", What: what, Op: opReq, Expected: exp, Got: g})
		}
		if p != nil {
			bad(fmt.Sprintf("process panicked: %v", p), nil, nil)
			return
		}
		// ---- direct oracle 1: the resume protocol + rendering
		ref := refProcess(input, &c, pal)
		if ref.panicMsg != "" {
			bad("reference protocol: "+ref.panicMsg, nil, nil)
			return
		}
		if status != ref.err {
			bad(fmt.Sprintf("process returned %q; the last ScanSnapshot call of the resume protocol returned %q (\"\" = io.EOF, exit 0)", status, ref.err), ref.err, status)
			return
		}
		exactWanted := !strings.HasPrefix(status, "parse:") || (len(c.sched) == 0 && len(input) <= cliBufSize)
		switch {
		case status == "":
			res.Count("exit:0")
		case strings.HasPrefix(status, "parse:"):
			res.Count("exit:" + status)
		default:
			res.Count("exit:reader")
		}
		written := ref.suffix
		if ref.suffixNil {
			written = ""
			if ref.suffix != "" {
				res.Count("nil-suffix-remainder-lost")
			}
		}
		if exactWanted {
			if got != ref.pre+written {
				bad("process output is not the concatenation of (forwarded text ++ rendering) of the successive ScanSnapshot calls followed by the last remainder", clip(ref.pre+written), clip(got))
				return
			}
		} else {
			// parse error on a large or piecewise stream: the offending line is written, then
			// whatever had been read ahead
			min := ref.pre + firstLineOf(written)
			if !strings.HasPrefix(got, min) || !strings.HasPrefix(ref.pre+written, got) {
				bad("parse error: the output must contain everything up to and including the offending line and be a prefix of (… ++ remainder)", clip(ref.pre+written), clip(got))
				return
			}
			res.Count("parse-error-readahead-dependent")
			if got != ref.pre+written {
				res.Count("parse-error-unread-input-lost")
			}
		}
		if ref.snaps > 0 {
			res.Count(fmt.Sprintf("snapshots:%d", ref.snaps))
		}
		// ---- direct oracle 2: clean dumps between junk
		if segs != nil && c.final == io.EOF {
			if status != "" {
				bad(fmt.Sprintf("a stream of clean dumps between junk ended with %q instead of exit 0", status), nil, nil)
			} else {
				var want strings.Builder
				ok := true
				for _, s := range segs {
					if !s.isDump() {
						want.WriteString(s.text)
						continue
					}
					sn, _, _ := stack.ScanSnapshot(strings.NewReader(s.text), io.Discard, defaultOptsNoGuess())
					if sn == nil {
						ok = false
						break
					}
					want.WriteString(cliRender(sn, &c, pal))
				}
				if ok && got != want.String() {
					bad("exit 0 but the output is not the input with each dump replaced by the rendering of that dump scanned alone", clip(want.String()), clip(got))
				}
				if ok {
					res.Count("dump-replaced-oracle")
				}
			}
		}
		// ---- direct oracle 3: nothing that starts a dump: identity
		if c.final == io.EOF && !strings.Contains(input, "goroutine ") && !strings.Contains(input, "==================") {
			res.Count("no-dump-identity")
			if got != input || status != "" {
				bad("a stream without any dump start was not reproduced identically with exit 0", clip(input), clip(got))
			}
		}
		// ---- correspondence
		implCalls, implSnaps := ref.calls, ref.snaps
		pool.Send(opReq, func(raw json.RawMessage) {
			res.Trace()
			var rep cliReply
			if e := json.Unmarshal(raw, &rep); e != nil || rep.Error != "" {
				res.Disagree(Finding{Stream: "CLI process", What: "model driver: " + rep.Error + fmt.Sprint(e), Op: opReq})
				return
			}
			mstatus := rep.Err
			if rep.Status != "ok" && rep.Status != "failed" {
				mstatus = "model:" + rep.Status
			}
			if mstatus != status {
				res.Disagree(Finding{Stream: "CLI process", What: fmt.Sprintf("exit status: model %q (%s), implementation %q", mstatus, rep.Status, status), Op: opReq})
				return
			}
			if rep.Calls != implCalls || rep.Snaps != implSnaps {
				res.Disagree(Finding{Stream: "CLI process", What: fmt.Sprintf("model made %d calls / %d snapshots, the resume protocol on the implementation %d / %d", rep.Calls, rep.Snaps, implCalls, implSnaps), Op: opReq})
				return
			}
			mout := rep.Out.String()
			// the byte-level run of the model (same delivery): status as at line level; on exit 0 /
			// reader failure also the same bytes (C09b); and byte for byte the implementation
			// whenever every MultiReader was modelled exactly
			if rep.StatusB != rep.Status || rep.ErrB != rep.Err {
				res.Disagree(Finding{Stream: "CLI process", What: fmt.Sprintf("model: byte-level status %q/%q differs from line-level %q/%q", rep.StatusB, rep.ErrB, rep.Status, rep.Err), Op: opReq})
				return
			}
			if !strings.HasPrefix(status, "parse:") && rep.OutB != rep.Out {
				res.Disagree(Finding{Stream: "CLI process", What: "model: byte-level and line-level outputs differ although the run did not end in a parse error", Op: opReq, Expected: clip(mout), Got: clip(rep.OutB.String())})
				return
			}
			if rep.ExactB {
				res.Count("byte-level-exact")
				if rep.OutB.String() != got {
					res.Disagree(Finding{Stream: "CLI process", What: "output bytes: byte-level model (same delivery) and implementation differ", Op: opReq, Expected: clip(got), Got: clip(rep.OutB.String())})
				}
				if exactWanted && mout != got {
					res.Disagree(Finding{Stream: "CLI process", What: "output bytes: model and implementation differ", Op: opReq, Expected: clip(got), Got: clip(mout)})
				}
				return
			}
			res.Count("byte-level-inexact-suffix-larger-than-buffer")
			if exactWanted {
				if mout != got {
					res.Disagree(Finding{Stream: "CLI process", What: "output bytes: model and implementation differ", Op: opReq, Expected: clip(got), Got: clip(mout)})
				}
				return
			}
			tail := rep.Tail.String()
			if !strings.HasSuffix(mout, tail) {
				res.Disagree(Finding{Stream: "CLI process", What: "model: the output does not end with the last suffix", Op: opReq, Expected: clip(got), Got: clip(mout)})
				return
			}
			base := mout[:len(mout)-len(tail)]
			if !strings.HasPrefix(got, base+firstLineOf(tail)) || !strings.HasPrefix(mout, got) {
				res.Disagree(Finding{Stream: "CLI process", What: "parse error on a large/piecewise stream: the implementation's output is not the model's output cut inside its last tail (after the offending line)", Op: opReq, Expected: clip(got), Got: clip(mout)})
			}
		})
		if samples < 3 && ref.snaps > 0 && len(input) < 1500 {
			samples++
			res.Sample(map[string]interface{}{"input": input, "output": got, "status": status, "config": c.key()})
		}
	}

	// K1 at command level: a lone separator line disappears from the output
	{
		c := cliCfg{sim: stack.AnyPointer, pfName: "base", pf: pfBase, final: io.EOF}
		in := "hello\n==================\nworld\n"
		var out bytes.Buffer
		os.Setenv("GOTRACEBACK", "")
		err := verifhooks.Process(strings.NewReader(in), &out, palettes[false], c.sim, c.pf, nil, nil)
		if prop == "C02" && err == nil && out.String() == "hello\nworld\n" {
			// (K1 is a finding against C02's conservation sentence; the other properties that run the
			// command end to end are not about it)
			res.KnownFinding("K1", Finding{Stream: "cli", What: "pp drops a lone '==================' line: input \"hello\\n==================\\nworld\\n\" gives \"hello\\nworld\\n\", exit 0", Op: map[string]interface{}{"input": hb(in)}})
		}
		one(in, c, nil, false, "k1-witness")
	}

	n := countN(res.Tier, 1000, 25000)
	for i := 0; i < n; i++ {
		// (a) structured
		segs := genSegments(r, r.Intn(5))
		input := joinSegs(segs)
		c := genCliCfg(r, pfVal)
		if r.Chance(1, 4) {
			c.sched = cliSched(r, len(input))
		}
		sg := segs
		if c.final != io.EOF {
			sg = nil
		}
		one(input, c, sg, len(segs) > 1, "structured")
		if i%8 == 0 {
			checkProcess(res, segs, input)
		}
		// (b) hostile
		data, hasDump := genStream(r)
		c = genCliCfg(r, pfVal)
		if r.Chance(1, 4) {
			c.sched = cliSched(r, len(data))
		}
		one(data, c, nil, hasDump, "hostile")
		// (c) the C15 gate on a dump
		if i%2 == 0 {
			cliNamesGate(res, r)
		}
	}
	// (d) the option gate
	cliOptsGate(res, pool, r)
}

// cliSched: a random delivery; streams larger than the read buffer are not delivered byte by
// byte (the byte-level model run is quadratic in that case), only in pieces around the buffer size.
func cliSched(r *Rng, n int) []int {
	for {
		s := genSched(r, n)
		if n <= 6000 || len(s) < 2000 {
			return s
		}
	}
}

func argNames(as []stack.Arg, out *[]string) {
	for i := range as {
		if as[i].IsAggregate {
			argNames(as[i].Fields.Values, out)
		} else if as[i].Name != "" {
			*out = append(*out, as[i].Name)
		}
	}
}

// cliNamesGate: Opts.NameArguments off = no argument carries a name; on = only names differ.
func cliNamesGate(res *Result, r *Rng) {
	var txt string
	if r.Chance(1, 3) {
		rs := GenRace(r)
		txt = rs.Print(false)
	} else if r.Bool() {
		txt = GenCfg(r).Dump(GenDump(r, 5, 4))
	} else {
		txt = GenCfg(r).Dump(genPtrDump(r)) // pointer values that recur
	}
	// the other options must not matter for the gate
	o := stack.Opts{}
	switch r.Intn(3) {
	case 1:
		o = stack.Opts{LocalGOROOT: goroot, LocalGOPATHs: []string{"/nonexistent/gp"}, GuessPaths: true}
	case 2:
		o = stack.Opts{LocalGOROOT: goroot, LocalGOPATHs: []string{"/nonexistent/gp"}, GuessPaths: true, AnalyzeSources: true}
	}
	oOn := o
	oOn.NameArguments = true
	off, _, _ := stack.ScanSnapshot(strings.NewReader(txt), io.Discard, &o)
	on, _, _ := stack.ScanSnapshot(strings.NewReader(txt), io.Discard, &oOn)
	res.Count("names-gate")
	if (off == nil) != (on == nil) {
		res.Violation(Finding{Stream: "cli", What: "NameArguments changes whether a snapshot is returned", Op: map[string]interface{}{"input": hb(txt)}})
		return
	}
	if off == nil {
		return
	}
	var names []string
	for _, g := range off.Goroutines {
		for _, st := range []*stack.Stack{&g.Stack, &g.CreatedBy} {
			for ci := range st.Calls {
				argNames(st.Calls[ci].Args.Values, &names)
			}
		}
	}
	if len(names) != 0 {
		res.Violation(Finding{Stream: "cli", What: fmt.Sprintf("NameArguments is off (GuessPaths=%v AnalyzeSources=%v) but arguments carry names %q", o.GuessPaths, o.AnalyzeSources, names), Op: map[string]interface{}{"input": hb(txt), "guess": o.GuessPaths, "analyze": o.AnalyzeSources}})
	}
	var onNames []string
	for _, g := range on.Goroutines {
		for ci := range g.Stack.Calls {
			argNames(g.Stack.Calls[ci].Args.Values, &onNames)
		}
	}
	if len(onNames) != 0 {
		res.Count("names-gate-named")
	}
	// Args.Processed, the typed rendering made by source analysis, shows an argument by its
	// pseudo-name when it has one: it is a rendering of (value, name), not an independent
	// field, so it is left out of the comparison (and must show no pseudo-name with naming off).
	eo, ef := eraseNames(mGs(on.Goroutines)), eraseNames(mGs(off.Goroutines))
	if o.AnalyzeSources {
		for _, gs := range [][]MG{eo, ef} {
			for gi := range gs {
				for ci := range gs[gi].Sig.Stack.Calls {
					gs[gi].Sig.Stack.Calls[ci].Args.Processed = []HB{}
				}
			}
		}
		for _, g := range off.Goroutines {
			for ci := range g.Stack.Calls {
				for _, p := range g.Stack.Calls[ci].Args.Processed {
					if rePseudoName.MatchString(p) {
						res.Violation(Finding{Stream: "cli", What: fmt.Sprintf("NameArguments is off but the typed rendering %q shows a pseudo-name", p), Op: map[string]interface{}{"input": hb(txt), "guess": o.GuessPaths, "analyze": o.AnalyzeSources}})
						return
					}
				}
			}
		}
	}
	if a, b := jsonStr(eo), jsonStr(ef); a != b {
		res.Violation(Finding{Stream: "cli", What: fmt.Sprintf("NameArguments (GuessPaths=%v AnalyzeSources=%v) changes something else than argument names: %s", o.GuessPaths, o.AnalyzeSources, firstDiff(eo, ef)), Op: map[string]interface{}{"input": hb(txt), "guess": o.GuessPaths, "analyze": o.AnalyzeSources}})
	}
}

// a pseudo-name as augmentation prints it: "#12" or "T(#12)"
var rePseudoName = regexp.MustCompile(`(^|\()#[0-9]+(\)|$)`)

// cliOptsGate: ScanSnapshot returns "invalid Opts" for exactly the invalid option sets.
func cliOptsGate(res *Result, pool *DrvPool, r *Rng) {
	paths := []string{"", "/usr/lib/go", "C:\\Go", "/home/u/go", "\\", "/a\\b", "c:/go", "/go/"}
	n := countN(res.Tier, 60, 600)
	for i := 0; i < n; i++ {
		isNil := i == 0
		o := &stack.Opts{LocalGOROOT: r.Pick(paths), NameArguments: r.Bool(), GuessPaths: r.Bool(), AnalyzeSources: r.Bool()}
		for k := r.Intn(4); k > 0; k-- {
			o.LocalGOPATHs = append(o.LocalGOPATHs, r.Pick(paths))
		}
		var err error
		var fwd bytes.Buffer
		var suffix []byte
		var s *stack.Snapshot
		in := "junk line\n"
		p := catch(func() {
			if isNil {
				s, suffix, err = stack.ScanSnapshot(strings.NewReader(in), &fwd, nil)
			} else {
				s, suffix, err = stack.ScanSnapshot(strings.NewReader(in), &fwd, o)
			}
		})
		op := map[string]interface{}{"op": "cliopts", "nil": isNil, "goroot": hb(o.LocalGOROOT), "gopaths": append([]HB{}, hbs(o.LocalGOPATHs)...),
			"names": o.NameArguments, "guess": o.GuessPaths, "analyze": o.AnalyzeSources}
		if p != nil {
			res.Violation(Finding{Stream: "cli", What: fmt.Sprintf("ScanSnapshot panicked on options: %v", p), Op: op})
			continue
		}
		rejected := err != nil && err.Error() == "invalid Opts"
		// the statement: invalid = nil, or AnalyzeSources without GuessPaths, or a backslash in a local path
		want := isNil || (o.AnalyzeSources && !o.GuessPaths) || strings.Contains(o.LocalGOROOT, "\\")
		for _, gp := range o.LocalGOPATHs {
			if strings.Contains(gp, "\\") {
				want = true
			}
		}
		res.Eval("opts"+jsonStr(op), true)
		if want {
			res.Count("opts:invalid")
		} else {
			res.Count("opts:valid")
		}
		if rejected != want {
			res.Violation(Finding{Stream: "cli", What: fmt.Sprintf("option set rejected=%v, expected %v", rejected, want), Op: op})
		}
		if rejected && (s != nil || suffix != nil || fwd.Len() != 0) {
			res.Violation(Finding{Stream: "cli", What: "rejected options but something was returned or written", Op: op})
		}
		if !rejected && (err != io.EOF || fwd.String() != in) {
			res.Violation(Finding{Stream: "cli", What: fmt.Sprintf("valid options: expected the junk line to be forwarded and io.EOF, got %v %q", err, fwd.String()), Op: op})
		}
		pool.Send(op, func(raw json.RawMessage) {
			res.Trace()
			var rep struct {
				Valid bool   `json:"valid"`
				Error string `json:"error"`
			}
			if e := json.Unmarshal(raw, &rep); e != nil || rep.Error != "" {
				res.Disagree(Finding{Stream: "CLI opts", What: "model driver: " + rep.Error + fmt.Sprint(e), Op: op})
				return
			}
			if rep.Valid == rejected {
				res.Disagree(Finding{Stream: "CLI opts", What: fmt.Sprintf("option gate: model valid=%v, implementation rejected=%v", rep.Valid, rejected), Op: op})
			}
		})
	}
}
