package main

import (
	"encoding/json"
	"fmt"
	"os"
)

// runReplay re-evaluates the op stored in a replay file on the implementation
// and on the model and prints both.
func runReplay(prop, path string, res *Result, pool *DrvPool) {
	b, err := os.ReadFile(path)
	if err != nil {
		fmt.Fprintln(os.Stderr, err)
		os.Exit(2)
	}
	var f Finding
	if err := json.Unmarshal(b, &f); err != nil {
		fmt.Fprintln(os.Stderr, err)
		os.Exit(2)
	}
	fmt.Printf("replay %s: kind=%s stream=%s\n  %s\n", path, f.Kind, f.Stream, f.What)
	if f.Op != nil {
		if m, ok := f.Op.(map[string]interface{}); ok && m["op"] != nil {
			fmt.Printf("  model says: %s\n", string(pool.Call(f.Op)))
		}
	}
}
