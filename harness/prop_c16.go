package main

import (
	"bytes"
	"encoding/json"
	"fmt"
	"io"
	"reflect"
	"regexp"
	"strconv"
	"strings"
	"unicode/utf8"

	"github.com/maruel/panicparse/v2/stack"
	"github.com/maruel/panicparse/v2/verifhooks"
)

// C16: console rendering is complete, aligned and colour-independent.

func init() { props["C16"] = runC16 }

const c16Banner = "\nTo see all goroutines, visit https://github.com/maruel/panicparse#gotraceback\n\n"

var c16Ansi = regexp.MustCompile("\x1b\\[[0-9;]*m")
var c16AnsiField = regexp.MustCompile("^(\x1b\\[[^m\x1b]*m)*$")

// paletteJSON reads the palette of the running code field by field.
func paletteJSON(p *verifhooks.Palette) map[string]HB {
	out := map[string]HB{}
	v := reflect.ValueOf(p).Elem()
	for i := 0; i < v.NumField(); i++ {
		out[v.Type().Field(i).Name] = hb(v.Field(i).String())
	}
	return out
}

// ---- reference rendering of the pieces, written from the property text ----

func refArg(a *MArg) string {
	switch {
	case a.Agg != nil:
		return "{" + refArgList(a.Agg.Values, nil, a.Agg.Elided) + "}"
	case a.Name != "":
		return a.Name.String()
	case a.Otl:
		return "_"
	case a.V < 10:
		return strconv.FormatUint(a.V, 10)
	}
	return "0x" + strconv.FormatUint(a.V, 16)
}

func refArgList(vs []MArg, processed []HB, elided bool) string {
	var parts []string
	if len(processed) != 0 {
		for _, p := range processed {
			parts = append(parts, p.String())
		}
	} else {
		for i := range vs {
			parts = append(parts, refArg(&vs[i]))
		}
	}
	if elided {
		parts = append(parts, "...")
	}
	return strings.Join(parts, ", ")
}

// refPath: full = the local path when known, else the path of the dump; rel =
// the relative path when known, else as full; base = the file name.
func refPath(pfName string, c *MCall) string {
	p := c.Src.String()
	switch pfName {
	case "full":
		p = c.Remote.String()
		if c.Local != "" {
			p = c.Local.String()
		}
	case "rel":
		p = c.Remote.String()
		if c.Local != "" {
			p = c.Local.String()
		}
		if c.Rel != "" {
			p = c.Rel.String()
		}
	}
	return p + ":" + strconv.Itoa(c.Line)
}

func refSleep(s *MSig) string {
	switch {
	case s.SMax == 0:
		return ""
	case s.SMin != s.SMax:
		return fmt.Sprintf(" [%d~%d minutes]", s.SMin, s.SMax)
	}
	return fmt.Sprintf(" [%d minutes]", s.SMax)
}

// refHeaderTail: state, sleep range, lock, creator (and the race access).
func refHeaderTail(s *MSig, pfName string, g *MG) string {
	h := ": " + s.State.String() + refSleep(s)
	if s.Locked {
		h += " [locked]"
	}
	if len(s.Created.Calls) != 0 {
		c := &s.Created.Calls[0]
		h += " [Created by " + c.Fn.DN.String() + "." + c.Fn.N.String() + " @ " + refPath(pfName, c) + "]"
	}
	if g != nil && g.RA != 0 {
		rw := "read"
		if g.RW {
			rw = "write"
		}
		hx := strconv.FormatUint(g.RA, 16)
		for len(hx) < 8 {
			hx = "0" + hx
		}
		h += " Race " + rw + " @ 0x" + hx
	}
	return h + "\n"
}

// ---- cases ----

type c16Case struct {
	gs      []MG
	src     string
	hostile bool // strings may contain newlines / escape bytes: line oriented checks are skipped
}

var c16Dirs = []string{"h\xc3\xa9llo", "日本語", "a\xffb", "trunc\xc3", "\xe2\x82", "pkg", "p", "wörld", "x\xf0\x9f\x98\x80y", "\x80\x80\x80"}
var c16Files = []string{"wörld.go", "f\xff.go", "日本.go", "a.go", "lead\xe0", "very_long_file_name_for_width.go"}

func c16Decorate(r *Rng, gs []MG, hostile bool) {
	hostileStr := []string{"a\nb", "\x1b[31mred", "  lead", "trail  ", "", "\x1b", "\x1b[", "m", "(...)", "    (...)", "x\n    (...)", "\x1b[1;35m"}
	pick := func(pool []string) HB { return hb(pool[r.Intn(len(pool))]) }
	dec := func(c *MCall) {
		if r.Chance(1, 2) {
			c.Local = hb("/local" + c.Remote.String())
		}
		if r.Chance(1, 2) {
			c.Rel = hb("rel/" + c.Src.String())
		}
		if r.Chance(1, 4) {
			c.Fn.DN = pick(c16Dirs)
		}
		if r.Chance(1, 4) {
			c.Src = pick(c16Files)
			if r.Chance(1, 3) {
				c.Rel = hb("r/" + c.Src.String())
			}
		}
		if r.Chance(1, 5) {
			n := 1 + r.Intn(3)
			c.Args.Processed = nil
			for i := 0; i < n; i++ {
				c.Args.Processed = append(c.Args.Processed, hb([]string{"ctx", "0xc000010000", "*http.Request(#1)", "\"a, b\"", "é", "string(0x1234, len=5)"}[r.Intn(6)]))
			}
		}
		if r.Chance(1, 6) {
			for i := range c.Args.Values {
				if c.Args.Values[i].Agg == nil && c.Args.Values[i].Ptr {
					c.Args.Values[i].Name = hb([]string{"#1", "#22", "*"}[r.Intn(3)])
				}
			}
		}
		if r.Chance(1, 10) {
			c.Loc = r.Intn(5)
		}
		// columns much wider than the others (more than any fixed-size padding buffer)
		if r.Chance(1, 10) {
			c.Fn.DN = hb(strings.Repeat("p", 65+r.Intn(200)))
		}
		if r.Chance(1, 10) {
			long := "/very/long/" + strings.Repeat("dir/", 20+r.Intn(40)) + "f.go"
			c.Local, c.Remote = hb(long), hb(long)
		}
		// per cent signs: text that must never be taken for a format
		if r.Chance(1, 6) {
			pc := []string{"100%done", "%s", "%d", "%!", "%%", "50%", "%v%v"}[r.Intn(7)]
			switch r.Intn(4) {
			case 0:
				c.Local, c.Remote = hb("/srv/builds/"+pc+"/x.go"), hb("/srv/builds/"+pc+"/x.go")
				c.Src = hb(pc + ".go")
			case 1:
				c.Fn.N = hb("f" + pc)
			case 2:
				c.Fn.DN = hb(pc)
			default:
				c.Rel = hb(pc + "/x.go")
			}
		}
		if hostile && r.Chance(1, 3) {
			switch r.Intn(5) {
			case 0:
				c.Fn.DN = pick(hostileStr)
			case 1:
				c.Src = pick(hostileStr)
			case 2:
				c.Fn.N = pick(hostileStr)
			case 3:
				c.Args.Processed = []HB{pick(hostileStr)}
			case 4:
				c.Remote, c.Local, c.Rel = pick(hostileStr), pick(hostileStr), pick(hostileStr)
			}
		}
	}
	for gi := range gs {
		s := &gs[gi].Sig
		for ci := range s.Stack.Calls {
			dec(&s.Stack.Calls[ci])
		}
		for ci := range s.Created.Calls {
			dec(&s.Created.Calls[ci])
		}
		if r.Chance(1, 4) {
			s.SMin, s.SMax = r.Intn(40), r.Intn(40)
		}
		if hostile && r.Chance(1, 4) {
			s.State = pick(hostileStr)
		}
	}
}

func genC16Cases(r *Rng, tier string, emit func(c16Case)) {
	n := countN(tier, 150, 6000)
	for i := 0; i < n; i++ {
		switch k := r.Intn(10); {
		case k < 3: // parsed dump
			txt := GenCfg(r).Dump(GenDump(r, 6, 4))
			s, _, _ := stack.ScanSnapshot(strings.NewReader(txt), io.Discard, &stack.Opts{NameArguments: true})
			if s != nil && len(s.Goroutines) != 0 {
				emit(c16Case{gs: mGs(s.Goroutines), src: "parsed-dump"})
			}
		case k < 5: // parsed race report
			rs := GenRace(r)
			s, _, _ := stack.ScanSnapshot(strings.NewReader(rs.Print(r.Chance(1, 4))), io.Discard, &stack.Opts{NameArguments: true})
			if s != nil && len(s.Goroutines) != 0 {
				emit(c16Case{gs: mGs(s.Goroutines), src: "parsed-race"})
			}
		case k < 8: // constructed, with local/rel paths, processed args, non-ASCII and invalid UTF-8 names
			gs := GenSnapshot(r, 8)
			c16Decorate(r, gs, false)
			if r.Chance(1, 3) {
				for gi := range gs {
					gs[gi].RA = []uint64{0x1f, 0xc000012345, 0xdeadbeef, ^uint64(0)}[r.Intn(4)]
					gs[gi].RW = r.Bool()
				}
			}
			emit(c16Case{gs: gs, src: "constructed"})
		case k < 9:
			gs := GenSnapshot(r, 5)
			c16Decorate(r, gs, true)
			emit(c16Case{gs: gs, src: "hostile", hostile: true})
		default: // degenerate shapes
			gs := GenSnapshot(r, 3)
			for gi := range gs {
				if r.Bool() {
					gs[gi].Sig.Stack.Calls = []MCall{}
					gs[gi].Sig.Stack.Elided = r.Bool()
				}
			}
			emit(c16Case{gs: gs, src: "degenerate"})
		}
	}
	// one width beyond what fmt accepts for a `*` width (10^6)
	gs := GenSnapshot(r, 2)
	if len(gs[0].Sig.Stack.Calls) > 0 {
		gs[0].Sig.Stack.Calls[0].Fn.DN = hb(strings.Repeat("d", 1000001))
		emit(c16Case{gs: gs, src: "badwidth", hostile: true})
	}
}

var c16PathFormats = []string{"full", "rel", "base"}

func c16HasByte(gs []MG, b string) bool { return strings.Contains(gsText(gs), b) }

// gsText: all strings of a snapshot that can reach the output.
func gsText(gs []MG) string {
	var sb strings.Builder
	var args func(vs []MArg)
	args = func(vs []MArg) {
		for i := range vs {
			if vs[i].Agg != nil {
				args(vs[i].Agg.Values)
			} else {
				sb.WriteString(vs[i].Name.String())
			}
		}
	}
	for gi := range gs {
		s := &gs[gi].Sig
		sb.WriteString(s.State.String())
		for _, st := range []*MStack{&s.Stack, &s.Created} {
			for ci := range st.Calls {
				c := &st.Calls[ci]
				for _, x := range []HB{c.Fn.DN, c.Fn.N, c.Remote, c.Local, c.Rel, c.Src} {
					sb.WriteString(x.String())
					sb.WriteByte(0)
				}
				for _, p := range c.Args.Processed {
					sb.WriteString(p.String())
				}
				args(c.Args.Values)
			}
		}
	}
	return sb.String()
}

// c16Block is one unit of the output: who it is about and how many lines it has.
type c16Block struct {
	count int // member count or goroutine id
	sig   *MSig
	g     *MG
}

// checkRender evaluates the statement on uncoloured unfiltered output `off`
// made of the given blocks. It returns the exact text of each block.
func checkRender(off string, blocks []c16Block, pfName string, bad func(string)) []string {
	if !strings.HasSuffix(off, "\n") && len(blocks) != 0 {
		bad("output does not end with a newline")
		return nil
	}
	lines := strings.Split(off, "\n")
	lines = lines[:len(lines)-1]
	pos := 0
	fileCol, funcCol := -1, -1
	var texts []string
	for bi := range blocks {
		b := &blocks[bi]
		need := 1 + len(b.sig.Stack.Calls)
		if b.sig.Stack.Elided {
			need++
		}
		if len(b.sig.Stack.Calls) == 0 && !b.sig.Stack.Elided {
			need++ // strings.Join of nothing still gets its newline: an empty line
		}
		if pos+need > len(lines) {
			bad(fmt.Sprintf("block %d: output has too few lines", bi))
			return nil
		}
		blk := lines[pos : pos+need]
		texts = append(texts, strings.Join(blk, "\n")+"\n")
		pos += need
		if want := strconv.Itoa(b.count) + refHeaderTail(b.sig, pfName, b.g); blk[0]+"\n" != want {
			bad(fmt.Sprintf("block %d: header %q, want %q", bi, blk[0], want))
		}
		for ci := range b.sig.Stack.Calls {
			c := &b.sig.Stack.Calls[ci]
			ln := blk[1+ci]
			dir, file := c.Fn.DN.String(), refPath(pfName, c)
			tail := c.Fn.N.String() + "(" + refArgList(c.Args.Values, c.Args.Processed, c.Args.Elided) + ")"
			if !strings.HasPrefix(ln, "    "+dir+" ") {
				bad(fmt.Sprintf("block %d line %d: %q does not start with 4 spaces and the package %q", bi, ci, ln, dir))
				continue
			}
			if !strings.HasSuffix(ln, " "+tail) {
				bad(fmt.Sprintf("block %d line %d: %q does not end with %q", bi, ci, ln, tail))
				continue
			}
			if fileCol < 0 {
				// first call line of the output fixes the columns
				rest := ln[4+len(dir):]
				// spaces after the package: padding, the separator, and any spaces the file text itself starts with
				k := len(rest) - len(strings.TrimLeft(rest, " ")) - (len(file) - len(strings.TrimLeft(file, " ")))
				fileCol = 4 + utf8.RuneCountInString(dir) + k
				mid := ln[:len(ln)-len(tail)]
				funcCol = utf8.RuneCountInString(mid)
			}
			p1 := fileCol - 4 - utf8.RuneCountInString(dir)
			p2 := funcCol - fileCol - utf8.RuneCountInString(file)
			if p1 < 1 || p2 < 1 {
				bad(fmt.Sprintf("block %d line %d: columns %d/%d fixed by the first line leave no room for %q %q", bi, ci, fileCol, funcCol, dir, file))
				continue
			}
			if want := "    " + dir + strings.Repeat(" ", p1) + file + strings.Repeat(" ", p2) + tail; ln != want {
				bad(fmt.Sprintf("block %d line %d: %q, want %q (file column %d, function column %d)", bi, ci, ln, want, fileCol, funcCol))
			}
		}
		marker := blk[len(blk)-1] == "    (...)" && len(blk) == 2+len(b.sig.Stack.Calls)
		if marker != b.sig.Stack.Elided {
			bad(fmt.Sprintf("block %d: elided=%v but marker line present=%v", bi, b.sig.Stack.Elided, marker))
		}
	}
	if pos != len(lines) {
		bad(fmt.Sprintf("output has %d lines beyond the %d blocks", len(lines)-pos, len(blocks)))
	}
	return texts
}

type c16Reply struct {
	Out     HB     `json:"out"`
	SrcLen  int    `json:"srcLen"`
	PkgLen  int    `json:"pkgLen"`
	Headers []HB   `json:"headers"`
	Stacks  []HB   `json:"stacks"`
	Error   string `json:"error"`
}

// c16Patterns draws literal patterns from the headers: inside one header, one
// that matches nothing, one that matches everything.
func c16Patterns(r *Rng, headers []string) []string {
	pats := []string{"", "\x00no such header\x00"}
	for try := 0; try < 8 && len(pats) < 5 && len(headers) > 0; try++ {
		h := headers[r.Intn(len(headers))]
		if len(h) == 0 {
			continue
		}
		i := r.Intn(len(h))
		j := i + 1 + r.Intn(min(12, len(h)-i))
		sub := h[i:j]
		if !utf8.ValidString(sub) || strings.ContainsRune(sub, utf8.RuneError) {
			continue
		}
		pats = append(pats, sub)
	}
	return pats
}

func runC16(prop string, res *Result, pool *DrvPool, r *Rng) {
	// the command: every snapshot a scan returns - also one returned together with an error - is
	// rendered exactly once (process() end to end, byte-exact against its model)
	defer func() {
		rule := res.Rule
		runCLI(prop, res, pool, r.Fork())
		res.Rule = rule + " | command level: " + res.Rule
	}()
	res.Rule = "snapshots parsed from generated dumps and race reports (names on) or constructed (local/rel paths, processed args, non-ASCII and invalid UTF-8 package/file names, sleep ranges, race addresses; a hostile stream with newlines, escape bytes and spaces in names; empty stacks; one width > 10^6) x 3 path formats x colour on/off x {AnyPointer, AnyValue} x banner x literal filter/match expressions cut from real headers (plus match-all and match-nothing), through writeBucketsToConsole and writeGoroutinesToConsole; non-trivial = at least 2 blocks or a call line; distinct by hash of (snapshot, view, path format, similarity)"
	pfFull, pfRel, pfBase := verifhooks.PathFormats()
	pfVal := map[string]int{"full": pfFull, "rel": pfRel, "base": pfBase}
	if pfFull != 0 || pfRel != 1 || pfBase != 2 {
		res.Disagree(Finding{Stream: "S16 console", What: fmt.Sprintf("path format constants are %d,%d,%d; the model assumes 0,1,2", pfFull, pfRel, pfBase)})
		return
	}
	palettes := map[bool]*verifhooks.Palette{false: verifhooks.NewPalette(false), true: verifhooks.NewPalette(true)}
	palJSON := map[bool]map[string]HB{false: paletteJSON(palettes[false]), true: paletteJSON(palettes[true])}
	for k, v := range palJSON[false] {
		if v != "" {
			res.Violation(Finding{Stream: "console", What: "the no-colour palette has a non-empty field " + k})
		}
	}
	// the hypothesis of the colour theorem: every field of the colour palette is
	// a concatenation of ESC [ ... m sequences
	for k, v := range palJSON[true] {
		if !c16AnsiField.MatchString(v.String()) {
			res.Violation(Finding{Stream: "console", What: fmt.Sprintf("palette field %s = %q is not a concatenation of ESC [ ... m sequences", k, v.String())})
		}
		if v != "" {
			res.Count("palette-coloured-fields")
		}
	}
	samples := 0
	genC16Cases(r, res.Tier, func(c c16Case) {
		res.Count("src:" + c.src)
		newline := c16HasByte(c.gs, "\n")
		esc := c16HasByte(c.gs, "\x1b")
		big := c.src == "badwidth"
		sims := []stack.Similarity{stack.AnyPointer, stack.AnyValue}
		for _, view := range []string{"buckets", "goroutines"} {
			for si, sim := range sims {
				if (view == "goroutines" || big) && si > 0 {
					continue
				}
				snap := snapshotOf(c.gs)
				var agg *stack.Aggregated
				var mbs []MBucket
				if view == "buckets" {
					if p := catch(func() { agg = snap.Aggregate(sim) }); p != nil {
						res.Count("aggregate-panic-skipped")
						continue
					}
					mbs = mBuckets(agg.Buckets)
				}
				for _, pfName := range c16PathFormats {
					if big && pfName != "base" {
						continue
					}
					pf := pfVal[pfName]
					needsEnv := r.Chance(1, 4)
					write := func(colour bool, filter, match *regexp.Regexp) string {
						var buf bytes.Buffer
						var err error
						if view == "buckets" {
							err = verifhooks.WriteBuckets(&buf, palettes[colour], agg, pf, needsEnv, filter, match)
						} else {
							err = verifhooks.WriteGoroutines(&buf, palettes[colour], snap, pf, needsEnv, filter, match)
						}
						if err != nil {
							res.Violation(Finding{Stream: "console", What: "writer returned an error: " + err.Error()})
						}
						return buf.String()
					}
					opOf := func(colour bool, filter, match *string) map[string]interface{} {
						op := map[string]interface{}{"op": "console", "kind": view, "palette": palJSON[colour], "pf": pf, "needsEnv": needsEnv}
						if view == "buckets" {
							op["buckets"] = mbs
						} else {
							op["gs"] = c.gs
						}
						if filter != nil {
							op["filter"] = hb(*filter)
						}
						if match != nil {
							op["match"] = hb(*match)
						}
						return op
					}
					var blocks []c16Block
					if view == "buckets" {
						for i := range mbs {
							blocks = append(blocks, c16Block{count: len(mbs[i].IDs), sig: &mbs[i].Sig})
						}
					} else {
						for i := range c.gs {
							blocks = append(blocks, c16Block{count: c.gs[i].ID, sig: &c.gs[i].Sig, g: &c.gs[i]})
						}
					}
					ncalls := 0
					for _, b := range blocks {
						ncalls += len(b.sig.Stack.Calls)
					}
					key := jsonStr(c.gs) + view + pfName + fmt.Sprint(si)
					res.Eval(key, len(blocks) > 1 || ncalls > 0)
					res.Count("view:" + view)
					res.Count("pf:" + pfName)
					if needsEnv {
						res.Count("banner")
					}

					off := write(false, nil, nil)
					on := write(true, nil, nil)
					baseOp := opOf(false, nil, nil)
					bad := func(what string) {
						res.Violation(Finding{Stream: "console", What: what, Op: baseOp, Got: off})
					}
					body := off
					if needsEnv {
						if !strings.HasPrefix(off, c16Banner) {
							bad("banner missing")
						}
						body = strings.TrimPrefix(off, c16Banner)
					}
					// (a) every block once and in order, header fields, aligned columns, elision marker
					var texts []string
					if !newline && !big {
						texts = checkRender(body, blocks, pfName, bad)
						res.Count("line-oracle")
					}
					if big {
						// fmt rejects a `*` width above 10^6: the text "%!(BADWIDTH)" appears and the columns are lost
						if strings.Contains(off, "%!(BADWIDTH)") {
							res.Count("badwidth-text-in-output")
							res.Extra["badwidth"] = "a package directory name of 1000001 bytes makes every call line carry %!(BADWIDTH) instead of padding"
						}
						c16Correspond(res, pool, baseOp, off, -1, -1, nil, nil)
						continue
					}
					// hook-level pieces (used for block boundaries when names contain newlines)
					var srcLen, pkgLen int
					if view == "buckets" {
						srcLen, pkgLen = verifhooks.CalcBucketsLengths(agg, pf)
					} else {
						srcLen, pkgLen = verifhooks.CalcGoroutinesLengths(snap, pf)
					}
					hookHeaders := map[bool][]string{}
					hookStacks := map[bool][]string{}
					for _, colour := range []bool{false, true} {
						for i := range blocks {
							var h, s string
							if view == "buckets" {
								h = verifhooks.BucketHeader(palettes[colour], agg.Buckets[i], pf, len(blocks) > 1)
								s = verifhooks.StackLines(palettes[colour], &agg.Buckets[i].Signature, srcLen, pkgLen, pf)
							} else {
								h = verifhooks.GoroutineHeader(palettes[colour], snap.Goroutines[i], pf, len(blocks) > 1)
								s = verifhooks.StackLines(palettes[colour], &snap.Goroutines[i].Signature, srcLen, pkgLen, pf)
							}
							hookHeaders[colour] = append(hookHeaders[colour], h)
							hookStacks[colour] = append(hookStacks[colour], s)
						}
					}
					if texts != nil {
						for i := range texts {
							if i < len(blocks) && texts[i] != hookHeaders[false][i]+hookStacks[false][i] {
								bad(fmt.Sprintf("block %d of the output is not BucketHeader+StackLines of its element", i))
							}
						}
					}
					// (b) colour never changes the text
					if !esc {
						if got := c16Ansi.ReplaceAllString(on, ""); got != off {
							res.Violation(Finding{Stream: "console", What: "coloured output without its escape sequences differs from the uncoloured output", Op: opOf(true, nil, nil), Expected: off, Got: got})
						}
						res.Count("strip-oracle")
					}
					if len(blocks) > 0 && ncalls > 0 && on == off {
						res.Violation(Finding{Stream: "console", What: "colour on produced no escape sequence", Op: opOf(true, nil, nil)})
					}
					// (c) filter-out and match-only split the blocks exactly in two
					for _, colour := range []bool{false, true} {
						all := off
						if colour {
							all = on
						}
						pats := c16Patterns(r, hookHeaders[colour])
						for pi, pat := range pats {
							pat := pat
							re, err := regexp.Compile(regexp.QuoteMeta(pat))
							if err != nil {
								continue
							}
							outF := write(colour, re, nil)
							outM := write(colour, nil, re)
							wantF, wantM := "", ""
							if needsEnv {
								wantF, wantM = c16Banner, c16Banner
							}
							nF, nM := 0, 0
							for i := range blocks {
								blk := hookHeaders[colour][i] + hookStacks[colour][i]
								if !colour && texts != nil {
									blk = texts[i]
								}
								if re.MatchString(hookHeaders[colour][i]) {
									wantM += blk
									nM++
								} else {
									wantF += blk
									nF++
								}
							}
							if outF != wantF || outM != wantM {
								res.Violation(Finding{Stream: "console", What: fmt.Sprintf("filter-out and match-only of %q do not split the %d unfiltered blocks in two", pat, len(blocks)),
									Op: opOf(colour, &pat, nil), Expected: []string{wantF, wantM}, Got: []string{outF, outM}})
							}
							bl := 0
							if needsEnv {
								bl = len(c16Banner)
							}
							if len(outF)+len(outM)-2*bl != len(all)-bl {
								res.Violation(Finding{Stream: "console", What: fmt.Sprintf("filter-out and match-only of %q do not add up to the unfiltered output", pat), Op: opOf(colour, &pat, nil)})
							}
							switch {
							case nM == 0:
								res.Count("split:none-match")
							case nF == 0:
								res.Count("split:all-match")
							default:
								res.Count("split:proper")
							}
							// correspondence of the filtered outputs (a sample of them)
							if pi == 2 || r.Chance(1, 4) {
								c16Correspond(res, pool, opOf(colour, &pat, nil), outF, -1, -1, nil, nil)
								c16Correspond(res, pool, opOf(colour, nil, &pat), outM, -1, -1, nil, nil)
							}
							if colour && pi >= 2 && strings.Contains(pat, "\x1b") {
								res.Count("pattern-with-escape")
							}
						}
						// both at once: filter wins, then match
						if len(pats) > 2 && r.Chance(1, 2) {
							f, m := pats[len(pats)-1], pats[2]
							ref, rem := regexp.MustCompile(regexp.QuoteMeta(f)), regexp.MustCompile(regexp.QuoteMeta(m))
							c16Correspond(res, pool, opOf(colour, &f, &m), write(colour, ref, rem), -1, -1, nil, nil)
						}
					}
					// correspondence of the unfiltered outputs and of the pieces
					c16Correspond(res, pool, baseOp, off, srcLen, pkgLen, hookHeaders[false], hookStacks[false])
					c16Correspond(res, pool, opOf(true, nil, nil), on, srcLen, pkgLen, hookHeaders[true], hookStacks[true])
					if utf8.RuneCountInString(body) != len(body) {
						res.Count("non-ascii-output")
					}
					if !utf8.ValidString(body) {
						res.Count("invalid-utf8-output")
					}
					if samples < 3 && len(blocks) > 1 && !c.hostile {
						samples++
						res.Sample(map[string]interface{}{"view": view, "pf": pfName, "output": c16Clip(off), "coloured": c16Clip(on)})
					}
				}
			}
		}
	})
}

func c16Correspond(res *Result, pool *DrvPool, op map[string]interface{}, want string, srcLen, pkgLen int, headers, stacks []string) {
	pool.Send(op, func(raw json.RawMessage) {
		res.Trace()
		var rep c16Reply
		if err := json.Unmarshal(raw, &rep); err != nil || rep.Error != "" {
			res.Disagree(Finding{Stream: "S16 console", What: "model driver: " + rep.Error + fmt.Sprint(err), Op: op})
			return
		}
		if got := rep.Out.String(); got != want {
			res.Disagree(Finding{Stream: "S16 console", What: "console output: model and implementation differ", Op: op, Expected: want, Got: got})
			return
		}
		if srcLen >= 0 && (rep.SrcLen != srcLen || rep.PkgLen != pkgLen) {
			res.Disagree(Finding{Stream: "S16 console", What: fmt.Sprintf("calcLengths: model (%d,%d), implementation (%d,%d)", rep.SrcLen, rep.PkgLen, srcLen, pkgLen), Op: op})
		}
		if headers != nil {
			for i := range headers {
				if i >= len(rep.Headers) || rep.Headers[i].String() != headers[i] {
					res.Disagree(Finding{Stream: "S16 console", What: fmt.Sprintf("header %d: model and implementation differ", i), Op: op, Expected: headers[i]})
					break
				}
				if rep.Stacks[i].String() != stacks[i] {
					res.Disagree(Finding{Stream: "S16 console", What: fmt.Sprintf("StackLines %d: model and implementation differ", i), Op: op, Expected: stacks[i], Got: rep.Stacks[i].String()})
					break
				}
			}
		}
	})
}

func c16Clip(s string) string {
	if len(s) > 1500 {
		return s[:1500] + "…"
	}
	return s
}
