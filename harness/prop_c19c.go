package main

import (
	"encoding/json"
	"fmt"
	"go/ast"
	"go/parser"
	"go/token"
	"strings"

	"github.com/maruel/panicparse/v2/stack"
)

// C19, stream (e): the type names augmentCall switches on are the ones
// extractArgumentsType computes from the declaration.
//
// Random Go function declarations are generated as source text. The
// implementation side is stack.VerifExtractTypes(src, name, line). The model
// side is the op `typenames` (PP/Model/TypeNames.lean) fed with the
// *ast.FuncDecl that go/parser builds here, converted by exprJSON/fieldsJSON
// (a plain type switch: the only trusted new piece).
//
// Direct oracle, written from the Go spelling of the generated declaration
// (the generator knows what it wrote; neither the model nor the AST is used):
//   - one name per parameter name (one for an unnamed parameter), preceded by
//     the receiver iff it is a single pointer receiver;
//   - the ellipsis flag is set iff the last parameter is variadic;
//   - no type name with the flag set never happens;
//   - a parameter of a kind C19 lists gets the name augmentCall switches on
//     (exact name for scalars and for composite types spelled with plain
//     identifiers; the right prefix otherwise), and a parameter of another
//     kind (array, struct, interface, named, generic) does not get one;
//   - parentheses around a receiver or parameter type (or inside it) change
//     nothing: `(t (*T))` is a pointer receiver, `(int16)` is `int16`.

func init() { props["C19C"] = runC19c } // stand-alone entry; C19 chains it as stream (e)

// ---------------------------------------------------------------------------
// AST -> JSON (trusted)

func exprJSON(e ast.Expr) interface{} {
	if e == nil {
		return nil
	}
	switch t := e.(type) {
	case *ast.Ident:
		return map[string]interface{}{"k": "ident", "name": hb(t.Name)}
	case *ast.SelectorExpr:
		return map[string]interface{}{"k": "selector", "x": exprJSON(t.X), "sel": hb(t.Sel.Name)}
	case *ast.StarExpr:
		return map[string]interface{}{"k": "star", "x": exprJSON(t.X)}
	case *ast.BasicLit:
		return map[string]interface{}{"k": "basiclit", "value": hb(t.Value)}
	case *ast.Ellipsis:
		return map[string]interface{}{"k": "ellipsis", "elt": exprJSON(t.Elt)}
	case *ast.ArrayType:
		return map[string]interface{}{"k": "array", "len": exprJSON(t.Len), "elt": exprJSON(t.Elt)}
	case *ast.FuncType:
		return map[string]interface{}{"k": "func"}
	case *ast.InterfaceType:
		return map[string]interface{}{"k": "interface"}
	case *ast.MapType:
		return map[string]interface{}{"k": "map", "key": exprJSON(t.Key), "value": exprJSON(t.Value)}
	case *ast.ChanType:
		return map[string]interface{}{"k": "chan", "value": exprJSON(t.Value)}
	case *ast.ParenExpr:
		return map[string]interface{}{"k": "paren", "x": exprJSON(t.X)}
	default:
		return map[string]interface{}{"k": "other"}
	}
}

func fieldsJSON(l []*ast.Field) []interface{} {
	out := []interface{}{}
	for _, f := range l {
		out = append(out, map[string]interface{}{"names": len(f.Names), "type": exprJSON(f.Type)})
	}
	return out
}

func declJSON(d *ast.FuncDecl) map[string]interface{} {
	op := map[string]interface{}{"op": "typenames", "recv": nil, "params": fieldsJSON(d.Type.Params.List)}
	if d.Recv != nil {
		op["recv"] = fieldsJSON(d.Recv.List)
	}
	return op
}

// declAtLine is the top-level function declaration that starts on an earlier
// line and whose text covers the line.
func declAtLine(fset *token.FileSet, f *ast.File, line int) *ast.FuncDecl {
	for _, d := range f.Decls {
		if fd, ok := d.(*ast.FuncDecl); ok {
			if fset.Position(fd.Pos()).Line < line && line <= fset.Position(fd.End()).Line {
				return fd
			}
		}
	}
	return nil
}

// ---------------------------------------------------------------------------
// what augmentCall switches on (stack/source.go, `switch t` and its default)

func augClass(t string) string {
	switch t {
	case "float32", "float64", "int", "int8", "int16", "int64", "bool", "string":
		return t
	case "int32", "rune":
		return "int32"
	case "uint", "uint8", "uint16", "uint32", "uint64", "uintptr", "byte":
		return "uint"
	}
	switch {
	case strings.HasPrefix(t, "*"):
		return "*"
	case strings.HasPrefix(t, "map["), strings.HasPrefix(t, "chan "), t == "func":
		return "single"
	case strings.HasPrefix(t, "[]"):
		return "[]"
	}
	return "other"
}

// ---------------------------------------------------------------------------
// generator of type spellings

type tyGen struct {
	Src   string // Go spelling
	Kind  string // scalar, ptr, slice, map, chan, func | array, struct, interface, named, qualified, generic, paren
	Class string // class augmentCall must put the name in; "" = no claim
	Exact string // exact expected name; "" = no claim
	Ident bool   // the spelling, parentheses aside, is a plain identifier
	Canon string // the spelling without the parentheses gofmt would remove
	Paren bool   // parenthesised at top level
}

var (
	c19Scalars = []string{"bool", "int", "int8", "int16", "int32", "int64", "uint", "uint8", "uint16", "uint32", "uint64",
		"uintptr", "byte", "rune", "float32", "float64", "string"}
	c19Named   = []string{"T", "S", "error", "any", "complex128", "Duration", "int128", "Int", "strings", "func_", "chanT", "mapT"}
	c19Quals   = []string{"pkg.T", "time.Duration", "pkg.Int", "a.B"}
	c19Arrays  = []string{"[4]", "[N]", "[2+2]", "[len(x)]", "[pkg.N]", "[0]", "[0x10]", "['a']"}
	c19Funcs   = []string{"func()", "func(int) error", "func(a, b int) (int, error)", "func(...int)", "func(func(int)) func()", "func(*T) []int"}
	c19Ifaces  = []string{"interface{}", "interface{ M() }", "interface{ ~int | ~string }", "interface{ error; N(int) string }"}
	c19Structs = []string{"struct{}", "struct{ a int }", "struct{ T; b []int }", "struct{ a, b *T `json:\"x\"` }"}
	c19Gens    = []string{"G[int]", "G[int, string]", "pkg.G[T]", "G[[]int]", "G[*T]", "*G[int]"}
	c19Names   = []string{"a", "b", "c", "x", "y", "ctx", "n", "s", "err"}
)

// genType draws a type spelling with what the oracle claims about its name.
func genType(r *Rng, depth int) tyGen {
	simple := func() tyGen {
		if r.Chance(3, 4) {
			s := c19Scalars[r.Intn(len(c19Scalars))]
			return tyGen{Src: s, Kind: "scalar", Class: augClass(s), Exact: s, Ident: true, Canon: s}
		}
		s := c19Named[r.Intn(len(c19Named))]
		return tyGen{Src: s, Kind: "named", Class: "other", Exact: s, Ident: true, Canon: s}
	}
	if depth >= 3 {
		return simple()
	}
	inner := func() tyGen {
		if r.Chance(3, 5) {
			return simple()
		}
		return genType(r, depth+1)
	}
	// Exact names are written from the spelling with the parentheses gofmt
	// would remove dropped (Canon): `*(T)` is `*T`, `[](*T)` is `[]*T`.
	switch r.Intn(22) {
	case 0, 1, 2, 3, 4:
		return simple()
	case 5, 6:
		in := inner()
		t := tyGen{Src: "*" + in.Src, Canon: "*" + in.Canon, Kind: "ptr", Class: "*"}
		if in.Ident {
			t.Exact = t.Canon
		}
		return t
	case 7, 8:
		in := inner()
		t := tyGen{Src: "[]" + in.Src, Canon: "[]" + in.Canon, Kind: "slice", Class: "[]"}
		if in.Ident || (in.Kind == "ptr" && in.Exact != "") {
			t.Exact = t.Canon // []T, []*T
		}
		return t
	case 9:
		in := inner()
		a := c19Arrays[r.Intn(len(c19Arrays))]
		return tyGen{Src: a + in.Src, Canon: a + in.Canon, Kind: "array", Class: "other"}
	case 10, 11:
		k, v := inner(), inner()
		t := tyGen{Src: "map[" + k.Src + "]" + v.Src, Canon: "map[" + k.Canon + "]" + v.Canon, Kind: "map", Class: "single"}
		if k.Ident && v.Ident {
			t.Exact = t.Canon
		}
		return t
	case 12, 13:
		in := inner()
		dir := []string{"chan ", "<-chan ", "chan<- "}[r.Intn(3)]
		src, canon := in.Src, in.Canon
		if strings.HasPrefix(canon, "<-") {
			// these parentheses are needed: `chan (<-chan int)`
			canon = "(" + canon + ")"
			if !strings.HasPrefix(src, "(") {
				src = "(" + src + ")"
			}
		}
		t := tyGen{Src: dir + src, Canon: dir + canon, Kind: "chan", Class: "single"}
		if in.Ident {
			t.Exact = "chan " + in.Canon
		}
		return t
	case 14:
		s := c19Funcs[r.Intn(len(c19Funcs))]
		return tyGen{Src: s, Canon: s, Kind: "func", Class: "single", Exact: "func"}
	case 15:
		s := c19Ifaces[r.Intn(len(c19Ifaces))]
		return tyGen{Src: s, Canon: s, Kind: "interface", Class: "other"}
	case 16:
		s := c19Structs[r.Intn(len(c19Structs))]
		return tyGen{Src: s, Canon: s, Kind: "struct", Class: "other"}
	case 17:
		s := c19Quals[r.Intn(len(c19Quals))]
		return tyGen{Src: s, Canon: s, Kind: "qualified", Class: "other"}
	case 18:
		s := c19Gens[r.Intn(len(c19Gens))]
		if strings.HasPrefix(s, "*") {
			return tyGen{Src: s, Canon: s, Kind: "ptr", Class: "*"}
		}
		return tyGen{Src: s, Canon: s, Kind: "generic", Class: "other"}
	default:
		// a parenthesised type is the type: `(int16)`, `(*T)`, `([]byte)`,
		// `((int))`. Every claim about the inner type carries over.
		t := inner()
		t.Src = "(" + t.Src + ")"
		if r.Chance(1, 3) {
			t.Src = "(" + t.Src + ")"
		}
		t.Paren = true
		return t
	}
}

// ---------------------------------------------------------------------------
// generator of declarations

type c19cParam struct {
	Names    int // 0 = unnamed
	T        tyGen
	Variadic bool
}

type c19cCase struct {
	Src      string
	Name     string
	Line     int
	RecvSrc  string
	RecvUsed int    // number of names the receiver contributes (0 = not used)
	RecvName string // exact name expected for the receiver, "" = only the `*` prefix
	Params   []c19cParam
	Valid    bool // the generator believes go/parser accepts it
}

var c19cRecvs = []struct {
	src   string
	used  int // names contributed
	exact string
}{
	{"", 0, ""},
	{"(t T) ", 0, ""}, {"(T) ", 0, ""}, {"(_ T) ", 0, ""}, {"(t pkg.T) ", 0, ""}, {"(t G[K]) ", 0, ""}, {"(t G[K, V]) ", 0, ""},
	{"(t []int) ", 0, ""}, {"(t map[string]int) ", 0, ""}, {"(t func()) ", 0, ""},
	{"(t *T) ", 1, "*T"}, {"(*T) ", 1, "*T"}, {"(_ *T) ", 1, "*T"}, {"(t *pkg.T) ", 1, ""}, {"(t *G[K]) ", 1, ""}, {"(t **T) ", 1, "**T"},
	{"(t *[]int) ", 1, ""},
	// accepted by go/parser although they are not valid Go
	{"(a, b *T) ", 2, "*T"}, {"() ", 0, ""}, {"(a *T, b *U) ", 0, ""}, {"(a T, b *U) ", 0, ""}, {"(a, b T) ", 0, ""},
	// parenthesised receiver types (gofmt removes the parentheses; the
	// compiler accepts them): the same receivers
	{"(t (*T)) ", 1, "*T"}, {"((*T)) ", 1, "*T"}, {"(t (T)) ", 0, ""}, {"(t ((*T))) ", 1, "*T"}, {"(t *(T)) ", 1, "*T"},
	{"(t (*(T))) ", 1, "*T"}, {"(_ (*pkg.T)) ", 1, ""}, {"(t (G[K])) ", 0, ""}, {"(a, b (*T)) ", 2, "*T"},
}

func genC19cCase(r *Rng) c19cCase {
	var c c19cCase
	c.Valid = true
	c.Name = []string{"F", "f", "Method", "init0"}[r.Intn(4)]
	rc := c19cRecvs[0]
	if r.Chance(1, 2) {
		rc = c19cRecvs[r.Intn(len(c19cRecvs))]
	}
	c.RecvSrc, c.RecvUsed, c.RecvName = rc.src, rc.used, rc.exact
	n := r.Intn(7)
	if r.Chance(1, 12) {
		n = 0
	}
	unnamed := r.Chance(1, 4)
	var ps []string
	for i := 0; i < n; i++ {
		p := c19cParam{T: genType(r, 0)}
		if i == n-1 && r.Chance(1, 3) {
			p.Variadic = true
		} else if r.Chance(1, 40) {
			p.Variadic = true // not last: go/parser accepts it
		}
		ty := p.T.Src
		if p.Variadic {
			ty = "..." + ty
		}
		if unnamed {
			p.Names = 0
			ps = append(ps, ty)
		} else {
			p.Names = 1
			switch r.Intn(8) {
			case 0:
				p.Names = 2
			case 1:
				p.Names = 3
			}
			var ns []string
			for k := 0; k < p.Names; k++ {
				nm := fmt.Sprintf("%s%d", c19Names[r.Intn(len(c19Names))], i*4+k)
				if r.Chance(1, 8) {
					nm = "_"
				}
				ns = append(ns, nm)
			}
			ps = append(ps, strings.Join(ns, ", ")+" "+ty)
		}
		c.Params = append(c.Params, p)
	}
	// layout
	tparams := ""
	if rc.src == "" && r.Chance(1, 10) {
		tparams = []string{"[K any]", "[K comparable, V any]", "[T interface{ ~int }]"}[r.Intn(3)]
	}
	results := []string{"", "", "", " int", " (int, error)", " (x []string, err error)", " *T", " func(int) string"}[r.Intn(8)]
	var plist string
	switch {
	case len(ps) > 0 && r.Chance(1, 6):
		plist = "\n\t" + strings.Join(ps, ",\n\t") + ",\n"
	case len(ps) > 0 && r.Chance(1, 10):
		plist = strings.Join(ps, " , ") + ","
	default:
		plist = strings.Join(ps, ", ")
	}
	var b strings.Builder
	b.WriteString("package p\n\n")
	if r.Chance(1, 3) {
		b.WriteString([]string{
			"// a comment\n\nvar V = func(x int, y ...string) int { return x }\n\n",
			"import \"pkg\"\n\ntype T struct{ a int }\n\nfunc (t *T) before(q string, w ...byte) {\n\tpanic(0)\n}\n\n",
			"func before(q float64) {}\n\nfunc (S) F(z, zz bool) {\n}\n",
			"type G[K any] struct{}\n\nconst N = 4\n\n",
		}[r.Intn(4)])
	}
	b.WriteString("func " + rc.src + c.Name + tparams + "(" + plist + ")" + results + " {\n")
	if r.Chance(1, 4) {
		b.WriteString("\tg := func(lit string, more ...uint8) {}\n\t_ = g\n")
	}
	if r.Chance(1, 6) {
		b.WriteString("\n\t// about to fail\n")
	}
	c.Line = strings.Count(b.String(), "\n") + 1
	b.WriteString("\tpanic(1)\n}\n")
	if r.Chance(1, 3) {
		b.WriteString("\nfunc after(p0 string, p1 []int, rest ...error) {\n\tpanic(2)\n}\n")
	}
	c.Src = b.String()
	return c
}

// mutateSrc damages the text: most results do not parse.
func mutateSrc(r *Rng, s string) string {
	junk := []string{"(", ")", "[", "]", "{", "}", "...", "*", ",", "func", "chan", "map[", "<-", "\n", "\x00", "`", "\"", "interface", " ", "//", "/*", "T", "."}
	b := []byte(s)
	n := 1 + r.Intn(3)
	for i := 0; i < n; i++ {
		at := r.Intn(len(b) + 1)
		switch r.Intn(3) {
		case 0:
			j := junk[r.Intn(len(junk))]
			b = append(b[:at:at], append([]byte(j), b[at:]...)...)
		case 1:
			if at < len(b) {
				end := at + 1 + r.Intn(4)
				if end > len(b) {
					end = len(b)
				}
				b = append(b[:at:at], b[end:]...)
			}
		case 2:
			if at < len(b) {
				b[at] = junk[r.Intn(len(junk))][0]
			}
		}
	}
	return string(b)
}

// ---------------------------------------------------------------------------

func safeExtractTypes(src []byte, fn string, line int) (types []string, ell, ok bool, panicked interface{}) {
	defer func() {
		if e := recover(); e != nil {
			panicked = e
		}
	}()
	types, ell, ok = stack.VerifExtractTypes(src, fn, line)
	return
}

// c19cOracle evaluates the statement on the implementation's output for a
// generated (not mutated) case. It returns the first failure.
func c19cOracle(c *c19cCase, types []string, ell bool) string {
	if len(types) == 0 && ell {
		return "no type name but the ellipsis flag is set (augmentCall would index types[-1])"
	}
	want := c.RecvUsed
	for _, p := range c.Params {
		if p.Names == 0 {
			want++
		} else {
			want += p.Names
		}
	}
	if len(types) != want {
		return fmt.Sprintf("%d type names, want %d (receiver contributes %d)", len(types), want, c.RecvUsed)
	}
	wantEll := len(c.Params) > 0 && c.Params[len(c.Params)-1].Variadic
	if ell != wantEll {
		return fmt.Sprintf("ellipsis flag %v, want %v (last parameter variadic: %v)", ell, wantEll, wantEll)
	}
	i := 0
	for ; i < c.RecvUsed; i++ {
		if !strings.HasPrefix(types[i], "*") {
			return fmt.Sprintf("pointer receiver %q yields the name %q which augmentCall does not treat as a pointer", c.RecvSrc, types[i])
		}
		if c.RecvName != "" && types[i] != c.RecvName {
			return fmt.Sprintf("pointer receiver %q yields the name %q, want %q", c.RecvSrc, types[i], c.RecvName)
		}
	}
	for k, p := range c.Params {
		m := p.Names
		if m == 0 {
			m = 1
		}
		for j := 0; j < m; j++ {
			got := types[i]
			i++
			if p.Variadic {
				// the variadic parameter is a slice for the runtime; the code
				// names its element: outside the kinds C19 lists
				continue
			}
			if p.T.Class != "" && augClass(got) != p.T.Class {
				return fmt.Sprintf("parameter %d spelled %q (%s) yields the name %q which augmentCall treats as %q, want %q", k, p.T.Src, p.T.Kind, got, augClass(got), p.T.Class)
			}
			if p.T.Exact != "" && got != p.T.Exact {
				return fmt.Sprintf("parameter %d spelled %q (%s) yields the name %q, want %q", k, p.T.Src, p.T.Kind, got, p.T.Exact)
			}
		}
	}
	return ""
}

type typenamesRep struct {
	Types    []HB   `json:"types"`
	Ellipsis bool   `json:"ellipsis"`
	Error    string `json:"error"`
}

// runC19c is stream (e) of C19.
func runC19c(prop string, res *Result, pool *DrvPool, r *Rng) {
	res.Rule += " (e) generated one-to-three-function sources: methods with value / pointer / generic / qualified / grouped / empty / double / parenthesised receivers, unnamed, single, grouped and `_` parameter names, types drawn recursively over scalars, named and qualified names, pointers, slices, arrays ([4], [N], [2+2] …), maps, directed channels, func types, interfaces, structs, generic instantiations and parenthesised types ((int16), (*T), ([]byte), ((int)), *(T), [](*T) …: same claims as without the parentheses), variadic last (and sometimes not last) parameter, type parameters, results, multi-line parameter lists, neighbouring functions and function literals; stack.VerifExtractTypes vs model op typenames on the go/parser tree converted by a type switch; oracle from the generated spelling (count, flag, receiver, class/exact name of the C19 kinds). One case in six is a damaged text (mostly unparsable: only found/not-found agreement and, if it parses, correspondence). Non-trivial = parsed, function found and at least one type name."
	n := countN(res.Tier, 50000, 1500000)
	for i := 0; i < n; i++ {
		c := genC19cCase(r)
		mutated := r.Chance(1, 6)
		if mutated {
			c.Src = mutateSrc(r, c.Src)
		}
		src := []byte(c.Src)
		opDesc := map[string]interface{}{"src": c.Src, "fn": c.Name, "line": c.Line}
		types, ell, ok, pan := safeExtractTypes(src, c.Name, c.Line)
		res.Eval("e:"+c.Src+"\x00"+fmt.Sprint(c.Line), ok && len(types) > 0)
		if pan != nil {
			res.Violation(Finding{Stream: "e", What: fmt.Sprintf("extractArgumentsType panicked: %v", pan), Op: opDesc})
			continue
		}
		fset := token.NewFileSet()
		file, perr := parser.ParseFile(fset, "x.go", src, 0)
		var decl *ast.FuncDecl
		if perr == nil {
			decl = declAtLine(fset, file, c.Line)
		}
		if mutated {
			res.Count("e:mutated")
		}
		if perr != nil {
			res.Count("e:unparsable")
			if !mutated {
				res.Disagree(Finding{Stream: "e", What: "harness: generated source does not parse: " + perr.Error(), Op: opDesc})
			}
			if ok {
				res.Violation(Finding{Stream: "e", What: "type names returned for a source go/parser rejects", Op: opDesc, Got: types})
			}
			continue
		}
		if decl == nil {
			res.Count("e:no_function_at_line")
			if !mutated {
				res.Disagree(Finding{Stream: "e", What: "harness: no function declaration covers the line", Op: opDesc})
			}
			// getFuncAST may still pick the previous declaration: nothing to compare
			continue
		}
		if !ok {
			res.Count("e:impl_not_found")
			if !mutated {
				res.Violation(Finding{Stream: "e", What: "function not found by getFuncAST in a source that parses", Op: opDesc})
			}
			continue
		}
		res.Count("e:found")
		if !mutated {
			if w := c19cOracle(&c, types, ell); w != "" {
				res.Violation(Finding{Stream: "e", What: w, Op: opDesc, Got: types})
			}
			res.Count("e:recv:" + strings.TrimSpace(c.RecvSrc))
			for _, p := range c.Params {
				res.Count("e:kind:" + p.T.Kind)
				if p.T.Paren {
					res.Count("e:parenthesised")
				}
				switch {
				case p.Names == 0:
					res.Count("e:names:0")
				case p.Names == 1:
					res.Count("e:names:1")
				default:
					res.Count("e:names:grouped")
				}
				if p.Variadic {
					res.Count("e:variadic")
				}
			}
		} else if len(types) == 0 && ell {
			res.Violation(Finding{Stream: "e", What: "no type name but the ellipsis flag is set", Op: opDesc})
		}
		for _, t := range types {
			res.Count("e:type:" + typeClass(t))
		}
		if ell {
			res.Count("e:ellipsis")
		}
		op := declJSON(decl)
		want, wantEll := append([]string{}, types...), ell
		pool.Send(op, func(raw json.RawMessage) {
			res.Trace()
			var rep typenamesRep
			if err := json.Unmarshal(raw, &rep); err != nil || rep.Error != "" || rep.Types == nil {
				res.Disagree(Finding{Stream: "S19c typenames", What: "model did not answer with a type list: " + clip(string(raw)), Op: op, Got: want, Expected: opDesc})
				return
			}
			m := make([]string, len(rep.Types))
			for k, t := range rep.Types {
				m[k] = t.String()
			}
			if len(m) != len(want) || strings.Join(m, "\x00") != strings.Join(want, "\x00") || rep.Ellipsis != wantEll {
				res.Disagree(Finding{Stream: "S19c typenames", What: "extractArgumentsType: type names or ellipsis flag differ between model and implementation",
					Op: op, Expected: map[string]interface{}{"types": m, "ellipsis": rep.Ellipsis}, Got: map[string]interface{}{"types": want, "ellipsis": wantEll, "src": c.Src}})
			}
		})
		if i < 3 {
			res.Sample(map[string]interface{}{"stream": "e", "src": c.Src, "line": c.Line, "types": types, "ellipsis": ell, "op": op})
		}
	}
}
