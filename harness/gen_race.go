package main

import (
	"fmt"
	"strings"
)

// Model of tsan's Go report printer (PrintReport / PrintMop / PrintThread /
// PrintStack in tsan_report.cpp, the SANITIZER_GO branch), for operations by
// non-main goroutines.

type RaceOp struct {
	Write  bool
	Addr   uint64
	ID     int
	Frames []FrameSpec
}

type RaceGor struct {
	ID       int
	Finished bool
	Frames   []FrameSpec
}

type RaceSpec struct {
	Ops  []RaceOp
	Gors []RaceGor // creation sections, in printed order
}

func raceStack(sb *strings.Builder, fs []FrameSpec, eol string) {
	for i := range fs {
		f := &fs[i]
		sb.WriteString("  ")
		sb.WriteString(f.symbol())
		sb.WriteByte('(')
		printArgList(sb, f.Args, f.ArgsElide)
		sb.WriteByte(')')
		sb.WriteString(eol)
		fmt.Fprintf(sb, "      %s:%d%s%s", f.File, f.Line, f.Off, eol)
	}
}

func (r *RaceSpec) Print(crlf bool) string {
	eol := "\n"
	if crlf {
		eol = "\r\n"
	}
	var sb strings.Builder
	sb.WriteString("==================" + eol + "WARNING: DATA RACE" + eol)
	for i := range r.Ops {
		op := &r.Ops[i]
		if i != 0 {
			sb.WriteString(eol)
		}
		kind := "Read"
		if op.Write {
			kind = "Write"
		}
		if i != 0 {
			kind = "Previous " + strings.ToLower(kind)
		}
		fmt.Fprintf(&sb, "%s at 0x%012x by goroutine %d:%s", kind, op.Addr, op.ID, eol)
		raceStack(&sb, op.Frames, eol)
	}
	for i := range r.Gors {
		g := &r.Gors[i]
		sb.WriteString(eol)
		st := "running"
		if g.Finished {
			st = "finished"
		}
		fmt.Fprintf(&sb, "Goroutine %d (%s) created at:%s", g.ID, st, eol)
		raceStack(&sb, g.Frames, eol)
	}
	sb.WriteString("==================" + eol)
	return sb.String()
}

func (r *RaceSpec) Expected() []MG {
	out := make([]MG, len(r.Ops))
	for i := range r.Ops {
		op := &r.Ops[i]
		m := MG{ID: op.ID, First: i == 0, RW: op.Write, RA: op.Addr}
		m.Sig.Stack.Calls = []MCall{}
		m.Sig.Created.Calls = []MCall{}
		for j := range op.Frames {
			m.Sig.Stack.Calls = append(m.Sig.Stack.Calls, expCall(&op.Frames[j], 0, true))
		}
		for k := range r.Gors {
			if r.Gors[k].ID == op.ID {
				m.Sig.State = hb("running")
				if r.Gors[k].Finished {
					m.Sig.State = hb("finished")
				}
				for j := range r.Gors[k].Frames {
					m.Sig.Created.Calls = append(m.Sig.Created.Calls, expCall(&r.Gors[k].Frames[j], 0, true))
				}
			}
		}
		out[i] = m
	}
	return out
}

func genRaceFrames(r *Rng, max int) []FrameSpec {
	n := 1 + r.Intn(max)
	if r.Chance(1, 5) {
		n = 5 + r.Intn(6) // 5..10 frames
	}
	fs := make([]FrameSpec, n)
	for i := range fs {
		f := genFrame(r, true)
		f.Inlined, f.Fp = false, ""
		if f.Off == "" {
			f.Off = " +0x1"
		}
		fs[i] = f
	}
	return fs
}

func GenRace(r *Rng) RaceSpec {
	nops := 2 + r.Intn(3)
	ids := r.Perm(30)
	rs := RaceSpec{}
	addr := 0xc000000000 + uint64(r.Intn(1<<24))
	if r.Chance(1, 6) {
		// the whole 64-bit range is legal: small addresses, the upper half, the last word
		addr = []uint64{0x10, 0x7fffffffffffffff, 0x8000000000000000, 0xffffffffffffff00, 0xffffffffffffffff - 8, 0xc0de00000000dead}[r.Intn(6)]
	}
	for i := 0; i < nops; i++ {
		a := addr
		if r.Chance(1, 3) {
			a = addr + uint64(r.Intn(8)) // overlapping accesses at different addresses
		}
		rs.Ops = append(rs.Ops, RaceOp{Write: r.Bool(), Addr: a, ID: ids[i] + 1, Frames: genRaceFrames(r, 4)})
	}
	// a non-empty subset of the goroutines, in any order, has a creation section
	order := r.Perm(nops)
	k := 1 + r.Intn(nops)
	for _, i := range order[:k] {
		rs.Gors = append(rs.Gors, RaceGor{ID: rs.Ops[i].ID, Finished: r.Chance(1, 3), Frames: genRaceFrames(r, 4)})
	}
	return rs
}
