package main

import (
	"encoding/json"
	"fmt"
	"io"
	"sort"
	"strings"

	"github.com/maruel/panicparse/v2/stack"
)

var levels = []stack.Similarity{stack.ExactFlags, stack.ExactLines, stack.AnyPointer, stack.AnyValue}

// ---- reference key for C05, written from the property statement ----

func refArgKey(lvl int, a *MArg, sb *strings.Builder) {
	if a.Agg != nil {
		sb.WriteString("{")
		for i := range a.Agg.Values {
			refArgKey(lvl, &a.Agg.Values[i], sb)
			sb.WriteString(",")
		}
		if a.Agg.Elided {
			sb.WriteString("...")
		}
		sb.WriteString("}")
		return
	}
	switch lvl {
	case 0, 1:
		fmt.Fprintf(sb, "E%s/%d/%v/%v", a.Name, a.V, a.Ptr, a.Otl)
	case 2:
		if a.Ptr {
			fmt.Fprintf(sb, "P/%v", a.Otl)
		} else {
			fmt.Fprintf(sb, "V%d/%v", a.V, a.Otl)
		}
	default:
		sb.WriteString("A")
	}
}

func refStackKey(lvl int, s *MStack, sb *strings.Builder) {
	fmt.Fprintf(sb, "[%v|", s.Elided)
	for i := range s.Calls {
		c := &s.Calls[i]
		fmt.Fprintf(sb, "%s@%s:%d(", c.Fn.C, c.Remote, c.Line)
		for j := range c.Args.Values {
			refArgKey(lvl, &c.Args.Values[j], sb)
			sb.WriteString(",")
		}
		if c.Args.Elided {
			sb.WriteString("...")
		}
		sb.WriteString(");")
	}
	sb.WriteString("]")
}

func refSigKey(lvl int, s *MSig) string {
	var sb strings.Builder
	sb.WriteString(string(s.State))
	sb.WriteString("|")
	refStackKey(lvl, &s.Created, &sb)
	if lvl == 0 {
		fmt.Fprintf(&sb, "L%v", s.Locked)
	}
	refStackKey(lvl, &s.Stack, &sb)
	return sb.String()
}

// partitionOf returns the partition as a canonical string: sorted list of
// sorted id lists.
func partitionOf(groups map[string][]int) string {
	var parts []string
	for _, ids := range groups {
		s := append([]int{}, ids...)
		sort.Ints(s)
		parts = append(parts, fmt.Sprint(s))
	}
	sort.Strings(parts)
	return strings.Join(parts, ";")
}

func bucketPartition(bs []*stack.Bucket) string {
	g := map[string][]int{}
	for i, b := range bs {
		g[fmt.Sprint(i)] = b.IDs
	}
	return partitionOf(g)
}

// refines: every class of fine is inside one class of coarse.
func refines(fine, coarse []*stack.Bucket) bool {
	where := map[int]int{}
	for i, b := range coarse {
		for _, id := range b.IDs {
			where[id] = i
		}
	}
	for _, b := range fine {
		for _, id := range b.IDs {
			if where[id] != where[b.IDs[0]] {
				return false
			}
		}
	}
	return true
}

// ---- C12 reference: generalise the members ----

func argEqualRef(a, b *MArg) bool {
	if (a.Agg != nil) != (b.Agg != nil) {
		return false
	}
	if a.Agg != nil {
		if a.Agg.Elided != b.Agg.Elided || len(a.Agg.Values) != len(b.Agg.Values) {
			return false
		}
		for i := range a.Agg.Values {
			if !argEqualRef(&a.Agg.Values[i], &b.Agg.Values[i]) {
				return false
			}
		}
		return true
	}
	return a.Name == b.Name && a.V == b.V && a.Ptr == b.Ptr && a.Otl == b.Otl
}

// checkGeneralises reports why bucket argument `got` does not truthfully
// generalise the members' arguments at the same position ("" if it does).
func checkGeneralises(got *MArg, members []*MArg, path string) string {
	if got.Agg != nil {
		for _, m := range members {
			if m.Agg == nil || len(m.Agg.Values) != len(got.Agg.Values) || m.Agg.Elided != got.Agg.Elided {
				return path + ": aggregate shape differs from a member"
			}
		}
		for i := range got.Agg.Values {
			sub := make([]*MArg, len(members))
			for k, m := range members {
				sub[k] = &m.Agg.Values[i]
			}
			if w := checkGeneralises(&got.Agg.Values[i], sub, fmt.Sprintf("%s.%d", path, i)); w != "" {
				return w
			}
		}
		return ""
	}
	same := true
	for _, m := range members {
		if m.Agg != nil {
			return path + ": member is an aggregate, bucket shows a scalar"
		}
		if !argEqualRef(m, members[0]) {
			same = false
		}
	}
	if same {
		if !argEqualRef(got, members[0]) {
			return fmt.Sprintf("%s: all members hold %s but the bucket shows %s", path, jsonStr(members[0]), jsonStr(got))
		}
		return ""
	}
	if got.Name.String() != "*" {
		return fmt.Sprintf("%s: members differ but the bucket shows %s", path, jsonStr(got))
	}
	return ""
}

func checkBucketGeneralises(b *MBucket, members []*MSig) string {
	if len(members) == 0 {
		return "empty bucket"
	}
	mn, mx, locked := members[0].SMin, members[0].SMax, false
	for _, m := range members {
		if m.State != b.Sig.State {
			return "state differs from a member"
		}
		if jsonStr(stripArgs(&m.Created)) != jsonStr(stripArgs(&b.Sig.Created)) {
			return "creator differs from a member"
		}
		if jsonStr(stripArgs(&m.Stack)) != jsonStr(stripArgs(&b.Sig.Stack)) {
			return "frames (function/file/line/location) differ from a member"
		}
		if m.SMin < mn {
			mn = m.SMin
		}
		if m.SMax > mx {
			mx = m.SMax
		}
		locked = locked || m.Locked
	}
	if b.Sig.SMin != mn || b.Sig.SMax != mx {
		return fmt.Sprintf("sleep range %d~%d, members span %d~%d", b.Sig.SMin, b.Sig.SMax, mn, mx)
	}
	if b.Sig.Locked != locked {
		return fmt.Sprintf("locked=%v but any(member.locked)=%v", b.Sig.Locked, locked)
	}
	for ci := range b.Sig.Stack.Calls {
		bc := &b.Sig.Stack.Calls[ci]
		for _, m := range members {
			mc := &m.Stack.Calls[ci]
			if len(mc.Args.Values) != len(bc.Args.Values) || mc.Args.Elided != bc.Args.Elided {
				return fmt.Sprintf("frame %d: argument list shape differs from a member", ci)
			}
		}
		// the typed rendering, when shown, must be the one of every member
		if len(bc.Args.Processed) != 0 {
			for _, m := range members {
				if jsonStr(m.Stack.Calls[ci].Args.Processed) != jsonStr(bc.Args.Processed) {
					return fmt.Sprintf("frame %d: the bucket shows the typed arguments %s but a member has %s", ci, jsonStr(bc.Args.Processed), jsonStr(m.Stack.Calls[ci].Args.Processed))
				}
			}
		}
		for ai := range bc.Args.Values {
			sub := make([]*MArg, len(members))
			for k, m := range members {
				sub[k] = &m.Stack.Calls[ci].Args.Values[ai]
			}
			if w := checkGeneralises(&bc.Args.Values[ai], sub, fmt.Sprintf("frame %d arg %d", ci, ai)); w != "" {
				return w
			}
		}
	}
	return ""
}

// stripArgs returns the stack without argument values (what must be common to
// all members).
func stripArgs(s *MStack) MStack {
	out := MStack{Elided: s.Elided, Calls: make([]MCall, len(s.Calls))}
	for i, c := range s.Calls {
		c.Args = MArgs{}
		out.Calls[i] = c
	}
	return out
}

// ---- the aggregation checks (C04 C05 C06 C12 C13 share the driver) ----

type aggCase struct {
	gs  []MG
	src string
	// parsed, when set, is what the implementation made of the dump text whose DESCRIPTION is gs:
	// the aggregation runs on the implementation's own parse, the oracles judge it by the description
	parsed []MG
}

func snapshotOf(gs []MG) *stack.Snapshot { return &stack.Snapshot{Goroutines: sGs(gs)} }

func distinctIDs(gs []MG) bool {
	seen := map[int]bool{}
	for _, g := range gs {
		if seen[g.ID] {
			return false
		}
		seen[g.ID] = true
	}
	return true
}

// aggCasesDiv scales the number of aggregation cases down for properties that
// run the aggregation stream next to their own streams.
var aggCasesDiv = 1

func genAggCases(r *Rng, tier string, emit func(aggCase)) {
	n := 1500 / aggCasesDiv
	maxG := 40
	if tier == "thorough" {
		n = 30000 / aggCasesDiv
		maxG = 120
	}
	// corpus first
	for _, c := range aggCorpus() {
		emit(c)
	}
	for i := 0; i < n; i++ {
		switch r.Intn(5) {
		case 0: // parsed from a generated dump
			d := GenDump(r, 8, 4)
			txt := GenCfg(r).Dump(d)
			s, _, _ := stack.ScanSnapshot(strings.NewReader(txt), io.Discard, &stack.Opts{NameArguments: r.Bool()})
			if s != nil {
				emit(aggCase{gs: mGs(s.Goroutines), src: "parsed"})
			}
		case 1:
			if r.Chance(1, 3) {
				// a dump judged by its description: headers carry further attributes after the lock flag
				// (newer runtimes print ", synctest bubble N" / ", leaked" there)
				d := GenDump(r, 8, 3)
				if len(d) >= 2 && r.Bool() {
					d[1].Locked = !d[0].Locked
					d[1].State, d[1].Scan, d[1].Frames, d[1].Unavail, d[1].Created, d[1].Parent, d[1].Elided, d[1].ElidedAt, d[1].WaitMin = d[0].State, d[0].Scan, d[0].Frames, d[0].Unavail, d[0].Created, d[0].Parent, d[0].Elided, d[0].ElidedAt, d[0].WaitMin
				}
				txt := PrintCfg{FileIndent: "\t"}.Dump(d)
				extra := []string{", synctest bubble 3", ", leaked", ", synctest bubble 12, leaked"}[r.Intn(3)]
				txt = strings.ReplaceAll(txt, "locked to thread]:", "locked to thread"+extra+"]:")
				s, _, _ := stack.ScanSnapshot(strings.NewReader(txt), io.Discard, &stack.Opts{})
				if s != nil && len(s.Goroutines) == len(d) {
					emit(aggCase{gs: ExpectedGoroutines(d), parsed: mGs(s.Goroutines), src: "described"})
					continue
				}
			}
			emit(aggCase{gs: GenSnapshot(r, 6), src: "constructed-small"})
		default:
			emit(aggCase{gs: GenSnapshot(r, maxG), src: "constructed"})
		}
	}
	if tier == "thorough" {
		for i := 0; i < 20; i++ {
			emit(aggCase{gs: GenSnapshot(r, 3000), src: "constructed-large"})
		}
		// exhaustive: all multisets of up to 4 goroutines over a small universe
		fam := SigFamily{frames: []frameKind{frameKinds[1]}}
		var uni []MSig
		for _, av := range argVariants[:12] {
			for _, locked := range []bool{false, true} {
				s := MSig{State: hb("running"), Locked: locked}
				s.Created.Calls = []MCall{}
				s.Stack.Calls = []MCall{mkCall(fam.frames[0], av, false)}
				uni = append(uni, s)
			}
		}
		var rec func(start int, cur []MG)
		rec = func(start int, cur []MG) {
			if len(cur) > 0 {
				gs := make([]MG, len(cur))
				copy(gs, cur)
				emit(aggCase{gs: gs, src: "exhaustive-multiset"})
			}
			if len(cur) == 4 {
				return
			}
			for i := start; i < len(uni); i++ {
				rec(i, append(cur, MG{Sig: uni[i], ID: len(cur) + 1, First: len(cur) == 0}))
			}
		}
		rec(0, nil)
	}
}

func aggCorpus() []aggCase {
	// F5 witness: singleton buckets that tie under the comparator.
	var gs []MG
	for i := 1; i <= 5; i++ {
		s := MSig{State: hb("running")}
		s.Created.Calls = []MCall{}
		s.Stack.Calls = []MCall{mkCall(frameKinds[1], []MArg{scalar(uint64(i))}, false)}
		gs = append(gs, MG{Sig: s, ID: i, First: i == 1})
	}
	// starred pointer meeting a third goroutine
	var gs2 []MG
	for i, v := range []uint64{0xc000010000, 0xc000020000, 0xc000030000, 0xc000010000} {
		s := MSig{State: hb("select")}
		s.Created.Calls = []MCall{}
		s.Stack.Calls = []MCall{mkCall(frameKinds[4], []MArg{scalar(v), scalar(1)}, false)}
		gs2 = append(gs2, MG{Sig: s, ID: 10 - i, First: i == 0})
	}
	return []aggCase{{gs: gs, src: "corpus-F5"}, {gs: gs2, src: "corpus-star"}}
}

// runAgg drives all aggregation properties; `prop` selects which direct oracle
// produces violations (the others are still evaluated as correspondence).
func runAgg(prop string, res *Result, pool *DrvPool, r *Rng) {
	res.Rule = "snapshots parsed from generated dumps or constructed from signature families (same frames, differing args/sleep/lock/state/creator) x 4 similarity levels; non-trivial = at least one bucket holds >= 2 goroutines or >= 2 buckets; distinct by hash of (snapshot, level)"
	genAggCases(r, res.Tier, func(c aggCase) {
		res.Count("src:" + c.src)
		res.Count(fmt.Sprintf("size:%s", sizeClass(len(c.gs))))
		byID := map[int]*MG{}
		for i := range c.gs {
			byID[c.gs[i].ID] = &c.gs[i]
		}
		uniq := distinctIDs(c.gs)
		var perLevel [4][]*stack.Bucket
		for li, lvl := range levels {
			if len(c.gs) > 500 && li%2 == 1 {
				continue
			}
			snap := snapshotOf(c.gs)
			if c.parsed != nil {
				snap = snapshotOf(c.parsed)
			}
			before := jsonStr(mGs(snap.Goroutines))
			var a *stack.Aggregated
			if p := catch(func() { a = snap.Aggregate(lvl) }); p != nil {
				res.Violation(Finding{Stream: "agg", What: fmt.Sprintf("Aggregate panicked: %v", p), Op: map[string]interface{}{"gs": c.gs, "lvl": li}})
				continue
			}
			perLevel[li] = a.Buckets
			merged, multi := false, len(a.Buckets) > 1
			for _, b := range a.Buckets {
				if len(b.IDs) > 1 {
					merged = true
				}
			}
			key := jsonStr(c.gs) + fmt.Sprint(li)
			res.Eval(key, merged || multi)
			if merged {
				res.Count("merged")
			}
			op := map[string]interface{}{"op": "agg", "gs": c.gs, "lvl": li, "oracle": 0}
			bad := func(what string) {
				res.Violation(Finding{Stream: "agg", What: what, Op: op, Got: mBuckets(a.Buckets)})
			}
			mb := mBuckets(a.Buckets)
			switch prop {
			case "C04":
				var all []int
				firstBuckets := 0
				for _, b := range a.Buckets {
					if len(b.IDs) == 0 {
						bad("empty bucket")
					}
					if !sort.IntsAreSorted(b.IDs) {
						bad("bucket ids not sorted")
					}
					all = append(all, b.IDs...)
					hasFirst := false
					for _, id := range b.IDs {
						if g := byID[id]; g != nil && g.First {
							hasFirst = true
						}
					}
					if uniq && hasFirst != b.First {
						bad(fmt.Sprintf("bucket %v first=%v but contains-first=%v", b.IDs, b.First, hasFirst))
					}
					if b.First {
						firstBuckets++
					}
				}
				want := make([]int, len(c.gs))
				for i := range c.gs {
					want[i] = c.gs[i].ID
				}
				sort.Ints(all)
				sort.Ints(want)
				if fmt.Sprint(all) != fmt.Sprint(want) {
					bad(fmt.Sprintf("bucket ids %v are not the snapshot's ids %v", all, want))
				}
				wantFirst := 0
				for i := range c.gs {
					if c.gs[i].First {
						wantFirst = 1
					}
				}
				if firstBuckets != wantFirst {
					bad(fmt.Sprintf("%d buckets flagged first, %d goroutines of the snapshot are", firstBuckets, wantFirst))
				}
				// the caller owns the snapshot: after its goroutine list was edited (one goroutine
				// removed), aggregating again accounts for the list as it is now
				if len(c.gs) >= 2 && len(c.gs) <= 200 {
					snap.Goroutines = snap.Goroutines[:len(snap.Goroutines)-1]
					var a2 *stack.Aggregated
					if p := catch(func() { a2 = snap.Aggregate(lvl) }); p != nil {
						bad(fmt.Sprintf("Aggregate panicked after the goroutine list was edited: %v", p))
					} else {
						var all2, want2 []int
						for _, b := range a2.Buckets {
							all2 = append(all2, b.IDs...)
						}
						for i := 0; i+1 < len(c.gs); i++ {
							want2 = append(want2, c.gs[i].ID)
						}
						sort.Ints(all2)
						sort.Ints(want2)
						if fmt.Sprint(all2) != fmt.Sprint(want2) {
							bad(fmt.Sprintf("after the last goroutine was removed from Snapshot.Goroutines, aggregating again at the same level gives ids %v, the snapshot now holds %v", all2, want2))
						}
						if a2.Snapshot != snap {
							bad("the second aggregation does not refer back to its snapshot")
						}
					}
					// and a copy of the snapshot value with another list
					cp := *snapshotOf(c.gs)
					catch(func() { cp.Aggregate(lvl) })
					cp2 := cp
					cp2.Goroutines = cp.Goroutines[:1]
					var a3 *stack.Aggregated
					if p := catch(func() { a3 = cp2.Aggregate(lvl) }); p == nil && a3 != nil {
						n3 := 0
						for _, b := range a3.Buckets {
							n3 += len(b.IDs)
						}
						if n3 != 1 || a3.Snapshot != &cp2 {
							bad(fmt.Sprintf("a copy of an aggregated snapshot value, cut to one goroutine, aggregates to %d ids (refers back to its own snapshot: %v)", n3, a3.Snapshot == &cp2))
						}
					}
				}
				if a.Snapshot != snap {
					bad("aggregation does not refer back to its snapshot")
				}
			case "C05":
				if uniq {
					ref := map[string][]int{}
					for i := range c.gs {
						k := refSigKey(li, &c.gs[i].Sig)
						ref[k] = append(ref[k], c.gs[i].ID)
					}
					if got, want := bucketPartition(a.Buckets), partitionOf(ref); got != want {
						bad(fmt.Sprintf("partition %s differs from the similarity classes %s", got, want))
					}
					// order independence
					if len(c.gs) <= 200 {
						perm := r.Perm(len(c.gs))
						pg := make([]MG, len(c.gs))
						for i, j := range perm {
							pg[i] = c.gs[j]
						}
						a2 := snapshotOf(pg).Aggregate(lvl)
						if bucketPartition(a2.Buckets) != bucketPartition(a.Buckets) {
							bad("partition depends on the order of the goroutines")
						}
					}
					// sleep never separates
				}
			case "C12":
				if uniq {
					for bi := range mb {
						var members []*MSig
						// arrival order = dump order
						idset := map[int]bool{}
						for _, id := range mb[bi].IDs {
							idset[id] = true
						}
						for i := range c.gs {
							if idset[c.gs[i].ID] {
								members = append(members, &c.gs[i].Sig)
							}
						}
						if w := checkBucketGeneralises(&mb[bi], members); w != "" {
							bad(fmt.Sprintf("bucket %v: %s", mb[bi].IDs, w))
						}
					}
				}
			case "C13":
				checkBucketOrder(a.Buckets, byID, bad)
			case "C06":
				for k := 0; k < 8; k++ {
					a2 := snapshotOf(c.gs).Aggregate(lvl)
					if jsonStr(mBuckets(a2.Buckets)) != jsonStr(mb) {
						bad("repeated aggregation of the same snapshot gave different buckets or order")
						break
					}
				}
			case "C14":
				if after := jsonStr(mGs(snap.Goroutines)); after != before {
					bad("Aggregate modified the snapshot")
				}
			}
			// correspondence with the model, three iteration orders
			if len(c.gs) <= 400 {
				implJ := jsonStr(mb)
				for o := 0; o < 3; o++ {
					op := map[string]interface{}{"op": "agg", "gs": c.gs, "lvl": li, "oracle": o}
					pool.Send(op, func(raw json.RawMessage) {
						res.Trace()
						var rep struct {
							Buckets []MBucket `json:"buckets"`
							Panic   bool      `json:"panic"`
							Error   string    `json:"error"`
						}
						if err := json.Unmarshal(raw, &rep); err != nil || rep.Error != "" || rep.Panic {
							res.Disagree(Finding{Stream: "S9 agg", What: "model error/panic: " + string(raw), Op: op})
							return
						}
						if got := jsonStr(rep.Buckets); got != implJ {
							res.Disagree(Finding{Stream: "S9 agg", What: "buckets differ between model and implementation", Op: op, Expected: rep.Buckets, Got: mb})
						}
					})
				}
			}
		}
		// one snapshot value aggregated several times, coarse levels first: each aggregation must give
		// what it gives on a freshly built snapshot (nothing an aggregation does may leak into the next)
		if (prop == "C05" || prop == "C06" || prop == "C12" || prop == "C14") && len(c.gs) <= 200 {
			shared := snapshotOf(c.gs)
			order := []int{3, 2, 1, 0}
			if len(c.gs)%2 == 1 {
				order = []int{2, 3, 0, 1}
			}
			for k, li := range order {
				if perLevel[li] == nil {
					continue
				}
				var a *stack.Aggregated
				if p := catch(func() { a = shared.Aggregate(levels[li]) }); p != nil {
					res.Violation(Finding{Stream: "agg-again", What: fmt.Sprintf("Aggregate panicked on a snapshot aggregated before: %v", p), Op: map[string]interface{}{"gs": c.gs, "levels": order[:k+1]}})
					break
				}
				if got, want := jsonStr(mBuckets(a.Buckets)), jsonStr(mBuckets(perLevel[li])); got != want {
					res.Violation(Finding{Stream: "agg-again", What: fmt.Sprintf("aggregating at level %d a snapshot that was aggregated before (levels %v) gives other buckets than on a freshly built snapshot: %s vs %s", li, order[:k], bucketPartition(a.Buckets), bucketPartition(perLevel[li])), Op: map[string]interface{}{"gs": c.gs, "levels": order[:k+1]}, Expected: mBuckets(perLevel[li]), Got: mBuckets(a.Buckets)})
					break
				}
			}
			res.Count("re-aggregated")
		}
		if prop == "C05" && uniq {
			for li := 0; li+1 < 4; li++ {
				if perLevel[li] != nil && perLevel[li+1] != nil && !refines(perLevel[li], perLevel[li+1]) {
					res.Violation(Finding{Stream: "agg", What: fmt.Sprintf("partition at level %d does not refine level %d", li, li+1), Op: map[string]interface{}{"gs": c.gs}})
				}
			}
		}
		res.Sample(map[string]interface{}{"source": c.src, "goroutines": len(c.gs), "first_sig": describeSig(&c.gs[0].Sig)})
	})
	if prop == "C13" || prop == "C05" || prop == "C12" {
		runSigLaws(prop, res, pool, r)
	}
}

func sizeClass(n int) string {
	switch {
	case n <= 1:
		return "1"
	case n <= 4:
		return "2-4"
	case n <= 16:
		return "5-16"
	case n <= 64:
		return "17-64"
	case n <= 512:
		return "65-512"
	default:
		return ">512"
	}
}

func catch(f func()) (p interface{}) {
	defer func() { p = recover() }()
	f()
	return nil
}

// ---- C13 ----

// The ordering contract speaks of the frames of the goroutines in a bucket: the predicates are
// evaluated on a MEMBER of the bucket as the snapshot has it (all members have the same frames),
// not on the signature the aggregation built for the bucket.
func memberCalls(b *stack.Bucket, byID map[int]*MG) []MCall {
	if len(b.IDs) > 0 {
		if g := byID[b.IDs[0]]; g != nil {
			return g.Sig.Stack.Calls
		}
	}
	return mSig(&b.Signature).Stack.Calls
}

func allStdlibCalls(cs []MCall) bool {
	if len(cs) == 0 {
		return false
	}
	for _, c := range cs {
		if c.Loc != int(stack.Stdlib) || c.Fn.Main {
			return false
		}
	}
	return true
}

func hasUserCodeCalls(cs []MCall) bool {
	for _, c := range cs {
		if c.Fn.Main || c.Loc == int(stack.GoMod) || c.Loc == int(stack.GOPATH) || c.Loc == int(stack.GoPkg) {
			return true
		}
	}
	return false
}

func countMainCalls(cs []MCall) int {
	n := 0
	for _, c := range cs {
		if c.Fn.Main {
			n++
		}
	}
	return n
}

func checkBucketOrder(bs []*stack.Bucket, byID map[int]*MG, bad func(string)) {
	for i, b := range bs {
		if b.First && i != 0 {
			bad("the bucket with the crashing goroutine is not first")
		}
		// by membership, not by the bucket's own flag
		for _, id := range b.IDs {
			if g := byID[id]; g != nil && g.First && i != 0 {
				bad(fmt.Sprintf("the bucket %v that holds the crashing goroutine %d is at position %d, not first", b.IDs, id, i))
			}
		}
	}
	for i := 0; i < len(bs); i++ {
		for j := i + 1; j < len(bs); j++ {
			if bs[i].First || bs[j].First {
				continue
			}
			ci, cj := memberCalls(bs[i], byID), memberCalls(bs[j], byID)
			if allStdlibCalls(ci) && hasUserCodeCalls(cj) {
				bad(fmt.Sprintf("all-stdlib bucket %v sorted before bucket %v with main/module/GOPATH code", bs[i].IDs, bs[j].IDs))
			}
			if countMainCalls(ci) < countMainCalls(cj) {
				bad(fmt.Sprintf("bucket %v (%d main frames) sorted before bucket %v (%d main frames)", bs[i].IDs, countMainCalls(ci), bs[j].IDs, countMainCalls(cj)))
			}
			if stack.VerifLess(&bs[j].Signature, &bs[i].Signature) {
				bad(fmt.Sprintf("bucket %v sorted before %v although the comparator puts it after", bs[i].IDs, bs[j].IDs))
			}
		}
	}
}

// runSigLaws checks algebraic laws on pairs/triples from a universe, on the
// implementation, and the correspondence of similar/equal/merge/less.
// runFrameCountBoundaries (C13): the ranking counts frames per kind, most relevant kind first; the
// runtime prints up to 100 frames.  For every pair of kinds (k more relevant than k'), a stack of n
// frames of kind k' (n up to and beyond 100) never outranks a stack with a single frame of kind k,
// whatever the function names are; and the same through Aggregate's bucket order.
func runFrameCountBoundaries(res *Result) {
	kinds := []frameKind{
		{"main", "zzmain", "/home/u/app/main.go", 10, 0},                                 // package main
		{"example.com/m", "Zrun", "/work/m/run.go", 5, 1},                                // GoMod
		{"github.com/foo/bar", "Zdo", "/gp/src/github.com/foo/bar/do.go", 33, 2},          // GOPATH
		{"gopkg.in/yaml.v2", "Zunmarshal", "/gp/pkg/mod/gopkg.in/yaml.v2@v2.4.0/y.go", 7, 3}, // GoPkg
		{"aaa/net/http", "aserve", "/goroot/src/net/http/server.go", 1900, 4},            // Stdlib (names sort first)
	}
	mk := func(k frameKind, n int) MSig {
		s := MSig{State: hb("running")}
		s.Created.Calls = []MCall{}
		for i := 0; i < n; i++ {
			s.Stack.Calls = append(s.Stack.Calls, mkCall(k, nil, false))
		}
		s.Stack.Elided = n >= 100
		return s
	}
	for hi := 0; hi < len(kinds); hi++ {
		for lo := hi + 1; lo < len(kinds); lo++ {
			for _, n := range []int{1, 2, 9, 10, 11, 99, 100, 101, 128, 255, 256} {
				a, b := mk(kinds[hi], 1), mk(kinds[lo], n)
				sa, sb := sSig(&a), sSig(&b)
				var ab, ba bool
				if p := catch(func() { ab, ba = stack.VerifLess(&sa, &sb), stack.VerifLess(&sb, &sa) }); p != nil {
					res.Violation(Finding{Stream: "frame-counts", What: fmt.Sprintf("less panicked: %v", p), Op: map[string]interface{}{"a": a, "b": b}})
					return
				}
				res.Count("frame-count-boundaries")
				if !ab || ba {
					res.Violation(Finding{Stream: "frame-counts", What: fmt.Sprintf("a stack with one frame of kind %d (0 main, 1 module, 2 GOPATH, 3 module cache, 4 stdlib) must rank before a stack of %d frames of the less relevant kind %d: less(a,b)=%v less(b,a)=%v", hi, n, lo, ab, ba), Op: map[string]interface{}{"op": "sig", "a": a, "b": b, "lvl": 0}})
					return
				}
				// and through Aggregate: [first goroutine, b, a] must come out as [first, a, b]
				first := mk(frameKind{"main", "main", "/home/u/app/main.go", 1, 0}, 1)
				first.State = hb("panicwait")
				gs := []MG{{Sig: first, ID: 1, First: true}, {Sig: b, ID: 2}, {Sig: a, ID: 3}}
				var bs []*stack.Bucket
				if p := catch(func() { bs = snapshotOf(gs).Aggregate(stack.AnyPointer).Buckets }); p != nil || len(bs) != 3 {
					continue
				}
				if !(bs[0].First && len(bs[1].IDs) == 1 && bs[1].IDs[0] == 3 && bs[2].IDs[0] == 2) {
					res.Violation(Finding{Stream: "frame-counts", What: fmt.Sprintf("bucket order %v %v %v: the bucket whose only frame is of kind %d must come before the bucket of %d frames of kind %d", bs[0].IDs, bs[1].IDs, bs[2].IDs, hi, n, lo), Op: map[string]interface{}{"op": "agg", "gs": gs, "lvl": 2, "oracle": 0}})
					return
				}
			}
		}
	}
}

func runSigLaws(prop string, res *Result, pool *DrvPool, r *Rng) {
	if prop == "C13" {
		runFrameCountBoundaries(res)
	}
	nu := 40
	if res.Tier == "thorough" {
		nu = 110
	}
	var uni []MSig
	fams := []SigFamily{GenFamily(r), GenFamily(r), GenFamily(r), {frames: []frameKind{frameKinds[7], frameKinds[8]}}, {frames: []frameKind{frameKinds[0]}}}
	for len(uni) < nu {
		uni = append(uni, fams[r.Intn(len(fams))].Draw(r, 1+r.Intn(3)))
	}
	sig := make([]stack.Signature, len(uni))
	for i := range uni {
		sig[i] = sSig(&uni[i])
	}
	less := make([][]bool, len(uni))
	for i := range uni {
		less[i] = make([]bool, len(uni))
		for j := range uni {
			var v bool
			if p := catch(func() { v = stack.VerifLess(&sig[i], &sig[j]) }); p != nil {
				res.Violation(Finding{Stream: "sig", What: fmt.Sprintf("less panicked: %v", p), Op: map[string]interface{}{"a": uni[i], "b": uni[j]}})
			}
			less[i][j] = v
			res.Eval("less"+jsonStr(uni[i])+jsonStr(uni[j]), i != j)
			if v {
				res.Count("less:true")
			} else {
				res.Count("less:false")
			}
		}
	}
	if prop == "C13" {
		for i := range uni {
			if less[i][i] {
				res.Violation(Finding{Stream: "sig", What: "less is not irreflexive", Op: map[string]interface{}{"a": uni[i]}})
			}
			for j := range uni {
				if less[i][j] && less[j][i] {
					res.Violation(Finding{Stream: "sig", What: "less is not asymmetric", Op: map[string]interface{}{"a": uni[i], "b": uni[j]}})
				}
				for k := range uni {
					if less[i][j] && less[j][k] && !less[i][k] {
						res.Violation(Finding{Stream: "sig", What: "less is not transitive", Op: map[string]interface{}{"a": uni[i], "b": uni[j], "c": uni[k]}})
					}
					inc := func(a, b int) bool { return !less[a][b] && !less[b][a] }
					if inc(i, j) && inc(j, k) && !inc(i, k) {
						res.Violation(Finding{Stream: "sig", What: "incomparability is not transitive", Op: map[string]interface{}{"a": uni[i], "b": uni[j], "c": uni[k]}})
					}
				}
			}
		}
		res.CountN("triples", len(uni)*len(uni)*len(uni))
	}
	// correspondence on all pairs
	for i := range uni {
		for j := range uni {
			for li, lvl := range levels {
				if (i+j+li)%2 == 1 && res.Tier != "thorough" {
					continue
				}
				i, j, li := i, j, li
				sim := stack.VerifSimilar(&sig[i], &sig[j], lvl)
				eq := stack.VerifEqual(&sig[i], &sig[j])
				var merged *MSig
				if sim {
					m := mSig(stack.VerifMerge(&sig[i], &sig[j]))
					merged = &m
					res.Count("similar:true")
				}
				if prop == "C05" {
					if want := refSigKey(li, &uni[i]) == refSigKey(li, &uni[j]); want != sim {
						res.Violation(Finding{Stream: "sig", What: fmt.Sprintf("similar=%v but reference keys equal=%v at level %d", sim, want, li), Op: map[string]interface{}{"a": uni[i], "b": uni[j], "lvl": li}})
					}
				}
				op := map[string]interface{}{"op": "sig", "a": uni[i], "b": uni[j], "lvl": li}
				l := less[i][j]
				pool.Send(op, func(raw json.RawMessage) {
					res.Trace()
					var rep struct {
						Similar bool  `json:"similar"`
						Equal   bool  `json:"equal"`
						Less    *bool `json:"less"`
						Merge   *MSig `json:"merge"`
						Error   string
					}
					if err := json.Unmarshal(raw, &rep); err != nil || rep.Error != "" {
						res.Disagree(Finding{Stream: "S8 sig", What: "model error: " + string(raw), Op: op})
						return
					}
					if rep.Similar != sim || rep.Equal != eq || rep.Less == nil || *rep.Less != l {
						res.Disagree(Finding{Stream: "S8 sig", What: fmt.Sprintf("similar/equal/less: model %v/%v/%v impl %v/%v/%v", rep.Similar, rep.Equal, rep.Less, sim, eq, l), Op: op})
					}
					if merged != nil && (rep.Merge == nil || jsonStr(rep.Merge) != jsonStr(merged)) {
						res.Disagree(Finding{Stream: "S8 sig", What: "merge differs", Op: op, Expected: rep.Merge, Got: merged})
					}
				})
			}
		}
	}
}
