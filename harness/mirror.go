package main

import (
	"bytes"
	"encoding/hex"
	"encoding/json"

	"github.com/maruel/panicparse/v2/stack"
)

// Mirror types: the JSON shape shared with the Lean driver (PP/Driver/Codec.lean).
// Byte strings travel as hex.

type HB string // hex bytes

func hb(s string) HB        { return HB(hex.EncodeToString([]byte(s))) }
func (h HB) String() string { b, _ := hex.DecodeString(string(h)); return string(b) }
func hbs(ss []string) []HB {
	out := make([]HB, len(ss))
	for i, s := range ss {
		out[i] = hb(s)
	}
	return out
}

type MFunc struct {
	C    HB   `json:"c"`
	IP   HB   `json:"ip"`
	DN   HB   `json:"dn"`
	N    HB   `json:"n"`
	Ex   bool `json:"ex"`
	Main bool `json:"main"`
}

type MAgg struct {
	Elided bool   `json:"elided"`
	Values []MArg `json:"values"`
}

type MArg struct {
	Agg   *MAgg  `json:"agg,omitempty"`
	Name  HB     `json:"name"`
	V     uint64 `json:"v"`
	Ptr   bool   `json:"ptr"`
	Otl   bool   `json:"otl"`
	Inacc bool   `json:"inacc"`
}

type MArgs struct {
	Elided    bool   `json:"elided"`
	Processed []HB   `json:"processed"`
	Values    []MArg `json:"values"`
}

type MCall struct {
	Fn     MFunc `json:"fn"`
	Args   MArgs `json:"args"`
	Remote HB    `json:"remote"`
	Line   int   `json:"line"`
	Src    HB    `json:"src"`
	DirSrc HB    `json:"dirsrc"`
	Local  HB    `json:"local"`
	Rel    HB    `json:"rel"`
	IP     HB    `json:"ip"`
	Loc    int   `json:"loc"`
}

type MStack struct {
	Elided bool    `json:"elided"`
	Calls  []MCall `json:"calls"`
}

type MSig struct {
	State   HB     `json:"state"`
	Created MStack `json:"created"`
	SMin    int    `json:"smin"`
	SMax    int    `json:"smax"`
	Stack   MStack `json:"stack"`
	Locked  bool   `json:"locked"`
}

type MG struct {
	Sig   MSig   `json:"sig"`
	ID    int    `json:"id"`
	First bool   `json:"first"`
	RW    bool   `json:"rw"`
	RA    uint64 `json:"ra"`
}

type MBucket struct {
	Sig   MSig  `json:"sig"`
	IDs   []int `json:"ids"`
	First bool  `json:"first"`
}

func mArg(a *stack.Arg) MArg {
	if a.IsAggregate {
		return MArg{Agg: &MAgg{Elided: a.Fields.Elided, Values: mArgList(a.Fields.Values)}}
	}
	return MArg{Name: hb(a.Name), V: a.Value, Ptr: a.IsPtr, Otl: a.IsOffsetTooLarge, Inacc: a.IsInaccurate}
}

func mArgList(v []stack.Arg) []MArg {
	out := make([]MArg, len(v))
	for i := range v {
		out[i] = mArg(&v[i])
	}
	return out
}

func mArgs(a *stack.Args) MArgs {
	return MArgs{Elided: a.Elided, Processed: hbs(a.Processed), Values: mArgList(a.Values)}
}

func mCall(c *stack.Call) MCall {
	return MCall{
		Fn:     MFunc{C: hb(c.Func.Complete), IP: hb(c.Func.ImportPath), DN: hb(c.Func.DirName), N: hb(c.Func.Name), Ex: c.Func.IsExported, Main: c.Func.IsPkgMain},
		Args:   mArgs(&c.Args),
		Remote: hb(c.RemoteSrcPath), Line: c.Line, Src: hb(c.SrcName), DirSrc: hb(c.DirSrc),
		Local: hb(c.LocalSrcPath), Rel: hb(c.RelSrcPath), IP: hb(c.ImportPath), Loc: int(c.Location),
	}
}

func mStack(s *stack.Stack) MStack {
	out := MStack{Elided: s.Elided, Calls: make([]MCall, len(s.Calls))}
	for i := range s.Calls {
		out.Calls[i] = mCall(&s.Calls[i])
	}
	return out
}

func mSig(s *stack.Signature) MSig {
	return MSig{State: hb(s.State), Created: mStack(&s.CreatedBy), SMin: s.SleepMin, SMax: s.SleepMax, Stack: mStack(&s.Stack), Locked: s.Locked}
}

func mG(g *stack.Goroutine) MG {
	return MG{Sig: mSig(&g.Signature), ID: g.ID, First: g.First, RW: g.RaceWrite, RA: g.RaceAddr}
}

func mGs(gs []*stack.Goroutine) []MG {
	out := make([]MG, len(gs))
	for i, g := range gs {
		out[i] = mG(g)
	}
	return out
}

func mBucket(b *stack.Bucket) MBucket {
	ids := append([]int{}, b.IDs...)
	return MBucket{Sig: mSig(&b.Signature), IDs: ids, First: b.First}
}

func mBuckets(bs []*stack.Bucket) []MBucket {
	out := make([]MBucket, len(bs))
	for i, b := range bs {
		out[i] = mBucket(b)
	}
	return out
}

// And back: mirror -> stack values (for snapshots constructed by generators).

func sArg(a *MArg) stack.Arg {
	if a.Agg != nil {
		return stack.Arg{IsAggregate: true, Fields: stack.Args{Elided: a.Agg.Elided, Values: sArgList(a.Agg.Values)}}
	}
	return stack.Arg{Name: a.Name.String(), Value: a.V, IsPtr: a.Ptr, IsOffsetTooLarge: a.Otl, IsInaccurate: a.Inacc}
}

func sArgList(v []MArg) []stack.Arg {
	if len(v) == 0 {
		return nil
	}
	out := make([]stack.Arg, len(v))
	for i := range v {
		out[i] = sArg(&v[i])
	}
	return out
}

func sCall(c *MCall) stack.Call {
	var proc []string
	for _, p := range c.Args.Processed {
		proc = append(proc, p.String())
	}
	return stack.Call{
		Func:          stack.Func{Complete: c.Fn.C.String(), ImportPath: c.Fn.IP.String(), DirName: c.Fn.DN.String(), Name: c.Fn.N.String(), IsExported: c.Fn.Ex, IsPkgMain: c.Fn.Main},
		Args:          stack.Args{Elided: c.Args.Elided, Processed: proc, Values: sArgList(c.Args.Values)},
		RemoteSrcPath: c.Remote.String(), Line: c.Line, SrcName: c.Src.String(), DirSrc: c.DirSrc.String(),
		LocalSrcPath: c.Local.String(), RelSrcPath: c.Rel.String(), ImportPath: c.IP.String(), Location: stack.Location(c.Loc),
	}
}

func sStack(s *MStack) stack.Stack {
	out := stack.Stack{Elided: s.Elided}
	for i := range s.Calls {
		out.Calls = append(out.Calls, sCall(&s.Calls[i]))
	}
	return out
}

func sSig(s *MSig) stack.Signature {
	return stack.Signature{State: s.State.String(), CreatedBy: sStack(&s.Created), SleepMin: s.SMin, SleepMax: s.SMax, Stack: sStack(&s.Stack), Locked: s.Locked}
}

func sG(g *MG) *stack.Goroutine {
	return &stack.Goroutine{Signature: sSig(&g.Sig), ID: g.ID, First: g.First, RaceWrite: g.RW, RaceAddr: g.RA}
}

func sGs(gs []MG) []*stack.Goroutine {
	out := make([]*stack.Goroutine, len(gs))
	for i := range gs {
		out[i] = sG(&gs[i])
	}
	return out
}

func jsonStr(v interface{}) string {
	b, err := json.Marshal(v)
	if err != nil {
		panic(err)
	}
	return string(b)
}

// canon re-encodes any JSON-able value with sorted keys and exact numbers, so
// that values built from structs and values decoded from the model compare
// textually.
func canon(v interface{}) string {
	b, err := json.Marshal(v)
	if err != nil {
		panic(err)
	}
	return canonRaw(b)
}

func canonRaw(b []byte) string {
	d := json.NewDecoder(bytes.NewReader(b))
	d.UseNumber()
	var g interface{}
	if err := d.Decode(&g); err != nil {
		return "undecodable:" + string(b)
	}
	o, _ := json.Marshal(g)
	return string(o)
}
