package main

import (
	"path/filepath"
	"os"
	"bytes"
	"runtime"
	"fmt"
	"html/template"
	"io"
	"strings"
	"time"

	"github.com/maruel/panicparse/v2/stack"
	"github.com/maruel/panicparse/v2/verifhooks"
)

func init() { props["C03"] = runC03 }

var robustCorpus = []string{
	"goroutine 1 [running]:\na.%2e%2e()\n\t/a/b.go:12 +0x1\n",
	"goroutine 1 [running]:\nmain.foo%2ebar()\n\t/a/b.go:12 +0x1\n",
	"goroutine 1 [running]:\nmain.foo()\n\t/a/b.go:12 +0x1\n\n==================\nWARNING: DATA RACE\nRead at 0x00c0000e4030 by goroutine 7:\n  main.f()\n      /a/b.go:12 +0x1\n\nGoroutine 7 (running) created at:\n  main.main()\n      /a/b.go:14 +0x1\n==================\n",
	"==================\nWARNING: DATA RACE\nRead at 0x1 by goroutine 7:\n  main.f()\n      /a/b.go:12 +0x1\n\nGoroutine 7 (running) created at:\n",
	"==================\nWARNING: DATA RACE\nRead at 0x1 by goroutine 7:\n\n",
	"goroutine 1 [running]:\ncreated by x\n",
	"goroutine 1 [running]:\n\tgoroutine running on other thread; stack unavailable\ncreated by a.b\n\t/x.go:1\n\ngoroutine 2 [x]:\n",
	"goroutine 1 [running]:\nmain.f({{{{{{{0x1}}}}}}})\n\t/a.go:1\n",
	"goroutine 1 [running]:\nmain.f(0x1}\n",
	"  goroutine 1 [running]:\n  main.f()\nx\n",
	"goroutine 1 [running]:\n%.f()\n\t/a.go:1\n",
	"goroutine 1 [running]:\n.()\n\t/a.go:1\n",
	"goroutine 1 [running]:\n/.()\n\t/a.go:1\n",
	"goroutine 1 [running]:\na/b.()\n\t/a.go:1\n",
	// ids at and beyond the 18-digit limit of atou, first and later headers
	"goroutine 18446744073709551615 [running]:\nmain.f()\n\t/a.go:1\n",
	"x\n  goroutine 1234567890123456789 [running]:\nmain.f()\n\t/a.go:1\n\ngoroutine 2 [select]:\nmain.g()\n\t/b.go:2\n",
	"goroutine 1 [running]:\nmain.f()\n\t/a.go:1\n\ngoroutine 1234567890123456789 [running]:\nmain.g()\n\t/b.go:2\nend\n",
	"goroutine 123456789012345678 [running]:\nmain.f()\n\t/a.go:1234567890123456789\n",
	"goroutine 1 [running]:\nmain.f(0x1}})\n\t/a.go:1\n",
	// race operation headers the regexp accepts but whose numbers do not fit: address of more than 16
	// hex digits, goroutine id of 19 digits; in the first and in a later operation
	"==================\nWARNING: DATA RACE\nRead at 0x00c0000e403012345678 by goroutine 7:\n  main.f()\n      /a/b.go:12 +0x1\n\n==================\n",
	"==================\nWARNING: DATA RACE\nWrite at 0x00c0000e4030 by goroutine 1234567890123456789:\n  main.f()\n      /a/b.go:12 +0x1\n\n==================\n",
	"==================\nWARNING: DATA RACE\nRead at 0x00c0000e4030 by goroutine 7:\n  main.f()\n      /a/b.go:12 +0x1\n\nPrevious write at 0x00c0000e403012345678 by goroutine 8:\n  main.g()\n      /a/b.go:13 +0x1\n\n==================\n",
	"==================\nWARNING: DATA RACE\nRead at 0x00c0000e4030 by goroutine 7:\n  main.f()\n      /a/b.go:12 +0x1\n\nPrevious write at 0x00c0000e4030 by goroutine 1234567890123456789:\n  main.g()\n      /a/b.go:13 +0x1\n\n==================\n",
}

// renderAll aggregates at every level and renders as text and HTML.
func renderAll(s *stack.Snapshot) (what string, p interface{}) {
	full, rel, base := verifhooks.PathFormats()
	for _, lvl := range levels {
		what = fmt.Sprintf("Aggregate(%d)", lvl)
		var a *stack.Aggregated
		if p = catch(func() { a = s.Aggregate(lvl) }); p != nil {
			return
		}
		what = fmt.Sprintf("Aggregated.ToHTML(level %d)", lvl)
		if p = catch(func() {
			if err := a.ToHTML(io.Discard, template.HTML("")); err != nil {
				panic("ToHTML error: " + err.Error())
			}
		}); p != nil {
			return
		}
		for _, pf := range []int{full, rel, base} {
			for _, colour := range []bool{false, true} {
				what = fmt.Sprintf("console buckets (level %d, pf %d)", lvl, pf)
				if p = catch(func() { verifhooks.WriteBuckets(io.Discard, verifhooks.NewPalette(colour), a, pf, true, nil, nil) }); p != nil {
					return
				}
			}
		}
	}
	what = "Snapshot.ToHTML"
	if p = catch(func() {
		if err := s.ToHTML(io.Discard, template.HTML("")); err != nil {
			panic("ToHTML error: " + err.Error())
		}
	}); p != nil {
		return
	}
	what = "console goroutines"
	p = catch(func() { verifhooks.WriteGoroutines(io.Discard, verifhooks.NewPalette(true), s, base, false, nil, nil) })
	return
}

func mutateStream(r *Rng, s string) string {
	lines := splitKeepEOL(s)
	if len(lines) == 0 {
		return s
	}
	for k := 1 + r.Intn(3); k > 0; k-- {
		i := r.Intn(len(lines))
		switch r.Intn(8) {
		case 0: // delete
			lines = append(lines[:i], lines[i+1:]...)
		case 1: // duplicate
			lines = append(lines[:i], append([]string{lines[i]}, lines[i:]...)...)
		case 2: // swap
			j := r.Intn(len(lines))
			lines[i], lines[j] = lines[j], lines[i]
		case 3: // splice a line of another kind
			names := kindNames()
			lines = append(lines[:i], append([]string{kindLines[names[r.Intn(len(names))]]}, lines[i:]...)...)
		case 4: // truncate the stream
			lines = lines[:i+1]
			lines[i] = lines[i][:r.Intn(len(lines[i])+1)]
		case 5, 6: // corrupt a line
			eol := ""
			l := lines[i]
			if strings.HasSuffix(l, "\n") {
				eol, l = "\n", l[:len(l)-1]
			}
			lines[i] = strings.ReplaceAll(mutateLine(r, l), "\n", "") + eol
		default: // splice an adversarial line, now and then one about as long as the read buffer
			l := adversarialLines[r.Intn(len(adversarialLines))]
			if r.Chance(1, 6) {
				l = strings.Repeat("a", 8000+r.Intn(9000))
			}
			lines = append(lines[:i], append([]string{l + "\n"}, lines[i:]...)...)
		}
		if len(lines) == 0 {
			break
		}
	}
	return strings.Join(lines, "")
}

// runC03Sources: source analysis on real files.  The runtime prints at most ten words per
// call, so an argument list can stop anywhere - also in the middle of a string, slice or
// interface value.  Every such prefix, for functions whose parameters take one, two or three
// words, must be augmented (or left alone) without a crash.
func runC03Sources(res *Result, r *Rng) {
	dir, err := os.MkdirTemp("", "verif-c03-src-")
	if err != nil {
		return
	}
	defer os.RemoveAll(dir)
	type fn struct {
		name   string
		params string
		shape  []int // words per parameter
		line   int
	}
	fns := []fn{
		{"f", "a, b, c, d []int", []int{3, 3, 3, 3}, 0},
		{"g", "s string, i interface{}, e error, p *int, m map[string]int", []int{2, 2, 2, 1, 1}, 0},
		{"h", "a int, s string, b []byte, v ...interface{}", []int{1, 2, 3, 3}, 0},
		{"k", "x float64, ok bool, c chan int, cb func(), t string", []int{1, 1, 1, 1, 2}, 0},
	}
	var src strings.Builder
	src.WriteString("package main\n\n")
	line := 3
	for i := range fns {
		fmt.Fprintf(&src, "func %s(%s) {\n\tpanic(1)\n}\n\n", fns[i].name, fns[i].params)
		fns[i].line = line + 1
		line += 4
	}
	src.WriteString("func main() {\n}\n")
	os.MkdirAll(filepath.Join(dir, "src", "app"), 0o755)
	path := filepath.Join(dir, "src", "app", "main.go")
	os.WriteFile(path, []byte(src.String()), 0o644)
	opts := &stack.Opts{LocalGOPATHs: []string{dir}, NameArguments: true, GuessPaths: true, AnalyzeSources: true}
	// files that end without a newline, with a frame on every line up to and beyond the last one
	for v, tail := range []string{"func last(a int) {\n\tpanic(a)\n}", "func last(a int) { panic(a) }", "func last(a int) {\n\tpanic(a)\n}\n// no newline after this comment", "var x = 1"} {
		p2 := filepath.Join(dir, "src", "app", fmt.Sprintf("tail%d.go", v))
		text := "package main\n\nfunc first(s string) {\n\tpanic(s)\n}\n\n" + tail
		os.WriteFile(p2, []byte(text), 0o644)
		nl := strings.Count(text, "\n") + 1
		for l := 0; l <= nl+2; l++ {
			dump := fmt.Sprintf("goroutine 1 [running]:\nmain.last(0x5)\n\t%s:%d +0x1d\nmain.first({0xc000012345, 0x3})\n\t%s:4 +0x2\n\n", p2, l, p2)
			var s *stack.Snapshot
			if p := catch(func() { s, _, _ = stack.ScanSnapshot(strings.NewReader(dump), io.Discard, opts) }); p != nil {
				res.Violation(Finding{Stream: "sources", What: fmt.Sprintf("ScanSnapshot with the sources on disk panicked on a frame at line %d of a %d-line file that ends without a newline: %v", l, nl, p), Op: map[string]interface{}{"dump": dump, "source": text}})
				return
			}
			res.Count("source-last-lines")
			if s != nil {
				if what, p := renderAll(s); p != nil {
					res.Violation(Finding{Stream: "sources", What: fmt.Sprintf("%s panicked on a snapshot augmented from sources: %v", what, p), Op: map[string]interface{}{"dump": dump}})
					return
				}
			}
		}
	}
	// files that cannot be loaded - missing under a root that another file establishes, not Go at all,
	// a syntax error, a directory, unreadable - each named by TWO frames with arguments (a loader that
	// remembers a failure must not hand it back as a success), and again in a second scan
	{
		bad := map[string]string{"syntax.go": "package main\n\nfunc broken(a int { panic(a) }\n", "notgo.go": "\x00\x01 this is not Go\n", "empty.go": ""}
		for name, text := range bad {
			os.WriteFile(filepath.Join(dir, "src", "app", name), []byte(text), 0o644)
		}
		os.Mkdir(filepath.Join(dir, "src", "app", "dir.go"), 0o755)
		os.WriteFile(filepath.Join(dir, "src", "app", "noperm.go"), []byte("package main\n\nfunc np(a int) {\n\tpanic(a)\n}\n"), 0o000)
		for _, name := range []string{"missing.go", "syntax.go", "notgo.go", "empty.go", "dir.go", "noperm.go"} {
			pb := filepath.Join(dir, "src", "app", name)
			dump := fmt.Sprintf("goroutine 1 [running]:\nmain.broken(0x5)\n\t%s:3 +0x1d\nmain.other(0x7, 0x8)\n\t%s:3 +0x2\nmain.f({0xc000012345, 0x3, 0x3}, {0x1, 0x2, 0x2}, {0x0, 0x0, 0x0}, {0x0, 0x0, 0x0})\n\t%s:%d +0x2\n\ngoroutine 2 [select]:\nmain.broken(0x6)\n\t%s:3 +0x1d\n\n", pb, pb, path, fns[0].line, pb)
			for round := 0; round < 2; round++ {
				var s *stack.Snapshot
				if p := catch(func() { s, _, _ = stack.ScanSnapshot(strings.NewReader(dump), io.Discard, opts) }); p != nil {
					res.Violation(Finding{Stream: "sources", What: fmt.Sprintf("ScanSnapshot with source analysis on panicked on a dump with several frames in a file that cannot be loaded (%s): %v", name, p), Op: map[string]interface{}{"dump": dump, "file": name}})
					return
				}
				res.Count("source-unloadable")
				if s == nil || len(s.Goroutines) != 2 {
					res.Violation(Finding{Stream: "sources", What: fmt.Sprintf("a dump with frames in a file that cannot be loaded (%s) did not give its 2 goroutines", name), Op: map[string]interface{}{"dump": dump, "file": name}})
					return
				}
				// the frame in the loadable file is still augmented
				if c := s.Goroutines[0].Stack.Calls; len(c) != 3 || len(c[2].Args.Processed) == 0 {
					res.Violation(Finding{Stream: "sources", What: fmt.Sprintf("a frame whose source is on disk was not augmented because another file of the dump (%s) cannot be loaded", name), Op: map[string]interface{}{"dump": dump, "file": name}})
					return
				}
				if what, p := renderAll(s); p != nil {
					res.Violation(Finding{Stream: "sources", What: fmt.Sprintf("%s panicked on a snapshot with frames in an unloadable file: %v", what, p), Op: map[string]interface{}{"dump": dump}})
					return
				}
			}
		}
		os.Chmod(filepath.Join(dir, "src", "app", "noperm.go"), 0o600)
	}
	for _, f := range fns {
		total := 0
		for _, w := range f.shape {
			total += w
		}
		for k := 0; k <= total; k++ {
			for _, dots := range []bool{false, true} {
				// print the first k words, grouped like the runtime groups them
				var parts []string
				left := k
				for _, w := range f.shape {
					if left == 0 {
						break
					}
					n := w
					if n > left {
						n = left
					}
					var ws []string
					for j := 0; j < n; j++ {
						ws = append(ws, fmt.Sprintf("0x%x", 0xc000010000+uint64(r.Intn(4))*0x1000+uint64(j)))
					}
					left -= n
					if w == 1 {
						parts = append(parts, ws[0])
					} else {
						if n < w && dots {
							ws = append(ws, "...")
						}
						parts = append(parts, "{"+strings.Join(ws, ", ")+"}")
					}
				}
				if dots && k < total && (len(parts) == 0 || !strings.HasSuffix(parts[len(parts)-1], "...}")) {
					parts = append(parts, "...")
				}
				dump := fmt.Sprintf("goroutine 1 [running]:\nmain.%s(%s)\n\t%s:%d +0x1d\nmain.main()\n\t%s:%d +0x2\n\n", f.name, strings.Join(parts, ", "), path, f.line, path, line)
				var s *stack.Snapshot
				if p := catch(func() { s, _, _ = stack.ScanSnapshot(strings.NewReader(dump), io.Discard, opts) }); p != nil {
					res.Violation(Finding{Stream: "sources", What: fmt.Sprintf("ScanSnapshot with the sources on disk panicked on an argument list that stops after %d of %d words of func %s(%s): %v", k, total, f.name, f.params, p), Op: map[string]interface{}{"dump": dump, "source": src.String()}})
					return
				}
				res.Count("source-truncated-args")
				if s != nil {
					if what, p := renderAll(s); p != nil {
						res.Violation(Finding{Stream: "sources", What: fmt.Sprintf("%s panicked on a snapshot augmented from sources: %v", what, p), Op: map[string]interface{}{"dump": dump}})
						return
					}
				}
			}
		}
	}
}

var goroot = strings.ReplaceAll(runtime.GOROOT(), "\\", "/")

func runC03(prop string, res *Result, pool *DrvPool, r *Rng) {
	res.Rule = "corpus of past crashers, then grammar-aware mutants of generated dumps and race reports (delete/duplicate/swap/splice lines, truncate, corrupt characters incl. invalid UTF-8, escapes, brackets, numbers) and every line-kind sequence up to a bounded length; each input is scanned (repeatedly, with the resume protocol), every snapshot aggregated at all levels and rendered as text and HTML, and run through the command's process(); all under recover with a time bound; non-trivial = the mutant reaches a non-looking state; distinct by hash of the input"
	runLowStreams(res, pool, r.Fork())
	runC03Sources(res, r.Fork())
	check := func(name, input string) {
		op := &ScanOp{Op: "scan", Data: hb(input), Sched: genSched(r, len(input)), Final: "eof", WithData: r.Bool()}
		var el time.Duration
		timed := func(f func()) { st := time.Now(); f(); el += time.Since(st) }
		in := input
		reached := false
		for call := 0; call < 64; call++ {
			cop := op
			if call > 0 {
				cop = &ScanOp{Op: "scan", Data: hb(in), Sched: []int{}, Final: "eof"}
			}
			var got ScanRes
			timed(func() { got = implScan(cop) })
			if got.Panic {
				res.Violation(Finding{Stream: "scan", What: name + ": ScanSnapshot panicked: " + got.PanicMsg, Op: cop})
				return
			}
			if got.Snap != nil {
				reached = true
			}
			{
				// whatever snapshot comes back (also one returned together with an error, also an
				// empty one) must survive everything a caller does with a snapshot
				rd := &SchedReader{data: []byte(in), final: io.EOF}
				var s *stack.Snapshot
				if p := catch(func() { s, _, _ = stack.ScanSnapshot(rd, io.Discard, &stack.Opts{NameArguments: true}) }); p != nil {
					res.Violation(Finding{Stream: "scan", What: fmt.Sprintf("%s: ScanSnapshot panicked: %v", name, p), Op: cop})
					return
				}
				if s != nil {
					var what string
					var p interface{}
					if p = catch(func() { s.IsRace() }); p != nil {
						res.Violation(Finding{Stream: "render", What: fmt.Sprintf("%s: Snapshot.IsRace panicked: %v", name, p), Op: cop})
						return
					}
					timed(func() { what, p = renderAll(s) })
					if p != nil {
						res.Violation(Finding{Stream: "render", What: fmt.Sprintf("%s: %s panicked: %v", name, what, p), Op: cop})
						return
					}
				}
			}
			if call == 0 || call%4 == 1 {
				modelScan(pool, res, cop, got, nil)
			}
			if call == 0 {
				// the default options (path guessing and source analysis on)
				if p := catch(func() {
					stack.ScanSnapshot(strings.NewReader(in), io.Discard, &stack.Opts{LocalGOROOT: goroot, LocalGOPATHs: []string{"/nonexistent/gp1", "/nonexistent/gopath2"}, NameArguments: true, GuessPaths: true, AnalyzeSources: true})
				}); p != nil {
					res.Violation(Finding{Stream: "scan", What: fmt.Sprintf("%s: ScanSnapshot with path guessing and source analysis on panicked: %v", name, p), Op: cop})
					return
				}
			}
			if got.Err != "" {
				break
			}
			// progress: a call that returns no error must have consumed something
			if len(got.Rest.String()) >= len(in) {
				res.Violation(Finding{Stream: "scan", What: name + ": a scan returned err == nil without consuming anything (repeated scanning would not terminate)", Op: cop, Got: got})
				return
			}
			in = got.Rest.String()
			if call == 63 {
				res.Count("many-calls")
			}
		}
		// the command
		_, _, base := verifhooks.PathFormats()
		done := make(chan interface{}, 1)
		go func() {
			_, _, p := runProcess(input, stack.AnyValue, base, true, nil, nil)
			done <- p
		}()
		select {
		case p := <-done:
			if p != nil {
				res.Violation(Finding{Stream: "cli", What: fmt.Sprintf("%s: process panicked: %v", name, p), Op: op})
			}
		case <-time.After(20 * time.Second):
			res.Violation(Finding{Stream: "cli", What: name + ": process did not terminate within 20 s", Op: op})
		}
		if el > 5*time.Second {
			res.Violation(Finding{Stream: "scan", What: fmt.Sprintf("%s: %d bytes took %v", name, len(input), el), Op: op})
		}
		res.Eval(input, reached)
	}
	for i, c := range robustCorpus {
		check(fmt.Sprintf("corpus-%d", i), c)
	}
	n := countN(res.Tier, 2500, 120000)
	for i := 0; i < n; i++ {
		var base string
		switch r.Intn(4) {
		case 0:
			rs := GenRace(r)
			base = rs.Print(r.Chance(1, 6))
		case 1:
			base, _ = genStream(r)
		default:
			base = GenCfg(r).Dump(GenDump(r, 4, 4))
		}
		m := mutateStream(r, base)
		check("mutant", m)
		if i < 3 {
			res.Sample(map[string]interface{}{"input": clip(m)})
		}
	}
	// constructed snapshots: same frames with arguments of different shapes,
	// names, flags - what a scan cannot produce but Aggregate must survive
	for i := 0; i < countN(res.Tier, 600, 20000); i++ {
		gs := GenSnapshot(r, 10)
		snap := &stack.Snapshot{Goroutines: sGs(gs)}
		res.Eval(jsonStr(gs), true)
		if what, p := renderAll(snap); p != nil {
			res.Violation(Finding{Stream: "render", What: fmt.Sprintf("constructed snapshot: %s panicked: %v", what, p), Op: map[string]interface{}{"op": "agg", "gs": gs, "lvl": 3, "oracle": 0}})
		}
		res.Count("constructed-snapshots")
	}
	// doubling: time stays roughly linear (supporting evidence only)
	unit := GenCfg(NewRng(3)).Dump(GenDump(NewRng(3), 6, 6)) + "\n"
	var t [3]time.Duration
	for k := 0; k < 3; k++ {
		in := strings.Repeat(unit, 200<<k)
		st := time.Now()
		catch(func() { stack.ScanSnapshot(bytes.NewReader([]byte(in)), io.Discard, &stack.Opts{}) })
		t[k] = time.Since(st)
	}
	res.Extra["scan_time_200_400_800_units_ms"] = []int64{t[0].Milliseconds(), t[1].Milliseconds(), t[2].Milliseconds()}
	runKindSequences(res, pool, countN(res.Tier, 3, 4), func(seq []string, steps []scanStep) {
		if len(steps) > 0 && steps[len(steps)-1].Panic {
			res.Violation(Finding{Stream: "scanline", What: fmt.Sprintf("scan panicked on the line-kind sequence %v", seq), Op: map[string]interface{}{"kinds": seq}})
		}
	})
}
