package c20lib

import (
	"bytes"
	"strings"
	"testing"
	"time"
)

//go:noinline
func testTakeDump() []byte { return TakeDump() }

// The oracle must accept a real dump and reject doctored ones.
func TestOracleSensitivity(t *testing.T) {
	w := Start(Config{PerKind: 1, Churners: 1, ShortLive: 10, Seed: 1})
	defer w.Stop()
	time.Sleep(100 * time.Millisecond)
	w.Pause()
	reg := w.Registry()
	raw := testTakeDump()
	if rep := CheckLive(raw, reg, "testTakeDump"); len(rep.Problems) != 0 || len(rep.Transient) != 0 {
		t.Fatalf("clean dump rejected: %v %v", rep.Problems, rep.Transient)
	}
	doctor := func(name, old, new string, want string) {
		d := bytes.Replace(raw, []byte(old), []byte(new), 1)
		if bytes.Equal(d, raw) {
			t.Fatalf("%s: pattern %q not in the dump", name, old)
		}
		rep := CheckLive(d, reg, "testTakeDump")
		if !strings.Contains(strings.Join(rep.Problems, "\n"), want) {
			t.Errorf("%s: want a problem containing %q, got %v", name, want, rep.Problems)
		}
	}
	doctor("state", "[chan send]", "[chan receive]", "state")
	doctor("locked", ", locked to thread]", "]", "Locked")
	doctor("frame", "c20lib.churnSelect(", "c20lib.churnOther(", "frame")
	doctor("creator", "created by verifharness/c20lib.spawnSleep", "created by verifharness/c20lib.spawnSloop", "created by")
	doctor("creator id", "c20lib.spawnSleep in goroutine ", "c20lib.spawnSleep in goroutine 9", "created in goroutine")
	doctor("lost header", "\ngoroutine ", "\ngoroutinE ", "header")
	doctor("elided", " frames elided...", " frames elidxd...", "")
	if Valid("GET", "1_000", "", "") || Valid("GET", "", "2", "") || Valid("get", "", "", "") || !Valid("GET", "-0", "+1", "anyvalue") || Valid("GET", "9223372036854775808", "", "") {
		t.Error("Valid")
	}
}
