package c20lib

import (
	"bytes"
	"fmt"
	"io"
	"math/big"
	"regexp"
	"runtime"
	"sort"
	"strconv"
	"strings"

	"github.com/maruel/panicparse/v2/stack"
)

// TakeDump is runtime.Stack(all) with a buffer grown until the text fits.
func TakeDump() []byte {
	for sz := 1 << 18; ; sz *= 2 {
		buf := make([]byte, sz)
		if n := runtime.Stack(buf, true); n < len(buf) {
			return buf[:n]
		}
	}
}

var reHeaderLine = regexp.MustCompile(`(?m)^goroutine (\d+) `)

// HeaderIDs is the independent count: the ids on the lines that start with
// "goroutine <digits> " in the raw text.
func HeaderIDs(raw []byte) []int {
	var ids []int
	for _, m := range reHeaderLine.FindAllSubmatch(raw, -1) {
		v, _ := strconv.Atoi(string(m[1]))
		ids = append(ids, v)
	}
	return ids
}

// LiveReport is the outcome of the library-level oracle on one dump.
type LiveReport struct {
	Problems  []string       // failures of the property
	Transient []string       // registered goroutines caught between registration and parking (runnable/running): retry
	States    map[string]int // histogram of parsed states
	Snapshot  *stack.Snapshot
	Headers   int
	Checked   int // registered goroutines verified
	CreatedIn int // creators whose " in goroutine N" suffix was verified
}

var reInGoroutine = regexp.MustCompile(`^(.*) in goroutine (\d+)$`)

func sameInts(a, b []int) bool {
	if len(a) != len(b) {
		return false
	}
	a, b = append([]int{}, a...), append([]int{}, b...)
	sort.Ints(a)
	sort.Ints(b)
	for i := range a {
		if a[i] != b[i] {
			return false
		}
	}
	return true
}

// CheckLive evaluates the library half of C20 on one dump taken while the
// registered goroutines were parked: the text parses to EOF, one goroutine per
// header line, the registered goroutines show their state, frames and creator,
// aggregation partitions the ids at every level and the page renders.
// `snapFunc` is the name of the function (in this package or the caller's) that
// called runtime.Stack: the first goroutine must be running in it; "" skips
// this check.
func CheckLive(raw []byte, reg []Entry, snapFunc string) *LiveReport {
	rep := &LiveReport{States: map[string]int{}}
	bad := func(f string, a ...interface{}) { rep.Problems = append(rep.Problems, fmt.Sprintf(f, a...)) }
	s, suffix, err := stack.ScanSnapshot(bytes.NewReader(raw), io.Discard, &stack.Opts{})
	if err != io.EOF {
		bad("ScanSnapshot on the live dump returned error %v (want io.EOF)", err)
	}
	if len(suffix) != 0 {
		bad("ScanSnapshot left %d unparsed bytes: %q", len(suffix), clip(string(suffix)))
	}
	if s == nil {
		bad("ScanSnapshot returned no snapshot")
		return rep
	}
	rep.Snapshot = s
	hdr := HeaderIDs(raw)
	rep.Headers = len(hdr)
	var ids []int
	byID := map[int]*stack.Goroutine{}
	for _, g := range s.Goroutines {
		ids = append(ids, g.ID)
		if byID[g.ID] != nil {
			bad("goroutine id %d parsed twice", g.ID)
		}
		byID[g.ID] = g
		rep.States[g.State]++
	}
	if len(ids) != len(hdr) {
		bad("%d goroutines parsed but the text has %d header lines", len(ids), len(hdr))
	} else {
		for i := range ids {
			if ids[i] != hdr[i] {
				bad("goroutine %d of the snapshot has id %d, header line %d says %d", i, ids[i], i, hdr[i])
				break
			}
		}
	}
	// the goroutine that called runtime.Stack comes first and is running
	if len(s.Goroutines) > 0 {
		g := s.Goroutines[0]
		if !g.First {
			bad("the first goroutine is not marked First")
		}
		if g.State != "running" {
			bad("the goroutine that took the dump is in state %q, want running", g.State)
		}
		if snapFunc != "" {
			found := false
			for _, c := range g.Stack.Calls {
				if c.Func.Name == snapFunc {
					found = true
				}
			}
			if !found {
				bad("the goroutine that took the dump does not show the frame %s", snapFunc)
			}
		}
		for _, o := range s.Goroutines[1:] {
			if o.First {
				bad("goroutine %d is marked First but is not the first", o.ID)
			}
		}
	}
	for _, e := range reg {
		g := byID[e.GoID]
		if g == nil {
			bad("registered goroutine %d (%s) is missing from the snapshot", e.GoID, e.Kind)
			continue
		}
		okState := false
		for _, st := range e.States {
			if g.State == st {
				okState = true
			}
		}
		if !okState {
			if g.State == "runnable" || g.State == "running" {
				rep.Transient = append(rep.Transient, fmt.Sprintf("%d (%s) is %s", e.GoID, e.Kind, g.State))
				continue
			}
			bad("goroutine %d (%s): state %q, want one of %q", e.GoID, e.Kind, g.State, e.States)
			continue
		}
		if g.Locked != e.Locked {
			bad("goroutine %d (%s): Locked=%v, want %v", e.GoID, e.Kind, g.Locked, e.Locked)
		}
		if g.Stack.Elided != e.Elided {
			bad("goroutine %d (%s): Stack.Elided=%v with %d frames, want %v", e.GoID, e.Kind, g.Stack.Elided, len(g.Stack.Calls), e.Elided)
		}
		if e.Elided && len(g.Stack.Calls) != 100 {
			bad("goroutine %d (%s): %d frames parsed of an elided stack, the runtime prints 100", e.GoID, e.Kind, len(g.Stack.Calls))
		}
		// innermost frame of this package
		top := ""
		for _, c := range g.Stack.Calls {
			if c.Func.ImportPath == Pkg {
				top = c.Func.Name
				break
			}
		}
		if top != e.TopFunc && !(g.State == "runnable" || g.State == "running") {
			bad("goroutine %d (%s): innermost frame of the workload is %q, want %q", e.GoID, e.Kind, top, e.TopFunc)
		}
		if n := len(g.Stack.Calls); n == 0 {
			bad("goroutine %d (%s): no frames", e.GoID, e.Kind)
		} else if last := g.Stack.Calls[n-1]; last.Func.ImportPath != Pkg || last.Func.Name != e.EntryFunc {
			bad("goroutine %d (%s): outermost frame is %q, want %s.%s", e.GoID, e.Kind, last.Func.Complete, Pkg, e.EntryFunc)
		} else if !strings.HasSuffix(last.RemoteSrcPath, "/c20lib/churn.go") || last.Line <= 0 {
			bad("goroutine %d (%s): outermost frame located at %s:%d", e.GoID, e.Kind, last.RemoteSrcPath, last.Line)
		}
		// creator
		if len(g.CreatedBy.Calls) != 1 {
			bad("goroutine %d (%s): %d created-by frames", e.GoID, e.Kind, len(g.CreatedBy.Calls))
			continue
		}
		cb := g.CreatedBy.Calls[0].Func.Complete
		if m := reInGoroutine.FindStringSubmatch(cb); m != nil {
			// Go >= 1.21 prints "created by F in goroutine N"; panicparse keeps the
			// suffix inside the function name (pinned by its own tests)
			cb = m[1]
			if n, _ := strconv.Atoi(m[2]); n != e.CreatorID {
				bad("goroutine %d (%s): created in goroutine %d, want %d", e.GoID, e.Kind, n, e.CreatorID)
			} else {
				rep.CreatedIn++
			}
		}
		if cb != Pkg+"."+e.Creator {
			bad("goroutine %d (%s): created by %q, want %s.%s", e.GoID, e.Kind, cb, Pkg, e.Creator)
		}
		rep.Checked++
	}
	// aggregation at every level: the ids are partitioned, the page renders with one <h1> per bucket
	for _, lvl := range []stack.Similarity{stack.ExactFlags, stack.ExactLines, stack.AnyPointer, stack.AnyValue} {
		a := s.Aggregate(lvl)
		var all []int
		for _, b := range a.Buckets {
			if len(b.IDs) == 0 {
				bad("level %d: empty bucket", lvl)
			}
			all = append(all, b.IDs...)
		}
		if !sameInts(all, ids) {
			bad("level %d: the bucket ids (%d) are not a partition of the goroutine ids (%d)", lvl, len(all), len(ids))
		}
		var page bytes.Buffer
		if err := a.ToHTML(&page, ""); err != nil {
			bad("level %d: ToHTML: %v", lvl, err)
			continue
		}
		pg := ParsePage(page.Bytes())
		if pg.Problem != "" {
			bad("level %d: page: %s", lvl, pg.Problem)
		}
		if pg.H1 != len(a.Buckets) || pg.Buckets != len(a.Buckets) {
			bad("level %d: %d buckets but %d <h1> (%d signature headings)", lvl, len(a.Buckets), pg.H1, pg.Buckets)
		}
		if pg.Routines != len(ids) {
			bad("level %d: the page accounts for %d goroutines of %d", lvl, pg.Routines, len(ids))
		}
	}
	return rep
}

func clip(s string) string {
	if len(s) > 160 {
		return s[:80] + "…" + s[len(s)-70:]
	}
	return s
}

// Page is what can be read back from the HTML.
type Page struct {
	H1       int // <h1> elements
	Buckets  int // "Signature #i: N routine(s)" headings
	Routines int // sum of N
	Problem  string
}

// the last thing the template (stack/goroutines.tpl) writes
const pageEnd = `<div class="bottom-padding"></div>`

var reSigH1 = regexp.MustCompile(`<h1>Signature #(\d+): (\d+) routines?: <span class="state">`)

// ParsePage checks that the body is a complete page and counts what it
// accounts for.
func ParsePage(body []byte) Page {
	var p Page
	switch {
	case !bytes.Contains(body, []byte("<!DOCTYPE html>")):
		p.Problem = "no <!DOCTYPE html>"
	case !bytes.HasSuffix(bytes.TrimSpace(body), []byte(pageEnd)):
		p.Problem = "the page is cut: it does not end with the template's last element " + pageEnd
	}
	p.H1 = bytes.Count(body, []byte("<h1>"))
	for i, m := range reSigH1.FindAllSubmatch(body, -1) {
		p.Buckets++
		idx, _ := strconv.Atoi(string(m[1]))
		if idx != i && p.Problem == "" {
			p.Problem = fmt.Sprintf("signature heading %d is numbered %d", i, idx)
		}
		n, _ := strconv.Atoi(string(m[2]))
		p.Routines += n
	}
	return p
}

// ---- the request grid and the property's reading of "valid" -----------------

var (
	GridMethods    = []string{"GET", "POST", "HEAD", "PUT", "", "get"}
	GridMaxmem     = []string{"", "0", "1", "1048576", "67108864", "-5", "abc", "1e6", "9223372036854775808", " 1", "+5", "1_000"}
	GridAugment    = []string{"", "0", "1", "2", "-1", "x", "01", "+1", "-0", "1.0"}
	GridSimilarity = []string{"", "exactflags", "exactlines", "anypointer", "anyvalue", "AnyValue", "any", "exactflags "}
)

var reInt = regexp.MustCompile(`^[+-]?[0-9]+$`)

// intValue: the decimal integer a string denotes if it denotes one that fits
// Go's int (64 bits); independent of strconv.
func intValue(s string) (int64, bool) {
	if !reInt.MatchString(s) {
		return 0, false
	}
	v, ok := new(big.Int).SetString(strings.TrimPrefix(s, "+"), 10)
	if !ok || !v.IsInt64() {
		return 0, false
	}
	return v.Int64(), true
}

// ValidMaxmem: absent or an integer.
func ValidMaxmem(s string) bool {
	_, ok := intValue(s)
	return s == "" || ok
}

// ValidAugment: absent, 0 or 1.
func ValidAugment(s string) bool {
	v, ok := intValue(s)
	return s == "" || (ok && (v == 0 || v == 1))
}

// ValidSimilarity: absent or one of the four lower-case names.
func ValidSimilarity(s string) bool {
	switch s {
	case "", "exactflags", "exactlines", "anypointer", "anyvalue":
		return true
	}
	return false
}

// Valid is the property's "GET carrying valid similarity, augment and maxmem".
func Valid(method, maxmem, augment, similarity string) bool {
	return method == "GET" && ValidMaxmem(maxmem) && ValidAugment(augment) && ValidSimilarity(similarity)
}

// CheckResponse is the direct oracle on one response of the handler, for a
// dump that fits: valid requests get a complete page accounting for at least
// `minRoutines` goroutines and naming every function of `mustName`, everything
// else a 4xx status.
func CheckResponse(method, maxmem, augment, similarity string, status int, contentType string, body []byte, minRoutines, maxRoutines int, mustName []string) string {
	if !Valid(method, maxmem, augment, similarity) {
		if status < 400 || status > 499 {
			return fmt.Sprintf("invalid request answered %d, want 4xx", status)
		}
		return ""
	}
	if status != 200 {
		return fmt.Sprintf("valid request answered %d (%q), want 200", status, clip(string(body)))
	}
	if method == "HEAD" {
		return ""
	}
	if !strings.HasPrefix(contentType, "text/html") {
		return fmt.Sprintf("Content-Type %q, want text/html", contentType)
	}
	pg := ParsePage(body)
	if pg.Problem != "" {
		return pg.Problem
	}
	if pg.H1 != pg.Buckets || pg.Buckets == 0 {
		return fmt.Sprintf("%d <h1> but %d signature headings", pg.H1, pg.Buckets)
	}
	if pg.Routines < minRoutines || pg.Routines > maxRoutines {
		return fmt.Sprintf("the page accounts for %d goroutines, the process has between %d and %d", pg.Routines, minRoutines, maxRoutines)
	}
	for _, f := range mustName {
		if !bytes.Contains(body, []byte(f)) {
			return fmt.Sprintf("the page does not mention %s, a function a parked goroutine is in", f)
		}
	}
	return ""
}

// FuncNames lists the distinct innermost functions of the registry.
func FuncNames(reg []Entry) []string {
	seen := map[string]bool{}
	var out []string
	for _, e := range reg {
		if e.Kind == "spin" {
			continue // may be caught anywhere
		}
		if !seen[e.TopFunc] {
			seen[e.TopFunc] = true
			out = append(out, e.TopFunc)
		}
	}
	sort.Strings(out)
	return out
}
