package c20lib

import (
	"fmt"
	"io"
	"net/http"
	"net/url"
	"strings"
	"sync"
	"time"
)

// Req is one request to the snapshot handler.
type Req struct {
	Method     string `json:"method"`
	Maxmem     string `json:"maxmem"`
	Augment    string `json:"augment"`
	Similarity string `json:"similarity"`
	InBody     bool   `json:"inBody,omitempty"` // parameters in an urlencoded body instead of the query (POST/PUT only)
}

// Resp is the answer to one Req.
type Resp struct {
	Req
	Status      int
	ContentType string
	Body        []byte
	Err         error
	// Marker, if not empty, is the function a goroutine started (and known to
	// be running) before the request was sent, and kept alive until the answer
	// was read, is in: a complete page for a valid GET mentions it.
	Marker string
}

// Query encodes the three parameters; empty ones are left out half of the time
// (`k=` and an absent k are the same for FormValue).
func (q *Req) Query(keepEmpty bool) string {
	v := url.Values{}
	set := func(k, s string) {
		if s != "" || keepEmpty {
			v.Set(k, s)
		}
	}
	set("maxmem", q.Maxmem)
	set("augment", q.Augment)
	set("similarity", q.Similarity)
	return v.Encode()
}

// GenReq draws a request: mostly valid, each field invalid with a small
// probability, so that all combinations of (first invalid field) occur.
func GenReq(r *lcg) Req {
	pick := func(valid, all []string) string {
		if r.next()%5 == 0 {
			return all[int(r.next())%len(all)]
		}
		return valid[int(r.next())%len(valid)]
	}
	q := Req{
		Method:     pick([]string{"GET"}, GridMethods[:4]),
		Maxmem:     pick([]string{"", "0", "1", "1048576", "67108864", "-5", "+5", "2097152"}, GridMaxmem),
		Augment:    pick([]string{"", "0", "1", "01", "+1", "-0"}, GridAugment),
		Similarity: pick([]string{"", "exactflags", "exactlines", "anypointer", "anyvalue"}, GridSimilarity),
	}
	if q.Method == "" {
		q.Method = "GET"
	}
	if (q.Method == "POST" || q.Method == "PUT") && r.next()%2 == 0 {
		q.InBody = true
	}
	return q
}

// NewLCG exposes the package's small generator.
func NewLCG(seed uint64) *lcg { return &lcg{s: seed*2862933555777941757 + 3037000493} }

// Do sends one request.
func Do(c *http.Client, base string, q Req, keepEmpty bool) Resp {
	var body io.Reader
	target := base + "/"
	enc := q.Query(keepEmpty)
	if q.InBody {
		body = strings.NewReader(enc)
	} else if enc != "" {
		target += "?" + enc
	}
	hr, err := http.NewRequest(q.Method, target, body)
	if err != nil {
		return Resp{Req: q, Err: err}
	}
	if q.InBody {
		hr.Header.Set("Content-Type", "application/x-www-form-urlencoded")
	}
	resp, err := c.Do(hr)
	if err != nil {
		return Resp{Req: q, Err: err}
	}
	defer resp.Body.Close()
	b, err := io.ReadAll(resp.Body)
	return Resp{Req: q, Status: resp.StatusCode, ContentType: resp.Header.Get("Content-Type"), Body: b, Err: err}
}

// RunClients runs `clients` goroutines, each sending `perClient` random
// requests (or until `deadline` if perClient is 0) and handing every response
// to `handle` (called concurrently).
func RunClients(base string, clients, perClient int, seed uint64, deadline time.Time, handle func(Resp)) {
	var wg sync.WaitGroup
	for c := 0; c < clients; c++ {
		wg.Add(1)
		go func(c int) {
			defer wg.Done()
			r := NewLCG(seed + uint64(c)*104729)
			tr := &http.Transport{MaxIdleConnsPerHost: 2, DisableKeepAlives: c%2 == 1}
			cl := &http.Client{Transport: tr, Timeout: 60 * time.Second}
			defer tr.CloseIdleConnections()
			for i := 0; perClient == 0 || i < perClient; i++ {
				if perClient == 0 && time.Now().After(deadline) {
					return
				}
				q := GenReq(r)
				if r.next()%2 == 0 {
					ready, stop, done := make(chan struct{}), make(chan struct{}), make(chan struct{})
					go markers[c%len(markers)](ready, stop, done)
					<-ready
					resp := Do(cl, base, q, r.next()%2 == 0)
					close(stop)
					<-done
					resp.Marker = fmt.Sprintf("freshMarker%d", c%len(markers))
					handle(resp)
					continue
				}
				handle(Do(cl, base, q, r.next()%2 == 0))
			}
		}(c)
	}
	wg.Wait()
}

// Describe is a short rendering of a request for findings.
func (q Req) Describe() string {
	return fmt.Sprintf("%s maxmem=%q augment=%q similarity=%q body=%v", q.Method, q.Maxmem, q.Augment, q.Similarity, q.InBody)
}

// ---- marker goroutines: born just before a request, alive until its answer ----

func markerBody(ready, stop, done chan struct{}) {
	close(ready)
	<-stop
	close(done)
}

//go:noinline
func freshMarker0(ready, stop, done chan struct{}) { markerBody(ready, stop, done) }

//go:noinline
func freshMarker1(ready, stop, done chan struct{}) { markerBody(ready, stop, done) }

//go:noinline
func freshMarker2(ready, stop, done chan struct{}) { markerBody(ready, stop, done) }

//go:noinline
func freshMarker3(ready, stop, done chan struct{}) { markerBody(ready, stop, done) }

//go:noinline
func freshMarker4(ready, stop, done chan struct{}) { markerBody(ready, stop, done) }

//go:noinline
func freshMarker5(ready, stop, done chan struct{}) { markerBody(ready, stop, done) }

//go:noinline
func freshMarker6(ready, stop, done chan struct{}) { markerBody(ready, stop, done) }

//go:noinline
func freshMarker7(ready, stop, done chan struct{}) { markerBody(ready, stop, done) }

var markers = []func(ready, stop, done chan struct{}){freshMarker0, freshMarker1, freshMarker2, freshMarker3, freshMarker4, freshMarker5, freshMarker6, freshMarker7}
