// Package c20lib is the churn workload of property C20: goroutines parked in
// KNOWN runtime states inside uniquely named functions, plus goroutines that
// are created and exit continuously. It is shared by the harness
// (prop_c20.go) and by the race-detector program (c20race/main.go).
package c20lib

import (
	"net"
	"os"
	"runtime"
	"strconv"
	"sync"
	"sync/atomic"
	"syscall"
	"time"
)

// Pkg is the import path of this package as the runtime prints it.
const Pkg = "verifharness/c20lib"

// Entry describes one registered goroutine: where it is parked and what the
// runtime must say about it.
type Entry struct {
	GoID      int      // the goroutine's id, read by the goroutine itself
	Kind      string   // e.g. "chanrecv"
	TopFunc   string   // name of the innermost frame of this package
	EntryFunc string   // name of the outermost frame (the `go` statement's function)
	Creator   string   // name of the function containing the `go` statement
	CreatorID int      // id of the goroutine that executed the `go` statement
	States    []string // acceptable values of Signature.State
	Locked    bool     // "locked to thread"
	Elided    bool     // more than 100 frames
	Bulk      bool     // part of the bulk (dump-inflating) set
}

// Workload is a running churn workload.
type Workload struct {
	mu       sync.Mutex
	entries  []Entry
	stop     chan struct{} // closed by Stop
	stopped  atomic.Bool
	paused   atomic.Bool    // churners idle while set
	wg       sync.WaitGroup // every stoppable goroutine
	recvCh   chan int       // never sent to before Stop
	sendCh   chan int       // never received from before Stop
	sel1     chan int
	sel2     chan int
	mutex    sync.Mutex
	rw       sync.RWMutex
	waitWG   sync.WaitGroup
	cond     *sync.Cond
	condDone bool
	pipeR    []*os.File
	pipeW    []*os.File
	ln       []net.Listener
	conns    []net.Conn
	rawW     []int
	rawR     []int
	sem      chan struct{} // bounds the short-lived goroutines
	Spawned  atomic.Int64  // short-lived goroutines started so far
	Exited   atomic.Int64
	Leaked   int // goroutines that cannot be stopped by construction (nil channel, empty select)
}

// CurGoID returns the id of the calling goroutine (parsed from its own
// single-goroutine traceback header).
func CurGoID() int {
	var b [64]byte
	n := runtime.Stack(b[:], false)
	s := b[:n]
	const p = "goroutine "
	if len(s) < len(p) {
		return -1
	}
	s = s[len(p):]
	i := 0
	for i < len(s) && s[i] >= '0' && s[i] <= '9' {
		i++
	}
	v, err := strconv.Atoi(string(s[:i]))
	if err != nil {
		return -1
	}
	return v
}

func (w *Workload) register(e Entry, ready *sync.WaitGroup) {
	e.GoID = CurGoID()
	w.mu.Lock()
	w.entries = append(w.entries, e)
	w.mu.Unlock()
	ready.Done()
}

// Registry returns a copy of the registered goroutines.
func (w *Workload) Registry() []Entry {
	w.mu.Lock()
	defer w.mu.Unlock()
	return append([]Entry{}, w.entries...)
}

// ---- the parked goroutines: one uniquely named function per state ----------

//go:noinline
func churnChanRecv(w *Workload, e Entry, ready *sync.WaitGroup) {
	defer w.wg.Done()
	w.register(e, ready)
	<-w.recvCh
}

//go:noinline
func spawnChanRecv(w *Workload, e Entry, ready *sync.WaitGroup) { go churnChanRecv(w, e, ready) }

//go:noinline
func churnChanSend(w *Workload, e Entry, ready *sync.WaitGroup) {
	defer w.wg.Done()
	w.register(e, ready)
	w.sendCh <- 1
}

//go:noinline
func spawnChanSend(w *Workload, e Entry, ready *sync.WaitGroup) { go churnChanSend(w, e, ready) }

//go:noinline
func churnNilChanRecv(w *Workload, e Entry, ready *sync.WaitGroup) {
	w.register(e, ready)
	var c chan int
	<-c
}

//go:noinline
func spawnNilChanRecv(w *Workload, e Entry, ready *sync.WaitGroup) {
	go churnNilChanRecv(w, e, ready)
}

//go:noinline
func churnSelectNoCases(w *Workload, e Entry, ready *sync.WaitGroup) {
	w.register(e, ready)
	select {}
}

//go:noinline
func spawnSelectNoCases(w *Workload, e Entry, ready *sync.WaitGroup) {
	go churnSelectNoCases(w, e, ready)
}

//go:noinline
func churnSelect(w *Workload, e Entry, ready *sync.WaitGroup) {
	defer w.wg.Done()
	w.register(e, ready)
	select {
	case <-w.sel1:
	case <-w.sel2:
	case <-w.stop:
	}
}

//go:noinline
func spawnSelect(w *Workload, e Entry, ready *sync.WaitGroup) { go churnSelect(w, e, ready) }

//go:noinline
func churnMutexLock(w *Workload, e Entry, ready *sync.WaitGroup) {
	defer w.wg.Done()
	w.register(e, ready)
	w.mutex.Lock()
	w.mutex.Unlock() //nolint
}

//go:noinline
func spawnMutexLock(w *Workload, e Entry, ready *sync.WaitGroup) { go churnMutexLock(w, e, ready) }

//go:noinline
func churnRWMutexRLock(w *Workload, e Entry, ready *sync.WaitGroup) {
	defer w.wg.Done()
	w.register(e, ready)
	w.rw.RLock()
	w.rw.RUnlock() //nolint
}

//go:noinline
func spawnRWMutexRLock(w *Workload, e Entry, ready *sync.WaitGroup) {
	go churnRWMutexRLock(w, e, ready)
}

//go:noinline
func churnWaitGroupWait(w *Workload, e Entry, ready *sync.WaitGroup) {
	defer w.wg.Done()
	w.register(e, ready)
	w.waitWG.Wait()
}

//go:noinline
func spawnWaitGroupWait(w *Workload, e Entry, ready *sync.WaitGroup) {
	go churnWaitGroupWait(w, e, ready)
}

//go:noinline
func churnCondWait(w *Workload, e Entry, ready *sync.WaitGroup) {
	defer w.wg.Done()
	w.register(e, ready)
	w.cond.L.Lock()
	for !w.condDone {
		w.cond.Wait()
	}
	w.cond.L.Unlock()
}

//go:noinline
func spawnCondWait(w *Workload, e Entry, ready *sync.WaitGroup) { go churnCondWait(w, e, ready) }

//go:noinline
func churnSleep(w *Workload, e Entry, ready *sync.WaitGroup) {
	defer w.wg.Done()
	w.register(e, ready)
	for !w.stopped.Load() {
		time.Sleep(1200 * time.Millisecond)
	}
}

//go:noinline
func spawnSleep(w *Workload, e Entry, ready *sync.WaitGroup) { go churnSleep(w, e, ready) }

//go:noinline
func churnLockedThread(w *Workload, e Entry, ready *sync.WaitGroup) {
	defer w.wg.Done()
	runtime.LockOSThread()
	defer runtime.UnlockOSThread()
	w.register(e, ready)
	<-w.stop
}

//go:noinline
func spawnLockedThread(w *Workload, e Entry, ready *sync.WaitGroup) {
	go churnLockedThread(w, e, ready)
}

//go:noinline
func churnDeepRec(n int, stop chan struct{}) int {
	if n == 0 {
		<-stop
		return 0
	}
	return churnDeepRec(n-1, stop) + 1
}

//go:noinline
func churnDeep(w *Workload, e Entry, ready *sync.WaitGroup) {
	defer w.wg.Done()
	w.register(e, ready)
	churnDeepRec(150, w.stop)
}

//go:noinline
func spawnDeep(w *Workload, e Entry, ready *sync.WaitGroup) { go churnDeep(w, e, ready) }

//go:noinline
func churnPipeRead(w *Workload, e Entry, ready *sync.WaitGroup, f *os.File) {
	defer w.wg.Done()
	w.register(e, ready)
	var b [1]byte
	_, _ = f.Read(b[:])
}

//go:noinline
func spawnPipeRead(w *Workload, e Entry, ready *sync.WaitGroup, f *os.File) {
	go churnPipeRead(w, e, ready, f)
}

//go:noinline
func churnAccept(w *Workload, e Entry, ready *sync.WaitGroup, ln net.Listener) {
	defer w.wg.Done()
	w.register(e, ready)
	c, err := ln.Accept()
	if err == nil {
		c.Close()
	}
}

//go:noinline
func spawnAccept(w *Workload, e Entry, ready *sync.WaitGroup, ln net.Listener) {
	go churnAccept(w, e, ready, ln)
}

//go:noinline
func churnRawRead(w *Workload, e Entry, ready *sync.WaitGroup, fd int) {
	defer w.wg.Done()
	w.register(e, ready)
	var b [1]byte
	_, _ = syscall.Read(fd, b[:])
}

//go:noinline
func spawnRawRead(w *Workload, e Entry, ready *sync.WaitGroup, fd int) {
	go churnRawRead(w, e, ready, fd)
}

//go:noinline
func churnSpin(w *Workload, e Entry, ready *sync.WaitGroup) {
	defer w.wg.Done()
	w.register(e, ready)
	for !w.stopped.Load() {
		runtime.Gosched()
	}
}

//go:noinline
func spawnSpin(w *Workload, e Entry, ready *sync.WaitGroup) { go churnSpin(w, e, ready) }

// ---- short-lived goroutines ------------------------------------------------

type lcg struct{ s uint64 }

func (l *lcg) next() uint64 {
	l.s = l.s*6364136223846793005 + 1442695040888963407
	return l.s >> 33
}

//go:noinline
func shortRec(n int, d time.Duration) int {
	if n == 0 {
		time.Sleep(d)
		return 0
	}
	return shortRec(n-1, d) + 1
}

// shortLived does one small thing and exits.
func shortLived(w *Workload, what int, d time.Duration, peer chan int, m *sync.Mutex) {
	defer func() {
		w.Exited.Add(1)
		<-w.sem
	}()
	switch what % 7 {
	case 0:
		time.Sleep(d)
	case 1:
		select {
		case peer <- 1:
		case <-time.After(d):
		}
	case 2:
		select {
		case <-peer:
		case <-time.After(d):
		}
	case 3:
		m.Lock()
		time.Sleep(d / 4)
		m.Unlock()
	case 4:
		shortRec(what%120, d)
	case 5:
		runtime.Gosched()
	case 6:
		// exits at once
	}
}

// churner creates short-lived goroutines until stopped.
func churner(w *Workload, seed uint64) {
	defer w.wg.Done()
	r := &lcg{s: seed}
	peer := make(chan int)
	var m sync.Mutex
	for !w.stopped.Load() {
		if w.paused.Load() {
			time.Sleep(2 * time.Millisecond)
			continue
		}
		select {
		case w.sem <- struct{}{}:
		case <-w.stop:
			return
		}
		what := int(r.next())
		d := time.Duration(200+r.next()%4000) * time.Microsecond
		w.Spawned.Add(1)
		go shortLived(w, what, d, peer, &m)
		time.Sleep(time.Duration(100+r.next()%900) * time.Microsecond)
	}
}

// ---- start / stop ----------------------------------------------------------

// Config sizes the workload.
type Config struct {
	PerKind   int // registered goroutines per state
	Churners  int // goroutines that spawn short-lived goroutines
	ShortLive int // bound of simultaneously alive short-lived goroutines
	Seed      uint64
	Leaky     bool // also park goroutines that can never be stopped (nil channel, empty select): PerKind is ignored for them, one each
}

func mutexState() []string {
	// "semacquire" before Go 1.18
	return []string{"sync.Mutex.Lock", "semacquire"}
}

// Start launches the workload and returns once every registered goroutine has
// recorded its id (they may need a moment more to park).
func Start(cfg Config) *Workload {
	w := &Workload{
		stop:   make(chan struct{}),
		recvCh: make(chan int),
		sendCh: make(chan int),
		sel1:   make(chan int),
		sel2:   make(chan int),
		sem:    make(chan struct{}, cfg.ShortLive),
	}
	w.cond = sync.NewCond(&sync.Mutex{})
	w.mutex.Lock()
	w.rw.Lock()
	w.waitWG.Add(1)
	me := CurGoID()
	var ready sync.WaitGroup
	ent := func(kind, top, entry, creator string, states ...string) Entry {
		return Entry{Kind: kind, TopFunc: top, EntryFunc: entry, Creator: creator, CreatorID: me, States: states}
	}
	for i := 0; i < cfg.PerKind; i++ {
		ready.Add(10)
		w.wg.Add(10)
		spawnChanRecv(w, ent("chanrecv", "churnChanRecv", "churnChanRecv", "spawnChanRecv", "chan receive"), &ready)
		spawnChanSend(w, ent("chansend", "churnChanSend", "churnChanSend", "spawnChanSend", "chan send"), &ready)
		spawnSelect(w, ent("select", "churnSelect", "churnSelect", "spawnSelect", "select"), &ready)
		spawnMutexLock(w, ent("mutex", "churnMutexLock", "churnMutexLock", "spawnMutexLock", mutexState()...), &ready)
		spawnRWMutexRLock(w, ent("rwmutex", "churnRWMutexRLock", "churnRWMutexRLock", "spawnRWMutexRLock", "sync.RWMutex.RLock", "semacquire"), &ready)
		spawnWaitGroupWait(w, ent("waitgroup", "churnWaitGroupWait", "churnWaitGroupWait", "spawnWaitGroupWait", "semacquire", "sync.WaitGroup.Wait"), &ready)
		spawnCondWait(w, ent("cond", "churnCondWait", "churnCondWait", "spawnCondWait", "sync.Cond.Wait"), &ready)
		spawnSleep(w, ent("sleep", "churnSleep", "churnSleep", "spawnSleep", "sleep"), &ready)
		e := ent("locked", "churnLockedThread", "churnLockedThread", "spawnLockedThread", "chan receive")
		e.Locked = true
		spawnLockedThread(w, e, &ready)
		e = ent("deep", "churnDeepRec", "churnDeep", "spawnDeep", "chan receive")
		e.Elided = true
		spawnDeep(w, e, &ready)
		if i == 0 { // a single busy goroutine
			ready.Add(1)
			w.wg.Add(1)
			spawnSpin(w, ent("spin", "churnSpin", "churnSpin", "spawnSpin", "runnable", "running"), &ready)
		}

		if pr, pw, err := os.Pipe(); err == nil {
			w.pipeR, w.pipeW = append(w.pipeR, pr), append(w.pipeW, pw)
			ready.Add(1)
			w.wg.Add(1)
			spawnPipeRead(w, ent("pipe", "churnPipeRead", "churnPipeRead", "spawnPipeRead", "IO wait"), &ready, pr)
		}
		if ln, err := net.Listen("tcp", "127.0.0.1:0"); err == nil {
			w.ln = append(w.ln, ln)
			ready.Add(1)
			w.wg.Add(1)
			spawnAccept(w, ent("accept", "churnAccept", "churnAccept", "spawnAccept", "IO wait"), &ready, ln)
		}
		var fds [2]int
		if err := syscall.Pipe(fds[:]); err == nil {
			w.rawR, w.rawW = append(w.rawR, fds[0]), append(w.rawW, fds[1])
			ready.Add(1)
			w.wg.Add(1)
			spawnRawRead(w, ent("rawread", "churnRawRead", "churnRawRead", "spawnRawRead", "syscall"), &ready, fds[0])
		}
	}
	if cfg.Leaky {
		ready.Add(2)
		w.Leaked = 2
		spawnNilChanRecv(w, ent("nilchan", "churnNilChanRecv", "churnNilChanRecv", "spawnNilChanRecv", "chan receive (nil chan)"), &ready)
		spawnSelectNoCases(w, ent("selectnone", "churnSelectNoCases", "churnSelectNoCases", "spawnSelectNoCases", "select (no cases)"), &ready)
	}
	ready.Wait()
	for i := 0; i < cfg.Churners; i++ {
		w.wg.Add(1)
		go churner(w, cfg.Seed+uint64(i)*7919)
	}
	return w
}

// AddBulk parks n more deep-recursion goroutines (each prints about 100
// frames): used to inflate the dump beyond the first buffer size.
func (w *Workload) AddBulk(n int) {
	me := CurGoID()
	var ready sync.WaitGroup
	for i := 0; i < n; i++ {
		ready.Add(1)
		w.wg.Add(1)
		spawnDeep(w, Entry{Kind: "deep", TopFunc: "churnDeepRec", EntryFunc: "churnDeep", Creator: "spawnDeep", CreatorID: me,
			States: []string{"chan receive"}, Elided: true, Bulk: true}, &ready)
	}
	ready.Wait()
}

// Pause stops the creation of short-lived goroutines and waits until those
// alive have exited, so that the number of goroutines is steady; Resume
// restarts it.
func (w *Workload) Pause() {
	w.paused.Store(true)
	for i := 0; i < 400 && (len(w.sem) > 0 || w.Exited.Load() < w.Spawned.Load()); i++ {
		time.Sleep(2 * time.Millisecond)
	}
	time.Sleep(5 * time.Millisecond)
}

// Resume undoes Pause.
func (w *Workload) Resume() { w.paused.Store(false) }

// Stop releases every stoppable goroutine and waits for them.
func (w *Workload) Stop() {
	w.stopped.Store(true)
	close(w.stop)
	close(w.recvCh)
	go func() {
		// one receive per parked sender
		for range w.sendCh {
		}
	}()
	w.mutex.Unlock()
	w.rw.Unlock()
	w.waitWG.Done()
	w.cond.L.Lock()
	w.condDone = true
	w.cond.L.Unlock()
	w.cond.Broadcast()
	for _, f := range w.pipeW {
		f.Close()
	}
	for _, l := range w.ln {
		l.Close()
	}
	for _, fd := range w.rawW {
		_, _ = syscall.Write(fd, []byte{1})
	}
	w.wg.Wait()
	close(w.sendCh)
	for _, f := range w.pipeR {
		f.Close()
	}
	for i := range w.rawW {
		syscall.Close(w.rawW[i])
		syscall.Close(w.rawR[i])
	}
	// let the last short-lived goroutines finish
	for i := 0; i < 200 && w.Exited.Load() < w.Spawned.Load(); i++ {
		time.Sleep(5 * time.Millisecond)
	}
}
