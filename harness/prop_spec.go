package main

import (
	"encoding/json"
	"fmt"
	"strconv"
	"strings"
)

// SPEC ties the Lean specification printer (PP/Spec/Print.lean: printDump,
// expected, printRace, expectedRace — the objects the C01/C08 round-trip
// theorems are about) to the Go generator (PrintCfg.Dump, ExpectedGoroutines,
// RaceSpec.Print, RaceSpec.Expected), which C01/C08 compare with the real
// parser on every run. Both directions are byte-exact comparisons.

func init() { props["SPEC"] = runSPEC }

// ---- marshalling of descriptions (shape documented in PP/Driver/OpsC01.lean) ----

type JArg struct {
	IsAgg  bool   `json:"isAgg"`
	Agg    []JArg `json:"agg"`
	Elided bool   `json:"elided"`
	V      uint64 `json:"v"`
	Otl    bool   `json:"otl"`
	Inacc  bool   `json:"inacc"`
}

type JFp struct {
	Fp uint64  `json:"fp"`
	Sp uint64  `json:"sp"`
	Pc *uint64 `json:"pc"`
}

type JFrame struct {
	Pkg       HB      `json:"pkg"`
	Name      HB      `json:"name"`
	Args      []JArg  `json:"args"`
	ArgsElide bool    `json:"argsElide"`
	Inlined   bool    `json:"inlined"`
	File      HB      `json:"file"`
	Line      int     `json:"line"`
	Off       *uint64 `json:"off"`
	Fp        *JFp    `json:"fp"`
}

type JGpm struct {
	Gp HB  `json:"gp"`
	M  HB  `json:"m"`
	Mp *HB `json:"mp"`
}

type JG struct {
	ID       int      `json:"id"`
	State    HB       `json:"state"`
	Scan     bool     `json:"scan"`
	WaitMin  int      `json:"waitMin"`
	Locked   bool     `json:"locked"`
	Gpm      *JGpm    `json:"gpm"`
	Unavail  bool     `json:"unavail"`
	Frames   []JFrame `json:"frames"`
	Elided   int      `json:"elided"`
	ElidedAt int      `json:"elidedAt"`
	Created  *JFrame  `json:"created"`
	Parent   int      `json:"parent"`
}

type JCfg struct {
	CRLF       bool `json:"crlf"`
	Indent     HB   `json:"indent"`
	FileIndent HB   `json:"fileIndent"`
}

type JRaceOp struct {
	Write  bool     `json:"write"`
	Addr   uint64   `json:"addr"`
	ID     int      `json:"id"`
	Frames []JFrame `json:"frames"`
}

type JRaceGor struct {
	ID       int      `json:"id"`
	Finished bool     `json:"finished"`
	Frames   []JFrame `json:"frames"`
}

func jArgs(as []ArgSpec) []JArg {
	out := make([]JArg, len(as))
	for i := range as {
		a := &as[i]
		out[i] = JArg{IsAgg: a.IsAgg, Elided: a.Elided, V: a.V, Otl: a.Otl, Inacc: a.Inacc, Agg: []JArg{}}
		if a.IsAgg {
			out[i].Agg = jArgs(a.Agg)
		}
	}
	return out
}

func hexField(s, pfx string) (uint64, error) {
	if !strings.HasPrefix(s, pfx) {
		return 0, fmt.Errorf("%q lacks the prefix %q", s, pfx)
	}
	return strconv.ParseUint(s[len(pfx):], 16, 64)
}

// jFrame translates the annotation strings of a FrameSpec into their
// structured form; an annotation that does not have the printer's shape is an
// error (the description is then outside the specification's domain).
func jFrame(f *FrameSpec) (JFrame, error) {
	out := JFrame{Pkg: hb(f.Pkg), Name: hb(f.Name), Args: jArgs(f.Args), ArgsElide: f.ArgsElide, Inlined: f.Inlined, File: hb(f.File), Line: f.Line}
	if f.Off != "" {
		v, err := hexField(f.Off, " +0x")
		if err != nil {
			return out, err
		}
		out.Off = &v
	}
	if f.Fp != "" {
		parts := strings.Split(strings.TrimPrefix(f.Fp, " "), " ")
		if len(parts) != 2 && len(parts) != 3 {
			return out, fmt.Errorf("fp annotation %q", f.Fp)
		}
		fp, err := hexField(parts[0], "fp=0x")
		if err != nil {
			return out, err
		}
		sp, err := hexField(parts[1], "sp=0x")
		if err != nil {
			return out, err
		}
		out.Fp = &JFp{Fp: fp, Sp: sp}
		if len(parts) == 3 {
			pc, err := hexField(parts[2], "pc=0x")
			if err != nil {
				return out, err
			}
			out.Fp.Pc = &pc
		}
	}
	return out, nil
}

func jFrames(fs []FrameSpec) ([]JFrame, error) {
	out := make([]JFrame, len(fs))
	for i := range fs {
		f, err := jFrame(&fs[i])
		if err != nil {
			return nil, err
		}
		out[i] = f
	}
	return out, nil
}

func jGSpec(g *GSpec) (JG, error) {
	out := JG{ID: g.ID, State: hb(g.State), Scan: g.Scan, WaitMin: g.WaitMin, Locked: g.Locked, Unavail: g.Unavail,
		Elided: g.Elided, ElidedAt: g.ElidedAt, Parent: g.Parent}
	if g.Elided < 0 {
		out.Elided = -1
	}
	if g.GPM != "" {
		parts := strings.Split(strings.TrimPrefix(g.GPM, " "), " ")
		if (len(parts) != 2 && len(parts) != 3) || !strings.HasPrefix(parts[0], "gp=") || !strings.HasPrefix(parts[1], "m=") {
			return out, fmt.Errorf("gpm annotation %q", g.GPM)
		}
		out.Gpm = &JGpm{Gp: hb(parts[0][3:]), M: hb(parts[1][2:])}
		if len(parts) == 3 {
			if !strings.HasPrefix(parts[2], "mp=") {
				return out, fmt.Errorf("gpm annotation %q", g.GPM)
			}
			mp := hb(parts[2][3:])
			out.Gpm.Mp = &mp
		}
	}
	fs, err := jFrames(g.Frames)
	if err != nil {
		return out, err
	}
	out.Frames = fs
	if g.Created != nil {
		c, err := jFrame(g.Created)
		if err != nil {
			return out, err
		}
		out.Created = &c
	}
	return out, nil
}

func jCfg(c PrintCfg) JCfg {
	return JCfg{CRLF: c.CRLF, Indent: hb(c.Indent), FileIndent: hb(c.FileIndent)}
}

type specReply struct {
	WF    *bool           `json:"wf"`
	Text  HB              `json:"text"`
	Gs    json.RawMessage `json:"gs"`
	Error string          `json:"error"`
}

func firstByteDiff(a, b string) string {
	n := len(a)
	if len(b) < n {
		n = len(b)
	}
	i := 0
	for i < n && a[i] == b[i] {
		i++
	}
	lo := i - 20
	if lo < 0 {
		lo = 0
	}
	return fmt.Sprintf("lengths %d/%d, first difference at byte %d: %q vs %q", len(a), len(b), i, clip(a[lo:]), clip(b[lo:]))
}

func runSPEC(prop string, res *Result, pool *DrvPool, r *Rng) {
	res.Rule = "every description drawn by GenDump x GenCfg (the C01 generator: nested/elided/'_'/'?' args, created-by with/without parent, unavailable stacks, escaped package paths, gp/m and fp/sp/pc annotations, LF/CRLF, indentation, tab/space file indent) and by GenRace (the C08 generator, LF and CRLF) is sent to the Lean specification printer; its bytes must equal PrintCfg.Dump / RaceSpec.Print and its expected snapshot must equal ExpectedGoroutines / RaceSpec.Expected; plus an escapePkg sweep over all 256 byte values in both slash positions and boundary descriptions; the reply also says whether the description lies in the decidable domain (PP.Spec.WF / PP.Spec.raceWF) of the machine-checked round-trip theorems roundtrip / race_roundtrip: every randomly generated description must (a generated description outside the domain is reported as a disagreement), counted as in-theorem-domain:*; non-trivial = at least 2 goroutines, a non-default configuration, or a race report; distinct by hash of the printed text"
	checkDump := func(name string, gs []GSpec, cfg PrintCfg) {
		// every description the random generators draw must lie in the theorem's domain
		wantWF := strings.HasPrefix(name, "generated") || strings.HasPrefix(name, "corpus")
		txt := cfg.Dump(gs)
		want := ExpectedGoroutines(gs)
		js := make([]JG, len(gs))
		for i := range gs {
			j, err := jGSpec(&gs[i])
			if err != nil {
				res.Disagree(Finding{Stream: "spec", What: name + ": description outside the specification's shape: " + err.Error()})
				return
			}
			js[i] = j
		}
		res.Eval(txt, len(gs) > 1 || cfg.CRLF || cfg.Indent != "" || cfg.FileIndent != "\t")
		res.Count("dump")
		res.Count("goroutines:" + sizeClass(len(gs)))
		if cfg.CRLF {
			res.Count("crlf")
		}
		if cfg.Indent != "" {
			res.Count("indented")
		}
		if cfg.FileIndent != "\t" {
			res.Count("space-file-indent")
		}
		for i := range gs {
			g := &gs[i]
			if g.GPM != "" {
				res.Count("gpm")
			}
			if g.Unavail {
				res.Count("unavail")
			}
			if g.Elided >= 0 {
				res.Count("frames-elided")
			}
			if g.Created != nil {
				if g.Parent != 0 {
					res.Count("created-with-parent")
				} else {
					res.Count("created")
				}
			}
		}
		req := map[string]interface{}{"op": "gen", "cfg": jCfg(cfg), "gs": js}
		wantGs := canon(want)
		pool.Send(req, func(raw json.RawMessage) {
			var rep specReply
			if err := json.Unmarshal(raw, &rep); err != nil || rep.Error != "" {
				res.Disagree(Finding{Stream: "spec", What: name + ": driver error " + rep.Error + " " + fmt.Sprint(err), Op: req})
				return
			}
			if rep.Text.String() != txt {
				res.Disagree(Finding{Stream: "spec", What: name + ": printed bytes differ: " + firstByteDiff(rep.Text.String(), txt), Op: req, Expected: hb(txt), Got: rep.Text})
				return
			}
			var gotGs []MG
			if err := json.Unmarshal(rep.Gs, &gotGs); err != nil {
				res.Disagree(Finding{Stream: "spec", What: name + ": undecodable snapshot " + err.Error(), Op: req})
				return
			}
			if got := canon(gotGs); got != wantGs {
				res.Disagree(Finding{Stream: "spec", What: name + ": expected snapshot differs", Op: req, Expected: want, Got: rep.Gs})
			}
			// is the description inside the domain of the round-trip theorem?
			if rep.WF != nil {
				if *rep.WF {
					res.Count("in-theorem-domain:" + name)
				} else {
					res.Count("outside-theorem-domain:" + name)
					if wantWF {
						res.Disagree(Finding{Stream: "spec-domain", What: name + ": a description drawn by the C01 generator lies outside PP.Spec.WF, the domain of the round-trip theorem", Op: req})
					}
				}
			}
		})
		res.Sample(map[string]interface{}{"case": name, "text": clip(txt)})
	}
	checkRace := func(name string, rs RaceSpec, crlf bool) {
		txt := rs.Print(crlf)
		want := rs.Expected()
		ops := make([]JRaceOp, len(rs.Ops))
		for i := range rs.Ops {
			fs, err := jFrames(rs.Ops[i].Frames)
			if err != nil {
				res.Disagree(Finding{Stream: "spec", What: name + ": " + err.Error()})
				return
			}
			ops[i] = JRaceOp{Write: rs.Ops[i].Write, Addr: rs.Ops[i].Addr, ID: rs.Ops[i].ID, Frames: fs}
		}
		gors := make([]JRaceGor, len(rs.Gors))
		for i := range rs.Gors {
			fs, err := jFrames(rs.Gors[i].Frames)
			if err != nil {
				res.Disagree(Finding{Stream: "spec", What: name + ": " + err.Error()})
				return
			}
			gors[i] = JRaceGor{ID: rs.Gors[i].ID, Finished: rs.Gors[i].Finished, Frames: fs}
		}
		res.Eval(txt, true)
		res.Count("race")
		if crlf {
			res.Count("race-crlf")
		}
		req := map[string]interface{}{"op": "genrace", "crlf": crlf, "ops": ops, "gors": gors}
		wantGs := canon(want)
		pool.Send(req, func(raw json.RawMessage) {
			var rep specReply
			if err := json.Unmarshal(raw, &rep); err != nil || rep.Error != "" {
				res.Disagree(Finding{Stream: "spec-race", What: name + ": driver error " + rep.Error + " " + fmt.Sprint(err), Op: req})
				return
			}
			if rep.Text.String() != txt {
				res.Disagree(Finding{Stream: "spec-race", What: name + ": printed bytes differ: " + firstByteDiff(rep.Text.String(), txt), Op: req, Expected: hb(txt), Got: rep.Text})
				return
			}
			var gotGs []MG
			if err := json.Unmarshal(rep.Gs, &gotGs); err != nil {
				res.Disagree(Finding{Stream: "spec", What: name + ": undecodable snapshot " + err.Error(), Op: req})
				return
			}
			if got := canon(gotGs); got != wantGs {
				res.Disagree(Finding{Stream: "spec-race", What: name + ": expected snapshot differs", Op: req, Expected: want, Got: rep.Gs})
			}
			if rep.WF != nil {
				if *rep.WF {
					res.Count("in-theorem-domain:" + name)
				} else {
					res.Count("outside-theorem-domain:" + name)
					res.Disagree(Finding{Stream: "spec-domain", What: name + ": a report drawn by the C08 generator lies outside PP.Spec.raceWF, the domain of the race round-trip theorem", Op: req})
				}
			}
		})
	}

	for _, c := range dumpCorpus() {
		checkDump("corpus:"+c.name, c.gs, c.cfg)
	}
	// escapePkg: every byte value, before and after the last slash
	for c := 0; c < 256; c++ {
		pkg := "a" + string([]byte{byte(c)}) + "b/c" + string([]byte{byte(c)}) + "d"
		if c == '/' {
			pkg = "a/b//c"
		}
		g := GSpec{ID: 1, State: "running", Elided: -1, Frames: []FrameSpec{{Pkg: pkg, Name: "F", File: "/a.go", Line: 1}}}
		checkDump("escape-sweep", []GSpec{g}, PrintCfg{FileIndent: "\t"})
		res.Count("escape-sweep")
	}
	// boundary descriptions the random generator never draws
	edge := []GSpec{
		{ID: 0, State: "x", Elided: -1, Frames: []FrameSpec{{Pkg: "", Name: "cfunc", File: "??", Line: 0}}},
		{ID: 7, State: "select", Elided: 5, ElidedAt: 9, Frames: []FrameSpec{{Pkg: "a/b.c/d.e", Name: "f", File: "<autogenerated>", Line: 1,
			Args: []ArgSpec{{IsAgg: true, Agg: nil}, {IsAgg: true, Elided: true}, {IsAgg: true, Agg: []ArgSpec{{IsAgg: true, Agg: []ArgSpec{{V: 1 << 63}}}}}}}}},
		{ID: 8, State: "dead", Elided: 0, ElidedAt: 0, Frames: []FrameSpec{{Pkg: "main", Name: "main", File: "/m.go", Line: 3, ArgsElide: true}}, Created: &FrameSpec{Pkg: "main", Name: "main", File: "/m.go", Line: 9}, Parent: 3},
	}
	checkDump("edge", edge, PrintCfg{FileIndent: "\t"})
	checkDump("edge", edge, PrintCfg{FileIndent: "   ", Indent: " \t", CRLF: true})

	n := countN(res.Tier, 1500, 40000)
	for i := 0; i < n; i++ {
		checkDump("generated", GenDump(r, 6, 5), GenCfg(r))
	}
	for i := 0; i < countN(res.Tier, 4, 100); i++ {
		checkDump("generated-large", GenDump(r, 40, 30), GenCfg(r))
		res.Count("large")
	}
	for i := 0; i < countN(res.Tier, 400, 10000); i++ {
		checkRace("generated-race", GenRace(r), r.Chance(1, 4))
	}
}
