package main

import (
	"io"
	"path/filepath"
	"os"
	"strings"
	"encoding/json"
	"fmt"
	"sort"

	"github.com/maruel/panicparse/v2/stack"
)

func init() { props["C15"] = runC15 }

type ptrOcc struct {
	g    int
	v    uint64
	name string
	ptr  bool
}

func walkArgs(g int, as []MArg, out *[]ptrOcc) {
	for i := range as {
		if as[i].Agg != nil {
			walkArgs(g, as[i].Agg.Values, out)
		} else {
			*out = append(*out, ptrOcc{g: g, v: as[i].V, name: as[i].Name.String(), ptr: as[i].Ptr})
		}
	}
}

func occurrences(gs []MG) []ptrOcc {
	var out []ptrOcc
	for gi := range gs {
		for ci := range gs[gi].Sig.Stack.Calls {
			walkArgs(gi, gs[gi].Sig.Stack.Calls[ci].Args.Values, &out)
		}
	}
	return out
}

// checkNames evaluates the statement of C15 on a named snapshot.
func checkNames(named []MG) string {
	occ := occurrences(named)
	byVal := map[uint64]string{}
	byName := map[string]uint64{}
	count := map[uint64]int{}
	inPrim := map[uint64]bool{}
	for _, o := range occ {
		if !o.ptr {
			if o.name != "" {
				return fmt.Sprintf("non-pointer value 0x%x carries the name %q", o.v, o.name)
			}
			continue
		}
		count[o.v]++
		if o.g == 0 {
			inPrim[o.v] = true
		}
		if n, ok := byVal[o.v]; ok && n != o.name {
			return fmt.Sprintf("pointer 0x%x carries two names %q and %q", o.v, n, o.name)
		}
		byVal[o.v] = o.name
		if o.name != "" {
			if v, ok := byName[o.name]; ok && v != o.v {
				return fmt.Sprintf("name %q is shared by 0x%x and 0x%x", o.name, v, o.v)
			}
			byName[o.name] = o.v
		}
	}
	for v, c := range count {
		if c > 1 && byVal[v] == "" {
			return fmt.Sprintf("pointer 0x%x occurs %d times but is not named", v, c)
		}
	}
	// dense #1..#k
	k := len(byName)
	num := map[uint64]int{}
	for i := 1; i <= k; i++ {
		v, ok := byName[fmt.Sprintf("#%d", i)]
		if !ok {
			return fmt.Sprintf("names are not #1..#%d without gaps: %v", k, byName)
		}
		num[v] = i
	}
	// ascending address order within each class, primary class first
	var vals []uint64
	for v := range num {
		vals = append(vals, v)
	}
	sort.Slice(vals, func(i, j int) bool { return vals[i] < vals[j] })
	for _, a := range vals {
		for _, b := range vals {
			switch {
			case inPrim[a] && !inPrim[b] && num[a] > num[b]:
				return fmt.Sprintf("0x%x recurs in the first goroutine but is numbered after 0x%x which never appears in it", a, b)
			case inPrim[a] == inPrim[b] && a < b && num[a] > num[b]:
				return fmt.Sprintf("numbers do not ascend with the address: 0x%x=#%d, 0x%x=#%d", a, num[a], b, num[b])
			}
		}
	}
	return ""
}

func eraseNames(gs []MG) []MG {
	var out []MG
	b, _ := json.Marshal(gs)
	json.Unmarshal(b, &out)
	var rec func(as []MArg)
	rec = func(as []MArg) {
		for i := range as {
			if as[i].Agg != nil {
				rec(as[i].Agg.Values)
			} else {
				as[i].Name = ""
			}
		}
	}
	for gi := range out {
		for ci := range out[gi].Sig.Stack.Calls {
			rec(out[gi].Sig.Stack.Calls[ci].Args.Values)
		}
		for ci := range out[gi].Sig.Created.Calls {
			rec(out[gi].Sig.Created.Calls[ci].Args.Values)
		}
	}
	return out
}

// genPtrDump: a dump whose arguments draw from a small pool of pointer values
// so that values recur within and across goroutines.
func genPtrDump(r *Rng) []GSpec {
	gs := GenDump(r, 5, 4)
	pool := []uint64{0xc000010000, 0xc000020000, 0xc000030000, 0xc000040000, 0xc000050000, ptrFloor + 1, ptrCeil - 1, ptrFloor, ptrCeil, 7}
	npool := 2 + r.Intn(len(pool)-1)
	var fix func(as []ArgSpec)
	fix = func(as []ArgSpec) {
		for i := range as {
			if as[i].IsAgg {
				fix(as[i].Agg)
			} else if !as[i].Otl && r.Chance(2, 3) {
				as[i].V = pool[r.Intn(npool)]
			}
		}
	}
	for gi := range gs {
		for fi := range gs[gi].Frames {
			fix(gs[gi].Frames[fi].Args)
			if r.Chance(1, 10) && !gs[gi].Frames[fi].Inlined {
				// a recurring pointer at the deepest nesting level
				f := &gs[gi].Frames[fi]
				f.Args = append(f.Args, deepArg(ArgSpec{V: pool[r.Intn(npool)]}, 4+r.Intn(2)))
			}
		}
	}
	return gs
}

// runC15Sources: naming together with source analysis (the default options).  The typed
// rendering must not change what is classified as a pointer or what carries a name: lengths and
// capacities of a megabyte look like pointers to the classifier and are named like them.
func runC15Sources(res *Result, r *Rng) {
	dir, err := os.MkdirTemp("", "verif-c15-src-")
	if err != nil {
		return
	}
	defer os.RemoveAll(dir)
	os.MkdirAll(filepath.Join(dir, "src", "app"), 0o755)
	path := filepath.Join(dir, "src", "app", "main.go")
	os.WriteFile(path, []byte("package main\n\nfunc fill(name string, buf []byte, p *int, n int) {\n\tpanic(1)\n}\n\nfunc main() {\n\tfill(\"\", nil, nil, 0)\n}\n"), 0o644)
	opts := &stack.Opts{LocalGOPATHs: []string{dir}, NameArguments: true, GuessPaths: true, AnalyzeSources: true}
	for i := 0; i < countN(res.Tier, 60, 2000); i++ {
		big := []uint64{0x100000, 0x200000, 0x80001, 0x100000}[r.Intn(4)] // > pointerFloor: classified as pointers
		ptr := uint64(0xc000010000 + r.Intn(3)*0x1000)
		var sb strings.Builder
		n := 2 + r.Intn(3)
		for g := 1; g <= n; g++ {
			l := big
			if r.Chance(1, 3) {
				l = uint64(5 + r.Intn(3))
			}
			fmt.Fprintf(&sb, "goroutine %d [running]:\nmain.fill({0x%x, 0x%x}, {0x%x, 0x%x, 0x%x}, 0x%x, 0x%x)\n\t%s:4 +0x1d\nmain.main()\n\t%s:8 +0x2\n\n", g, ptr, l, ptr+0x100, l, big, ptr, l, path, path)
		}
		txt := sb.String()
		var s *stack.Snapshot
		if p := catch(func() { s, _, _ = stack.ScanSnapshot(strings.NewReader(txt), io.Discard, opts) }); p != nil || s == nil {
			continue
		}
		named := mGs(s.Goroutines)
		res.Count("named-with-sources")
		if len(s.Goroutines[0].Stack.Calls) > 0 && len(s.Goroutines[0].Stack.Calls[0].Args.Processed) == 0 {
			res.Count("named-with-sources:not-augmented")
		}
		if w := checkNames(named); w != "" {
			res.Violation(Finding{Stream: "names+sources", What: "naming and source analysis on (default options), sources found: " + w, Op: map[string]interface{}{"dump": txt, "source": "func fill(name string, buf []byte, p *int, n int)"}, Got: named})
			return
		}
	}
}

func runC15(prop string, res *Result, pool *DrvPool, r *Rng) {
	runC15Sources(res, r.Fork())
	res.Rule = "generated dumps whose arguments draw from a small pool of pointer values (recurring within and across goroutines, in nested aggregates, at the classification boundaries), scanned with naming on and off (every third case also through ScanSnapshot with path guessing / source analysis on or off: naming off must leave no name whatever the other options are); non-trivial = at least one pointer value recurs; distinct by hash of the dump text"
	n := countN(res.Tier, 2500, 80000)
	for i := 0; i < n; i++ {
		gs := genPtrDump(r)
		txt := GenCfg(r).Dump(gs)
		on := simpleScan(txt, true)
		off := simpleScan(txt, false)
		if on.Snap == nil || off.Snap == nil {
			continue
		}
		rec := false
		cnt := map[uint64]int{}
		for _, o := range occurrences(off.Snap) {
			if o.ptr {
				cnt[o.v]++
				if cnt[o.v] > 1 {
					rec = true
				}
			}
		}
		res.Eval(txt, rec)
		op := &ScanOp{Op: "scan", Data: hb(txt), Sched: []int{}, Final: "eof", Names: true}
		if w := checkNames(on.Snap); w != "" {
			res.Violation(Finding{Stream: "names", What: w, Op: op, Got: on.Snap})
		}
		for _, o := range occurrences(off.Snap) {
			if o.name != "" {
				res.Violation(Finding{Stream: "names", What: fmt.Sprintf("naming is off but 0x%x carries the name %q", o.v, o.name), Op: op})
				break
			}
		}
		if jsonStr(eraseNames(on.Snap)) != jsonStr(off.Snap) {
			res.Violation(Finding{Stream: "names", What: "naming changed something other than argument names", Op: op, Expected: off.Snap, Got: on.Snap})
		}
		// a snapshot returned together with an error (a later line that does not parse, a reader
		// that fails inside the dump) is a snapshot too: with naming on it is named like any other
		if i%3 == 0 && len(gs) >= 2 {
			var bop *ScanOp
			switch r.Intn(3) {
			case 0:
				bop = &ScanOp{Op: "scan", Data: hb(txt + "goroutine 999 [running]:\nmain.broken(0xzz)\n"), Sched: []int{}, Final: "eof"}
			case 1:
				bop = &ScanOp{Op: "scan", Data: hb(txt + "goroutine 999 [running]:\nnot a function line\n"), Sched: []int{}, Final: "eof"}
			default:
				k := len(txt)/2 + r.Intn(len(txt)/2)
				bop = &ScanOp{Op: "scan", Data: hb(txt[:k]), Sched: genSched(r, k), Final: "reader:5", WithData: r.Bool()}
			}
			offOp, onOp := *bop, *bop
			onOp.Names = true
			bon, boff := implScan(&onOp), implScan(&offOp)
			if bon.Snap != nil && boff.Snap != nil && bon.Err != "" && bon.Err != "eof" {
				res.Count("named-with-error:" + strings.SplitN(bon.Err, ":", 2)[0])
				if w := checkNames(bon.Snap); w != "" {
					res.Violation(Finding{Stream: "names", What: "snapshot returned together with the error " + bon.Err + ": " + w, Op: &onOp, Got: bon.Snap})
				}
				if jsonStr(eraseNames(bon.Snap)) != jsonStr(boff.Snap) {
					res.Violation(Finding{Stream: "names", What: "snapshot returned together with the error " + bon.Err + ": naming changed something other than argument names", Op: &onOp, Expected: boff.Snap, Got: bon.Snap})
				}
				modelScan(pool, res, &onOp, bon, nil)
			}
		}
		// model: nameArguments on the unnamed snapshot must give the named one
		nop := map[string]interface{}{"op": "names", "gs": off.Snap}
		want := jsonStr(on.Snap)
		pool.Send(nop, func(raw json.RawMessage) {
			res.Trace()
			var rep struct {
				Gs []MG `json:"gs"`
			}
			json.Unmarshal(raw, &rep)
			if got := jsonStr(rep.Gs); got != want {
				res.Disagree(Finding{Stream: "S10 names", What: "nameArguments: model and implementation differ: " + firstDiff(rep.Gs, on.Snap), Op: nop})
			}
		})
		// constructed snapshots too (hook), incl. created-by args and already named args
		if i%4 == 0 {
			cg := GenSnapshot(r, 6)
			gsr := sGs(cg)
			stack.VerifNameArguments(gsr)
			named := mGs(gsr)
			if w := checkNames(named); w != "" {
				res.Violation(Finding{Stream: "names", What: "constructed snapshot: " + w, Op: map[string]interface{}{"op": "names", "gs": cg}, Got: named})
			}
			cop := map[string]interface{}{"op": "names", "gs": cg}
			cw := jsonStr(named)
			pool.Send(cop, func(raw json.RawMessage) {
				res.Trace()
				var rep struct {
					Gs []MG `json:"gs"`
				}
				json.Unmarshal(raw, &rep)
				if got := jsonStr(rep.Gs); got != cw {
					res.Disagree(Finding{Stream: "S10 names", What: "nameArguments (constructed): " + firstDiff(rep.Gs, named), Op: cop})
				}
			})
			res.Count("constructed")
		}
		// the gate through the public entry point, with the other options varied
		if i%3 == 0 {
			cliNamesGate(res, r)
		}
		if rec {
			res.Count("recurring")
		}
		if i < 3 {
			res.Sample(map[string]interface{}{"text": clip(txt)})
		}
	}
}
