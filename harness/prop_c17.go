package main

import (
	"io"
	"bytes"
	"encoding/json"
	"fmt"
	"html/template"
	"runtime"
	"sort"
	"strconv"
	"strings"
	ttemplate "text/template"
	"time"

	"github.com/maruel/panicparse/v2/stack"
	xhtml "golang.org/x/net/html"
)

func init() { props["C17"] = runC17 }

// ---------------------------------------------------------------------------
// Hostile generators
// ---------------------------------------------------------------------------

// hostile hands out payloads carrying unique alphanumeric markers (they
// survive every escaper unchanged, so their context in the output can be
// examined).
type hostile struct {
	r     *Rng
	n     int
	kinds map[string]int
}

func (h *hostile) mark() string { h.n++; return fmt.Sprintf("ZQ%dQZ", h.n) }

var payloadKinds = []string{
	"script", "imgattr", "sqattr", "jsurl", "dataurl", "pct0a", "nul", "badutf8", "entity", "backtick",
	"tplaction", "closetable", "comment", "commentend", "crlf", "spaces", "plus", "queryfrag", "unicode",
	"style", "styleend", "cdata", "numentity", "dquote", "lt", "star", "pctraw", "parens", "slashes", "at",
}

func (h *hostile) payload() string {
	m := h.mark()
	k := payloadKinds[h.r.Intn(len(payloadKinds))]
	h.kinds[k]++
	switch k {
	case "script":
		return "<script>alert(" + m + ")</script>"
	case "imgattr":
		return "\"><img src=x onerror=" + m + ">"
	case "sqattr":
		return "' onmouseover='" + m
	case "jsurl":
		return "javascript:" + m
	case "dataurl":
		return "data:text/html," + m
	case "pct0a":
		return "%0a" + m + "%22%3e"
	case "nul":
		return "\x00" + m + "\x00"
	case "badutf8":
		return "\xff\xfe" + m + "\xc3"
	case "entity":
		return "&amp;" + m + "&lt;&quot;"
	case "backtick":
		return "`" + m + "`"
	case "tplaction":
		return "{{." + m + "}}"
	case "closetable":
		return "</a></td></tr></table><h1>" + m + "</h1>"
	case "comment":
		return "<!--" + m
	case "commentend":
		return "--><a href=javascript:" + m + ">"
	case "crlf":
		return "\r\n" + m + "\t\x0b\x0c"
	case "spaces":
		return " " + m + " x=y "
	case "plus":
		return "+" + m + "+"
	case "queryfrag":
		return "?" + m + "#" + m
	case "unicode":
		return "é" + m + "… "
	case "style":
		return "<style>*{x:" + m + "}"
	case "styleend":
		return "</style></title><script>" + m
	case "cdata":
		return "]]>" + m + "<![CDATA["
	case "numentity":
		return "&#x3c;" + m + "&#60;"
	case "dquote":
		return "\"" + m + "\""
	case "lt":
		return "<" + m
	case "star":
		return "*"
	case "pctraw":
		return "%" + m + "%zz%4"
	case "parens":
		return "(" + m + ")"
	case "slashes":
		return "//" + m + "/../"
	default:
		return "@" + m + "@v1.2.3"
	}
}

// str: a hostile replacement of a benign value; keeps some values benign and
// some empty.
func (h *hostile) str(benign string) string {
	switch h.r.Intn(8) {
	case 0:
		return benign
	case 1:
		return benign + h.payload()
	case 2:
		return h.payload() + benign
	case 3:
		if len(benign) > 1 {
			i := 1 + h.r.Intn(len(benign)-1)
			return benign[:i] + h.payload() + benign[i:]
		}
		return h.payload()
	case 4:
		return h.payload() + h.payload()
	default:
		return h.payload()
	}
}

// comp: a path component (no '/'): benign or payload with slashes removed
// most of the time.
func (h *hostile) comp(benign string) string {
	if h.r.Chance(1, 3) {
		return benign
	}
	s := h.str(benign)
	if h.r.Chance(4, 5) {
		s = strings.ReplaceAll(s, "/", "")
	}
	if h.r.Chance(1, 2) {
		s = strings.ReplaceAll(s, "@", "")
	}
	return s
}

var versionForms = []string{
	"v1.2.3", "v0.0.0-20200223170610-d5e6a3e2c0ae", "v2.4.0", "v1.2.3-4-abc", "xv0.0.0-1-zz", "v0.0.0-2020-gg",
	// semver pre-releases and build metadata, the other two pseudo-version forms, short tags
	"v1.0.0-rc1", "v2.3.4-beta.2", "v1.0.0-rc.1+incompatible", "v1.2.4-0.20191109021931-daa7c04131f5", "v1.2.3-pre.0.20191109021931-daa7c04131f5",
	"v2.0.0+incompatible", "v1-a", "v0.0.0-", "-", "v1.2.3-",
	"v1.2.3-0.20200223170610-d5e6a3e2c0ae", "v10.20.30-40-0a1b2cxyz", "vv1.2.3-4-ff", "v1.2-3-4", "", "master", "v1.2.3-4-", "1v1.1.1-1-a/v2.2.2-2-b",
}

// modPath: a module-style relative path with payloads in each component.
func (h *hostile) modPath(file string) string {
	ver := func() string {
		if h.r.Chance(1, 4) {
			return ""
		}
		v := versionForms[h.r.Intn(len(versionForms))]
		if h.r.Chance(1, 4) {
			v = h.comp(v)
		}
		return "@" + v
	}
	var p string
	switch h.r.Intn(9) {
	case 0:
		p = "github.com/" + h.comp("u") + "/" + h.comp("r") + ver() + "/" + h.comp("pkg") + "/" + file
	case 1:
		p = "github.com/" + h.comp("u") + "/" + h.comp("r") + ver() + "/" + file
	case 2:
		p = "golang.org/x/" + h.comp("net") + ver() + "/" + h.comp("http2") + "/" + file
	case 3:
		p = "golang.org/" + h.comp("y") + "/" + h.comp("net") + ver() + "/" + file
	case 4:
		p = "gopkg.in/" + h.comp("yaml.v2") + ver() + "/" + file
	case 5:
		p = "github.com/" + h.comp("onlyone")
	case 6:
		p = h.comp("example.com") + "/" + h.comp("m") + ver() + "/" + file
	case 7:
		p = h.comp("net") + "/" + h.comp("http") + "/" + file
	default:
		p = h.str("main.go")
	}
	if h.r.Chance(1, 4) {
		p = h.comp("corp") + "/vendor/" + p
	}
	if h.r.Chance(1, 12) {
		p = "/vendor/" + p
	}
	return p
}

var methodForms = []string{"(*T).M", "(T).M", "(*).M", "().M", "(*T)M", "(*T).", "(*T).M\n", "(a)(b).c", "(*T).M.func1", "F", "f", "(*a)b).c.d", "(**T).M", "(*T)..", "(\n).x"}

func (h *hostile) funcName() string {
	switch h.r.Intn(4) {
	case 0:
		return methodForms[h.r.Intn(len(methodForms))]
	case 1:
		return "(*" + h.comp("T") + ")." + h.comp("M")
	case 2:
		return "(" + h.payload() + ")." + h.payload()
	default:
		return h.str("Serve")
	}
}

func (h *hostile) args() MArgs {
	a := MArgs{Processed: []HB{}, Values: []MArg{}, Elided: h.r.Chance(1, 4)}
	var rec func(as []MArg) []MArg
	rec = func(as []MArg) []MArg {
		out := make([]MArg, len(as))
		for i := range as {
			if as[i].Agg != nil {
				out[i] = MArg{Agg: &MAgg{Elided: as[i].Agg.Elided, Values: rec(as[i].Agg.Values)}}
			} else {
				out[i] = as[i]
				if h.r.Chance(1, 3) {
					out[i].Name = hb(h.str("#1"))
				}
			}
		}
		return out
	}
	a.Values = rec(argVariants[h.r.Intn(len(argVariants))])
	if h.r.Chance(1, 3) {
		n := 1 + h.r.Intn(3)
		for i := 0; i < n; i++ {
			a.Processed = append(a.Processed, hb(h.str("string(0xc000010000, len=3)")))
		}
	}
	return a
}

func (h *hostile) call() MCall {
	file := h.comp("server.go")
	rel := h.modPath(file)
	c := MCall{
		Fn: MFunc{
			C:    hb(h.str("net/http.(*conn).serve")),
			IP:   hb(h.str("net/http")),
			DN:   hb(h.str("http")),
			N:    hb(h.funcName()),
			Ex:   h.r.Bool(),
			Main: h.r.Chance(1, 8),
		},
		Args:   h.args(),
		Line:   h.r.Intn(3000),
		Src:    hb(h.str("server.go")),
		DirSrc: hb(h.str("http/server.go")),
		Rel:    hb(rel),
		Loc:    h.r.Intn(5),
	}
	switch h.r.Intn(4) {
	case 0:
		c.IP = hb(h.modPath("x"))
	case 1:
		c.IP = hb(h.str("github.com/u/r/pkg"))
	case 2:
		c.IP = c.Fn.IP
	default:
		c.IP = hb("")
	}
	remote := h.str("/goroot/src/net/http/server.go")
	c.Remote = hb(remote)
	switch h.r.Intn(4) {
	case 0:
		c.Local = hb("")
	case 1:
		c.Local = c.Remote
	default:
		c.Local = hb(h.str("/home/u/go/src/net/http/server.go"))
	}
	if h.r.Chance(1, 8) {
		c.Rel = hb("")
	}
	if h.r.Chance(1, 10) {
		c.Remote = hb("")
	}
	return c
}

var benignStates = []string{"running", "chan receive", "select", "IO wait", "sleep"}

func (h *hostile) sig() MSig {
	s := MSig{State: hb(h.str(benignStates[h.r.Intn(len(benignStates))])), Locked: h.r.Chance(1, 4)}
	s.Stack.Calls = []MCall{}
	s.Created.Calls = []MCall{}
	n := h.r.Intn(5)
	for i := 0; i < n; i++ {
		s.Stack.Calls = append(s.Stack.Calls, h.call())
	}
	s.Stack.Elided = h.r.Chance(1, 4)
	if h.r.Chance(1, 2) {
		c := h.call()
		c.Args = MArgs{Processed: []HB{}, Values: []MArg{}}
		s.Created.Calls = append(s.Created.Calls, c)
		if h.r.Chance(1, 4) {
			s.Created.Calls = append(s.Created.Calls, h.call())
		}
	}
	switch h.r.Intn(4) {
	case 0:
		s.SMin, s.SMax = 1+h.r.Intn(20), 0
		s.SMax = s.SMin
	case 1:
		s.SMin = h.r.Intn(5)
		s.SMax = s.SMin + 1 + h.r.Intn(50)
	}
	return s
}

type snapFields struct {
	LocalGOROOT, RemoteGOROOT string
	LocalGOPATHs              []string
	LocalGomods               map[string]string
}

func (h *hostile) snapshot(maxG int) ([]MG, snapFields) {
	n := 1 + h.r.Intn(maxG)
	gs := make([]MG, n)
	race := h.r.Chance(1, 3)
	dup := h.r.Chance(1, 2)
	for i := range gs {
		if dup && i > 0 && h.r.Chance(1, 2) {
			// same signature as an earlier goroutine, so that buckets have several members
			src := gs[h.r.Intn(i)]
			json.Unmarshal([]byte(jsonStr(src)), &gs[i])
			gs[i].ID = 100 + i
			gs[i].First = false
			continue
		}
		gs[i] = MG{Sig: h.sig(), ID: 1 + i*3, First: i == 0}
		if race {
			gs[i].RA = uint64(h.r.Next()>>h.r.Intn(60)) | 1
			gs[i].RW = h.r.Bool()
		}
	}
	f := snapFields{}
	if h.r.Chance(2, 3) {
		f.RemoteGOROOT = h.str("/goroot")
	}
	switch h.r.Intn(3) {
	case 0:
		f.LocalGOROOT = f.RemoteGOROOT
	case 1:
		f.LocalGOROOT = h.str("/usr/local/go")
	}
	for i := h.r.Intn(3); i > 0; i-- {
		f.LocalGOPATHs = append(f.LocalGOPATHs, h.str("/home/u/go"))
	}
	if h.r.Chance(1, 2) {
		f.LocalGomods = map[string]string{}
		for i := 1 + h.r.Intn(2); i > 0; i-- {
			f.LocalGomods[h.str("/work/m")] = h.str("example.com/m")
		}
	}
	return gs, f
}

// ---------------------------------------------------------------------------
// Benign twin: same shape (counts, flags, emptiness and equality pattern of
// the strings the template tests), every string replaced by harmless text.
// ---------------------------------------------------------------------------

func benignStr(s HB, repl string) HB {
	if s == "" {
		return ""
	}
	return hb(repl)
}

func benignCall(c MCall) MCall {
	out := c
	out.Fn = MFunc{C: benignStr(c.Fn.C, "pkg.Func"), IP: benignStr(c.Fn.IP, "pkg"), DN: benignStr(c.Fn.DN, "pkg"), N: benignStr(c.Fn.N, "Func"), Ex: c.Fn.Ex, Main: c.Fn.Main}
	out.Remote = benignStr(c.Remote, "/r/f.go")
	if c.Local == c.Remote {
		out.Local = out.Remote
	} else {
		out.Local = benignStr(c.Local, "/l/f.go")
	}
	out.Src = benignStr(c.Src, "f.go")
	out.DirSrc = benignStr(c.DirSrc, "pkg/f.go")
	out.Rel = benignStr(c.Rel, "pkg/f.go")
	out.IP = benignStr(c.IP, "pkg")
	var rec func(as []MArg) []MArg
	rec = func(as []MArg) []MArg {
		o := make([]MArg, len(as))
		for i := range as {
			if as[i].Agg != nil {
				o[i] = MArg{Agg: &MAgg{Elided: as[i].Agg.Elided, Values: rec(as[i].Agg.Values)}}
			} else {
				o[i] = as[i]
				o[i].Name = benignStr(as[i].Name, "#1")
			}
		}
		return o
	}
	out.Args = MArgs{Elided: c.Args.Elided, Values: rec(c.Args.Values), Processed: []HB{}}
	for _, p := range c.Args.Processed {
		// an empty processed argument stays empty
		out.Args.Processed = append(out.Args.Processed, benignStr(p, "x"))
	}
	return out
}

func benignStack(s MStack) MStack {
	out := MStack{Elided: s.Elided, Calls: make([]MCall, len(s.Calls))}
	for i := range s.Calls {
		out.Calls[i] = benignCall(s.Calls[i])
	}
	return out
}

func benignSig(s MSig) MSig {
	out := s
	out.State = benignStr(s.State, "running")
	out.Created = benignStack(s.Created)
	out.Stack = benignStack(s.Stack)
	return out
}

func benignFields(f snapFields) snapFields {
	b := func(s, repl string) string {
		if s == "" {
			return ""
		}
		return repl
	}
	out := snapFields{RemoteGOROOT: b(f.RemoteGOROOT, "/goroot")}
	if f.LocalGOROOT == f.RemoteGOROOT {
		out.LocalGOROOT = out.RemoteGOROOT
	} else {
		out.LocalGOROOT = b(f.LocalGOROOT, "/local/go")
	}
	for range f.LocalGOPATHs {
		out.LocalGOPATHs = append(out.LocalGOPATHs, "/gp")
	}
	if f.LocalGomods != nil {
		out.LocalGomods = map[string]string{}
		i := 0
		for range f.LocalGomods {
			out.LocalGomods["/m"+strconv.Itoa(i)] = "m"
			i++
		}
	}
	return out
}

func mkSnapshot(gs []MG, f snapFields) *stack.Snapshot {
	return &stack.Snapshot{Goroutines: sGs(gs), LocalGOROOT: f.LocalGOROOT, RemoteGOROOT: f.RemoteGOROOT, LocalGOPATHs: f.LocalGOPATHs, LocalGomods: f.LocalGomods}
}

func sBucket(b *MBucket) *stack.Bucket {
	return &stack.Bucket{Signature: sSig(&b.Sig), IDs: append([]int{}, b.IDs...), First: b.First}
}

// ---------------------------------------------------------------------------
// Document inspection (direct oracle)
// ---------------------------------------------------------------------------

type tok struct {
	typ   xhtml.TokenType
	name  string
	attrs []xhtml.Attribute
	text  string
	raw   string // raw text element this token is inside of ("" if none)
}

func tokenize(doc []byte) []tok {
	z := xhtml.NewTokenizer(bytes.NewReader(doc))
	var out []tok
	raw := ""
	for {
		tt := z.Next()
		if tt == xhtml.ErrorToken {
			return out
		}
		t := z.Token()
		k := tok{typ: tt, name: t.Data, attrs: t.Attr, raw: raw}
		switch tt {
		case xhtml.TextToken, xhtml.CommentToken, xhtml.DoctypeToken:
			k.name, k.text = "", t.Data
		case xhtml.StartTagToken:
			if t.Data == "script" || t.Data == "style" || t.Data == "title" || t.Data == "textarea" {
				raw = t.Data
			}
		case xhtml.EndTagToken:
			if t.Data == raw {
				raw = ""
			}
		}
		out = append(out, k)
	}
}

var allowedSchemes = []string{"https://", "file:///", "data:image/gif;base64,"}

func urlAttrOK(v string) string {
	if v == "" {
		return ""
	}
	ok := false
	for _, s := range allowedSchemes {
		if strings.HasPrefix(v, s) {
			ok = true
		}
	}
	if !ok {
		return "does not start with a fixed https:, file: or data: scheme"
	}
	for i := 0; i < len(v); i++ {
		c := v[i]
		if c <= 0x20 || c >= 0x7f || c == '"' || c == '\'' || c == '<' || c == '>' || c == '`' || c == '\\' || c == '(' || c == ')' {
			return fmt.Sprintf("contains the byte 0x%02x", c)
		}
	}
	return ""
}

// tagShape: the sequence of markup tokens (tags with attribute names, comments,
// doctype), with the values of all attributes except href.
func tagShape(ts []tok) []string {
	var out []string
	for _, t := range ts {
		switch t.typ {
		case xhtml.TextToken:
			continue
		case xhtml.CommentToken:
			out = append(out, "<!--"+t.text+"-->")
		case xhtml.DoctypeToken:
			out = append(out, "<!DOCTYPE "+t.text+">")
		default:
			s := t.typ.String() + " " + t.name
			for _, a := range t.attrs {
				if a.Key == "href" {
					s += " href"
				} else {
					s += " " + a.Key + "=" + strconv.Quote(a.Val)
				}
			}
			out = append(out, s)
		}
	}
	return out
}

// checkTokens: the per-token part of the oracle.
func checkTokens(ts []tok, benign []tok) string {
	for _, t := range ts {
		switch t.typ {
		case xhtml.TextToken:
			if t.raw != "" && strings.Contains(t.text, "ZQ") {
				return "dump text inside a <" + t.raw + "> element: " + clip(t.text)
			}
		case xhtml.CommentToken:
			if strings.Contains(t.text, "ZQ") {
				return "dump text inside a comment: " + clip(t.text)
			}
		case xhtml.StartTagToken, xhtml.SelfClosingTagToken, xhtml.EndTagToken:
			if strings.Contains(t.name, "zq") || strings.Contains(t.name, "ZQ") {
				return "dump text in a tag name: " + clip(t.name)
			}
			for _, a := range t.attrs {
				if strings.HasPrefix(a.Key, "on") {
					return "event handler attribute " + a.Key
				}
				if strings.Contains(strings.ToUpper(a.Key), "ZQ") {
					return "dump text in an attribute name: " + clip(a.Key)
				}
				if a.Key == "href" || a.Key == "src" {
					if w := urlAttrOK(a.Val); w != "" {
						return a.Key + " value " + w + ": " + clip(a.Val)
					}
					// a file: link is the literal scheme followed by the URL-escaped
					// path and nothing else: dump text must not be able to open a
					// query or a fragment
					if strings.HasPrefix(a.Val, "file:///") && strings.ContainsAny(a.Val, "?#") {
						return a.Key + " value: the path of a file: link is not URL-escaped ('?' or '#' survives): " + clip(a.Val)
					}
				}
			}
		}
	}
	a, b := tagShape(ts), tagShape(benign)
	if len(a) != len(b) {
		return fmt.Sprintf("the document has %d markup tokens, the benign twin of the same shape has %d", len(a), len(b))
	}
	for i := range a {
		if a[i] != b[i] {
			return fmt.Sprintf("markup token %d is %s, in the benign twin it is %s", i, clip(a[i]), clip(b[i]))
		}
	}
	return ""
}

// normText: what an HTML parser makes of text that went through the escaper:
// NUL shows as U+FFFD, CR and CRLF as LF.
func normText(s string) string {
	s = strings.ReplaceAll(s, "\x00", "�")
	s = strings.ReplaceAll(s, "\r\n", "\n")
	return strings.ReplaceAll(s, "\r", "\n")
}

func nodeText(n *xhtml.Node) string {
	var sb strings.Builder
	var rec func(n *xhtml.Node)
	rec = func(n *xhtml.Node) {
		if n.Type == xhtml.TextNode {
			sb.WriteString(n.Data)
		}
		for c := n.FirstChild; c != nil; c = c.NextSibling {
			rec(c)
		}
	}
	rec(n)
	return sb.String()
}

func attrOf(n *xhtml.Node, k string) string {
	for _, a := range n.Attr {
		if a.Key == k {
			return a.Val
		}
	}
	return ""
}

func findAll(n *xhtml.Node, pred func(*xhtml.Node) bool, out *[]*xhtml.Node) {
	if n.Type == xhtml.ElementNode && pred(n) {
		*out = append(*out, n)
	}
	for c := n.FirstChild; c != nil; c = c.NextSibling {
		findAll(c, pred, out)
	}
}

func elems(n *xhtml.Node, name string) []*xhtml.Node {
	var out []*xhtml.Node
	findAll(n, func(x *xhtml.Node) bool { return x.Data == name }, &out)
	return out
}

func childElems(n *xhtml.Node, name string) []*xhtml.Node {
	var out []*xhtml.Node
	for c := n.FirstChild; c != nil; c = c.NextSibling {
		if c.Type == xhtml.ElementNode && c.Data == name {
			out = append(out, c)
		}
	}
	return out
}

// expectation for one block (bucket or goroutine)
type blockExp struct {
	heading string // text expected inside the <h1>
	state   string
	sig     *MSig
}

func expArgString(a *MArg) string {
	g := sArg(a)
	return g.String()
}

func expArgs(a *MArgs) string {
	var v []string
	if len(a.Processed) != 0 {
		for _, p := range a.Processed {
			v = append(v, p.String())
		}
	} else {
		for i := range a.Values {
			v = append(v, expArgString(&a.Values[i]))
		}
	}
	s := strings.Join(v, ", ")
	if a.Elided {
		if len(v) != 0 {
			s += ", "
		}
		s += "…"
	}
	return s
}

var locNames = []string{"LocationUnknown", "GoMod", "GOPATH", "GoPkg", "Stdlib"}

// checkDOM: completeness and fidelity on the parsed document: one <h1> per
// block, one stack table per block, one row per frame (+ the elided row), and
// every piece of dump text shows exactly as given.
func checkDOM(doc []byte, blocks []blockExp) string {
	root, err := xhtml.Parse(bytes.NewReader(doc))
	if err != nil {
		return "the document does not parse: " + err.Error()
	}
	var content []*xhtml.Node
	findAll(root, func(x *xhtml.Node) bool { return x.Data == "div" && attrOf(x, "id") == "content" }, &content)
	if len(content) != 1 {
		return fmt.Sprintf("%d elements with id=content", len(content))
	}
	if s := elems(root, "script"); len(s) != 0 {
		return "the document contains a <script> element"
	}
	for _, name := range []string{"img", "iframe", "object", "embed", "form", "input", "base", "svg", "math"} {
		if s := elems(root, name); len(s) != 0 {
			return "the document contains a <" + name + "> element"
		}
	}
	h1s := elems(content[0], "h1")
	if len(h1s) != len(blocks) {
		return fmt.Sprintf("%d <h1> headings for %d buckets/goroutines", len(h1s), len(blocks))
	}
	var tables []*xhtml.Node
	findAll(content[0], func(x *xhtml.Node) bool { return x.Data == "table" && attrOf(x, "class") == "stack" }, &tables)
	if len(tables) != len(blocks) {
		return fmt.Sprintf("%d stack tables for %d buckets/goroutines", len(tables), len(blocks))
	}
	if all := elems(root, "table"); len(all) != len(blocks)+1 {
		return fmt.Sprintf("%d tables in the document, expected %d", len(all), len(blocks)+1)
	}
	for bi, b := range blocks {
		ht := nodeText(h1s[bi])
		if !strings.HasPrefix(ht, b.heading) {
			return fmt.Sprintf("heading %d is %q, expected prefix %q", bi, clip(ht), b.heading)
		}
		var st []*xhtml.Node
		findAll(h1s[bi], func(x *xhtml.Node) bool { return x.Data == "span" && attrOf(x, "class") == "state" }, &st)
		if len(st) != 1 || nodeText(st[0]) != normText(b.state) {
			return fmt.Sprintf("heading %d does not show the state %q", bi, clip(b.state))
		}
		var rows []*xhtml.Node
		for _, tr := range elems(tables[bi], "tr") {
			if len(childElems(tr, "td")) != 0 {
				rows = append(rows, tr)
			}
		}
		calls := b.sig.Stack.Calls
		want := len(calls)
		if b.sig.Stack.Elided {
			want++
		}
		if len(rows) != want {
			return fmt.Sprintf("block %d: %d rows for %d frames (elided=%v)", bi, len(rows), len(calls), b.sig.Stack.Elided)
		}
		for ci := range calls {
			c := &calls[ci]
			tds := childElems(rows[ci], "td")
			if len(tds) != 4 {
				return fmt.Sprintf("block %d row %d has %d cells", bi, ci, len(tds))
			}
			if t := strings.TrimSpace(nodeText(tds[0])); t != strconv.Itoa(ci) {
				return fmt.Sprintf("block %d row %d is numbered %q", bi, ci, t)
			}
			as := elems(tds[1], "a")
			if len(as) != 1 || nodeText(as[0]) != normText(c.Fn.DN.String()) {
				return fmt.Sprintf("block %d row %d: package cell does not show DirName %q", bi, ci, clip(c.Fn.DN.String()))
			}
			as = elems(tds[2], "a")
			if len(as) != 1 || nodeText(as[0]) != normText(c.Src.String())+":"+strconv.Itoa(c.Line) {
				return fmt.Sprintf("block %d row %d: source cell does not show %q:%d", bi, ci, clip(c.Src.String()), c.Line)
			}
			tip := nodeText(tds[2])
			wantTip := "SrcPath: " + c.Remote.String()
			if c.Local != "" && c.Local != c.Remote {
				wantTip = "RemoteSrcPath: " + c.Remote.String() + "\nLocalSrcPath: " + c.Local.String()
			}
			wantTip += "Func: " + c.Fn.C.String() + "\nLocation: " + locNames[c.Loc] + "\n"
			if !strings.Contains(tip, normText(wantTip)) {
				return fmt.Sprintf("block %d row %d: tooltip %q does not show %q", bi, ci, clip(tip), clip(wantTip))
			}
			as = elems(tds[3], "a")
			if len(as) != 1 || nodeText(as[0]) != normText(c.Fn.N.String()) {
				return fmt.Sprintf("block %d row %d: function cell does not show Name %q", bi, ci, clip(c.Fn.N.String()))
			}
			var sp []*xhtml.Node
			findAll(tds[3], func(x *xhtml.Node) bool { return x.Data == "span" && attrOf(x, "class") == "args" }, &sp)
			if len(sp) != 1 || nodeText(sp[0]) != normText(expArgs(&c.Args)) {
				got := ""
				if len(sp) == 1 {
					got = nodeText(sp[0])
				}
				return fmt.Sprintf("block %d row %d: arguments show as %q, expected %q", bi, ci, clip(got), clip(expArgs(&c.Args)))
			}
		}
	}
	return ""
}

func contentOf(doc []byte) (string, bool) {
	const open, close = `<div id="content">`, "</div>\n<h2>Metadata</h2>"
	i := bytes.Index(doc, []byte(open))
	if i < 0 {
		return "", false
	}
	rest := doc[i+len(open):]
	j := bytes.Index(rest, []byte(close))
	if j < 0 {
		return "", false
	}
	return string(rest[:j]), true
}

// ---------------------------------------------------------------------------
// html/template as reference for the escapers
// ---------------------------------------------------------------------------

var (
	tplText  = template.Must(template.New("x").Parse("<p>{{.}}</p>"))
	tplAttr  = template.Must(template.New("x").Parse(`<p title="{{.}}">`))
	tplHref  = template.Must(template.New("x").Parse(`<a href="{{.}}">`))
	tplClass = template.Must(template.New("x").Parse(`<span class="{{.}}">`))
)

func execHole(t *template.Template, pre, post string, v interface{}) string {
	var b bytes.Buffer
	if err := t.Execute(&b, v); err != nil {
		return "ERR:" + err.Error()
	}
	s := b.String()
	if !strings.HasPrefix(s, pre) || !strings.HasSuffix(s, post) {
		return "ERR:frame"
	}
	return s[len(pre) : len(s)-len(post)]
}

type escRep struct {
	HTMLEscaper     HB `json:"htmlEscaper"`
	AttrEscaper     HB `json:"attrEscaper"`
	AttrEscaperHTML struct {
		Err string `json:"err"`
		V   HB     `json:"v"`
	} `json:"attrEscaperHTML"`
	Href struct {
		Err string `json:"err"`
		V   HB     `json:"v"`
	} `json:"href"`
	Escape           HB   `json:"escape"`
	QueryEscape      HB   `json:"queryEscape"`
	HTMLEscapeString HB   `json:"htmlEscapeString"`
	SplitTag         []HB `json:"splitTag"`
	Symbol           HB   `json:"symbol"`
}

type excRep struct {
	Err string `json:"err"`
	V   HB     `json:"v"`
}

type callRep struct {
	PkgURL    excRep `json:"pkgURL"`
	SrcURL    excRep `json:"srcURL"`
	Symbol    HB     `json:"symbol"`
	FuncClass HB     `json:"funcClass"`
}

func safeAttrBytes(s string) string {
	for i := 0; i < len(s); i++ {
		switch s[i] {
		case '"', '\'', '<', '>', 0:
			return fmt.Sprintf("contains the byte 0x%02x", s[i])
		}
	}
	return ""
}

// renderUnescaped renders the same template source with text/template (no
// contextual escaping): what the document would be if html.go stopped using
// html/template.  Used only to check that the oracle is sensitive.
func renderUnescaped(snap *stack.Snapshot) ([]byte, error) {
	m := ttemplate.FuncMap{
		"funcClass": func(c *stack.Call) string { return stack.VerifFuncClass(c) },
		"minus":     func(i, j int) int { return i - j },
		"pkgURL":    func(c *stack.Call) string { return stack.VerifPkgURL(c) },
		"srcURL":    func(c *stack.Call) string { return stack.VerifSrcURL(c) },
		"symbol":    func(f *stack.Func) string { return stack.VerifSymbol(f) },
	}
	t, err := ttemplate.New("t").Funcs(m).Parse(stack.VerifIndexHTML())
	if err != nil {
		return nil, err
	}
	var b bytes.Buffer
	err = t.Execute(&b, map[string]interface{}{"Footer": "", "Snapshot": snap, "Favicon": "AAAA", "GOMAXPROCS": 1, "Now": time.Unix(0, 0), "Version": runtime.Version()})
	return b.Bytes(), err
}

// ---------------------------------------------------------------------------

func runC17(prop string, res *Result, pool *DrvPool, r *Rng) {
	defer runC17SlowWriters(res, r.Fork())
	res.Rule = "constructed snapshots (1-5 goroutines, 0-4 frames, creators, race fields, sleeps, elided stacks, nested aggregate arguments, processed arguments, GOROOT/GOPATH/go.mod fields) in which every string field carries markup/attribute/URL payloads with unique markers (30 payload kinds), module paths (github.com, golang.org/x, vendor, gopkg.in, @version incl. pseudo-versions) with payloads per component, all 5 locations; rendered by Snapshot.ToHTML and Aggregated.ToHTML at the 4 levels; plus per-call builder cases and per-string escaper cases; non-trivial = the case carries at least one payload; distinct by hash of the input"
	ver := runtime.Version()
	h := &hostile{r: r, kinds: map[string]int{}}

	// (1) escapers and small builders, per string
	nEsc := countN(res.Tier, 6000, 150000)
	for i := 0; i < nEsc; i++ {
		var s string
		switch r.Intn(6) {
		case 0:
			s = h.modPath("f.go")
		case 1:
			s = h.funcName()
		case 2:
			s = h.comp("r") + "@" + versionForms[r.Intn(len(versionForms))]
		case 3:
			b := make([]byte, r.Intn(12))
			for j := range b {
				b[j] = byte(r.Intn(256))
			}
			s = string(b)
		case 4:
			b := make([]byte, r.Intn(10))
			al := "%2fAg &+<>\"'`=?#@:/;,$-_.~*()[]!\x00\n\r\t\x7f\x80\xc3\xa9{}|\\^"
			for j := range b {
				b[j] = al[r.Intn(len(al))]
			}
			s = string(b)
		default:
			s = h.str("net/http")
		}
		res.Eval("esc:"+s, s != "")
		// direct: the escaped forms cannot close the context they are placed in
		he := execHole(tplText, "<p>", "</p>", s)
		if strings.ContainsAny(he, "<>\"'\x00") {
			res.Violation(Finding{Stream: "escaper", What: "text hole output contains a markup byte: " + clip(he), Op: map[string]interface{}{"s": hb(s)}})
		}
		at := execHole(tplAttr, `<p title="`, `">`, s)
		if w := safeAttrBytes(at); w != "" {
			res.Violation(Finding{Stream: "escaper", What: "attribute hole output " + w + ": " + clip(at), Op: map[string]interface{}{"s": hb(s)}})
		}
		hr := execHole(tplHref, `<a href="`, `">`, template.URL(s))
		if w := safeAttrBytes(hr); w != "" || strings.ContainsAny(hr, " \t\r\n") {
			res.Violation(Finding{Stream: "escaper", What: "href hole output of a template.URL is unsafe " + w + ": " + clip(hr), Op: map[string]interface{}{"s": hb(s)}})
		}
		cl := execHole(tplClass, `<span class="`, `">`, template.HTML(s))
		if w := safeAttrBytes(cl); w != "" {
			res.Violation(Finding{Stream: "escaper", What: "class hole output of a template.HTML " + w + ": " + clip(cl), Op: map[string]interface{}{"s": hb(s)}})
		}
		var p, st, tg string
		if pn := catch(func() { p, st, tg = stack.VerifSplitTag(s); stack.VerifEscape(s); stack.VerifSymbol(&stack.Func{Name: s}) }); pn != nil {
			// the template engine turns a panic of a builder into a failed rendering
			res.Violation(Finding{Stream: "builders", What: fmt.Sprintf("a link builder (splitTag / escape / symbol) panicked on a path component taken from the dump: %v - rendering a snapshot that contains it fails", pn), Op: map[string]interface{}{"op": "html.esc", "s": hb(s)}})
			continue
		}
		hasLt := strings.Contains(s, "<")
		want := map[string]string{
			"htmlEscaper": he, "attrEscaper": at, "href": hr, "escape": stack.VerifEscape(s),
			"htmlEscapeString": template.HTMLEscapeString(s), "symbol": stack.VerifSymbol(&stack.Func{Name: s}),
			"splitTag": p + "\x01" + st + "\x01" + tg, "class": cl,
		}
		op := map[string]interface{}{"op": "html.esc", "s": hb(s)}
		pool.Send(op, func(raw json.RawMessage) {
			res.Trace()
			var rep escRep
			if err := json.Unmarshal(raw, &rep); err != nil || len(rep.SplitTag) != 3 {
				res.Disagree(Finding{Stream: "S17 escapers", What: "bad reply " + string(raw), Op: op})
				return
			}
			got := map[string]string{
				"htmlEscaper": rep.HTMLEscaper.String(), "attrEscaper": rep.AttrEscaper.String(), "href": rep.Href.V.String(),
				"escape": rep.Escape.String(), "htmlEscapeString": rep.HTMLEscapeString.String(), "symbol": rep.Symbol.String(),
				"splitTag": rep.SplitTag[0].String() + "\x01" + rep.SplitTag[1].String() + "\x01" + rep.SplitTag[2].String(),
				"class":    rep.AttrEscaperHTML.V.String(),
			}
			if rep.AttrEscaperHTML.Err != "" {
				// outside the modelled fragment of stripTags (input contains '<')
				if !hasLt {
					res.Disagree(Finding{Stream: "S17 escapers", What: "model refuses stripTags on input without '<'", Op: op})
				}
				delete(want, "class")
				res.Count("esc:stripTags-unmodelled")
			}
			for k, w := range want {
				if got[k] != w {
					res.Disagree(Finding{Stream: "S17 escapers", What: k + ": model and implementation differ", Op: op, Expected: hb(w), Got: hb(got[k])})
				}
			}
		})
	}

	// (2) builders per call
	nCall := countN(res.Tier, 6000, 150000)
	for i := 0; i < nCall; i++ {
		mc := h.call()
		sc := sCall(&mc)
		var pu, su, sym, fc string
		if pn := catch(func() {
			pu, su = stack.VerifPkgURL(&sc), stack.VerifSrcURL(&sc)
			sym, fc = stack.VerifSymbol(&sc.Func), stack.VerifFuncClass(&sc)
		}); pn != nil {
			res.Violation(Finding{Stream: "builders", What: fmt.Sprintf("a link builder (pkgURL / srcURL / symbol / funcClass) panicked on a frame: %v - rendering a snapshot that contains it fails", pn), Op: map[string]interface{}{"op": "html.call", "call": mc, "ver": hb(ver)}})
			continue
		}
		res.Eval("call:"+jsonStr(mc), true)
		op := map[string]interface{}{"op": "html.call", "call": mc, "ver": hb(ver)}
		// direct: fixed scheme first, whatever the fields
		okPfx := func(u string, pfx ...string) bool {
			if u == "" {
				return true
			}
			for _, p := range pfx {
				if strings.HasPrefix(u, p) {
					return true
				}
			}
			return false
		}
		if !okPfx(su, "https://github.com/", "file:///") {
			res.Violation(Finding{Stream: "builders", What: "srcURL does not start with a fixed scheme and host: " + clip(su), Op: op})
		}
		if !okPfx(pu, "https://golang.org/pkg/", "https://godoc.org/", "https://pkg.go.dev/") {
			res.Violation(Finding{Stream: "builders", What: "pkgURL does not start with a fixed scheme and host: " + clip(pu), Op: op})
		}
		if strings.ContainsAny(fc, "<>\"'&") {
			res.Violation(Finding{Stream: "builders", What: "funcClass contains markup: " + clip(fc), Op: op})
		}
		switch {
		case strings.HasPrefix(su, "https://github.com/golang/go/blob/"):
			res.Count("srcURL:stdlib")
		case strings.HasPrefix(su, "https://github.com/golang/"):
			res.Count("srcURL:golang.org/x-or-github")
		case strings.HasPrefix(su, "https://github.com/"):
			res.Count("srcURL:github")
		case strings.HasPrefix(su, "file:///"):
			res.Count("srcURL:file")
		default:
			res.Count("srcURL:empty")
		}
		if strings.ContainsAny(su, "\"'<> \x00\n") {
			// Not a violation of C17: the template normalises the URL. Recorded
			// because the builder inserts the repository name unescaped.
			res.Count("srcURL:raw-unsafe-byte-before-normalisation")
		}
		switch {
		case strings.HasPrefix(pu, "https://golang.org/pkg/"):
			res.Count("pkgURL:stdlib")
		case strings.HasPrefix(pu, "https://godoc.org/"):
			res.Count("pkgURL:godoc")
		case strings.HasPrefix(pu, "https://pkg.go.dev/"):
			res.Count("pkgURL:pkg.go.dev")
		default:
			res.Count("pkgURL:empty")
		}
		pool.Send(op, func(raw json.RawMessage) {
			res.Trace()
			var rep callRep
			if err := json.Unmarshal(raw, &rep); err != nil {
				res.Disagree(Finding{Stream: "S17 builders", What: "bad reply " + string(raw), Op: op})
				return
			}
			cmp := func(k, got, gerr, want string) {
				if gerr != "" || got != want {
					res.Disagree(Finding{Stream: "S17 builders", What: k + ": model and implementation differ " + gerr, Op: op, Expected: hb(want), Got: hb(got)})
				}
			}
			cmp("pkgURL", rep.PkgURL.V.String(), rep.PkgURL.Err, pu)
			cmp("srcURL", rep.SrcURL.V.String(), rep.SrcURL.Err, su)
			cmp("symbol", rep.Symbol.String(), "", sym)
			cmp("funcClass", rep.FuncClass.String(), "", fc)
		})
	}

	// (3) whole documents
	nDoc := countN(res.Tier, 350, 9000)
	for i := 0; i < nDoc; i++ {
		before := h.n
		gs, f := h.snapshot(5)
		nontrivial := h.n > before
		key := jsonStr(gs) + jsonStr(f)
		res.Eval("doc:"+key, nontrivial)
		snap := mkSnapshot(gs, f)
		bgs := make([]MG, len(gs))
		for j := range gs {
			bgs[j] = gs[j]
			bgs[j].Sig = benignSig(gs[j].Sig)
		}
		bf := benignFields(f)
		op := map[string]interface{}{"op": "html.snapshot", "gs": gs, "ver": hb(ver)}

		var doc, bdoc bytes.Buffer
		if err := snap.ToHTML(&doc, ""); err != nil {
			res.Violation(Finding{Stream: "snapshot", What: "Snapshot.ToHTML failed: " + err.Error(), Op: op})
			continue
		}
		wholeDoc(res, pool, "Snapshot.ToHTML", doc.Bytes(), f, ver, "", map[string]interface{}{"gs": gs})
		if err := mkSnapshot(bgs, bf).ToHTML(&bdoc, ""); err != nil {
			res.Violation(Finding{Stream: "snapshot", What: "Snapshot.ToHTML failed on the benign twin: " + err.Error(), Op: op})
			continue
		}
		res.Count("doc:snapshot")
		if w := checkTokens(tokenize(doc.Bytes()), tokenize(bdoc.Bytes())); w != "" {
			res.Violation(Finding{Stream: "snapshot", What: w, Op: op, Got: map[string]interface{}{"fields": f}})
		}
		blocks := make([]blockExp, len(gs))
		for j := range gs {
			blocks[j] = blockExp{heading: fmt.Sprintf("Routine %d: ", gs[j].ID), state: gs[j].Sig.State.String(), sig: &gs[j].Sig}
			if gs[j].RA != 0 {
				res.Count("doc:race-goroutine")
			}
			if gs[j].Sig.Stack.Elided {
				res.Count("doc:elided-stack")
			}
			res.CountN("doc:frames", len(gs[j].Sig.Stack.Calls))
		}
		if w := checkDOM(doc.Bytes(), blocks); w != "" {
			res.Violation(Finding{Stream: "snapshot", What: w, Op: op})
		}
		if i < 2 {
			res.Sample(map[string]interface{}{"snapshot": gs, "fields": f})
		}
		if i%10 == 0 {
			// oracle sensitivity: the unescaped rendering of the same input must be rejected
			if raw, err := renderUnescaped(snap); err == nil {
				w := checkTokens(tokenize(raw), tokenize(bdoc.Bytes()))
				if w == "" {
					w = checkDOM(raw, blocks)
				}
				if w != "" {
					res.Count("selftest:unescaped-rendering-rejected")
				} else {
					res.Count("selftest:unescaped-rendering-accepted")
				}
			} else {
				res.Count("selftest:unescaped-rendering-failed")
			}
		}
		if want, ok := contentOf(doc.Bytes()); !ok {
			res.Violation(Finding{Stream: "snapshot", What: "content division not found in the document", Op: op})
		} else {
			pool.Send(op, func(raw json.RawMessage) {
				res.Trace()
				var rep struct {
					Err     string `json:"err"`
					Content HB     `json:"content"`
				}
				json.Unmarshal(raw, &rep)
				if rep.Err != "" || rep.Content.String() != want {
					res.Disagree(Finding{Stream: "S17 document", What: "content of Snapshot.ToHTML: model and implementation differ " + rep.Err + " " + diffAt(rep.Content.String(), want), Op: op})
				}
			})
		}

		// aggregated, 4 levels
		for li, lvl := range levels {
			var agg *stack.Aggregated
			func() {
				defer func() {
					if e := recover(); e != nil {
						agg = nil
					}
				}()
				agg = mkSnapshot(gs, f).Aggregate(lvl)
			}()
			if agg == nil {
				res.Count("doc:aggregate-panicked")
				continue
			}
			// the caller may reorder the buckets before rendering ("You can reorder at your
			// choosing"): every bucket and frame must still reach the page, in the caller's order
			if len(agg.Buckets) > 2 && r.Chance(1, 2) {
				for j, k := range r.Perm(len(agg.Buckets)) {
					agg.Buckets[j], agg.Buckets[k] = agg.Buckets[k], agg.Buckets[j]
				}
				res.Count("doc:aggregated-reordered")
			}
			mbs := mBuckets(agg.Buckets)
			aop := map[string]interface{}{"op": "html.aggregated", "buckets": mbs, "ver": hb(ver)}
			var adoc, abdoc bytes.Buffer
			if err := agg.ToHTML(&adoc, ""); err != nil {
				res.Violation(Finding{Stream: "aggregated", What: fmt.Sprintf("Aggregated.ToHTML (level %d) failed: %v", li, err), Op: aop})
				continue
			}
			wholeDoc(res, pool, "Aggregated.ToHTML", adoc.Bytes(), f, ver, "", map[string]interface{}{"buckets": mbs})
			bb := &stack.Aggregated{Snapshot: mkSnapshot(bgs, bf)}
			for j := range mbs {
				t := mbs[j]
				t.Sig = benignSig(t.Sig)
				bb.Buckets = append(bb.Buckets, sBucket(&t))
			}
			if err := bb.ToHTML(&abdoc, ""); err != nil {
				res.Violation(Finding{Stream: "aggregated", What: "Aggregated.ToHTML failed on the benign twin: " + err.Error(), Op: aop})
				continue
			}
			res.Count(fmt.Sprintf("doc:aggregated-level%d", li))
			if len(mbs) < len(gs) {
				res.Count("doc:aggregated-merged")
			}
			if w := checkTokens(tokenize(adoc.Bytes()), tokenize(abdoc.Bytes())); w != "" {
				res.Violation(Finding{Stream: "aggregated", What: w, Op: aop})
			}
			ablocks := make([]blockExp, len(mbs))
			for j := range mbs {
				s := ""
				if len(mbs[j].IDs) != 1 {
					s = "s"
				}
				ablocks[j] = blockExp{heading: fmt.Sprintf("Signature #%d: %d routine%s: ", j, len(mbs[j].IDs), s), state: mbs[j].Sig.State.String(), sig: &mbs[j].Sig}
			}
			if w := checkDOM(adoc.Bytes(), ablocks); w != "" {
				res.Violation(Finding{Stream: "aggregated", What: w, Op: aop})
			}
			if want, ok := contentOf(adoc.Bytes()); ok {
				pool.Send(aop, func(raw json.RawMessage) {
					res.Trace()
					var rep struct {
						Err     string `json:"err"`
						Content HB     `json:"content"`
					}
					json.Unmarshal(raw, &rep)
					if rep.Err != "" || rep.Content.String() != want {
						res.Disagree(Finding{Stream: "S17 document", What: "content of Aggregated.ToHTML: model and implementation differ " + rep.Err + " " + diffAt(rep.Content.String(), want), Op: aop})
					}
				})
			} else {
				res.Violation(Finding{Stream: "aggregated", What: "content division not found in the document", Op: aop})
			}
		}
	}
	var ks []string
	for k := range h.kinds {
		ks = append(ks, k)
	}
	sort.Strings(ks)
	for _, k := range ks {
		res.CountN("payload:"+k, h.kinds[k])
	}
}

// docOp builds the model request for the WHOLE document: the harness supplies what the
// environment supplied to the real call (time as printed, toolchain version, GOMAXPROCS,
// the favicon constant as it appears in the page) and the snapshot's metadata fields.
func docOp(doc []byte, f snapFields, ver, footer string, body map[string]interface{}) (map[string]interface{}, bool) {
	d := string(doc)
	between := func(a, b string) (string, bool) {
		i := strings.Index(d, a)
		if i < 0 {
			return "", false
		}
		j := strings.Index(d[i+len(a):], b)
		if j < 0 {
			return "", false
		}
		return d[i+len(a) : i+len(a)+j], true
	}
	fav, ok1 := between(`href="data:image/gif;base64,`, `"`)
	now, ok2 := between("<li>Created on ", "</li>")
	if !ok1 || !ok2 {
		return nil, false
	}
	unesc := strings.NewReplacer("&#43;", "+")
	var keys []string
	for k := range f.LocalGomods {
		keys = append(keys, k)
	}
	sort.Strings(keys)
	mods := [][2]HB{}
	for _, k := range keys {
		mods = append(mods, [2]HB{hb(k), hb(f.LocalGomods[k])})
	}
	gps := []HB{}
	for _, g := range f.LocalGOPATHs {
		gps = append(gps, hb(g))
	}
	op := map[string]interface{}{"op": "html.doc", "ver": hb(ver), "favicon": hb(unesc.Replace(fav)), "now": hb(unesc.Replace(now)),
		"gomaxprocs": runtime.GOMAXPROCS(0), "remoteGOROOT": hb(f.RemoteGOROOT), "localGOROOT": hb(f.LocalGOROOT),
		"localGOPATHs": gps, "localGomods": mods, "footer": hb(footer)}
	for k, v := range body {
		op[k] = v
	}
	return op, true
}

// wholeDoc compares the complete document with the model's renderDoc.
func wholeDoc(res *Result, pool *DrvPool, what string, doc []byte, f snapFields, ver, footer string, body map[string]interface{}) {
	op, ok := docOp(doc, f, ver, footer, body)
	if !ok {
		res.Violation(Finding{Stream: what, What: "favicon link or creation time not found in the document", Op: body})
		return
	}
	want := string(doc)
	pool.Send(op, func(raw json.RawMessage) {
		res.Trace()
		var rep struct {
			Err string `json:"err"`
			Doc HB     `json:"doc"`
		}
		json.Unmarshal(raw, &rep)
		if rep.Err != "" || rep.Doc.String() != want {
			res.Disagree(Finding{Stream: "S17 whole document", What: "whole document of " + what + ": model and implementation differ " + rep.Err + " " + diffAt(rep.Doc.String(), want), Op: op})
		}
	})
	res.Count("doc:whole-document-compared")
}

func diffAt(got, want string) string {
	n := len(got)
	if len(want) < n {
		n = len(want)
	}
	i := 0
	for i < n && got[i] == want[i] {
		i++
	}
	lo := i - 30
	if lo < 0 {
		lo = 0
	}
	g, w := got[lo:], want[lo:]
	if len(g) > 80 {
		g = g[:80]
	}
	if len(w) > 80 {
		w = w[:80]
	}
	return fmt.Sprintf("at byte %d: model %q, implementation %q", i, g, w)
}


// runC17SlowWriters: a page rendered into a writer that takes its time (a slow HTTP client, a pipe)
// while another page is rendered in between, on one processor.  Each document must be the document
// of its own snapshot, byte for byte (creation time aside), exactly as when rendered alone.
func runC17SlowWriters(res *Result, r *Rng) {
	mk := func(tag string, n int) *stack.Snapshot {
		var sb strings.Builder
		for g := 1; g <= n; g++ {
			fmt.Fprintf(&sb, "goroutine %d [chan receive]:\nmain.%sLeaf%d(0x%x)\n\t/src/%s/leaf.go:%d +0x1\nmain.%sMid%d()\n\t/src/%s/mid.go:%d +0x2\nmain.%sRoot()\n\t/src/%s/root.go:7 +0x3\n\n", g, tag, g, g, tag, 10+g, tag, g, tag, 20+g, tag, tag)
		}
		s, _, _ := stack.ScanSnapshot(strings.NewReader(sb.String()), io.Discard, &stack.Opts{})
		return s
	}
	mask := func(b []byte) string { return reCreatedOn.ReplaceAllString(string(b), "") }
	old := runtime.GOMAXPROCS(1)
	defer runtime.GOMAXPROCS(old)
	for round := 0; round < countN(res.Tier, 4, 60); round++ {
		a, b := mk(fmt.Sprintf("alpha%d", round), 20+r.Intn(20)), mk(fmt.Sprintf("beta%d", round), 20+r.Intn(20))
		if a == nil || b == nil {
			return
		}
		var refA, refB bytes.Buffer
		a.ToHTML(&refA, "")
		b.ToHTML(&refB, "")
		pr, pw := io.Pipe()
		errA := make(chan error, 1)
		go func() { errA <- a.ToHTML(pw, ""); pw.Close() }()
		var gotA, gotB bytes.Buffer
		doneB := make(chan struct{})
		buf := make([]byte, 512)
		first := true
		for {
			n, err := pr.Read(buf)
			gotA.Write(buf[:n])
			if first && n > 0 {
				first = false
				// while document A is only partly consumed, document B is rendered (in a goroutine of its
				// own: an implementation may make B wait for A, and A's consumer must not wait for B)
				go func() { b.ToHTML(&gotB, ""); close(doneB) }()
			}
			runtime.Gosched()
			if err != nil {
				break
			}
		}
		<-errA
		if first {
			close(doneB)
		}
		select {
		case <-doneB:
		case <-time.After(30 * time.Second):
			res.Violation(Finding{Stream: "slow writer", What: "a page whose rendering started while another page was being written to a slow consumer had not been rendered 30 s after the other one was complete", Op: map[string]interface{}{"goroutines_a": len(a.Goroutines), "goroutines_b": len(b.Goroutines)}})
			return
		}
		res.Count("slow-writer-rounds")
		if mask(gotA.Bytes()) != mask(refA.Bytes()) {
			res.Violation(Finding{Stream: "slow writer", What: "a page written to a slow consumer while another page was rendered in between is not the page of its snapshot: " + diffAt(mask(gotA.Bytes()), mask(refA.Bytes())), Op: map[string]interface{}{"goroutines_a": len(a.Goroutines), "goroutines_b": len(b.Goroutines)}})
			return
		}
		if mask(gotB.Bytes()) != mask(refB.Bytes()) {
			res.Violation(Finding{Stream: "slow writer", What: "a page rendered while another one was still being written out differs from the same page rendered alone: " + diffAt(mask(gotB.Bytes()), mask(refB.Bytes())), Op: map[string]interface{}{"goroutines_a": len(a.Goroutines), "goroutines_b": len(b.Goroutines)}})
			return
		}
	}
}
