package main

import (
	"flag"
	"fmt"
	"io"
	"log"
	"os"
	"runtime"
	"time"
)

type propFn func(prop string, res *Result, pool *DrvPool, r *Rng)

var props = map[string]propFn{}

// searchMode widens every generator (x4) when bin/check is looking for a
// failing input after a proof obligation or the correspondence broke.
var searchMode bool

func main() {
	tier := flag.String("tier", "quick", "quick|thorough")
	seed := flag.Uint64("seed", 1, "seed")
	out := flag.String("out", "", "result file")
	drv := flag.String("ppdrv", "", "path of the model driver")
	replay := flag.String("replay", "", "replay file")
	det := flag.Uint64("det", 0, "print the determinism digest for this seed and exit")
	detOrder := flag.Int("detorder", -1, "process the order-independence inputs under -detdir in this order and print one digest per input")
	detDir := flag.String("detdir", "", "directory prepared by the parent for -detorder")
	flag.BoolVar(&searchMode, "search", false, "search mode: a proof or correspondence broke, look harder for a failing input")
	flag.Parse()
	log.SetOutput(io.Discard)
	if *detOrder >= 0 {
		detOrderRun(*detDir, *detOrder, *det)
		return
	}
	if *det != 0 {
		fmt.Println(detDigest(*det))
		return
	}
	if flag.NArg() != 1 {
		fmt.Fprintln(os.Stderr, "usage: harness [flags] <property>")
		os.Exit(2)
	}
	prop := flag.Arg(0)
	fn := props[prop]
	if fn == nil {
		fmt.Fprintf(os.Stderr, "no harness for %s\n", prop)
		os.Exit(2)
	}
	n := runtime.NumCPU() / 2
	if n < 1 {
		n = 1
	}
	if n > 8 {
		n = 8
	}
	pool, err := StartPool(*drv, n)
	if err != nil {
		fmt.Fprintln(os.Stderr, "cannot start model driver:", err)
		os.Exit(2)
	}
	res := NewResult(prop, *tier, *seed)
	start := time.Now()
	if *replay != "" {
		runReplay(prop, *replay, res, pool)
	} else {
		fn(prop, res, pool, NewRng(*seed))
	}
	if err := pool.Close(); err != nil {
		res.Disagree(Finding{Stream: "driver", What: err.Error()})
	}
	res.Extra["wall_s"] = time.Since(start).Seconds()
	res.Extra["model_requests"] = pool.Requests()
	if *out != "" {
		if err := res.Write(*out); err != nil {
			fmt.Fprintln(os.Stderr, err)
			os.Exit(2)
		}
	}
	fmt.Printf("%s %s seed=%d evaluations=%d distinct=%d traces=%d violations=%d disagreements=%d known=%d\n  %s\n",
		prop, *tier, *seed, res.Evaluations, len(res.distinct), res.Traces, len(res.Violations), len(res.Disagreements), len(res.Known), distKeys(res.Distribution))
}

func init() {
	for _, p := range []string{"C04", "C05", "C12", "C13"} {
		props[p] = runAgg
	}
}
