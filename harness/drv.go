package main

import (
	"bufio"
	"encoding/json"
	"fmt"
	"io"
	"os"
	"os/exec"
	"sync"
)

// Drv is a running model driver (ppdrv). Requests are pipelined: Send queues a
// request and its continuation; the reader goroutine calls continuations in
// order.
type Drv struct {
	cmd   *exec.Cmd
	in    *bufio.Writer
	inRaw io.WriteCloser
	out   *bufio.Reader
	mu    sync.Mutex
	conts chan func(json.RawMessage)
	done  chan struct{}
	err   error
	N     int
}

func StartDrv(path string) (*Drv, error) {
	cmd := exec.Command(path)
	cmd.Stderr = os.Stderr
	in, err := cmd.StdinPipe()
	if err != nil {
		return nil, err
	}
	out, err := cmd.StdoutPipe()
	if err != nil {
		return nil, err
	}
	if err := cmd.Start(); err != nil {
		return nil, err
	}
	d := &Drv{cmd: cmd, in: bufio.NewWriterSize(in, 1<<20), inRaw: in, out: bufio.NewReaderSize(out, 1<<20),
		conts: make(chan func(json.RawMessage), 4096), done: make(chan struct{})}
	go func() {
		defer close(d.done)
		for k := range d.conts {
			line, err := d.out.ReadBytes('\n')
			if err != nil {
				d.err = fmt.Errorf("model driver died: %v", err)
				k(json.RawMessage(`{"error":"driver died"}`))
				for k2 := range d.conts {
					k2(json.RawMessage(`{"error":"driver died"}`))
				}
				return
			}
			k(json.RawMessage(line))
		}
	}()
	return d, nil
}

// Send queues one request; k runs (on the reader goroutine) with the reply.
func (d *Drv) Send(req interface{}, k func(json.RawMessage)) {
	b, err := json.Marshal(req)
	if err != nil {
		panic(err)
	}
	d.mu.Lock()
	d.N++
	d.conts <- k
	d.in.Write(b)
	d.in.WriteByte('\n')
	if len(d.conts) > 2048 {
		d.in.Flush()
	}
	d.mu.Unlock()
}

// Call is the synchronous form.
func (d *Drv) Call(req interface{}) json.RawMessage {
	ch := make(chan json.RawMessage, 1)
	d.Send(req, func(r json.RawMessage) { ch <- r })
	d.mu.Lock()
	d.in.Flush()
	d.mu.Unlock()
	return <-ch
}

// Close flushes, waits for all replies and stops the driver.
func (d *Drv) Close() error {
	d.mu.Lock()
	d.in.Flush()
	close(d.conts)
	d.mu.Unlock()
	<-d.done
	d.inRaw.Close()
	d.cmd.Wait()
	return d.err
}

// DrvPool runs several drivers and spreads requests over them.
type DrvPool struct {
	ds []*Drv
	i  int
	mu sync.Mutex
}

func StartPool(path string, n int) (*DrvPool, error) {
	p := &DrvPool{}
	for i := 0; i < n; i++ {
		d, err := StartDrv(path)
		if err != nil {
			return nil, err
		}
		p.ds = append(p.ds, d)
	}
	return p, nil
}

func (p *DrvPool) Send(req interface{}, k func(json.RawMessage)) {
	p.mu.Lock()
	d := p.ds[p.i%len(p.ds)]
	p.i++
	p.mu.Unlock()
	d.Send(req, k)
}

func (p *DrvPool) Call(req interface{}) json.RawMessage { return p.ds[0].Call(req) }

func (p *DrvPool) Close() error {
	var err error
	for _, d := range p.ds {
		if e := d.Close(); e != nil {
			err = e
		}
	}
	return err
}

func (p *DrvPool) Requests() int {
	n := 0
	for _, d := range p.ds {
		n += d.N
	}
	return n
}
