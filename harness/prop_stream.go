package main

import (
	"syscall"
	"time"
	"sync"
	"os/exec"
	"path/filepath"
	"os"
	"bytes"
	"encoding/json"
	"fmt"
	"io"
	"regexp"
	"strings"

	"github.com/maruel/panicparse/v2/stack"
	"github.com/maruel/panicparse/v2/verifhooks"
)

func init() {
	props["C02"] = runC02
	props["C07"] = runC07
	props["C10"] = runC10
	props["C11"] = runC11
}

func splitKeepEOL(s string) []string {
	var out []string
	for len(s) > 0 {
		i := strings.IndexByte(s, '\n')
		if i < 0 {
			out = append(out, s)
			break
		}
		out = append(out, s[:i+1])
		s = s[i+1:]
	}
	return out
}

func trimEOL(l string) string {
	l = strings.TrimSuffix(l, "\n")
	return strings.TrimSuffix(l, "\r")
}

// withheldLines: input = head ++ rest; the forwarded bytes must be an ordered
// subsequence of head's lines; returns the lines of head that were not
// forwarded, or an error text when the forwarded bytes are not such a
// subsequence (something was altered, duplicated or reordered).
func withheldLines(input, fwd, rest string) ([]string, string) {
	if !strings.HasSuffix(input, rest) {
		return nil, fmt.Sprintf("the returned remainder+unread %q is not a suffix of the input", clip(rest))
	}
	head := input[:len(input)-len(rest)]
	var withheld []string
	f := fwd
	for _, l := range splitKeepEOL(head) {
		if strings.HasPrefix(f, l) {
			f = f[len(l):]
		} else {
			withheld = append(withheld, l)
		}
	}
	if f != "" {
		return nil, fmt.Sprintf("forwarded bytes are not a subsequence of the input lines: %q left over", clip(f))
	}
	return withheld, ""
}

func isRaceHeaderLine(l string) bool {
	t := strings.TrimLeft(trimEOL(l), " \t")
	return t == "==================" || t == "WARNING: DATA RACE"
}

// conservationCheck is C02's direct oracle for one ScanSnapshot call.
func conservationCheck(res *Result, op *ScanOp, got *ScanRes, dumpLines map[string]bool) {
	input := op.Data.String()
	if got.Panic {
		res.Violation(Finding{Stream: "scan", What: "ScanSnapshot panicked: " + got.PanicMsg, Op: op})
		return
	}
	wl, bad := withheldLines(input, got.Fwd.String(), got.Rest.String())
	if bad != "" {
		res.Violation(Finding{Stream: "scan", What: bad, Op: op, Got: got})
		return
	}
	if len(wl) == 0 {
		return
	}
	res.Count("withheld-some")
	// everything withheld must be a line of a dump, or one blank line directly after it
	var stray []string
	for i, l := range wl {
		t := trimEOL(l)
		if dumpLines != nil && dumpLines[t] {
			continue
		}
		if strings.TrimLeft(t, " \t") == "" && i > 0 {
			continue
		}
		stray = append(stray, l)
	}
	if got.Snap == nil {
		stray = wl
	}
	if len(stray) == 0 {
		return
	}
	allHdr := true
	for _, l := range stray {
		if !isRaceHeaderLine(l) {
			allHdr = false
		}
	}
	if allHdr {
		res.KnownFinding("K1", Finding{Stream: "scan", What: fmt.Sprintf("race header lines %q were consumed although no race report followed", stray), Op: op})
		return
	}
	res.Violation(Finding{Stream: "scan", What: fmt.Sprintf("lines that are not part of a recognised dump were withheld: %q (snapshot nil: %v)", clipList(stray), got.Snap == nil), Op: op, Got: got})
}

func clipList(l []string) []string {
	if len(l) > 4 {
		l = l[:4]
	}
	out := make([]string, len(l))
	for i, s := range l {
		out[i] = clip(s)
	}
	return out
}

type segment struct {
	text  string
	dump  []GSpec   // non-nil: a goroutine dump
	race  *RaceSpec // non-nil: a race report
	cfg   PrintCfg
	blank bool // followed by one blank line that belongs to the separator
}

func (s *segment) isDump() bool { return s.dump != nil || s.race != nil }

func (s *segment) expected() []MG {
	if s.race != nil {
		return s.race.Expected()
	}
	return ExpectedGoroutines(s.dump)
}

var cleanJunk = []string{"log line\n", "panic: boom\n", "\n", "exit status 2\n", "[signal SIGSEGV]\n", "created by nobody\n", "\tindented text\n", "main.notAFrame\n", "goroutine without header\n", "Found 1 data race(s)\n", "héllo wörld\n", "a\r\n"}

// genSegments: junk without dump starts, interleaved with k dumps/races that end
// in a way the scanner accepts silently (no indentation, no trailing unavailable
// stack), so that the stream can be scanned to the end without error.
func genSegments(r *Rng, k int) []segment {
	var segs []segment
	junk := func(min int) {
		var sb strings.Builder
		for n := min + r.Intn(3); n > 0; n-- {
			sb.WriteString(r.Pick(cleanJunk))
		}
		segs = append(segs, segment{text: sb.String()})
	}
	junk(0)
	for i := 0; i < k; i++ {
		if r.Chance(1, 3) {
			rs := GenRace(r)
			segs = append(segs, segment{text: rs.Print(false), race: &rs})
		} else {
			d := GenDump(r, 4, 4)
			last := &d[len(d)-1]
			if last.Unavail && last.Created == nil {
				last.Unavail = false
				last.Frames = []FrameSpec{genFrame(r, true)}
			}
			cfg := PrintCfg{FileIndent: "\t", CRLF: r.Chance(1, 5)}
			if r.Chance(1, 4) {
				cfg.FileIndent = "    "
			}
			if r.Chance(1, 4) {
				cfg.Indent = []string{"  ", "\t", "    "}[r.Intn(3)]
			}
			s := segment{text: cfg.Dump(d), dump: d, cfg: cfg}
			if r.Bool() {
				s.blank = true
				s.text += cfg.eol()
			}
			segs = append(segs, s)
		}
		junk(1)
	}
	// the junk after a dump must start with a line that cannot continue it
	for i := 1; i < len(segs); i++ {
		if !segs[i].isDump() && segs[i-1].isDump() {
			// an indented dump must be followed by a line with the same indentation
			// (otherwise the scan ends with the 'inconsistent indentation' error)
			term := segs[i-1].cfg.Indent + "---- end of trace ----"
			if r.Chance(1, 12) {
				// a terminating line longer than the read buffer
				term += strings.Repeat("=", 16380+r.Intn(20000))
			}
			segs[i].text = term + "\n" + segs[i].text
		}
	}
	return segs
}

func joinSegs(segs []segment) string {
	var sb strings.Builder
	for _, s := range segs {
		sb.WriteString(s.text)
	}
	return sb.String()
}

func dumpLineSet(segs []segment) map[string]bool {
	m := map[string]bool{}
	for _, s := range segs {
		if s.isDump() {
			for _, l := range splitKeepEOL(s.text) {
				m[trimEOL(l)] = true
			}
		}
	}
	return m
}

// resumeScan runs the documented protocol: scan, and while err == nil feed the
// remainder back in front of the unread input.
type scanCall struct {
	Res ScanRes
	In  string
}

// resumeSched, when set, draws the delivery schedule of each call.
var resumeSched func(n int) []int

func resumeScan(input string, max int) []scanCall {
	var calls []scanCall
	in := input
	for i := 0; i < max; i++ {
		// every other call: the last data arrives together with EOF (legal for an io.Reader,
		// and what io.MultiReader forwards from its last reader)
		op := &ScanOp{Op: "scan", Data: hb(in), Sched: []int{}, Final: "eof", WithData: (len(in)+i)%2 == 0}
		if resumeSched != nil {
			op.Sched = resumeSched(len(in))
		}
		r := implScan(op)
		calls = append(calls, scanCall{Res: r, In: in})
		if r.Panic || r.Err != "" {
			break
		}
		in = r.Rest.String()
	}
	return calls
}

func runC02(prop string, res *Result, pool *DrvPool, r *Rng) {
	// the command end to end: process() against its model (byte-exact output and
	// status) and against the resume protocol over the public API
	defer func() {
		rule := res.Rule
		runCLI(prop, res, pool, r.Fork())
		res.Rule = rule + " | command level: " + res.Rule
	}()
	res.Rule = "byte streams: junk (incl. look-alikes such as '==================', 'WARNING: DATA RACE', file-like and function-like lines, CRLF, very long lines, no trailing newline) interleaved with 0..3 generated dumps/race reports; each ScanSnapshot call checked against the conservation oracle (forwarded lines are an ordered subsequence, remainder is a suffix, only dump lines + one blank withheld), repeated scanning, and the pp command's process() end to end; non-trivial = the stream contains a dump or a look-alike line; distinct by hash of the stream"
	runLowStreams(res, pool, r.Fork())
	n := countN(res.Tier, 1500, 40000)
	// K1 witness first, so that the known finding is always exercised
	for _, w := range []string{"hello\n==================\nworld\n", "==================\nWARNING: DATA RACE\nnot a race\nmore\n"} {
		op := &ScanOp{Op: "scan", Data: hb(w), Sched: []int{}, Final: "eof"}
		got := implScan(op)
		conservationCheck(res, op, &got, nil)
		modelScan(pool, res, op, got, nil)
	}
	// a dump of many thousand goroutines between two lines of text: nothing but the dump is withheld
	{
		var sb strings.Builder
		sb.WriteString("before the dump\n")
		for g := 1; g <= 12000; g++ {
			fmt.Fprintf(&sb, "goroutine %d [IO wait]:\nmain.serve(0x%x)\n\t/srv/app/conn.go:%d +0x2b\n\n", g, 0xc000000000+g*64, 40+g%7)
		}
		sb.WriteString("after the dump\nlast line\n")
		data := sb.String()
		op := &ScanOp{Op: "scan", Data: hb(data), Sched: genSched(r, len(data)), Final: "eof"}
		got := implScan(op)
		small := &ScanOp{Op: "scan", Data: hb(clip(data)), Sched: []int{}, Final: "eof"}
		res.Count("many-goroutines")
		if got.Panic || got.Fwd.String() != "before the dump\n" || got.Rest.String() != "after the dump\nlast line\n" || len(got.Snap) != 12000 {
			res.Violation(Finding{Stream: "scan", What: fmt.Sprintf("a dump of 12000 goroutines between two lines of text: %d goroutines parsed, forwarded %q, remainder %q (error %q)", len(got.Snap), clip(got.Fwd.String()), clip(got.Rest.String()), got.Err), Op: small})
		}
	}
	for i := 0; i < n; i++ {
		// (1) adversarial junk streams, single call
		data, hasDump := genStream(r)
		op := &ScanOp{Op: "scan", Data: hb(data), Sched: genSched(r, len(data)), Final: "eof", WithData: r.Bool()}
		got := implScan(op)
		res.Eval(data, hasDump || strings.Contains(data, "======"))
		var dl map[string]bool
		if hasDump {
			dl = map[string]bool{}
			for _, l := range splitKeepEOL(data) {
				dl[trimEOL(l)] = true // refined below for structured streams; here: any line may be a dump line
			}
		}
		conservationCheck(res, op, &got, dl)
		if i%3 == 0 {
			modelScan(pool, res, op, got, nil)
		}
		// no dump, no look-alike: identity
		if !hasDump && !strings.Contains(data, "==================") && !strings.Contains(data, "goroutine") {
			res.Count("no-dump")
			if got.Fwd.String() != data || got.Rest.String() != "" || got.Snap != nil {
				res.Violation(Finding{Stream: "scan", What: "an input without any dump was not reproduced identically", Op: op, Got: got})
			}
		}
		// (2) structured streams: repeated scanning conserves everything
		if i%2 == 0 {
			segs := genSegments(r, r.Intn(4))
			input := joinSegs(segs)
			dls := dumpLineSet(segs)
			calls := resumeScan(input, 12)
			var out strings.Builder
			for _, c := range calls {
				cop := &ScanOp{Op: "scan", Data: hb(c.In), Sched: []int{}, Final: "eof"}
				conservationCheck(res, cop, &c.Res, dls)
				out.WriteString(c.Res.Fwd.String())
			}
			last := calls[len(calls)-1].Res
			if last.Err == "eof" {
				out.WriteString(last.Rest.String())
				// the pass-through output is the input minus the dumps (and their blank separator)
				var want strings.Builder
				for _, s := range segs {
					if !s.isDump() {
						want.WriteString(s.text)
					}
				}
				if out.String() != want.String() {
					res.Violation(Finding{Stream: "scan", What: fmt.Sprintf("repeated scanning: pass-through text %q differs from the non-dump text %q", clip(out.String()), clip(want.String())), Op: &ScanOp{Op: "scan", Data: hb(input), Sched: []int{}, Final: "eof"}})
				}
				res.Count("resumed-streams")
			} else {
				res.Count("resumed-error:" + last.Err)
			}
			// (3) the command's process(): output = input with each dump replaced by its rendering
			checkProcess(res, segs, input)
		}
		if i < 3 {
			res.Sample(map[string]interface{}{"stream": clip(data)})
		}
	}
}

// renderDump: what process() prints for one dump scanned on its own.
func renderDump(text string) (string, bool) {
	s, _, _ := stack.ScanSnapshot(strings.NewReader(text), io.Discard, defaultOptsNoGuess())
	if s == nil {
		return "", false
	}
	var out bytes.Buffer
	_, _, base := verifhooks.PathFormats()
	p := verifhooks.NewPalette(false)
	needsEnv := len(s.Goroutines) == 1 && showBanner()
	if s.IsRace() {
		verifhooks.WriteGoroutines(&out, p, s, base, needsEnv, nil, nil)
	} else {
		verifhooks.WriteBuckets(&out, p, s.Aggregate(stack.AnyPointer), base, needsEnv, nil, nil)
	}
	return out.String(), true
}

func showBanner() bool {
	gtb := getenv("GOTRACEBACK")
	return gtb == "" || gtb == "single"
}

func defaultOptsNoGuess() *stack.Opts {
	o := stack.DefaultOpts()
	o.GuessPaths = false
	o.AnalyzeSources = false
	return o
}

func runProcess(input string, sim stack.Similarity, pf int, colour bool, filter, match *regexp.Regexp) (string, error, interface{}) {
	var out bytes.Buffer
	var err error
	p := catch(func() {
		err = verifhooks.Process(strings.NewReader(input), &out, verifhooks.NewPalette(colour), sim, pf, filter, match)
	})
	return out.String(), err, p
}

func checkProcess(res *Result, segs []segment, input string) {
	_, _, base := verifhooks.PathFormats()
	out, err, p := runProcess(input, stack.AnyPointer, base, false, nil, nil)
	res.Count("process-runs")
	if p != nil {
		res.Violation(Finding{Stream: "cli", What: fmt.Sprintf("process panicked: %v", p), Op: map[string]interface{}{"input": hb(input)}})
		return
	}
	if err != nil {
		res.Count("process-error")
		return
	}
	var want strings.Builder
	for _, s := range segs {
		if s.isDump() {
			txt := s.text
			rd, ok := renderDump(txt)
			if !ok {
				return
			}
			want.WriteString(rd)
		} else {
			want.WriteString(s.text)
		}
	}
	if out != want.String() {
		res.Violation(Finding{Stream: "cli", What: fmt.Sprintf("process exited 0 but its output is not the input with each dump replaced by its rendering: got %q want %q", clip(out), clip(want.String())), Op: map[string]interface{}{"input": hb(input)}})
	}
}

// C07: delimitation and resumable multi-dump scanning.
func runC07(prop string, res *Result, pool *DrvPool, r *Rng) {
	// the command's resume loop (internal/main.go: MultiReader(suffix, in)) end to end: process()
	// against its model and against the resume protocol over the public API
	defer func() {
		rule := res.Rule
		runCLI(prop, res, pool, r.Fork())
		res.Rule = rule + " | command level: " + res.Rule
	}()
	res.Rule = "(a) every sequence of line kinds up to a bounded length from the initial state, scanned line by line on the implementation and the model (pruned after done/error); (b) streams of 1..4 generated dumps/race reports separated by junk, scanned with the documented resume protocol: one snapshot per dump, each equal to scanning that dump alone and to its description, forwarded text = the junk, no position scanned twice or skipped; non-trivial = reaches a non-looking state; distinct by hash"
	runLowStreams(res, pool, r.Fork())
	k := countN(res.Tier, 4, 5)
	specKind := map[string]string{"header": "header", "header2": "header", "func": "func", "file": "file", "created": "created", "blank": "blank", "crlfblank": "blank",
		"elided": "elided", "unavail": "unavail", "sep": "sep", "warn": "warn", "raceop": "raceOp", "raceprev": "racePrev", "racegor": "raceGor", "racegor7": "raceGor",
		"racefunc": "func", "racefile": "file", "junk": "other"}
	var visit func(seq []string, steps []scanStep)
	visit = func(seq []string, steps []scanStep) {
		if len(steps) == 0 {
			return
		}
		// direct oracle: the documented grammar's reference automaton predicts how
		// many lines of a canonical sequence starting a dump are consumed
		if seq[0] == "header" || seq[0] == "header2" || seq[0] == "sep" {
			kinds := make([]string, 0, len(seq))
			canonical := true
			declared := map[string]bool{}
			for _, n := range seq {
				sk, ok := specKind[n]
				if !ok {
					canonical = false
					break
				}
				switch n {
				case "raceop":
					declared["racegor"] = true
				case "raceprev":
					declared["racegor7"] = true
				case "racegor", "racegor7":
					if !declared[n] {
						canonical = false // a creation section for an undeclared goroutine: an error by C08, not a grammar matter
					}
				}
				kinds = append(kinds, sk)
			}
			if canonical {
				consumed := 0
				for consumed < len(steps) && steps[consumed].Processed && !steps[consumed].Panic {
					consumed++
				}
				var st scanStep
				if consumed < len(steps) {
					st = steps[consumed]
				}
				seqCopy := append([]string{}, seq...)
				nsteps := len(steps)
				pool.Send(map[string]interface{}{"op": "munch", "kinds": kinds[:nsteps]}, func(raw json.RawMessage) {
					res.Trace()
					var rep struct {
						N        int    `json:"n"`
						State    string `json:"state"`
						CleanEnd bool   `json:"cleanEnd"`
					}
					json.Unmarshal(raw, &rep)
					res.Count("grammar-oracle")
					if rep.N != consumed {
						res.Violation(Finding{Stream: "grammar", What: fmt.Sprintf("line kinds %v: the scanner consumed %d lines, the documented grammar reads %d (automaton state %s)", seqCopy, consumed, rep.N, rep.State), Op: map[string]interface{}{"kinds": seqCopy}})
						return
					}
					if consumed < nsteps && !strings.Contains(rep.State, "r1") && !strings.Contains(rep.State, "start") {
						// the line that cannot continue the dump: clean end exactly in accepting positions
						clean := st.Err == "" && st.State == 1
						if clean != rep.CleanEnd {
							res.Violation(Finding{Stream: "grammar", What: fmt.Sprintf("line kinds %v: line %d cannot continue the dump; scanner: err=%q state=%d, grammar: clean end allowed=%v (automaton state %s)", seqCopy, consumed, st.Err, st.State, rep.CleanEnd, rep.State), Op: map[string]interface{}{"kinds": seqCopy}})
						}
					}
				})
			}
		}
		last := steps[len(steps)-1]
		if last.Panic {
			res.Violation(Finding{Stream: "scanline", What: fmt.Sprintf("scan panicked on the line-kind sequence %v", seq), Op: map[string]interface{}{"kinds": seq}})
		}
		res.Count(fmt.Sprintf("final-state:%d", last.State))
	}
	runKindSequences(res, pool, k, visit)
	// longer sequences: random productions of the two grammars (written here from
	// the documented format, independently of the Lean automaton), with 0..2 kinds
	// inserted, deleted or replaced
	for i := 0; i < countN(res.Tier, 3000, 100000); i++ {
		seq := genKindSeq(r)
		lines := make([]string, len(seq))
		for j, n := range seq {
			lines[j] = kindLines[n]
		}
		steps := lowScanLines(res, pool, lines)
		// scan() keeps being called after an error only by this probe; the loop of
		// ScanSnapshot stops at the first unprocessed line, so cut the steps there
		for j := range steps {
			if !steps[j].Processed {
				steps = steps[:j+1]
				break
			}
		}
		res.Eval("gseq:"+strings.Join(seq, ","), true)
		res.Count("generated-kind-sequences")
		visit(seq[:len(steps)], steps)
	}
	n := countN(res.Tier, 800, 30000)
	resumeSched = func(k int) []int { return genSched(r, k) }
	defer func() { resumeSched = nil }()
	for i := 0; i < n; i++ {
		segs := genSegments(r, 1+r.Intn(4))
		input := joinSegs(segs)
		op := &ScanOp{Op: "scan", Data: hb(input), Sched: []int{}, Final: "eof"}
		calls := resumeScan(input, 16)
		res.Eval(input, true)
		var dumps []*segment
		for j := range segs {
			if segs[j].isDump() {
				dumps = append(dumps, &segs[j])
			}
		}
		bad := func(msg string) {
			res.Violation(Finding{Stream: "scan", What: msg, Op: op})
		}
		var snaps [][]MG
		consumedUpTo := 0
		for ci, c := range calls {
			if c.Res.Panic {
				bad("ScanSnapshot panicked: " + c.Res.PanicMsg)
				break
			}
			if c.Res.Snap != nil {
				snaps = append(snaps, c.Res.Snap)
			}
			// the remainder is always a suffix of what went in: nothing is skipped or re-scanned
			if !strings.HasSuffix(c.In, c.Res.Rest.String()) {
				bad(fmt.Sprintf("call %d: remainder is not a suffix of its input", ci))
			}
			consumedUpTo = len(input) - len(c.Res.Rest.String())
			if ci%2 == 0 {
				cop := &ScanOp{Op: "scan", Data: hb(c.In), Sched: []int{}, Final: "eof"}
				modelScan(pool, res, cop, c.Res, nil)
			}
		}
		_ = consumedUpTo
		last := calls[len(calls)-1].Res
		if last.Err != "eof" {
			bad(fmt.Sprintf("scanning %d clean dumps separated by junk ended with %q instead of EOF", len(dumps), last.Err))
			continue
		}
		if len(snaps) != len(dumps) {
			bad(fmt.Sprintf("%d dumps in the stream, %d snapshots", len(dumps), len(snaps)))
			continue
		}
		for di, d := range dumps {
			alone := simpleScan(d.text, false)
			if jsonStr(alone.Snap) != jsonStr(snaps[di]) {
				bad(fmt.Sprintf("dump %d: snapshot differs from scanning that dump alone: %s", di, firstDiff(snaps[di], alone.Snap)))
			}
			if jsonStr(d.expected()) != jsonStr(snaps[di]) {
				bad(fmt.Sprintf("dump %d: snapshot differs from the dump's description: %s", di, firstDiff(snaps[di], d.expected())))
			}
		}
		// each call forwards exactly the junk before its dump; the terminating line starts the remainder
		pos := 0
		ci := 0
		for si := 0; si < len(segs) && ci < len(calls); si++ {
			if !segs[si].isDump() {
				continue
			}
			junk := input[pos : strings.Index(input[pos:], segs[si].text)+pos]
			if got := calls[ci].Res.Fwd.String(); got != junk {
				bad(fmt.Sprintf("call %d forwarded %q, the text before the dump is %q", ci, clip(got), clip(junk)))
			}
			pos += len(junk) + len(segs[si].text)
			if want := input[pos:]; calls[ci].Res.Rest.String() != want {
				bad(fmt.Sprintf("call %d: remainder %q, want everything after the dump %q", ci, clip(calls[ci].Res.Rest.String()), clip(want)))
			}
			ci++
		}
		if i < 3 {
			res.Sample(map[string]interface{}{"stream": clip(input), "dumps": len(dumps)})
		}
	}
	// the unterminated last line: the stream ends right after a line's text, before its newline, for
	// every line of a few streams - the documented grammar still scans that line in whatever state
	// the scanner is (implementation against the model; no panic, the remainder is a suffix)
	nu := 8
	if res.Tier == "thorough" {
		nu = 300
	}
	for i := 0; i < nu; i++ {
		input := joinSegs(genSegments(r, 1+r.Intn(2)))
		for p := 0; p < len(input); p++ {
			if input[p] != '\n' || p == 0 || input[p-1] == '\n' {
				continue
			}
			cutAt := p
			if input[p-1] == '\r' && r.Bool() {
				cutAt = p - 1
			}
			cutIn := input[:cutAt]
			cop := &ScanOp{Op: "scan", Data: hb(cutIn), Sched: []int{}, Final: "eof"}
			got := implScan(cop)
			res.Eval("unterminated|"+cutIn, true)
			res.Count("unterminated-last-line")
			if got.Panic {
				res.Violation(Finding{Stream: "scan", What: "ScanSnapshot panicked on a stream that ends on a line without its newline: " + got.PanicMsg, Op: cop})
				continue
			}
			if !strings.HasSuffix(cutIn, got.Rest.String()) {
				res.Violation(Finding{Stream: "scan", What: "the remainder is not a suffix of the input (stream ending on a line without its newline)", Op: cop})
			}
			modelScan(pool, res, cop, got, nil)
		}
	}
}

// C10: truncation and read failure at every offset.
func runC10(prop string, res *Result, pool *DrvPool, r *Rng) {
	runC10Located(res, r.Fork())
	res.Rule = "every byte offset of generated dumps and race reports (with junk before) as the cut point x {EOF, non-EOF error after the data, non-EOF error with the last data, an error with Temporary()==true}, and every other cut also with path guessing and source analysis on; compared with the uncut result of the implementation itself; non-trivial = the cut falls inside the dump; distinct by (stream, offset, kind)"
	nd := countN(res.Tier, 14, 300)
	for i := 0; i < nd; i++ {
		pre := ""
		if r.Bool() {
			pre = "starting\nlog line 2\n"
		}
		var txt string
		var ends []int // end offset of each goroutine's text
		isRace := r.Chance(1, 4)
		if isRace {
			rs := GenRace(r)
			txt = pre + rs.Print(false) + "tail\n"
		} else {
			gs := GenDump(r, 4, 3)
			cfg := GenCfg(r)
			var sb strings.Builder
			sb.WriteString(pre)
			for gi := range gs {
				if gi != 0 {
					sb.WriteString(cfg.eol())
				}
				cfg.Goroutine(&sb, &gs[gi])
				ends = append(ends, sb.Len())
			}
			txt = sb.String()
		}
		uncut := simpleScan(txt, false)
		step := 1
		if len(txt) > 1500 && res.Tier != "thorough" {
			step = 3
		}
		for k := 0; k < len(txt); k += step {
			for kind := 0; kind < 4; kind++ {
				op := &ScanOp{Op: "scan", Data: hb(txt[:k]), Sched: []int{}, Final: "eof"}
				if kind > 0 {
					op.Final = "reader:7"
					op.WithData = kind == 2
				}
				if kind == 3 {
					if k%2 == 1 {
						continue
					}
					op.Final = "reader:107" // a failure with Temporary() == Timeout() == true
				}
				if k%7 == 3 {
					op.Sched = genSched(r, k)
				}
				got := implScan(op)
				res.Eval(fmt.Sprint(shortHash(txt), k, kind), k > len(pre))
				bad := func(msg string) {
					res.Violation(Finding{Stream: "scan", What: fmt.Sprintf("cut at offset %d (%s): %s", k, op.Final, msg), Op: op, Got: got})
				}
				if got.Panic {
					bad("panicked: " + got.PanicMsg)
					continue
				}
				// the scan may legitimately finish before it reaches the cut (a
				// terminating line was returned, or a race report was closed)
				finished := got.Err == "" && (got.Rest.String() != "" || strings.HasSuffix(txt[:k], "==================\n"))
				if finished {
					res.Count("finished-before-cut")
				} else if kind > 0 && got.Err != op.Final {
					bad(fmt.Sprintf("the reader failure was reported as %q", got.Err))
				}
				if !finished && kind == 0 && got.Err != "eof" && !strings.HasPrefix(got.Err, "parse:") {
					bad(fmt.Sprintf("a plain end of stream was reported as %q", got.Err))
				}
				// goroutines entirely before the cut are present and identical
				if !isRace {
					for gi, e := range ends {
						if e <= k {
							if gi >= len(got.Snap) {
								bad(fmt.Sprintf("goroutine %d lies entirely before the cut but is missing", gi))
								break
							}
							if gi < len(uncut.Snap) && jsonStr(got.Snap[gi]) != jsonStr(uncut.Snap[gi]) {
								bad(fmt.Sprintf("goroutine %d lies entirely before the cut but differs from the uncut result: %s", gi, firstDiff(got.Snap[gi:gi+1], uncut.Snap[gi:gi+1])))
								break
							}
						}
					}
					n := 0
					for _, e := range ends {
						if e <= k {
							n++
						}
					}
					if len(got.Snap) > n+1 {
						bad(fmt.Sprintf("%d goroutines returned but only %d lie before the cut (+1 partial)", len(got.Snap), n))
					}
				}
				// forwarded bytes are a prefix of what the uncut stream forwards
				gf, uf := got.Fwd.String(), uncut.Fwd.String()
				if !strings.HasPrefix(uf, gf) {
					// K2: the unterminated fragment at the cut was forwarded while looking
					frag := txt[strings.LastIndexByte(txt[:k], '\n')+1 : k]
					if got.Snap == nil && frag != "" && strings.HasSuffix(gf, frag) && strings.HasPrefix(uf, gf[:len(gf)-len(frag)]) {
						res.KnownFinding("K2", Finding{Stream: "scan", What: fmt.Sprintf("cut inside the line that starts the dump: the fragment %q is forwarded, so forwarded(cut) is not a prefix of forwarded(uncut)", clip(frag)), Op: op})
					} else {
						bad(fmt.Sprintf("forwarded %q is not a prefix of what the uncut stream forwards %q", clip(gf), clip(uf)))
					}
				}
				if (k+kind)%5 == 0 {
					modelScan(pool, res, op, got, nil)
				}
				// the same cut with the default options (path guessing on): no
				// crash, same error, same goroutines
				if kind == 0 && (res.Tier == "thorough" || k%2 == 0) {
					var gs *stack.Snapshot
					var gerr error
					if p := catch(func() {
						gs, _, gerr = stack.ScanSnapshot(strings.NewReader(txt[:k]), io.Discard, &stack.Opts{LocalGOROOT: goroot, LocalGOPATHs: []string{"/nonexistent/gp1", "/nonexistent/gopath2"}, GuessPaths: true, AnalyzeSources: true})
					}); p != nil {
						bad(fmt.Sprintf("with path guessing and source analysis on, ScanSnapshot panicked: %v", p))
					} else if errString(gerr) != got.Err || (gs == nil) != (got.Snap == nil) || (gs != nil && len(gs.Goroutines) != len(got.Snap)) {
						bad(fmt.Sprintf("with path guessing on, the outcome changed: err %q vs %q", errString(gerr), got.Err))
					}
					res.Count("cuts-with-guesspaths")
				}
			}
		}
		// a reader that fails ONCE at the cut (a timeout, an interrupted call) and would deliver the rest
		// of the stream if it were asked again: the failure must still be reported as exactly that error
		for k := 1; k < len(txt); k += 1 + r.Intn(3) {
			for _, withData := range []bool{false, true} {
				rd := &onceFailReader{data: []byte(txt), at: k, withData: withData, err: errOther{tag: 7 + k%3}}
				var fwd bytes.Buffer
				var s *stack.Snapshot
				var rest []byte
				var err error
				if p := catch(func() { s, rest, err = stack.ScanSnapshot(rd, &fwd, &stack.Opts{}) }); p != nil {
					res.Violation(Finding{Stream: "scan", What: fmt.Sprintf("a reader failing once at offset %d: ScanSnapshot panicked: %v", k, p), Op: map[string]interface{}{"input": hb(txt), "fail_once_at": k, "with_data": withData}})
					break
				}
				res.Count("fail-once-cuts")
				res.Eval(fmt.Sprintf("failonce|%d|%v|%s", k, withData, txt), true)
				_ = s
				if !rd.failed {
					continue // the scan finished before it reached the failure
				}
				if err == nil && !rd.readAfter && (len(rest) != 0 || strings.HasSuffix(txt[:k], "==================\n")) {
					continue // the dump ended (a terminating line, the closing separator) in what had been delivered
				}
				if err != error(rd.err) {
					res.Violation(Finding{Stream: "scan", What: fmt.Sprintf("the reader failed once at offset %d with %q (it would have delivered the rest of the stream afterwards); ScanSnapshot reported %q and read on: %v", k, rd.err.Error(), errString(err), rd.readAfter), Op: map[string]interface{}{"input": hb(txt), "fail_once_at": k, "with_data": withData}})
					break
				}
			}
		}
		if i < 2 {
			res.Sample(map[string]interface{}{"stream": clip(txt), "offsets": len(txt)})
		}
	}
}

// onceFailReader delivers data[:at], fails once (with the last data or on a Read of its own), and
// afterwards delivers the rest and io.EOF.
type onceFailReader struct {
	data      []byte
	at        int
	withData  bool
	err       errOther
	pos       int
	failed    bool
	readAfter bool
}

func (o *onceFailReader) Read(p []byte) (int, error) {
	if o.failed {
		o.readAfter = true
		if o.pos >= len(o.data) {
			return 0, io.EOF
		}
		n := copy(p, o.data[o.pos:])
		o.pos += n
		return n, nil
	}
	if o.pos >= o.at {
		o.failed = true
		return 0, o.err
	}
	n := copy(p, o.data[o.pos:o.at])
	o.pos += n
	if o.pos >= o.at && o.withData {
		o.failed = true
		return n, o.err
	}
	return n, nil
}

// runC10Located: cuts and reader failures with path guessing on and paths that DO resolve on
// this machine (frames in the local Go root): every goroutine read completely before the cut
// must be identical to the uncut run's in every field, the resolved location included.
func runC10Located(res *Result, r *Rng) {
	files := []string{"fmt/print.go", "net/http/server.go", "runtime/proc.go", "sync/mutex.go", "os/file.go"}
	var ok []string
	for _, f := range files {
		if st, err := os.Stat(filepath.Join(goroot, "src", f)); err == nil && !st.IsDir() {
			ok = append(ok, f)
		}
	}
	if len(ok) < 2 {
		res.Extra["located-cuts"] = "standard library sources not found under " + goroot
		return
	}
	opts := func() *stack.Opts {
		return &stack.Opts{LocalGOROOT: goroot, LocalGOPATHs: []string{"/nonexistent/gp1"}, GuessPaths: true, AnalyzeSources: r.Bool(), NameArguments: true}
	}
	for round := 0; round < countN(res.Tier, 3, 40); round++ {
		var sb strings.Builder
		n := 3 + r.Intn(3)
		for g := 1; g <= n; g++ {
			f := ok[r.Intn(len(ok))]
			pkg := strings.TrimSuffix(f[:strings.LastIndexByte(f, '/')], "/")
			fmt.Fprintf(&sb, "goroutine %d [chan receive]:\n%s.F%d(0xc00001%d000, 0x%x)\n\t/remote/goroot/src/%s:%d +0x1b\nmain.main()\n\t/remote/app/main.go:%d +0x2\n\n", g*3, strings.ReplaceAll(pkg, "/", "/"), g, g, g, f, 10+g, g)
		}
		txt := sb.String()
		full, _, _ := stack.ScanSnapshot(strings.NewReader(txt), io.Discard, opts())
		if full == nil || len(full.Goroutines) != n || full.Goroutines[0].Stack.Calls[0].LocalSrcPath == "" {
			res.Extra["located-cuts"] = "the uncut dump did not resolve its standard library frames"
			return
		}
		ref := mGs(full.Goroutines)
		step := 1
		if res.Tier != "thorough" {
			step = 3
		}
		for k := len(txt) / 3; k < len(txt); k += step {
			for kind := 0; kind < 3; kind++ {
				rd := &SchedReader{data: []byte(txt[:k]), final: io.EOF}
				if kind > 0 {
					rd.final = errOther{3}
					rd.withData = kind == 2
				}
				var gs *stack.Snapshot
				if p := catch(func() { gs, _, _ = stack.ScanSnapshot(rd, io.Discard, opts()) }); p != nil {
					res.Violation(Finding{Stream: "located-cut", What: fmt.Sprintf("cut at offset %d (kind %d) with path guessing on: panicked: %v", k, kind, p), Op: map[string]interface{}{"input": hb(txt), "cut": k, "kind": kind}})
					return
				}
				res.Count("located-cuts")
				if gs == nil {
					continue
				}
				got := mGs(gs.Goroutines)
				for i := 0; i+1 < len(got) && i < len(ref); i++ {
					a, b := got[i], ref[i]
					// pointer pseudo-names aside
					if jsonStr(eraseNames([]MG{a})) != jsonStr(eraseNames([]MG{b})) {
						res.Violation(Finding{Stream: "located-cut", What: fmt.Sprintf("cut at offset %d (kind %d: 0 EOF, 1 reader failure, 2 failure with the last data), path guessing on: goroutine %d lay entirely before the cut but differs from the uncut run: %s", k, kind, i, firstDiff([]MG{a}, []MG{b})), Op: map[string]interface{}{"input": hb(txt), "cut": k, "kind": kind, "goroot": goroot}})
						return
					}
				}
			}
		}
	}
}

// recordingWriter remembers how much was written.
type recordingWriter struct{ buf bytes.Buffer }

func (w *recordingWriter) Write(p []byte) (int, error) { return w.buf.Write(p) }

// C11: streaming progress at library level.
func runC11(prop string, res *Result, pool *DrvPool, r *Rng) {
	res.Rule = "streams (junk, then optionally a dump, then a terminating line and more text) delivered by a scripted reader in arbitrary pieces; at every Read call (a potential blocking point) the writer must already hold every complete pass-through line delivered so far, and no Read may happen once the terminating line has been delivered; non-trivial = the stream has at least 2 pass-through lines; distinct by (stream, schedule)"
	runCase := func(i int, input, pass string, termEnd int, sched []int) {
		w := &recordingWriter{}
		rd := &SchedReader{data: []byte(input), sched: sched, final: io.EOF}
		var violation string
		readsAfterTerm := 0
		var obs [][3]int // per Read: delivered before, returned, written so far
		rd.OnRead = func(delivered int) {
			if n := len(obs); n > 0 {
				obs[n-1][1] = delivered - obs[n-1][0]
			}
			obs = append(obs, [3]int{delivered, 0, w.buf.Len()})
			// complete pass-through lines delivered so far
			d := delivered
			if d > len(pass) {
				d = len(pass)
			}
			complete := strings.LastIndexByte(input[:d], '\n') + 1
			if w.buf.Len() < complete && violation == "" {
				violation = fmt.Sprintf("Read called after %d bytes were delivered, %d bytes of complete pass-through lines, but only %d were written", delivered, complete, w.buf.Len())
			}
			if termEnd >= 0 && delivered >= termEnd {
				readsAfterTerm++
			}
		}
		var p interface{}
		schedCopy := append([]int{}, sched...)
		p = catch(func() { stack.ScanSnapshot(rd, w, &stack.Opts{}) })
		if n := len(obs); n > 0 {
			obs[n-1][1] = rd.pos - obs[n-1][0]
		}
		res.Eval(input+fmt.Sprint(sched), strings.Count(pass, "\n") >= 2)
		op := map[string]interface{}{"input": hb(input), "sched": sched}
		// correspondence: the instrumented model's Read events for the same delivery
		if i%2 == 0 && len(input) < 6000 {
			lop := map[string]interface{}{"op": "livelog", "data": hb(input), "sched": schedCopy, "withData": false}
			want := jsonStr(obs)
			pool.Send(lop, func(raw json.RawMessage) {
				res.Trace()
				var rep struct {
					Reads [][3]int `json:"reads"`
				}
				json.Unmarshal(raw, &rep)
				if got := jsonStr(rep.Reads); got != want {
					res.Disagree(Finding{Stream: "S5 livelog", What: fmt.Sprintf("Read events (delivered, returned, written) differ: model %s impl %s", clip(got), clip(want)), Op: lop})
				}
			})
		}
		if p != nil {
			res.Violation(Finding{Stream: "trace", What: fmt.Sprintf("panic: %v", p), Op: op})
		}
		if violation != "" {
			res.Violation(Finding{Stream: "trace", What: violation, Op: op})
		}
		if readsAfterTerm > 0 {
			res.Violation(Finding{Stream: "trace", What: fmt.Sprintf("%d Read calls were made after the line terminating the dump had been delivered", readsAfterTerm), Op: op})
		}
		if termEnd >= 0 {
			res.Count("with-dump")
		}
		if i < 3 {
			res.Sample(map[string]interface{}{"stream": clip(input), "reads": rd.Reads})
		}
	}
	// lines whose length is exactly the reader's buffer (or a multiple of it), the sizes next to
	// it, and well beyond it: a complete line must not be taken for the first piece of a longer one
	for _, L := range []int{16383, 16384, 16385, 32767, 32768, 32769, 49152, 65536} {
		for _, piece := range []int{0, 1, 7} {
			line := strings.Repeat("x", L-1) + "\n"
			input := "first\n" + line + "after the long line\nlast\n"
			var sched []int
			switch piece {
			case 0: // each line delivered in one piece, then the source pauses
				sched = []int{6, L, 20, 5}
			case 1: // the long line arrives with the head of the next one
				sched = []int{6, L + 3, 17, 5}
			default: // in two pieces
				sched = []int{6, L / 2, L - L/2, 20, 5}
			}
			runCase(1, input, input, -1, sched)
			res.Count("buffer-length-lines")
		}
	}
	// a dump followed by k empty lines and more text: the empty line right after the last goroutine
	// may still belong to the dump, the second one cannot - the snapshot is due once it has been
	// delivered, whatever follows (or does not follow) it
	for k := 1; k <= 4; k++ {
		for _, eol := range []string{"\n", "\r\n"} {
			for variant := 0; variant < 3; variant++ {
				junk := "some text before" + eol
				dump := "goroutine 1 [running]:" + eol + "main.f(0x1)" + eol + "\t/a/b.go:12 +0x1" + eol
				if variant == 1 {
					dump += eol + "goroutine 7 [select]:" + eol + "main.g()" + eol + "\t/a/c.go:3 +0x2" + eol
				}
				tail := "text after the dump" + eol + "more" + eol
				input := junk + dump + strings.Repeat(eol, k) + tail
				termEnd := len(junk) + len(dump) + 2*len(eol)
				if k == 1 {
					termEnd = len(junk) + len(dump) + len(eol) + len("text after the dump"+eol)
				}
				var sched []int
				switch variant {
				case 0, 1: // byte by byte
					sched = make([]int, len(input))
					for j := range sched {
						sched[j] = 1
					}
				default: // everything up to and including the deciding line at once, then a pause
					sched = []int{termEnd, len(input) - termEnd}
				}
				runCase(1, input, junk, termEnd, sched)
				res.Count("dump-then-empty-lines")
			}
		}
	}
	n := countN(res.Tier, 1500, 40000)
	for i := 0; i < n; i++ {
		segs := genSegments(r, r.Intn(2))
		input := joinSegs(segs)
		if input == "" {
			continue
		}
		// pass-through text of the first call = the first junk segment
		pass := segs[0].text
		hasDump := len(segs) > 1
		termEnd := -1
		if hasDump {
			// the first line after the dump (and its optional blank) ends the snapshot
			after := len(segs[0].text) + len(segs[1].text)
			if e := strings.IndexByte(input[after:], '\n'); e >= 0 {
				termEnd = after + e + 1
			}
		}
		sched := genSched(r, len(input))
		if r.Bool() {
			sched = make([]int, len(input))
			for j := range sched {
				sched[j] = 1
			}
		}
		runCase(i, input, pass, termEnd, sched)
	}
	runC11Process(res, r.Fork())
	runC11Pipes(res, r.Fork())
}

// runC11Process: the same requirement at the level of the pp filter
// (internal.process, which resumes scanning after every dump). The stream
// alternates marker lines and dumps; at every Read of the underlying source (a
// point where a live source may block for ever) every marker line delivered in
// full so far must already be in the output.
// runC11Pipes: the pp command itself on OS pipes.  The producer writes one piece, then waits (with
// a generous bound) until every complete pass-through line written so far has come out of pp's
// stdout before it writes the next piece.  What the library-level theorems cannot show - that
// nothing between the library and the terminal (stdin wrapping, stdout buffering) holds text back -
// is observed here on the real process.
func runC11Pipes(res *Result, r *Rng) {
	repo := os.Getenv("VERIF_REPO")
	if repo == "" {
		repo = "/repo"
	}
	tmp, err := os.MkdirTemp("", "verif-c11-pp-")
	if err != nil {
		return
	}
	defer os.RemoveAll(tmp)
	exe := filepath.Join(tmp, "pp")
	build := exec.Command("go", "build", "-o", exe, ".")
	build.Dir = repo
	build.Env = append(os.Environ(), "GOFLAGS=-mod=mod", "GOPROXY=off", "GOSUMDB=off", "GOTOOLCHAIN=local")
	if out, err := build.CombinedOutput(); err != nil {
		res.Extra["pipes"] = "cannot build the command: " + clip(string(out))
		return
	}
	runs := countN(res.Tier, 3, 40)
	for run := 0; run < runs; run++ {
		// how the live stream reaches the command: its stdin, a named pipe given as the file
		// argument (pp <(prog 2>&1), mkfifo), or /dev/stdin given as the file argument
		mode := []string{"stdin", "fifo", "/dev/stdin"}[run%3]
		args := []string{"-no-color", "-rebase=false", "-parse=false"}
		var stdin io.WriteCloser
		var cmd *exec.Cmd
		fifo := filepath.Join(tmp, fmt.Sprintf("live%d.fifo", run))
		switch mode {
		case "fifo":
			if err := syscall.Mkfifo(fifo, 0o600); err != nil {
				mode = "stdin"
			} else {
				args = append(args, fifo)
			}
		case "/dev/stdin":
			if _, err := os.Stat("/dev/stdin"); err != nil {
				mode = "stdin"
			} else {
				args = append(args, "/dev/stdin")
			}
		}
		cmd = exec.Command(exe, args...)
		if mode != "fifo" {
			stdin, _ = cmd.StdinPipe()
		}
		stdout, _ := cmd.StdoutPipe()
		cmd.Stderr = io.Discard
		if err := cmd.Start(); err != nil {
			res.Extra["pipes"] = "cannot start the command: " + err.Error()
			return
		}
		if mode == "fifo" {
			// opening the write side blocks until the command has opened the read side
			opened := make(chan *os.File, 1)
			go func() {
				f, err := os.OpenFile(fifo, os.O_WRONLY, 0)
				if err != nil {
					opened <- nil
					return
				}
				opened <- f
			}()
			select {
			case f := <-opened:
				if f == nil {
					cmd.Process.Kill()
					cmd.Wait()
					continue
				}
				stdin = f
			case <-time.After(10 * time.Second):
				cmd.Process.Kill()
				cmd.Wait()
				res.Violation(Finding{Stream: "pp on pipes", What: "pp did not open the named pipe given as its file argument within 10 s", Op: map[string]interface{}{"command": "pp " + strings.Join(args, " ")}})
				return
			}
		}
		res.Count("pp-pipe-mode:" + mode)
		var mu sync.Mutex
		var got bytes.Buffer
		done := make(chan struct{})
		go func() {
			buf := make([]byte, 4096)
			for {
				n, err := stdout.Read(buf)
				mu.Lock()
				got.Write(buf[:n])
				mu.Unlock()
				if err != nil {
					close(done)
					return
				}
			}
		}()
		waitFor := func(line string) bool {
			deadline := time.Now().Add(10 * time.Second)
			for time.Now().Before(deadline) {
				mu.Lock()
				ok := strings.Contains(got.String(), line)
				mu.Unlock()
				if ok {
					return true
				}
				time.Sleep(2 * time.Millisecond)
			}
			return false
		}
		violation := ""
		step := func(piece string, mustShow []string) {
			if violation != "" {
				return
			}
			io.WriteString(stdin, piece)
			for _, l := range mustShow {
				if !waitFor(l) {
					violation = fmt.Sprintf("the line %q was written to pp's stdin in full, the producer then paused, and the line did not appear on pp's stdout within 10 s", l)
					return
				}
			}
		}
		n := 0
		mark := func() string { n++; return fmt.Sprintf("live marker %d of run %d", n, run) }
		// plain lines, one at a time and several in one write, then a line completed by a second write
		a, b, c, d := mark(), mark(), mark(), mark()
		step(a+"\n", []string{a})
		step(b+"\n"+c+"\n", []string{b, c})
		step(d[:5], nil)
		step(d[5:]+"\n", []string{d})
		// a dump followed by text: the text after it is released once its line is complete
		// (a plain dump: an indented one, or one ending in an unavailable stack, makes the command stop
		// with the documented error at the next line - see C07)
		dump := fmt.Sprintf("goroutine %d [running]:\nmain.f(0x%x)\n\t/a/b.go:12 +0x1\n\ngoroutine %d [select]:\nmain.g()\n\t/a/c.go:%d +0x2\n\n", 1+r.Intn(50), r.Intn(1000), 60+r.Intn(50), 1+r.Intn(500))
		e := mark()
		step(dump, nil)
		step(e+"\n", []string{e})
		f := mark()
		step(f+"\n", []string{f})
		stdin.Close()
		select {
		case <-done:
		case <-time.After(10 * time.Second):
			if violation == "" {
				violation = "pp did not terminate within 10 s after its stdin was closed"
			}
		}
		cmd.Process.Kill()
		cmd.Wait()
		res.Count("pp-pipe-runs")
		if violation != "" {
			res.Violation(Finding{Stream: "pp on pipes", What: violation + " (input through " + mode + ")", Op: map[string]interface{}{"command": "pp " + strings.Join(args, " "), "run": run, "input": mode}})
			return
		}
	}
	runC11Preloaded(res, exe, r)
}

// runC11Preloaded: one delivery of exactly N bytes of complete lines is waiting in the pipe when pp
// starts reading (N around the size of the scanner's buffer, so that a single read can fill all the
// room it has); the producer then pauses with the pipe open.  Every line of the block must come out.
func runC11Preloaded(res *Result, exe string, r *Rng) {
	sizes := []int{16384, 32768, 16384 + 64, 4096, 65536 - 4096}
	if res.Tier != "quick" {
		sizes = append(sizes, 16383, 16385, 8192, 49152, 1024, 16384*3+17)
	}
	for k, size := range sizes {
		var sb strings.Builder
		last := ""
		for i := 0; sb.Len() < size; i++ {
			l := fmt.Sprintf("preloaded line %d of block %d ", i, k)
			room := size - sb.Len()
			if room < len(l)+1+20 {
				// the last line takes exactly what is left
				if room < 2 {
					l = ""
				} else {
					l = (l + strings.Repeat("x", room))[:room-1]
				}
				sb.WriteString(l + "\n")
				last = l
				break
			}
			sb.WriteString(l + "\n")
			last = l
		}
		block := sb.String()
		if len(block) != size {
			continue
		}
		pr, pw, err := os.Pipe()
		if err != nil {
			return
		}
		if _, err := pw.Write([]byte(block)); err != nil {
			pr.Close()
			pw.Close()
			return
		}
		cmd := exec.Command(exe, "-no-color", "-rebase=false", "-parse=false")
		cmd.Stdin = pr
		stdout, _ := cmd.StdoutPipe()
		cmd.Stderr = io.Discard
		if err := cmd.Start(); err != nil {
			pr.Close()
			pw.Close()
			return
		}
		pr.Close()
		var mu sync.Mutex
		var got bytes.Buffer
		done := make(chan struct{})
		go func() {
			buf := make([]byte, 65536)
			for {
				n, err := stdout.Read(buf)
				mu.Lock()
				got.Write(buf[:n])
				mu.Unlock()
				if err != nil {
					close(done)
					return
				}
			}
		}()
		ok := false
		deadline := time.Now().Add(10 * time.Second)
		for time.Now().Before(deadline) {
			mu.Lock()
			ok = last == "" || strings.Contains(got.String(), last+"\n")
			mu.Unlock()
			if ok {
				break
			}
			time.Sleep(2 * time.Millisecond)
		}
		mu.Lock()
		have := got.Len()
		mu.Unlock()
		pw.Close()
		select {
		case <-done:
		case <-time.After(10 * time.Second):
		}
		cmd.Process.Kill()
		cmd.Wait()
		res.Count("pp-pipe-preloaded")
		res.Eval(fmt.Sprintf("pp-preloaded|%d", size), true)
		if !ok {
			res.Violation(Finding{Stream: "pp on pipes", What: fmt.Sprintf("one delivery of %d bytes of complete lines was waiting on pp's stdin, the producer then paused with the pipe open, and after 10 s only %d of the %d bytes had appeared on pp's stdout (the last line %q had not)", size, have, size, clip(last)), Op: map[string]interface{}{"command": "pp -no-color -rebase=false -parse=false", "block_bytes": size, "input": "stdin pipe, written before the command starts"}})
			return
		}
	}
}

func runC11Process(res *Result, r *Rng) {
	_, _, base := verifhooks.PathFormats()
	for i := 0; i < countN(res.Tier, 250, 6000); i++ {
		var sb strings.Builder
		type mark struct {
			line string
			end  int
		}
		var marks []mark
		nm := 0
		junk := func(k int) {
			for ; k > 0; k-- {
				nm++
				l := fmt.Sprintf("marker line %d of the live log", nm)
				sb.WriteString(l + "\n")
				marks = append(marks, mark{l + "\n", sb.Len()})
			}
		}
		junk(r.Intn(3))
		for d := 1 + r.Intn(3); d > 0; d-- {
			if r.Chance(1, 5) {
				rs := GenRace(r)
				sb.WriteString(rs.Print(false))
			} else {
				sb.WriteString(GenCfg(r).Dump(GenDump(r, 3, 3)))
			}
			junk(1 + r.Intn(4))
		}
		input := sb.String()
		var sched []int
		switch r.Intn(3) {
		case 0: // everything that is there at once: a dump and the lines after it in one chunk
			sched = []int{}
			for t := 0; t < len(input); {
				k := 200 + r.Intn(4000)
				sched = append(sched, k)
				t += k
			}
		case 1:
			sched = genSched(r, len(input))
		default:
			sched = make([]int, len(input))
			for j := range sched {
				sched[j] = 1
			}
		}
		var out bytes.Buffer
		rd := &SchedReader{data: []byte(input), sched: append([]int{}, sched...), final: io.EOF}
		violation := ""
		rd.OnRead = func(delivered int) {
			if violation != "" {
				return
			}
			o := out.String()
			for _, m := range marks {
				if m.end <= delivered && !strings.Contains(o, m.line) {
					violation = fmt.Sprintf("the source was asked for more after %d bytes had been delivered, but the complete line %q (ends at byte %d) was not in the output yet", delivered, m.line, m.end)
					return
				}
			}
		}
		p := catch(func() { verifhooks.Process(rd, &out, verifhooks.NewPalette(false), stack.AnyPointer, base, nil, nil) })
		res.Eval(input+fmt.Sprint(sched), len(marks) >= 2)
		res.Count("process-live-runs")
		op := map[string]interface{}{"process": true, "input": hb(input), "sched": sched}
		if p != nil {
			res.Violation(Finding{Stream: "process-live", What: fmt.Sprintf("panic: %v", p), Op: op})
		} else if violation != "" {
			res.Violation(Finding{Stream: "process-live", What: violation, Op: op})
		}
	}
}

// genKindSeq draws a production of the dump grammar or of the race grammar as
// a sequence of kindLines names, then mutates it a little.
func genKindSeq(r *Rng) []string {
	var seq []string
	frames := func(fn, file string) {
		for n := 1 + r.Intn(3); n > 0; n-- {
			seq = append(seq, fn, file)
		}
	}
	if r.Chance(2, 3) {
		for g := 1 + r.Intn(3); g > 0; g-- {
			seq = append(seq, []string{"header", "header2"}[r.Intn(2)])
			if r.Chance(1, 6) {
				seq = append(seq, "unavail")
			} else {
				frames("func", "file")
				if r.Chance(1, 4) {
					seq = append(seq, "elided", "func", "file")
				}
			}
			if r.Chance(1, 2) {
				seq = append(seq, "created", "file")
			}
			if g > 1 || r.Bool() {
				seq = append(seq, "blank")
			}
		}
		seq = append(seq, "junk")
	} else {
		seq = append(seq, "sep", "warn", "raceop")
		frames("racefunc", "racefile")
		prev := r.Bool()
		if prev {
			seq = append(seq, "blank", "raceprev")
			frames("racefunc", "racefile")
		}
		seq = append(seq, "blank", "racegor")
		frames("racefunc", "racefile")
		if prev && r.Bool() {
			seq = append(seq, "blank", "racegor7")
			frames("racefunc", "racefile")
		}
		seq = append(seq, "sep", "junk")
	}
	names := []string{"header", "func", "file", "created", "blank", "elided", "unavail", "sep", "warn", "raceop", "raceprev", "racegor", "racefunc", "racefile", "junk"}
	for m := r.Intn(3); m > 0 && len(seq) > 1; m-- {
		i := 1 + r.Intn(len(seq)-1)
		switch r.Intn(3) {
		case 0:
			seq = append(seq[:i], seq[i+1:]...)
		case 1:
			seq = append(seq[:i], append([]string{names[r.Intn(len(names))]}, seq[i:]...)...)
		default:
			seq[i] = names[r.Intn(len(names))]
		}
	}
	return seq
}
