module verifharness

go 1.23.0

toolchain go1.23.5

require github.com/maruel/panicparse/v2 v2.0.0

replace github.com/maruel/panicparse/v2 => /repo
