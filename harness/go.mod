module verifharness

go 1.23.0

toolchain go1.23.5

require (
	github.com/maruel/panicparse/v2 v2.0.0
	golang.org/x/net v0.34.0
)

require (
	github.com/mattn/go-colorable v0.1.14 // indirect
	github.com/mattn/go-isatty v0.0.20 // indirect
	github.com/mgutz/ansi v0.0.0-20200706080929-d51e80ef957d // indirect
	golang.org/x/sys v0.31.0 // indirect
)

replace github.com/maruel/panicparse/v2 => /repo
