package main

import (
	"fmt"
	"strings"
)

func init() {
	props["C01"] = runC01
	props["C08"] = runC08
	props["C09"] = runC09
}

func countN(tier string, quick, thorough int) int {
	if tier == "thorough" {
		return thorough
	}
	if searchMode {
		return quick * 4
	}
	return quick
}

// expectation of a clean scan of exactly one dump that runs to EOF
func checkExact(res *Result, what string, op *ScanOp, got *ScanRes, want []MG, wantFwd, wantRest, wantErr string) bool {
	bad := func(msg string) bool {
		res.Violation(Finding{Stream: "scan", What: what + ": " + msg, Op: op, Expected: map[string]interface{}{"snap": want, "fwd": hb(wantFwd), "rest": hb(wantRest), "err": wantErr}, Got: got})
		return false
	}
	if got.Panic {
		return bad("ScanSnapshot panicked: " + got.PanicMsg)
	}
	if got.Err != wantErr {
		return bad(fmt.Sprintf("error %q, want %q", got.Err, wantErr))
	}
	if got.Snap == nil {
		return bad("no snapshot returned")
	}
	if jsonStr(got.Snap) != jsonStr(want) {
		return bad("parsed goroutines differ from the dump description: " + firstDiff(got.Snap, want))
	}
	if got.Fwd.String() != wantFwd {
		return bad(fmt.Sprintf("forwarded %q, want %q", clip(got.Fwd.String()), clip(wantFwd)))
	}
	if got.Rest.String() != wantRest {
		return bad(fmt.Sprintf("remainder %q, want %q", clip(got.Rest.String()), clip(wantRest)))
	}
	return true
}

func dumpCorpus() []struct {
	name string
	gs   []GSpec
	cfg  PrintCfg
} {
	mk := func(id int, fn string, arg uint64, file string) GSpec {
		return GSpec{ID: id, State: "running", Elided: -1, Frames: []FrameSpec{{Pkg: "main", Name: fn, Args: []ArgSpec{{V: arg}}, File: file, Line: 12, Off: " +0x1"}}}
	}
	two := []GSpec{mk(1, "foo", 1, "/a/b.go"), mk(2, "bar", 2, "/a/c.go")}
	two[1].State = "chan receive"
	esc := []GSpec{{ID: 1, State: "running", Elided: -1, Frames: []FrameSpec{
		{Pkg: "gopkg.in/yaml.v2", Name: "(*Struct).Method", File: "/a/b.go", Line: 12, Off: " +0x1"},
		{Pkg: "a.b/c.d", Name: "F.func1", File: "/a/b.go", Line: 13}}}}
	return []struct {
		name string
		gs   []GSpec
		cfg  PrintCfg
	}{
		{"F1-indented-second-goroutine", two, PrintCfg{Indent: "  ", FileIndent: "\t"}},
		{"F1-indented-crlf", two, PrintCfg{Indent: "\t", FileIndent: "  ", CRLF: true}},
		{"F3-escaped-package-dots", esc, PrintCfg{FileIndent: "\t"}},
	}
}

// C01: generated dumps parse to exactly what they describe.
func runC01(prop string, res *Result, pool *DrvPool, r *Rng) {
	res.Rule = "dump descriptions drawn from a model of runtime/traceback.go's printer (1..N goroutines, frames, nested/elided/'_'/'?' args, created-by with/without parent, unavailable stacks, escaped package paths, gp/m and fp/sp/pc annotations) x print configuration (LF/CRLF, indentation, tab/space file indent); non-trivial = at least 2 goroutines or a non-default print configuration; distinct by hash of the printed text"
	check := func(name string, gs []GSpec, cfg PrintCfg) {
		txt := cfg.Dump(gs)
		want := ExpectedGoroutines(gs)
		op := &ScanOp{Op: "scan", Data: hb(txt), Sched: genSched(r, len(txt)), Final: "eof", WithData: r.Bool()}
		got := implScan(op)
		res.Eval(txt, len(gs) > 1 || cfg.CRLF || cfg.Indent != "" || cfg.FileIndent != "\t")
		res.Count("goroutines:" + sizeClass(len(gs)))
		if cfg.CRLF {
			res.Count("crlf")
		}
		if cfg.Indent != "" {
			res.Count("indented")
		}
		if cfg.FileIndent != "\t" {
			res.Count("space-file-indent")
		}
		checkExact(res, name, op, &got, want, "", "", "eof")
		modelScan(pool, res, op, got, nil)
		// embedded between junk: same goroutines, junk forwarded, trailer returned
		if r.Chance(1, 3) {
			pre := "some log line\npanic: boom\n\n"
			post := "exit status 2\nmore\n"
			op2 := &ScanOp{Op: "scan", Data: hb(pre + txt + post), Sched: genSched(r, len(txt)+40), Final: "eof"}
			got2 := implScan(op2)
			last := gs[len(gs)-1]
			wantErr := ""
			if last.Unavail && last.Created == nil {
				// documented grammar: an unavailable stack must be followed by an
				// empty line or a created-by line; the offending line is still
				// returned unconsumed.
				wantErr = "parse:emptyAfterUnavail"
			}
			if cfg.Indent != "" {
				// an indented dump followed by unindented text ends with an error
				// (pinned by the repository's test 14-InconsistentIndent); the
				// terminating line is still returned unconsumed.
				wantErr = "parse:indent"
			}
			checkExact(res, name+" (embedded)", op2, &got2, want, pre, post, wantErr)
			modelScan(pool, res, op2, got2, nil)
			res.Count("embedded")
		}
		res.Sample(map[string]interface{}{"case": name, "text": clip(txt)})
	}
	for _, c := range dumpCorpus() {
		check("corpus:"+c.name, c.gs, c.cfg)
	}
	// the Lean printer spec the round-trip theorem is about prints the same bytes
	// and expects the same snapshot as this generator
	rule := res.Rule
	runSPEC(prop, res, pool, r.Fork())
	res.Rule = rule
	runLowStreams(res, pool, r.Fork())
	n := countN(res.Tier, 1200, 40000)
	for i := 0; i < n; i++ {
		check("generated", GenDump(r, 6, 5), GenCfg(r))
	}
	// the attributes between the brackets of a goroutine header, in every order and with attributes
	// newer runtimes add (", synctest bubble N", ", leaked"): the state is the first item, the wait
	// time is the item of the form "N minutes", the goroutine is locked iff "locked to thread" is one
	// of the items - wherever it stands
	{
		extras := [][]string{{}, {"locked to thread"}, {"7 minutes"}, {"7 minutes", "locked to thread"}, {"locked to thread", "7 minutes"},
			{"locked to thread", "synctest bubble 3"}, {"7 minutes", "locked to thread", "synctest bubble 3"}, {"synctest bubble 3", "locked to thread"},
			{"synctest bubble 3"}, {"leaked"}, {"locked to thread", "leaked"}, {"12 minutes", "leaked", "locked to thread"}}
		for _, state := range []string{"chan receive", "select", "sync.Mutex.Lock", "GC worker (idle)"} {
			for _, ex := range extras {
				hdr := strings.Join(append([]string{state}, ex...), ", ")
				txt := "goroutine 5 [" + hdr + "]:\nmain.f(0x1)\n\t/a/b.go:12 +0x1\n\ngoroutine 6 [" + state + "]:\nmain.f(0x1)\n\t/a/b.go:12 +0x1\n"
				op := &ScanOp{Op: "scan", Data: hb(txt), Sched: []int{}, Final: "eof"}
				got := implScan(op)
				res.Count("header-attributes")
				wantLocked, wantSleep := false, 0
				for _, e := range ex {
					if e == "locked to thread" {
						wantLocked = true
					}
					if strings.HasSuffix(e, " minutes") {
						fmt.Sscanf(e, "%d minutes", &wantSleep)
					}
				}
				switch {
				case got.Panic || got.Err != "eof" || len(got.Snap) != 2:
					res.Violation(Finding{Stream: "scan", What: fmt.Sprintf("header [%s]: %d goroutines parsed, error %q", hdr, len(got.Snap), got.Err), Op: op, Got: got})
				case got.Snap[0].Sig.State.String() != state || got.Snap[0].Sig.Locked != wantLocked || got.Snap[0].Sig.SMin != wantSleep || got.Snap[0].Sig.SMax != wantSleep:
					res.Violation(Finding{Stream: "scan", What: fmt.Sprintf("header [%s]: parsed state %q locked=%v sleep=%d~%d, want state %q locked=%v sleep=%d", hdr, got.Snap[0].Sig.State.String(), got.Snap[0].Sig.Locked, got.Snap[0].Sig.SMin, got.Snap[0].Sig.SMax, state, wantLocked, wantSleep), Op: op, Got: got})
				}
				modelScan(pool, res, op, got, nil)
			}
		}
	}
	// a dump of many thousand goroutines (a server with a goroutine per connection)
	{
		var big []GSpec
		for g := 0; g < 12000; g++ {
			big = append(big, GSpec{ID: g + 1, State: "IO wait", Elided: -1, Frames: []FrameSpec{{Pkg: "main", Name: "serve", Args: []ArgSpec{{V: uint64(0xc000000000 + g*64)}}, File: "/srv/app/conn.go", Line: 40 + g%7, Off: " +0x2b"}}})
		}
		// (implementation against the description only: the list-based model is not run on 600 KB)
		txt := PrintCfg{FileIndent: "\t"}.Dump(big)
		op := &ScanOp{Op: "scan", Data: hb(txt), Sched: genSched(r, len(txt)), Final: "eof", WithData: r.Bool()}
		got := implScan(op)
		small := &ScanOp{Op: "scan", Data: hb(clip(txt)), Sched: []int{}, Final: "eof"}
		if got.Panic || got.Err != "eof" || len(got.Snap) != len(big) || got.Fwd.String() != "" || got.Rest.String() != "" {
			res.Violation(Finding{Stream: "scan", What: fmt.Sprintf("a dump of %d goroutines (3 lines each): %d goroutines parsed, error %q, %d bytes forwarded, %d bytes left over", len(big), len(got.Snap), got.Err, len(got.Fwd.String()), len(got.Rest.String())), Op: small})
		} else {
			want := ExpectedGoroutines(big)
			for i := range want {
				if jsonStr(got.Snap[i]) != jsonStr(want[i]) {
					res.Violation(Finding{Stream: "scan", What: fmt.Sprintf("a dump of %d goroutines: goroutine %d differs from its description: %s", len(big), i, firstDiff(got.Snap[i:i+1], want[i:i+1])), Op: small})
					break
				}
			}
		}
		res.Count("many-goroutines")
	}
	runLiveC01(res)
	// many goroutines / deep stacks / long lines
	for i := 0; i < countN(res.Tier, 6, 200); i++ {
		gs := GenDump(r, 40, 30)
		if r.Chance(1, 2) {
			// a line longer than the read buffer
			gs[0].State = strings.Repeat("x", 16380+r.Intn(8))
		}
		if r.Chance(1, 3) && !gs[0].Unavail {
			gs[0].Frames[0].File = "/" + strings.Repeat("d/", 9000+r.Intn(9000)) + "f.go"
		}
		check("generated-large", gs, GenCfg(r))
		res.Count("large")
	}
	// full variant product on a fixed dump
	base := GenDump(NewRng(7), 3, 3)
	for _, crlf := range []bool{false, true} {
		for _, ind := range []string{"", " ", "\t", "  \t"} {
			for _, fi := range []string{"\t", " ", "    "} {
				check("variant-product", base, PrintCfg{CRLF: crlf, Indent: ind, FileIndent: fi})
			}
		}
	}
}

// C08: generated race reports parse to exactly what they describe.
func runC08(prop string, res *Result, pool *DrvPool, r *Rng) {
	res.Rule = "race reports drawn from a model of tsan's Go report printer (2..4 operations by distinct non-main goroutines, stacks of 1..4 frames with arguments, a non-empty subset of goroutines with a creation section in any order, running/finished) x LF/CRLF x surrounding text; non-trivial = every report (>= 2 operations); distinct by hash of the text"
	rule := res.Rule
	runSPEC(prop, res, pool, r.Fork())
	res.Rule = rule
	runLowStreams(res, pool, r.Fork())
	runLiveC08(res)
	n := countN(res.Tier, 1500, 50000)
	for i := 0; i < n; i++ {
		rs := GenRace(r)
		crlf := r.Chance(1, 5)
		txt := rs.Print(crlf)
		pre, post := "", ""
		if r.Bool() {
			pre = "GOTRACEBACK=all\nhello\n"
		}
		if r.Bool() {
			post = "Found 1 data race(s)\nexit status 66\n"
		}
		op := &ScanOp{Op: "scan", Data: hb(pre + txt + post), Sched: genSched(r, len(txt)), Final: "eof", WithData: r.Bool()}
		got := implScan(op)
		res.Eval(txt, true)
		res.Count(fmt.Sprintf("ops:%d", len(rs.Ops)))
		res.Count(fmt.Sprintf("sections:%d", len(rs.Gors)))
		if post != "" {
			res.Count("trailer")
		}
		checkExact(res, "race report", op, &got, rs.Expected(), pre, post, "")
		modelScan(pool, res, op, got, nil)
		// a creation section naming a goroutine that took part in no operation is an error
		if r.Chance(1, 4) {
			bad := rs
			bad.Gors = append([]RaceGor{}, rs.Gors...)
			k := r.Intn(len(bad.Gors))
			g := bad.Gors[k]
			g.ID = 1000 + r.Intn(100)
			bad.Gors[k] = g
			op2 := &ScanOp{Op: "scan", Data: hb(bad.Print(false)), Sched: []int{}, Final: "eof"}
			got2 := implScan(op2)
			res.Count("unknown-creator")
			if got2.Panic || got2.Err != "parse:raceUnknownGoroutine" {
				res.Violation(Finding{Stream: "scan", What: fmt.Sprintf("creation section for a goroutine without operation: err=%q panic=%v, want an error", got2.Err, got2.Panic), Op: op2, Got: got2})
			} else {
				// never a misattribution: no goroutine got the stranger's creation stack
				for gi, g := range got2.Snap {
					want := bad.Expected()[gi]
					if jsonStr(g.Sig.Created) != jsonStr(want.Sig.Created) && len(g.Sig.Created.Calls) != 0 {
						// sections printed before the stranger are legitimately attached; anything else is not
						if jsonStr(g.Sig.Created) != jsonStr(rs.Expected()[gi].Sig.Created) {
							res.Violation(Finding{Stream: "scan", What: "a creation stack was attributed to the wrong goroutine", Op: op2, Got: got2})
						}
					}
				}
			}
			modelScan(pool, res, op2, got2, nil)
		}
		res.Sample(map[string]interface{}{"text": clip(txt)})
	}
}

// C09: the result does not depend on the delivery.
func runC09(prop string, res *Result, pool *DrvPool, r *Rng) {
	res.Rule = "streams (junk, generated dumps and race reports, trailers, lines around the 16 KiB buffer size) each scanned under several delivery schedules (all at once, 1 byte, small chunks with zero-length reads, buffer-size +-2, bursts of 99 zero reads, random) x EOF with/after the last data; non-trivial = the stream contains a dump; distinct by hash of (stream, schedule)"
	n := countN(res.Tier, 500, 12000)
	for i := 0; i < n; i++ {
		data, hasDump := genStream(r)
		base := &ScanOp{Op: "scan", Data: hb(data), Sched: []int{}, Final: "eof"}
		ref := implScan(base)
		modelScan(pool, res, base, ref, nil)
		for k := 0; k < 5; k++ {
			op := &ScanOp{Op: "scan", Data: hb(data), Sched: genSched(r, len(data)), Final: "eof", WithData: r.Bool()}
			got := implScan(op)
			res.Eval(data+fmt.Sprint(op.Sched, op.WithData), hasDump)
			if d := sameScan(&ref, &got); d != "" {
				res.Violation(Finding{Stream: "scan", What: "result depends on the delivery schedule: " + d, Op: op, Expected: ref, Got: got})
			}
			if k == 0 {
				modelScan(pool, res, op, got, nil)
			}
		}
		if i < 3 {
			res.Sample(map[string]interface{}{"stream": clip(data)})
		}
	}
	// a line longer than the reader's buffer, followed by much more than a buffer of further input (text
	// and a dump), delivered in pieces larger than the buffer: whatever room a Read is offered, nothing
	// behind the long line may be lost
	for _, L := range []int{16385, 20000, 40000, 70000} {
		var sb strings.Builder
		sb.WriteString("intro\n" + strings.Repeat("x", L) + "\n")
		for k := 0; k < 400+r.Intn(200); k++ {
			fmt.Fprintf(&sb, "filler line %d after the long line ........................................\n", k)
		}
		sb.WriteString("goroutine 1 [running]:\nmain.f(0x1)\n\t/a/b.go:12 +0x1\n\ngoroutine 2 [select]:\nmain.g()\n\t/a/c.go:3 +0x2\n\ntrailer\n")
		data := sb.String()
		ref := implScan(&ScanOp{Op: "scan", Data: hb(data), Sched: []int{1000}, Final: "eof"})
		// reference by small pieces: every Read returns at most 1000 bytes
		small := make([]int, len(data)/1000+2)
		for j := range small {
			small[j] = 1000
		}
		ref = implScan(&ScanOp{Op: "scan", Data: hb(data), Sched: small, Final: "eof"})
		for _, chunk := range []int{0, 16384, 16385, 40000, 1 << 20} {
			var sched []int
			if chunk != 0 {
				sched = make([]int, len(data)/chunk+2)
				for j := range sched {
					sched[j] = chunk
				}
			} else {
				sched = []int{}
			}
			for _, wd := range []bool{false, true} {
				op := &ScanOp{Op: "scan", Data: hb(data), Sched: sched, Final: "eof", WithData: wd}
				got := implScan(op)
				res.Eval(fmt.Sprintf("longline|%d|%d|%v", L, chunk, wd), true)
				res.Count("long-line-then-much-more")
				if d := sameScan(&ref, &got); d != "" {
					res.Violation(Finding{Stream: "scan", What: fmt.Sprintf("a %d-byte line followed by %d more bytes: the result with deliveries of up to %d bytes (0 = whatever a Read has room for) differs from the result with deliveries of 1000 bytes: %s", L, len(data)-L-7, chunk, d), Op: map[string]interface{}{"long_line_bytes": L, "total_bytes": len(data), "delivery": chunk, "with_data": wd}})
				}
			}
		}
	}
	// exhaustive: every chunking of short inputs
	shorts := []string{"goroutine 1 [r]:\nm.f()\n\ta.go:1\n", "x\n==================\ny", "goroutine 1 [r]:\n\nz"}
	maxLen := countN(res.Tier, 11, 15)
	for _, s := range shorts {
		if len(s) > maxLen {
			s = s[len(s)-maxLen:]
		}
		ref := implScan(&ScanOp{Data: hb(s), Sched: []int{}, Final: "eof"})
		for mask := 0; mask < 1<<(len(s)-1); mask++ {
			var sched []int
			run := 1
			for b := 0; b < len(s)-1; b++ {
				if mask&(1<<b) != 0 {
					sched = append(sched, run)
					run = 1
				} else {
					run++
				}
			}
			sched = append(sched, run)
			op := &ScanOp{Op: "scan", Data: hb(s), Sched: sched, Final: "eof"}
			got := implScan(op)
			res.Eval(s+fmt.Sprint(sched), true)
			res.Count("exhaustive-chunking")
			if d := sameScan(&ref, &got); d != "" {
				res.Violation(Finding{Stream: "scan", What: "result depends on the chunking: " + d, Op: op, Expected: ref, Got: got})
			}
		}
	}
}

// genStream draws junk with 0..2 dumps or race reports embedded.
func genStream(r *Rng) (string, bool) {
	var sb strings.Builder
	hasDump := false
	junk := func() {
		for k := r.Intn(4); k > 0; k-- {
			switch r.Intn(10) {
			case 0:
				sb.WriteString("==================\n")
			case 1:
				sb.WriteString("WARNING: DATA RACE\n")
			case 2:
				if r.Chance(1, 6) {
					sb.WriteString(strings.Repeat("z", 16382+r.Intn(5)) + "\n")
				} else {
					sb.WriteString("zzz\n")
				}
			case 3:
				sb.WriteString("\n")
			case 4:
				sb.WriteString("goroutine nope [x]:\r\n")
			case 5:
				sb.WriteString("\tsome/file.go:12 +0x1\n")
			default:
				sb.WriteString(fmt.Sprintf("log line %d\n", r.Intn(1000)))
			}
		}
	}
	junk()
	for k := r.Intn(3); k > 0; k-- {
		hasDump = true
		if r.Chance(1, 3) {
			rs := GenRace(r)
			sb.WriteString(rs.Print(r.Chance(1, 6)))
		} else {
			sb.WriteString(GenCfg(r).Dump(GenDump(r, 4, 4)))
		}
		if r.Bool() {
			sb.WriteString("\n")
		}
		junk()
	}
	s := sb.String()
	if r.Chance(1, 4) && len(s) > 0 {
		s = strings.TrimSuffix(s, "\n")
	}
	return s, hasDump
}
