package main

import "fmt"

// Constructed signatures: a universe in which goroutines differ in exactly the
// attributes each similarity level is supposed to ignore or respect.

func scalar(v uint64) MArg {
	return MArg{V: v, Ptr: v > ptrFloor && v < ptrCeil}
}

func aggOf(elided bool, vs ...MArg) MArg {
	if vs == nil {
		vs = []MArg{} // an empty list, not JSON null
	}
	return MArg{Agg: &MAgg{Elided: elided, Values: vs}}
}

var argVariants = [][]MArg{
	{},
	{scalar(1)},
	{scalar(2)},
	{scalar(0xc000010000)},
	{scalar(0xc000020000)},
	{{Otl: true}},
	{scalar(1), scalar(0xc000010000)},
	{scalar(1), scalar(0xc000020000)},
	{scalar(2), scalar(0xc000010000)},
	{aggOf(false, scalar(0xc000010000), scalar(1))},
	{aggOf(false, scalar(0xc000020000), scalar(1))},
	{aggOf(false, scalar(0xc000010000), scalar(2))},
	{aggOf(true, scalar(0xc000010000), scalar(1))},
	{aggOf(false, aggOf(false, scalar(0xc000030000)), scalar(7))},
	{aggOf(false, aggOf(false, scalar(0xc000040000)), scalar(7))},
	{aggOf(false, aggOf(false, scalar(5)), scalar(7))},
	{scalar(0xc000010000), scalar(0xc000010000)},
	{scalar(0xc000010000), scalar(0xc000020000)},
	{{V: 3, Inacc: true}},
	{{V: 3}},
	{aggOf(false)},
	{scalar(ptrFloor)},
	{scalar(ptrFloor + 1)},
	{{V: 1, Inacc: true}},
	{{V: 2, Inacc: true}},
	{{V: 0xc000010000, Ptr: true, Inacc: true}},
	{{V: 0xc000020000, Ptr: true, Inacc: true}},
	{scalar(1), {V: 7, Inacc: true}},
	{scalar(2), {V: 7, Inacc: true}},
	// arguments that FOLLOW an aggregate, and aggregates between scalars
	{aggOf(false, scalar(1), scalar(2)), scalar(3)},
	{aggOf(false, scalar(1), scalar(2)), scalar(4)},
	{aggOf(false, scalar(1), scalar(2)), scalar(0xc000010000)},
	{aggOf(false, scalar(1), scalar(2)), scalar(0xc000020000)},
	{scalar(1), aggOf(false, scalar(5)), scalar(6)},
	{scalar(1), aggOf(false, scalar(5)), scalar(7)},
	{aggOf(false, scalar(1)), aggOf(false, scalar(0xc000010000))},
	{aggOf(false, scalar(1)), aggOf(false, scalar(0xc000020000))},
	// the same leaf values, nested differently (and with a nested elision)
	{aggOf(false, scalar(0xc000010000), scalar(2)), scalar(3)},
	{scalar(0xc000010000), aggOf(false, scalar(2), scalar(3))},
	{scalar(0xc000010000), scalar(2), scalar(3)},
	{aggOf(false, scalar(1), scalar(2))},
	{aggOf(true, scalar(1), scalar(2))},
}

type frameKind struct {
	pkg, name, file string
	line            int
	loc             int
}

var frameKinds = []frameKind{
	{"main", "main", "/home/u/app/main.go", 10, 0},
	{"main", "worker", "/home/u/app/main.go", 20, 1},
	{"main", "worker", "/home/u/app/main.go", 21, 1},
	{"main", "worker", "/home/u/app/other.go", 20, 1},
	{"github.com/foo/bar", "Do", "/gp/src/github.com/foo/bar/do.go", 33, 2},
	{"github.com/foo/bar", "do", "/gp/src/github.com/foo/bar/do.go", 34, 2},
	{"gopkg.in/yaml.v2", "Unmarshal", "/gp/pkg/mod/gopkg.in/yaml.v2@v2.4.0/yaml.go", 7, 3},
	{"net/http", "(*conn).serve", "/goroot/src/net/http/server.go", 1900, 4},
	{"runtime", "gopark", "/goroot/src/runtime/proc.go", 300, 4},
	{"sync", "(*Mutex).Lock", "/goroot/src/sync/mutex.go", 80, 4},
	{"example.com/m", "Run", "/work/m/run.go", 5, 1},
	{"unknown/pkg", "F", "/somewhere/f.go", 1, 0},
	{"main", "worker", "/home/u/b/a.go", 10, 1},
	{"main", "worker", "/home/u/a/b.go", 20, 1},
	{"main", "worker", "/home/u/a/a.go", 20, 1},
	// source paths with fewer than two slashes (no last-directory part), next to paths whose
	// last-directory order and whole-path order disagree
	{"main", "worker", "m.go", 20, 1},
	{"main", "worker", "z/a/x.go", 20, 1},
	{"main", "worker", "b/b/x.go", 20, 1},
	{"main", "worker", "_cgo_gotypes.go", 20, 1},
}

func mkCall(k frameKind, args []MArg, elided bool) MCall {
	f := FrameSpec{Pkg: k.pkg, Name: k.name, File: k.file, Line: k.line}
	c := expCall(&f, 0, false)
	c.Loc = k.loc
	vs := make([]MArg, len(args))
	copy(vs, args)
	c.Args = MArgs{Processed: []HB{}, Values: vs, Elided: elided}
	return c
}

func mkCreated(k frameKind, parent int) MCall {
	f := FrameSpec{Pkg: k.pkg, Name: k.name, File: k.file, Line: k.line}
	c := expCall(&f, parent, false)
	c.Loc = k.loc
	return c
}

var sigStates = []string{"running", "chan receive", "select", "IO wait"}

// GenSig draws a signature; `family` keeps the frames fixed so that draws from
// one family differ only in arguments, sleep, lock, state and creator.
type SigFamily struct {
	frames []frameKind
	elided bool
	proc   bool // the calls carry a typed rendering (Args.Processed), as after source analysis
}

func GenFamily(r *Rng) SigFamily {
	n := 1 + r.Intn(3)
	f := SigFamily{elided: r.Chance(1, 10)}
	for i := 0; i < n; i++ {
		f.frames = append(f.frames, frameKinds[r.Intn(len(frameKinds))])
	}
	return f
}

func (f SigFamily) Draw(r *Rng, spread int) MSig {
	s := MSig{State: hb(sigStates[0])}
	s.Stack.Elided = f.elided
	s.Stack.Calls = []MCall{}
	s.Created.Calls = []MCall{}
	for _, k := range f.frames {
		av := argVariants[r.Intn(min(len(argVariants), 2+spread*3))]
		if r.Chance(1, 4) {
			// the whole catalogue now and then: inaccurate ('?') values, nested aggregates, boundary values
			av = argVariants[r.Intn(len(argVariants))]
		}
		c := mkCall(k, av, r.Chance(1, 12))
		if f.proc {
			for _, v := range av {
				c.Args.Processed = append(c.Args.Processed, hb(fmt.Sprintf("int(%d)", v.V)))
			}
		}
		s.Stack.Calls = append(s.Stack.Calls, c)
	}
	if r.Chance(1, 1+spread) {
		s.State = hb(sigStates[r.Intn(len(sigStates))])
	}
	if r.Chance(1, 3) {
		s.SMin = 1 + r.Intn(30)
		s.SMax = s.SMin
	}
	s.Locked = r.Chance(1, 4)
	if r.Chance(1, 3) {
		s.Created.Calls = append(s.Created.Calls, mkCreated(frameKinds[r.Intn(3)], r.Intn(2)*7))
		if r.Chance(1, 3) {
			// a whole creation stack, as in a race report: the same go statement reached through
			// different callers
			for k := 1 + r.Intn(2); k > 0; k-- {
				s.Created.Calls = append(s.Created.Calls, mkCreated(frameKinds[r.Intn(4)], 0))
			}
		}
	}
	return s
}

// GenSnapshot draws goroutines from a few families with distinct ids.
func GenSnapshot(r *Rng, maxG int) []MG {
	nf := 1 + r.Intn(3)
	fams := make([]SigFamily, nf)
	// the typed rendering is a function of the source and the values: all the
	// calls of a snapshot have it, or none
	proc := r.Chance(1, 4)
	for i := range fams {
		fams[i] = GenFamily(r)
		fams[i].proc = proc
	}
	if nf >= 2 && r.Chance(1, 3) {
		// a twin family: the same positions (file:line), state, creator and argument shapes, but a
		// different function at one frame (compiler-generated wrappers at <autogenerated>:1, closures
		// inlined into different callers): position alone does not identify a frame
		tw := SigFamily{elided: fams[0].elided, proc: proc, frames: append([]frameKind{}, fams[0].frames...)}
		j := r.Intn(len(tw.frames))
		if r.Bool() {
			tw.frames[j].name = "(*outerB)." + tw.frames[j].name
		} else {
			tw.frames[j].pkg = tw.frames[j].pkg + "x"
		}
		fams[1] = tw
	}
	n := 1 + r.Intn(maxG)
	spread := r.Intn(4)
	ids := r.Perm(n * 2)
	gs := make([]MG, n)
	// the crashing goroutine is the one flagged First, wherever it stands: a caller may have sorted,
	// filtered or assembled the list (in one case out of ten nobody is flagged)
	first := 0
	switch r.Intn(10) {
	case 0, 1, 2:
		first = r.Intn(n)
	case 3:
		first = -1
	}
	for i := range gs {
		gs[i] = MG{Sig: fams[r.Intn(nf)].Draw(r, spread), ID: ids[i] + 1, First: i == first}
	}
	if r.Chance(1, 6) {
		// goroutine 0 is a legal id (the scheduler's g0 in a GOTRACEBACK=system dump, printed first)
		k := 0
		if first >= 0 && r.Bool() {
			k = first
		} else {
			k = r.Intn(n)
		}
		gs[k].ID = 0
	}
	return gs
}

func describeSig(s *MSig) string {
	d := fmt.Sprintf("%s/%d-%d/%v", s.State.String(), s.SMin, s.SMax, s.Locked)
	for _, c := range s.Stack.Calls {
		d += " " + c.Fn.C.String() + "(" + jsonStr(c.Args.Values) + ")"
	}
	return d
}
